/-
  C20 — the DESERIALIZING side of palette's serde support, composed: the translated methods of `alpha_deserializer.rs` driven end to end are the tree-level
  model functions that the round-trip theorems (`C20_Serde`, `C20_SerdeGeneral`) are about.

  `Tie_Serde.lean` ties every method body of `AlphaDeserializer`, `AlphaMapVisitor`, `AlphaSeqVisitor`, `MapWrapper`, `AlphaFieldDeserializerSeed`,
  `AlphaFieldVisitor`, `StructFieldDeserializer` (translated from the current source text into `Gen.BodySerde.*` on every run) to a method-level model, one
  method at a time.  `PaletteModel/SerdeDrive.lean` supplies the two things that are not palette code as small executable definitions - (i) the map / sequence
  access of a self-describing format over a `Serde.GTree`, (ii) what `#[derive(Deserialize)]` generates for a colour struct with descriptor `d` - and wires the
  translated methods to them (`Serde.Drive.alphaDeserialize` = translated `Alpha::deserialize` -> derived `C::deserialize` -> translated
  `AlphaDeserializer::deserialize_struct` -> format -> translated `AlphaMapVisitor::visit_map` -> derived `visit_map` -> translated
  `MapWrapper::next_key_seed` (its `loop`) / `next_value_seed` -> format's access -> translated `AlphaFieldDeserializerSeed::deserialize` ->
  translated `AlphaFieldVisitor::visit_str` / `visit_u64` -> translated `StructFieldDeserializer::deserialize_identifier` -> derived `__FieldVisitor`).

  Proved here, for EVERY descriptor `d`, format `f`, generic tree `t` (every map, with the alpha key anywhere, repeated, absent, unknown keys, positional
  keys; every sequence; every leaf) and every fuel of at least `turns t` (= entries + 1) for the two loops - so without a fuel hypothesis at `turns t`:

  * `colorDeserialize_is_deColor`            (ii) over (i) is `Serde.deColor` (the derived visitor of SerdeDrive is the model function the C20 theorems use);
  * `mapWrapper_nextKeySeed_terminates`      the translated `loop` of `MapWrapper::next_key_seed` over `es` remaining entries ends within `es.length + 1`
                                             turns (never `none`), for any wrapped seed, with the value `skipAlpha`;
  * `colorDeserializeAlpha_is_deAlphaRaw`    `C::deserialize(AlphaDeserializer)` = `Serde.deAlphaRaw` (colour and content of the alpha cell): the fold of
                                             `Serde.alphaMapStep` for maps (`_map`: exact), `seqVisit` for sequences; with the format's `end_seq` on the
                                             unread elements (`withEndSeq`) exact for every tree, and exact as it stands whenever nothing is left unread;
  * `alphaDeserialize_is_deAlpha`, `preAlphaDeserialize_is_deAlpha`, `optionalAlpha_is_deAlphaOpt`, `optionalPreAlpha_is_deAlphaOpt`
                                             the four translated entry points = `Serde.deAlpha` / `Serde.deAlphaOpt` at `cfgAlpha` / `cfgPreAlpha`
                                             (`_map`: for maps as they stand; general: with `withEndSeq`; `_at_turns`: fuel instantiated).
  The behaviours named in the property are then corollaries of the model-level theorems of `C20_SerdeGeneral` (alpha key intercepted wherever it occurs:
  `deAlpha_perm`; duplicate alpha: `duplicate_alpha_never_ok`; missing alpha: `alpha_required` / `optional_alpha_absent`; unknown keys: `unknown_skipped_alpha`);
  `examples` at the end run the driven code on such inputs.

  What `withEndSeq` is: serde_json's `SeqAccess` borrows the parser, so after `visit_seq` returns the format still sees the elements the visitor did not
  read and `end_seq` refuses them (`Serde.Err.trailing` in the model).  The translation passes the access to `AlphaMapVisitor::visit_seq` by value and drops it
  (conventions of BodyPrimSerde.lean), so the number of elements read is not part of the translated visitor's result and the check cannot be driven through
  it; it is stated on `unread d t` = the elements after the first `fields + 1`, and `seq_access_after_visit` proves that this is the state in which the
  calls made by the translated `visit_seq` leave the access.  For maps nothing is unread (`derived_visit_map_consumes`).
  Still modelled, not translated: (i) and (ii) themselves (serde_json / ron, serde_derive), as before.
-/
import PaletteProofs.Lemmas.SerdeCompose
import PaletteProofs.C20_SerdeGeneral

namespace C20.Compose
open Prim Serde Serde.Proto Serde.Drive

variable {α κ β : Type}

theorem turns_map {es : List (Key × GVal α)} {fuel : Nat} (h : turns (GTree.map es) ≤ fuel) : es.length < fuel := by
  simp only [turns] at h; omega

/-! ## (ii) over (i) is `Serde.deColor` -/

/-- the derived `Deserialize` of a colour struct as written in `SerdeDrive.lean`, run over the format's accesses, is `Serde.deColor` - for every descriptor,
    format and tree; the `while let` needs at most `turns t` turns -/
theorem colorDeserialize_is_deColor (tr : Bool) (f : Fmt) (d : Desc) (t : GTree α) (fuel : Nat) (h : turns t ≤ fuel) :
    colorDeserialize fuel tr f d t = lift (deColor tr f d t) := by
  cases t with
  | val v => rfl
  | map es =>
    simp only [colorDeserialize, fmtDeserializeStruct, derivedVisitMap, derived_loop_direct tr f d es _ fuel (turns_map h), deColor]
    cases foldRes (mapStep tr f d) (List.map (fun _ => none) d.fields) es with
    | error e => rfl
    | ok slots =>
      simp only []
      cases collect d.fields slots <;> rfl
  | seq xs =>
    simp only [colorDeserialize, fmtDeserializeStruct, derivedVisitSeq, derivedSeqFields_is_seqFields, deColor]
    cases f.structFromSeq
    · rfl
    · simp only [if_true]
      cases seqFields tr f d.fields 0 xs with
      | error e => rfl
      | ok r =>
        obtain ⟨c, rest⟩ := r
        cases rest <;> rfl

/-- the derived `visit_map` reads every entry: the format's `end_map` finds nothing left -/
theorem derived_visit_map_consumes (tr : Bool) (f : Fmt) (d : Desc) (es : List (Key × GVal α)) (fuel : Nat) (h : es.length < fuel)
    (c : List α) (m : MapAcc α) (hr : derivedVisitMap fmtMapOps fuel tr f d ⟨es, none⟩ = .ok (c, m)) : m.rest = [] := by
  simp only [derivedVisitMap, derived_loop_direct tr f d es _ fuel h] at hr
  cases hf : foldRes (mapStep tr f d) (List.map (fun _ => none) d.fields) es with
  | error e => simp [hf] at hr
  | ok slots =>
    simp only [hf] at hr
    cases hc : collect d.fields slots with
    | error e => simp [hc, lift, Prim.tryE] at hr
    | ok c' =>
      simp only [hc, lift, Prim.tryE, Except.ok.injEq, Prod.mk.injEq] at hr
      rw [← hr.2]

/-! ## the `loop` of `MapWrapper::next_key_seed` terminates -/

/-- **no fuel hypothesis is needed for the translated `loop`**: around a map access with `es` entries left, `Gen.BodySerde.mapWrapperNextKeySeed` with any fuel
    above `es.length` returns `some` - for any wrapped seed, any content of the cell - and its value is `skipAlpha`: alpha keys taken out wherever they occur
    (a name `"alpha"`, or the position `field_count`), a second one is `duplicate field "alpha"`, the first other key replayed to the wrapped seed -/
theorem mapWrapper_nextKeySeed_terminates (n : Nat) (seed : IdSeed κ) (es : List (Key × GVal α)) (a : Option α) (fuel : Nat) (h : es.length < fuel) :
    Gen.BodySerde.mapWrapperNextKeySeed (fun m s => (fmtMapOps (α := α)).nextKeySeed m (alphaFieldSeed s))
        (fun m => (fmtMapOps (α := α)).nextValueSeed m alphaValue) errDuplicate fuel ⟨⟨es, none⟩, a, some n⟩ seed
      = some (skipAlpha cfgAlpha n seed es a) :=
  wrapperNextKey_is_skipAlpha cfgAlpha rfl rfl n seed es a fuel h

/-! ## `C::deserialize(AlphaDeserializer { .. })` is `Serde.deAlphaRaw` -/

/-- the configurations the translated literals agree with (`"alpha"` in `visit_str`, in `duplicate_field`, in `missing_field`) -/
structure CfgTied (g : Cfg) : Prop where
  key : g.deStrKey = "alpha"
  dup : g.deDupName = "alpha"
  missing : g.missingName = "alpha"

theorem cfgAlpha_tied : CfgTied cfgAlpha := ⟨rfl, rfl, rfl⟩
theorem cfgPreAlpha_tied : CfgTied cfgPreAlpha := ⟨rfl, rfl, rfl⟩

/-- map shape, exact: translated `deserialize_struct` + `AlphaMapVisitor::visit_map` + `MapWrapper` + field visitor around the derived `visit_map`, over
    the format's map access, is the model's fold of `alphaMapStep` followed by `collect` -/
theorem colorDeserializeAlpha_map (g : Cfg) (hg : CfgTied g) (f : Fmt) (d : Desc)
    (es : List (Key × GVal α)) (fo fi : Nat) (ho : es.length < fo) (hi : es.length < fi) :
    colorDeserializeAlpha fo fi g.hueTransparent f d ⟨.map es, none⟩ = lift (deAlphaRaw g f d (.map es)) := by
  simp only [colorDeserializeAlpha, Tie.tie_deDeserializeStruct, Serde.Proto.deDeserializeStruct, fmtDeserializeStruct,
    Tie.tie_mapVisitorVisitMap, Serde.Proto.mapVisitorVisitMap, derivedVisitMap, names_length,
    derived_loop_over_wrapper g hg.key hg.dup f d es _ none fo fi ho hi, deAlphaRaw, andThen]
  cases foldRes (alphaMapStep g f d) (List.map (fun _ => none) d.fields, none) es with
  | error e => rfl
  | ok st =>
    obtain ⟨slots, a⟩ := st
    simp only []
    cases collect d.fields slots <;> rfl

/-- what `AlphaMapVisitor::visit_seq` returns over the colour's derived `visit_seq`: the colour, then ONE more element into the cell -/
def seqVisit (g : Cfg) (f : Fmt) (d : Desc) (xs : List (GVal α)) : Res (List α × Option α) :=
  match seqFields g.hueTransparent f d.fields 0 xs with
  | .ok (c, []) => .ok (c, none)
  | .ok (c, v :: _) => (match decodeNum v with
    | .ok a => .ok (c, some a)
    | .error e => .error e)
  | .error e => .error e

/-- sequence shape: translated `deserialize_struct` + `AlphaMapVisitor::visit_seq` (`field_count = Some(..)`: the colour's `visit_seq`, then `next_element`
    into the cell) over the format's sequence access -/
theorem colorDeserializeAlpha_seq (g : Cfg) (f : Fmt) (d : Desc) (xs : List (GVal α)) (fo fi : Nat) :
    colorDeserializeAlpha fo fi g.hueTransparent f d ⟨.seq xs, none⟩
      = if f.structFromSeq then lift (seqVisit g f d xs) else .error (.de .invalidType) := by
  simp only [colorDeserializeAlpha, Tie.tie_deDeserializeStruct, Serde.Proto.deDeserializeStruct, fmtDeserializeStruct,
    Tie.tie_mapVisitorVisitSeq, Serde.Proto.mapVisitorVisitSeq, derivedVisitSeq, derivedSeqFields_is_seqFields, andThen, seqVisit]
  cases f.structFromSeq
  · rfl
  · simp only [if_true, Option.isNone_some, Bool.false_eq_true, if_false]
    cases seqFields g.hueTransparent f d.fields 0 xs with
    | error e => rfl
    | ok r =>
      obtain ⟨c, rest⟩ := r
      cases rest with
      | nil => rfl
      | cons v vs =>
        simp only [lift, Prim.tryE, seqNext, alphaValue]
        cases decodeNum v <;> rfl

/-- the other visitor, `AlphaSeqVisitor` (reached through `deserialize_seq`), composes to the same function of the sequence -/
theorem seqDeserializeAlpha_is_seqVisit (g : Cfg) (f : Fmt) (d : Desc) (xs : List (GVal α)) :
    seqDeserializeAlpha g.hueTransparent f d ⟨.seq xs, none⟩ = lift (seqVisit g f d xs) := by
  simp only [seqDeserializeAlpha, Tie.tie_deDeserializeSeq, Serde.Proto.deDeserializeSeq, fmtDeserializeSeq,
    Tie.tie_seqVisitorVisitSeq, Serde.Proto.seqVisitorVisitSeq, derivedVisitSeq, derivedSeqFields_is_seqFields, andThen, seqVisit]
  cases seqFields g.hueTransparent f d.fields 0 xs with
  | error e => rfl
  | ok r =>
    obtain ⟨c, rest⟩ := r
    cases rest with
    | nil => rfl
    | cons v vs =>
      simp only [lift, Prim.tryE, seqNext, alphaValue]
      cases decodeNum v <;> rfl

/-- the elements of a sequence that the colour's `visit_seq` (one per field) and the alpha's `next_element` leave unread: what the format's `end_seq` sees -/
def unread (d : Desc) : GTree α → List (GVal α)
  | .seq xs => xs.drop (d.fields.length + 1)
  | _ => []

/-- the format's `end_seq` after the visitor returned (header: why it is not driven through the translated `visit_seq`) -/
def withEndSeq (d : Desc) (t : GTree α) (r : Except DErr β) : Except DErr β :=
  Prim.tryE r fun x => Prim.tryE (endSeq (unread d t)) fun _ => .ok x

/-- `unread` is the state in which the calls made by the translated `AlphaMapVisitor::visit_seq` (= `Serde.Proto.mapVisitorVisitSeq`: the colour's
    `visit_seq`, then one `next_element`) leave the format's sequence access -/
theorem seq_access_after_visit (tr : Bool) (f : Fmt) (d : Desc) (xs : List (GVal α)) (c : List α) (q1 q2 : List (GVal α)) (a : Option α)
    (h1 : derivedVisitSeq fmtSeqOps tr f d xs = .ok (c, q1)) (h2 : seqNext q1 alphaValue = .ok (a, q2)) : q2 = unread d (.seq xs) := by
  simp only [derivedVisitSeq, derivedSeqFields_is_seqFields] at h1
  cases hs : seqFields tr f d.fields 0 xs with
  | error e => simp [hs, lift] at h1
  | ok r =>
    obtain ⟨c', rest⟩ := r
    simp only [hs, lift, Except.ok.injEq, Prod.mk.injEq] at h1
    have hr := seqFields_rest _ _ _ _ _ _ _ hs
    obtain ⟨_, rfl⟩ := h1
    have hu : unread d (.seq xs) = rest.drop 1 := by simp only [unread]; rw [hr, List.drop_drop]
    rw [hu]
    cases rest with
    | nil => simp only [seqNext, Except.ok.injEq, Prod.mk.injEq] at h2; rw [← h2.2]; rfl
    | cons v vs =>
      simp only [seqNext] at h2
      cases hv : alphaValue v with
      | error e => simp [hv, Prim.tryE] at h2
      | ok x => simp only [hv, Prim.tryE, Except.ok.injEq, Prod.mk.injEq] at h2; rw [← h2.2]; rfl

/-- `Serde.deAlphaRaw` on a sequence is `seqVisit` followed by the format's `end_seq` -/
theorem deAlphaRaw_seq (g : Cfg) (f : Fmt) (d : Desc) (xs : List (GVal α)) :
    lift (deAlphaRaw g f d (.seq xs))
      = withEndSeq d (.seq xs) (if f.structFromSeq then lift (seqVisit g f d xs) else .error (.de .invalidType)) := by
  simp only [deAlphaRaw, seqVisit, withEndSeq, unread]
  cases f.structFromSeq
  · rfl
  · simp only [if_true]
    cases hs : seqFields g.hueTransparent f d.fields 0 xs with
    | error e => rfl
    | ok r =>
      obtain ⟨c, rest⟩ := r
      have hr := seqFields_rest _ _ _ _ _ _ _ hs
      have hu : List.drop (d.fields.length + 1) xs = rest.drop 1 := by rw [hr, List.drop_drop]
      rw [hu]
      cases rest with
      | nil => rfl
      | cons v vs =>
        cases vs with
        | nil => simp only []; cases decodeNum v <;> rfl
        | cons v' vs' => simp only []; cases decodeNum v <;> rfl

/-- **`Serde.deAlphaRaw` is the translated deserializing chain**, every tree: `C::deserialize(AlphaDeserializer { inner: format over t, alpha: None })`
    followed by the format's `end_seq` returns exactly `deAlphaRaw g f d t` - the colour and the content of the alpha cell, or the same error -/
theorem colorDeserializeAlpha_is_deAlphaRaw (g : Cfg) (hg : CfgTied g) (f : Fmt) (d : Desc) (t : GTree α) (fo fi : Nat)
    (ho : turns t ≤ fo) (hi : turns t ≤ fi) :
    withEndSeq d t (colorDeserializeAlpha fo fi g.hueTransparent f d ⟨t, none⟩) = lift (deAlphaRaw g f d t) := by
  cases t with
  | val v => rfl
  | map es =>
    rw [colorDeserializeAlpha_map g hg f d es fo fi (turns_map ho) (turns_map hi)]
    simp only [withEndSeq, unread, endSeq, Prim.tryE]
    cases lift (deAlphaRaw g f d (.map es)) <;> rfl
  | seq xs => rw [colorDeserializeAlpha_seq, deAlphaRaw_seq]

/-- a tree whose reading leaves nothing for `end_seq`: every map, every leaf, every sequence of at most `fields + 1` elements (in particular everything
    `Alpha::serialize` writes, and everything shorter) -/
def NoTrailing (d : Desc) (t : GTree α) : Prop := unread d t = []

theorem noTrailing_map (d : Desc) (es : List (Key × GVal α)) : NoTrailing d (.map es) := rfl
theorem noTrailing_seq (d : Desc) (xs : List (GVal α)) (h : xs.length ≤ d.fields.length + 1) : NoTrailing d (.seq xs) := by
  simp [NoTrailing, unread, List.drop_eq_nil_iff, h]

theorem withEndSeq_noTrailing (d : Desc) (t : GTree α) (h : NoTrailing d t) (r : Except DErr β) : withEndSeq d t r = r := by
  simp only [withEndSeq, NoTrailing] at *
  rw [h]; cases r <;> rfl

/-- exact as it stands when nothing is left unread -/
theorem colorDeserializeAlpha_is_deAlphaRaw_noTrailing (g : Cfg) (hg : CfgTied g) (f : Fmt) (d : Desc) (t : GTree α) (fo fi : Nat)
    (ho : turns t ≤ fo) (hi : turns t ≤ fi) (hn : NoTrailing d t) :
    colorDeserializeAlpha fo fi g.hueTransparent f d ⟨t, none⟩ = lift (deAlphaRaw g f d t) := by
  rw [← colorDeserializeAlpha_is_deAlphaRaw g hg f d t fo fi ho hi, withEndSeq_noTrailing d t hn]


/-- an empty cell after a successful read means the sequence ended with the colour: nothing unread -/
theorem cell_none_noTrailing (g : Cfg) (f : Fmt) (d : Desc) (t : GTree α) (fo fi : Nat) (c : List α)
    (h : colorDeserializeAlpha fo fi g.hueTransparent f d ⟨t, none⟩ = .ok (c, none)) : NoTrailing d t := by
  cases t with
  | val v => rfl
  | map es => rfl
  | seq xs =>
    rw [colorDeserializeAlpha_seq] at h
    cases hf : f.structFromSeq
    · simp [hf] at h
    · simp only [hf, if_true, seqVisit] at h
      cases hs : seqFields g.hueTransparent f d.fields 0 xs with
      | error e => simp [hs, lift] at h
      | ok r =>
        obtain ⟨c', rest⟩ := r
        have hr := seqFields_rest _ _ _ _ _ _ _ hs
        cases rest with
        | nil =>
          simp only [NoTrailing, unread, List.drop_eq_nil_iff]
          have : xs.length ≤ d.fields.length := List.drop_eq_nil_iff.mp hr.symm
          omega
        | cons v vs =>
          simp only [hs] at h
          cases hv : decodeNum v <;> simp [hv, lift] at h

/-! ## the four translated entry points -/

theorem withEndSeq_map {γ : Type} (d : Desc) (t : GTree α) (h : β → γ) (r : Except DErr β) : withEndSeq d t (r.map h) = (withEndSeq d t r).map h := by
  cases r with
  | error e => rfl
  | ok x => simp only [withEndSeq, Except.map, Prim.tryE]; cases endSeq (unread d t) <;> rfl

theorem lift_map {γ : Type} (h : β → γ) (r : Res β) : (lift r).map h = lift (r.map h) := by cases r <;> rfl


def pairA (x : AlphaOf (List α) α) : List α × α := (x.color, x.alpha)
def pairP (x : PreAlphaOf (List α) α) : List α × α := (x.color, x.alpha)

section entry
variable (g : Cfg) (hg : CfgTied g) (f : Fmt) (d : Desc) (t : GTree α) (fo fi : Nat) (ho : turns t ≤ fo) (hi : turns t ≤ fi)
include hg ho hi

/-- the last step of `Alpha::deserialize` / `PreAlpha::deserialize` on top of `colorDeserializeAlpha_is_deAlphaRaw` -/
theorem required_step :
    withEndSeq d t (match colorDeserializeAlpha fo fi g.hueTransparent f d ⟨t, none⟩ with
      | .ok (c, some a) => .ok (c, a)
      | .ok (_, none) => .error (errMissing "alpha")
      | .error e => .error e) = lift (deAlpha g f d t) := by
  have hR := colorDeserializeAlpha_is_deAlphaRaw g hg f d t fo fi ho hi
  have hN := cell_none_noTrailing g f d t fo fi
  unfold deAlpha
  rw [hg.missing]
  cases hraw : deAlphaRaw g f d t with
  | error e =>
    rw [hraw] at hR
    cases hc : colorDeserializeAlpha fo fi g.hueTransparent f d ⟨t, none⟩ with
    | error e' =>
      rw [hc] at hR
      simp only [withEndSeq, Prim.tryE, lift, Except.error.injEq] at hR ⊢
      exact hR
    | ok r =>
      obtain ⟨c, a⟩ := r
      rw [hc] at hR
      cases a with
      | none => rw [withEndSeq_noTrailing d t (hN c hc)] at hR; simp [lift] at hR
      | some a =>
        simp only [withEndSeq, Prim.tryE] at hR ⊢
        cases hu : endSeq (unread d t) with
        | error e' =>
          rw [hu] at hR
          simp only [lift, Except.error.injEq] at hR ⊢
          exact hR
        | ok u => rw [hu] at hR; simp [lift] at hR
  | ok r =>
    obtain ⟨c, a⟩ := r
    rw [hraw] at hR
    cases hc : colorDeserializeAlpha fo fi g.hueTransparent f d ⟨t, none⟩ with
    | error e' => rw [hc] at hR; simp [withEndSeq, Prim.tryE, lift] at hR
    | ok r' =>
      obtain ⟨c', a'⟩ := r'
      rw [hc] at hR
      simp only [withEndSeq, Prim.tryE] at hR ⊢
      cases hu : endSeq (unread d t) with
      | error e' => rw [hu] at hR; simp [lift] at hR
      | ok u =>
        rw [hu] at hR
        simp only [lift, Except.ok.injEq, Prod.mk.injEq] at hR
        obtain ⟨rfl, rfl⟩ := hR
        cases a' <;> simp [lift, errMissing]

/-- the last step of the optional-alpha helpers -/
theorem optional_step (maxI : α) :
    withEndSeq d t (match colorDeserializeAlpha fo fi g.hueTransparent f d ⟨t, none⟩ with
      | .ok (c, a) => .ok (c, a.getD maxI)
      | .error e => .error e) = lift (deAlphaOpt g f d maxI t) := by
  have hR := colorDeserializeAlpha_is_deAlphaRaw g hg f d t fo fi ho hi
  have h1 : (match colorDeserializeAlpha fo fi g.hueTransparent f d ⟨t, none⟩ with
      | .ok (c, a) => .ok (c, a.getD maxI)
      | .error e => .error e) = (colorDeserializeAlpha fo fi g.hueTransparent f d ⟨t, none⟩).map (fun r => (r.1, r.2.getD maxI)) := by
    cases colorDeserializeAlpha fo fi g.hueTransparent f d ⟨t, none⟩ <;> rfl
  have h2 : deAlphaOpt g f d maxI t = (deAlphaRaw g f d t).map (fun r => (r.1, r.2.getD maxI)) := by
    unfold deAlphaOpt; cases deAlphaRaw g f d t <;> rfl
  rw [h1, h2, withEndSeq_map, hR, lift_map]

/-- **`Serde.deAlpha` is the translated `Alpha::deserialize`, driven end to end** (general `g`; instances below): every tree, any fuel ≥ `turns t` -/
theorem alphaDeserialize_general :
    withEndSeq d t ((alphaDeserialize fo fi g.hueTransparent f d t).map pairA) = lift (deAlpha g f d t) := by
  rw [← required_step g hg f d t fo fi ho hi]
  congr 1
  simp only [Drive.alphaDeserialize, Tie.tie_alphaDeserialize, Serde.Proto.alphaDeserialize]
  cases colorDeserializeAlpha fo fi g.hueTransparent f d ⟨t, none⟩ with
  | error e => rfl
  | ok r => obtain ⟨c, a⟩ := r; cases a <;> rfl

theorem preAlphaDeserialize_general :
    withEndSeq d t ((preAlphaDeserialize fo fi g.hueTransparent f d t).map pairP) = lift (deAlpha g f d t) := by
  rw [← required_step g hg f d t fo fi ho hi]
  congr 1
  simp only [Drive.preAlphaDeserialize, Gen.BodySerde.preAlphaDeserialize, Prim.tryE]
  cases colorDeserializeAlpha fo fi g.hueTransparent f d ⟨t, none⟩ with
  | error e => rfl
  | ok r => obtain ⟨c, a⟩ := r; cases a <;> rfl

theorem optionalAlpha_general (maxI minI : α) :
    withEndSeq d t ((optionalAlpha fo fi g.hueTransparent f d maxI minI t).map pairA) = lift (deAlphaOpt g f d maxI t) := by
  rw [← optional_step g hg f d t fo fi ho hi maxI]
  congr 1
  simp only [Drive.optionalAlpha, Tie.tie_deserializeWithOptionalAlpha, Serde.Proto.optionalAlpha]
  cases colorDeserializeAlpha fo fi g.hueTransparent f d ⟨t, none⟩ with
  | error e => rfl
  | ok r => obtain ⟨c, a⟩ := r; cases a <;> rfl

theorem optionalPreAlpha_general (maxI minI : α) :
    withEndSeq d t ((optionalPreAlpha fo fi g.hueTransparent f d maxI minI t).map pairP) = lift (deAlphaOpt g f d maxI t) := by
  rw [← optional_step g hg f d t fo fi ho hi maxI]
  congr 1
  simp only [Drive.optionalPreAlpha, Gen.BodySerde.deserializeWithOptionalPreAlpha, Prim.tryE]
  cases colorDeserializeAlpha fo fi g.hueTransparent f d ⟨t, none⟩ with
  | error e => rfl
  | ok r => obtain ⟨c, a⟩ := r; cases a <;> rfl

end entry

/-! ## the statements at the two configurations of the crate, without fuel hypothesis -/

/-- **`Alpha::<C, T>::deserialize`, translated and driven end to end, is `Serde.deAlpha cfgAlpha`** for every descriptor, format and tree (any fuel ≥ `turns t`) -/
theorem alphaDeserialize_is_deAlpha (f : Fmt) (d : Desc) (t : GTree α) (fo fi : Nat) (ho : turns t ≤ fo) (hi : turns t ≤ fi) :
    withEndSeq d t ((alphaDeserialize fo fi cfgAlpha.hueTransparent f d t).map pairA) = lift (deAlpha cfgAlpha f d t) :=
  alphaDeserialize_general cfgAlpha cfgAlpha_tied f d t fo fi ho hi

/-- **`PreAlpha::<C>::deserialize`** likewise is `Serde.deAlpha cfgPreAlpha` -/
theorem preAlphaDeserialize_is_deAlpha (f : Fmt) (d : Desc) (t : GTree α) (fo fi : Nat) (ho : turns t ≤ fo) (hi : turns t ≤ fi) :
    withEndSeq d t ((preAlphaDeserialize fo fi cfgPreAlpha.hueTransparent f d t).map pairP) = lift (deAlpha cfgPreAlpha f d t) :=
  preAlphaDeserialize_general cfgPreAlpha cfgPreAlpha_tied f d t fo fi ho hi

/-- **`deserialize_with_optional_alpha`** is `Serde.deAlphaOpt cfgAlpha` with the default `maxI` (`min_intensity` is in scope and unused) -/
theorem optionalAlpha_is_deAlphaOpt (f : Fmt) (d : Desc) (maxI minI : α) (t : GTree α) (fo fi : Nat) (ho : turns t ≤ fo) (hi : turns t ≤ fi) :
    withEndSeq d t ((optionalAlpha fo fi cfgAlpha.hueTransparent f d maxI minI t).map pairA) = lift (deAlphaOpt cfgAlpha f d maxI t) :=
  optionalAlpha_general cfgAlpha cfgAlpha_tied f d t fo fi ho hi maxI minI

/-- **`deserialize_with_optional_pre_alpha`** is `Serde.deAlphaOpt cfgPreAlpha` -/
theorem optionalPreAlpha_is_deAlphaOpt (f : Fmt) (d : Desc) (maxI minI : α) (t : GTree α) (fo fi : Nat) (ho : turns t ≤ fo) (hi : turns t ≤ fi) :
    withEndSeq d t ((optionalPreAlpha fo fi cfgPreAlpha.hueTransparent f d maxI minI t).map pairP) = lift (deAlphaOpt cfgPreAlpha f d maxI t) :=
  optionalPreAlpha_general cfgPreAlpha cfgPreAlpha_tied f d t fo fi ho hi maxI minI

/-- the fuel instantiated: no hypothesis left -/
theorem alphaDeserialize_at_turns (f : Fmt) (d : Desc) (t : GTree α) :
    withEndSeq d t ((alphaDeserialize (turns t) (turns t) cfgAlpha.hueTransparent f d t).map pairA) = lift (deAlpha cfgAlpha f d t) :=
  alphaDeserialize_is_deAlpha f d t _ _ (Nat.le_refl _) (Nat.le_refl _)
theorem preAlphaDeserialize_at_turns (f : Fmt) (d : Desc) (t : GTree α) :
    withEndSeq d t ((preAlphaDeserialize (turns t) (turns t) cfgPreAlpha.hueTransparent f d t).map pairP) = lift (deAlpha cfgPreAlpha f d t) :=
  preAlphaDeserialize_is_deAlpha f d t _ _ (Nat.le_refl _) (Nat.le_refl _)
theorem optionalAlpha_at_turns (f : Fmt) (d : Desc) (maxI minI : α) (t : GTree α) :
    withEndSeq d t ((optionalAlpha (turns t) (turns t) cfgAlpha.hueTransparent f d maxI minI t).map pairA) = lift (deAlphaOpt cfgAlpha f d maxI t) :=
  optionalAlpha_is_deAlphaOpt f d maxI minI t _ _ (Nat.le_refl _) (Nat.le_refl _)
theorem optionalPreAlpha_at_turns (f : Fmt) (d : Desc) (maxI minI : α) (t : GTree α) :
    withEndSeq d t ((optionalPreAlpha (turns t) (turns t) cfgPreAlpha.hueTransparent f d maxI minI t).map pairP) = lift (deAlphaOpt cfgPreAlpha f d maxI t) :=
  optionalPreAlpha_is_deAlphaOpt f d maxI minI t _ _ (Nat.le_refl _) (Nat.le_refl _)

/-- exact as they stand when nothing is left for `end_seq` - every map (`noTrailing_map`), every sequence of at most `fields + 1` elements (`noTrailing_seq`) -/
theorem alphaDeserialize_exact (f : Fmt) (d : Desc) (t : GTree α) (hn : NoTrailing d t) (fo fi : Nat) (ho : turns t ≤ fo) (hi : turns t ≤ fi) :
    (alphaDeserialize fo fi cfgAlpha.hueTransparent f d t).map pairA = lift (deAlpha cfgAlpha f d t) := by
  rw [← alphaDeserialize_is_deAlpha f d t fo fi ho hi, withEndSeq_noTrailing d t hn]
theorem preAlphaDeserialize_exact (f : Fmt) (d : Desc) (t : GTree α) (hn : NoTrailing d t) (fo fi : Nat) (ho : turns t ≤ fo) (hi : turns t ≤ fi) :
    (preAlphaDeserialize fo fi cfgPreAlpha.hueTransparent f d t).map pairP = lift (deAlpha cfgPreAlpha f d t) := by
  rw [← preAlphaDeserialize_is_deAlpha f d t fo fi ho hi, withEndSeq_noTrailing d t hn]
theorem optionalAlpha_exact (f : Fmt) (d : Desc) (maxI minI : α) (t : GTree α) (hn : NoTrailing d t) (fo fi : Nat) (ho : turns t ≤ fo) (hi : turns t ≤ fi) :
    (optionalAlpha fo fi cfgAlpha.hueTransparent f d maxI minI t).map pairA = lift (deAlphaOpt cfgAlpha f d maxI t) := by
  rw [← optionalAlpha_is_deAlphaOpt f d maxI minI t fo fi ho hi, withEndSeq_noTrailing d t hn]
theorem optionalPreAlpha_exact (f : Fmt) (d : Desc) (maxI minI : α) (t : GTree α) (hn : NoTrailing d t) (fo fi : Nat) (ho : turns t ≤ fo) (hi : turns t ≤ fi) :
    (optionalPreAlpha fo fi cfgPreAlpha.hueTransparent f d maxI minI t).map pairP = lift (deAlphaOpt cfgPreAlpha f d maxI t) := by
  rw [← optionalPreAlpha_is_deAlphaOpt f d maxI minI t fo fi ho hi, withEndSeq_noTrailing d t hn]

/-- map shape (the struct shape of JSON and RON), the statement of the task: no fuel hypothesis, no end check -/
theorem alphaDeserialize_map (f : Fmt) (d : Desc) (es : List (Key × GVal α)) :
    (alphaDeserialize (es.length + 1) (es.length + 1) cfgAlpha.hueTransparent f d (.map es)).map pairA = lift (deAlpha cfgAlpha f d (.map es)) :=
  alphaDeserialize_exact f d (.map es) (noTrailing_map d es) _ _ (Nat.le_refl _) (Nat.le_refl _)

/-! ## the clauses of the property, for the driven translated code (corollaries through `C20_SerdeGeneral`) -/

section clauses
open C20.General

/-- **round trip through the translated deserializer, keys in any order**: the entries `Alpha<C>` serializes to (`present_serAlpha`), permuted at will - the
    alpha anywhere among the colour's fields -, read back by the driven translated `Alpha::deserialize` as the same colour and alpha; every well-formed descriptor -/
theorem driven_roundtrip_alpha_any_order (f : Fmt) (d : Desc) (hw : d.WF cfgAlpha) (c : List α) (hc : c.length = d.fields.length) (a : α)
    {es : List (Key × GVal α)} (h : es.Perm (entries cfgAlpha.hueTransparent f d.fields c ++ [(.str cfgAlpha.serStructKey, .num a)])) :
    (alphaDeserialize (es.length + 1) (es.length + 1) cfgAlpha.hueTransparent f d (.map es)).map pairA = .ok (c, a) := by
  rw [alphaDeserialize_map, C20.General.roundtrip_alpha_struct_any_order cfgAlpha C20.General.cfg_wf.1 f d hw c hc a h]; rfl

theorem driven_roundtrip_prealpha_any_order (f : Fmt) (d : Desc) (hw : d.WF cfgPreAlpha) (c : List α) (hc : c.length = d.fields.length) (a : α)
    {es : List (Key × GVal α)} (h : es.Perm (entries cfgPreAlpha.hueTransparent f d.fields c ++ [(.str cfgPreAlpha.serStructKey, .num a)])) :
    (preAlphaDeserialize (es.length + 1) (es.length + 1) cfgPreAlpha.hueTransparent f d (.map es)).map pairP = .ok (c, a) := by
  rw [preAlphaDeserialize_exact f d (.map es) (noTrailing_map d es) (es.length + 1) (es.length + 1) (Nat.le_refl _) (Nat.le_refl _),
    C20.General.roundtrip_alpha_struct_any_order cfgPreAlpha C20.General.cfg_wf.2 f d hw c hc a h]; rfl

/-- **compact sequence form** (formats that read a struct from a sequence): the colour's values then the alpha -/
theorem driven_roundtrip_alpha_seq (f : Fmt) (hf : f.structFromSeq = true) (d : Desc) (c : List α) (hc : c.length = d.fields.length) (a : α) (fo fi : Nat)
    (ho : 1 ≤ fo) (hi : 1 ≤ fi) :
    (alphaDeserialize fo fi cfgAlpha.hueTransparent f d (.seq (values cfgAlpha.hueTransparent f d.fields c ++ [.num a]))).map pairA = .ok (c, a) := by
  rw [alphaDeserialize_exact f d _ (noTrailing_seq d _ (by simp [values, List.length_zipWith]; omega)) fo fi ho hi]
  simp only [deAlpha, C20.General.deAlphaRaw_seq cfgAlpha f hf d c hc a]; rfl

/-- **data without an alpha field**: `missing field "alpha"` from `Alpha::deserialize`, full opacity (`max_intensity`) from the helper - keys in any order -/
theorem driven_alpha_required (f : Fmt) (d : Desc) (hw : d.WF cfgAlpha) (c : List α) (hc : c.length = d.fields.length)
    {es : List (Key × GVal α)} (h : es.Perm (entries cfgAlpha.hueTransparent f d.fields c)) :
    (alphaDeserialize (es.length + 1) (es.length + 1) cfgAlpha.hueTransparent f d (.map es)).map pairA = .error (.de (.missingField "alpha")) := by
  rw [alphaDeserialize_map, C20.General.alpha_required cfgAlpha f d hw c hc h]; rfl

theorem driven_optional_alpha_absent (f : Fmt) (d : Desc) (hw : d.WF cfgAlpha) (c : List α) (hc : c.length = d.fields.length) (maxI minI : α)
    {es : List (Key × GVal α)} (h : es.Perm (entries cfgAlpha.hueTransparent f d.fields c)) :
    (optionalAlpha (es.length + 1) (es.length + 1) cfgAlpha.hueTransparent f d maxI minI (.map es)).map pairA = .ok (c, maxI) := by
  rw [optionalAlpha_exact f d maxI minI (.map es) (noTrailing_map d es) (es.length + 1) (es.length + 1) (Nat.le_refl _) (Nat.le_refl _),
    C20.General.optional_alpha_absent cfgAlpha f d hw c hc maxI h]; rfl

/-- **two alpha keys** (by name, by position `field_count`, or one each), anywhere in any map: never `Ok` -/
theorem driven_duplicate_alpha_never_ok (f : Fmt) (d : Desc) (l1 l2 l3 : List (Key × GVal α)) (k1 k2 : Key) (v1 v2 : GVal α)
    (h1 : isAlphaKey cfgAlpha d.fields.length k1 = true) (h2 : isAlphaKey cfgAlpha d.fields.length k2 = true) (r : List α × α) (n : Nat)
    (hn : (l1 ++ (k1, v1) :: (l2 ++ (k2, v2) :: l3)).length + 1 = n) :
    (alphaDeserialize n n cfgAlpha.hueTransparent f d (.map (l1 ++ (k1, v1) :: (l2 ++ (k2, v2) :: l3)))).map pairA ≠ .ok r := by
  subst hn
  rw [alphaDeserialize_map]
  intro h
  unfold deAlpha at h
  cases hr : deAlphaRaw cfgAlpha f d (.map (l1 ++ (k1, v1) :: (l2 ++ (k2, v2) :: l3))) with
  | error e => simp [hr, lift] at h
  | ok p => exact C20.General.duplicate_alpha_never_ok cfgAlpha f d l1 l2 l3 k1 k2 v1 v2 h1 h2 p hr

/-- **unknown keys** go through the `MapWrapper` to the colour's visitor, which ignores them: such an entry can be deleted from any map -/
theorem driven_unknown_skipped (f : Fmt) (d : Desc) (l1 l2 : List (Key × GVal α)) (k : Key) (v : GVal α)
    (hk : fieldIndex d.names k = none) (ha : isAlphaKey cfgAlpha d.fields.length k = false) :
    (alphaDeserialize ((l1 ++ (k, v) :: l2).length + 1) ((l1 ++ (k, v) :: l2).length + 1) cfgAlpha.hueTransparent f d (.map (l1 ++ (k, v) :: l2))).map pairA
      = (alphaDeserialize ((l1 ++ l2).length + 1) ((l1 ++ l2).length + 1) cfgAlpha.hueTransparent f d (.map (l1 ++ l2))).map pairA := by
  rw [alphaDeserialize_map, alphaDeserialize_map]
  simp only [deAlpha, C20.General.unknown_skipped_alpha cfgAlpha f d l1 l2 k v hk ha]

end clauses

/-! ## the hypotheses are satisfiable, the statements not vacuous: the driven code on concrete inputs (kernel evaluation) -/

section examples
/-- a colour with a hue field, as in the generated table -/
def hsl : Desc := { name := "Hsl", fields := [⟨"hue", some "RgbHue"⟩, ⟨"saturation", none⟩, ⟨"lightness", none⟩] }

-- alpha key FIRST, then the fields: intercepted where it occurs
example : (alphaDeserialize 5 5 true json hsl (.map [(.str "alpha", .num 4), (.str "hue", .num 1), (.str "saturation", .num 2), (.str "lightness", .num 3)])).map pairA
    = .ok ([1, 2, 3], 4) := by rfl
-- unknown key passed to the colour's visitor and ignored there; positional keys: `3` = `field_count` is the alpha, `1` is `saturation`
example : (alphaDeserialize 6 6 true json hsl (.map [(.str "hue", .num 1), (.str "x", .num 9), (.idx 3, .num 7), (.idx 1, .num 2), (.str "lightness", .num 3)])).map pairA
    = .ok ([1, 2, 3], 7) := by rfl
-- duplicate alpha (by name and by position)
example : (alphaDeserialize 5 5 true json hsl (.map [(.str "alpha", .num 4), (.str "hue", .num 1), (.idx 3, .num 4)])).map pairA
    = .error (.de (.duplicateField "alpha")) := by rfl
-- missing alpha: error for `Alpha::deserialize`, `max_intensity` for the helper
example : (alphaDeserialize 4 4 true json hsl (.map [(.str "hue", .num 1), (.str "saturation", .num 2), (.str "lightness", .num 3)])).map pairA
    = .error (.de (.missingField "alpha")) := by rfl
example : (optionalAlpha 4 4 true json hsl 255 0 (.map [(.str "hue", .num 1), (.str "saturation", .num 2), (.str "lightness", .num 3)])).map pairA
    = .ok ([1, 2, 3], 255) := by rfl
-- sequence shape; too little fuel shows as `fuel`, never as a wrong answer
example : (alphaDeserialize 1 1 true json hsl (.seq [.num 1, .num 2, .num 3, .num 4])).map pairA = .ok ([1, 2, 3], 4) := by rfl
example : (alphaDeserialize 2 9 true json hsl (.map [(.str "hue", .num 1), (.str "saturation", .num 2), (.str "lightness", .num 3)])).map pairA
    = .error .fuel := by rfl
-- a sequence longer than fields + 1: the visitor's value is Ok, the format's `end_seq` refuses (`withEndSeq`), as `Serde.deAlpha` says
example : withEndSeq hsl (.seq [.num 1, .num 2, .num 3, .num 4, .num 5]) ((alphaDeserialize 1 1 true json hsl (.seq [.num 1, .num 2, .num 3, .num 4, .num 5])).map pairA)
    = .error (.de .trailing) := by rfl
example : ¬ NoTrailing hsl (GTree.seq [GVal.num 1, .num 2, .num 3, .num 4, .num 5]) := by simp [NoTrailing, unread, hsl]
example : NoTrailing hsl (GTree.seq [GVal.num 1, .num 2, .num 3, .num 4]) := by rfl
end examples

end C20.Compose
