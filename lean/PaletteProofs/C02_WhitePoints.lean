/-
  C02 / C14 — the white point constants of `white_point.rs` (regenerated into `Gen.Mat.whitePoints` on every run) are the published
  tristimulus values (`PaletteSpec/WhitePoints.lean`): every reference white the CIE formulas divide by or subtract.
-/
import PaletteProofs.KRat
import PaletteSpec.WhitePoints
import PaletteModel.Gen.Matrices

namespace C02Wp
open KRat

def wpQ (n : String) : Option (Rat × Rat × Rat) :=
  (Gen.Mat.whitePoints.find? (·.1 == n)).bind fun e =>
    match e.2 with
    | [x, y, z] => some (KRat.toRat x, KRat.toRat y, KRat.toRat z)
    | _ => none

/-- **every standard illuminant of the crate is the published one**: X and Z within 5e-5 of ASTM E308 (palette rounds the 10° observer
    values to four digits), Y exactly 1; and the table covers every white point of `white_point.rs` (the sixteenth entry of the generated
    table is the DCI white of `encoding/p3.rs`, defined by its chromaticity (0.314, 0.351), checked in the second part) -/
theorem white_points_published :
    Spec.WhitePoints.published.all (fun p => match wpQ p.1 with
      | some (x, y, z) => decide (absR (x - (p.2.1 : Rat) / 100000) ≤ 5 / 100000) && decide (y = 1) && decide (absR (z - (p.2.2 : Rat) / 100000) ≤ 5 / 100000)
      | none => false) = true ∧
    Gen.Mat.whitePoints.length = Spec.WhitePoints.published.length + 1 ∧
    (match wpQ "DciP3" with
      | some (x, y, z) => decide (x / (x + y + z) = 314 / 1000) && decide (y / (x + y + z) = 351 / 1000)
      | none => false) = true := by
  decide +kernel

end C02Wp
