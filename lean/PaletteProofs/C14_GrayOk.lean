/-
  C14 — white and the gray axis in Ottosson's spaces, as theorems at ℝ about the model's own `xyzToOklab`, `oklabToXyz`, `linSrgbToOklab`,
  `oklabToLinSrgb`, `oklabToOklch`, `oklabToOkhsl`, `oklabToOkhsv`, `okhsvToOkhwb`.

  * exact: equal cone responses `M1·xyz = (t,t,t)` give `∛t ·` (row sums of `M2`); Oklab is positively homogeneous of degree 1/3 on the cone of
    non-negative responses; an exact neutral `(L,0,0)` has Oklch chroma 0, Okhsl / Okhsv saturation 0, Okhwb `w + b = 1` (the model's early
    returns), and `oklabToLinSrgb (L,0,0) = (L³,L³,L³)` *exactly* (the three row sums of the 10-digit LMS→sRGB table are exactly 1);
  * quantitative, from the generated tables: `M2`'s row sums are within 4e-8 of (1,0,0) (`C14.oklab_white`, carried to ℝ); Oklab of the crate's
    D65 is within (2e-6, 1.2e-5, 3.8e-5) of (1,0,0) and **not** closer than 3.6e-5 in `b` (second-order expansion of the cube root around the
    decided `M1·D65`); grays `g·D65` scale that by `∛g`; the direct sRGB shortcut sends a linear gray `g` to `∛g·(1,0,0)` within `1e-7·∛g`;
    an exact Oklab neutral goes through `Oklab → Xyz → linear RGB` of each D65 space with spread ≤ `4e-4·L³` (decided over `ℚ` on the model's
    `oklabToXyz` itself — it subsumes the composition of `C14.oklab_back_matrices` and `C14.oklab_neutral_back` — and carried to ℝ by
    homogeneity of degree 3).
-/
import PaletteProofs.C14_GrayNear
import PaletteProofs.C15_Gamut

namespace C14GrayOk
open Ok KRatCast

/-! ### the cube root of the model at ℝ -/

/-- multiplicative on non-negative arguments -/
theorem cbrt_mul {s g : ℝ} (hs : 0 ≤ s) (hg : 0 ≤ g) : Scalar.cbrt (s * g) = Scalar.cbrt s * Scalar.cbrt g := by
  rw [RealScalar.cbrt_of_nonneg (mul_nonneg hs hg), RealScalar.cbrt_of_nonneg hs, RealScalar.cbrt_of_nonneg hg, Real.mul_rpow hs hg]

theorem cbrt_nonneg {x : ℝ} (hx : 0 ≤ x) : 0 ≤ Scalar.cbrt x := by
  rw [RealScalar.cbrt_of_nonneg hx]; exact Real.rpow_nonneg hx _

theorem cbrt_one : Scalar.cbrt (1 : ℝ) = 1 := by
  rw [RealScalar.cbrt_of_nonneg (by norm_num), Real.one_rpow]

/-- first order: `|∛x − 1| ≤ |x − 1|` for `x ≥ 0` -/
theorem cbrt_near_one {x : ℝ} (hx : 0 ≤ x) : |Scalar.cbrt x - 1| ≤ |x - 1| := by
  rw [RealScalar.cbrt_of_nonneg hx]
  have hp : 0 ≤ x ^ ((1 : ℝ) / 3) := Real.rpow_nonneg hx _
  have hp3 : (x ^ ((1 : ℝ) / 3)) ^ 3 = x := C01Cie.cbrt_cube hx
  generalize x ^ ((1 : ℝ) / 3) = p at hp hp3
  have e : x - 1 = (p - 1) * (p ^ 2 + p + 1) := by rw [← hp3]; ring
  rw [e, abs_mul, abs_of_nonneg (a := p ^ 2 + p + 1) (by positivity)]
  nlinarith [abs_nonneg (p - 1), sq_nonneg p]

/-- second order: `|∛x − 1 − (x − 1)/3| ≤ (7/6)(x − 1)²` for `|x − 1| ≤ 1/2` -/
theorem cbrt_linearize {x : ℝ} (h : |x - 1| ≤ 1 / 2) : |Scalar.cbrt x - 1 - (x - 1) / 3| ≤ 7 / 6 * (x - 1) ^ 2 := by
  have hx : 0 ≤ x := by have := (abs_le.mp h).1; linarith
  have h1 := cbrt_near_one hx
  rw [RealScalar.cbrt_of_nonneg hx] at h1 ⊢
  have hp : 0 ≤ x ^ ((1 : ℝ) / 3) := Real.rpow_nonneg hx _
  have hp3 : (x ^ ((1 : ℝ) / 3)) ^ 3 = x := C01Cie.cbrt_cube hx
  generalize x ^ ((1 : ℝ) / 3) = p at hp hp3 h1
  obtain ⟨d, hd⟩ : ∃ d, d = p - 1 := ⟨_, rfl⟩
  obtain ⟨e, he⟩ : ∃ e, e = x - 1 := ⟨_, rfl⟩
  have hpd : p = d + 1 := by linarith
  have hed : e = d * (d ^ 2 + 3 * d + 3) := by rw [he, ← hp3, hpd]; ring
  rw [← hd, ← he] at h1 ⊢
  rw [← he] at h
  have hd1 : -1 ≤ d := by linarith
  have hdh : |d| ≤ 1 / 2 := le_trans h1 h
  have hsq : d ^ 2 ≤ e ^ 2 := sq_le_sq.mpr h1
  have e1 : d - e / 3 = -(d ^ 2 * ((d + 3) / 3)) := by rw [hed]; ring
  have hd2 := (abs_le.mp hdh).2
  rw [e1, abs_neg, abs_of_nonneg (mul_nonneg (sq_nonneg d) (by linarith))]
  have h3 : (d + 3) / 3 ≤ 7 / 6 := by linarith
  calc d ^ 2 * ((d + 3) / 3) ≤ e ^ 2 * (7 / 6) := mul_le_mul hsq h3 (by linarith) (sq_nonneg e)
    _ = 7 / 6 * e ^ 2 := by ring

example : |(1.1 : ℝ) - 1| ≤ 1 / 2 := by rw [abs_le]; constructor <;> norm_num

/-! ### 3a. exact statements -/

theorem mulVec_diag (m : M3 ℝ) (k : ℝ) :
    m.mulVec ⟨k, k, k⟩ = ⟨k * (m.m0 + m.m1 + m.m2), k * (m.m3 + m.m4 + m.m5), k * (m.m6 + m.m7 + m.m8)⟩ := by
  simp only [M3.mulVec]; congr 1 <;> ring

/-- **equal cone responses**: if `M1·xyz = (t,t,t)` then `Oklab = ∛t · (row sums of M2)` — exactly, every `t` -/
theorem xyzToOklab_of_equal_lms (c : V3 ℝ) (t : ℝ) (h : (m1 : M3 ℝ).mulVec c = ⟨t, t, t⟩) :
    xyzToOklab c = ⟨Scalar.cbrt t * ((m2 : M3 ℝ).m0 + (m2 : M3 ℝ).m1 + (m2 : M3 ℝ).m2),
                    Scalar.cbrt t * ((m2 : M3 ℝ).m3 + (m2 : M3 ℝ).m4 + (m2 : M3 ℝ).m5),
                    Scalar.cbrt t * ((m2 : M3 ℝ).m6 + (m2 : M3 ℝ).m7 + (m2 : M3 ℝ).m8)⟩ := by
  unfold xyzToOklab
  simp only [h]
  exact mulVec_diag _ _

/-- the hypothesis is satisfiable with `t ≠ 0`: `M1` is regular, `xyz = adj(M1)·(1,1,1)` has `M1·xyz = det(M1)·(1,1,1)` -/
example : ∃ (c : V3 ℝ) (t : ℝ), t ≠ 0 ∧ (m1 : M3 ℝ).mulVec c = ⟨t, t, t⟩ := by
  obtain ⟨m, hm⟩ : ∃ m : M3 ℝ, m = m1 := ⟨_, rfl⟩
  refine ⟨⟨(m.m4 * m.m8 - m.m5 * m.m7) - (m.m1 * m.m8 - m.m2 * m.m7) + (m.m1 * m.m5 - m.m2 * m.m4),
           -(m.m3 * m.m8 - m.m5 * m.m6) + (m.m0 * m.m8 - m.m2 * m.m6) - (m.m0 * m.m5 - m.m2 * m.m3),
           (m.m3 * m.m7 - m.m4 * m.m6) - (m.m0 * m.m7 - m.m1 * m.m6) + (m.m0 * m.m4 - m.m1 * m.m3)⟩,
          m.m0 * (m.m4 * m.m8 - m.m5 * m.m7) - m.m1 * (m.m3 * m.m8 - m.m5 * m.m6) + m.m2 * (m.m3 * m.m7 - m.m4 * m.m6), ?_, ?_⟩
  · rw [hm]
    simp only [m1, M3.ofK, Gen.Mat.oklabM1, RealScalar.const_eq, RealScalar.eval_neg, RealScalar.eval_ofSci]
    norm_num
  · rw [← hm]; simp only [M3.mulVec]; congr 1 <;> ring

/-- **Oklab is positively homogeneous of degree 1/3** where the cone responses are non-negative: `Oklab(g·xyz) = ∛g · Oklab(xyz)`, `g ≥ 0` -/
theorem xyzToOklab_homogeneous (c : V3 ℝ) (g : ℝ) (hg : 0 ≤ g)
    (h0 : 0 ≤ ((m1 : M3 ℝ).mulVec c).c0) (h1 : 0 ≤ ((m1 : M3 ℝ).mulVec c).c1) (h2 : 0 ≤ ((m1 : M3 ℝ).mulVec c).c2) :
    xyzToOklab ⟨g * c.c0, g * c.c1, g * c.c2⟩ =
      ⟨Scalar.cbrt g * (xyzToOklab c).c0, Scalar.cbrt g * (xyzToOklab c).c1, Scalar.cbrt g * (xyzToOklab c).c2⟩ := by
  unfold xyzToOklab
  have e : (m1 : M3 ℝ).mulVec ⟨g * c.c0, g * c.c1, g * c.c2⟩ =
      ⟨g * ((m1 : M3 ℝ).mulVec c).c0, g * ((m1 : M3 ℝ).mulVec c).c1, g * ((m1 : M3 ℝ).mulVec c).c2⟩ := by
    simp only [M3.mulVec]; congr 1 <;> ring
  simp only [e, cbrt_mul hg h0, cbrt_mul hg h1, cbrt_mul hg h2]
  simp only [M3.mulVec]; congr 1 <;> ring

/-- **Oklch chroma of an exact neutral is 0** -/
theorem oklabToOklch_neutral (L : ℝ) : (oklabToOklch ⟨L, 0, 0⟩).c0 = L ∧ (oklabToOklch ⟨L, 0, 0⟩).c1 = 0 := by
  rw [C02Ok.oklabToOklch_real]; simp

/-- **Okhsl of an exact neutral**: hue 0, saturation 0, lightness `toe L` (the model's early return for an invalid chroma divisor) -/
theorem oklabToOkhsl_neutral (L : ℝ) : oklabToOkhsl ⟨L, 0, 0⟩ = ⟨0.0, 0.0, toe L⟩ := by
  unfold oklabToOkhsl
  simp [chromaOf]

/-- **Okhsv of an exact neutral**: hue 0, saturation 0 (value `toe L`, or the black early return) -/
theorem oklabToOkhsv_neutral (L : ℝ) :
    oklabToOkhsv ⟨L, 0, 0⟩ = if Scalar.eqv L 0.0 then ⟨0.0, 0.0, 0.0⟩ else ⟨0.0, 0.0, toe L⟩ := by
  unfold oklabToOkhsv
  simp [chromaOf]

theorem oklabToOkhsv_neutral_saturation (L : ℝ) : (oklabToOkhsv ⟨L, 0, 0⟩).c1 = 0 := by
  rw [oklabToOkhsv_neutral]; split <;> norm_num

/-- **Okhwb of an exact neutral**: whiteness + blackness = 1 -/
theorem okhwb_neutral (L : ℝ) :
    (okhsvToOkhwb (oklabToOkhsv ⟨L, 0, 0⟩)).c1 + (okhsvToOkhwb (oklabToOkhsv ⟨L, 0, 0⟩)).c2 = 1 := by
  rw [oklabToOkhsv_neutral]; split <;> simp only [okhsvToOkhwb] <;> norm_num

/-- **back, direct sRGB path, exact**: `oklab_to_linear_srgb (L, 0, 0) = (L³, L³, L³)` — the three row sums of the 10-digit LMS→sRGB
    coefficient table are exactly 1 (no mismatch at all) -/
theorem oklabToLinSrgb_neutral (L : ℝ) : oklabToLinSrgb ⟨L, 0, 0⟩ = ⟨L ^ 3, L ^ 3, L ^ 3⟩ := by
  simp only [oklabToLinSrgb, C02Ok.kAt_eq, Gen.Mat.oklabToLinSrgbCoeffs, List.getD_cons_zero, List.getD_cons_succ, RealScalar.eval_neg,
    RealScalar.eval_ofSci, mul_zero, add_zero, sub_zero]
  congr 1 <;> (norm_num; ring)

/-- hence zero saturation in Okhsv / Okhsl comes back as an exact gray in linear sRGB (with `C15.okhsv_sat_zero_gray`, `C15.okhsl_sat_zero_gray`) -/
theorem okhsv_neutral_back (h v : ℝ) :
    (oklabToLinSrgb (okhsvToOklab ⟨h, 0, v⟩)).c0 = (oklabToLinSrgb (okhsvToOklab ⟨h, 0, v⟩)).c1 ∧
    (oklabToLinSrgb (okhsvToOklab ⟨h, 0, v⟩)).c1 = (oklabToLinSrgb (okhsvToOklab ⟨h, 0, v⟩)).c2 := by
  obtain ⟨h1, h2⟩ := C15.okhsv_sat_zero_gray h v
  cases hc : okhsvToOklab (⟨h, 0, v⟩ : V3 ℝ) with
  | mk L a b => rw [hc] at h1 h2; simp only at h1 h2; subst h1 h2; rw [oklabToLinSrgb_neutral]; exact ⟨rfl, rfl⟩

theorem okhsl_neutral_back (h l : ℝ) :
    (oklabToLinSrgb (okhslToOklab ⟨h, 0, l⟩)).c0 = (oklabToLinSrgb (okhslToOklab ⟨h, 0, l⟩)).c1 ∧
    (oklabToLinSrgb (okhslToOklab ⟨h, 0, l⟩)).c1 = (oklabToLinSrgb (okhslToOklab ⟨h, 0, l⟩)).c2 := by
  obtain ⟨h1, h2⟩ := C15.okhsl_sat_zero_gray h l
  cases hc : okhslToOklab (⟨h, 0, l⟩ : V3 ℝ) with
  | mk L a b => rw [hc] at h1 h2; simp only at h1 h2; subst h1 h2; rw [oklabToLinSrgb_neutral]; exact ⟨rfl, rfl⟩

/-! ### 3b. quantitative statements from the generated tables -/

/-- a decided `C14.dist3` bound over `ℚ`, read componentwise at ℝ -/
theorem dist3_real {v w : V3 Rat} {q : Rat} (h : C14.dist3 v w ≤ q) :
    |(castV v).c0 - (castV w).c0| ≤ (q : ℝ) ∧ |(castV v).c1 - (castV w).c1| ≤ (q : ℝ) ∧ |(castV v).c2 - (castV w).c2| ≤ (q : ℝ) := by
  unfold C14.dist3 at h
  rw [max_le_iff, max_le_iff] at h
  exact ⟨absR_sub_le_cast h.1, absR_sub_le_cast h.2.1, absR_sub_le_cast h.2.2⟩

theorem castV_ones : castV ⟨1, 1, 1⟩ = (⟨1, 1, 1⟩ : V3 ℝ) := by simp [castV]
theorem castV_e0 : castV ⟨1, 0, 0⟩ = (⟨1, 0, 0⟩ : V3 ℝ) := by simp [castV]

/-- **row sums of `M2`** are within 4e-8 of `(1, 0, 0)` — `C14.oklab_white` (third clause) carried to ℝ -/
theorem m2_rowsums :
    |((m2 : M3 ℝ).m0 + (m2 : M3 ℝ).m1 + (m2 : M3 ℝ).m2) - 1| ≤ 4e-8 ∧ |(m2 : M3 ℝ).m3 + (m2 : M3 ℝ).m4 + (m2 : M3 ℝ).m5| ≤ 4e-8 ∧
    |(m2 : M3 ℝ).m6 + (m2 : M3 ℝ).m7 + (m2 : M3 ℝ).m8| ≤ 4e-8 := by
  have h := dist3_real C14.oklab_white.2.2
  rw [mulVec_cast, ofK_cast, castV_ones, castV_e0, mulVec_diag] at h
  obtain ⟨h0, h1, h2⟩ := h
  simp only [one_mul, sub_zero] at h0 h1 h2
  have e : ((4 / 100000000 : Rat) : ℝ) = 4e-8 := by norm_num
  rw [e] at h0 h1 h2
  exact ⟨h0, h1, h2⟩

/-- **white with exactly unit cone responses** (the D65 Ottosson's `M1` was derived for) is `(1, 0, 0)` within 4e-8 -/
theorem oklab_of_unit_lms (c : V3 ℝ) (h : (m1 : M3 ℝ).mulVec c = ⟨1, 1, 1⟩) :
    |(xyzToOklab c).c0 - 1| ≤ 4e-8 ∧ |(xyzToOklab c).c1| ≤ 4e-8 ∧ |(xyzToOklab c).c2| ≤ 4e-8 := by
  rw [xyzToOklab_of_equal_lms c 1 h, cbrt_one]
  simpa only [one_mul] using m2_rowsums

/-- its hypothesis is satisfiable: `M1` is regular, so some XYZ has exactly unit cone responses (`adj(M1)·(1,1,1)/det M1`) -/
example : ∃ c : V3 ℝ, (m1 : M3 ℝ).mulVec c = ⟨1, 1, 1⟩ := by
  obtain ⟨m, hm⟩ : ∃ m : M3 ℝ, m = m1 := ⟨_, rfl⟩
  obtain ⟨d, hd⟩ : ∃ d : ℝ, d = m.m0 * (m.m4 * m.m8 - m.m5 * m.m7) - m.m1 * (m.m3 * m.m8 - m.m5 * m.m6) + m.m2 * (m.m3 * m.m7 - m.m4 * m.m6) :=
    ⟨_, rfl⟩
  have hd0 : d ≠ 0 := by
    rw [hd, hm]
    simp only [m1, M3.ofK, Gen.Mat.oklabM1, RealScalar.const_eq, RealScalar.eval_neg, RealScalar.eval_ofSci]
    norm_num
  refine ⟨⟨((m.m4 * m.m8 - m.m5 * m.m7) - (m.m1 * m.m8 - m.m2 * m.m7) + (m.m1 * m.m5 - m.m2 * m.m4)) / d,
           (-(m.m3 * m.m8 - m.m5 * m.m6) + (m.m0 * m.m8 - m.m2 * m.m6) - (m.m0 * m.m5 - m.m2 * m.m3)) / d,
           ((m.m3 * m.m7 - m.m4 * m.m6) - (m.m0 * m.m7 - m.m1 * m.m6) + (m.m0 * m.m4 - m.m1 * m.m3)) / d⟩, ?_⟩
  rw [← hm]; simp only [M3.mulVec]
  congr 1 <;> (field_simp; rw [hd]; ring)

/-! #### an exact Oklab neutral through `Oklab → Xyz → linear RGB` of the D65 spaces -/

/-- the model's `oklabToXyz` commutes with the cast `ℚ → ℝ` (two matrix products and a cube) -/
theorem oklabToXyz_cast (c : V3 Rat) : castV (Ok.oklabToXyz c) = Ok.oklabToXyz (castV c) := by
  unfold Ok.oklabToXyz Ok.m1Inv Ok.m2Inv
  simp only []
  rw [mulVec_cast, ofK_cast, ← ofK_cast Gen.Mat.oklabM2Inv, ← mulVec_cast]
  simp only [castV, Ok.cube, mul_cast]

/-- **`oklabToXyz` is homogeneous of degree 3 on the gray axis** (in fact everywhere; only this is needed) -/
theorem oklabToXyz_neutral_homogeneous (L : ℝ) :
    oklabToXyz ⟨L, 0, 0⟩ = ⟨L ^ 3 * (oklabToXyz (⟨1, 0, 0⟩ : V3 ℝ)).c0, L ^ 3 * (oklabToXyz (⟨1, 0, 0⟩ : V3 ℝ)).c1,
                             L ^ 3 * (oklabToXyz (⟨1, 0, 0⟩ : V3 ℝ)).c2⟩ := by
  unfold oklabToXyz
  simp only [M3.mulVec, cube]
  congr 1 <;> ring

/-- `xyz_to_rgb · oklabToXyz (1, 0, 0)` of a generated space, over `ℚ`, on the model's own functions -/
def backQ (sp : C14Gray.SpaceRow) : V3 Rat := (C14.spaceM sp).2.mulVec (Ok.oklabToXyz (⟨1, 0, 0⟩ : V3 Rat))

/-- **decided**: in each of the four D65 spaces the linear RGB image of the Oklab neutral `(1, 0, 0)` has spread ≤ 4e-4 and every component
    within 4e-4 of 1 (for sRGB the spread is 3.994e-4: the bound is sharp to two digits — second clause) -/
theorem oklab_unit_neutral_back_decided :
    (Gen.Mat.rgbSpaces.filter (·.2.1 == "D65")).all (fun sp =>
      decide (C14.spread3 (backQ sp) ≤ 4 / 10000) && decide (C14.dist3 (backQ sp) ⟨1, 1, 1⟩ ≤ 4 / 10000)) = true ∧
    (Gen.Mat.rgbSpaces.filter (·.2.1 == "D65")).any (fun sp => decide (39 / 100000 < C14.spread3 (backQ sp))) = true := by
  decide +kernel

/-- spread of a real triple -/
noncomputable def spreadR (v : V3 ℝ) : ℝ := max v.c0 (max v.c1 v.c2) - min v.c0 (min v.c1 v.c2)

theorem spread3_cast (v : V3 Rat) : ((C14.spread3 v : Rat) : ℝ) = spreadR (castV v) := by
  unfold C14.spread3 spreadR castV
  push_cast; rfl

theorem spreadR_scale (k : ℝ) (hk : 0 ≤ k) (v : V3 ℝ) : spreadR ⟨k * v.c0, k * v.c1, k * v.c2⟩ = k * spreadR v := by
  unfold spreadR
  simp only [← mul_max_of_nonneg _ _ hk, ← mul_min_of_nonneg _ _ hk]; ring

/-- **an exact Oklab neutral `(L, 0, 0)`, `L ≥ 0`, comes back with (numerically) equal linear RGB components in every D65 space** through the
    XYZ route: spread ≤ `4e-4·L³`, each component within `4e-4·L³` of `L³`.  (For `Rgb<Srgb>` the crate takes the direct path instead, which is
    exact: `oklabToLinSrgb_neutral`.) -/
theorem oklab_neutral_back_tables (sp : C14Gray.SpaceRow) (hsp : sp ∈ Gen.Mat.rgbSpaces) (hD : sp.2.1 = "D65") (L : ℝ) (hL : 0 ≤ L) :
    let rgb := RgbFam.xyzToRgb sp.2.2.2.1 .linear (oklabToXyz ⟨L, 0, 0⟩)
    spreadR rgb ≤ 4e-4 * L ^ 3 ∧ |rgb.c0 - L ^ 3| ≤ 4e-4 * L ^ 3 ∧ |rgb.c1 - L ^ 3| ≤ 4e-4 * L ^ 3 ∧ |rgb.c2 - L ^ 3| ≤ 4e-4 * L ^ 3 := by
  intro rgb
  have hk : 0 ≤ L ^ 3 := by positivity
  -- the decided fact for this space
  have hmem : sp ∈ Gen.Mat.rgbSpaces.filter (·.2.1 == "D65") := List.mem_filter.mpr ⟨hsp, by simp [hD]⟩
  have hdec := List.all_eq_true.mp oklab_unit_neutral_back_decided.1 sp hmem
  simp only [Bool.and_eq_true, decide_eq_true_eq] at hdec
  obtain ⟨hs, hd⟩ := hdec
  -- its real reading
  have hv : castV (backQ sp) = (M3.ofK sp.2.2.2.1 : M3 ℝ).mulVec (oklabToXyz (⟨1, 0, 0⟩ : V3 ℝ)) := by
    unfold backQ C14.spaceM
    rw [mulVec_cast, ofK_cast, oklabToXyz_cast, castV_e0]
  have hs' : spreadR (castV (backQ sp)) ≤ 4e-4 := by
    rw [← spread3_cast]
    have : ((C14.spread3 (backQ sp) : Rat) : ℝ) ≤ ((4 / 10000 : Rat) : ℝ) := by exact_mod_cast hs
    refine le_trans this (by norm_num)
  obtain ⟨d0, d1, d2⟩ := dist3_real hd
  rw [castV_ones] at d0 d1 d2
  have e4 : ((4 / 10000 : Rat) : ℝ) = 4e-4 := by norm_num
  rw [e4] at d0 d1 d2
  -- homogeneity
  have hrgb : rgb = ⟨L ^ 3 * (castV (backQ sp)).c0, L ^ 3 * (castV (backQ sp)).c1, L ^ 3 * (castV (backQ sp)).c2⟩ := by
    rw [hv]
    show RgbFam.xyzToRgb sp.2.2.2.1 .linear (oklabToXyz ⟨L, 0, 0⟩) = _
    rw [oklabToXyz_neutral_homogeneous]
    simp only [RgbFam.xyzToRgb, RgbFam.fromLinear, Transfer.fromLinear, V3.map, id, M3.mulVec]
    congr 1 <;> ring
  generalize castV (backQ sp) = v at hs' d0 d1 d2 hrgb
  rw [hrgb, spreadR_scale _ hk]
  have key (x : ℝ) (hx : |x - 1| ≤ 4e-4) : |L ^ 3 * x - L ^ 3| ≤ 4e-4 * L ^ 3 := by
    have : L ^ 3 * x - L ^ 3 = L ^ 3 * (x - 1) := by ring
    rw [this, abs_mul, abs_of_nonneg hk, mul_comm]
    exact mul_le_mul_of_nonneg_right hx hk
  refine ⟨?_, key _ d0, key _ d1, key _ d2⟩
  rw [mul_comm]; exact mul_le_mul_of_nonneg_right hs' hk

example : ("Srgb", "D65", ([] : List K), ([] : List K), ([] : List (List K))).2.1 = "D65" ∧ (0 : ℝ) ≤ 0.5 := by
  constructor
  · rfl
  · norm_num

/-! #### Oklab of the crate's D65 white, and of its grays -/

/-- one row of `M2` applied to cube roots near 1, expanded to first order with a second-order remainder -/
theorem row_linearize (a0 a1 a2 x0 x1 x2 : ℝ) (h0 : |x0 - 1| ≤ 1 / 2) (h1 : |x1 - 1| ≤ 1 / 2) (h2 : |x2 - 1| ≤ 1 / 2) :
    |a0 * Scalar.cbrt x0 + a1 * Scalar.cbrt x1 + a2 * Scalar.cbrt x2
        - (a0 * (1 + (x0 - 1) / 3) + a1 * (1 + (x1 - 1) / 3) + a2 * (1 + (x2 - 1) / 3))|
      ≤ 7 / 6 * (|a0| * (x0 - 1) ^ 2 + |a1| * (x1 - 1) ^ 2 + |a2| * (x2 - 1) ^ 2) := by
  have t (a x : ℝ) (h : |x - 1| ≤ 1 / 2) : |a * (Scalar.cbrt x - 1 - (x - 1) / 3)| ≤ |a| * (7 / 6 * (x - 1) ^ 2) := by
    rw [abs_mul]; exact mul_le_mul_of_nonneg_left (cbrt_linearize h) (abs_nonneg a)
  have e : a0 * Scalar.cbrt x0 + a1 * Scalar.cbrt x1 + a2 * Scalar.cbrt x2
        - (a0 * (1 + (x0 - 1) / 3) + a1 * (1 + (x1 - 1) / 3) + a2 * (1 + (x2 - 1) / 3))
      = a0 * (Scalar.cbrt x0 - 1 - (x0 - 1) / 3) + a1 * (Scalar.cbrt x1 - 1 - (x1 - 1) / 3) + a2 * (Scalar.cbrt x2 - 1 - (x2 - 1) / 3) := by
    ring
  rw [e]
  have := t a0 x0 h0; have := t a1 x1 h1; have := t a2 x2 h2
  have := abs_add_le (a0 * (Scalar.cbrt x0 - 1 - (x0 - 1) / 3) + a1 * (Scalar.cbrt x1 - 1 - (x1 - 1) / 3))
    (a2 * (Scalar.cbrt x2 - 1 - (x2 - 1) / 3))
  have := abs_add_le (a0 * (Scalar.cbrt x0 - 1 - (x0 - 1) / 3)) (a1 * (Scalar.cbrt x1 - 1 - (x1 - 1) / 3))
  linarith

/-- the cone responses of the crate's D65: within 1.5e-4 of 1 (`C14.oklab_white`, first clause, carried to ℝ) -/
theorem lms_D65 :
    |((m1 : M3 ℝ).mulVec (Color.whitePoint "D65")).c0 - 1| ≤ 1.5e-4 ∧ |((m1 : M3 ℝ).mulVec (Color.whitePoint "D65")).c1 - 1| ≤ 1.5e-4 ∧
    |((m1 : M3 ℝ).mulVec (Color.whitePoint "D65")).c2 - 1| ≤ 1.5e-4 := by
  have h := dist3_real C14.oklab_white.1
  unfold C14.wpR at h
  rw [mulVec_cast, ofK_cast, whitePoint_cast, castV_ones] at h
  have e : ((15 / 100000 : Rat) : ℝ) = 1.5e-4 := by norm_num
  rw [e] at h
  exact h

/-- non-vacuity of the hypotheses of `xyzToOklab_homogeneous`, `row_linearize`, `oklab_lin_err`: the crate's D65 has cone responses in `[1/2, 3/2]` -/
example : 0 ≤ ((m1 : M3 ℝ).mulVec (Color.whitePoint "D65")).c0 ∧ |((m1 : M3 ℝ).mulVec (Color.whitePoint "D65")).c0 - 1| ≤ 1 / 2 := by
  have h := lms_D65.1
  have h' := abs_le.mp h
  refine ⟨?_, le_trans h (by norm_num)⟩
  norm_num at h'; linarith [h'.1]

/-- **Oklab of the crate's D65 white point**: `(1, 0, 0)` within `(2e-6, 1.2e-5, 3.8e-5)` — and `b ≥ 3.6e-5`: it is *not* `(1,0,0)` to better than
    that (the crate's 5-digit D65 is not the white Ottosson's `M1` normalises), so the oracle's 1e-4 cannot be tightened below 3.7e-5 -/
theorem oklab_white_D65 :
    |(xyzToOklab (Color.whitePoint "D65" : V3 ℝ)).c0 - 1| ≤ 2e-6 ∧ |(xyzToOklab (Color.whitePoint "D65" : V3 ℝ)).c1| ≤ 1.2e-5 ∧
    |(xyzToOklab (Color.whitePoint "D65" : V3 ℝ)).c2| ≤ 3.8e-5 ∧ 3.6e-5 ≤ (xyzToOklab (Color.whitePoint "D65" : V3 ℝ)).c2 := by
  obtain ⟨l0, l1, l2⟩ := lms_D65
  have b (x : ℝ) (h : |x - 1| ≤ 1.5e-4) : |x - 1| ≤ 1 / 2 := le_trans h (by norm_num)
  have r0 := row_linearize (m2 : M3 ℝ).m0 (m2 : M3 ℝ).m1 (m2 : M3 ℝ).m2 _ _ _ (b _ l0) (b _ l1) (b _ l2)
  have r1 := row_linearize (m2 : M3 ℝ).m3 (m2 : M3 ℝ).m4 (m2 : M3 ℝ).m5 _ _ _ (b _ l0) (b _ l1) (b _ l2)
  have r2 := row_linearize (m2 : M3 ℝ).m6 (m2 : M3 ℝ).m7 (m2 : M3 ℝ).m8 _ _ _ (b _ l0) (b _ l1) (b _ l2)
  unfold xyzToOklab
  simp only [M3.mulVec] at r0 r1 r2 ⊢
  generalize Scalar.cbrt (_ : ℝ) = p0 at r0 r1 r2 ⊢
  generalize Scalar.cbrt (_ : ℝ) = p1 at r0 r1 r2 ⊢
  generalize Scalar.cbrt (_ : ℝ) = p2 at r0 r1 r2 ⊢
  rw [C02Cie.whitePoints_published.1] at r0 r1 r2
  simp only [m1, m2, M3.ofK, Gen.Mat.oklabM1, Gen.Mat.oklabM2, RealScalar.const_eq, RealScalar.eval_neg, RealScalar.eval_ofSci] at r0 r1 r2 ⊢
  rw [abs_le] at r0 r1 r2
  norm_num [abs_of_pos, abs_of_neg] at r0 r1 r2 ⊢
  refine ⟨?_, ?_, ?_, ?_⟩
  · rw [abs_le]; constructor <;> linarith [r0.1, r0.2]
  · rw [abs_le]; constructor <;> linarith [r1.1, r1.2]
  · rw [abs_le]; constructor <;> linarith [r2.1, r2.2]
  · linarith [r2.1, r2.2]

/-- **every gray `g·D65`, `g ≥ 0`**: `Oklab = ∛g · Oklab(D65)`, so `|L − ∛g| ≤ 2e-6·∛g`, `|a| ≤ 1.2e-5·∛g`, `|b| ≤ 3.8e-5·∛g` -/
theorem oklab_gray_D65 (g : ℝ) (hg : 0 ≤ g) :
    let w : V3 ℝ := Color.whitePoint "D65"
    let lab := xyzToOklab ⟨g * w.c0, g * w.c1, g * w.c2⟩
    |lab.c0 - Scalar.cbrt g| ≤ 2e-6 * Scalar.cbrt g ∧ |lab.c1| ≤ 1.2e-5 * Scalar.cbrt g ∧ |lab.c2| ≤ 3.8e-5 * Scalar.cbrt g := by
  intro w lab
  obtain ⟨l0, l1, l2⟩ := lms_D65
  have pos (x : ℝ) (h : |x - 1| ≤ 1.5e-4) : 0 ≤ x := by have := (abs_le.mp h).1; norm_num at this; linarith
  have hlab : lab = _ := xyzToOklab_homogeneous w g hg (pos _ l0) (pos _ l1) (pos _ l2)
  obtain ⟨w0, w1, w2, -⟩ := oklab_white_D65
  have hp := cbrt_nonneg hg
  rw [hlab]
  simp only
  generalize Scalar.cbrt g = p at hp ⊢
  refine ⟨?_, ?_, ?_⟩
  · have : p * (xyzToOklab w).c0 - p = p * ((xyzToOklab w).c0 - 1) := by ring
    rw [this, abs_mul, abs_of_nonneg hp, mul_comm]; exact mul_le_mul_of_nonneg_right w0 hp
  · rw [abs_mul, abs_of_nonneg hp, mul_comm]; exact mul_le_mul_of_nonneg_right w1 hp
  · rw [abs_mul, abs_of_nonneg hp, mul_comm]; exact mul_le_mul_of_nonneg_right w2 hp

/-! #### the direct sRGB shortcut on a gray -/

/-- **`linear_srgb_to_oklab` of a linear gray `g ≥ 0`** is `∛g·(1, 0, 0)` within `1e-7·∛g` in each coordinate: the row sums of the 10-digit
    sRGB→LMS table are `(1, 1 − 1e-10, 1)`, those of its `M2` `(1 − 6.5e-9, 0, 3.73e-8)` -/
theorem linSrgbToOklab_gray (g : ℝ) (hg : 0 ≤ g) :
    |(linSrgbToOklab ⟨g, g, g⟩).c0 - Scalar.cbrt g| ≤ 1e-7 * Scalar.cbrt g ∧ |(linSrgbToOklab ⟨g, g, g⟩).c1| ≤ 1e-7 * Scalar.cbrt g ∧
    |(linSrgbToOklab ⟨g, g, g⟩).c2| ≤ 1e-7 * Scalar.cbrt g := by
  have hp := cbrt_nonneg hg
  have fac (a b c : ℝ) (hs : 0 ≤ a + b + c) : Scalar.cbrt (a * g + b * g + c * g) = Scalar.cbrt (a + b + c) * Scalar.cbrt g := by
    rw [← cbrt_mul hs hg]; congr 1; ring
  simp only [linSrgbToOklab, C02Ok.kAt_eq, Gen.Mat.linSrgbToOklabCoeffs, List.getD_cons_zero, List.getD_cons_succ, RealScalar.eval_ofSci]
  rw [fac _ _ _ (by norm_num), fac _ _ _ (by norm_num), fac _ _ _ (by norm_num)]
  generalize hq0 : Scalar.cbrt (_ + _ + _ : ℝ) = q0
  generalize hq1 : Scalar.cbrt (_ + _ + _ : ℝ) = q1
  generalize hq2 : Scalar.cbrt (_ + _ + _ : ℝ) = q2
  have near (x q : ℝ) (hx : 0 ≤ x) (h : Scalar.cbrt x = q) : -|x - 1| ≤ q - 1 ∧ q - 1 ≤ |x - 1| := by
    subst h; exact abs_le.mp (cbrt_near_one hx)
  obtain ⟨a0, a0'⟩ := near _ _ (by norm_num) hq0
  obtain ⟨a1, a1'⟩ := near _ _ (by norm_num) hq1
  obtain ⟨a2, a2'⟩ := near _ _ (by norm_num) hq2
  generalize Scalar.cbrt g = p at hp ⊢
  have m0 := mul_le_mul_of_nonneg_right a0 hp
  have m0' := mul_le_mul_of_nonneg_right a0' hp
  have m1 := mul_le_mul_of_nonneg_right a1 hp
  have m1' := mul_le_mul_of_nonneg_right a1' hp
  have m2 := mul_le_mul_of_nonneg_right a2 hp
  have m2' := mul_le_mul_of_nonneg_right a2' hp
  norm_num [abs_of_pos, abs_of_neg] at m0 m0' m1 m1' m2 m2'
  refine ⟨?_, ?_, ?_⟩ <;> (rw [abs_le]; constructor <;> norm_num <;> linarith)

/-- white through the direct path: `linear_srgb_to_oklab (1, 1, 1)` is `(1, 0, 0)` within 1e-7 -/
theorem linSrgbToOklab_white :
    |(linSrgbToOklab (⟨1, 1, 1⟩ : V3 ℝ)).c0 - 1| ≤ 1e-7 ∧ |(linSrgbToOklab (⟨1, 1, 1⟩ : V3 ℝ)).c1| ≤ 1e-7 ∧
    |(linSrgbToOklab (⟨1, 1, 1⟩ : V3 ℝ)).c2| ≤ 1e-7 := by
  have h := linSrgbToOklab_gray 1 (by norm_num)
  rw [cbrt_one] at h
  simpa only [mul_one] using h

/-- **the crate's `Rgb<S> → Oklab` for a standard on sRGB primaries** (`TypeId` branch → direct path), any transfer function: an encoded gray
    `(e,e,e)` of linear level `g = into_linear(e) ≥ 0` has `|a|, |b| ≤ 1e-7·∛g` (the oracle's `gray-neutral-oklab:f64` allows 1e-6) -/
theorem rgbToOklab_srgb_gray (sp : Color.RgbSpaceData) (hn : sp.name = "Srgb") (tf : Transfer.Fn) (e : ℝ) (hg : 0 ≤ Transfer.intoLinear tf e) :
    |(rgbToOklab sp tf ⟨e, e, e⟩).c1| ≤ 1e-7 * Scalar.cbrt (Transfer.intoLinear tf e) ∧
    |(rgbToOklab sp tf ⟨e, e, e⟩).c2| ≤ 1e-7 * Scalar.cbrt (Transfer.intoLinear tf e) := by
  unfold rgbToOklab
  rw [if_pos (by simp [hn])]
  exact (linSrgbToOklab_gray _ hg).2

/-- **… and back**: `Oklab (L, 0, 0) → Rgb<S>` on sRGB primaries has three equal components, exactly, for every `L` and transfer function -/
theorem oklabToRgb_srgb_neutral (sp : Color.RgbSpaceData) (hn : sp.name = "Srgb") (tf : Transfer.Fn) (L : ℝ) :
    oklabToRgb sp tf ⟨L, 0, 0⟩ = ⟨Transfer.fromLinear tf (L ^ 3), Transfer.fromLinear tf (L ^ 3), Transfer.fromLinear tf (L ^ 3)⟩ := by
  unfold oklabToRgb
  rw [if_pos (by simp [hn]), oklabToLinSrgb_neutral]
  rfl

example : (⟨"Srgb", "D65", [], [], []⟩ : Color.RgbSpaceData).name = "Srgb" ∧ (0 : ℝ) ≤ Transfer.intoLinear .linear (0.5 : ℝ) := by
  refine ⟨rfl, ?_⟩
  show (0 : ℝ) ≤ _
  simp only [Transfer.intoLinear, id]; norm_num

end C14GrayOk
