/-
  C01 (Ottosson family) — **Oklab ↔ Okhsv as composite inverses** at ℝ, on the model functions `Ok.okhsvToOklab` / `Ok.oklabToOkhsv`.

  The cusp enters both directions only through `(S, T) = ST::from(LC::find_cusp(a_, b_))`, computed from the unit hue vector — the same
  value in both directions.  The theorems are proved for the model bodies with that value replaced by an ARBITRARY function `G` of the
  hue vector (`okhsvToOklabW G`, `oklabToOkhsvW G`; the model is the instance `G = fun a b => stOfLC (findCusp a b)`, by `rfl`) under
  `0 < S`, `0 < T` and positivity of the maximum `M` whose reciprocal cube root is the final scale (`lightnessScaleFactor`); `M > 0` is
  in turn proved from `S < 8` for unit hue vectors (`scaleMax_pos`), so that only cusp quantities remain in the hypotheses.

  Stages: `(l_v, c_v)` on the triangle side `c_v + T·l_v = T` ↔ saturation (`satOf_cvOf`, `cvOf_satOf`), the common scale `t` recovered from
  `(L, C)` (`t_stage`), `toe`/`toe_inv` (C02), the polar pair (`C01OkComposite.chroma_of_polar`, `unit_of_hue`), and the scale factor `f`
  (same arguments both ways, `f > 0` from `M > 0`).
-/
import PaletteProofs.C01_OkComposite
import PaletteProofs.Lemmas.CbrtReal

namespace C01OkComposite
open Ok C01Ok

/-! ### the model bodies with the cusp's `ST` abstracted -/

/-- `Ok.okhsvToOklab` with `ST::from(LC::find_cusp(a_, b_))` replaced by `G a_ b_` -/
noncomputable def okhsvToOklabW (G : ℝ → ℝ → ST ℝ) (c : V3 ℝ) : V3 ℝ :=
  let hue := c.c0; let sat := c.c1; let value := c.c2
  if Scalar.eqv value 0.0 then ⟨0.0, 0.0, 0.0⟩
  else if Scalar.eqv sat 0.0 then ⟨toeInv value, 0.0, 0.0⟩
  else
    let h_radians := Angle.degToRad hue
    let a_ := Scalar.cos h_radians
    let b_ := Scalar.sin h_radians
    let cusp := G a_ b_
    let s_0 : ℝ := Scalar.const 0.5
    let k := 1.0 - s_0 / cusp.s
    let l_v := 1.0 - sat * s_0 / (s_0 + cusp.t - cusp.t * k * sat)
    let c_v := sat * cusp.t * s_0 / (s_0 + cusp.t - cusp.t * k * sat)
    let l_vt := toeInv l_v
    let c_vt := c_v * l_vt / l_v
    let lightness := value * l_v
    let chroma := value * c_v
    let lightness_new := toeInv lightness
    let chroma := chroma * lightness_new / lightness
    let f := lightnessScaleFactor l_vt a_ b_ c_vt
    let lightness := lightness_new * f
    let chroma := chroma * f
    ⟨lightness, chroma * a_, chroma * b_⟩

/-- `Ok.oklabToOkhsv` with `ST::from(LC::find_cusp(a_, b_))` replaced by `G a_ b_` -/
noncomputable def oklabToOkhsvW (G : ℝ → ℝ → ST ℝ) (c : V3 ℝ) : V3 ℝ :=
  if Scalar.eqv c.c0 0.0 then ⟨0.0, 0.0, 0.0⟩
  else
    let chroma := chromaOf c.c1 c.c2
    let hue := hueFromCartesian c.c1 c.c2
    if Scalar.isValidDivisor chroma then
      let a_ := c.c1 / chroma
      let b_ := c.c2 / chroma
      let st_max := G a_ b_
      let s_0 : ℝ := Scalar.const 0.5
      let k := 1.0 - s_0 / st_max.s
      let t := st_max.t / (chroma + c.c0 * st_max.t)
      let l_v := t * c.c0
      let c_v := t * chroma
      let l_vt := toeInv l_v
      let c_vt := c_v * l_vt / l_v
      let f := lightnessScaleFactor l_vt a_ b_ c_vt
      let l_r := toe (c.c0 / f)
      let v := l_r / l_v
      let s := (s_0 + st_max.t) * c_v / ((st_max.t * s_0) + st_max.t * k * c_v)
      ⟨hue, s, v⟩
    else ⟨0.0, 0.0, toe c.c0⟩

/-- the cusp's `ST` as the model computes it -/
noncomputable def cuspST (a_ b_ : ℝ) : ST ℝ := stOfLC (findCusp a_ b_)

/-- **the restatements are the model functions** -/
theorem okhsvToOklabW_model : okhsvToOklabW cuspST = okhsvToOklab := rfl
theorem oklabToOkhsvW_model : oklabToOkhsvW cuspST = oklabToOkhsv := rfl

/-! ### the stages as real functions -/

/-- `l_v`, `c_v` of `Okhsv → Oklab` (the point of saturation `s` on the side `c + T·l = T` of the cusp triangle, in toe-free coordinates) -/
noncomputable def lvOf (S T s : ℝ) : ℝ := 1.0 - s * 0.5 / (0.5 + T - T * (1.0 - 0.5 / S) * s)
noncomputable def cvOf (S T s : ℝ) : ℝ := s * T * 0.5 / (0.5 + T - T * (1.0 - 0.5 / S) * s)
/-- the saturation recovered from `c_v` in `Oklab → Okhsv` -/
noncomputable def satOf (S T c_v : ℝ) : ℝ := (0.5 + T) * c_v / ((T * 0.5) + T * (1.0 - 0.5 / S) * c_v)
/-- the maximum whose reciprocal cube root is `lightnessScaleFactor(toe_inv l_v, a_, b_, c_v·toe_inv(l_v)/l_v)` -/
noncomputable def scaleMax (a_ b_ l_v c_v : ℝ) : ℝ :=
  max (max (oklabToLinSrgb ⟨toeInv l_v, a_ * (c_v * toeInv l_v / l_v), b_ * (c_v * toeInv l_v / l_v)⟩).c0
           (oklabToLinSrgb ⟨toeInv l_v, a_ * (c_v * toeInv l_v / l_v), b_ * (c_v * toeInv l_v / l_v)⟩).c1)
      (max (oklabToLinSrgb ⟨toeInv l_v, a_ * (c_v * toeInv l_v / l_v), b_ * (c_v * toeInv l_v / l_v)⟩).c2 0)
/-- the scale factor both directions compute from `(l_v, c_v)` and the hue vector -/
noncomputable def scaleOf (a_ b_ l_v c_v : ℝ) : ℝ := lightnessScaleFactor (toeInv l_v) a_ b_ (c_v * toeInv l_v / l_v)

theorem scaleOf_eq (a_ b_ l_v c_v : ℝ) : scaleOf a_ b_ l_v c_v = Scalar.cbrt (1 / scaleMax a_ b_ l_v c_v) := by
  unfold scaleOf scaleMax lightnessScaleFactor
  simp only [RealScalar.max_eq]
  norm_num

theorem scaleOf_pos (a_ b_ l_v c_v : ℝ) (hM : 0 < scaleMax a_ b_ l_v c_v) : 0 < scaleOf a_ b_ l_v c_v := by
  rw [scaleOf_eq]
  have h : (0 : ℝ) < 1 / scaleMax a_ b_ l_v c_v := by positivity
  by_contra hneg
  have hle : Scalar.cbrt (1 / scaleMax a_ b_ l_v c_v) ≤ 0 := not_lt.mp hneg
  rw [CbrtReal.cbrt_le_iff] at hle
  norm_num at hle
  linarith

/-! ### the scale maximum is positive (so the scale factor is a positive real) whenever the cusp's `S` is below 8 -/

/-- **a colour whose `m_` (second cone-response root of `oklab_to_linear_srgb`) is positive has a positive linear sRGB component**: the
    LMS → sRGB table of `oklab_to_linear_srgb` has an inverse with positive second row — `2.167·r + 6.962·g + 1.098·b = 10.228·m_³`
    (found by `linarith` on the generated coefficients) -/
theorem linSrgb_max_pos_of_m_pos (c : V3 ℝ)
    (hm : 0 < c.c0 - kAt Gen.Mat.oklabToLinSrgbCoeffs 2 * c.c1 - kAt Gen.Mat.oklabToLinSrgbCoeffs 3 * c.c2) :
    0 < max (max (oklabToLinSrgb c).c0 (oklabToLinSrgb c).c1) (max (oklabToLinSrgb c).c2 0) := by
  have hm3 : 0 < (c.c0 - kAt Gen.Mat.oklabToLinSrgbCoeffs 2 * c.c1 - kAt Gen.Mat.oklabToLinSrgbCoeffs 3 * c.c2)
      * (c.c0 - kAt Gen.Mat.oklabToLinSrgbCoeffs 2 * c.c1 - kAt Gen.Mat.oklabToLinSrgbCoeffs 3 * c.c2)
      * (c.c0 - kAt Gen.Mat.oklabToLinSrgbCoeffs 2 * c.c1 - kAt Gen.Mat.oklabToLinSrgbCoeffs 3 * c.c2) := by positivity
  by_contra hneg
  have hle := not_lt.mp hneg
  have h0 := le_trans (le_max_left _ _) (le_trans (le_max_left _ _) hle)
  have h1 := le_trans (le_max_right _ _) (le_trans (le_max_left _ _) hle)
  have h2 := le_trans (le_max_left _ _) (le_trans (le_max_right _ _) hle)
  unfold oklabToLinSrgb at h0 h1 h2
  simp only at h0 h1 h2
  generalize (c.c0 + kAt Gen.Mat.oklabToLinSrgbCoeffs 0 * c.c1 + kAt Gen.Mat.oklabToLinSrgbCoeffs 1 * c.c2)
      * (c.c0 + kAt Gen.Mat.oklabToLinSrgbCoeffs 0 * c.c1 + kAt Gen.Mat.oklabToLinSrgbCoeffs 1 * c.c2)
      * (c.c0 + kAt Gen.Mat.oklabToLinSrgbCoeffs 0 * c.c1 + kAt Gen.Mat.oklabToLinSrgbCoeffs 1 * c.c2) = l at h0 h1 h2
  generalize (c.c0 - kAt Gen.Mat.oklabToLinSrgbCoeffs 2 * c.c1 - kAt Gen.Mat.oklabToLinSrgbCoeffs 3 * c.c2)
      * (c.c0 - kAt Gen.Mat.oklabToLinSrgbCoeffs 2 * c.c1 - kAt Gen.Mat.oklabToLinSrgbCoeffs 3 * c.c2)
      * (c.c0 - kAt Gen.Mat.oklabToLinSrgbCoeffs 2 * c.c1 - kAt Gen.Mat.oklabToLinSrgbCoeffs 3 * c.c2) = m at h0 h1 h2 hm3
  generalize (c.c0 - kAt Gen.Mat.oklabToLinSrgbCoeffs 4 * c.c1 - kAt Gen.Mat.oklabToLinSrgbCoeffs 5 * c.c2)
      * (c.c0 - kAt Gen.Mat.oklabToLinSrgbCoeffs 4 * c.c1 - kAt Gen.Mat.oklabToLinSrgbCoeffs 5 * c.c2)
      * (c.c0 - kAt Gen.Mat.oklabToLinSrgbCoeffs 4 * c.c1 - kAt Gen.Mat.oklabToLinSrgbCoeffs 5 * c.c2) = s at h0 h1 h2
  simp only [C02Ok.kAt_eq, Gen.Mat.oklabToLinSrgbCoeffs, List.getD_cons_zero, List.getD_cons_succ, RealScalar.eval_neg, RealScalar.eval_ofSci] at h0 h1 h2
  norm_num at h0 h1 h2
  linarith

/-- **`S < 8` ⇒ the scale maximum is positive**, for a unit hue vector and a point `(l_v, c_v)` with `0 < l_v`, `0 ≤ c_v ≤ S·l_v`:
    `m_ = toe_inv(l_v)·(1 − q·c_v/l_v)` with `|q| = |0.1056·a_ + 0.0639·b_| < 1/8` -/
theorem scaleMax_pos (a_ b_ l_v c_v S : ℝ) (hu : a_ * a_ + b_ * b_ = 1) (hl : 0 < l_v) (hc : 0 ≤ c_v) (hcs : c_v ≤ S * l_v) (hS8 : S < 8) :
    0 < scaleMax a_ b_ l_v c_v := by
  unfold scaleMax
  apply linSrgb_max_pos_of_m_pos
  simp only [C02Ok.kAt_eq, Gen.Mat.oklabToLinSrgbCoeffs, List.getD_cons_zero, List.getD_cons_succ, RealScalar.eval_ofSci]
  have hLt : 0 < toeInv l_v := toeInv_pos l_v hl
  obtain ⟨Lt, hLtdef⟩ : ∃ Lt, Lt = toeInv l_v := ⟨_, rfl⟩
  rw [← hLtdef] at hLt ⊢
  obtain ⟨rho, hrho⟩ : ∃ rho, rho = c_v / l_v := ⟨_, rfl⟩
  have hr0 : 0 ≤ rho := by rw [hrho]; exact div_nonneg hc hl.le
  have hr1 : rho < 8 := by
    rw [hrho, div_lt_iff₀ hl]; nlinarith
  have e : c_v * Lt / l_v = rho * Lt := by rw [hrho]; field_simp
  rw [e]
  norm_num
  -- `q² ≤ (0.1056² + 0.0639²)(a_² + b_²) < 1/64`
  obtain ⟨q, hq⟩ : ∃ q : ℝ, q = 1055613458 / 10000000000 * a_ + 638541728 / 10000000000 * b_ := ⟨_, rfl⟩
  have hq2 : q * q < 1 / 64 := by
    rw [hq]
    nlinarith [mul_self_nonneg (1055613458 / 10000000000 * b_ - 638541728 / 10000000000 * a_)]
  have hq8 : q < 1 / 8 := by nlinarith
  have hqr : q * rho < 1 := by
    rcases le_or_gt q 0 with h | h
    · have := mul_nonpos_of_nonpos_of_nonneg h hr0; linarith
    · nlinarith
  have : 0 < Lt * (1 - q * rho) := mul_pos hLt (by linarith)
  rw [hq] at this
  nlinarith

/-! ### the algebra of the saturation stage -/

/-- the forward denominator `D = s₀ + T − T·k·s` is positive on `0 ≤ s ≤ 1` (`k = 1 − s₀/S < 1`) -/
theorem den_pos (S T s : ℝ) (hS : 0 < S) (hT : 0 < T) (hs0 : 0 ≤ s) (hs1 : s ≤ 1) : 0 < 1 / 2 + T - T * (1 - 1 / 2 / S) * s := by
  have e : 1 / 2 + T - T * (1 - 1 / 2 / S) * s = 1 / 2 + T * (1 - s) + T * (1 / 2 / S) * s := by ring
  rw [e]
  have h1 : 0 ≤ T * (1 - s) := mul_nonneg hT.le (by linarith)
  have h2 : 0 ≤ T * (1 / 2 / S) * s := by positivity
  linarith

theorem lvOf_eq (S T s : ℝ) : lvOf S T s = 1 - s * (1 / 2) / (1 / 2 + T - T * (1 - 1 / 2 / S) * s) := by unfold lvOf; norm_num
theorem cvOf_eq (S T s : ℝ) : cvOf S T s = s * T * (1 / 2) / (1 / 2 + T - T * (1 - 1 / 2 / S) * s) := by unfold cvOf; norm_num
theorem satOf_eq (S T c : ℝ) : satOf S T c = (1 / 2 + T) * c / (T * (1 / 2) + T * (1 - 1 / 2 / S) * c) := by unfold satOf; norm_num

/-- the point lies on the triangle side: `c_v + T·l_v = T` -/
theorem cv_lv_line (S T s : ℝ) (hS : 0 < S) (hT : 0 < T) (hs0 : 0 ≤ s) (hs1 : s ≤ 1) : cvOf S T s + T * lvOf S T s = T := by
  rw [lvOf_eq, cvOf_eq]
  have hD := den_pos S T s hS hT hs0 hs1
  field_simp; ring

theorem cvOf_pos (S T s : ℝ) (hS : 0 < S) (hT : 0 < T) (hs0 : 0 < s) (hs1 : s ≤ 1) : 0 < cvOf S T s := by
  rw [cvOf_eq]; exact div_pos (by positivity) (den_pos S T s hS hT hs0.le hs1)

theorem lvOf_pos (S T s : ℝ) (hS : 0 < S) (hT : 0 < T) (hs0 : 0 ≤ s) (hs1 : s ≤ 1) : 0 < lvOf S T s := by
  rw [lvOf_eq]
  have hD := den_pos S T s hS hT hs0 hs1
  rw [sub_pos, div_lt_one hD]
  have e : 1 / 2 + T - T * (1 - 1 / 2 / S) * s = 1 / 2 + T * (1 - s) + T * (1 / 2 / S) * s := by ring
  rw [e]
  rcases eq_or_lt_of_le hs1 with h | h
  · rw [h]; have : 0 < T * (1 / 2 / S) * 1 := by positivity
    linarith
  · have h1 : 0 < T * (1 - s) := mul_pos hT (by linarith)
    have h2 : 0 ≤ T * (1 / 2 / S) * s := by positivity
    nlinarith

/-- the ratio `c_v / l_v` never exceeds the cusp's `S` (with equality at `s = 1`) -/
theorem cv_le_S_lv (S T s : ℝ) (hS : 0 < S) (hT : 0 < T) (hs0 : 0 ≤ s) (hs1 : s ≤ 1) : cvOf S T s ≤ S * lvOf S T s := by
  rw [lvOf_eq, cvOf_eq]
  have hD := den_pos S T s hS hT hs0 hs1
  rw [div_le_iff₀ hD]
  have e : S * (1 - s * (1 / 2) / (1 / 2 + T - T * (1 - 1 / 2 / S) * s)) * (1 / 2 + T - T * (1 - 1 / 2 / S) * s)
      = S * ((1 / 2 + T - T * (1 - 1 / 2 / S) * s) - s * (1 / 2)) := by
    rw [mul_assoc, sub_mul, one_mul, div_mul_cancel₀ _ hD.ne']
  rw [e]
  have e2 : S * ((1 / 2 + T - T * (1 - 1 / 2 / S) * s) - s * (1 / 2)) = s * T * (1 / 2) + (S * (1 / 2) + S * T) * (1 - s) := by
    field_simp; ring
  rw [e2]
  have : 0 ≤ (S * (1 / 2) + S * T) * (1 - s) := mul_nonneg (by positivity) (by linarith)
  linarith

/-- **saturation → `c_v` → saturation** -/
theorem satOf_cvOf (S T s : ℝ) (hS : 0 < S) (hT : 0 < T) (hs0 : 0 ≤ s) (hs1 : s ≤ 1) : satOf S T (cvOf S T s) = s := by
  rw [satOf_eq, cvOf_eq]
  have hD := den_pos S T s hS hT hs0 hs1
  obtain ⟨D, hDdef⟩ : ∃ D, D = 1 / 2 + T - T * (1 - 1 / 2 / S) * s := ⟨_, rfl⟩
  rw [← hDdef] at hD ⊢
  have e : T * (1 / 2) + T * (1 - 1 / 2 / S) * (s * T * (1 / 2) / D) = T * (1 / 2) * (1 / 2 + T) / D := by
    rw [eq_div_iff hD.ne', add_mul, mul_assoc (T * (1 - 1 / 2 / S)), div_mul_cancel₀ _ hD.ne', hDdef]; ring
  rw [e]
  have hT2 : (0 : ℝ) < 1 / 2 + T := by linarith
  field_simp

/-- **`c_v` → saturation → `(l_v, c_v)`**: for a point `(l, c)` of the triangle side `c + T·l = T` with `0 < c ≤ S·l`, the recovered
    saturation is in `(0, 1]` and gives the point back -/
theorem cvOf_satOf (S T l c : ℝ) (hS : 0 < S) (hT : 0 < T) (hc : 0 < c) (hline : c + T * l = T) (hcs : c ≤ S * l) :
    0 < satOf S T c ∧ satOf S T c ≤ 1 ∧ cvOf S T (satOf S T c) = c ∧ lvOf S T (satOf S T c) = l := by
  -- `c ≤ S·l` and the line give `c·(S + T) ≤ S·T`
  have hc2 : c * (S + T) ≤ S * T := by
    have : T * l = T - c := by linarith
    nlinarith
  -- the denominator `T·(s₀ + k·c)` of the saturation is positive
  have hden : 0 < T * (1 / 2) + T * (1 - 1 / 2 / S) * c := by
    have e : T * (1 / 2) + T * (1 - 1 / 2 / S) * c = T * (c + (1 / 2) * (S - c) / S) := by field_simp; ring
    rw [e]
    have : c < S := by
      have : c * (S + T) < S * (S + T) := by nlinarith
      exact lt_of_mul_lt_mul_right this (by positivity)
    have : 0 < (1 / 2) * (S - c) / S := by apply div_pos _ hS; nlinarith
    positivity
  have hs0 : 0 < satOf S T c := by rw [satOf_eq]; exact div_pos (by positivity) hden
  have hs1 : satOf S T c ≤ 1 := by
    rw [satOf_eq, div_le_one hden]
    have e : T * (1 / 2) + T * (1 - 1 / 2 / S) * c - (1 / 2 + T) * c = (1 / 2) * (S * T - c * (S + T)) / S := by field_simp; ring
    have : 0 ≤ (1 / 2) * (S * T - c * (S + T)) / S := div_nonneg (by nlinarith) hS.le
    linarith
  have hD := den_pos S T (satOf S T c) hS hT hs0.le hs1
  have ecv : cvOf S T (satOf S T c) = c := by
    rw [cvOf_eq]
    rw [div_eq_iff hD.ne']
    rw [satOf_eq]
    obtain ⟨N, hN⟩ : ∃ N, N = T * (1 / 2) + T * (1 - 1 / 2 / S) * c := ⟨_, rfl⟩
    rw [← hN] at hden ⊢
    have e : 1 / 2 + T - T * (1 - 1 / 2 / S) * ((1 / 2 + T) * c / N) = (1 / 2 + T) * (T * (1 / 2)) / N := by
      rw [eq_div_iff hden.ne', sub_mul, mul_assoc (T * (1 - 1 / 2 / S)), div_mul_cancel₀ _ hden.ne', hN]; ring
    rw [e]; field_simp
  refine ⟨hs0, hs1, ecv, ?_⟩
  have hl := cv_lv_line S T (satOf S T c) hS hT hs0.le hs1
  rw [ecv] at hl
  have : T * lvOf S T (satOf S T c) = T * l := by linarith
  exact mul_left_cancel₀ hT.ne' this

/-- **the common scale is recovered**: a point `(l, c)` of the side `c + T·l = T` scaled by any `λ ≠ 0` to `(L, C) = (λ·l, λ·c)` gives
    `t = T/(C + L·T) = 1/λ`, i.e. `t·L = l` and `t·C = c` -/
theorem t_stage (T l c lam : ℝ) (hT : T ≠ 0) (hlam : lam ≠ 0) (hline : c + T * l = T) :
    T / (lam * c + lam * l * T) * (lam * l) = l ∧ T / (lam * c + lam * l * T) * (lam * c) = c := by
  have e : lam * c + lam * l * T = lam * T := by linear_combination lam * hline
  rw [e]
  constructor <;> field_simp

/-! ### the arms -/

theorem okhsvToOklabW_arm (G : ℝ → ℝ → ST ℝ) (h s v : ℝ) (hs : s ≠ 0) (hv : v ≠ 0) :
    okhsvToOklabW G ⟨h, s, v⟩ =
      (let a_ := Real.cos (h * (Real.pi / 180))
       let b_ := Real.sin (h * (Real.pi / 180))
       let S := (G a_ b_).s
       let T := (G a_ b_).t
       let l_v := lvOf S T s
       let c_v := cvOf S T s
       let f := scaleOf a_ b_ l_v c_v
       ⟨toeInv (v * l_v) * f, v * c_v * toeInv (v * l_v) / (v * l_v) * f * a_, v * c_v * toeInv (v * l_v) / (v * l_v) * f * b_⟩) := by
  have g0 : ¬ Scalar.eqv v 0.0 := by rw [eqv_iff]; norm_num; exact hv
  have g1 : ¬ Scalar.eqv s 0.0 := by rw [eqv_iff]; norm_num; exact hs
  unfold okhsvToOklabW
  simp only [if_neg g0, if_neg g1, RealScalar.degToRad_eq, RealScalar.cos_eq, RealScalar.sin_eq, RealScalar.const_eq, RealScalar.eval_ofSci]
  rfl

theorem oklabToOkhsvW_arm (G : ℝ → ℝ → ST ℝ) (L a b : ℝ) (hL : L ≠ 0) (hC : chromaOf a b ≠ 0) :
    oklabToOkhsvW G ⟨L, a, b⟩ =
      (let C := chromaOf a b
       let a_ := a / C
       let b_ := b / C
       let S := (G a_ b_).s
       let T := (G a_ b_).t
       let t := T / (C + L * T)
       ⟨hueFromCartesian a b, satOf S T (t * C), toe (L / scaleOf a_ b_ (t * L) (t * C)) / (t * L)⟩) := by
  have g0 : ¬ Scalar.eqv L 0.0 := by rw [eqv_iff]; norm_num; exact hL
  have g1 : Scalar.isValidDivisor (chromaOf a b) = true := by simp [RealScalar.valid_eq, hC]
  unfold oklabToOkhsvW
  simp only [if_neg g0, g1, if_true, RealScalar.const_eq, RealScalar.eval_ofSci]
  rfl

/-! ### Okhsv → Oklab → Okhsv -/

/-- **`Okhsv → Oklab → Okhsv` is the identity** on `0 < h ≤ 360`, `0 < s ≤ 1`, `0 < v`, for any cusp `ST` with `0 < S`, `0 < T` at the hue
    vector `(cos h, sin h)` and a positive scale maximum -/
theorem okhsvW_oklab_okhsv (G : ℝ → ℝ → ST ℝ) (h s v : ℝ) (h0 : 0 < h) (h360 : h ≤ 360) (hs0 : 0 < s) (hs1 : s ≤ 1) (hv : 0 < v)
    (hS : 0 < (G (Real.cos (h * (Real.pi / 180))) (Real.sin (h * (Real.pi / 180)))).s)
    (hT : 0 < (G (Real.cos (h * (Real.pi / 180))) (Real.sin (h * (Real.pi / 180)))).t)
    (hM : 0 < scaleMax (Real.cos (h * (Real.pi / 180))) (Real.sin (h * (Real.pi / 180)))
            (lvOf (G (Real.cos (h * (Real.pi / 180))) (Real.sin (h * (Real.pi / 180)))).s
                  (G (Real.cos (h * (Real.pi / 180))) (Real.sin (h * (Real.pi / 180)))).t s)
            (cvOf (G (Real.cos (h * (Real.pi / 180))) (Real.sin (h * (Real.pi / 180)))).s
                  (G (Real.cos (h * (Real.pi / 180))) (Real.sin (h * (Real.pi / 180)))).t s)) :
    oklabToOkhsvW G (okhsvToOklabW G ⟨h, s, v⟩) = ⟨h, s, v⟩ := by
  rw [okhsvToOklabW_arm G h s v hs0.ne' hv.ne']
  simp only
  set a_ := Real.cos (h * (Real.pi / 180)) with ha
  set b_ := Real.sin (h * (Real.pi / 180)) with hb
  set S := (G a_ b_).s with hSdef
  set T := (G a_ b_).t with hTdef
  set lv := lvOf S T s with hlv
  set cv := cvOf S T s with hcv
  set f := scaleOf a_ b_ lv cv with hf
  have hlvpos : 0 < lv := lvOf_pos S T s hS hT hs0.le hs1
  have hcvpos : 0 < cv := cvOf_pos S T s hS hT hs0 hs1
  have hfpos : 0 < f := scaleOf_pos a_ b_ lv cv hM
  have hLn : 0 < toeInv (v * lv) := toeInv_pos _ (mul_pos hv hlvpos)
  set Ln := toeInv (v * lv) with hLndef
  -- lightness and chroma of the result as multiples `λ·l_v`, `λ·c_v`
  obtain ⟨lam, hlam⟩ : ∃ lam, lam = Ln * f / lv := ⟨_, rfl⟩
  have hlampos : 0 < lam := by rw [hlam]; positivity
  have eL : Ln * f = lam * lv := by rw [hlam]; field_simp
  have eC : v * cv * Ln / (v * lv) * f = lam * cv := by rw [hlam]; field_simp
  rw [eC]
  have hCpos : 0 < lam * cv := mul_pos hlampos hcvpos
  obtain ⟨eCh, eH⟩ := chroma_of_polar (lam * cv) h hCpos h0 h360
  rw [← ha, ← hb] at eCh eH
  rw [oklabToOkhsvW_arm G _ _ _ (mul_pos hLn hfpos).ne' (by rw [eCh]; exact hCpos.ne')]
  simp only
  rw [eCh, eH, mul_div_cancel_left₀ _ hCpos.ne', mul_div_cancel_left₀ _ hCpos.ne', ← hSdef, ← hTdef, eL]
  obtain ⟨t1, t2⟩ := t_stage T lv cv lam hT.ne' hlampos.ne' (cv_lv_line S T s hS hT hs0.le hs1)
  rw [t1, t2, ← hf, satOf_cvOf S T s hS hT hs0.le hs1, ← eL, mul_div_cancel_right₀ _ hfpos.ne', hLndef,
    C02Ok.toe_toeInv _ (mul_pos hv hlvpos).le, mul_div_cancel_right₀ _ hlvpos.ne']

/-- **… for the model** -/
theorem okhsv_oklab_okhsv (h s v : ℝ) (h0 : 0 < h) (h360 : h ≤ 360) (hs0 : 0 < s) (hs1 : s ≤ 1) (hv : 0 < v)
    (hS : 0 < (cuspST (Real.cos (h * (Real.pi / 180))) (Real.sin (h * (Real.pi / 180)))).s)
    (hT : 0 < (cuspST (Real.cos (h * (Real.pi / 180))) (Real.sin (h * (Real.pi / 180)))).t)
    (hM : 0 < scaleMax (Real.cos (h * (Real.pi / 180))) (Real.sin (h * (Real.pi / 180)))
            (lvOf (cuspST (Real.cos (h * (Real.pi / 180))) (Real.sin (h * (Real.pi / 180)))).s
                  (cuspST (Real.cos (h * (Real.pi / 180))) (Real.sin (h * (Real.pi / 180)))).t s)
            (cvOf (cuspST (Real.cos (h * (Real.pi / 180))) (Real.sin (h * (Real.pi / 180)))).s
                  (cuspST (Real.cos (h * (Real.pi / 180))) (Real.sin (h * (Real.pi / 180)))).t s)) :
    oklabToOkhsv (okhsvToOklab ⟨h, s, v⟩) = ⟨h, s, v⟩ := by
  rw [← okhsvToOklabW_model, ← oklabToOkhsvW_model]
  exact okhsvW_oklab_okhsv cuspST h s v h0 h360 hs0 hs1 hv hS hT hM

/-! ### Oklab → Okhsv → Oklab -/

/-- **`Oklab → Okhsv → Oklab` is the identity** on `0 < L`, `0 < C ≤ S·L` (saturation at most the cusp's, i.e. the intermediate Okhsv
    saturation is in `(0, 1]`), for any cusp `ST` with `0 < S`, `0 < T` at the hue vector `(a/C, b/C)` and a positive scale maximum -/
theorem oklabW_okhsv_oklab (G : ℝ → ℝ → ST ℝ) (L a b : ℝ) (hL : 0 < L) (hC : 0 < chromaOf a b)
    (hS : 0 < (G (a / chromaOf a b) (b / chromaOf a b)).s) (hT : 0 < (G (a / chromaOf a b) (b / chromaOf a b)).t)
    (hCS : chromaOf a b ≤ (G (a / chromaOf a b) (b / chromaOf a b)).s * L)
    (hM : 0 < scaleMax (a / chromaOf a b) (b / chromaOf a b)
            ((G (a / chromaOf a b) (b / chromaOf a b)).t / (chromaOf a b + L * (G (a / chromaOf a b) (b / chromaOf a b)).t) * L)
            ((G (a / chromaOf a b) (b / chromaOf a b)).t / (chromaOf a b + L * (G (a / chromaOf a b) (b / chromaOf a b)).t) * chromaOf a b)) :
    okhsvToOklabW G (oklabToOkhsvW G ⟨L, a, b⟩) = ⟨L, a, b⟩ ∧
    0 < (oklabToOkhsvW G ⟨L, a, b⟩).c1 ∧ (oklabToOkhsvW G ⟨L, a, b⟩).c1 ≤ 1 := by
  rw [oklabToOkhsvW_arm G L a b hL.ne' hC.ne']
  simp only
  set C := chromaOf a b with hCdef
  set a_ := a / C with ha
  set b_ := b / C with hb
  set S := (G a_ b_).s with hSdef
  set T := (G a_ b_).t with hTdef
  have hden : 0 < C + L * T := by positivity
  set t := T / (C + L * T) with ht
  have htpos : 0 < t := div_pos hT hden
  have hline : t * C + T * (t * L) = T := by rw [ht]; field_simp
  have hcs : t * C ≤ S * (t * L) := by nlinarith
  obtain ⟨s0, s1, ecv, elv⟩ := cvOf_satOf S T (t * L) (t * C) hS hT (mul_pos htpos hC) hline hcs
  refine ⟨?_, s0, s1⟩
  have hfpos : 0 < scaleOf a_ b_ (t * L) (t * C) := scaleOf_pos _ _ _ _ hM
  set f := scaleOf a_ b_ (t * L) (t * C) with hf
  have hLf : 0 < L / f := div_pos hL hfpos
  have hv : 0 < toe (L / f) / (t * L) := by
    apply div_pos _ (mul_pos htpos hL)
    have h1 := C02Ok.toeInv_toe (L / f) hLf.le
    by_contra hneg
    have hle : toe (L / f) ≤ 0 := not_lt.mp hneg
    -- `toe_inv` of a non-positive number in `(−k₂, 0]` is `≤ 0`; simpler: `toe x ≥ 0`, so `toe x = 0`, whence `x = toe_inv 0 = 0`
    have hge : 0 ≤ toe (L / f) := by
      rw [C02Ok.toe_real]; unfold C02Ok.toeG
      set B := (1 + 0.206) / (1 + 0.03) * (L / f) - (0.206 : ℝ)
      have h4 : (0 : ℝ) ≤ 4 * 0.03 * ((1 + 0.206) / (1 + 0.03)) * (L / f) := by positivity
      have hsB : |B| ≤ Real.sqrt (B * B + 4 * 0.03 * ((1 + 0.206) / (1 + 0.03)) * (L / f)) := by
        apply Real.abs_le_sqrt; nlinarith
      have := neg_abs_le B
      have : 0 ≤ B + Real.sqrt (B * B + 4 * 0.03 * ((1 + 0.206) / (1 + 0.03)) * (L / f)) := by linarith
      positivity
    have : toe (L / f) = 0 := le_antisymm hle hge
    rw [this, C02Ok.toeInv_zero_one.1] at h1
    linarith
  obtain ⟨ec, es⟩ := unit_of_hue a b hC
  rw [okhsvToOklabW_arm G _ _ _ s0.ne' hv.ne']
  simp only
  rw [ec, es, ← hCdef, ← ha, ← hb, ← hSdef, ← hTdef, ecv, elv, ← hf]
  have e1 : toe (L / f) / (t * L) * (t * L) = toe (L / f) := div_mul_cancel₀ _ (mul_pos htpos hL).ne'
  rw [e1, C02Ok.toeInv_toe (L / f) hLf.le, div_mul_cancel₀ _ hfpos.ne']
  have e2 : toe (L / f) / (t * L) * (t * C) * (L / f) / toe (L / f) * f = C := by
    have : toe (L / f) ≠ 0 := by
      intro h0; rw [h0] at hv; simp at hv
    field_simp
  rw [e2, ha, hb, mul_div_cancel₀ _ hC.ne', mul_div_cancel₀ _ hC.ne']

/-- **… for the model** -/
theorem oklab_okhsv_oklab (L a b : ℝ) (hL : 0 < L) (hC : 0 < chromaOf a b)
    (hS : 0 < (cuspST (a / chromaOf a b) (b / chromaOf a b)).s) (hT : 0 < (cuspST (a / chromaOf a b) (b / chromaOf a b)).t)
    (hCS : chromaOf a b ≤ (cuspST (a / chromaOf a b) (b / chromaOf a b)).s * L)
    (hM : 0 < scaleMax (a / chromaOf a b) (b / chromaOf a b)
            ((cuspST (a / chromaOf a b) (b / chromaOf a b)).t / (chromaOf a b + L * (cuspST (a / chromaOf a b) (b / chromaOf a b)).t) * L)
            ((cuspST (a / chromaOf a b) (b / chromaOf a b)).t / (chromaOf a b + L * (cuspST (a / chromaOf a b) (b / chromaOf a b)).t) * chromaOf a b)) :
    okhsvToOklab (oklabToOkhsv ⟨L, a, b⟩) = ⟨L, a, b⟩ ∧ 0 < (oklabToOkhsv ⟨L, a, b⟩).c1 ∧ (oklabToOkhsv ⟨L, a, b⟩).c1 ≤ 1 := by
  rw [← okhsvToOklabW_model, ← oklabToOkhsvW_model]
  exact oklabW_okhsv_oklab cuspST L a b hL hC hS hT hCS hM

/-! ### the same with cusp quantities only: `0 < S < 8`, `0 < T` -/

theorem cos_sin_unit (x : ℝ) : Real.cos x * Real.cos x + Real.sin x * Real.sin x = 1 := by
  have := Real.cos_sq_add_sin_sq x; nlinarith

theorem div_chroma_unit (a b : ℝ) (hC : 0 < chromaOf a b) :
    a / chromaOf a b * (a / chromaOf a b) + b / chromaOf a b * (b / chromaOf a b) = 1 := by
  have hCC : chromaOf a b * chromaOf a b = a * a + b * b := by
    show Real.sqrt (a * a + b * b) * Real.sqrt (a * a + b * b) = _
    exact Real.mul_self_sqrt (by nlinarith [mul_self_nonneg a, mul_self_nonneg b])
  field_simp
  nlinarith

/-- **`Okhsv → Oklab → Okhsv`, any cusp function with `0 < S < 8`, `0 < T` at the hue** -/
theorem okhsvW_oklab_okhsv_of_cusp (G : ℝ → ℝ → ST ℝ) (h s v : ℝ) (h0 : 0 < h) (h360 : h ≤ 360) (hs0 : 0 < s) (hs1 : s ≤ 1) (hv : 0 < v)
    (hS : 0 < (G (Real.cos (h * (Real.pi / 180))) (Real.sin (h * (Real.pi / 180)))).s)
    (hS8 : (G (Real.cos (h * (Real.pi / 180))) (Real.sin (h * (Real.pi / 180)))).s < 8)
    (hT : 0 < (G (Real.cos (h * (Real.pi / 180))) (Real.sin (h * (Real.pi / 180)))).t) :
    oklabToOkhsvW G (okhsvToOklabW G ⟨h, s, v⟩) = ⟨h, s, v⟩ :=
  okhsvW_oklab_okhsv G h s v h0 h360 hs0 hs1 hv hS hT
    (scaleMax_pos _ _ _ _ _ (cos_sin_unit _) (lvOf_pos _ _ s hS hT hs0.le hs1) (cvOf_pos _ _ s hS hT hs0 hs1).le
      (cv_le_S_lv _ _ s hS hT hs0.le hs1) hS8)

/-- **`Okhsv → Oklab → Okhsv` for the model**: the identity on `0 < h ≤ 360`, `0 < s ≤ 1`, `0 < v` whenever the cusp the code computes
    for this hue has `0 < S < 8` and `0 < T` (i.e. `0 < L_cusp < 1`, `0 < C_cusp < 8·L_cusp`) -/
theorem okhsv_oklab_okhsv_of_cusp (h s v : ℝ) (h0 : 0 < h) (h360 : h ≤ 360) (hs0 : 0 < s) (hs1 : s ≤ 1) (hv : 0 < v)
    (hS : 0 < (cuspST (Real.cos (h * (Real.pi / 180))) (Real.sin (h * (Real.pi / 180)))).s)
    (hS8 : (cuspST (Real.cos (h * (Real.pi / 180))) (Real.sin (h * (Real.pi / 180)))).s < 8)
    (hT : 0 < (cuspST (Real.cos (h * (Real.pi / 180))) (Real.sin (h * (Real.pi / 180)))).t) :
    oklabToOkhsv (okhsvToOklab ⟨h, s, v⟩) = ⟨h, s, v⟩ := by
  rw [← okhsvToOklabW_model, ← oklabToOkhsvW_model]
  exact okhsvW_oklab_okhsv_of_cusp cuspST h s v h0 h360 hs0 hs1 hv hS hS8 hT

/-- non-vacuity through a `findCusp`-free cusp: constant `S = 0.4`, `T = 0.9`; `Okhsv(120°, 0.7, 0.6)` and the corner `Okhsv(360°, 1, 1)` -/
example : oklabToOkhsvW (fun _ _ => ⟨0.4, 0.9⟩) (okhsvToOklabW (fun _ _ => ⟨0.4, 0.9⟩) ⟨120, 0.7, 0.6⟩) = ⟨120, 0.7, 0.6⟩ ∧
    oklabToOkhsvW (fun _ _ => ⟨0.4, 0.9⟩) (okhsvToOklabW (fun _ _ => ⟨0.4, 0.9⟩) ⟨360, 1, 1⟩) = ⟨360, 1, 1⟩ :=
  ⟨okhsvW_oklab_okhsv_of_cusp _ 120 0.7 0.6 (by norm_num) (by norm_num) (by norm_num) (by norm_num) (by norm_num) (by norm_num)
      (by norm_num) (by norm_num),
   okhsvW_oklab_okhsv_of_cusp _ 360 1 1 (by norm_num) (by norm_num) (by norm_num) (by norm_num) (by norm_num) (by norm_num)
      (by norm_num) (by norm_num)⟩

/-- **`Oklab → Okhsv → Oklab`, any cusp function with `0 < S < 8`, `0 < T` at the hue vector** -/
theorem oklabW_okhsv_oklab_of_cusp (G : ℝ → ℝ → ST ℝ) (L a b : ℝ) (hL : 0 < L) (hC : 0 < chromaOf a b)
    (hS : 0 < (G (a / chromaOf a b) (b / chromaOf a b)).s) (hS8 : (G (a / chromaOf a b) (b / chromaOf a b)).s < 8)
    (hT : 0 < (G (a / chromaOf a b) (b / chromaOf a b)).t)
    (hCS : chromaOf a b ≤ (G (a / chromaOf a b) (b / chromaOf a b)).s * L) :
    okhsvToOklabW G (oklabToOkhsvW G ⟨L, a, b⟩) = ⟨L, a, b⟩ ∧
    0 < (oklabToOkhsvW G ⟨L, a, b⟩).c1 ∧ (oklabToOkhsvW G ⟨L, a, b⟩).c1 ≤ 1 := by
  have hden : 0 < chromaOf a b + L * (G (a / chromaOf a b) (b / chromaOf a b)).t := by positivity
  have htpos : 0 < (G (a / chromaOf a b) (b / chromaOf a b)).t / (chromaOf a b + L * (G (a / chromaOf a b) (b / chromaOf a b)).t) :=
    div_pos hT hden
  exact oklabW_okhsv_oklab G L a b hL hC hS hT hCS
    (scaleMax_pos _ _ _ _ _ (div_chroma_unit a b hC) (mul_pos htpos hL) (mul_pos htpos hC).le (by nlinarith) hS8)

/-- **`Oklab → Okhsv → Oklab` for the model**: the identity on `0 < L`, `0 < C ≤ S·L`, whenever the cusp the code computes for the hue
    direction `(a/C, b/C)` has `0 < S < 8`, `0 < T`; the intermediate saturation is in `(0, 1]` -/
theorem oklab_okhsv_oklab_of_cusp (L a b : ℝ) (hL : 0 < L) (hC : 0 < chromaOf a b)
    (hS : 0 < (cuspST (a / chromaOf a b) (b / chromaOf a b)).s) (hS8 : (cuspST (a / chromaOf a b) (b / chromaOf a b)).s < 8)
    (hT : 0 < (cuspST (a / chromaOf a b) (b / chromaOf a b)).t)
    (hCS : chromaOf a b ≤ (cuspST (a / chromaOf a b) (b / chromaOf a b)).s * L) :
    okhsvToOklab (oklabToOkhsv ⟨L, a, b⟩) = ⟨L, a, b⟩ ∧ 0 < (oklabToOkhsv ⟨L, a, b⟩).c1 ∧ (oklabToOkhsv ⟨L, a, b⟩).c1 ≤ 1 := by
  rw [← okhsvToOklabW_model, ← oklabToOkhsvW_model]
  exact oklabW_okhsv_oklab_of_cusp cuspST L a b hL hC hS hS8 hT hCS

/-- non-vacuity (constant `S = 0.4`, `T = 0.9`): `Oklab(0.5, 0.09, 0.12)` has chroma `0.15 ≤ 0.4·0.5` -/
example : okhsvToOklabW (fun _ _ => ⟨0.4, 0.9⟩) (oklabToOkhsvW (fun _ _ => ⟨0.4, 0.9⟩) ⟨0.5, 0.09, 0.12⟩) = ⟨0.5, 0.09, 0.12⟩ := by
  have hC : chromaOf (0.09 : ℝ) 0.12 = 0.15 := by
    show Real.sqrt (0.09 * 0.09 + 0.12 * 0.12) = 0.15
    rw [show (0.09 : ℝ) * 0.09 + 0.12 * 0.12 = 0.15 ^ 2 by norm_num, Real.sqrt_sq (by norm_num)]
  exact (oklabW_okhsv_oklab_of_cusp _ 0.5 0.09 0.12 (by norm_num) (by rw [hC]; norm_num) (by norm_num) (by norm_num) (by norm_num)
    (by rw [hC]; norm_num)).1

end C01OkComposite
