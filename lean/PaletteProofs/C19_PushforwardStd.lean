/-
  C19 — the uniformity clause as a statement about measures (part 2: `Standard`, whole solids in closed form).

  If the three raw `rng.gen::<T>()` values are uniformly distributed on the unit cube `[0,1)³` (the assumption about rand's `Standard` float
  distribution), the push-forward under the MODEL's `standard ty` followed by the Cartesian coordinates of the solid is the normalised
  Lebesgue measure of ℝ³ on the whole solid, given in closed form:

    hsv_standard_volume, hwb_standard_volume     cone     {0 ≤ z ≤ 1, x² + y² ≤ z²}
    hsl_standard_volume, hsluv_standard_volume   bicone   {0 ≤ z ≤ 1, x² + y² ≤ (1 - |2z - 1|)²}
    cylinder_standard_volume                      cylinder {0 ≤ z ≤ H, x² + y² ≤ R²}, H and R the images of 1 under the type's map closures
    cartesian_standard_volume                     box between the images of 0 and 1 under the three map closures

  Full 3-D push-forward statements (see `C19_Pushforward.lean` for the method).
-/
import PaletteProofs.C19_Pushforward

open MeasureTheory Set Real ProbabilityTheory
open scoped ENNReal
open Sampling Gen.Sampling

noncomputable section
namespace C19

/-- the unit cube of raw draws -/
def unitCube : Set (ℝ × ℝ × ℝ) := Ico 0 1 ×ˢ (Ico 0 1 ×ˢ Ico 0 1)

/-- the cone `0 ≤ z ≤ 1`, `x² + y² ≤ z²` -/
def solidCone : Set (ℝ × ℝ × ℝ) := {p | 0 ≤ p.2.2 ∧ p.2.2 ≤ 1 ∧ p.1 ^ 2 + p.2.1 ^ 2 ≤ p.2.2 ^ 2}
/-- the bicone `0 ≤ z ≤ 1`, `x² + y² ≤ (1 - |2z - 1|)²` -/
def solidBicone : Set (ℝ × ℝ × ℝ) := {p | 0 ≤ p.2.2 ∧ p.2.2 ≤ 1 ∧ p.1 ^ 2 + p.2.1 ^ 2 ≤ (1 - |2 * p.2.2 - 1|) ^ 2}
/-- the cylinder `0 ≤ z ≤ H`, `x² + y² ≤ Rm²` -/
def solidCylinder (H Rm : ℝ) : Set (ℝ × ℝ × ℝ) := {p | 0 ≤ p.2.2 ∧ p.2.2 ≤ H ∧ p.1 ^ 2 + p.2.1 ^ 2 ≤ Rm ^ 2}

theorem two_pi_pos' : (0:ℝ) < 2 * π := by positivity

theorem unitCube_eq : unitCube = Ico 0 1 ×ˢ (Ico 0 1 ×ˢ Ico ((0:ℝ) ^ 2) ((1:ℝ) ^ 2)) := by norm_num [unitCube]

theorem hueStandard_rad (g : ℝ) : hueStandard g * kdeg = g * (2 * π) := by
  unfold hueStandard kdeg; rw [fullRotation_eq]; ring

/-! ### cone -/

theorem cone_standard_core :
    Measure.map (Revolution.sampler (2 * π) Scalar.cbrt id) (volume[|unitCube]) = volume[|solidCone] := by
  have himg : (fun z : ℝ => z ^ 3) '' Ioo 0 1 = Ioo 0 1 := by simpa using cube_image 0 1
  have key := Revolution.sampler_uniform (κ := 2 * π) (F := fun z => z ^ 3) (G := Scalar.cbrt) (R := id) (c := 3) (a := 0) (b := 1)
    (s0 := 0) (s1 := 1) (h0 := 0) (h1 := 1) two_pi_pos' measurable_cbrt measurable_id (by norm_num)
    (fun z _ => by simpa using hasDerivAt_pow 3 z) (fun z hz => hz.1) (fun z hz => hz.1)
    (fun z _ => by rw [← powi3_eq, cbrt_powi3]) himg one_pos (le_refl _) one_pos one_pos (by norm_num)
  rw [unitCube_eq, key, Revolution.solid_full (R := id) two_pi_pos' (by ring) (fun z hz => hz.1)]
  congr 1
  ext p; simp only [solidCone, mem_ofPred_eq, mem_Icc, id, and_assoc]

/-- **Hsv, Okhsv — a `Standard` sample is uniformly distributed in the volume of the cone.** -/
theorem hsv_standard_volume (ty : Ty) (hf : family ty = .hsv_cone) (wx wy wz : ℝ) :
    Measure.map (fun g => cartCone (standard ty wx wy wz (draws3 g))) (volume[|unitCube]) = volume[|solidCone] := by
  have e : (fun g : ℝ × ℝ × ℝ => cartCone (standard ty wx wy wz (draws3 g))) = Revolution.sampler (2 * π) Scalar.cbrt id := by
    funext g
    have : standard ty wx wy wz (draws3 g) = [hueStandard g.1, Scalar.sqrt g.2.2, Scalar.cbrt g.2.1] := by
      unfold standard draws3; rw [hf]; rfl
    rw [this]
    simp only [cartCone, Revolution.sampler, hueStandard_rad, RealScalar.sqrt_eq, id]
  rw [e, cone_standard_core]

/-- **Hwb, Okhwb — the same, through the equivalent HSV colour.** -/
theorem hwb_standard_volume (ty : Ty) (hf : family ty = .hwb_cone) (wx wy wz : ℝ) :
    Measure.map (fun g => cartHwb (standard ty wx wy wz (draws3 g))) (volume[|unitCube]) = volume[|solidCone] := by
  have e : (fun g : ℝ × ℝ × ℝ => cartHwb (standard ty wx wy wz (draws3 g))) = Revolution.sampler (2 * π) Scalar.cbrt id := by
    funext g
    have : standard ty wx wy wz (draws3 g) =
        [hueStandard g.1, (hsvToHwb (Scalar.sqrt g.2.2) (Scalar.cbrt g.2.1)).1, (hsvToHwb (Scalar.sqrt g.2.2) (Scalar.cbrt g.2.1)).2] := by
      unfold standard draws3; rw [hf]; rfl
    rw [this, cartHwb_hsvToHwb]
    simp only [cartCone, Revolution.sampler, hueStandard_rad, RealScalar.sqrt_eq, id]
  rw [e, cone_standard_core]

/-! ### bicone -/

theorem invertBicone_zero : invertBiconeHeight (0:ℝ) = 0 := by rw [invertBicone_eq_lo (by norm_num)]; norm_num
theorem invertBicone_one : invertBiconeHeight (1:ℝ) = 1 := by rw [invertBicone_eq_hi (by norm_num)]; norm_num

theorem bicone_standard_core :
    Measure.map (Revolution.sampler (2 * π) biconeHeight biconeR) (volume[|unitCube]) = volume[|solidBicone] := by
  have himg : (invertBiconeHeight : ℝ → ℝ) '' Ioo 0 1 = Ioo 0 1 := by
    have := bicone_image 0 1; rwa [invertBicone_zero, invertBicone_one] at this
  have key := Revolution.sampler_uniform (κ := 2 * π) (F := invertBiconeHeight) (G := biconeHeight) (R := biconeR) (c := 3) (a := 0) (b := 1)
    (s0 := 0) (s1 := 1) (h0 := 0) (h1 := 1) two_pi_pos' measurable_biconeHeight measurable_biconeR (by norm_num)
    (fun z _ => hasDerivAt_invertBicone z) (fun z hz => biconeR_pos hz.1 hz.2) (fun z hz => biconeR_nonneg hz.1 hz.2)
    (fun z _ => biconeHeight_invert z) himg one_pos (le_refl _) one_pos one_pos (by norm_num)
  rw [unitCube_eq, key, Revolution.solid_full (R := biconeR) two_pi_pos' (by ring) (fun z hz => biconeR_nonneg hz.1 hz.2)]
  congr 1
  ext p; simp only [solidBicone, mem_ofPred_eq, mem_Icc, biconeR, and_assoc]

/-- **Hsl, Okhsl — a `Standard` sample is uniformly distributed in the volume of the bicone.** -/
theorem hsl_standard_volume (ty : Ty) (hty : ty = .Hsl ∨ ty = .Okhsl) (wx wy wz : ℝ) :
    Measure.map (fun g => cartBicone (standard ty wx wy wz (draws3 g))) (volume[|unitCube]) = volume[|solidBicone] := by
  have e : (fun g : ℝ × ℝ × ℝ => cartBicone (standard ty wx wy wz (draws3 g))) = Revolution.sampler (2 * π) biconeHeight biconeR := by
    funext g
    have : standard ty wx wy wz (draws3 g) = [hueStandard g.1, Scalar.sqrt g.2.2, biconeHeight g.2.1] := by
      rcases hty with rfl | rfl <;> rfl
    rw [this]
    simp only [cartBicone, Revolution.sampler, hueStandard_rad, RealScalar.sqrt_eq]
  rw [e, bicone_standard_core]

/-- **Hsluv** (components in `[0, 100]`, read on the bicone through `/ 100`) -/
theorem hsluv_standard_volume (wx wy wz : ℝ) :
    Measure.map (fun g => cartHsluv (standard .Hsluv wx wy wz (draws3 g))) (volume[|unitCube]) = volume[|solidBicone] := by
  have e : (fun g : ℝ × ℝ × ℝ => cartHsluv (standard .Hsluv wx wy wz (draws3 g))) = Revolution.sampler (2 * π) biconeHeight biconeR := by
    funext g
    have : standard .Hsluv wx wy wz (draws3 g) = [hueStandard g.1, Scalar.sqrt g.2.2 * 100.0, biconeHeight g.2.1 * 100.0] := rfl
    rw [this]
    have c : (100.0:ℝ) = 100 := by norm_num
    simp only [cartHsluv, cartBicone, Revolution.sampler, c, hueStandard_rad, RealScalar.sqrt_eq]
    rw [mul_div_cancel_right₀ _ (by norm_num : (100:ℝ) ≠ 0), mul_div_cancel_right₀ _ (by norm_num : (100:ℝ) ≠ 0)]
  rw [e, bicone_standard_core]

/-! ### cylinder -/

theorem cylinder_standard_core {H Rm : ℝ} (hH : 0 < H) (hRm : 0 < Rm) :
    Measure.map (Revolution.sampler (2 * π) (fun d => d * H) (fun _ => Rm)) (volume[|unitCube]) = volume[|solidCylinder H Rm] := by
  have himg : (fun z : ℝ => z / H) '' Ioo 0 H = Ioo 0 1 := by
    ext d
    constructor
    · rintro ⟨z, ⟨h1, h2⟩, rfl⟩; exact ⟨by positivity, by rw [div_lt_one hH]; exact h2⟩
    · rintro ⟨h1, h2⟩; exact ⟨d * H, ⟨by positivity, by nlinarith⟩, by field_simp⟩
  have key := Revolution.sampler_uniform (κ := 2 * π) (F := fun z => z / H) (G := fun d => d * H) (R := fun _ => Rm)
    (c := 1 / (H * Rm ^ 2)) (a := 0) (b := H)
    (s0 := 0) (s1 := 1) (h0 := 0) (h1 := 1) two_pi_pos' (by fun_prop) measurable_const (by positivity)
    (fun z _ => by
      have := (hasDerivAt_id z).div_const H
      have e : 1 / (H * Rm ^ 2) * Rm ^ 2 = 1 / H := by field_simp
      rw [e]; simpa using this)
    (fun z _ => hRm) (fun z _ => hRm.le)
    (fun z _ => by field_simp) himg hH (le_refl _) one_pos one_pos (by norm_num)
  rw [unitCube_eq, key, Revolution.solid_full (R := fun _ => Rm) two_pi_pos' (by ring) (fun z _ => hRm.le)]
  congr 1
  ext p; simp only [solidCylinder, mem_ofPred_eq, mem_Icc, and_assoc]

/-- the cylinder types' map closures are linear with positive factor -/
theorem cylinder_stdMap (ty : Ty) (hf : family ty = .cylinder) (wx wy wz : ℝ) :
    0 < stdMap ty 0 wx wy wz 1 ∧ 0 < stdMap ty 1 wx wy wz 1 ∧
      (∀ x, stdMap ty 0 wx wy wz x = x * stdMap ty 0 wx wy wz 1) ∧ (∀ x, stdMap ty 1 wx wy wz x = x * stdMap ty 1 wx wy wz 1) := by
  cases ty <;> simp [family] at hf <;> simp [stdMap] <;> norm_num

/-- **Lch, Lchuv, Oklch, Cam16UcsJmh — a `Standard` sample is uniformly distributed in the volume of the cylinder** whose height and radius
    are the images of 1 under the type's height and radius closures (regenerated from the macro invocations) -/
theorem cylinder_standard_volume (ty : Ty) (hf : family ty = .cylinder) (wx wy wz : ℝ) :
    Measure.map (fun g => cartCyl (standard ty wx wy wz (draws3 g))) (volume[|unitCube]) =
      volume[|solidCylinder (stdMap ty 0 wx wy wz 1) (stdMap ty 1 wx wy wz 1)] := by
  obtain ⟨hH, hRm, l0, l1⟩ := cylinder_stdMap ty hf wx wy wz
  have e : (fun g : ℝ × ℝ × ℝ => cartCyl (standard ty wx wy wz (draws3 g))) =
      Revolution.sampler (2 * π) (fun d => d * stdMap ty 0 wx wy wz 1) (fun _ => stdMap ty 1 wx wy wz 1) := by
    funext g
    have : standard ty wx wy wz (draws3 g) = [stdMap ty 0 wx wy wz g.2.1, stdMap ty 1 wx wy wz (Scalar.sqrt g.2.2), hueStandard g.1] := by
      unfold standard draws3; rw [hf]
    rw [this, l0, l1]
    simp only [cartCyl, Revolution.sampler, hueStandard_rad, RealScalar.sqrt_eq]
  rw [e, cylinder_standard_core hH hRm]

/-- e.g. Lch: height 100, radius 128; Oklch: height 1, radius 1 -/
example : solidCylinder (stdMap .Lch 0 (0:ℝ) 0 0 1) (stdMap .Lch 1 (0:ℝ) 0 0 1) = solidCylinder 100 128 := by
  simp only [stdMap]; norm_num
example : solidCylinder (stdMap .Oklch 0 (0:ℝ) 0 0 1) (stdMap .Oklch 1 (0:ℝ) 0 0 1) = solidCylinder 1 1 := by
  simp only [stdMap]


/-! ### boxes -/

/-- an increasing affine map scales Lebesgue measure by a constant -/
theorem map_affine_volume {A : ℝ → ℝ} (hA : ∀ x, A x = A 0 + (A 1 - A 0) * x) (hpos : A 0 < A 1) :
    Measure.map A volume = ENNReal.ofReal (1 / (A 1 - A 0)) • (volume : Measure ℝ) := by
  have gen : ∀ a b : ℝ, 0 < b → Measure.map (fun x => a + b * x) volume = ENNReal.ofReal (1 / b) • (volume : Measure ℝ) := by
    intro a b hb
    have e : (fun x => a + b * x) = (fun x => a + x) ∘ (fun x => b * x) := rfl
    rw [e, ← Measure.map_map (measurable_const_add _) (measurable_const_mul _), Real.map_volume_mul_left hb.ne', Measure.map_smul,
      map_add_left_eq_self, abs_of_pos (inv_pos.mpr hb), one_div]
  have e : A = fun x => A 0 + (A 1 - A 0) * x := funext hA
  have := gen (A 0) (A 1 - A 0) (by linarith)
  rwa [← e] at this

theorem affine_preimage {A : ℝ → ℝ} (hA : ∀ x, A x = A 0 + (A 1 - A 0) * x) (hpos : A 0 < A 1) :
    A ⁻¹' Ico (A 0) (A 1) = Ico 0 1 := by
  ext x
  simp only [mem_preimage, mem_Ico]
  rw [hA x]
  have hb : 0 < A 1 - A 0 := by linarith
  constructor
  · rintro ⟨h1, h2⟩; exact ⟨by nlinarith, by nlinarith⟩
  · rintro ⟨h1, h2⟩; exact ⟨by nlinarith, by nlinarith⟩

theorem measurable_affine {A : ℝ → ℝ} (hA : ∀ x, A x = A 0 + (A 1 - A 0) * x) : Measurable A := by
  have e : A = fun x => A 0 + (A 1 - A 0) * x := funext hA
  rw [e]; fun_prop

/-- three increasing affine maps push the uniform distribution on the unit cube to the uniform distribution on the box between the images of
    0 and 1 -/
theorem box_standard_core {A0 A1 A2 : ℝ → ℝ}
    (h0 : ∀ x, A0 x = A0 0 + (A0 1 - A0 0) * x) (p0 : A0 0 < A0 1)
    (h1 : ∀ x, A1 x = A1 0 + (A1 1 - A1 0) * x) (p1 : A1 0 < A1 1)
    (h2 : ∀ x, A2 x = A2 0 + (A2 1 - A2 0) * x) (p2 : A2 0 < A2 1) :
    Measure.map (Prod.map A0 (Prod.map A1 A2)) (volume[|unitCube]) =
      volume[|Icc (A0 0) (A0 1) ×ˢ (Icc (A1 0) (A1 1) ×ˢ Icc (A2 0) (A2 1))] := by
  have m0 := measurable_affine h0
  have m1 := measurable_affine h1
  have m2 := measurable_affine h2
  have hΦ : Measurable (Prod.map A0 (Prod.map A1 A2)) := m0.prodMap (m1.prodMap m2)
  set J : Set (ℝ × ℝ × ℝ) := Ico (A0 0) (A0 1) ×ˢ (Ico (A1 0) (A1 1) ×ˢ Ico (A2 0) (A2 1)) with hJ
  have hJm : MeasurableSet J := measurableSet_Ico.prod (measurableSet_Ico.prod measurableSet_Ico)
  have hpre : Prod.map A0 (Prod.map A1 A2) ⁻¹' J = unitCube := by
    have q0 : ∀ x, A0 x ∈ Ico (A0 0) (A0 1) ↔ x ∈ Ico 0 1 := fun x => by rw [← mem_preimage, affine_preimage h0 p0]
    have q1 : ∀ x, A1 x ∈ Ico (A1 0) (A1 1) ↔ x ∈ Ico 0 1 := fun x => by rw [← mem_preimage, affine_preimage h1 p1]
    have q2 : ∀ x, A2 x ∈ Ico (A2 0) (A2 1) ↔ x ∈ Ico 0 1 := fun x => by rw [← mem_preimage, affine_preimage h2 p2]
    ext ⟨x, y, z⟩
    simp only [hJ, unitCube, mem_preimage, Prod.map_apply, mem_prod, q0, q1, q2]
  have hvol : Measure.map (Prod.map A0 (Prod.map A1 A2)) (volume : Measure (ℝ × ℝ × ℝ)) =
      (ENNReal.ofReal (1 / (A0 1 - A0 0)) * (ENNReal.ofReal (1 / (A1 1 - A1 0)) * ENNReal.ofReal (1 / (A2 1 - A2 0)))) • volume := by
    show Measure.map _ ((volume : Measure ℝ).prod ((volume : Measure ℝ).prod (volume : Measure ℝ))) = _
    rw [← Measure.map_prod_map _ _ m0 (m1.prodMap m2), ← Measure.map_prod_map _ _ m1 m2,
      map_affine_volume h0 p0, map_affine_volume h1 p1, map_affine_volume h2 p2]
    simp only [Measure.prod_smul_left, Measure.prod_smul_right, smul_smul]
    congr 1
    ring
  have hmap : Measure.map (Prod.map A0 (Prod.map A1 A2)) (volume.restrict unitCube) =
      (ENNReal.ofReal (1 / (A0 1 - A0 0)) * (ENNReal.ofReal (1 / (A1 1 - A1 0)) * ENNReal.ofReal (1 / (A2 1 - A2 0)))) •
        volume.restrict J := by
    rw [← hpre, ← Measure.restrict_map hΦ hJm, hvol, Measure.restrict_smul]
  rw [← Revolution.cond_congr_ae (box_ae_eq _ _ _ _ _ _)]
  refine Revolution.cond_map_of_restrict_map hΦ hmap ?_ (by simp [ENNReal.mul_eq_top])
  show (volume.prod (volume.prod volume)) unitCube ≠ 0
  unfold unitCube
  rw [Measure.prod_prod, Measure.prod_prod, Real.volume_Ico]
  simp


/-- increasing affine -/
def IncAffine (A : ℝ → ℝ) : Prop := (∀ x, A x = A 0 + (A 1 - A 0) * x) ∧ A 0 < A 1

/-- the map closures of the cartesian types are increasing affine maps (for a white point with positive coordinates; regenerated closures) -/
theorem cartesian_stdMap (ty : Ty) (hf : family ty = .cartesian) (wx wy wz : ℝ) (hw : 0 < wx ∧ 0 < wy ∧ 0 < wz) :
    IncAffine (stdMap ty 0 wx wy wz) ∧ IncAffine (stdMap ty 1 wx wy wz) ∧ IncAffine (stdMap ty 2 wx wy wz) := by
  obtain ⟨h1, h2, h3⟩ := hw
  cases ty <;> simp [family] at hf <;> refine ⟨⟨fun x => ?_, ?_⟩, ⟨fun x => ?_, ?_⟩, ⟨fun x => ?_, ?_⟩⟩ <;>
    simp only [stdMap] <;> norm_num <;> first | ring1 | linarith

/-- **the three-component cartesian types (Rgb, Lab, Luv, Xyz, Yxy, Lms, Oklab, Cam16UcsJab) — a `Standard` sample is uniformly distributed on
    the box** between the images of 0 and 1 under the type's three map closures (e.g. Lab: `[0,100] × [-128,127]²`; Xyz: `[0, white point]`) -/
theorem cartesian_standard_volume (ty : Ty) (hf : family ty = .cartesian) (wx wy wz : ℝ) (hw : 0 < wx ∧ 0 < wy ∧ 0 < wz) :
    Measure.map (fun g => cartBox (standard ty wx wy wz (draws3 g))) (volume[|unitCube]) =
      volume[|Icc (stdMap ty 0 wx wy wz 0) (stdMap ty 0 wx wy wz 1) ×ˢ
        (Icc (stdMap ty 1 wx wy wz 0) (stdMap ty 1 wx wy wz 1) ×ˢ Icc (stdMap ty 2 wx wy wz 0) (stdMap ty 2 wx wy wz 1))] := by
  obtain ⟨a0, a1, a2⟩ := cartesian_stdMap ty hf wx wy wz hw
  have e : (fun g : ℝ × ℝ × ℝ => cartBox (standard ty wx wy wz (draws3 g))) =
      Prod.map (stdMap ty 0 wx wy wz) (Prod.map (stdMap ty 1 wx wy wz) (stdMap ty 2 wx wy wz)) := by
    funext g
    have : standard ty wx wy wz (draws3 g) = [stdMap ty 0 wx wy wz g.1, stdMap ty 1 wx wy wz g.2.1, stdMap ty 2 wx wy wz g.2.2] := by
      unfold standard draws3; rw [hf]; rfl
    rw [this]; rfl
  rw [e]
  exact box_standard_core a0.1 a0.2 a1.1 a1.2 a2.1 a2.2

/-- non-vacuity: Xyz with the D65 white point; the box is `[0, 0.95047] × [0, 1] × [0, 1.08883]` -/
example : Measure.map (fun g => cartBox (standard .Xyz 0.95047 1 1.08883 (draws3 g))) (volume[|unitCube]) =
    volume[|Icc (stdMap .Xyz 0 0.95047 1 1.08883 0) (stdMap .Xyz 0 0.95047 1 1.08883 1) ×ˢ
      (Icc (stdMap .Xyz 1 0.95047 1 1.08883 0) (stdMap .Xyz 1 0.95047 1 1.08883 1) ×ˢ
        Icc (stdMap .Xyz 2 0.95047 1 1.08883 0) (stdMap .Xyz 2 0.95047 1 1.08883 1))] :=
  cartesian_standard_volume .Xyz rfl 0.95047 1 1.08883 ⟨by norm_num, by norm_num, by norm_num⟩
example : (stdMap .Xyz 0 (0.95047:ℝ) 1 1.08883 0, stdMap .Xyz 0 (0.95047:ℝ) 1 1.08883 1) = (0, 0.95047) := by simp only [stdMap]; norm_num

example : (stdMap .Lab 1 (0:ℝ) 0 0 0, stdMap .Lab 1 (0:ℝ) 0 0 1) = (-128, 127) := by simp only [stdMap]; norm_num

end C19
