/-
  C17 — results do not depend on the component representation.

  (1) lane-wise = scalar, law-free: for every function built from the `Scalar` operations, comparisons, mask operations and
      `select`, evaluating it on `n` lanes and reading lane `i` is evaluating it on lane `i`'s inputs (`Expr.eval_lane`,
      every `n`, every interpretation of the operations — hence bit-exactly for IEEE floats); instantiated for the model
      functions; and at one lane / `Mask = bool` the mask-generic functions are the scalar `if` functions.
  (2) masks: compare / select / bit operations / `is_true` / `is_false` act lane by lane.
  (3) pack / unpack are mutually inverse and keep lane order, for every lane count; the loops as written compute them.
  (4) tables regenerated from the sources: the SIMD types, their lane counts, the code of `select`/`lazy_select`/
      `is_valid_divisor`/`recip`/the packing loops the model transcribes.
  The ordered-field theorem about the two `Rgb → Hsv/Hsl` algorithms is in `C17_HueBranch.lean`.
-/
import PaletteModel.Simd
import PaletteModel.Gen.Simd
import PaletteModel.Color.Transfer

namespace C17
open Simd

/-! ## (1) lane-wise = scalar -/

section lifting
variable {α μ : Type} [VScalar α μ] {n : Nat}

theorem un_lane (o : Un) (a : Lanes n α) (i : Fin n) : (o.eval a) i = o.eval (a i) := by cases o <;> rfl
theorem bin_lane (o : Bin) (a b : Lanes n α) (i : Fin n) : (o.eval a b) i = o.eval (a i) (b i) := by cases o <;> rfl
theorem cmp_lane (o : Cmp) (a b : Lanes n α) (i : Fin n) : (o.eval a b) i = o.eval (a i) (b i) := by cases o <;> rfl

/-- `Select::select` on SIMD masks is the lane-wise scalar `select` -/
theorem select_lane (m : Lanes n μ) (a b : Lanes n α) (i : Fin n) : (VScalar.select m a b) i = VScalar.select (m i) (a i) (b i) := rfl
/-- `lazy_select!` on SIMD masks evaluates both branches and blends: lane by lane it is the scalar `lazy_select` -/
theorem lazySelect_lane (m : Lanes n μ) (a b : Lanes n α) (i : Fin n) : (lazySelect m a b) i = lazySelect (m i) (a i) (b i) := rfl
/-- `T::from_f64(c)` / literals are `splat`s -/
theorem const_lane (k : K) (i : Fin n) : (VScalar.const k : Lanes n α) i = VScalar.const k := rfl
theorem lit_lane (m : Nat) (s : Bool) (e : Nat) (i : Fin n) : (OfScientific.ofScientific m s e : Lanes n α) i = OfScientific.ofScientific m s e := rfl

mutual
/-- **lifting lemma**: every value expression, every lane count, every interpretation of the operations -/
theorem Expr.eval_lane {ι : Type} (env : ι → Lanes n α) (i : Fin n) :
    ∀ e : Expr ι, (e.eval env) i = e.eval (fun k => env k i)
  | .var _ => rfl
  | .lit _ _ _ => rfl
  | .const _ => rfl
  | .un o a => by
    show (o.eval (a.eval env)) i = o.eval (a.eval fun k => env k i)
    rw [un_lane, Expr.eval_lane env i a]
  | .bin o a b => by
    show (o.eval (a.eval env) (b.eval env)) i = o.eval (a.eval fun k => env k i) (b.eval fun k => env k i)
    rw [bin_lane, Expr.eval_lane env i a, Expr.eval_lane env i b]
  | .select c a b => by
    show (VScalar.select (c.eval env) (a.eval env) (b.eval env)) i = VScalar.select (c.eval fun k => env k i) (a.eval fun k => env k i) (b.eval fun k => env k i)
    rw [select_lane, MExpr.eval_lane env i c, Expr.eval_lane env i a, Expr.eval_lane env i b]
/-- … and every mask expression -/
theorem MExpr.eval_lane {ι : Type} (env : ι → Lanes n α) (i : Fin n) :
    ∀ e : MExpr ι, (e.eval env) i = e.eval (fun k => env k i)
  | .cmp o a b => by
    show (o.eval (a.eval env) (b.eval env)) i = o.eval (a.eval fun k => env k i) (b.eval fun k => env k i)
    rw [cmp_lane, Expr.eval_lane env i a, Expr.eval_lane env i b]
  | .valid a => by
    show (VScalar.isValidDivisor (a.eval env)) i = VScalar.isValidDivisor (a.eval fun k => env k i)
    rw [← Expr.eval_lane env i a]; rfl
  | .and p q => by
    show (Mask.and (p.eval env) (q.eval env)) i = Mask.and (p.eval fun k => env k i) (q.eval fun k => env k i)
    rw [← MExpr.eval_lane env i p, ← MExpr.eval_lane env i q]; rfl
  | .or p q => by
    show (Mask.or (p.eval env) (q.eval env)) i = Mask.or (p.eval fun k => env k i) (q.eval fun k => env k i)
    rw [← MExpr.eval_lane env i p, ← MExpr.eval_lane env i q]; rfl
  | .xor p q => by
    show (Mask.xor (p.eval env) (q.eval env)) i = Mask.xor (p.eval fun k => env k i) (q.eval fun k => env k i)
    rw [← MExpr.eval_lane env i p, ← MExpr.eval_lane env i q]; rfl
  | .not p => by
    show (Mask.not (p.eval env)) i = Mask.not (p.eval fun k => env k i)
    rw [← MExpr.eval_lane env i p]; rfl
  | .fromBool _ => rfl
end

/-- a whole SIMD computation is the scalar computation in every lane: the vector of results is the map over lanes -/
theorem Expr.eval_lanes {ι : Type} (env : ι → Lanes n α) (e : Expr ι) : e.eval env = fun i => e.eval (fun k => env k i) :=
  funext fun i => Expr.eval_lane env i e

/-- lanes do not interact: changing the other lanes' inputs does not change lane `i`'s result -/
theorem Expr.eval_lane_indep {ι : Type} (env env' : ι → Lanes n α) (i : Fin n) (h : ∀ k, env k i = env' k i) (e : Expr ι) :
    (e.eval env) i = (e.eval env') i := by
  rw [Expr.eval_lane, Expr.eval_lane]; congr 1; funext k; exact h k

/-! ### the model functions are such expressions: instances of the lifting lemma -/

/-- the sRGB decoding curve as syntax (one variable) -/
def srgbIntoLinearE : Expr Unit :=
  .select (.cmp .le (.var ()) (.lit 4045 true 5))
    (.bin .mul (.const (1.0 / 12.92)) (.var ()))
    (.bin .powf (.bin .add (.bin .mul (.var ()) (.const (1.0 / 1.055))) (.const (0.055 / 1.055))) (.lit 24 true 1))

theorem srgbIntoLinear_is_expr (x : α) : srgbIntoLinear x = srgbIntoLinearE.eval (fun _ => x) := rfl

/-- `Xyz → Yxy`, first output component, as syntax (variables 0,1,2 = X,Y,Z) -/
def xyzToYxyE0 : Expr (Fin 3) :=
  .select (.valid (.bin .add (.bin .add (.var 0) (.var 1)) (.var 2)))
    (.bin .div (.var 0) (.bin .add (.bin .add (.var 0) (.var 1)) (.var 2))) (.lit 0 true 1)

theorem xyzToYxy_c0_is_expr (c : V3 α) : (xyzToYxy c).c0 = xyzToYxyE0.eval (fun k => match k with | 0 => c.c0 | 1 => c.c1 | 2 => c.c2) := rfl

/-- each lane of the SIMD transfer function is the transfer function of that lane (and so on for every model function:
    all by unfolding, no property of the operations is used) -/
theorem srgbIntoLinear_lane (v : Lanes n α) (i : Fin n) : (srgbIntoLinear v) i = srgbIntoLinear (v i) := rfl
theorem srgbFromLinear_lane (v : Lanes n α) (i : Fin n) : (srgbFromLinear v) i = srgbFromLinear (v i) := rfl
theorem clampMinMax_lane (v lo hi : Lanes n α) (i : Fin n) : (clampMinMax v lo hi) i = clampMinMax (v i) (lo i) (hi i) := rfl

/-- SIMD colour conversion = pack ∘ (scalar conversion per lane): stated through `unpack`/`pack` -/
theorem rgbIntoLinear_lane (cs : Fin n → V3 α) (i : Fin n) : unpack (rgbIntoLinear (pack cs)) i = rgbIntoLinear (cs i) := rfl
theorem rgbFromLinear_lane (cs : Fin n → V3 α) (i : Fin n) : unpack (rgbFromLinear (pack cs)) i = rgbFromLinear (cs i) := rfl
theorem xyzToYxy_lane (cs : Fin n → V3 α) (i : Fin n) : unpack (xyzToYxy (pack cs)) i = xyzToYxy (cs i) := rfl
theorem yxyToXyz_lane (cs : Fin n → V3 α) (i : Fin n) : unpack (yxyToXyz (pack cs)) i = yxyToXyz (cs i) := rfl
theorem hslToHsv_lane (cs : Fin n → V3 α) (i : Fin n) : unpack (hslToHsv (pack cs)) i = hslToHsv (cs i) := rfl
theorem hsvToHsl_lane (cs : Fin n → V3 α) (i : Fin n) : unpack (hsvToHsl (pack cs)) i = hsvToHsl (cs i) := rfl
theorem hsvToHwb_lane (cs : Fin n → V3 α) (i : Fin n) : unpack (hsvToHwb (pack cs)) i = hsvToHwb (cs i) := rfl
theorem hwbToHsv_lane (cs : Fin n → V3 α) (i : Fin n) : unpack (hwbToHsv (pack cs)) i = hwbToHsv (cs i) := rfl
theorem rgbToHsvMask_lane (cs : Fin n → V3 α) (i : Fin n) : unpack (rgbToHsvMask (pack cs)) i = rgbToHsvMask (cs i) := rfl
theorem rgbToHslMask_lane (cs : Fin n → V3 α) (i : Fin n) : unpack (rgbToHslMask (pack cs)) i = rgbToHslMask (cs i) := rfl
theorem rgbClampMinMax_lane (cs : Fin n → V3 α) (i : Fin n) : unpack (rgbClampMinMax (pack cs)) i = rgbClampMinMax (cs i) := rfl

/-- lanes of lanes: the statement is closed under nesting (an `f32x8` implemented as two `f32x4`) -/
theorem xyzToYxy_lane_nested {m : Nat} (cs : Fin n → Fin m → V3 α) (i : Fin n) (j : Fin m) :
    unpack (unpack (xyzToYxy (pack fun i => pack (cs i))) i) j = xyzToYxy (cs i j) := rfl

end lifting

/-! ### at `Mask = bool` the mask-generic functions are the scalar `if` functions of the other property modules -/

section scalar
variable {α : Type} [Scalar α]

theorem select_bool (c : Prop) [Decidable c] (a b : α) : VScalar.select (decide c) a b = if c then a else b := by
  show (if decide c = true then a else b) = _
  by_cases h : c <;> simp [h]

theorem lazySelect_bool (c : Prop) [Decidable c] (a b : α) : lazySelect (decide c) a b = if c then a else b := select_bool c a b

theorem select_true (a b : α) : VScalar.select true a b = a := rfl
theorem select_false (a b : α) : VScalar.select false a b = b := rfl

/-- the mask-generic sRGB curves at a scalar type are the curves of `Color/Transfer.lean` (C05) -/
theorem srgbIntoLinear_scalar (hfma : ∀ x m a : α, Scalar.mulAdd x m a = x * m + a) (x : α) :
    Simd.srgbIntoLinear x = Transfer.srgbIntoLinear x := by
  -- `mul_add` is the one operation where the scalar float types differ from the `wide` types by *rounding* (fused for f32/f64, `(x*m)+a` for
  -- wide without the fma target feature): the identity holds for every interpretation in which `mul_add` is `x*m+a` (ℝ, ℚ, wide lanes)
  unfold Simd.srgbIntoLinear Transfer.srgbIntoLinear
  rw [hfma]
  exact lazySelect_bool _ _ _
theorem srgbFromLinear_scalar (x : α) : Simd.srgbFromLinear x = Transfer.srgbFromLinear x := by
  unfold Simd.srgbFromLinear Transfer.srgbFromLinear
  exact lazySelect_bool _ _ _

omit [Scalar α] in
theorem v3_ite (b : Bool) (x y z x' y' : α) :
    (⟨if b = true then x else x', if b = true then y else y', z⟩ : V3 α) = if b = true then ⟨x, y, z⟩ else ⟨x', y', z⟩ := by
  cases b <;> rfl
omit [Scalar α] in
theorem v3_ite_mul [Mul α] (b : Bool) (x y z x' y' l : α) :
    (⟨(if b = true then x else x') * l, z, (if b = true then y else y') * l⟩ : V3 α) = if b = true then ⟨x * l, z, y * l⟩ else ⟨x' * l, z, y' * l⟩ := by
  cases b <;> rfl

/-- … and `Xyz ↔ Yxy` are the edges of `Color/Cie.lean` (C01/C02) -/
theorem xyzToYxy_scalar (c : V3 α) : Simd.xyzToYxy c = Cie.xyzToYxy c :=
  v3_ite (Scalar.isValidDivisor (c.c0 + c.c1 + c.c2)) _ _ _ _ _
theorem yxyToXyz_scalar (c : V3 α) : Simd.yxyToXyz c = Cie.yxyToXyz c :=
  v3_ite_mul (Scalar.isValidDivisor c.c1) _ _ _ _ _ _

/-- **each SIMD lane = the scalar function**, for the functions shared with the other modules: `n` lanes of any `Scalar` -/
theorem srgbIntoLinear_lanes_eq_scalar (hfma : ∀ x m a : α, Scalar.mulAdd x m a = x * m + a) {n : Nat} (v : Lanes n α) (i : Fin n) :
    (Simd.srgbIntoLinear v) i = Transfer.srgbIntoLinear (v i) := by
  rw [srgbIntoLinear_lane, srgbIntoLinear_scalar hfma]
theorem srgbFromLinear_lanes_eq_scalar {n : Nat} (v : Lanes n α) (i : Fin n) : (Simd.srgbFromLinear v) i = Transfer.srgbFromLinear (v i) := by
  rw [srgbFromLinear_lane, srgbFromLinear_scalar]
theorem xyzToYxy_lanes_eq_scalar {n : Nat} (cs : Fin n → V3 α) (i : Fin n) : unpack (Simd.xyzToYxy (pack cs)) i = Cie.xyzToYxy (cs i) := by
  rw [xyzToYxy_lane, xyzToYxy_scalar]
theorem yxyToXyz_lanes_eq_scalar {n : Nat} (cs : Fin n → V3 α) (i : Fin n) : unpack (Simd.yxyToXyz (pack cs)) i = Cie.yxyToXyz (cs i) := by
  rw [yxyToXyz_lane, yxyToXyz_scalar]

end scalar

/-! ## (2) masks act lane by lane -/

section masks
variable {α : Type} [Scalar α] {n : Nat}

/-- `PartialCmp` on a SIMD value: lane `i` of the mask is the scalar comparison of lane `i` -/
theorem lt_lane (a b : Lanes n α) (i : Fin n) : (VScalar.lt a b : Lanes n Bool) i = decide (a i < b i) := rfl
theorem le_lane (a b : Lanes n α) (i : Fin n) : (VScalar.le a b : Lanes n Bool) i = decide (a i ≤ b i) := rfl
theorem eq_lane (a b : Lanes n α) (i : Fin n) : (VScalar.eq a b : Lanes n Bool) i = decide (Scalar.eqv (a i) (b i)) := rfl
theorem ne_lane (a b : Lanes n α) (i : Fin n) : (VScalar.ne a b : Lanes n Bool) i = !decide (Scalar.eqv (a i) (b i)) := rfl
theorem ge_lane (a b : Lanes n α) (i : Fin n) : (VScalar.ge a b : Lanes n Bool) i = decide (b i ≤ a i) := rfl
theorem gt_lane (a b : Lanes n α) (i : Fin n) : (VScalar.gt a b : Lanes n Bool) i = decide (b i < a i) := rfl
theorem isValidDivisor_lane (a : Lanes n α) (i : Fin n) : (VScalar.isValidDivisor a : Lanes n Bool) i = Scalar.isValidDivisor (a i) := rfl

/-- selecting with a SIMD mask = the scalar `if` in every lane -/
theorem select_mask_lane (m : Lanes n Bool) (x y : Lanes n α) (i : Fin n) :
    (VScalar.select m x y) i = if m i = true then x i else y i := rfl
/-- compare-then-select: the lane-wise `if a < b then x else y` -/
theorem select_lt_lane (a b x y : Lanes n α) (i : Fin n) :
    (lazySelect (VScalar.lt a b) x y) i = if a i < b i then x i else y i := by
  show (if decide (a i < b i) = true then x i else y i) = _
  by_cases h : a i < b i <;> simp [h]

theorem and_lane (p q : Lanes n Bool) (i : Fin n) : (Mask.and p q) i = (p i && q i) := rfl
theorem or_lane (p q : Lanes n Bool) (i : Fin n) : (Mask.or p q) i = (p i || q i) := rfl
theorem xor_lane (p q : Lanes n Bool) (i : Fin n) : (Mask.xor p q) i = Bool.xor (p i) (q i) := rfl
theorem not_lane (p : Lanes n Bool) (i : Fin n) : (Mask.not p) i = !(p i) := rfl
theorem fromBool_lane (b : Bool) (i : Fin n) : (Mask.fromBool b : Lanes n Bool) i = b := rfl

/-- `BoolMask::is_true` = all lanes, `is_false` = no lane -/
theorem isTrue_iff (m : Lanes n Bool) : Mask.isTrue m = true ↔ ∀ i, m i = true := by
  show ((List.finRange n).all fun i => Mask.isTrue (m i)) = true ↔ _
  simp only [List.all_eq_true, List.mem_finRange, true_implies]; rfl
theorem isFalse_iff (m : Lanes n Bool) : Mask.isFalse m = true ↔ ∀ i, m i = false := by
  show ((List.finRange n).all fun i => Mask.isFalse (m i)) = true ↔ _
  simp only [List.all_eq_true, List.mem_finRange, true_implies]
  constructor
  · intro h i; have := h i; change (!(m i)) = true at this; cases hm : m i <;> simp_all
  · intro h i; change (!(m i)) = true; rw [h i]; rfl

/-- one lane is the scalar case -/
theorem isTrue_one (m : Lanes 1 Bool) : Mask.isTrue m = m 0 := by
  show ((List.finRange 1).all fun i => m i) = m 0
  simp [List.finRange_succ]

/-- non-vacuity: a 4-lane mask with lanes on both sides; neither all-true nor all-false; select picks per lane -/
example : let m : Lanes 4 Bool := VScalar.lt (fun i => [1, 5, 2, 7].getD i.val 0 : Lanes 4 Float) (fun _ => (3 : Float))
    Lanes.toList m = [true, false, true, false] ∧ Mask.isTrue m = false ∧ Mask.isFalse m = false := by decide +kernel
end masks

/-! ## (3) packing -/

deriving instance DecidableEq for V3

section packing
variable {α : Type} {n : Nat}

/-- **lane order**: lane `i` of every SIMD component is that component of colour `i` -/
theorem pack_lane (cs : Fin n → V3 α) (i : Fin n) :
    (pack cs).c0 i = (cs i).c0 ∧ (pack cs).c1 i = (cs i).c1 ∧ (pack cs).c2 i = (cs i).c2 := ⟨rfl, rfl, rfl⟩
theorem unpack_lane (v : V3 (Lanes n α)) (i : Fin n) : unpack v i = ⟨v.c0 i, v.c1 i, v.c2 i⟩ := rfl

/-- **unpack ∘ pack = id** and **pack ∘ unpack = id**, every lane count -/
theorem unpack_pack (cs : Fin n → V3 α) : unpack (pack cs) = cs := rfl
theorem pack_unpack (v : V3 (Lanes n α)) : pack (unpack v) = v := rfl

theorem unpackAlpha_packAlpha (cs : Fin n → V3 α × α) : unpackAlpha (packAlpha cs) = cs := rfl
theorem packAlpha_unpackAlpha (v : V3 (Lanes n α) × Lanes n α) : packAlpha (unpackAlpha v) = v := rfl
theorem packAlpha_lane (cs : Fin n → V3 α × α) (i : Fin n) : (packAlpha cs).2 i = (cs i).2 ∧ unpack (packAlpha cs).1 i = (cs i).1 := ⟨rfl, rfl⟩

/-- packing is injective: two different arrays of colours never pack to the same SIMD colour -/
theorem pack_injective (cs ds : Fin n → V3 α) (h : pack cs = pack ds) : cs = ds := by
  have := congrArg unpack h; simpa [unpack_pack] using this

/-! ### the loops as written -/

/-- loop invariant of `element[index] = color.element` over arrays of length `pre.length + cs.length` -/
theorem packLoop_spec (cs : List (V3 α)) : ∀ (pre0 pre1 pre2 : List α) (t0 t1 t2 : List α),
    pre0.length = pre1.length → pre1.length = pre2.length → t0.length = cs.length → t1.length = cs.length → t2.length = cs.length →
    packLoop cs pre0.length ⟨pre0 ++ t0, pre1 ++ t1, pre2 ++ t2⟩ = ⟨pre0 ++ cs.map (·.c0), pre1 ++ cs.map (·.c1), pre2 ++ cs.map (·.c2)⟩ := by
  induction cs with
  | nil =>
    intro p0 p1 p2 t0 t1 t2 _ _ h0 h1 h2
    simp only [List.length_nil, List.length_eq_zero_iff] at h0 h1 h2
    subst h0 h1 h2; rfl
  | cons c cs ih =>
    intro p0 p1 p2 t0 t1 t2 e01 e12 h0 h1 h2
    match t0, t1, t2, h0, h1, h2 with
    | a0 :: t0, a1 :: t1, a2 :: t2, h0, h1, h2 =>
      simp only [List.length_cons, Nat.add_right_cancel_iff] at h0 h1 h2
      unfold packLoop
      have s0 : (p0 ++ a0 :: t0).set p0.length c.c0 = (p0 ++ [c.c0]) ++ t0 := by simp
      have s1 : (p1 ++ a1 :: t1).set p0.length c.c1 = (p1 ++ [c.c1]) ++ t1 := by rw [e01]; simp
      have s2 : (p2 ++ a2 :: t2).set p0.length c.c2 = (p2 ++ [c.c2]) ++ t2 := by rw [e01, e12]; simp
      simp only [s0, s1, s2]
      have l0 : p0.length + 1 = (p0 ++ [c.c0]).length := by simp
      rw [l0, ih (p0 ++ [c.c0]) (p1 ++ [c.c1]) (p2 ++ [c.c2]) t0 t1 t2 (by simp [e01]) (by simp [e12]) h0 h1 h2]
      simp

/-- **the packing loop computes the component-wise map**, any number of colours: lane `i` of each field is colour `i`'s component -/
theorem packList_eq_map (d : α) (cs : List (V3 α)) : packList d cs = ⟨cs.map (·.c0), cs.map (·.c1), cs.map (·.c2)⟩ := by
  have := packLoop_spec cs [] [] [] (List.replicate cs.length d) (List.replicate cs.length d) (List.replicate cs.length d) rfl rfl (by simp) (by simp) (by simp)
  simpa [packList] using this

/-- `(0..).zip(red).zip(green).zip(blue)` without the index -/
def zip3 : List α → List α → List α → List (V3 α)
  | r :: rs, g :: gs, b :: bs => ⟨r, g, b⟩ :: zip3 rs gs bs
  | _, _, _ => []

theorem unpackLoop_spec : ∀ (r g b : List α) (pre t : List (V3 α)), g.length = r.length → b.length = r.length → t.length = r.length →
    unpackLoop r g b pre.length (pre ++ t) = pre ++ (zip3 r g b)
  | [], g, b, pre, t, _, _, ht => by
    simp only [List.length_nil, List.length_eq_zero_iff] at ht; subst ht
    cases g <;> cases b <;> simp [unpackLoop, zip3]
  | r :: rs, g :: gs, b :: bs, pre, a :: t, hg, hb, ht => by
    simp only [List.length_cons, Nat.add_right_cancel_iff] at hg hb ht
    unfold unpackLoop
    have s : (pre ++ a :: t).set pre.length ⟨r, g, b⟩ = (pre ++ [⟨r, g, b⟩]) ++ t := by simp
    have l : pre.length + 1 = (pre ++ [(⟨r, g, b⟩ : V3 α)]).length := by simp
    rw [s, l, unpackLoop_spec rs gs bs (pre ++ [(⟨r, g, b⟩ : V3 α)]) t hg hb ht]
    simp [zip3]
  | _ :: _, [], _, _, _, hg, _, _ => by simp at hg
  | _ :: _, _ :: _, [], _, _, _, hb, _ => by simp at hb
  | _ :: _, _ :: _, _ :: _, _, [], _, _, ht => by simp at ht

theorem zipWith3_maps (cs : List (V3 α)) : zip3 (cs.map (·.c0)) (cs.map (·.c1)) (cs.map (·.c2)) = cs := by
  induction cs with
  | nil => rfl
  | cons c cs ih => simp [zip3, ih]

/-- **unpack loop ∘ pack loop = id** for every number of lanes: same colours, same order -/
theorem unpackList_packList (d : α) (dc : V3 α) (cs : List (V3 α)) : unpackList dc cs.length (packList d cs) = cs := by
  rw [packList_eq_map]
  have := unpackLoop_spec (cs.map (·.c0)) (cs.map (·.c1)) (cs.map (·.c2)) [] (List.replicate cs.length dc) (by simp) (by simp) (by simp)
  simp only [List.length_nil, List.nil_append] at this
  unfold unpackList
  rw [this, zipWith3_maps]

/-- the SIMD fields have as many lanes as there were colours -/
theorem packList_length (d : α) (cs : List (V3 α)) :
    (packList d cs).c0.length = cs.length ∧ (packList d cs).c1.length = cs.length ∧ (packList d cs).c2.length = cs.length := by
  rw [packList_eq_map]; simp

/-- non-vacuity: three colours, order kept -/
example : packList 0 [⟨1, 2, 3⟩, ⟨4, 5, 6⟩, (⟨7, 8, 9⟩ : V3 Nat)] = ⟨[1, 4, 7], [2, 5, 8], [3, 6, 9]⟩ := by decide
example : unpackList ⟨0, 0, 0⟩ 3 ⟨[1, 4, 7], [2, 5, 8], [3, 6, (9 : Nat)]⟩ = [⟨1, 2, 3⟩, ⟨4, 5, 6⟩, ⟨7, 8, 9⟩] := by decide
end packing

/-! ## (4) what the sources say (regenerated on every run) -/

/-- the four SIMD component types of `impl_wide_float!` with their lane counts; masks and angle traits are implemented for
    exactly the same types -/
theorem wide_types :
    Gen.Simd.wideTypes = [("f32x4", "f32", 4), ("f32x8", "f32", 8), ("f64x2", "f64", 2), ("f64x4", "f64", 4)] ∧
    Gen.Simd.maskTypes.map (fun e => (e.1, e.2.1)) = Gen.Simd.wideTypes.map (fun e => (e.1, e.2.1)) ∧
    Gen.Simd.angleTypes = Gen.Simd.wideTypes.map (·.1) ∧
    Gen.Simd.widePow = [("f32x4", "pow_f32x4"), ("f32x8", "pow_f32x8"), ("f64x2", "pow_f64x2"), ("f64x4", "pow_f64x4")] := by
  decide +kernel

/-- the mask code the model transcribes: `select` = `blend`, `lazy_select` evaluates both closures then selects, `bool` selects
    with `if`, comparisons are the lane-wise `cmp_*`, `is_true`/`is_false` = `all`/`none` -/
theorem mask_bodies :
    Gen.Simd.wideSelectBody = "self.blend(a, b)" ∧
    Gen.Simd.wideLazySelectBody = "let a = a(); let b = b(); self.select(a, b)" ∧
    Gen.Simd.boolSelectBody = "if self { a } else { b }" ∧
    Gen.Simd.boolLazySelectBody = "if self { a() } else { b() }" ∧
    Gen.Simd.wideIsTrueBody = "self.all()" ∧ Gen.Simd.wideIsFalseBody = "self.none()" ∧
    Gen.Simd.wideFromBoolBody = "$ty::splat(if value { $scalar::from_bits($uint::MAX) } else { 0.0 })" ∧
    Gen.Simd.wideCmpBodies = [("lt", "self.cmp_lt(*other)"), ("lt_eq", "self.cmp_le(*other)"), ("eq", "self.cmp_eq(*other)"),
      ("neq", "self.cmp_ne(*other)"), ("gt_eq", "self.cmp_ge(*other)"), ("gt", "self.cmp_gt(*other)")] ∧
    Gen.Simd.lazySelectMacro = "( if $if_pred:expr => $if_body:expr, $(if $else_if_pred:expr => $else_if_body:expr,)* else => $else_body:expr $(,)?) => { crate::bool_mask::LazySelect::lazy_select( $if_pred, || $if_body, || lazy_select!($(if $else_if_pred => $else_if_body,)* else => $else_body) ) }; (else => $else_body:expr) => { $else_body }" := by
  decide +kernel

/-- the two numeric primitives that have to be the lane-wise scalar ones for lane = scalar to hold (both repaired in /repo, see
    fix.diff): `is_valid_divisor` is the lane-wise `is_normal`, `recip` is the exact division for all four types; and the
    wide `clamp` is `min` then `max` -/
theorem numeric_bodies :
    Gen.Simd.wideIsValidDivisorBody = "let abs = $ty::abs(*self); abs.cmp_ge($ty::splat($scalar::MIN_POSITIVE)) & abs.cmp_lt($ty::splat($scalar::INFINITY))" ∧
    Gen.Simd.wideRecipBodies = [("f32x4", "f32x4::ONE / self"), ("f32x8", "f32x8::ONE / self"), ("f64x2", "f64x2::ONE / self"), ("f64x4", "f64x4::ONE / self")] ∧
    Gen.Simd.wideClampBody = "self.min(max).max(min)" := by
  decide +kernel

/-- the only representation switch: `Rgb → Hsv` and `Rgb → Hsl` test `T::Mask == bool` -/
theorem representation_switch :
    Gen.Simd.representationSwitch = [("hsv.rs", "TypeId::of::<T::Mask>() == TypeId::of::<bool>()"), ("hsl.rs", "TypeId::of::<T::Mask>() == TypeId::of::<bool>()")] := by
  decide +kernel

/-- the packing loops the model transcribes -/
theorem pack_bodies :
    Gen.Simd.packBody = "$(let mut $element: [T; N] = Default::default();)* for (index, color) in IntoIterator::into_iter(colors).enumerate() { $($element[index] = color.$element;)* } $self_ty { $($element: V::from_array($element),)* $($phantom: core::marker::PhantomData,)? }" ∧
    Gen.Simd.unpackBody = "let mut colors = Self::default(); $(let $element = color.$element.into_array();)* for make_recursive_tuples!(index $(,$element)*) in (0..)$(.zip($element))* { colors[index] = $self_ty { $($element,)* $($phantom: core::marker::PhantomData,)? }; } colors" ∧
    Gen.Simd.packHueBody = "let mut hue: [T; N] = Default::default(); $(let mut $element: [T; N] = Default::default();)* for (index, color) in IntoIterator::into_iter(colors).enumerate() { hue[index] = color.hue.into_inner(); $($element[index] = color.$element;)* } $self_ty { hue: V::from_array(hue).into(), $($element: V::from_array($element),)* $($phantom: core::marker::PhantomData,)? }" ∧
    Gen.Simd.unpackHueBody = "let mut colors = Self::default(); let hue = color.hue.into_inner().into_array(); $(let $element = color.$element.into_array();)* for make_recursive_tuples!(index, hue $(,$element)*) in (0..).zip(hue)$(.zip($element))* { colors[index] = $self_ty { hue: hue.into(), $($element,)* $($phantom: core::marker::PhantomData,)? }; } colors" := by
  decide +kernel

/-- every colour type packs (22 invocations), no field is listed twice -/
theorem pack_types : Gen.Simd.packTypes.length = 22 ∧ Gen.Simd.packTypes.all (fun e => e.2.2.Nodup) = true ∧
    (Gen.Simd.packTypes.filter (fun e => e.2.2.length == 3)).length ≥ 19 := by
  decide +kernel

end C17
