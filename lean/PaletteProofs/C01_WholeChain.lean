/-
  C01 — whole routes, the composition principle.

  If every edge `eᵢ : Aᵢ → Aᵢ₊₁` of a route has a left inverse on a domain `Dᵢ` and maps `Dᵢ` into `Dᵢ₊₁`, the composite route
  has the composite left inverse on `D₀`.  Stated (i) abstractly for two maps and (ii) for the model's own route interpreter
  `RouteEval.runPath` (the composition of the driver's dispatch `Conv.edge?` along a chain of colours), so that the instances
  in `C01_WholeCie/Rgb/Ok` are statements about `RouteEval.roundTrip`, i.e. about the edges the driver replays composed along
  the route table the driver checks.
-/
import PaletteProofs.Lemmas.RouteHops

namespace C01Chain
open RouteEval Route C01Hops

/-- **composition principle, abstract form** (two edges; longer chains by iteration — `InvChain.runs` below does the iteration
    for the model's interpreter) -/
theorem leftInv_comp {A B C : Type} (f : A → B) (f' : B → A) (g : B → C) (g' : C → B) (D : A → Prop) (E : B → Prop)
    (hf : ∀ x, D x → f' (f x) = x) (hg : ∀ y, E y → g' (g y) = y) (hm : ∀ x, D x → E (f x)) :
    ∀ x, D x → f' (g' (g (f x))) = x := by
  intro x hx; rw [hg _ (hm x hx), hf x hx]

/-- a chain of colours `p` under configuration `c`, each hop of which is present in the driver's dispatch in both directions,
    the backward edge being a left inverse of the forward edge on the hop's domain, and the forward edge mapping that domain
    into the domain of the next hop.  `D` is the domain at the head of the chain. -/
inductive InvChain (c : Cfg) : List Nat → (V3 ℝ → Prop) → Prop
  | last (a : Nat) (D : V3 ℝ → Prop) : InvChain c [a] D
  | step {a b : Nat} {r : List Nat} {D D' : V3 ℝ → Prop} {f g : V3 ℝ → V3 ℝ}
      (hf : hop c (a, b) = some f) (hg : hop c (b, a) = some g)
      (inv : ∀ x, D x → g (f x) = x) (maps : ∀ x, D x → D' (f x))
      (rest : InvChain c (b :: r) D') : InvChain c (a :: b :: r) D

/-- **composition principle for the route interpreter**: along an `InvChain` both the chain and the reversed chain run, and
    the reversed chain undoes the chain on the head domain -/
theorem InvChain.runs {c : Cfg} {p : List Nat} {D : V3 ℝ → Prop} (h : InvChain c p D) :
    ∃ F G : V3 ℝ → V3 ℝ, runPath c p = some F ∧ runPath c p.reverse = some G ∧ ∀ x, D x → G (F x) = x := by
  induction h with
  | last a D => exact ⟨id, id, rfl, rfl, fun _ _ => rfl⟩
  | @step a b r D D' f g hf hg inv maps rest ih =>
    obtain ⟨F, G, hF, hG, hGF⟩ := ih
    refine ⟨F ∘ f, g ∘ G, runPath_cons c hf hF, ?_, ?_⟩
    · have e : (a :: b :: r).reverse = r.reverse ++ [b, a] := by simp
      have e' : (b :: r).reverse = r.reverse ++ [b] := by simp
      rw [e]; rw [e'] at hG
      exact runPath_snoc c hG hg
    · intro x hx
      show g (G (F (f x))) = x
      rw [hGF _ (maps x hx), inv x hx]

/-- … and so the **round trip `a → b → a` of the model is the identity on the head domain**, whenever the derive crate routes
    `a → b` along the chain and `b → a` along the reversed chain (both decided on the generated routing table) -/
theorem roundTrip_of_chain {c : Cfg} {a b : Nat} {p : List Nat} {D : V3 ℝ → Prop} (hab : routeOf a b = some p)
    (hba : routeOf b a = some p.reverse) (h : InvChain c p D) (x : V3 ℝ) (hx : D x) : roundTrip c a b x = some x := by
  obtain ⟨F, G, hF, hG, hGF⟩ := h.runs
  unfold roundTrip
  rw [convertAt_of c hab hF, Option.bind_some, convertAt_of c hba hG, hGF x hx]

/-- non-vacuity: the one-colour chain -/
example (c : Cfg) : InvChain c [0] (fun _ => True) := .last 0 _

end C01Chain
