/-
  C16 — the hue of CAM16 through degrees and back.

  `xyz_to_cam16` stores the hue as `Cam16Hue::from_radians(h_rad)` = `h_rad.to_degrees()`; `non_black_cam16_to_xyz` reads it back
  with `into_radians()` = `normalize_signed_angle(h).to_radians()` and then only uses `sin h`, `cos h`, `cos(h + 2)`.
  The model carries the two conversion factors as the constants of Rust's std:
      `degK = 57.2957795130823208767981548141051703`  (180/π, 36 digits)   and   `radK = 3.14159265358979323846264338327950288 / 180`.
  At ℝ these are *rationals*; they are not exact inverses (`degK·radK = 1 − 1.9e-36`, `degK_mul_radK`) and `radK ≠ π/180`
  (`|radK − π/180| ≤ 1e-22` is all Mathlib's 20 digits of π can say, `radK_close`), and the `f64`/`f32` roundings of them the
  driver executes are further away (`57.29577951308232 · 0.017453292519943295 = 1 − 2.2e-17` in exact arithmetic).  So
  `into_radians(from_radians θ) = θ` is **not** a theorem about the model as it stands — it is a rounding-level identity and
  belongs to the rounding residual.  What is proved:

  * the shape, about the model itself: `hueIntoRadians (hueFromRadians θ) = θ·(degK·radK)` (`hue_model_roundtrip`), the angle
    normalisation is the identity on (−180, 180], invariant under whole turns, and lands in (−180, 180];
  * the round trip **with the exact π**: the model's two functions are the members `kd = degK`, `kr = radK` of the family
    `hueFromRadiansWith kd`, `hueIntoRadiansWith kr` (`hueFromRadians_eq_with`, `hueIntoRadians_eq_with`, both `rfl`), and for the
    exact factors `kd = 180/π`, `kr = π/180`:  radians → degrees → radians is the identity on (−π, π] (the range of `atan2`),
    degrees → radians → degrees is the representative in (−180, 180] of the hue modulo 360, and every degree value `h` gives
    an angle congruent to `h·π/180` modulo 2π, hence the same `sin`, `cos` (`hue_roundtrip_exact`, `hue_degrees_mod_360`,
    `hue_angle_mod_two_pi`, `hue_sin_cos_exact`);
  * the inverse model depends on the hue angle only through `sin` and `cos` (`inverseCore_congr_angle`).
-/
import PaletteProofs.C16_Cam16Signed
import Mathlib.Analysis.Real.Pi.Bounds
import Mathlib.Algebra.Order.Floor.Ring

namespace C16
open Cam16

/-! ### the model's conversion factors -/

/-- `180/π` as the model reads it at ℝ -/
noncomputable def degK : ℝ := Scalar.const (57.2957795130823208767981548141051703 : K)
/-- `π/180` as the model reads it at ℝ (`consts::PI / 180.0`) -/
noncomputable def radK : ℝ := Scalar.const Cam16.PI / 180.0

theorem degK_val : degK = (57.2957795130823208767981548141051703 : ℝ) := rfl
theorem radK_val : radK = (3.14159265358979323846264338327950288 : ℝ) / 180 := by
  show (3.14159265358979323846264338327950288 : ℝ) / 180.0 = _
  norm_num

theorem toDegrees_eq (x : ℝ) : toDegrees x = x * degK := rfl
theorem toRadians_eq (x : ℝ) : toRadians x = x * radK := rfl

/-- **the model's two factors are not exact inverses**: their product is within 2e-36 of 1 (and is not 1) -/
theorem degK_mul_radK : |degK * radK - 1| ≤ 2e-36 ∧ degK * radK ≠ 1 := by
  rw [degK_val, radK_val]
  constructor
  · rw [abs_le]; constructor <;> norm_num
  · norm_num

/-- the model's `π/180` against the real one: all that 20 proved digits of π give -/
theorem radK_close : |radK - Real.pi / 180| ≤ 1e-22 := by
  rw [radK_val, abs_le]
  have h1 := Real.pi_gt_d20
  have h2 := Real.pi_lt_d20
  constructor
  · have : Real.pi / 180 < 3.14159265358979323847 / 180 := by apply div_lt_div_of_pos_right h2; norm_num
    norm_num at this ⊢; linarith
  · have : (3.14159265358979323846:ℝ) / 180 < Real.pi / 180 := by apply div_lt_div_of_pos_right h1; norm_num
    norm_num at this ⊢; linarith

/-! ### `normalize_signed_angle` at ℝ -/

theorem normalizeSigned_eq (x : ℝ) : normalizeSigned x = x - (⌈(x + 180) / 360 - 1⌉ : ℝ) * 360 := by
  show x - ((⌈(x + 180.0) / 360.0 - 1.0⌉ : ℝ)) * 360.0 = _
  norm_num

/-- the normalised angle lies in (−180, 180] -/
theorem normalizeSigned_range (x : ℝ) : -180 < normalizeSigned x ∧ normalizeSigned x ≤ 180 := by
  rw [normalizeSigned_eq]
  have h1 := Int.le_ceil ((x + 180) / 360 - 1)
  have h2 := Int.ceil_lt_add_one ((x + 180) / 360 - 1)
  have e := div_mul_cancel₀ (x + 180) (show (360:ℝ) ≠ 0 by norm_num)
  have a := mul_le_mul_of_nonneg_right h1 (show (0:ℝ) ≤ 360 by norm_num)
  have b := mul_lt_mul_of_pos_right h2 (show (0:ℝ) < 360 by norm_num)
  constructor <;> linarith

/-- it differs from the stored angle by a whole number of turns -/
theorem normalizeSigned_congruent (x : ℝ) : ∃ m : ℤ, normalizeSigned x = x - 360 * m :=
  ⟨⌈(x + 180) / 360 - 1⌉, by rw [normalizeSigned_eq]; ring⟩

/-- it is the identity on (−180, 180] -/
theorem normalizeSigned_of_mem {x : ℝ} (h0 : -180 < x) (h1 : x ≤ 180) : normalizeSigned x = x := by
  rw [normalizeSigned_eq]
  have : ⌈(x + 180) / 360 - 1⌉ = 0 := by
    rw [Int.ceil_eq_iff]
    constructor
    · have : 0 < (x + 180) / 360 := by apply div_pos <;> linarith
      push_cast; linarith
    · have : (x + 180) / 360 ≤ 1 := by rw [div_le_one (by norm_num)]; linarith
      push_cast; linarith
  rw [this]; simp

/-- it does not see whole turns: **the hue is an angle modulo 360** -/
theorem normalizeSigned_add_turns (x : ℝ) (m : ℤ) : normalizeSigned (x + 360 * m) = normalizeSigned x := by
  rw [normalizeSigned_eq, normalizeSigned_eq]
  have e : (x + 360 * (m:ℝ) + 180) / 360 - 1 = ((x + 180) / 360 - 1) + m := by field_simp; ring
  rw [e, Int.ceil_add_intCast]
  push_cast; ring

/-! ### the two conversions with the factors as parameters -/

/-- `Cam16Hue::from_radians` with the factor `kd` in place of std's `180/π` -/
noncomputable def hueFromRadiansWith (kd r : ℝ) : ℝ := r * kd
/-- `Cam16Hue::into_radians` with the factor `kr` in place of std's `π/180` -/
noncomputable def hueIntoRadiansWith (kr h : ℝ) : ℝ := normalizeSigned h * kr

/-- the model's functions are the members `degK`, `radK` of the family -/
theorem hueFromRadians_eq_with (r : ℝ) : hueFromRadians r = hueFromRadiansWith degK r := rfl
theorem hueIntoRadians_eq_with (h : ℝ) : hueIntoRadians h = hueIntoRadiansWith radK h := rfl

/-- **radians → degrees → radians, model as it stands**: the angle comes back multiplied by `degK·radK = 1 − 1.9e-36`, for every
    angle whose degree value needs no normalisation (in particular `|θ| ≤ 3.14159`) -/
theorem hue_model_roundtrip {θ : ℝ} (h0 : -180 < θ * degK) (h1 : θ * degK ≤ 180) :
    hueIntoRadians (hueFromRadians θ) = θ * (degK * radK) := by
  rw [hueIntoRadians_eq_with, hueFromRadians_eq_with]
  unfold hueIntoRadiansWith hueFromRadiansWith
  rw [normalizeSigned_of_mem h0 h1]; ring

theorem hue_model_roundtrip_of_abs_le {θ : ℝ} (h : |θ| ≤ 3.14159) : hueIntoRadians (hueFromRadians θ) = θ * (degK * radK) := by
  obtain ⟨h0, h1⟩ := abs_le.mp h
  apply hue_model_roundtrip <;> rw [degK_val] <;> nlinarith

/-- … so the angle the model reads back differs from the forward hue angle by at most `2e-36·|θ|` -/
theorem hue_model_error {θ : ℝ} (h : |θ| ≤ 3.14159) : |hueIntoRadians (hueFromRadians θ) - θ| ≤ 2e-36 * |θ| := by
  rw [hue_model_roundtrip_of_abs_le h]
  have e : θ * (degK * radK) - θ = (degK * radK - 1) * θ := by ring
  rw [e, abs_mul]
  exact mul_le_mul_of_nonneg_right degK_mul_radK.1 (abs_nonneg θ)

/-- every angle `|θ| ≤ 3.14` has a degree value that the model's `into_radians` maps back to it exactly: `θ / radK` -/
theorem hueIntoRadians_preimage {θ : ℝ} (h : |θ| ≤ 3.14) : hueIntoRadians (θ / radK) = θ := by
  obtain ⟨h0, h1⟩ := abs_le.mp h
  have hr : (0:ℝ) < radK := by rw [radK_val]; norm_num
  rw [hueIntoRadians_eq_with]
  unfold hueIntoRadiansWith
  have l0 : -180 < θ / radK := by rw [lt_div_iff₀ hr, radK_val]; norm_num; linarith
  have l1 : θ / radK ≤ 180 := by rw [div_le_iff₀ hr, radK_val]; norm_num; linarith
  rw [normalizeSigned_of_mem l0 l1]
  field_simp

/-- **radians → degrees → radians with the exact π** is the identity on (−π, π], the range of the hue angle `atan2(b, a)` -/
theorem hue_roundtrip_exact {θ : ℝ} (h0 : -Real.pi < θ) (h1 : θ ≤ Real.pi) :
    hueIntoRadiansWith (Real.pi / 180) (hueFromRadiansWith (180 / Real.pi) θ) = θ := by
  have hp := Real.pi_pos
  unfold hueIntoRadiansWith hueFromRadiansWith
  have e : θ * (180 / Real.pi) = θ / Real.pi * 180 := by field_simp
  have l0 : -180 < θ * (180 / Real.pi) := by
    rw [e]
    have : -1 < θ / Real.pi := by rw [lt_div_iff₀ hp]; linarith
    linarith
  have l1 : θ * (180 / Real.pi) ≤ 180 := by
    rw [e]
    have : θ / Real.pi ≤ 1 := by rw [div_le_one hp]; exact h1
    linarith
  rw [normalizeSigned_of_mem l0 l1]
  field_simp

/-- the hue angle of the forward model is in that range -/
theorem forward_hRad_range (xyz : V3 ℝ) (p : Dep ℝ) : -Real.pi < (forward xyz p).hRad ∧ (forward xyz p).hRad ≤ Real.pi := by
  have e : (forward xyz p).hRad = Complex.arg ⟨(forward xyz p).a, (forward xyz p).b⟩ := rfl
  rw [e]
  exact ⟨Complex.neg_pi_lt_arg _, Complex.arg_le_pi _⟩

/-- **degrees → radians → degrees with the exact π**: the representative in (−180, 180] of the hue modulo 360 -/
theorem hue_degrees_mod_360 (h : ℝ) :
    hueFromRadiansWith (180 / Real.pi) (hueIntoRadiansWith (Real.pi / 180) h) = normalizeSigned h ∧
    (∃ m : ℤ, normalizeSigned h = h - 360 * m) ∧ -180 < normalizeSigned h ∧ normalizeSigned h ≤ 180 := by
  refine ⟨?_, normalizeSigned_congruent h, normalizeSigned_range h⟩
  have hp := Real.pi_pos
  unfold hueIntoRadiansWith hueFromRadiansWith
  field_simp

/-- **every degree value gives the angle `h·π/180` modulo 2π** (exact π) -/
theorem hue_angle_mod_two_pi (h : ℝ) : ∃ m : ℤ, hueIntoRadiansWith (Real.pi / 180) h = h * (Real.pi / 180) - m * (2 * Real.pi) := by
  obtain ⟨m, hm⟩ := normalizeSigned_congruent h
  refine ⟨m, ?_⟩
  unfold hueIntoRadiansWith
  rw [hm]; ring

/-- … hence the same `sin` and `cos`, which is all the inverse model reads, and whole turns of the stored hue do not matter -/
theorem hue_sin_cos_exact (h : ℝ) (m : ℤ) :
    Real.cos (hueIntoRadiansWith (Real.pi / 180) (h + 360 * m)) = Real.cos (h * (Real.pi / 180)) ∧
    Real.sin (hueIntoRadiansWith (Real.pi / 180) (h + 360 * m)) = Real.sin (h * (Real.pi / 180)) := by
  have e : hueIntoRadiansWith (Real.pi / 180) (h + 360 * m) = hueIntoRadiansWith (Real.pi / 180) h := by
    unfold hueIntoRadiansWith; rw [normalizeSigned_add_turns]
  obtain ⟨k, hk⟩ := hue_angle_mod_two_pi h
  rw [e, hk]
  exact ⟨Real.cos_sub_int_mul_two_pi _ _, Real.sin_sub_int_mul_two_pi _ _⟩

/-! ### the inverse model reads the hue angle through `sin` and `cos` only -/

theorem inverseOpponent_congr_angle (j alpha h1 h2 : ℝ) (p : Dep ℝ) (hc : Real.cos h1 = Real.cos h2) (hs : Real.sin h1 = Real.sin h2) :
    inverseOpponent j alpha h1 p = inverseOpponent j alpha h2 p := by
  simp only [inverseOpponent, RealScalar.cos_eq, RealScalar.sin_eq, Real.cos_add, hc, hs]

theorem inverseCore_congr_angle (j alpha h1 h2 : ℝ) (p : Dep ℝ) (hc : Real.cos h1 = Real.cos h2) (hs : Real.sin h1 = Real.sin h2) :
    inverseCore j alpha h1 p = inverseCore j alpha h2 p := by
  unfold inverseCore; rw [inverseOpponent_congr_angle j alpha h1 h2 p hc hs]

/-- non-vacuity: `θ = 2` (≈ 114.6°) is in the range of both round-trip statements -/
example : -Real.pi < (2:ℝ) ∧ (2:ℝ) ≤ Real.pi ∧ |(2:ℝ)| ≤ 3.14159 := by
  have := Real.pi_gt_three
  refine ⟨by linarith, by linarith, ?_⟩
  rw [abs_of_pos (by norm_num)]; norm_num

end C16
