/-
  C14 — grays of the D65 RGB spaces through the crate's `Rgb → Xyz → Oklab` route (what `Rgb<S> → Oklab` does for every space other than
  sRGB): RGB white `r = M(1,1,1)` of each space is evaluated through the second-order expansion of `C14_GrayOk.row_linearize` on the generated
  tables, and the gray axis follows by homogeneity of degree 1/3.
-/
import PaletteProofs.C14_GrayOk

namespace C14GrayOk
open Ok KRatCast

/-- first-order value and second-order remainder of the three rows of `xyzToOklab` at a colour whose cone responses are within 1/2 of 1 -/
theorem oklab_lin_err (c : V3 ℝ) (h0 : |((m1 : M3 ℝ).mulVec c).c0 - 1| ≤ 1 / 2) (h1 : |((m1 : M3 ℝ).mulVec c).c1 - 1| ≤ 1 / 2)
    (h2 : |((m1 : M3 ℝ).mulVec c).c2 - 1| ≤ 1 / 2) :
    let x := (m1 : M3 ℝ).mulVec c
    let m : M3 ℝ := m2
    |(xyzToOklab c).c0 - (m.m0 * (1 + (x.c0 - 1) / 3) + m.m1 * (1 + (x.c1 - 1) / 3) + m.m2 * (1 + (x.c2 - 1) / 3))|
        ≤ 7 / 6 * (|m.m0| * (x.c0 - 1) ^ 2 + |m.m1| * (x.c1 - 1) ^ 2 + |m.m2| * (x.c2 - 1) ^ 2) ∧
    |(xyzToOklab c).c1 - (m.m3 * (1 + (x.c0 - 1) / 3) + m.m4 * (1 + (x.c1 - 1) / 3) + m.m5 * (1 + (x.c2 - 1) / 3))|
        ≤ 7 / 6 * (|m.m3| * (x.c0 - 1) ^ 2 + |m.m4| * (x.c1 - 1) ^ 2 + |m.m5| * (x.c2 - 1) ^ 2) ∧
    |(xyzToOklab c).c2 - (m.m6 * (1 + (x.c0 - 1) / 3) + m.m7 * (1 + (x.c1 - 1) / 3) + m.m8 * (1 + (x.c2 - 1) / 3))|
        ≤ 7 / 6 * (|m.m6| * (x.c0 - 1) ^ 2 + |m.m7| * (x.c1 - 1) ^ 2 + |m.m8| * (x.c2 - 1) ^ 2) := by
  intro x m
  exact ⟨row_linearize m.m0 m.m1 m.m2 _ _ _ h0 h1 h2, row_linearize m.m3 m.m4 m.m5 _ _ _ h0 h1 h2,
    row_linearize m.m6 m.m7 m.m8 _ _ _ h0 h1 h2⟩

/-- **Oklab of RGB white of every D65 space** (through the real 7-digit matrix): `(1, 0, 0)` within `(2e-6, 1.2e-5, 3.8e-5)`; cone responses
    within 2e-4 of 1 -/
theorem oklab_rgb_white (sp : C14Gray.SpaceRow) (hsp : sp ∈ Gen.Mat.rgbSpaces) (hD : sp.2.1 = "D65") :
    let r := (M3.ofK sp.2.2.1 : M3 ℝ).mulVec ⟨1, 1, 1⟩
    (|((m1 : M3 ℝ).mulVec r).c0 - 1| ≤ 2e-4 ∧ |((m1 : M3 ℝ).mulVec r).c1 - 1| ≤ 2e-4 ∧ |((m1 : M3 ℝ).mulVec r).c2 - 1| ≤ 2e-4) ∧
    |(xyzToOklab r).c0 - 1| ≤ 2e-6 ∧ |(xyzToOklab r).c1| ≤ 1.2e-5 ∧ |(xyzToOklab r).c2| ≤ 3.8e-5 := by
  intro r
  have hl : |((m1 : M3 ℝ).mulVec r).c0 - 1| ≤ 2e-4 ∧ |((m1 : M3 ℝ).mulVec r).c1 - 1| ≤ 2e-4 ∧ |((m1 : M3 ℝ).mulVec r).c2 - 1| ≤ 2e-4 := by
    simp only [Gen.Mat.rgbSpaces, List.mem_cons, List.mem_nil_iff, or_false] at hsp
    rcases hsp with rfl | rfl | rfl | rfl | rfl | rfl | rfl
    all_goals first
      | exact absurd hD (by decide)
      | (simp only [r, m1, M3.ofK, M3.mulVec, Gen.Mat.oklabM1, RealScalar.const_eq, RealScalar.eval_neg, RealScalar.eval_ofSci]
         refine ⟨?_, ?_, ?_⟩ <;> (rw [abs_le]; constructor <;> norm_num))
  refine ⟨hl, ?_⟩
  obtain ⟨l0, l1, l2⟩ := hl
  have b (x : ℝ) (h : |x - 1| ≤ 2e-4) : |x - 1| ≤ 1 / 2 := le_trans h (by norm_num)
  have h := oklab_lin_err r (b _ l0) (b _ l1) (b _ l2)
  simp only [] at h
  obtain ⟨r0, r1, r2⟩ := h
  clear l0 l1 l2
  generalize xyzToOklab r = lab at r0 r1 r2 ⊢
  simp only [Gen.Mat.rgbSpaces, List.mem_cons, List.mem_nil_iff, or_false] at hsp
  rcases hsp with rfl | rfl | rfl | rfl | rfl | rfl | rfl
  all_goals first
    | exact absurd hD (by decide)
    | (simp only [r, m1, m2, M3.ofK, M3.mulVec, Gen.Mat.oklabM1, Gen.Mat.oklabM2, RealScalar.const_eq, RealScalar.eval_neg,
         RealScalar.eval_ofSci] at r0 r1 r2
       rw [abs_le] at r0 r1 r2
       norm_num [abs_of_pos, abs_of_neg] at r0 r1 r2
       refine ⟨?_, ?_, ?_⟩ <;> (rw [abs_le]; constructor <;> linarith [r0.1, r0.2, r1.1, r1.2, r2.1, r2.2]))

/-- **every gray of every D65 RGB space, any transfer function, through `Rgb → Xyz → Oklab`**: with `g = into_linear(e) ≥ 0` the result is
    `∛g · Oklab(RGB white)`, hence `|L − ∛g| ≤ 2e-6·∛g`, `|a| ≤ 1.2e-5·∛g`, `|b| ≤ 3.8e-5·∛g` and Oklch chroma `≤ 5e-5·∛g` -/
theorem xyzToOklab_gray_tables (sp : C14Gray.SpaceRow) (hsp : sp ∈ Gen.Mat.rgbSpaces) (hD : sp.2.1 = "D65") (tf : Transfer.Fn) (e : ℝ)
    (hg : 0 ≤ Transfer.intoLinear tf e) :
    let lab := xyzToOklab (RgbFam.rgbToXyz sp.2.2.1 tf ⟨e, e, e⟩)
    |lab.c0 - Scalar.cbrt (Transfer.intoLinear tf e)| ≤ 2e-6 * Scalar.cbrt (Transfer.intoLinear tf e) ∧
    |lab.c1| ≤ 1.2e-5 * Scalar.cbrt (Transfer.intoLinear tf e) ∧ |lab.c2| ≤ 3.8e-5 * Scalar.cbrt (Transfer.intoLinear tf e) ∧
    (oklabToOklch lab).c1 ≤ 5e-5 * Scalar.cbrt (Transfer.intoLinear tf e) := by
  intro lab
  obtain ⟨⟨l0, l1, l2⟩, w0, w1, w2⟩ := oklab_rgb_white sp hsp hD
  have pos (x : ℝ) (h : |x - 1| ≤ 2e-4) : 0 ≤ x := by have := (abs_le.mp h).1; norm_num at this; linarith
  have hlab : lab = ⟨Scalar.cbrt (Transfer.intoLinear tf e) * (xyzToOklab ((M3.ofK sp.2.2.1 : M3 ℝ).mulVec ⟨1, 1, 1⟩)).c0,
      Scalar.cbrt (Transfer.intoLinear tf e) * (xyzToOklab ((M3.ofK sp.2.2.1 : M3 ℝ).mulVec ⟨1, 1, 1⟩)).c1,
      Scalar.cbrt (Transfer.intoLinear tf e) * (xyzToOklab ((M3.ofK sp.2.2.1 : M3 ℝ).mulVec ⟨1, 1, 1⟩)).c2⟩ := by
    show xyzToOklab (RgbFam.rgbToXyz sp.2.2.1 tf ⟨e, e, e⟩) = _
    rw [C14Gray.rgbToXyz_gray, C14Gray.gray_axis]
    exact xyzToOklab_homogeneous _ _ hg (pos _ l0) (pos _ l1) (pos _ l2)
  have hp := cbrt_nonneg hg
  generalize Scalar.cbrt (Transfer.intoLinear tf e) = p at hp hlab ⊢
  generalize xyzToOklab ((M3.ofK sp.2.2.1 : M3 ℝ).mulVec ⟨1, 1, 1⟩) = W at w0 w1 w2 hlab
  have a0 : |lab.c0 - p| ≤ 2e-6 * p := by
    rw [hlab]
    have : p * W.c0 - p = p * (W.c0 - 1) := by ring
    simp only; rw [this, abs_mul, abs_of_nonneg hp, mul_comm]; exact mul_le_mul_of_nonneg_right w0 hp
  have a1 : |lab.c1| ≤ 1.2e-5 * p := by
    rw [hlab]; simp only; rw [abs_mul, abs_of_nonneg hp, mul_comm]; exact mul_le_mul_of_nonneg_right w1 hp
  have a2 : |lab.c2| ≤ 3.8e-5 * p := by
    rw [hlab]; simp only; rw [abs_mul, abs_of_nonneg hp, mul_comm]; exact mul_le_mul_of_nonneg_right w2 hp
  refine ⟨a0, a1, a2, ?_⟩
  have hc : (oklabToOklch lab).c1 = Angle.hypot lab.c1 lab.c2 := rfl
  rw [hc]
  refine le_trans (C14Gray.hypot_le _ _) ?_
  have : (1.2e-5 : ℝ) * p + 3.8e-5 * p = 5e-5 * p := by ring
  linarith

example : (0 : ℝ) ≤ Transfer.intoLinear .linear (0.5 : ℝ) := by
  show (0 : ℝ) ≤ _
  simp only [Transfer.intoLinear, id]; norm_num

end C14GrayOk
