/-
  C14 — the gray axis at ℝ: a linear gray `g·(1,1,1)` maps to `g·M(1,1,1)` under any 3×3 matrix, so neutrals stay on the axis of RGB white,
  which `C14.rgb_white_is_white_point` places within 1e-6 of the standard's white point.

  §1 exact statements for L\*a\*b\*, L\*u\*v\*, Lch, Lchuv on the exact gray axis `g·w` (both directions); §2 the hexcone spaces (Hsv, Hsl, Hwb; both
  directions).  The perturbation form for the real 7-digit matrices is in `C14_GrayNear.lean`, Ottosson's spaces in `C14_GrayOk.lean` and
  `C14_GrayOkRgb.lean`.  "CAM16 lightness 100 when white is the adopted white of the viewing conditions" is a statement about
  `Cam16.xyzToCam16` and the baked viewing-condition parameters (`A = A_w` for the adopted white, so `J = 100·(A/A_w)^{cz} = 100`) and
  belongs to C16 (`PaletteProofs/C16_Cam16.lean`, DESIGN §3 C14 last bullet / C16); no theorem about it is stated here.
-/
import PaletteProofs.Real
import PaletteModel.Color.Basic
import PaletteProofs.C01_Cie
import PaletteProofs.C01_Rgb
import PaletteProofs.C14_White
import PaletteProofs.Lemmas.KRatCast

namespace C14Gray

theorem gray_axis (m : M3 ℝ) (g : ℝ) :
    m.mulVec ⟨g, g, g⟩ = ⟨g * (m.mulVec ⟨1, 1, 1⟩).c0, g * (m.mulVec ⟨1, 1, 1⟩).c1, g * (m.mulVec ⟨1, 1, 1⟩).c2⟩ := by
  simp only [M3.mulVec]
  congr 1 <;> ring

/-- and when RGB white is *exactly* the white point (`M(1,1,1) = w`), every gray is exactly `g·w` -/
theorem gray_is_scaled_white (m : M3 ℝ) (w : V3 ℝ) (h : m.mulVec ⟨1, 1, 1⟩ = w) (g : ℝ) :
    m.mulVec ⟨g, g, g⟩ = ⟨g * w.c0, g * w.c1, g * w.c2⟩ := by
  rw [gray_axis, h]

/-! ## 1. CIE L\*a\*b\* / L\*u\*v\* on the exact gray axis `g·w`

Exact statements about the model's own `xyzToLab`, `labToXyz`, `xyzToLuv`, `luvToXyz`, `labToLch`, `luvToLchuv` read at ℝ, under the
exact hypothesis "the colour is `g·w`, `w` the reference white".  Every white point with non-zero components (in particular positive
ones), every real `g` (in particular `g ≥ 0`). -/
open Cie

/-- `g·w` -/
abbrev smul (g : ℝ) (w : V3 ℝ) : V3 ℝ := ⟨g * w.c0, g * w.c1, g * w.c2⟩

/-- CIE lightness as `xyzToLab` forms it: `L*(g) = 116·f(g) − 16` with the model's `labF` -/
noncomputable def labL (g : ℝ) : ℝ := labF g * 116 - 16

theorem labL_hi {g : ℝ} (h : (6 / 29 : ℝ) ^ 3 < g) : labL g = 116 * g ^ ((1 : ℝ) / 3) - 16 := by
  unfold labL; rw [C02Cie.labF_hi h]; ring
theorem labL_lo {g : ℝ} (h : ¬ (6 / 29 : ℝ) ^ 3 < g) : labL g = (29 / 3 : ℝ) ^ 3 * g := by
  unfold labL; rw [C02Cie.labF_lo h]; ring

/-- **Lab of a gray**: `g·w ↦ (L*(g), 0, 0)` exactly -/
theorem lab_gray (w : V3 ℝ) (h0 : w.c0 ≠ 0) (h1 : w.c1 ≠ 0) (h2 : w.c2 ≠ 0) (g : ℝ) :
    xyzToLab w (smul g w) = ⟨labL g, 0, 0⟩ := C02Cie.xyzToLab_neutral w g h0 h1 h2

/-- **white has `L* = 100`** (and black `L* = 0`) -/
theorem labL_one : labL 1 = 100 := by unfold labL; rw [C02Cie.labF_one]; norm_num
theorem labL_zero : labL 0 = 0 := by rw [labL_lo (by norm_num)]; ring
theorem lab_white (w : V3 ℝ) (h0 : w.c0 ≠ 0) (h1 : w.c1 ≠ 0) (h2 : w.c2 ≠ 0) : xyzToLab w w = ⟨100, 0, 0⟩ :=
  C02Cie.xyzToLab_white w h0 h1 h2

/-- non-vacuity: D65 and the DCI white have positive (hence non-zero) components -/
example : (0.95047 : ℝ) ≠ 0 ∧ (1 : ℝ) ≠ 0 ∧ (1.08883 : ℝ) ≠ 0 ∧ (0.314 / 0.351 : ℝ) ≠ 0 := by norm_num

theorem hypot_zero : Angle.hypot (0 : ℝ) 0 = 0 := by simp

/-- **Lch chroma of a gray is 0** exactly (the hue is whatever `atan2(−0, −0)` gives; the property does not speak about it) -/
theorem lch_gray (w : V3 ℝ) (h0 : w.c0 ≠ 0) (h1 : w.c1 ≠ 0) (h2 : w.c2 ≠ 0) (g : ℝ) :
    (labToLch (xyzToLab w (smul g w))).c0 = labL g ∧ (labToLch (xyzToLab w (smul g w))).c1 = 0 := by
  rw [lab_gray w h0 h1 h2]; exact ⟨rfl, hypot_zero⟩

/-- CIE lightness as `xyzToLuv` forms it is `C02Cie.luvL`; it agrees with `labL` -/
theorem luvL_eq_labL (g : ℝ) : C02Cie.luvL g = labL g := by
  by_cases h : (6 / 29 : ℝ) ^ 3 < g
  · rw [C01Cie.luvL_hi h, labL_hi h]
  · rw [C01Cie.luvL_lo h, labL_lo h]

/-- **Luv of a gray**: `g·w ↦ (L*(g), 0, 0)` exactly, for every `g` (at `g = 0` through the model's early return for a zero denominator) -/
theorem luv_gray (w : V3 ℝ) (h1 : w.c1 ≠ 0) (hd : w.c0 + 15 * w.c1 + 3 * w.c2 ≠ 0) (g : ℝ) :
    xyzToLuv w (smul g w) = ⟨labL g, 0, 0⟩ := by
  by_cases hg : g = 0
  · subst hg
    rw [C02Cie.xyzToLuv_of_zero w _ (by simp), labL_zero]
  · obtain ⟨hu, hv⟩ := C02Cie.xyzToLuv_neutral w g hg hd
    have hd' : (smul g w).c0 + 15 * (smul g w).c1 + 3 * (smul g w).c2 ≠ 0 := by
      have : g * w.c0 + 15 * (g * w.c1) + 3 * (g * w.c2) = g * (w.c0 + 15 * w.c1 + 3 * w.c2) := by ring
      show g * w.c0 + 15 * (g * w.c1) + 3 * (g * w.c2) ≠ 0
      rw [this]; exact mul_ne_zero hg hd
    have hl : (xyzToLuv w (smul g w)).c0 = labL g := by
      rw [C02Cie.xyzToLuv_of_ne w _ hd', ← luvL_eq_labL]
      show C02Cie.luvL (g * w.c1 / w.c1) = _
      rw [mul_div_assoc, div_self h1, mul_one]
    cases hx : xyzToLuv w (smul g w) with
    | mk a b c => rw [hx] at hu hv hl; simp only at hu hv hl; rw [hu, hv, hl]

/-- **Lchuv chroma of a gray is 0** -/
theorem lchuv_gray (w : V3 ℝ) (h1 : w.c1 ≠ 0) (hd : w.c0 + 15 * w.c1 + 3 * w.c2 ≠ 0) (g : ℝ) :
    (luvToLchuv (xyzToLuv w (smul g w))).c0 = labL g ∧ (luvToLchuv (xyzToLuv w (smul g w))).c1 = 0 := by
  rw [luv_gray w h1 hd]; exact ⟨rfl, hypot_zero⟩

example : (1 : ℝ) ≠ 0 ∧ (0.95047 : ℝ) + 15 * 1 + 3 * 1.08883 ≠ 0 := by norm_num

/-! ### … and back -/

/-- the luminance factor `labToXyz` assigns to `L*`: `f⁻¹((L + 16)/116)` with the model's `labFInv` -/
noncomputable def labY (L : ℝ) : ℝ := labFInv ((L + 16) / 116)

/-- **Lab `(L, 0, 0)` ↦ `Y(L)·w`** exactly: every white point, every `L` (no hypothesis at all) -/
theorem lab_neutral_back (w : V3 ℝ) (L : ℝ) : labToXyz w ⟨L, 0, 0⟩ = smul (labY L) w := by
  unfold labToXyz labY
  simp only [C02Cie.recip_eq]
  have e1 : (L + 16.0) * (1 / 116.0 : ℝ) = (L + 16) / 116 := by sring
  simp only [zero_mul, add_zero, sub_zero, e1]

/-- `labY` inverts `labL`: a gray of level `g` comes back as exactly `g·w` -/
theorem labY_labL (g : ℝ) : labY (labL g) = g := by
  unfold labY labL
  have : (labF g * 116 - 16 + 16) / 116 = labF g := by ring
  rw [this, C01Cie.labFInv_labF]

theorem lab_gray_roundtrip (w : V3 ℝ) (h0 : w.c0 ≠ 0) (h1 : w.c1 ≠ 0) (h2 : w.c2 ≠ 0) (g : ℝ) :
    labToXyz w (xyzToLab w (smul g w)) = smul g w := by
  rw [lab_gray w h0 h1 h2, lab_neutral_back, labY_labL]

/-- **Luv `(L, 0, 0)` ↦ `Y(L)·w`** exactly above the model's guard `L ≥ 1e-5` (`C02Cie.luvY` is the luminance expression of `luvToXyz`) … -/
theorem luv_neutral_back (w : V3 ℝ) (h1 : w.c1 ≠ 0) (hd : w.c0 + 15 * w.c1 + 3 * w.c2 ≠ 0) (L : ℝ) (hL : 1e-5 ≤ L) :
    luvToXyz w ⟨L, 0, 0⟩ = smul (C02Cie.luvY L) w := by
  rw [C02Cie.luvToXyz_of_ge w _ (not_lt.mpr hL)]
  simp only [zero_div, zero_add]
  obtain ⟨D, hD⟩ : ∃ D, D = w.c0 + 15 * w.c1 + 3 * w.c2 := ⟨_, rfl⟩
  rw [← hD] at hd ⊢
  have hv : 9 * w.c1 * (1 / D) ≠ 0 := mul_ne_zero (mul_ne_zero (by norm_num) h1) (one_div_ne_zero hd)
  congr 1
  · rw [div_eq_iff hv]; norm_num; field_simp
  · rw [div_eq_iff hv]; norm_num; field_simp; rw [hD]; ring

/-- … and black below it (the guard: `(0, 0, 0)`, which is `0·w`) -/
theorem luv_neutral_back_guard (w : V3 ℝ) (L : ℝ) (hL : L < 1e-5) : luvToXyz w ⟨L, 0, 0⟩ = ⟨0, 0, 0⟩ :=
  C02Cie.luvToXyz_of_lt w _ hL

example : (1e-5 : ℝ) ≤ 50 := by norm_num

/-! ## 2. Hexcone spaces: a gray has saturation exactly 0, and saturation 0 is a gray

Every real `g` (negative components are clamped by the code's `max(0)` first), including 0 and 1; every hue `h`. -/
open RgbFam Hexcone

theorem maxMinSep_gray (m : ℝ) : maxMinSep m m m = ⟨m, m, m - m, 2.0⟩ := by
  simp [maxMinSep]

/-- **`Rgb → Hsv` of a gray**: hue 0, saturation 0, value `max(g, 0)` — exactly -/
theorem rgbToHsv_gray (g : ℝ) : rgbToHsv ⟨g, g, g⟩ = ⟨0.0, 0.0, max0 g⟩ := by
  unfold rgbToHsv
  simp only [maxMinSep_gray, eqv_iff, not_true_eq_false, if_false]

/-- **`Rgb → Hsl` of a gray**: hue 0, saturation 0, lightness `max(g, 0)` — exactly -/
theorem rgbToHsl_gray (g : ℝ) : rgbToHsl ⟨g, g, g⟩ = ⟨0.0, 0.0, (max0 g + max0 g) / 2.0⟩ := by
  unfold rgbToHsl
  simp only [maxMinSep_gray, eqv_iff, not_true_eq_false, if_false]

theorem rgbToHsv_gray_saturation (g : ℝ) : (rgbToHsv ⟨g, g, g⟩).c1 = 0 ∧ (rgbToHsl ⟨g, g, g⟩).c1 = 0 := by
  rw [rgbToHsv_gray, rgbToHsl_gray]; norm_num

theorem rgbToHsl_gray_lightness {g : ℝ} (hg : 0 ≤ g) : (rgbToHsv ⟨g, g, g⟩).c2 = g ∧ (rgbToHsl ⟨g, g, g⟩).c2 = g := by
  rw [rgbToHsv_gray, rgbToHsl_gray, max0_of_nonneg hg]; norm_num

/-- the mask-generic (SIMD lane) branches agree: saturation 0 on a gray -/
theorem rgbToHsvMask_gray_saturation (g : ℝ) : (rgbToHsvMask ⟨g, g, g⟩).c1 = 0 ∧ (rgbToHslMask ⟨g, g, g⟩).c1 = 0 := by
  have e : Scalar.eqv (max0 g - max0 g) (0.0 : ℝ) := by rw [eqv_iff]; norm_num
  have e' : Scalar.eqv (max0 g) (max0 g) := by rw [eqv_iff]
  constructor
  · simp only [rgbToHsvMask, RealScalar.max_eq, RealScalar.min_eq, max_self, min_self, if_pos e]; norm_num
  · -- `min.eq(&max) | divisor.eq(&T::zero())` (c404fc5): the first disjunct holds on a gray
    simp only [rgbToHslMask, RealScalar.max_eq, RealScalar.min_eq, max_self, min_self, decide_eq_true e', Bool.true_or, if_true]; norm_num

/-- **Hwb of a gray**: whiteness + blackness = 1 exactly (`Rgb → Hsv → Hwb`, the route of the crate) -/
theorem rgbToHwb_gray (g : ℝ) :
    (hsvToHwb (rgbToHsv ⟨g, g, g⟩)).c1 + (hsvToHwb (rgbToHsv ⟨g, g, g⟩)).c2 = 1 := by
  rw [rgbToHsv_gray]; simp only [hsvToHwb]; norm_num

theorem zones_zero (h m : ℝ) : zones h 0 0 m = ⟨m, m, m⟩ := by
  unfold zones
  have z : (0.0 : ℝ) = 0 := by norm_num
  simp only [z, ite_self, zero_add]

theorem hexX_zero (h : ℝ) : hexX h (0 : ℝ) = 0 := by unfold hexX; simp

/-- **`Hsv (h, 0, v) ↦ (v, v, v)`** for every hue and every value — exactly -/
theorem hsvToRgb_neutral (h v : ℝ) : hsvToRgb ⟨h, 0, v⟩ = ⟨v, v, v⟩ := by
  rw [C01Rgb.hsvToRgb_unfold]
  simp only [mul_zero, hexX_zero, sub_zero, zones_zero]

/-- **`Hsl (h, 0, l) ↦ (l, l, l)`** for every hue and every lightness — exactly -/
theorem hslToRgb_neutral (h l : ℝ) : hslToRgb ⟨h, 0, l⟩ = ⟨l, l, l⟩ := by
  rw [C01Rgb.hslToRgb_unfold]
  simp only [mul_zero, zero_mul, hexX_zero, sub_zero, zones_zero]

/-- `Hwb` with `w + b = 1` is the gray `w` (through `Hsv`, the crate's route), whatever the hue; `b ≠ 1` (black is `hwbToHsv`'s guard) -/
theorem hwbToRgb_neutral (h w b : ℝ) (hwb : w + b = 1) (hb : b ≠ 1) : hsvToRgb (hwbToHsv ⟨h, w, b⟩) = ⟨w, w, w⟩ := by
  rw [C01Rgb.hwbToHsv_of_ne _ _ _ hb]
  have hv : (1.0 : ℝ) - b = w := by norm_num; linarith
  have hw : w ≠ 0 := by intro h0; apply hb; linarith
  have hs : (1.0 : ℝ) - w / (1.0 - b) = 0 := by rw [hv, div_self hw]; norm_num
  rw [hs, hv, hsvToRgb_neutral]

example : (0.25 : ℝ) + 0.75 = 1 ∧ (0.75 : ℝ) ≠ 1 := by norm_num

end C14Gray
