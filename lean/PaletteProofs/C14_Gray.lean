/-
  C14 — the gray axis at ℝ: a linear gray `g·(1,1,1)` maps to `g·M(1,1,1)` under any 3×3 matrix, so neutrals stay on the axis of RGB white,
  which `C14.rgb_white_is_white_point` places within 1e-6 of the standard's white point.
-/
import PaletteProofs.Real
import PaletteModel.Color.Basic

namespace C14Gray

theorem gray_axis (m : M3 ℝ) (g : ℝ) :
    m.mulVec ⟨g, g, g⟩ = ⟨g * (m.mulVec ⟨1, 1, 1⟩).c0, g * (m.mulVec ⟨1, 1, 1⟩).c1, g * (m.mulVec ⟨1, 1, 1⟩).c2⟩ := by
  simp only [M3.mulVec]
  congr 1 <;> ring

/-- and when RGB white is *exactly* the white point (`M(1,1,1) = w`), every gray is exactly `g·w` -/
theorem gray_is_scaled_white (m : M3 ℝ) (w : V3 ℝ) (h : m.mulVec ⟨1, 1, 1⟩ = w) (g : ℝ) :
    m.mulVec ⟨g, g, g⟩ = ⟨g * w.c0, g * w.c1, g * w.c2⟩ := by
  rw [gray_axis, h]

end C14Gray
