/-
  C10 — colour operators obey their algebra.  The exact-arithmetic reading (`Scalar ℝ`) of the model in `PaletteModel/Ops.lean`,
  plus the decisions on the tables regenerated from the sources (`Gen/Ops.lean`).
  The variant-agreement half of the property is in `C10_LawFree.lean` (it holds for every interpretation of the operations).
-/
import PaletteProofs.Real
import PaletteProofs.C10_LawFree
import PaletteModel.Gen.Ops
import Mathlib.Tactic.Linarith
import Mathlib.Tactic.Positivity
import Mathlib.Algebra.Order.Floor.Ring
import Mathlib.Analysis.SpecialFunctions.Trigonometric.Basic

namespace C10
open Ops

/-! ## reading the constants and primitives at ℝ -/

theorem zero_eq : (Ops.zero : ℝ) = 0 := by unfold Ops.zero; norm_num
theorem one_eq : (Ops.one : ℝ) = 1 := by unfold Ops.one; norm_num
theorem ceil_eq (x : ℝ) : Scalar.ceil x = (⌈x⌉ : ℝ) := rfl
theorem smax_eq (x y : ℝ) : Scalar.max x y = max x y := rfl

/-- `clamp(f, 0, 1)` at ℝ -/
noncomputable def clamp01 (f : ℝ) : ℝ := Scalar.clamp f (Ops.zero : ℝ) Ops.one

theorem clamp01_neg {f : ℝ} (h : f < 0) : clamp01 f = 0 := by
  unfold clamp01 Scalar.clamp; rw [zero_eq, one_eq, if_pos h]
theorem clamp01_big {f : ℝ} (h : 1 < f) : clamp01 f = 1 := by
  unfold clamp01 Scalar.clamp; rw [zero_eq, one_eq, if_neg (by linarith), if_pos h]
theorem clamp01_mid {f : ℝ} (h0 : 0 ≤ f) (h1 : f ≤ 1) : clamp01 f = f := by
  unfold clamp01 Scalar.clamp; rw [zero_eq, one_eq, if_neg (not_lt.mpr h0), if_neg (not_lt.mpr h1)]
theorem clamp01_mem (f : ℝ) : 0 ≤ clamp01 f ∧ clamp01 f ≤ 1 := by
  rcases lt_or_ge f 0 with h | h
  · rw [clamp01_neg h]; norm_num
  · rcases lt_or_ge 1 f with h' | h'
    · rw [clamp01_big h']; norm_num
    · rw [clamp01_mid h h']; exact ⟨h, h'⟩
theorem unitConsts_real : UnitConsts ℝ := ⟨by rw [zero_eq]; exact lt_irrefl 0, by rw [zero_eq, one_eq]; norm_num, by rw [one_eq]; exact lt_irrefl 1⟩
/-- **factors outside [0, 1] are treated as the nearest end** -/
theorem clamp01_idem (f : ℝ) : clamp01 (clamp01 f) = clamp01 f := clamp_idem unitConsts_real f

/-! ## hue differences: the signed normal form -/

/-- `normalize_signed_angle` lands in `(-180, 180]` … -/
theorem normSigned_mem (x : ℝ) : -180 < normSigned x ∧ normSigned x ≤ 180 := by
  unfold normSigned; rw [ceil_eq]
  have h1 := Int.ceil_lt_add_one ((x + 180.0) / 360.0 - 1.0)
  have h2 := Int.le_ceil ((x + 180.0) / 360.0 - 1.0)
  norm_num at h1 h2 ⊢
  constructor <;> linarith
/-- … and differs from its argument by a whole number of turns -/
theorem normSigned_turns (x : ℝ) : ∃ k : ℤ, normSigned x = x - 360 * k :=
  ⟨⌈(x + 180.0) / 360.0 - 1.0⌉, by unfold normSigned; rw [ceil_eq]; norm_num; ring⟩
theorem normSigned_abs (x : ℝ) : |normSigned x| ≤ 180 := by
  have := normSigned_mem x; rw [abs_le]; constructor <;> linarith

/-! ## mix, per component (`mixHue_eq_mixAll`, `mixLin_eq_mixAll` reduce every `Mix` impl to `mixC` at the clamped factor) -/

theorem mixC_lin (x y t : ℝ) : mixC Role.lin x y t = x + (y - x) * t := rfl
theorem mixC_hue (x y t : ℝ) : mixC Role.hue x y t = x + normSigned (y - x) * t := rfl

/-- **factor 0 returns the first colour** (every component, hue included) -/
theorem mixC_zero (r : Role) (x y : ℝ) : mixC r x y 0 = x := by unfold mixC; ring
/-- **factor 1 returns the second colour**: exactly for linear components … -/
theorem mixC_lin_one (x y : ℝ) : mixC Role.lin x y 1 = y := by rw [mixC_lin]; ring
/-- … and the same angle (a whole number of turns away) for the hue -/
theorem mixC_hue_one (x y : ℝ) : ∃ k : ℤ, mixC Role.hue x y 1 = y - 360 * k := by
  obtain ⟨k, hk⟩ := normSigned_turns (y - x)
  exact ⟨k, by rw [mixC_hue, hk]; ring⟩
/-- **the result lies between the two inputs** -/
theorem mixC_lin_between (x y t : ℝ) (h0 : 0 ≤ t) (h1 : t ≤ 1) : min x y ≤ mixC Role.lin x y t ∧ mixC Role.lin x y t ≤ max x y := by
  rw [mixC_lin]
  rcases le_total x y with h | h
  · rw [min_eq_left h, max_eq_right h]; constructor <;> nlinarith
  · rw [min_eq_right h, max_eq_left h]; constructor <;> nlinarith
/-- **the hue takes the shorter way round**: it moves by `t` times a difference of at most 180° that is congruent to `y − x` -/
theorem mixC_hue_short (x y t : ℝ) (h0 : 0 ≤ t) : |mixC Role.hue x y t - x| ≤ 180 * t := by
  rw [mixC_hue, add_sub_cancel_left, abs_mul, abs_of_nonneg h0]
  exact mul_le_mul_of_nonneg_right (normSigned_abs _) h0
theorem mixC_hue_monotone_arc (x y s t : ℝ) (h0 : 0 ≤ s) (hst : s ≤ t) : |mixC Role.hue x y s - x| ≤ |mixC Role.hue x y t - x| := by
  rw [mixC_hue, mixC_hue, add_sub_cancel_left, add_sub_cancel_left, abs_mul, abs_mul, abs_of_nonneg h0, abs_of_nonneg (le_trans h0 hst)]
  exact mul_le_mul_of_nonneg_left hst (abs_nonneg _)

/-! ### the same at colour level -/

theorem mixAll_zero : ∀ (rs : List Role) (a b : List ℝ), rs.length = a.length → a.length = b.length → mixAll rs a b 0 = a
  | [], [], [], _, _ => rfl
  | [], _ :: _, _, h, _ => by simp at h
  | _ :: _, [], _, h, _ => by simp at h
  | _, _ :: _, [], _, h => by simp at h
  | _, [], _ :: _, _, h => by simp at h
  | r :: rs, x :: xs, y :: ys, h1, h2 => by
    simp only [mixAll, mixC_zero, mixAll_zero rs xs ys (by simpa using h1) (by simpa using h2)]
theorem mixAll_lin_one : ∀ (a b : List ℝ), a.length = b.length → mixAll (List.replicate a.length Role.lin) a b 1 = b
  | [], [], _ => rfl
  | [], _ :: _, h => by simp at h
  | _ :: _, [], h => by simp at h
  | x :: xs, y :: ys, h => by
    simp only [List.length_cons, List.replicate_succ, mixAll, mixC_lin_one, mixAll_lin_one xs ys (by simpa using h)]

/-- **`mix a b 0 = a`** for every `impl_mix_hue!` type (any role list) and every `impl_mix!` type -/
theorem mixHue_at_zero (rs : List Role) (a b : List ℝ) (h1 : rs.length = a.length) (h2 : a.length = b.length) : mixHue rs a b 0 = a := by
  rw [mixHue_eq_mixAll rs a b 0 h1 h2]; show mixAll rs a b (clamp01 0) = a
  rw [clamp01_mid le_rfl zero_le_one]; exact mixAll_zero rs a b h1 h2
theorem mixLin_at_zero (a b : List ℝ) (h : a.length = b.length) : mixLin a b 0 = a := by
  rw [mixLin_eq_mixAll a b 0 h]; show mixAll _ a b (clamp01 0) = a
  rw [clamp01_mid le_rfl zero_le_one]; exact mixAll_zero _ a b (by simp) h
/-- **`mix a b 1 = b`** (`impl_mix!` types; for hue types see `mixC_hue_one`) -/
theorem mixLin_at_one (a b : List ℝ) (h : a.length = b.length) : mixLin a b 1 = b := by
  rw [mixLin_eq_mixAll a b 1 h]; show mixAll _ a b (clamp01 1) = b
  rw [clamp01_mid zero_le_one le_rfl]; exact mixAll_lin_one a b h
/-- **`mix a b f = mix a b (clamp f 0 1)`** -/
theorem mixLin_factor_clamped (a b : List ℝ) (f : ℝ) : mixLin a b f = mixLin a b (clamp01 f) := (mixLin_clamped unitConsts_real a b f).symm
theorem mixHue_factor_clamped (rs : List Role) (a b : List ℝ) (f : ℝ) : mixHue rs a b f = mixHue rs a b (clamp01 f) := (mixHue_clamped unitConsts_real rs a b f).symm
theorem mix_below_zero (rs : List Role) (a b : List ℝ) (f : ℝ) (hf : f < 0) (h1 : rs.length = a.length) (h2 : a.length = b.length) : mixHue rs a b f = a := by
  rw [mixHue_factor_clamped, clamp01_neg hf]; exact mixHue_at_zero rs a b h1 h2
theorem mix_above_one (a b : List ℝ) (f : ℝ) (hf : 1 < f) (h : a.length = b.length) : mixLin a b f = b := by
  rw [mixLin_factor_clamped, clamp01_big hf]; exact mixLin_at_one a b h

example : mixLin [(0.2 : ℝ), 0.4] [0.6, 0.0] 3 = [0.6, 0.0] := mix_above_one _ _ 3 (by norm_num) rfl

/-! ## lighten / saturate, per moved component (`incValue_eq_incAll`: untouched components are returned as they are) -/

theorem incDelta_nonneg_factor {hi x f : ℝ} (hf : 0 ≤ f) : incDelta hi x f = max (hi - x) 0 * f := by
  simp only [incDelta, zero_eq, if_pos hf, smax_eq]
theorem incDelta_neg_factor {hi x f : ℝ} (hf : f < 0) : incDelta hi x f = max x 0 * f := by
  simp only [incDelta, zero_eq, if_neg (not_le.mpr hf), smax_eq]

theorem incC_nonneg_factor {lo hi x f : ℝ} (hx0 : lo ≤ x) (hx1 : x ≤ hi) (hf0 : 0 ≤ f) (hf1 : f ≤ 1) :
    incC lo hi x f = x + (hi - x) * f := by
  have hd : 0 ≤ hi - x := by linarith
  unfold incC Scalar.clamp
  rw [incDelta_nonneg_factor hf0, max_eq_left hd]
  have h1 : x + (hi - x) * f ≤ hi := by nlinarith
  have h2 : lo ≤ x + (hi - x) * f := by nlinarith
  rw [if_neg (by linarith), if_neg (by linarith)]
theorem incC_neg_factor {hi x f : ℝ} (hx0 : 0 ≤ x) (hx1 : x ≤ hi) (hf0 : 0 < f) (hf1 : f ≤ 1) :
    incC 0 hi x (-f) = x - x * f := by
  unfold incC Scalar.clamp
  rw [incDelta_neg_factor (by linarith : -f < 0), max_eq_left hx0]
  have h1 : 0 ≤ x + x * -f := by nlinarith
  have h2 : x + x * -f ≤ hi := by nlinarith
  rw [if_neg (by linarith), if_neg (by linarith)]; ring

/-- **never leaves the range** — every factor, every starting value -/
theorem incC_mem (lo hi x f : ℝ) (h : lo ≤ hi) : lo ≤ incC lo hi x f ∧ incC lo hi x f ≤ hi := by
  unfold incC Scalar.clamp; split_ifs with h1 h2
  · exact ⟨le_rfl, h⟩
  · exact ⟨h, le_rfl⟩
  · exact ⟨not_lt.mp h1, not_lt.mp h2⟩
theorem incFixedC_mem (lo hi x a : ℝ) (h : lo ≤ hi) : lo ≤ incFixedC lo hi x a ∧ incFixedC lo hi x a ≤ hi := by
  unfold incFixedC Scalar.clamp; split_ifs with h1 h2
  · exact ⟨le_rfl, h⟩
  · exact ⟨h, le_rfl⟩
  · exact ⟨not_lt.mp h1, not_lt.mp h2⟩

/-- **lighten / saturate by `f ∈ [0,1]`: monotone in `f`, toward the upper limit, `f = 1` reaches it** -/
theorem incC_monotone {lo hi x f g : ℝ} (hx0 : lo ≤ x) (hx1 : x ≤ hi) (hf : 0 ≤ f) (hfg : f ≤ g) (hg : g ≤ 1) :
    incC lo hi x f ≤ incC lo hi x g := by
  rw [incC_nonneg_factor hx0 hx1 hf (le_trans hfg hg), incC_nonneg_factor hx0 hx1 (le_trans hf hfg) hg]; nlinarith
theorem incC_toward {lo hi x f : ℝ} (hx0 : lo ≤ x) (hx1 : x ≤ hi) (hf0 : 0 ≤ f) (hf1 : f ≤ 1) : x ≤ incC lo hi x f := by
  rw [incC_nonneg_factor hx0 hx1 hf0 hf1]; nlinarith
theorem incC_one {lo hi x : ℝ} (hx0 : lo ≤ x) (hx1 : x ≤ hi) : incC lo hi x 1 = hi := by
  rw [incC_nonneg_factor hx0 hx1 zero_le_one le_rfl]; ring
theorem incC_zero {lo hi x : ℝ} (hx0 : lo ≤ x) (hx1 : x ≤ hi) : incC lo hi x 0 = x := by
  rw [incC_nonneg_factor hx0 hx1 le_rfl zero_le_one]; ring

/-- **darken / desaturate by `f ∈ (0,1]`** (= the same operator at `−f`; lower limit 0, as for every instantiation — decided below):
    monotone toward the lower limit, `f = 1` reaches it -/
theorem decC_monotone {hi x f g : ℝ} (hx0 : 0 ≤ x) (hx1 : x ≤ hi) (hf : 0 < f) (hfg : f ≤ g) (hg : g ≤ 1) :
    incC 0 hi x (-g) ≤ incC 0 hi x (-f) := by
  rw [incC_neg_factor hx0 hx1 hf (le_trans hfg hg), incC_neg_factor hx0 hx1 (lt_of_lt_of_le hf hfg) hg]; nlinarith
theorem decC_toward {hi x f : ℝ} (hx0 : 0 ≤ x) (hx1 : x ≤ hi) (hf0 : 0 < f) (hf1 : f ≤ 1) : incC 0 hi x (-f) ≤ x := by
  rw [incC_neg_factor hx0 hx1 hf0 hf1]; nlinarith
theorem decC_one {hi x : ℝ} (hx0 : 0 ≤ x) (hx1 : x ≤ hi) : incC 0 hi x (-1) = 0 := by
  rw [incC_neg_factor hx0 hx1 one_pos le_rfl]; ring

/-- fixed forms: monotone in the amount over the whole line, `+1` reaches the upper and `−1` the lower limit -/
theorem incFixedC_monotone {lo hi x a b : ℝ} (hl : lo ≤ hi) (hhi : 0 ≤ hi) (hab : a ≤ b) : incFixedC lo hi x a ≤ incFixedC lo hi x b := by
  have h : x + hi * a ≤ x + hi * b := by nlinarith
  unfold incFixedC Scalar.clamp
  split_ifs <;> linarith
theorem incFixedC_one {lo hi x : ℝ} (h : lo ≤ hi) (hx0 : 0 ≤ x) (hx1 : x ≤ hi) : incFixedC lo hi x 1 = hi := by
  unfold incFixedC Scalar.clamp
  rcases eq_or_lt_of_le hx0 with h0 | h0
  · subst h0; rw [if_neg (by linarith), if_neg (by linarith)]; ring
  · rw [if_neg (by linarith), if_pos (by linarith)]
theorem incFixedC_neg_one {hi x : ℝ} (hx0 : 0 ≤ x) (hx1 : x ≤ hi) : incFixedC 0 hi x (-1) = 0 := by
  unfold incFixedC Scalar.clamp
  rcases eq_or_lt_of_le hx1 with h1 | h1
  · subst h1; rw [if_neg (by linarith), if_neg (by linarith)]; ring
  · rw [if_pos (by linarith)]

example : incC (0:ℝ) 100 40 (1/2) = 70 := by rw [incC_nonneg_factor (by norm_num) (by norm_num) (by norm_num) (by norm_num)]; norm_num

/-! ## HWB: whiteness and blackness move in opposite directions -/

noncomputable def unitLim : HwbLim ℝ := ⟨0, 1, 0, 1⟩

theorem hwbLighten_pos {w b f : ℝ} (hw : w ≤ 1) (hb0 : 0 ≤ b) (hf0 : 0 ≤ f) (hf1 : f ≤ 1) (hw0 : 0 ≤ w) :
    hwbLighten unitLim w b f = (w + (1 - w) * f, b - b * f) := by
  unfold hwbLighten unitLim
  simp only [zero_eq, if_pos hf0, smax_eq]
  rw [max_eq_left (by linarith : (0:ℝ) ≤ 1 - w), max_eq_left hb0, max_eq_left (by nlinarith), max_eq_left (by nlinarith)]
theorem hwbLighten_neg {w b f : ℝ} (hw0 : 0 ≤ w) (hb : b ≤ 1) (hb0 : 0 ≤ b) (hf0 : 0 < f) (hf1 : f ≤ 1) :
    hwbLighten unitLim w b (-f) = (w - w * f, b + (1 - b) * f) := by
  unfold hwbLighten unitLim
  simp only [zero_eq, if_neg (by linarith : ¬ (0:ℝ) ≤ -f), smax_eq]
  rw [max_eq_left hw0, max_eq_left (by linarith : (0:ℝ) ≤ 1 - b), max_eq_left (by nlinarith), max_eq_left (by nlinarith)]
  congr 1 <;> ring

/-- **HWB lightening by `f ∈ [0,1]`: whiteness up, blackness down, both monotone in `f`, `f = 1` gives pure white, the result
    stays in range (`w, b ∈ [0,1]`, `w + b ≤ 1`)** -/
theorem hwb_lighten_opposite {w b f : ℝ} (hw0 : 0 ≤ w) (hb0 : 0 ≤ b) (hs : w + b ≤ 1) (hf0 : 0 ≤ f) (hf1 : f ≤ 1) :
    w ≤ (hwbLighten unitLim w b f).1 ∧ (hwbLighten unitLim w b f).2 ≤ b := by
  rw [hwbLighten_pos (by linarith) hb0 hf0 hf1 hw0]; constructor <;> nlinarith
theorem hwb_lighten_monotone {w b f g : ℝ} (hw0 : 0 ≤ w) (hb0 : 0 ≤ b) (hs : w + b ≤ 1) (hf : 0 ≤ f) (hfg : f ≤ g) (hg : g ≤ 1) :
    (hwbLighten unitLim w b f).1 ≤ (hwbLighten unitLim w b g).1 ∧ (hwbLighten unitLim w b g).2 ≤ (hwbLighten unitLim w b f).2 := by
  rw [hwbLighten_pos (by linarith) hb0 hf (le_trans hfg hg) hw0, hwbLighten_pos (by linarith) hb0 (le_trans hf hfg) hg hw0]
  constructor <;> nlinarith
theorem hwb_lighten_one {w b : ℝ} (hw0 : 0 ≤ w) (hb0 : 0 ≤ b) (hs : w + b ≤ 1) : hwbLighten unitLim w b 1 = (1, 0) := by
  rw [hwbLighten_pos (by linarith) hb0 zero_le_one le_rfl hw0]; congr 1 <;> ring
theorem hwb_lighten_in_range {w b f : ℝ} (hw0 : 0 ≤ w) (hb0 : 0 ≤ b) (hs : w + b ≤ 1) (hf0 : 0 ≤ f) (hf1 : f ≤ 1) :
    0 ≤ (hwbLighten unitLim w b f).1 ∧ (hwbLighten unitLim w b f).1 ≤ 1 ∧ 0 ≤ (hwbLighten unitLim w b f).2 ∧
    (hwbLighten unitLim w b f).1 + (hwbLighten unitLim w b f).2 ≤ 1 := by
  rw [hwbLighten_pos (by linarith) hb0 hf0 hf1 hw0]
  refine ⟨by nlinarith, by nlinarith, by nlinarith, ?_⟩
  show w + (1 - w) * f + (b - b * f) ≤ 1
  nlinarith
/-- darkening (`lighten (−f)`): the mirror image -/
theorem hwb_darken_opposite {w b f : ℝ} (hw0 : 0 ≤ w) (hb0 : 0 ≤ b) (hs : w + b ≤ 1) (hf0 : 0 < f) (hf1 : f ≤ 1) :
    (hwbLighten unitLim w b (-f)).1 ≤ w ∧ b ≤ (hwbLighten unitLim w b (-f)).2 := by
  rw [hwbLighten_neg hw0 (by linarith) hb0 hf0 hf1]; constructor <;> nlinarith
theorem hwb_darken_one {w b : ℝ} (hw0 : 0 ≤ w) (hb0 : 0 ≤ b) (hs : w + b ≤ 1) : hwbLighten unitLim w b (-1) = (0, 1) := by
  rw [hwbLighten_neg hw0 (by linarith) hb0 one_pos le_rfl]; congr 1 <;> ring
/-- the lower bounds hold for every input and factor (the `.max(min)` of the code) -/
theorem hwb_lighten_nonneg (w b f : ℝ) : 0 ≤ (hwbLighten unitLim w b f).1 ∧ 0 ≤ (hwbLighten unitLim w b f).2 := by
  unfold hwbLighten unitLim; simp only [smax_eq]; exact ⟨le_max_right _ _, le_max_right _ _⟩

example : hwbLighten unitLim (0.25 : ℝ) 0.5 1 = (1, 0) := hwb_lighten_one (by norm_num) (by norm_num) (by norm_num)

/-! ### fixed forms (`lighten_fixed`, and `darken_fixed` = the same at the negated amount) -/

theorem smin_eq (x y : ℝ) : Scalar.min x y = min x y := rfl
theorem hwbLightenFixed_val (w b a : ℝ) : hwbLightenFixed unitLim w b a = (min (max (w + a) 0) 1, min (max (b - a) 0) 1) := by
  unfold hwbLightenFixed unitLim; simp only [smin_eq, smax_eq, one_mul]
/-- **never leaves the range, whatever the input and the amount** -/
theorem hwb_fixed_in_range (w b a : ℝ) :
    0 ≤ (hwbLightenFixed unitLim w b a).1 ∧ (hwbLightenFixed unitLim w b a).1 ≤ 1 ∧
    0 ≤ (hwbLightenFixed unitLim w b a).2 ∧ (hwbLightenFixed unitLim w b a).2 ≤ 1 := by
  rw [hwbLightenFixed_val]
  exact ⟨le_min (le_max_right _ _) zero_le_one, min_le_right _ _, le_min (le_max_right _ _) zero_le_one, min_le_right _ _⟩
/-- … and keeps `w + b ≤ 1` for an in-range colour -/
theorem hwb_fixed_sum {w b a : ℝ} (hw0 : 0 ≤ w) (hb0 : 0 ≤ b) (hs : w + b ≤ 1) :
    (hwbLightenFixed unitLim w b a).1 + (hwbLightenFixed unitLim w b a).2 ≤ 1 := by
  rw [hwbLightenFixed_val]; show min (max (w + a) 0) 1 + min (max (b - a) 0) 1 ≤ 1
  rcases le_total (w + a) 0 with h1 | h1 <;> rcases le_total (b - a) 0 with h2 | h2 <;>
    simp only [max_eq_right, max_eq_left, h1, h2] <;>
    rcases le_total (w + a) 1 with h3 | h3 <;> rcases le_total (b - a) 1 with h4 | h4 <;>
    simp only [min_eq_left, min_eq_right, h3, h4, zero_le_one, min_eq_left zero_le_one] <;> linarith
/-- **whiteness and blackness move in opposite directions, monotonically in the amount** (over the whole line) -/
theorem hwb_fixed_monotone (w b : ℝ) {a c : ℝ} (h : a ≤ c) :
    (hwbLightenFixed unitLim w b a).1 ≤ (hwbLightenFixed unitLim w b c).1 ∧ (hwbLightenFixed unitLim w b c).2 ≤ (hwbLightenFixed unitLim w b a).2 := by
  rw [hwbLightenFixed_val, hwbLightenFixed_val]
  exact ⟨min_le_min_right _ (max_le_max_right _ (by linarith)), min_le_min_right _ (max_le_max_right _ (by linarith))⟩
theorem hwb_fixed_opposite {w b a : ℝ} (hw0 : 0 ≤ w) (hb0 : 0 ≤ b) (hs : w + b ≤ 1) (ha : 0 ≤ a) :
    w ≤ (hwbLightenFixed unitLim w b a).1 ∧ (hwbLightenFixed unitLim w b a).2 ≤ b := by
  have h0 : hwbLightenFixed unitLim w b 0 = (w, b) := by
    rw [hwbLightenFixed_val]; simp only [add_zero, sub_zero]
    rw [max_eq_left hw0, max_eq_left hb0, min_eq_left (by linarith), min_eq_left (by linarith)]
  have := hwb_fixed_monotone w b ha; rw [h0] at this; exact this
/-- **amount 1 reaches the limits** (pure white), amount −1 — `darken_fixed(1)` — pure black -/
theorem hwb_fixed_one {w b : ℝ} (hw0 : 0 ≤ w) (hb0 : 0 ≤ b) (hs : w + b ≤ 1) : hwbLightenFixed unitLim w b 1 = (1, 0) := by
  rw [hwbLightenFixed_val, max_eq_left (by linarith : (0:ℝ) ≤ w + 1), min_eq_right (by linarith), max_eq_right (by linarith : b - 1 ≤ 0), min_eq_left zero_le_one]
theorem hwb_fixed_neg_one {w b : ℝ} (hw0 : 0 ≤ w) (hb0 : 0 ≤ b) (hs : w + b ≤ 1) : hwbLightenFixed unitLim w b (-1) = (0, 1) := by
  rw [hwbLightenFixed_val, max_eq_right (by linarith : w + -1 ≤ 0), min_eq_left zero_le_one, max_eq_left (by linarith : (0:ℝ) ≤ b - -1), min_eq_right (by linarith)]

/-- the defect (repaired by `fix.diff`): without the upper limit the fixed form leaves the range — whiteness 3/2 from an in-range
    colour at amount 1 -/
theorem hwb_fixed_old_witness : (hwbLightenFixedOld unitLim (1/2 : ℝ) (1/5) 1).1 = 3/2 := by
  unfold hwbLightenFixedOld unitLim; simp only [smax_eq]; norm_num
example : hwbLightenFixed unitLim (1/2 : ℝ) (1/5) 1 = (1, 0) := hwb_fixed_one (by norm_num) (by norm_num) (by norm_num)

/-! ## colour schemes -/

/-- the hue after a scheme is the hue plus the documented shift (other components: `shiftHue_get`) -/
theorem complementary_hue (c : List ℝ) (h : Nat) (x : ℝ) (hx : c[h]? = some x) : (complementary h c)[h]? = some (x + 180) := by
  rw [complementary_eq, shiftHue_get, if_pos rfl, hx]; norm_num
theorem triadic_hues (c : List ℝ) (h : Nat) (x : ℝ) (hx : c[h]? = some x) :
    (triadic h c).1[h]? = some (x + 120) ∧ (triadic h c).2[h]? = some (x + 240) := by
  rw [triadic_eq]; simp only [shiftHue_get, if_pos, hx]; norm_num
theorem tetradic_hues (c : List ℝ) (h : Nat) (x : ℝ) (hx : c[h]? = some x) :
    (tetradic h c).1[h]? = some (x + 90) ∧ (tetradic h c).2.1[h]? = some (x + 180) ∧ (tetradic h c).2.2[h]? = some (x + 270) := by
  rw [tetradic_eq]; simp only [shiftHue_get, if_pos, hx]; norm_num
theorem analogous_hues (c : List ℝ) (h : Nat) (x : ℝ) (hx : c[h]? = some x) :
    (analogous h c).1[h]? = some (x + 330) ∧ (analogous h c).2[h]? = some (x + 30) ∧
    (analogousSecondary h c).1[h]? = some (x + 300) ∧ (analogousSecondary h c).2[h]? = some (x + 60) := by
  rw [analogous_eq, analogousSecondary_eq]; simp only [shiftHue_get, if_pos, hx]; norm_num
theorem splitComplementary_hues (c : List ℝ) (h : Nat) (x : ℝ) (hx : c[h]? = some x) :
    (splitComplementary h c).1[h]? = some (x + 150) ∧ (splitComplementary h c).2[h]? = some (x + 210) := by
  rw [splitComplementary_eq]; simp only [shiftHue_get, if_pos, hx]; norm_num

/-- Lab-like types: negating `a`, `b` *is* a half turn of the polar form, and `(−b, a)` a quarter turn -/
theorem lab_complementary_is_half_turn (r θ : ℝ) :
    (-(r * Real.cos θ), -(r * Real.sin θ)) = (r * Real.cos (θ + Real.pi), r * Real.sin (θ + Real.pi)) := by
  rw [Real.cos_add_pi, Real.sin_add_pi]; simp
theorem lab_tetradic_is_quarter_turn (r θ : ℝ) :
    (-(r * Real.sin θ), r * Real.cos θ) = (r * Real.cos (θ + Real.pi / 2), r * Real.sin (θ + Real.pi / 2)) := by
  rw [Real.cos_add_pi_div_two, Real.sin_add_pi_div_two]; simp
theorem lab_tetradic_third_is_three_quarter_turn (r θ : ℝ) :
    (-(-(r * Real.sin θ)), -(r * Real.cos θ)) = (r * Real.cos (θ + Real.pi / 2 + Real.pi), r * Real.sin (θ + Real.pi / 2 + Real.pi)) := by
  rw [Real.cos_add_pi, Real.sin_add_pi, Real.cos_add_pi_div_two, Real.sin_add_pi_div_two]; simp

/-! ## decided on the tables regenerated from the sources on every run (`Gen/Ops.lean`) -/

def isPerm (a b : List String) : Bool := a.length == b.length && a.all (b.contains ·) && b.all (a.contains ·) && a.eraseDups.length == a.length
def fieldsOf (ty : String) : List String := ((Gen.Ops.fields.find? (·.1 == ty)).map (·.2.1)).getD []
def hueIdxOf (ty : String) : Nat := ((Gen.Ops.fields.find? (·.1 == ty)).map (·.2.2)).getD 0
def posOf (x : String) (xs : List String) : Nat := xs.findIdx (· == x)

/-- every `impl_lighten!` / `impl_saturate!` invocation lists each field of its struct exactly once, either under `increase` or
    under `other`: **every component that is not moved is passed through** -/
theorem increase_tables_complete :
    (Gen.Ops.lighten ++ Gen.Ops.saturate).all (fun e => isPerm (e.2.1.map (·.1) ++ e.2.2) (fieldsOf e.1)) = true := by decide +kernel
/-- the lower limit of every moved component is `T::zero()` (so "darken/desaturate by 1 reaches the lower limit" is `decC_one`),
    and the extracted constants say the same -/
theorem lower_limits_are_zero :
    (Gen.Ops.lighten ++ Gen.Ops.saturate).all (fun e => e.2.1.all (fun c => c.2.2.1 == "T::zero()")) = true ∧
    Gen.Ops.lightenHwbAccessors.all (fun e => e.2.2 == (if e.2.1.startsWith "min" then "T::zero()" else "T::max_intensity()")) = true := by
  decide +kernel
/-- `impl_mix_hue!` lists every non-hue field; `impl_mix!` types have no hue field -/
theorem mix_tables_complete :
    Gen.Ops.mixHue.all (fun e => isPerm (e.2 ++ ["hue"]) (fieldsOf e.1) && posOf "hue" (fieldsOf e.1) == hueIdxOf e.1) = true ∧
    Gen.Ops.mix.all (fun t => hueIdxOf t == (fieldsOf t).length && !(fieldsOf t).isEmpty) = true := by decide +kernel
/-- the arithmetic macros are instantiated with the full field list; `Add`/`Sub` for the same types, `Mul`/`Div` (and
    `Premultiply`, i.e. `PreAlpha`) for the same types, which are exactly the `impl_mix!` types -/
theorem arithmetic_tables_complete :
    (Gen.Ops.colorAdd ++ Gen.Ops.colorSub ++ Gen.Ops.colorMul ++ Gen.Ops.colorDiv ++ Gen.Ops.premultiply).all (fun e => isPerm e.2 (fieldsOf e.1)) = true ∧
    Gen.Ops.colorAdd.map (·.1) = Gen.Ops.colorSub.map (·.1) ∧ Gen.Ops.colorMul.map (·.1) = Gen.Ops.colorDiv.map (·.1) ∧
    Gen.Ops.colorMul.map (·.1) = Gen.Ops.premultiply.map (·.1) ∧ Gen.Ops.colorMul.map (·.1) = Gen.Ops.mix := by decide +kernel
/-- hue operators exist exactly for the `impl_mix_hue!` types -/
theorem hue_ops_types : Gen.Ops.hueOps.map (·.1) = Gen.Ops.mixHue.map (·.1) := by decide +kernel
/-- Lab-like schemes: three components, `$a`, `$b` at positions 1 and 2 (`labComplementary_val`, `labTetradic_val`) -/
theorem lab_positions :
    Gen.Ops.labSchemes.all (fun e => (fieldsOf e.1).length == 3 && posOf e.2.1 (fieldsOf e.1) == 1 && posOf e.2.2.1 (fieldsOf e.1) == 2) = true := by
  decide +kernel
/-- the colour-scheme helpers shift by the documented angles; the half rotation is 180°; the signed normal form is the modelled one -/
theorem shifts_documented :
    Gen.Ops.shifts = [("complementary", ["half_rotation"]), ("split_complementary", ["150.0", "210.0"]), ("analogous", ["330.0", "30.0"]),
      ("analogous_secondary", ["300.0", "60.0"]), ("triadic", ["120.0", "240.0"]), ("tetradic", ["90.0", "180.0", "270.0"])] ∧
    Gen.Ops.halfRotation = "180.0" ∧
    Gen.Ops.normalizeSignedBody = "self - Round::ceil(((self + 180.0) / 360.0) - 1.0) * 360.0" := by decide +kernel
/-- the 17 colour types the property names (and four more) implement `Mix` through one of the two macros -/
theorem mix_types_present :
    ["Rgb", "Luma", "Hsl", "Hsv", "Hwb", "Lab", "Lch", "Luv", "Lchuv", "Hsluv", "Xyz", "Yxy", "Oklab", "Oklch", "Okhsl", "Okhsv", "Okhwb"].all
      (fun t => (Gen.Ops.mix ++ Gen.Ops.mixHue.map (·.1)).contains t) = true := by decide +kernel

/-- the macro bodies the model transcribes are the ones in `macros/*.rs` now: names in order, and the digest of each normalised
    body (`Gen.Ops.bodies` holds the text; a change of any body changes its digest and this theorem stops checking) -/
theorem macro_bodies :
    Gen.Ops.bodies.map (·.1) = ["impl_mix::mix", "impl_mix::mix_assign", "impl_mix_hue::mix", "impl_mix_hue::mix_assign", "_impl_increase_value_trait::$method", "_impl_increase_value_trait::$method_fixed", "_impl_increase_value_trait::$assign_method", "_impl_increase_value_trait::$assign_method_fixed", "impl_lighten_hwb::lighten", "impl_lighten_hwb::lighten_fixed", "impl_lighten_hwb::lighten_assign", "impl_lighten_hwb::lighten_fixed_assign", "impl_hue_ops::get_hue", "impl_hue_ops::with_hue", "impl_hue_ops::set_hue", "impl_hue_ops::shift_hue", "impl_hue_ops::shift_hue_assign", "impl_lab_color_schemes::complementary", "impl_lab_color_schemes::complementary", "impl_lab_color_schemes::tetradic", "impl_lab_color_schemes::tetradic"] ∧
    Gen.Ops.bodyDigests = [3099874344443094840, 10928218453103869889, 16019308115672371452, 113291390695861927, 17889008625875086665, 11078379549351259514, 14490914542200888868, 14664178439481789166, 2000050424309248386, 5659998536620654483, 7216788146881937603, 10859506711156901452, 2785300611025244579, 7948146005493090182, 1553624692742047768, 5195157154234966743, 1401125393599940649, 9231200603241215911, 1347318363724280268, 16932317974838888551, 12766060308906003685] := by decide +kernel

end C10
