/-
  C05 — error bound of the 16-bit ProPhoto encoder table **at every real number that rounds to an f32 pattern** (used for the
  `f64 → u16` path, `FromLinear<f64, u16>` = narrow to f32, then the f32 path): the `Nat`-only per-cell checks (Mathlib-free; read at ℝ
  in `Lemmas/C05_Err16MidReal.lean`, assembled in `C05_Err16MidBound.lean`).

  A real `x` whose nearest f32 has pattern `b` lies in `[(2·mant b − 1), (2·mant b + 1)]·2^expo b / 2^151`.  Same argument as in
  `Lemmas/C05_Err16Check.lean`, with the points moved by half a step: the left ends `x⁻(t) = (2·(mant lo + t) − 1)·2^expo lo/2^151`
  are affine in `t`, so `L(t) − 0.6 < 65535·x⁻(t)^(5/9)` at `t = 0` and `t = 65535` gives it on the cell, hence
  `L(t) − 0.6 < 65535·x^(5/9)` for every real `x ≥ x⁻(t)`; the right ends `x⁺(t)` likewise with two tangents for `… ≤ L(t) − 0.4`.
  The checks are stated for arbitrary integer weights `w` over a power-of-two denominator `2^dexp`.
-/
import PaletteProofs.Lemmas.C05_Err16Check
import PaletteProofs.Lemmas.C05_MidCheck

namespace C05E16
open Lut C05E

/-- `L(t) − 0.6 < 65535·(w/2^dexp)^(5/9)` -/
def upPt (entry t w dexp : Nat) : Bool :=
  decide (c06 < 5 * lnum entry t) &&
  decide ((5 * lnum entry t - c06) ^ 9 * 2 ^ (dexp * 5) < w ^ 5 * K16 ^ 9)

/-- the tangent of `65535·x^(5/9)` at `x₀ = w0/2^dexp`, evaluated at `x = w/2^dexp`, does not exceed `L(t) − 0.4` -/
def loPt (entry t w0 w dexp : Nat) : Bool :=
  decide (c04 < 5 * lnum entry t) &&
  decide (w0 ^ 5 * (K16 * (4 * w0 + 5 * w)) ^ 9 ≤ ((5 * lnum entry t - c04) * 9 * w0) ^ 9 * 2 ^ (dexp * 5))

/-- weights over `2^151`: left end, value, right end of the reals that round to `b` -/
def Wlo (b : Nat) : Nat := C05M.loM b * 2 ^ expo b
def Wmid (b : Nat) : Nat := 2 * mant b * 2 ^ expo b
def Whi (b : Nat) : Nat := C05M.hiM b * 2 ^ expo b

/-- the six checks of the cell whose first pattern is `lo`, on the half-ulp-widened real intervals -/
def cellMidOK (entry lo : Nat) : Bool :=
  upPt entry 0 (Wlo (lo + 0)) 151 && upPt entry 65535 (Wlo (lo + 65535)) 151 &&
  loPt entry 0 (Wmid (lo + 16384)) (Whi (lo + 0)) 151 && loPt entry 32768 (Wmid (lo + 16384)) (Whi (lo + 32768)) 151 &&
  loPt entry 32768 (Wmid (lo + 49152)) (Whi (lo + 32768)) 151 && loPt entry 65535 (Wmid (lo + 49152)) (Whi (lo + 65535)) 151

attribute [local irreducible] cellMidOK

def tableMidOK : List Nat → Nat → Bool
  | [], _ => true
  | e :: r, lo => cellMidOK e lo && tableMidOK r (lo + 65536)

theorem tableMidOK_get : ∀ (l : List Nat) (lo : Nat), tableMidOK l lo = true → ∀ j, j < l.length →
    cellMidOK (l.getD j 0) (lo + j * 65536) = true
  | [], _, _, j, hj => by simp at hj
  | e :: r, lo, h, j, hj => by
    simp only [tableMidOK, Bool.and_eq_true] at h
    cases j with
    | zero => simpa using h.1
    | succ k =>
      have := tableMidOK_get r (lo + 65536) h.2 k (by simpa using hj)
      have e2 : lo + 65536 + k * 65536 = lo + (k + 1) * 65536 := by rw [Nat.add_mul]; omega
      rw [e2] at this
      simpa using this

def chunkMidOK (minBits : Nat) (table : List Nat) (a n : Nat) : Bool :=
  tableMidOK ((table.drop a).take n) (minBits + a * 65536)

theorem chunkMidOK_get (minBits : Nat) (table : List Nat) (a n : Nat) (h : chunkMidOK minBits table a n = true)
    (j : Nat) (h1 : a ≤ j) (h2 : j < a + n) (h3 : j < table.length) :
    cellMidOK (table.getD j 0) (minBits + j * 65536) = true := by
  have hlen : j - a < ((table.drop a).take n).length := by
    rw [List.length_take, List.length_drop]; omega
  have := tableMidOK_get _ _ h (j - a) hlen
  have e1 : ((table.drop a).take n).getD (j - a) 0 = table.getD j 0 := by
    rw [List.getD_eq_getElem?_getD, List.getD_eq_getElem?_getD, List.getElem?_take_of_lt (by omega), List.getElem?_drop]
    congr 2; omega
  have e2 : minBits + a * 65536 + (j - a) * 65536 = minBits + j * 65536 := by
    rw [Nat.add_assoc, ← Nat.add_mul]; congr 2; omega
  rw [e1, e2] at this
  exact this

/-- the widened check of cells `[a, a+n)` of the ProPhoto table regenerated from /repo -/
def prophotoMidChunk (a n : Nat) : Bool := chunkMidOK Gen.Lut.prophotoMinFloat Gen.Lut.prophotoEnc a n

end C05E16
