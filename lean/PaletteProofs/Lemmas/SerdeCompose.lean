/-
  Helper lemmas for `PaletteProofs/C20_SerdeCompose.lean`: the two loops (`MapWrapper::next_key_seed`'s `loop`, the derived `while let`) over the format's
  map access, by induction over the entries still to be read; the derived `visit_seq` over the format's sequence access; which elements of a sequence stay
  unread.  Statements are about the definitions of `PaletteModel/SerdeDrive.lean` (which call the translated bodies `Gen.BodySerde.*`), rewritten through
  the ties of `Tie_Serde.lean`.
-/
import PaletteProofs.Tie_Serde
import PaletteModel.SerdeDrive

namespace C20.Compose
open Prim Serde Serde.Proto Serde.Drive

variable {α κ M : Type}

/-! ### identifiers -/

/-- a key shown by the format to the derived `__FieldVisitor` is `Serde.fieldIndex` -/
theorem presentKey_derived (names : List String) (k : Key) :
    presentKey (derivedFieldVisitor names) k = .ok (fieldIndex names k) := by
  cases k <;> rfl

/-- the same key replayed by the translated `StructFieldDeserializer::deserialize_identifier` -/
theorem seedOnSfd_derived (names : List String) (k : Key) :
    seedOnSfd (derivedFieldVisitor names) ⟨Tie.keyField k⟩ = .ok (fieldIndex names k) := by
  cases k <;> rfl

/-- a key shown by the format to the translated `AlphaFieldDeserializerSeed` / `AlphaFieldVisitor`: intercepted iff `Serde.isAlphaKey`, else replayed -/
theorem presentKey_alphaFieldSeed (seed : IdSeed κ) (fc : Nat) (k : Key) :
    presentKey (alphaFieldSeed ⟨seed, some fc⟩) k
      = if isAlphaKey cfgAlpha fc k then .ok (.alpha seed) else Prim.tryE (seedOnSfd seed ⟨Tie.keyField k⟩) fun x => .ok (.other x) := by
  cases k with
  | str s => exact Tie.fieldVisitor_is_isAlphaKey seedOnSfd errInvalidType seed fc (.str s)
  | idx n => exact Tie.fieldVisitor_is_isAlphaKey seedOnSfd errInvalidType seed fc (.idx n)

theorem isAlphaKey_cfg (g : Cfg) (hk : g.deStrKey = "alpha") (n : Nat) (k : Key) : isAlphaKey cfgAlpha n k = isAlphaKey g n k := by
  cases k <;> simp [isAlphaKey, hk] <;> rfl

theorem names_length (d : Desc) : d.names.length = d.fields.length := by simp [Desc.names]

/-! ### `Prim.loopFuel`, `Serde.foldRes`: one unfolding -/

theorem loopFuel_succ {σ ρ ε : Type} (fuel : Nat) (step : σ → Except ε (Flow σ ρ)) (s : σ) :
    Prim.loopFuel (fuel + 1) step s = match step s with
      | .error e => some (.error e)
      | .ok (.done r) => some (.ok r)
      | .ok (.next s') => Prim.loopFuel fuel step s' := rfl

theorem foldRes_cons {σ β : Type} (step : σ → β → Res σ) (s : σ) (b : β) (bs : List β) :
    foldRes step s (b :: bs) = match step s b with
      | .ok s' => foldRes step s' bs
      | .error e => .error e := rfl

/-! ### the `loop` of `MapWrapper::next_key_seed` -/

/-- the translated `next_key_seed` of the wrapper around the format's map access, with its fuel -/
abbrev wrapperNextKey (fuel : Nat) (w : MapWrapper (MapAcc α) α) (seed : IdSeed κ) : Option (Except DErr (Option κ × MapWrapper (MapAcc α) α)) :=
  Gen.BodySerde.mapWrapperNextKeySeed (fun m s => (fmtMapOps (α := α)).nextKeySeed m (alphaFieldSeed s))
    (fun m => (fmtMapOps (α := α)).nextValueSeed m alphaValue) errDuplicate fuel w seed

theorem wrapperNextKey_succ (fi : Nat) (w : MapWrapper (MapAcc α) α) (seed : IdSeed κ) :
    wrapperNextKey (fi + 1) w seed =
      match Serde.Proto.nextKeySeedStep (fun m s => (fmtMapOps (α := α)).nextKeySeed m (alphaFieldSeed s))
          (fun m => (fmtMapOps (α := α)).nextValueSeed m alphaValue) errDuplicate w seed with
      | .error e => some (.error e)
      | .ok (.done r) => some (.ok r)
      | .ok (.next s') => wrapperNextKey fi s'.1 s'.2 := by
  simp only [wrapperNextKey, Gen.BodySerde.mapWrapperNextKeySeed, Prim.loopFuel, Tie.tie_mapWrapperNextKeySeedStep]
  generalize Serde.Proto.nextKeySeedStep _ _ _ w seed = r
  rcases r with e | (s' | r) <;> rfl

/-- what the `loop` of `MapWrapper::next_key_seed` computes over the entries still to be read, for ANY wrapped seed: alpha keys are taken out (the value
    goes into the cell, a second one is `duplicate_field`), the first other key is replayed to the wrapped seed through the `StructFieldDeserializer` -/
def skipAlpha (g : Cfg) (n : Nat) (seed : IdSeed κ) : List (Key × GVal α) → Option α → Except DErr (Option κ × MapWrapper (MapAcc α) α)
  | [], a => .ok (none, ⟨⟨[], none⟩, a, some n⟩)
  | (k, v) :: rest, a =>
    if isAlphaKey g n k then
      if a.isSome then .error (.de (.duplicateField g.deDupName))
      else match decodeNum v with
        | .ok x => skipAlpha g n seed rest (some x)
        | .error e => .error (.de e)
    else Prim.tryE (seedOnSfd seed ⟨Tie.keyField k⟩) fun x => .ok (some x, ⟨⟨rest, some v⟩, a, some n⟩)

/-- **termination of the translated `loop`**: over a map access with `es` entries left, `es.length + 1` turns suffice (`Prim.loopFuel` does not return
    `none`), and the value is `skipAlpha` whatever the fuel beyond that -/
theorem wrapperNextKey_is_skipAlpha (g : Cfg) (hk : g.deStrKey = "alpha") (hd : g.deDupName = "alpha") (n : Nat) (seed : IdSeed κ)
    (es : List (Key × GVal α)) (a : Option α) (fi : Nat) (hi : es.length < fi) :
    wrapperNextKey fi ⟨⟨es, none⟩, a, some n⟩ seed = some (skipAlpha g n seed es a) := by
  induction es generalizing a fi with
  | nil =>
    obtain ⟨fi, rfl⟩ : ∃ m, fi = m + 1 := ⟨fi - 1, by simp at hi; omega⟩
    rw [wrapperNextKey_succ]; rfl
  | cons kv rest ih =>
    obtain ⟨k, v⟩ := kv
    obtain ⟨fi, rfl⟩ : ∃ m, fi = m + 1 := ⟨fi - 1, by simp at hi; omega⟩
    rw [wrapperNextKey_succ]
    simp only [Serde.Proto.nextKeySeedStep, fmtMapOps, MapAcc.nextKeySeed, presentKey_alphaFieldSeed, isAlphaKey_cfg g hk, skipAlpha]
    by_cases hkey : isAlphaKey g n k = true
    · simp only [hkey, if_true, Prim.tryE]
      cases ha : a.isSome
      · simp only [Bool.false_eq_true, if_false, andThen, MapAcc.nextValueSeed, alphaValue]
        cases hv : decodeNum v with
        | error e => rfl
        | ok x =>
          simp only [lift, Prim.tryE]
          exact ih (some x) fi (by simp at hi; omega)
      · simp only [if_true, errDuplicate, hd]
    · simp only [hkey, Bool.false_eq_true, if_false, Prim.tryE]
      cases seedOnSfd seed ⟨Tie.keyField k⟩ <;> rfl

theorem wrapper_nextKey (g : Cfg) (hk : g.deStrKey = "alpha") (hd : g.deDupName = "alpha") (n : Nat) (seed : IdSeed κ)
    (es : List (Key × GVal α)) (a : Option α) (fi : Nat) (hi : es.length < fi) :
    (wrapperOps fi fmtMapOps).nextKeySeed ⟨⟨es, none⟩, a, some n⟩ seed = skipAlpha g n seed es a := by
  have h := wrapperNextKey_is_skipAlpha g hk hd n seed es a fi hi
  simp only [wrapperNextKey] at h
  simp only [wrapperOps, h]

theorem wrapper_nextValue {υ : Type} (fi : Nat) (rest : List (Key × GVal α)) (v : GVal α) (a : Option α) (fc : Option Nat) (seed : GVal α → Except DErr υ) :
    (wrapperOps fi fmtMapOps).nextValueSeed ⟨⟨rest, some v⟩, a, fc⟩ seed = Prim.tryE (seed v) fun r => .ok (r, ⟨⟨rest, none⟩, a, fc⟩) := by
  simp only [wrapperOps, Tie.tie_mapWrapperNextValueSeed, Serde.Proto.nextValueSeed, fmtMapOps, MapAcc.nextValueSeed, andThen]
  cases seed v <;> rfl

/-! ### the derived `while let` -/

/-- the derived `while let` over the `MapWrapper` over the format's map access is the model's fold of `Serde.alphaMapStep`; `es.length + 1` turns suffice
    for either loop -/
theorem derived_loop_over_wrapper (g : Cfg) (hk : g.deStrKey = "alpha") (hd : g.deDupName = "alpha") (f : Fmt) (d : Desc)
    (es : List (Key × GVal α)) (slots : List (Option α)) (a : Option α) (fo fi : Nat) (ho : es.length < fo) (hi : es.length < fi) :
    Prim.loopFuel fo (derivedMapTurn (wrapperOps fi fmtMapOps) g.hueTransparent f d) (slots, ⟨⟨es, none⟩, a, some d.fields.length⟩)
      = some (match foldRes (alphaMapStep g f d) (slots, a) es with
          | .ok st => .ok (st.1, ⟨⟨[], none⟩, st.2, some d.fields.length⟩)
          | .error e => .error (.de e)) := by
  induction es generalizing slots a fo with
  | nil =>
    obtain ⟨fo, rfl⟩ : ∃ m, fo = m + 1 := ⟨fo - 1, by simp at ho; omega⟩
    rw [loopFuel_succ]
    simp only [derivedMapTurn, wrapper_nextKey g hk hd _ _ _ _ fi hi, skipAlpha, Prim.tryE, foldRes]
  | cons kv rest ih =>
    obtain ⟨k, v⟩ := kv
    obtain ⟨fo, rfl⟩ : ∃ m, fo = m + 1 := ⟨fo - 1, by simp at ho; omega⟩
    have hi' : rest.length < fi := by simp at hi; omega
    have ho' : rest.length < fo := by simp at ho; omega
    rw [loopFuel_succ, foldRes_cons]
    simp only [derivedMapTurn, wrapper_nextKey g hk hd _ _ _ _ fi hi, skipAlpha, alphaMapStep]
    by_cases hkey : isAlphaKey g d.fields.length k = true
    · simp only [hkey, if_true]
      cases ha : a.isSome
      · simp only [Bool.false_eq_true, if_false]
        cases hv : decodeNum v with
        | error e => rfl
        | ok x =>
          have h := ih slots (some x) (fo + 1) (by omega) hi'
          rw [loopFuel_succ] at h
          simp only [derivedMapTurn, wrapper_nextKey g hk hd _ _ _ _ fi hi'] at h
          exact h
      · rfl
    · simp only [hkey, Bool.false_eq_true, if_false, seedOnSfd_derived, Prim.tryE, wrapper_nextValue, mapStep]
      cases hidx : fieldIndex d.names k with
      | none => exact ih slots a fo ho' hi'
      | some i =>
        simp only []
        cases hfd : d.fields[i]? with
        | none => exact ih slots a fo ho' hi'
        | some fd =>
          simp only []
          cases hs : (getSlot slots i).isSome
          · simp only [Bool.false_eq_true, if_false]
            cases hdec : decodeField g.hueTransparent f fd v with
            | error e => rfl
            | ok x => exact ih (slots.set i (some x)) a fo ho' hi'
          · rfl

/-- the derived `while let` directly over the format's map access is the model's fold of `Serde.mapStep` -/
theorem derived_loop_direct (tr : Bool) (f : Fmt) (d : Desc) (es : List (Key × GVal α)) (slots : List (Option α)) (fo : Nat) (ho : es.length < fo) :
    Prim.loopFuel fo (derivedMapTurn fmtMapOps tr f d) (slots, ⟨es, none⟩)
      = some (match foldRes (mapStep tr f d) slots es with
          | .ok s => .ok (s, ⟨[], none⟩)
          | .error e => .error (.de e)) := by
  induction es generalizing slots fo with
  | nil =>
    obtain ⟨fo, rfl⟩ : ∃ m, fo = m + 1 := ⟨fo - 1, by simp at ho; omega⟩
    rfl
  | cons kv rest ih =>
    obtain ⟨k, v⟩ := kv
    obtain ⟨fo, rfl⟩ : ∃ m, fo = m + 1 := ⟨fo - 1, by simp at ho; omega⟩
    have ho' : rest.length < fo := by simp at ho; omega
    rw [loopFuel_succ, foldRes_cons]
    simp only [derivedMapTurn, fmtMapOps, MapAcc.nextKeySeed, presentKey_derived, MapAcc.nextValueSeed, Prim.tryE, mapStep]
    cases hidx : fieldIndex d.names k with
    | none => exact ih slots fo ho'
    | some i =>
      simp only []
      cases hfd : d.fields[i]? with
      | none => exact ih slots fo ho'
      | some fd =>
        simp only []
        cases hs : (getSlot slots i).isSome
        · simp only [Bool.false_eq_true, if_false]
          cases hdec : decodeField tr f fd v with
          | error e => rfl
          | ok x => exact ih (slots.set i (some x)) fo ho'
        · rfl

/-! ### sequences -/

/-- the derived `visit_seq` over the format's sequence access is `Serde.seqFields` -/
theorem derivedSeqFields_is_seqFields (tr : Bool) (f : Fmt) (fds : List Field) (i : Nat) (xs : List (GVal α)) :
    derivedSeqFields fmtSeqOps tr f fds i xs = lift (seqFields tr f fds i xs) := by
  induction fds generalizing i xs with
  | nil => rfl
  | cons fd fds ih =>
    cases xs with
    | nil => rfl
    | cons v vs =>
      have hne : ∀ {υ : Type} (q : List (GVal α)) (s : GVal α → Except DErr υ), (fmtSeqOps (α := α)).nextElementSeed q s = seqNext q s :=
        fun _ _ => rfl
      simp only [derivedSeqFields, hne, seqNext, seqFields]
      cases decodeField tr f fd v with
      | error e => rfl
      | ok x =>
        simp only [lift, Prim.tryE, ih]
        cases seqFields tr f fds (i + 1) vs with
        | error e => rfl
        | ok r => rfl

/-- a successful `visit_seq` of the colour has read exactly one element per field -/
theorem seqFields_rest (tr : Bool) (f : Fmt) (fds : List Field) (i : Nat) (xs : List (GVal α)) (c : List α) (rest : List (GVal α))
    (h : seqFields tr f fds i xs = .ok (c, rest)) : rest = xs.drop fds.length := by
  induction fds generalizing i xs c with
  | nil => simp only [seqFields, Except.ok.injEq, Prod.mk.injEq] at h; simp [h.2]
  | cons fd fds ih =>
    cases xs with
    | nil => simp [seqFields] at h
    | cons v vs =>
      simp only [seqFields] at h
      cases hd : decodeField tr f fd v with
      | error e => simp [hd] at h
      | ok x =>
        simp only [hd] at h
        cases hr : seqFields tr f fds (i + 1) vs with
        | error e => simp [hr] at h
        | ok r =>
          obtain ⟨c', rest'⟩ := r
          simp only [hr, Except.ok.injEq, Prod.mk.injEq] at h
          obtain ⟨_, rfl⟩ := h
          simpa using ih (i + 1) vs c' hr

end C20.Compose
