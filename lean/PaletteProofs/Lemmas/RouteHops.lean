/-
  Helper lemmas for the whole-route theorems (C01_Whole*): what the driver's dispatch `Conv.edge?` returns, at ℝ, for every hop
  of the routes concerned (`RouteEval.hop`), the routes themselves (`Route.routeOf`, decided), and algebra of `runHops`.
-/
import PaletteModel.RouteEval
import PaletteProofs.Real
import PaletteProofs.RealAngle

set_option linter.unusedSimpArgs false
set_option linter.unusedVariables false

namespace C01Hops
open RouteEval Route

/-! ### colour numbers of `Gen.Graph.names` (checked by `names_ok`) -/
abbrev XYZ : Nat := 0
abbrev RGB : Nat := 1
abbrev LUMA : Nat := 2
abbrev HSL : Nat := 3
abbrev HSLUV : Nat := 4
abbrev HSV : Nat := 5
abbrev HWB : Nat := 6
abbrev LAB : Nat := 7
abbrev LCH : Nat := 8
abbrev LCHUV : Nat := 9
abbrev LMS : Nat := 10
abbrev LUV : Nat := 11
abbrev OKLAB : Nat := 12
abbrev OKLCH : Nat := 13
abbrev OKHSL : Nat := 14
abbrev OKHSV : Nat := 15
abbrev OKHWB : Nat := 16
abbrev YXY : Nat := 17

theorem names_ok : [XYZ, RGB, LUMA, HSL, HSLUV, HSV, HWB, LAB, LCH, LCHUV, LMS, LUV, OKLAB, OKLCH, OKHSL, OKHSV, OKHWB, YXY].map nameOf =
    ["Xyz", "Rgb", "Luma", "Hsl", "Hsluv", "Hsv", "Hwb", "Lab", "Lch", "Lchuv", "Lms", "Luv", "Oklab", "Oklch", "Okhsl", "Okhsv", "Okhwb", "Yxy"] := by
  decide +kernel

/-- componentwise `|y − x| ≤ ε` -/
def Within (ε : ℝ) (y x : V3 ℝ) : Prop := |y.c0 - x.c0| ≤ ε ∧ |y.c1 - x.c1| ≤ ε ∧ |y.c2 - x.c2| ≤ ε

/-! ### configurations -/

/-- the white point name of the configuration is one of the generated table -/
def WpOk (c : Cfg) : Prop := Gen.Mat.whitePoints.any (·.1 == c.wp) = true

/-- the RGB standard name of the configuration resolves to `s`, carries no `+simd` suffix, and has the configuration's white point -/
structure StdOk (c : Cfg) (s : RgbFam.Std) : Prop where
  of : RgbFam.Std.of? c.std = some s
  plain : c.std.toList.contains '+' = false
  wp : s.wp = c.wp

theorem stripSimd_plain {n : String} (h : n.toList.contains '+' = false) : Conv.stripSimd n = (n, false) := by
  unfold Conv.stripSimd; rw [h]; rfl

/-! ### tokens -/
theorem tok_xyz (c : Cfg) : tok c XYZ = ("Xyz", c.wp) := by rfl
theorem tok_rgb (c : Cfg) : tok c RGB = ("Rgb", c.std) := by rfl
theorem tok_luma (c : Cfg) : tok c LUMA = ("Luma", c.std) := by rfl
theorem tok_hsl (c : Cfg) : tok c HSL = ("Hsl", c.std) := by rfl
theorem tok_hsluv (c : Cfg) : tok c HSLUV = ("Hsluv", c.wp) := by rfl
theorem tok_hsv (c : Cfg) : tok c HSV = ("Hsv", c.std) := by rfl
theorem tok_hwb (c : Cfg) : tok c HWB = ("Hwb", c.std) := by rfl
theorem tok_lab (c : Cfg) : tok c LAB = ("Lab", c.wp) := by rfl
theorem tok_lch (c : Cfg) : tok c LCH = ("Lch", c.wp) := by rfl
theorem tok_lchuv (c : Cfg) : tok c LCHUV = ("Lchuv", c.wp) := by rfl
theorem tok_luv (c : Cfg) : tok c LUV = ("Luv", c.wp) := by rfl
theorem tok_oklab (c : Cfg) : tok c OKLAB = ("Oklab", "") := by rfl
theorem tok_oklch (c : Cfg) : tok c OKLCH = ("Oklch", "") := by rfl
theorem tok_okhsv (c : Cfg) : tok c OKHSV = ("Okhsv", "") := by rfl
theorem tok_okhwb (c : Cfg) : tok c OKHWB = ("Okhwb", "") := by rfl
theorem tok_yxy (c : Cfg) : tok c YXY = ("Yxy", c.wp) := by rfl

theorem hop_of_ne (c : Cfg) (a b : Nat) (h : (a == b) = false) :
    hop (α := ℝ) c (a, b) = (Conv.edge? (α := ℝ) (tok c a) (tok c b)).map (·.f) := by
  unfold hop; simp only [h]; rfl

/-! ### hops of the CIE family -/
section cie
variable (c : Cfg)

theorem hop_lch_lab (h : WpOk c) : hop (α := ℝ) c (LCH, LAB) = some Cie.lchToLab := by
  rw [hop_of_ne c _ _ (by decide)]; rw [tok_lch, tok_lab]; unfold WpOk at h; simp [Conv.edge?, Conv.cieEdge?, h]
theorem hop_lab_lch (h : WpOk c) : hop (α := ℝ) c (LAB, LCH) = some Cie.labToLch := by
  rw [hop_of_ne c _ _ (by decide)]; rw [tok_lch, tok_lab]; unfold WpOk at h; simp [Conv.edge?, Conv.cieEdge?, h]
theorem hop_lab_xyz (h : WpOk c) : hop (α := ℝ) c (LAB, XYZ) = some (Cie.labToXyz (Color.whitePoint c.wp)) := by
  rw [hop_of_ne c _ _ (by decide)]; rw [tok_xyz, tok_lab]; unfold WpOk at h; simp [Conv.edge?, Conv.cieEdge?, h]
theorem hop_xyz_lab (h : WpOk c) : hop (α := ℝ) c (XYZ, LAB) = some (Cie.xyzToLab (Color.whitePoint c.wp)) := by
  rw [hop_of_ne c _ _ (by decide)]; rw [tok_xyz, tok_lab]; unfold WpOk at h; simp [Conv.edge?, Conv.cieEdge?, h]
theorem hop_lchuv_luv (h : WpOk c) : hop (α := ℝ) c (LCHUV, LUV) = some Cie.lchuvToLuv := by
  rw [hop_of_ne c _ _ (by decide)]; rw [tok_lchuv, tok_luv]; unfold WpOk at h; simp [Conv.edge?, Conv.cieEdge?, h]
theorem hop_luv_lchuv (h : WpOk c) : hop (α := ℝ) c (LUV, LCHUV) = some Cie.luvToLchuv := by
  rw [hop_of_ne c _ _ (by decide)]; rw [tok_lchuv, tok_luv]; unfold WpOk at h; simp [Conv.edge?, Conv.cieEdge?, h]
theorem hop_luv_xyz (h : WpOk c) : hop (α := ℝ) c (LUV, XYZ) = some (Cie.luvToXyz (Color.whitePoint c.wp)) := by
  rw [hop_of_ne c _ _ (by decide)]; rw [tok_xyz, tok_luv]; unfold WpOk at h; simp [Conv.edge?, Conv.cieEdge?, h]
theorem hop_xyz_luv (h : WpOk c) : hop (α := ℝ) c (XYZ, LUV) = some (Cie.xyzToLuv (Color.whitePoint c.wp)) := by
  rw [hop_of_ne c _ _ (by decide)]; rw [tok_xyz, tok_luv]; unfold WpOk at h; simp [Conv.edge?, Conv.cieEdge?, h]
theorem hop_hsluv_lchuv (h : WpOk c) : hop (α := ℝ) c (HSLUV, LCHUV) = some Cie.hsluvToLchuv := by
  rw [hop_of_ne c _ _ (by decide)]; rw [tok_lchuv, tok_hsluv]; unfold WpOk at h; simp [Conv.edge?, Conv.cieEdge?, h]
theorem hop_lchuv_hsluv (h : WpOk c) : hop (α := ℝ) c (LCHUV, HSLUV) = some Cie.lchuvToHsluv := by
  rw [hop_of_ne c _ _ (by decide)]; rw [tok_lchuv, tok_hsluv]; unfold WpOk at h; simp [Conv.edge?, Conv.cieEdge?, h]
theorem hop_xyz_yxy : hop (α := ℝ) c (XYZ, YXY) = some Cie.xyzToYxy := by
  rw [hop_of_ne c _ _ (by decide)]; rw [tok_xyz, tok_yxy]; simp [Conv.edge?, Conv.cieEdge?]
theorem hop_yxy_xyz : hop (α := ℝ) c (YXY, XYZ) = some Cie.yxyToXyz := by
  rw [hop_of_ne c _ _ (by decide)]; rw [tok_xyz, tok_yxy]; simp [Conv.edge?, Conv.cieEdge?]
end cie

/-! ### hops of the RGB family -/
section rgb
variable (c : Cfg) (s : RgbFam.Std)

theorem hop_hsl_rgb (h : StdOk c s) : hop (α := ℝ) c (HSL, RGB) = some RgbFam.hslToRgb := by
  rw [hop_of_ne c _ _ (by decide)]; rw [tok_hsl, tok_rgb]; simp [Conv.edge?, Conv.cieEdge?, Conv.rgbEdge?, stripSimd_plain h.plain, h.of]
theorem hop_rgb_hsl (h : StdOk c s) : hop (α := ℝ) c (RGB, HSL) = some RgbFam.rgbToHsl := by
  rw [hop_of_ne c _ _ (by decide)]; rw [tok_hsl, tok_rgb]; simp [Conv.edge?, Conv.cieEdge?, Conv.rgbEdge?, stripSimd_plain h.plain, h.of]
theorem hop_hsv_rgb (h : StdOk c s) : hop (α := ℝ) c (HSV, RGB) = some RgbFam.hsvToRgb := by
  rw [hop_of_ne c _ _ (by decide)]; rw [tok_hsv, tok_rgb]; simp [Conv.edge?, Conv.cieEdge?, Conv.rgbEdge?, stripSimd_plain h.plain, h.of]
theorem hop_rgb_hsv (h : StdOk c s) : hop (α := ℝ) c (RGB, HSV) = some RgbFam.rgbToHsv := by
  rw [hop_of_ne c _ _ (by decide)]; rw [tok_hsv, tok_rgb]; simp [Conv.edge?, Conv.cieEdge?, Conv.rgbEdge?, stripSimd_plain h.plain, h.of]
theorem hop_hsl_hsv (h : StdOk c s) : hop (α := ℝ) c (HSL, HSV) = some RgbFam.hslToHsv := by
  rw [hop_of_ne c _ _ (by decide)]; rw [tok_hsl, tok_hsv]; simp [Conv.edge?, Conv.cieEdge?, Conv.rgbEdge?, stripSimd_plain h.plain, h.of]
theorem hop_hsv_hsl (h : StdOk c s) : hop (α := ℝ) c (HSV, HSL) = some RgbFam.hsvToHsl := by
  rw [hop_of_ne c _ _ (by decide)]; rw [tok_hsl, tok_hsv]; simp [Conv.edge?, Conv.cieEdge?, Conv.rgbEdge?, stripSimd_plain h.plain, h.of]
theorem hop_hsv_hwb (h : StdOk c s) : hop (α := ℝ) c (HSV, HWB) = some RgbFam.hsvToHwb := by
  rw [hop_of_ne c _ _ (by decide)]; rw [tok_hwb, tok_hsv]; simp [Conv.edge?, Conv.cieEdge?, Conv.rgbEdge?, stripSimd_plain h.plain, h.of]
theorem hop_hwb_hsv (h : StdOk c s) : hop (α := ℝ) c (HWB, HSV) = some RgbFam.hwbToHsv := by
  rw [hop_of_ne c _ _ (by decide)]; rw [tok_hwb, tok_hsv]; simp [Conv.edge?, Conv.cieEdge?, Conv.rgbEdge?, stripSimd_plain h.plain, h.of]
theorem hop_rgb_xyz (h : StdOk c s) : hop (α := ℝ) c (RGB, XYZ) = some (RgbFam.rgbToXyz s.toXyz s.tf) := by
  rw [hop_of_ne c _ _ (by decide)]; rw [tok_xyz, tok_rgb]; simp [Conv.edge?, Conv.cieEdge?, Conv.rgbEdge?, stripSimd_plain h.plain, h.of, h.wp]
theorem hop_xyz_rgb (h : StdOk c s) : hop (α := ℝ) c (XYZ, RGB) = some (RgbFam.xyzToRgb s.fromXyz s.tf) := by
  rw [hop_of_ne c _ _ (by decide)]; rw [tok_xyz, tok_rgb]; simp [Conv.edge?, Conv.cieEdge?, Conv.rgbEdge?, stripSimd_plain h.plain, h.of, h.wp]
theorem hop_luma_rgb (h : StdOk c s) : hop (α := ℝ) c (LUMA, RGB) = some (RgbFam.lumaToRgb s s) := by
  rw [hop_of_ne c _ _ (by decide)]; rw [tok_luma, tok_rgb]; simp [Conv.edge?, Conv.cieEdge?, Conv.rgbEdge?, stripSimd_plain h.plain, h.of, h.wp]
theorem hop_luma_xyz (h : StdOk c s) : hop (α := ℝ) c (LUMA, XYZ) = some (RgbFam.lumaToXyz s) := by
  rw [hop_of_ne c _ _ (by decide)]; rw [tok_luma, tok_xyz]; simp [Conv.edge?, Conv.cieEdge?, Conv.rgbEdge?, stripSimd_plain h.plain, h.of, h.wp]
theorem hop_xyz_luma (h : StdOk c s) : hop (α := ℝ) c (XYZ, LUMA) = some (RgbFam.xyzToLuma s) := by
  rw [hop_of_ne c _ _ (by decide)]; rw [tok_luma, tok_xyz]; simp [Conv.edge?, Conv.cieEdge?, Conv.rgbEdge?, stripSimd_plain h.plain, h.of, h.wp]
theorem hop_luma_yxy (h : StdOk c s) : hop (α := ℝ) c (LUMA, YXY) = some (RgbFam.lumaToYxy s) := by
  rw [hop_of_ne c _ _ (by decide)]; rw [tok_luma, tok_yxy]; simp [Conv.edge?, Conv.cieEdge?, Conv.rgbEdge?, stripSimd_plain h.plain, h.of, h.wp]
theorem hop_yxy_luma (h : StdOk c s) : hop (α := ℝ) c (YXY, LUMA) = some (RgbFam.yxyToLuma s) := by
  rw [hop_of_ne c _ _ (by decide)]; rw [tok_luma, tok_yxy]; simp [Conv.edge?, Conv.cieEdge?, Conv.rgbEdge?, stripSimd_plain h.plain, h.of, h.wp]
end rgb

/-! ### hops of the Ok family -/
section ok
variable (c : Cfg)

theorem hop_oklab_oklch : hop (α := ℝ) c (OKLAB, OKLCH) = some Ok.oklabToOklch := by
  rw [hop_of_ne c _ _ (by decide)]; rw [tok_oklab, tok_oklch]; simp [Conv.edge?, Conv.cieEdge?, Conv.rgbEdge?, Conv.okEdge?, Conv.stripSimd]
theorem hop_oklch_oklab : hop (α := ℝ) c (OKLCH, OKLAB) = some Ok.oklchToOklab := by
  rw [hop_of_ne c _ _ (by decide)]; rw [tok_oklab, tok_oklch]; simp [Conv.edge?, Conv.cieEdge?, Conv.rgbEdge?, Conv.okEdge?, Conv.stripSimd]
theorem hop_okhsv_okhwb : hop (α := ℝ) c (OKHSV, OKHWB) = some Ok.okhsvToOkhwb := by
  rw [hop_of_ne c _ _ (by decide)]; rw [tok_okhsv, tok_okhwb]; simp [Conv.edge?, Conv.cieEdge?, Conv.rgbEdge?, Conv.okEdge?, Conv.stripSimd]
theorem hop_okhwb_okhsv : hop (α := ℝ) c (OKHWB, OKHSV) = some Ok.okhwbToOkhsv := by
  rw [hop_of_ne c _ _ (by decide)]; rw [tok_okhsv, tok_okhwb]; simp [Conv.edge?, Conv.cieEdge?, Conv.rgbEdge?, Conv.okEdge?, Conv.stripSimd]
theorem hop_xyz_oklab (h : c.wp = "D65") : hop (α := ℝ) c (XYZ, OKLAB) = some Ok.xyzToOklab := by
  rw [hop_of_ne c _ _ (by decide)]; rw [tok_oklab, tok_xyz]; simp [Conv.edge?, Conv.cieEdge?, Conv.rgbEdge?, Conv.okEdge?, Conv.stripSimd, h]
theorem hop_oklab_xyz (h : c.wp = "D65") : hop (α := ℝ) c (OKLAB, XYZ) = some Ok.oklabToXyz := by
  rw [hop_of_ne c _ _ (by decide)]; rw [tok_oklab, tok_xyz]; simp [Conv.edge?, Conv.cieEdge?, Conv.rgbEdge?, Conv.okEdge?, Conv.stripSimd, h]
theorem hop_rgb_oklab (s : RgbFam.Std) (h : StdOk c s) (sp : Color.RgbSpaceData) (tf : Transfer.Fn) (hk : Conv.okStd? c.std = some (sp, tf)) :
    hop (α := ℝ) c (RGB, OKLAB) = some (Ok.rgbToOklab sp tf) := by
  rw [hop_of_ne c _ _ (by decide)]; rw [tok_oklab, tok_rgb]; simp [Conv.edge?, Conv.cieEdge?, Conv.rgbEdge?, Conv.okEdge?, stripSimd_plain h.plain, Conv.stripSimd, h.of, hk]
theorem hop_oklab_rgb (s : RgbFam.Std) (h : StdOk c s) (sp : Color.RgbSpaceData) (tf : Transfer.Fn) (hk : Conv.okStd? c.std = some (sp, tf)) :
    hop (α := ℝ) c (OKLAB, RGB) = some (Ok.oklabToRgb sp tf) := by
  rw [hop_of_ne c _ _ (by decide)]; rw [tok_oklab, tok_rgb]; simp [Conv.edge?, Conv.cieEdge?, Conv.rgbEdge?, Conv.okEdge?, stripSimd_plain h.plain, Conv.stripSimd, h.of, hk]
end ok

/-! ### algebra of `runHops` / `runPath` -/
section algebra
variable (c : Cfg)

theorem runPath_single (a : Nat) : runPath (α := ℝ) c [a] = some id := rfl

theorem runPath_cons {a b : Nat} {r : List Nat} {f g : V3 ℝ → V3 ℝ} (hf : hop c (a, b) = some f)
    (hg : runPath c (b :: r) = some g) : runPath c (a :: b :: r) = some (g ∘ f) := by
  show runHops c ((a, b) :: hops (b :: r)) = _
  unfold runPath at hg
  simp only [runHops, hf, hg]

theorem runPath_two {a b : Nat} {f : V3 ℝ → V3 ℝ} (hf : hop c (a, b) = some f) : runPath c [a, b] = some f := by
  have := runPath_cons c (r := []) hf (runPath_single c b)
  rw [this]; rfl

theorem runHops_append {l m : List (Nat × Nat)} {F G : V3 ℝ → V3 ℝ} (hl : runHops c l = some F) (hm : runHops c m = some G) :
    runHops c (l ++ m) = some (G ∘ F) := by
  induction l generalizing F with
  | nil => simp only [runHops, Option.some.injEq] at hl; subst hl; simpa using hm
  | cons h r ih =>
    simp only [runHops] at hl
    cases hh : hop (α := ℝ) c h with
    | none => simp [hh] at hl
    | some f =>
      cases hr : runHops (α := ℝ) c r with
      | none => simp [hh, hr] at hl
      | some g =>
        simp only [hh, hr, Option.some.injEq] at hl; subst hl
        show runHops c (h :: (r ++ m)) = _
        simp only [runHops, hh, ih hr]; rfl

theorem hops_snoc (p : List Nat) (b a : Nat) : hops (p ++ [b, a]) = hops (p ++ [b]) ++ [(b, a)] := by
  induction p with
  | nil => rfl
  | cons x q ih =>
    cases q with
    | nil => rfl
    | cons y q' =>
      show (x, y) :: hops ((y :: q') ++ [b, a]) = (x, y) :: hops ((y :: q') ++ [b]) ++ [(b, a)]
      rw [ih]; rfl

theorem runPath_snoc {p : List Nat} {b a : Nat} {F g : V3 ℝ → V3 ℝ} (hp : runPath c (p ++ [b]) = some F)
    (hg : hop c (b, a) = some g) : runPath c (p ++ [b, a]) = some (g ∘ F) := by
  unfold runPath at hp ⊢
  rw [hops_snoc]
  have h1 : runHops (α := ℝ) c [(b, a)] = some g := by simp only [runHops, hg]; rfl
  exact runHops_append c hp h1

theorem convertAt_of {a b : Nat} {p : List Nat} {F : V3 ℝ → V3 ℝ} (hr : routeOf a b = some p) (hp : runPath c p = some F) (x : V3 ℝ) :
    convertAt c a b x = some (F x) := by
  unfold convertAt convert; rw [hr]; simp [hp]
end algebra

end C01Hops
