/-
  C11 helper lemmas: closed forms of the two computed normal forms on every `Float` with `|x| ≤ 2^20`
  (every intermediate result stays finite, `k·360` is exact):
    normU64 x = R64 (x − 360·k),  k = ⌊R64 (x / 360)⌋
    normS64 x = R64 (x − 360·k),  k = ⌈R64 (R64 (R64 (x + 180) / 360) − 1)⌉
-/
import PaletteProofs.Lemmas.HueIeee64
import PaletteProofs.Lemmas.HueNorm32

namespace C11
open Hue.Bits Float.Model Float.Model.UnpackedFloat Ieee Ieee.F64
-- (`abs_floor_le`, `abs_ceil_le` come from `HueNorm32.lean`)

theorem fin_c360d : IsFin c360d := rfl
theorem v_c360d : v c360d = 360 := by
  unfold v; rw [show U c360d = .finite .positive 0x16800000000000 (-44) (by decide) from rfl]; norm_num [val, sgn]
theorem fin_c180d : IsFin c180d := rfl
theorem v_c180d : v c180d = 180 := by
  unfold v; rw [show U c180d = .finite .positive 0x16800000000000 (-45) (by decide) from rfl]; norm_num [val, sgn]

/-- the last two steps shared by both normal forms: `x − (kf * 360)` with `kf` an integer-valued float -/
theorem sub_mul360d {x kf : Float} (hx : IsFin x) (hb : |v x| ≤ 2^20) (hk : IsFin kf) {k : ℤ} (hkv : v kf = k)
    (hkb : |k| ≤ 2915) : IsFin (x - kf * c360d) ∧ v (x - kf * c360d) = R64 (v x - 360 * k) := by
  have hkq : |(k : ℚ)| ≤ 2915 := by exact_mod_cast hkb
  have hprod : |v kf * v c360d| ≤ ((1049400 : ℕ) : ℚ) := by
    rw [hkv, v_c360d, abs_mul]; norm_num; nlinarith [abs_nonneg (k : ℚ)]
  obtain ⟨hfp, hvp⟩ := mul_of_le hk fin_c360d (by norm_num) hprod
  have hexact : v (kf * c360d) = 360 * k := by
    rw [hvp, hkv, v_c360d, show (k : ℚ) * 360 = ((k * 360 : ℤ) : ℚ) by push_cast; rfl, R64_intCast]
    · push_cast; ring
    · rw [abs_mul]; norm_num; omega
  have hdiff : |v x - v (kf * c360d)| ≤ ((2097976 : ℕ) : ℚ) := by
    rw [hexact]
    calc |v x - 360 * k| ≤ |v x| + |360 * (k : ℚ)| := abs_sub _ _
      _ ≤ 2^20 + 360 * 2915 := by rw [abs_mul]; norm_num; nlinarith [abs_nonneg (k : ℚ)]
      _ = ((2097976 : ℕ) : ℚ) := by norm_num
  obtain ⟨hfr, hvr⟩ := sub_of_le hx hfp (by norm_num) hdiff
  exact ⟨hfr, by rw [hvr, hexact]⟩

theorem normU64_closed_form {x : Float} (hx : IsFin x) (hb : |v x| ≤ 2^20) :
    IsFin (normU64 x) ∧ v (normU64 x) = R64 (v x - 360 * (⌊R64 (v x / 360)⌋ : ℤ)) ∧ |⌊R64 (v x / 360)⌋| ≤ 2913 := by
  have h360 : v c360d ≠ 0 := by rw [v_c360d]; norm_num
  have hq : |v x / v c360d| ≤ ((2913 : ℕ) : ℚ) := by
    rw [v_c360d, abs_div]; norm_num
    rw [div_le_iff₀ (by norm_num)]; linarith
  obtain ⟨hfq, hvq⟩ := div_of_le hx fin_c360d h360 (by norm_num) hq
  rw [v_c360d] at hvq hq
  have hQ : |R64 (v x / 360)| ≤ ((2913 : ℕ) : ℚ) := R64_abs_le_nat (by norm_num) hq
  obtain ⟨hff, hvf⟩ := floor64_spec hfq
  rw [hvq] at hvf
  have hkb : |⌊R64 (v x / 360)⌋| ≤ 2913 := by exact_mod_cast abs_floor_le hQ
  obtain ⟨hfr, hvr⟩ := sub_mul360d hx hb hff hvf (by omega)
  exact ⟨hfr, hvr, hkb⟩

theorem normS64_closed_form {x : Float} (hx : IsFin x) (hb : |v x| ≤ 2^20) :
    IsFin (normS64 x) ∧
    v (normS64 x) = R64 (v x - 360 * (⌈R64 (R64 (R64 (v x + 180) / 360) - 1)⌉ : ℤ)) ∧
    |⌈R64 (R64 (R64 (v x + 180) / 360) - 1)⌉| ≤ 2915 := by
  have h360 : v c360d ≠ 0 := by rw [v_c360d]; norm_num
  -- x + 180
  have h1 : |v x + v c180d| ≤ ((1048756 : ℕ) : ℚ) := by
    rw [v_c180d]
    calc |v x + 180| ≤ |v x| + |(180 : ℚ)| := abs_add_le _ _
      _ ≤ 2^20 + 180 := by norm_num; linarith
      _ = ((1048756 : ℕ) : ℚ) := by norm_num
  obtain ⟨hf1, hv1⟩ := add_of_le hx fin_c180d (by norm_num) h1
  rw [v_c180d] at hv1 h1
  have hY1 : |R64 (v x + 180)| ≤ ((1048756 : ℕ) : ℚ) := R64_abs_le_nat (by norm_num) h1
  -- / 360
  have h2 : |v (x + c180d) / v c360d| ≤ ((2914 : ℕ) : ℚ) := by
    rw [hv1, v_c360d, abs_div]; norm_num
    rw [div_le_iff₀ (by norm_num)]; norm_num at hY1; linarith
  obtain ⟨hf2, hv2⟩ := div_of_le hf1 fin_c360d h360 (by norm_num) h2
  rw [hv1, v_c360d] at hv2 h2
  have hY2 : |R64 (R64 (v x + 180) / 360)| ≤ ((2914 : ℕ) : ℚ) := R64_abs_le_nat (by norm_num) h2
  -- − 1
  have h3 : |v ((x + c180d) / c360d) - v one64| ≤ ((2915 : ℕ) : ℚ) := by
    rw [hv2, v_one64]
    calc |R64 (R64 (v x + 180) / 360) - 1| ≤ |R64 (R64 (v x + 180) / 360)| + |(1 : ℚ)| := abs_sub _ _
      _ ≤ 2914 + 1 := by norm_num at hY2 ⊢; linarith
      _ = ((2915 : ℕ) : ℚ) := by norm_num
  obtain ⟨hf3, hv3⟩ := sub_of_le hf2 fin_one64 (by norm_num) h3
  rw [hv2, v_one64] at hv3 h3
  have hY3 : |R64 (R64 (R64 (v x + 180) / 360) - 1)| ≤ ((2915 : ℕ) : ℚ) := R64_abs_le_nat (by norm_num) h3
  -- ceil
  obtain ⟨hfc, hvc⟩ := ceil64_spec hf3
  rw [hv3] at hvc
  have hkb : |⌈R64 (R64 (R64 (v x + 180) / 360) - 1)⌉| ≤ 2915 := by exact_mod_cast abs_ceil_le hY3
  obtain ⟨hfr, hvr⟩ := sub_mul360d hx hb hfc hvc hkb
  exact ⟨hfr, hvr, hkb⟩

end C11
