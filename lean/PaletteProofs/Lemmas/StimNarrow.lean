/-
  C06 helper lemmas: `convert_uint_to_uint!` (narrowing) through `f64`, on exact values.  With `Mw = MAX_src as f64`,
  `Mw' = MAX_dst as f64` (`2^32 − 1`, `2^64`, `2^128` resp. `255`, `65535`, `2^32 − 1`, `2^64`):
      A = R64 (R64 n / Mw)         `self as f64 / own_max`        (the division is a second rounding only for `u32` sources)
      S = R64 (A · Mw')            `· target_max`
      narrow n = min ⌊S + ½⌋ (2^w' − 1)      `round`, `clamp(0, target_max)` (no-op on `[0, Mw']`), saturating `as uN`
  (`narrow_closed`), monotone in `n` (`narrowSpec_mono`); and the error analysis behind widen-then-narrow = id:
  `|A − n/(2^w0 − 1)| ≤ 2^-53 ⟹ ⌊S + ½⌋ = n` for `w0 ≤ 32` (`narrowSpec_back`).
-/
import PaletteProofs.Lemmas.RoundHalf
import PaletteProofs.Lemmas.StimNat

namespace C06
open Stim Float.Model Float.Model.UnpackedFloat Ieee Ieee.F64 StimSpec

def Aq (Mw : ℕ) (n : ℕ) : ℚ := R64 (R64 (n : ℚ) / Mw)
def Sq (Mw Mw' : ℕ) (n : ℕ) : ℚ := R64 (Aq Mw n * Mw')
def narrowSpec (w' Mw Mw' : ℕ) (n : ℕ) : ℕ := min ⌊Sq Mw Mw' n + 1 / 2⌋.toNat (2^w' - 1)

theorem R64_one : R64 1 = 1 := by
  have := R64_natCast (n := 1) (by norm_num); simpa using this

theorem Aq_nonneg (Mw n : ℕ) : 0 ≤ Aq Mw n := R_nonneg (div_nonneg (R_nonneg (by positivity)) (by positivity))

theorem Aq_le_one {Mw n : ℕ} (hM : 0 < Mw) (hle : R64 (n : ℚ) ≤ Mw) : Aq Mw n ≤ 1 := by
  unfold Aq
  have : R64 (n : ℚ) / Mw ≤ 1 := by rw [div_le_one (by exact_mod_cast hM)]; exact hle
  have := R64_mono this
  rwa [R64_one] at this

theorem Aq_mono (Mw : ℕ) {n n' : ℕ} (h : n ≤ n') : Aq Mw n ≤ Aq Mw n' := by
  unfold Aq
  apply R64_mono
  exact div_le_div_of_nonneg_right (R64_mono (by exact_mod_cast h)) (by positivity)

theorem Sq_nonneg (Mw Mw' n : ℕ) : 0 ≤ Sq Mw Mw' n := R_nonneg (mul_nonneg (Aq_nonneg _ _) (by positivity))

theorem Sq_mono (Mw Mw' : ℕ) {n n' : ℕ} (h : n ≤ n') : Sq Mw Mw' n ≤ Sq Mw Mw' n' := by
  unfold Sq
  exact R64_mono (mul_le_mul_of_nonneg_right (Aq_mono Mw h) (by positivity))

theorem Sq_le {Mw Mw' n : ℕ} (hM : 0 < Mw) (hle : R64 (n : ℚ) ≤ Mw) (hrep : R64 (Mw' : ℚ) = Mw') : Sq Mw Mw' n ≤ Mw' := by
  unfold Sq
  have : Aq Mw n * Mw' ≤ Mw' := by
    have h1 := Aq_le_one hM hle
    have h0 : (0 : ℚ) ≤ Mw' := by positivity
    nlinarith
  have := R64_mono this
  rwa [hrep] at this

theorem narrowSpec_mono (w' Mw Mw' : ℕ) {n n' : ℕ} (h : n ≤ n') : narrowSpec w' Mw Mw' n ≤ narrowSpec w' Mw Mw' n' := by
  unfold narrowSpec
  have h1 : Sq Mw Mw' n + 1 / 2 ≤ Sq Mw Mw' n' + 1 / 2 := by linarith [Sq_mono Mw Mw' h]
  exact min_le_min (Int.toNat_le_toNat (Int.floor_mono h1)) le_rfl

theorem narrowSpec_zero (w' Mw Mw' : ℕ) : narrowSpec w' Mw Mw' 0 = 0 := by
  unfold narrowSpec Sq Aq
  have : R64 (((0 : ℕ) : ℚ)) = 0 := by simp [Rs_zero]
  rw [this, zero_div, show R64 0 = 0 from Rs_zero spec, zero_mul, show R64 0 = 0 from Rs_zero spec]
  norm_num

/-- `MAX ↦ MAX` whenever the source maximum rounds to `Mw` and the target maximum fits -/
theorem narrowSpec_max {w' Mw Mw' n : ℕ} (hM : 0 < Mw) (hn : R64 (n : ℚ) = Mw) (hrep : R64 (Mw' : ℚ) = Mw')
    (hfit : 2^w' - 1 ≤ Mw') : narrowSpec w' Mw Mw' n = 2^w' - 1 := by
  unfold narrowSpec Sq Aq
  have hMq : (Mw : ℚ) ≠ 0 := by exact_mod_cast hM.ne'
  rw [hn, div_self hMq, R64_one, one_mul, hrep]
  have : ⌊(Mw' : ℚ) + 1 / 2⌋ = (Mw' : ℤ) := by
    have := floor_add_half_int (Mw' : ℤ); simpa using this
  rw [this, Int.toNat_natCast]
  exact Nat.min_eq_right hfit

/-- error analysis: a quotient within `2^-53` of `n / (2^w0 − 1)` converts back to `n` (`w0 ≤ 32`) -/
theorem narrowSpec_back {w0 Mw1 n' n : ℕ} (hw0 : w0 ≤ 32) (hw0' : 1 ≤ w0) (hn : n ≤ 2^w0 - 1)
    (hA0 : Aq Mw1 n' ≤ 1) (hA : |Aq Mw1 n' - (n : ℚ) / ((2^w0 - 1 : ℕ) : ℚ)| ≤ 2^(-53 : ℤ)) :
    narrowSpec w0 Mw1 (2^w0 - 1) n' = n := by
  have hp : 2 ≤ 2^w0 := by
    calc 2 = 2^1 := rfl
      _ ≤ 2^w0 := Nat.pow_le_pow_right (by norm_num) hw0'
  have hT : (0 : ℚ) < ((2^w0 - 1 : ℕ) : ℚ) := by
    have : 0 < 2^w0 - 1 := by omega
    exact_mod_cast this
  have hTlt : ((2^w0 - 1 : ℕ) : ℚ) < 2^(32 : ℤ) := by
    have h1 : 2^w0 ≤ 2^32 := Nat.pow_le_pow_right (by norm_num) hw0
    have : 2^w0 - 1 < 2^32 := by omega
    exact_mod_cast this
  set T : ℚ := ((2^w0 - 1 : ℕ) : ℚ) with hTdef
  set A := Aq Mw1 n' with hAdef
  have hA0' : 0 ≤ A := Aq_nonneg _ _
  -- |A·T − n| ≤ T·2^-53
  have h1 : |A * T - n| ≤ T * 2^(-53 : ℤ) := by
    have : A * T - n = (A - (n : ℚ) / T) * T := by field_simp
    rw [this, abs_mul, abs_of_pos hT, mul_comm]
    exact mul_le_mul_of_nonneg_left hA hT.le
  have habs : |A * T| < 2^(32 : ℤ) := by
    rw [abs_of_nonneg (mul_nonneg hA0' hT.le)]
    calc A * T ≤ 1 * T := mul_le_mul_of_nonneg_right hA0 hT.le
      _ < 2^(32 : ℤ) := by rw [one_mul]; exact hTlt
  have h2 := R_error_le (p := 53) (emin := -1074) habs
  have e : max ((32 : ℤ) - ((53 : ℕ) : ℤ)) (-1074) = -21 := by norm_num
  rw [e] at h2
  have h53 : T * 2^(-53 : ℤ) ≤ 2^(32 : ℤ) * 2^(-53 : ℤ) := mul_le_mul_of_nonneg_right hTlt.le (by positivity)
  have hclose : |Sq Mw1 (2^w0 - 1) n' - n| < 1 / 2 := by
    have : Sq Mw1 (2^w0 - 1) n' - n = (R64 (A * T) - A * T) + (A * T - n) := by unfold Sq; ring
    rw [this]
    calc _ ≤ |R64 (A * T) - A * T| + |A * T - n| := abs_add_le _ _
      _ ≤ 2^(-21 : ℤ) / 2 + 2^(32 : ℤ) * 2^(-53 : ℤ) := add_le_add h2 (le_trans h1 h53)
      _ < 1 / 2 := by norm_num
  unfold narrowSpec
  have hfl : ⌊Sq Mw1 (2^w0 - 1) n' + 1 / 2⌋ = (n : ℤ) := by
    obtain ⟨a, b⟩ := abs_lt.mp hclose
    rw [Int.floor_eq_iff]; push_cast; constructor <;> linarith
  rw [hfl, Int.toNat_natCast]
  exact Nat.min_eq_left hn

/-- the quotient when the wide maximum is exact in binary64 (`u32` in the middle): `A = R64 (n'/T1)` -/
theorem Aq_close_exact {T1 n' : ℕ} {q : ℚ} (hn' : n' < 2^53) (hq : (n' : ℚ) / T1 = q) (hq0 : 0 ≤ q) (hq1 : q ≤ 1) :
    |Aq T1 n' - q| ≤ 2^(-53 : ℤ) := by
  unfold Aq
  rw [R64_natCast hn', hq]
  have := R_error_le (p := 53) (emin := -1074) (x := q) (k := 1) (by rw [abs_of_nonneg hq0]; norm_num; linarith)
  have e : max ((1 : ℤ) - ((53 : ℕ) : ℤ)) (-1074) = -52 := by norm_num
  rw [e] at this
  calc _ ≤ (2 : ℚ)^(-52 : ℤ) / 2 := this
    _ = 2^(-53 : ℤ) := by rw [show (-52 : ℤ) = -53 + 1 by norm_num, zpow_add₀ (by norm_num)]; ring

/-- the quotient when the wide maximum is the power of two `2^w1` (`u64`, `u128` in the middle) and `n' = q·(2^w1 − 1)` -/
theorem Aq_close_pow {w1 n' : ℕ} {q : ℚ} (hw1 : 64 ≤ w1) (hw1' : w1 ≤ 128) (hn' : n' < 2^w1)
    (hq : (n' : ℚ) = q * (2^w1 - 1)) (hq0 : 0 ≤ q) (hq1 : q ≤ 1) :
    |Aq (2^w1) n' - q| ≤ 2^(-53 : ℤ) := by
  have h2w : (0 : ℚ) < 2^w1 := by positivity
  -- the division is exact
  have hex : Aq (2^w1) n' = R64 (n' : ℚ) / 2^w1 := by
    unfold Aq
    have hn128 : n' < 2^128 := lt_of_lt_of_le hn' (Nat.pow_le_pow_right (by norm_num) hw1')
    obtain ⟨fa, va⟩ := natToF64_spec hn128
    have := R64_scale_down fa (by rw [va]; exact R64_nat_zero_or_ge_one n') (w := w1) (by omega)
    rw [va] at this
    push_cast; exact this
  rw [hex]
  have hlt : |(n' : ℚ)| < 2^((w1 : ℕ) : ℤ) := by
    rw [abs_of_nonneg (by positivity), zpow_natCast]; exact_mod_cast hn'
  have h1 := R_error_le (p := 53) (emin := -1074) hlt
  have e : max (((w1 : ℕ) : ℤ) - ((53 : ℕ) : ℤ)) (-1074) = (w1 : ℤ) - 53 := max_eq_left (by omega)
  rw [e] at h1
  -- |R64 n'/2^w − n'/2^w| ≤ 2^-54
  have h2 : |R64 (n' : ℚ) / 2^w1 - (n' : ℚ) / 2^w1| ≤ 2^(-54 : ℤ) := by
    rw [← sub_div, abs_div, abs_of_pos h2w, div_le_iff₀ h2w]
    calc |R64 (n' : ℚ) - n'| ≤ 2^((w1 : ℤ) - 53) / 2 := h1
      _ = 2^(-54 : ℤ) * 2^w1 := by
          rw [zpow_sub₀ (by norm_num), zpow_natCast]
          rw [show (-54 : ℤ) = -53 - 1 by norm_num, zpow_sub₀ (by norm_num)]
          field_simp
  -- |n'/2^w − q| = q/2^w ≤ 2^-64
  have h3 : |(n' : ℚ) / 2^w1 - q| ≤ 2^(-64 : ℤ) := by
    have : (n' : ℚ) / 2^w1 - q = -(q / 2^w1) := by rw [hq]; field_simp; ring
    rw [this, abs_neg, abs_of_nonneg (div_nonneg hq0 h2w.le), div_le_iff₀ h2w]
    have h64 : (2 : ℚ)^(64 : ℕ) ≤ 2^w1 := pow_le_pow_right₀ (by norm_num) hw1
    have : (1 : ℚ) ≤ 2^(-64 : ℤ) * 2^w1 := by
      calc (1 : ℚ) = 2^(-64 : ℤ) * 2^(64 : ℕ) := by norm_num
        _ ≤ 2^(-64 : ℤ) * 2^w1 := mul_le_mul_of_nonneg_left h64 (by positivity)
    linarith
  calc |R64 (n' : ℚ) / 2^w1 - q| = |(R64 (n' : ℚ) / 2^w1 - (n' : ℚ) / 2^w1) + ((n' : ℚ) / 2^w1 - q)| := by ring_nf
    _ ≤ _ + _ := abs_add_le _ _
    _ ≤ 2^(-54 : ℤ) + 2^(-64 : ℤ) := add_le_add h2 h3
    _ ≤ 2^(-53 : ℤ) := by norm_num

/-! ### the model function -/

theorem narrow_unfold {w : ℕ} (hw : (w == 16) = false) (w' n : ℕ) :
    narrow w w' n = f64CastNat w' (clamp64 (round64 ((natToF64 n / maxF64 w) * maxF64 w')) zero64 (maxF64 w')) := by
  unfold narrow; rw [hw]; rfl

/-- the float pipeline on variable floats -/
theorem narrow_pipe {a mw mw' : Float} {Mw Mw' n : ℕ} (w' : ℕ) (fa : IsFin a) (va : v a = R64 (n : ℚ))
    (fm : IsFin mw) (vm : v mw = Mw) (hM : 0 < Mw) (hle : R64 (n : ℚ) ≤ Mw)
    (fm' : IsFin mw') (vm' : v mw' = Mw') (hM' : Mw' ≤ 2^64) (hrep : R64 (Mw' : ℚ) = Mw') :
    f64CastNat w' (clamp64 (round64 ((a / mw) * mw')) zero64 mw') = narrowSpec w' Mw Mw' n := by
  have hMq : (0 : ℚ) < Mw := by exact_mod_cast hM
  have hR0 : 0 ≤ R64 (n : ℚ) := R_nonneg (by positivity)
  have hq0 : 0 ≤ R64 (n : ℚ) / Mw := div_nonneg hR0 hMq.le
  have hq1 : R64 (n : ℚ) / Mw ≤ 1 := by rw [div_le_one hMq]; exact hle
  obtain ⟨fq, vq⟩ := div_of_le fa fm (by rw [vm]; exact hMq.ne') (n := 1) (by norm_num)
    (by rw [va, vm, abs_of_nonneg hq0]; simpa using hq1)
  rw [va, vm] at vq
  have vq' : v (a / mw) = Aq Mw n := vq
  have hS0 := Sq_nonneg Mw Mw' n
  have hS1 := Sq_le (Mw' := Mw') hM hle hrep
  have hM'q : (Mw' : ℚ) ≤ 2^64 := by exact_mod_cast hM'
  have hΩ : |R64 (v (a / mw) * v mw')| < Ω spec := by
    rw [vq', vm', show R64 (Aq Mw n * Mw') = Sq Mw Mw' n from rfl, abs_of_nonneg hS0, Ω_eq]
    have hbig : (2 : ℚ)^64 < 2^1024 := pow_lt_pow_right₀ (by norm_num) (by norm_num)
    exact lt_of_le_of_lt (le_trans hS1 hM'q) hbig
  obtain ⟨fp, vp⟩ := fin_of_cases (mul_cases fq fm') hΩ
  rw [vq', vm'] at vp
  have vp' : v ((a / mw) * mw') = Sq Mw Mw' n := vp
  obtain ⟨fr, vr⟩ := round64_spec fp (by rw [vp']; exact hS0)
  rw [vp'] at vr
  have hfl0 : 0 ≤ ⌊Sq Mw Mw' n + 1 / 2⌋ := Int.floor_nonneg.mpr (by linarith)
  have hfl1 : ⌊Sq Mw Mw' n + 1 / 2⌋ ≤ (Mw' : ℤ) := by
    have : ⌊Sq Mw Mw' n + 1 / 2⌋ ≤ ⌊(Mw' : ℚ) + 1 / 2⌋ := Int.floor_mono (by linarith)
    have h2 : ⌊(Mw' : ℚ) + 1 / 2⌋ = (Mw' : ℤ) := by have := floor_add_half_int (Mw' : ℤ); simpa using this
    rwa [h2] at this
  obtain ⟨fc, vc⟩ := clamp64_spec fr fin_zero64 fm' (by rw [vm']; exact le_of_eq_of_le C06.v_zero64 (Nat.cast_nonneg _))
  rw [vr, v_zero64, vm'] at vc
  have hflq0 : (0 : ℚ) ≤ (⌊Sq Mw Mw' n + 1 / 2⌋ : ℚ) := by exact_mod_cast hfl0
  have hflq1 : (⌊Sq Mw Mw' n + 1 / 2⌋ : ℚ) ≤ (Mw' : ℚ) := by exact_mod_cast hfl1
  rw [min_eq_left hflq1, max_eq_right hflq0] at vc
  have vc' : v (clamp64 (round64 ((a / mw) * mw')) zero64 mw') = ((⌊Sq Mw Mw' n + 1 / 2⌋.toNat : ℕ) : ℚ) := by
    rw [vc]
    have : ((⌊Sq Mw Mw' n + 1 / 2⌋.toNat : ℕ) : ℤ) = ⌊Sq Mw Mw' n + 1 / 2⌋ := by omega
    exact_mod_cast this.symm
  rw [f64CastNat_spec w' fc vc']; rfl

/-- **closed form of the narrowing through `f64`** -/
theorem narrow_closed {w w' Mw Mw' n : ℕ} (hw : (w == 16) = false) (hn : n < 2^128)
    (fm : IsFin (maxF64 w)) (vm : v (maxF64 w) = Mw) (hM : 0 < Mw) (hle : R64 (n : ℚ) ≤ Mw)
    (fm' : IsFin (maxF64 w')) (vm' : v (maxF64 w') = Mw') (hM' : Mw' ≤ 2^64) (hrep : R64 (Mw' : ℚ) = Mw') :
    narrow w w' n = narrowSpec w' Mw Mw' n := by
  rw [narrow_unfold hw]
  obtain ⟨fa, va⟩ := natToF64_spec hn
  exact narrow_pipe w' fa va fm vm hM hle fm' vm' hM' hrep

end C06
