/-
  C05 helper lemmas — the narrowing `x as f32` in front of the `f64 → u8` table path, on values: for every non-negative finite f64
  pattern `B ≤ 1.0` the f32 pattern produced by the model's `Stim.f64ToF32` is a pattern `b ≤ 1.0` with the exact value of `B`
  within half a unit in the last place of `b` (`C05M.Near`), from the correct-rounding theorem `C06.f64ToF32_spec_lt` of the IEEE layer.
-/
import PaletteProofs.Lemmas.StimNarrowF
import PaletteProofs.C06_StimulusIntFloat32
import PaletteProofs.Lemmas.C05_MidReal

namespace C05F
open Lut C05E C05M Ieee Stim

/-- the f32 pattern that `linear as f32` produces from the f64 pattern `B` (the model's own bit-level narrowing) -/
def narrow (B : Nat) : Nat := (Stim.f64ToF32 (Float.ofBits (UInt64.ofNat B))).toBits.toNat

/-- the real number a non-negative finite f64 bit pattern stands for: `wOf B / 2^1074`
    (`wOf B` = the 52-bit field for subnormals, `(2^52 + mantissa)·2^(exponent field − 1)` for normals) -/
noncomputable def f64val (B : Nat) : ℝ := (F64.wOf B : ℝ) / 2 ^ 1074

/-- sanity: 1.0, ½, the least subnormal -/
example : F64.wOf 0x3ff0000000000000 = 2^1074 := by decide +kernel
example : F64.wOf 0x3fe0000000000000 = 2^1073 := by decide +kernel
example : F64.wOf 1 = 1 := by decide +kernel

/-! ### f32 patterns: `mant·2^expo` of `C05_ErrCheck` is twice the fixed-point magnitude `wOf` of the IEEE layer -/

theorem weight_eq_wOf (b : Nat) (hb : b < 2^31) : mant b * 2 ^ expo b = 2 * F32.wOf b := by
  unfold mant expo F32.wOf F32.fE F32.fM
  have p23 : (2:Nat)^23 = 8388608 := by decide
  have p31 : (2:Nat)^31 = 2147483648 := by decide
  have p8 : (2:Nat)^8 = 256 := by decide
  rw [p31] at hb
  have hq : b / 2^23 % 2^8 = b / 2^23 := by rw [p23, p8]; omega
  rw [hq]
  by_cases c : b < 2^23
  · have hz : b / 2^23 = 0 := by rw [p23] at c ⊢; omega
    rw [if_pos c, if_pos c, if_pos hz, Nat.mod_eq_of_lt c]; omega
  · have hz : ¬ b / 2^23 = 0 := by rw [p23] at c ⊢; omega
    rw [if_neg c, if_neg c, if_neg hz]
    have : 2 ^ (b / 2^23) = 2 * 2 ^ (b / 2^23 - 1) := by
      rw [← pow_succ']; congr 1; omega
    rw [this]; ring

theorem fS_zero_iff (b : Nat) : F32.fS b = 0 ↔ b < 2^31 := by
  unfold F32.fS
  have p31 : (2:Nat)^31 = 2147483648 := by decide
  rw [p31]; omega

/-- `f32val` of a sign-clear finite float's pattern is its exact value -/
theorem f32val_eq_v {y : Float32} (hy : F32.IsFin y) (hs : F32.fS y.toBits.toNat = 0) :
    f32val y.toBits.toNat = ((F32.v y : ℚ) : ℝ) := by
  rw [F32.v_bits_nonneg hy hs]
  have hw := weight_eq_wOf y.toBits.toNat ((fS_zero_iff _).mp hs)
  have hwr := congrArg (Nat.cast (R := ℝ)) hw
  push_cast at hwr
  unfold f32val
  rw [hwr]
  push_cast
  rw [zpow_neg, zpow_ofNat]
  have : (2:ℝ)^150 = 2 * 2^149 := by norm_num
  rw [this]; field_simp

/-- rounding error of binary32 rounding when the result is `m·2^(s−150)` with `m < 2^24`: half of `2^(s−150)` -/
theorem R32_err {z : ℚ} {m s : ℕ} (hz : 0 ≤ z) (hm : m < 2^24) (hs : 1 ≤ s)
    (hR : F32.R32 z = (m : ℚ) * 2 ^ ((s : ℤ) - 150)) : |F32.R32 z - z| ≤ 2 ^ ((s : ℤ) - 150) / 2 := by
  have hp : 1 ≤ F32.spec.mantissaBits := one_le_mantissaBits F32.spec
  have hzlt : |z| < 2 ^ ((s : ℤ) - 126) := by
    rw [abs_of_nonneg hz]
    by_contra hge
    rw [not_lt] at hge
    have h1 : F32.R32 ((2:ℚ) ^ ((s : ℤ) - 126)) ≤ F32.R32 z := F32.R32_mono hge
    have h2 : F32.R32 ((2:ℚ) ^ ((s : ℤ) - 126)) = 2 ^ ((s : ℤ) - 126) :=
      R_two_zpow (p := F32.spec.mantissaBits) (emin := F32.spec.minExponent) hp (by
        show (-149 : ℤ) ≤ _; omega)
    rw [h2, hR] at h1
    have h3 : (m : ℚ) < 2 ^ (24 : ℤ) := by rw [zpow_ofNat]; exact_mod_cast hm
    have h4 : (m : ℚ) * 2 ^ ((s : ℤ) - 150) < 2 ^ (24 : ℤ) * 2 ^ ((s : ℤ) - 150) :=
      mul_lt_mul_of_pos_right h3 (two_zpow_pos _)
    rw [← zpow_add₀ (by norm_num)] at h4
    have : (24 : ℤ) + ((s : ℤ) - 150) = (s : ℤ) - 126 := by ring
    rw [this] at h4
    linarith
  have := R_error_le (p := F32.spec.mantissaBits) (emin := F32.spec.minExponent) hzlt
  have e : max ((s : ℤ) - 126 - (F32.spec.mantissaBits : ℤ)) F32.spec.minExponent = (s : ℤ) - 150 := by
    show max ((s : ℤ) - 126 - ((24 : ℕ) : ℤ)) (-149) = _
    rw [max_eq_left (by push_cast; omega)]; push_cast; ring
  rw [e] at this
  exact this

theorem mant_lt (b : Nat) (hb : b < 2^31) : mant b < 2^24 := by
  unfold mant
  have p23 : (2:Nat)^23 = 8388608 := by decide
  rw [p23]; split <;> omega

theorem expo_pos (b : Nat) : 1 ≤ expo b := by
  unfold expo
  have p23 : (2:Nat)^23 = 8388608 := by decide
  rw [p23]; split <;> omega

/-- value of a sign-clear finite f32 in the form `mant·2^(expo−150)` -/
theorem v_eq_mant {y : Float32} (hy : F32.IsFin y) (hs : F32.fS y.toBits.toNat = 0) :
    F32.v y = (mant y.toBits.toNat : ℚ) * 2 ^ ((expo y.toBits.toNat : ℤ) - 150) := by
  rw [F32.v_bits_nonneg hy hs]
  have hw := weight_eq_wOf y.toBits.toNat ((fS_zero_iff _).mp hs)
  have hwr := congrArg (Nat.cast (R := ℚ)) hw
  push_cast at hwr
  rw [zpow_sub₀ (by norm_num), zpow_natCast, zpow_neg, zpow_ofNat, zpow_ofNat]
  have : (2:ℚ)^150 = 2 * 2^149 := by norm_num
  rw [this]
  field_simp
  linarith

/-! ### the f64 side -/

theorem toNat_ofNat64 (B : Nat) (hB : B < 2^64) : (UInt64.ofNat B).toNat = B := by
  rw [UInt64.toNat_ofNat']; exact Nat.mod_eq_of_lt hB

theorem fields64_of_le (B : Nat) (hB : B ≤ 0x7fefffffffffffff) : F64.fS B = 0 ∧ F64.fE B ≠ 2047 := by
  unfold F64.fS F64.fE
  have p63 : (2:Nat)^63 = 9223372036854775808 := by decide
  have p52 : (2:Nat)^52 = 4503599627370496 := by decide
  have p11 : (2:Nat)^11 = 2048 := by decide
  rw [p63, p52, p11]; omega

/-- a non-negative finite pattern is a finite double of value `wOf B · 2^-1074` -/
theorem ofBits_val (B : Nat) (hB : B ≤ 0x7fefffffffffffff) :
    F64.IsFin (Float.ofBits (UInt64.ofNat B)) ∧ F64.v (Float.ofBits (UInt64.ofNat B)) = (F64.wOf B : ℚ) * 2 ^ (-1074 : ℤ) := by
  obtain ⟨hs, he⟩ := fields64_of_le B hB
  have hn := toNat_ofNat64 B (by omega)
  obtain ⟨hf, hv⟩ := F64.ofBits_fin (a := UInt64.ofNat B) (by rw [hn]; exact he)
  refine ⟨hf, ?_⟩
  rw [hv, hn]
  unfold F64.signOf; rw [if_pos hs]; simp [sgn]

theorem f64val_eq_v (B : Nat) (hB : B ≤ 0x7fefffffffffffff) :
    f64val B = ((F64.v (Float.ofBits (UInt64.ofNat B)) : ℚ) : ℝ) := by
  rw [(ofBits_val B hB).2]
  unfold f64val
  push_cast
  rw [zpow_neg, zpow_ofNat]; rfl

theorem wOf_one64 : F64.wOf 0x3ff0000000000000 = 2^1074 := by decide +kernel
theorem wOf_one32 : F32.wOf 0x3f800000 = 2^149 := by decide +kernel

theorem v_le_one (B : Nat) (hB : B ≤ 0x3ff0000000000000) :
    0 ≤ F64.v (Float.ofBits (UInt64.ofNat B)) ∧ F64.v (Float.ofBits (UInt64.ofNat B)) ≤ 1 := by
  rw [(ofBits_val B (by omega)).2]
  constructor
  · positivity
  · have h := F64.wOf_mono (fields64_of_le B (by omega)).1 (fields64_of_le 0x3ff0000000000000 (by omega)).1 hB
    rw [wOf_one64] at h
    have hq : (F64.wOf B : ℚ) ≤ 2 ^ 1074 := by exact_mod_cast h
    rw [zpow_neg, zpow_ofNat]
    rw [← div_eq_mul_inv, div_le_one (by positivity)]; exact hq

/-- **the narrowing of a pattern in `[+0, 1.0]`**: finite, value the correctly rounded one, in `[0, 1]` -/
theorem narrow_val (B : Nat) (hB : B ≤ 0x3ff0000000000000) :
    let y := Stim.f64ToF32 (Float.ofBits (UInt64.ofNat B))
    F32.IsFin y ∧ F32.v y = F32.R32 (F64.v (Float.ofBits (UInt64.ofNat B))) ∧ 0 ≤ F32.v y ∧ F32.v y ≤ 1 := by
  intro y
  obtain ⟨h0, h1⟩ := v_le_one B hB
  obtain ⟨fy, vy⟩ := C06.narrow_unit (ofBits_val B (by omega)).1 h0 h1
  refine ⟨fy, vy, ?_, ?_⟩
  · rw [vy]; exact R_nonneg h0
  · rw [vy]; have := F32.R32_mono h1; rwa [C06.R32_one] at this

/-- a finite f32 of value `≤ 1` with the sign bit clear has a pattern `≤ 0x3f800000` -/
theorem bits_le_one {y : Float32} (hy : F32.IsFin y) (hs : F32.fS y.toBits.toNat = 0) (h1 : F32.v y ≤ 1) :
    y.toBits.toNat ≤ 0x3f800000 := by
  by_contra hgt
  rw [not_le] at hgt
  have hs1 : F32.fS 0x3f800000 = 0 := by decide
  have := F32.wOf_strictMono hs1 hs hgt
  rw [wOf_one32] at this
  rw [F32.v_bits_nonneg hy hs] at h1
  have hq : (2:ℚ)^149 < (F32.wOf y.toBits.toNat : ℚ) := by exact_mod_cast this
  rw [zpow_neg, zpow_ofNat, ← div_eq_mul_inv, div_le_one (by positivity)] at h1
  linarith

/-- a finite f32 of value `≤ 0` is `±0`: its pattern has the sign bit set or is `0` -/
theorem bits_of_nonpos {y : Float32} (hy : F32.IsFin y) (h0 : F32.v y ≤ 0) :
    y.toBits.toNat ≥ 0x80000000 ∨ y.toBits.toNat = 0 := by
  by_cases hs : F32.fS y.toBits.toNat = 0
  · right
    rw [F32.v_bits_nonneg hy hs] at h0
    have hw : F32.wOf y.toBits.toNat = 0 := by
      by_contra hne
      have : (0:ℚ) < (F32.wOf y.toBits.toNat : ℚ) := by exact_mod_cast Nat.pos_of_ne_zero hne
      have := mul_pos this (two_zpow_pos (-149))
      linarith
    by_contra hb
    have hs0 : F32.fS 0 = 0 := by decide
    have := F32.wOf_strictMono hs0 hs (Nat.pos_of_ne_zero hb)
    omega
  · left
    have := (fS_zero_iff y.toBits.toNat).not.mp hs
    have p31 : (2:Nat)^31 = 2147483648 := by decide
    omega

/-- **half-ulp statement of the narrowing**: the exact value of `B` is within half an ulp of the (sign-clear) result pattern -/
theorem narrow_near (B : Nat) (hB : B ≤ 0x3ff0000000000000) (hs : F32.fS (narrow B) = 0) :
    narrow B ≤ 0x3f800000 ∧ Near (f64val B) (narrow B) := by
  obtain ⟨fy, vy, y0, y1⟩ := narrow_val B hB
  obtain ⟨x0, _⟩ := v_le_one B hB
  set y := Stim.f64ToF32 (Float.ofBits (UInt64.ofNat B)) with hy
  have hnb : narrow B = y.toBits.toNat := rfl
  rw [hnb] at hs ⊢
  refine ⟨bits_le_one fy hs y1, ?_⟩
  have hm := v_eq_mant fy hs
  have herr := R32_err x0 (mant_lt _ ((fS_zero_iff _).mp hs)) (expo_pos _) (by rw [← vy]; exact hm)
  rw [← vy] at herr
  unfold Near
  rw [f32val_eq_v fy hs, f64val_eq_v B (by omega), abs_sub_comm]
  have hc := (Rat.cast_le (K := ℝ)).mpr herr
  rw [Rat.cast_abs] at hc
  push_cast at hc
  rw [zpow_sub₀ (by norm_num), zpow_natCast, zpow_ofNat] at hc
  have e : (2:ℝ) ^ expo y.toBits.toNat / 2 ^ 150 / 2 = 2 ^ expo y.toBits.toNat / 2 ^ 151 := by
    have : (2:ℝ)^151 = 2^150 * 2 := by norm_num
    rw [this]; field_simp
  rw [e] at hc
  exact hc

end C05F
