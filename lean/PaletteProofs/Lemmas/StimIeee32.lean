/-
  C06 helper lemmas: the direct arm `Stim.f32Direct` of `convert_float_to_uint!` (f32 → u8/u16) on exact values,
  from the IEEE reasoning layer (`PaletteProofs/Ieee`).  For every `Float32` `x`:
    finite:  result = rne (max (min (R32 (x·MAX)) MAX) 0)      NaN, +∞:  rne MAX      −∞:  0
-/
import PaletteProofs.Ieee.F32
import PaletteModel.Stimulus

namespace C06
open Stim Float.Model Float.Model.UnpackedFloat Ieee Ieee.F32

def zero32 : Float32 := Float32.ofBits 0

theorem U_zero32 : U zero32 = .zero .positive := rfl
theorem fin_zero32 : IsFin zero32 := rfl
theorem v_zero32 : v zero32 = 0 := rfl
theorem U_C23 : U (Float32.ofBits C23) = magicC spec := rfl

theorem min32_fin {a b : Float32} (ha : IsFin a) (hb : IsFin b) :
    IsFin (min32 a b) ∧ v (min32 a b) = min (v a) (v b) := by
  unfold min32
  rw [ha.not_nan, hb.not_nan]
  simp only [Bool.false_eq_true, if_false]
  by_cases h : b < a
  · rw [if_pos h]; exact ⟨hb, by rw [min_eq_right ((lt_iff hb ha).mp h).le]⟩
  · rw [if_neg h]; exact ⟨ha, by rw [min_eq_left (not_lt.mp (mt (lt_iff hb ha).mpr h))]⟩

theorem max32_fin {a b : Float32} (ha : IsFin a) (hb : IsFin b) :
    IsFin (max32 a b) ∧ v (max32 a b) = max (v a) (v b) := by
  unfold max32
  rw [ha.not_nan, hb.not_nan]
  simp only [Bool.false_eq_true, if_false]
  by_cases h : a < b
  · rw [if_pos h]; exact ⟨hb, by rw [max_eq_right ((lt_iff ha hb).mp h).le]⟩
  · rw [if_neg h]; exact ⟨ha, by rw [max_eq_left (not_lt.mp (mt (lt_iff ha hb).mpr h))]⟩

theorem min32_nan {a b : Float32} (ha : U a = .notANumber) : min32 a b = b := by
  unfold min32; rw [nan_of_U ha]; simp

theorem min32_posInf {a b : Float32} (ha : U a = .infinity .positive) (hb : IsFin b) : min32 a b = b := by
  unfold min32; rw [not_nan_of_inf ha, hb.not_nan]
  simp only [Bool.false_eq_true, if_false]
  rw [if_pos (lt_posInf hb ha)]

theorem min32_negInf {a b : Float32} (ha : U a = .infinity .negative) (hb : IsFin b) : min32 a b = a := by
  unfold min32; rw [not_nan_of_inf ha, hb.not_nan]
  simp only [Bool.false_eq_true, if_false]
  rw [if_neg (not_lt_negInf hb ha)]

theorem max32_negInf {a b : Float32} (ha : U a = .infinity .negative) (hb : IsFin b) : max32 a b = b := by
  unfold max32; rw [not_nan_of_inf ha, hb.not_nan]
  simp only [Bool.false_eq_true, if_false]
  rw [if_pos (negInf_lt hb ha)]

/-- the clamped, scaled value before the magic addition -/
def scaled32 (mx x : Float32) : Float32 := max32 (min32 (x * mx) mx) zero32

theorem f32Direct_eq (mx x : Float32) :
    f32Direct mx x = satSub32 (scaled32 mx x + Float32.ofBits C23).toBits C23 := rfl

theorem Ω32 : Ω spec = 2^128 := by norm_num [Ω]

/-- exact value the direct arm rounds, as a function of the exact input value -/
def clampQ (mx r : ℚ) : ℚ := max (min r mx) 0

theorem scaled32_fin {mx x : Float32} (hm : IsFin mx) (hmpos : 0 < v mx) (hmle : v mx ≤ 2^23 - 1) (hx : IsFin x) :
    IsFin (scaled32 mx x) ∧ v (scaled32 mx x) = clampQ (v mx) (R32 (v x * v mx)) := by
  have hΩ : v mx < Ω spec := by rw [Ω32]; exact lt_of_le_of_lt hmle (by norm_num)
  unfold scaled32 clampQ
  rcases mul_cases hx hm with ⟨_, hf, hv⟩ | ⟨hr, hu⟩ | ⟨hr, hu⟩
  · obtain ⟨f1, v1⟩ := min32_fin hf hm
    obtain ⟨f2, v2⟩ := max32_fin f1 fin_zero32
    exact ⟨f2, by rw [v2, v1, hv, v_zero32]⟩
  · rw [min32_posInf hu hm]
    obtain ⟨f2, v2⟩ := max32_fin hm fin_zero32
    refine ⟨f2, ?_⟩
    rw [v2, v_zero32, min_eq_right (by linarith)]
  · rw [min32_negInf hu hm, max32_negInf hu fin_zero32]
    refine ⟨fin_zero32, ?_⟩
    have := Ω_pos spec
    rw [v_zero32, max_eq_right]
    exact le_trans (min_le_left _ _) (by linarith)

theorem scaled32_nan {mx x : Float32} (hm : IsFin mx) (hmpos : 0 < v mx) (hx : U x = .notANumber) :
    IsFin (scaled32 mx x) ∧ v (scaled32 mx x) = v mx := by
  unfold scaled32
  rw [min32_nan (U_mul_nan hx)]
  obtain ⟨f2, v2⟩ := max32_fin hm fin_zero32
  exact ⟨f2, by rw [v2, v_zero32, max_eq_left hmpos.le]⟩

theorem scaled32_posInf {mx x : Float32} (hm : IsFin mx) (hmpos : 0 < v mx) (hx : U x = .infinity .positive) :
    IsFin (scaled32 mx x) ∧ v (scaled32 mx x) = v mx := by
  unfold scaled32
  rw [min32_posInf (U_mul_inf hx hm hmpos) hm]
  obtain ⟨f2, v2⟩ := max32_fin hm fin_zero32
  exact ⟨f2, by rw [v2, v_zero32, max_eq_left hmpos.le]⟩

theorem scaled32_negInf {mx x : Float32} (hm : IsFin mx) (hmpos : 0 < v mx) (hx : U x = .infinity .negative) :
    IsFin (scaled32 mx x) ∧ v (scaled32 mx x) = 0 := by
  unfold scaled32
  have hu := U_mul_inf hx hm hmpos
  rw [min32_negInf hu hm, max32_negInf hu fin_zero32]
  exact ⟨fin_zero32, v_zero32⟩

/-- the magic-number step: for a finite `0 ≤ s ≤ 2^23 − 1` the direct arm returns `rne s` -/
theorem magic32 {s : Float32} (fs : IsFin s) (h0 : 0 ≤ v s) (h1 : v s ≤ 2^23 - 1) :
    (satSub32 (s + Float32.ofBits C23).toBits C23).toNat = (rne (v s)).toNat := by
  obtain ⟨hb, hle⟩ := toBits_add_magic fs h0 h1 U_C23
  have hC : C23.toNat = 0x4b000000 := rfl
  unfold satSub32
  have hnlt : ¬ (s + Float32.ofBits C23).toBits < C23 := by
    rw [UInt32.lt_iff_toNat_lt, hb, hC]; omega
  rw [if_neg hnlt, UInt32.toNat_sub_of_le _ _ (by rw [UInt32.le_iff_toNat_le, hb, hC]; omega), hb, hC]
  omega

theorem clampQ_nonneg (mx r : ℚ) : 0 ≤ clampQ mx r := le_max_right _ _
theorem clampQ_le {mx : ℚ} (h : 0 ≤ mx) (r : ℚ) : clampQ mx r ≤ mx := max_le (min_le_right _ _) h
theorem clampQ_mono (mx : ℚ) {r r' : ℚ} (h : r ≤ r') : clampQ mx r ≤ clampQ mx r' :=
  max_le_max (min_le_min h le_rfl) le_rfl
theorem clampQ_of_mem {mx r : ℚ} (h0 : 0 ≤ r) (h1 : r ≤ mx) : clampQ mx r = r := by
  unfold clampQ; rw [min_eq_left h1, max_eq_left h0]
theorem clampQ_of_ge {mx r : ℚ} (h0 : 0 ≤ mx) (h1 : mx ≤ r) : clampQ mx r = mx := by
  unfold clampQ; rw [min_eq_right h1, max_eq_left h0]
theorem clampQ_of_le {mx r : ℚ} (_h0 : 0 ≤ mx) (h1 : r ≤ 0) : clampQ mx r = 0 := by
  unfold clampQ; rw [max_eq_right]; exact le_trans (min_le_left _ _) h1

theorem rne_clampQ_le {N : ℕ} (r : ℚ) : (rne (clampQ N r)).toNat ≤ N := by
  have h := rne_mono (clampQ_le (mx := (N : ℚ)) (by positivity) r)
  rw [rne_natCast] at h; omega

theorem rne_toNat_mono {a b : ℚ} (h : a ≤ b) : (rne a).toNat ≤ (rne b).toNat :=
  Int.toNat_le_toNat (rne_mono h)

theorem natCast_le_magic {N : ℕ} (h : N ≤ 2^23 - 1) : (N : ℚ) ≤ 2^23 - 1 := by
  have h' : N ≤ 8388607 := h
  have : (N : ℚ) ≤ 8388607 := by exact_mod_cast h'
  have e : (2 : ℚ)^23 - 1 = 8388607 := by norm_num
  rw [e]; exact this

section direct
variable {mx x : Float32} {N : ℕ} (hm : IsFin mx) (hN : v mx = N) (hNpos : 0 < N) (hNle : N ≤ 2^23 - 1)
include hm hN hNpos hNle

omit hm hN hNpos in
theorem direct32_of_scaled {c : ℚ} (hs : IsFin (scaled32 mx x) ∧ v (scaled32 mx x) = c) (h0 : 0 ≤ c) (h1 : c ≤ N) :
    (f32Direct mx x).toNat = (rne c).toNat := by
  rw [f32Direct_eq, magic32 hs.1 (by rw [hs.2]; exact h0), hs.2]
  rw [hs.2]
  have := natCast_le_magic hNle
  linarith

/-- the direct arm on every finite input -/
theorem direct32_fin (hx : IsFin x) :
    (f32Direct mx x).toNat = (rne (clampQ N (R32 (v x * N)))).toNat := by
  have hmpos : 0 < v mx := by rw [hN]; exact_mod_cast hNpos
  have hmle : v mx ≤ 2^23 - 1 := by rw [hN]; exact natCast_le_magic hNle
  have hs := scaled32_fin hm hmpos hmle hx
  rw [hN] at hs
  exact direct32_of_scaled hNle hs (clampQ_nonneg _ _) (clampQ_le (by positivity) _)

theorem direct32_nan (hx : U x = .notANumber) : (f32Direct mx x).toNat = N := by
  have hmpos : 0 < v mx := by rw [hN]; exact_mod_cast hNpos
  have hs := scaled32_nan hm hmpos hx
  rw [hN] at hs
  rw [direct32_of_scaled hNle hs (by positivity) le_rfl, rne_natCast]; rfl

theorem direct32_posInf (hx : U x = .infinity .positive) : (f32Direct mx x).toNat = N := by
  have hmpos : 0 < v mx := by rw [hN]; exact_mod_cast hNpos
  have hs := scaled32_posInf hm hmpos hx
  rw [hN] at hs
  rw [direct32_of_scaled hNle hs (by positivity) le_rfl, rne_natCast]; rfl

theorem direct32_negInf (hx : U x = .infinity .negative) : (f32Direct mx x).toNat = 0 := by
  have hmpos : 0 < v mx := by rw [hN]; exact_mod_cast hNpos
  have hs := scaled32_negInf hm hmpos hx
  rw [direct32_of_scaled hNle hs le_rfl (by positivity)]
  rw [show (0 : ℚ) = ((0 : ℕ) : ℚ) by simp, rne_natCast]; rfl

/-- **monotone over every pair of non-NaN bit patterns** -/
theorem direct32_mono {y : Float32} (hx : x.isNaN = false) (hy : y.isNaN = false) (h : x ≤ y) :
    (f32Direct mx x).toNat ≤ (f32Direct mx y).toNat := by
  have hNq : (0 : ℚ) ≤ N := by positivity
  rcases cases_of_not_nan hx with hx | hx | hx
  · rw [direct32_negInf hm hN hNpos hNle hx]; exact Nat.zero_le _
  · rcases cases_of_not_nan hy with hy | hy | hy
    · exact absurd h (not_le_negInf hx hy)
    · rw [direct32_fin hm hN hNpos hNle hx, direct32_fin hm hN hNpos hNle hy]
      apply rne_toNat_mono
      apply clampQ_mono
      exact R_mono (one_le_mantissaBits spec) (mul_le_mul_of_nonneg_right ((le_iff hx hy).mp h) hNq)
    · rw [direct32_fin hm hN hNpos hNle hx, direct32_posInf hm hN hNpos hNle hy]
      exact rne_clampQ_le _
  · rcases cases_of_not_nan hy with hy | hy | hy
    · exact absurd h (not_posInf_le_negInf hx hy)
    · exact absurd h (not_posInf_le hy hx)
    · rw [direct32_posInf hm hN hNpos hNle hx, direct32_posInf hm hN hNpos hNle hy]

end direct

end C06
