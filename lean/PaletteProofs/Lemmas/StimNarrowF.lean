/-
  C06 helper lemmas: the bit-level narrowing `Stim.f64ToF32` (`x as f32`, round to nearest, ties to even) on exact values.
  For every finite `x : Float` (`f64ToF32_spec`; `f64ToF32_spec_lt` is the no-overflow special case `|x| < 2^127` that the
  conversions of C06, which feed it values in `[0, 1]`, use):
      |R32 (v x)| < 2^128:   f64ToF32 x  is finite and  v (f64ToF32 x) = R32 (v x)
      |R32 (v x)| ≥ 2^128:   f64ToF32 x  is the infinity of the sign of `x`
  and `NaN ↦ NaN`, `±∞ ↦ ±∞` (`f64ToF32_nonfinite`)
  — the correctly rounded binary32 value: normal results by rounding the 53-bit significand to 24 bits on the bit pattern
  (a carry out of the significand runs into the exponent field, which is the right float), subnormal results by the shift
  `926 − e`, results below half the least subnormal are `±0`.
-/
import PaletteProofs.Lemmas.StimNat
import PaletteProofs.Lemmas.StimBig
import PaletteProofs.C06_StimulusU8
import PaletteProofs.C06_StimulusRoundTrip

namespace C06
open Stim Float.Model Float.Model.UnpackedFloat Ieee

/-! ### fields of the 64-bit source pattern, pieces of the 32-bit result pattern -/

theorem fS64_le_one (b : UInt64) : F64.fS b.toNat ≤ 1 := by
  have := b.toNat_lt
  unfold F64.fS
  have : b.toNat / 2^63 < 2 := by rw [Nat.div_lt_iff_lt_mul (by norm_num)]; omega
  omega

theorem n_signField (b : UInt64) : ((b >>> 63).toUInt32 <<< 31).toNat = F64.fS b.toNat * 2^31 := by
  have h := fS64_le_one b
  simp only [UInt32.toNat_shiftLeft, UInt64.toNat_toUInt32, UInt64.toNat_shiftRight, Nat.shiftRight_eq_div_pow,
    Nat.shiftLeft_eq]
  unfold F64.fS at *
  have e1 : (63 : UInt64).toNat % 64 = 63 := rfl
  have e2 : (31 : UInt32).toNat % 32 = 31 := rfl
  rw [e1, e2]
  rw [Nat.mod_eq_of_lt (a := b.toNat / 2^63) (by omega), Nat.mod_eq_of_lt]
  have : b.toNat / 2^63 * 2^31 ≤ 1 * 2^31 := Nat.mul_le_mul_right _ h
  omega

theorem u64_ge_iff (a c : UInt64) : a ≥ c ↔ c.toNat ≤ a.toNat := UInt64.le_iff_toNat_le
theorem u64_lt_iff (a c : UInt64) : a < c ↔ a.toNat < c.toNat := UInt64.lt_iff_toNat_lt

/-- sign, exponent, mantissa of a 32-bit pattern assembled from disjoint fields -/
theorem fields32_of_sum3 {s E M : ℕ} (hs : s ≤ 1) (hE : E < 2^8) (hM : M < 2^23) :
    F32.fS (s * 2^31 + E * 2^23 + M) = s ∧ F32.fE (s * 2^31 + E * 2^23 + M) = E ∧ F32.fM (s * 2^31 + E * 2^23 + M) = M := by
  unfold F32.fS F32.fE F32.fM
  refine ⟨?_, ?_, ?_⟩
  · rw [Nat.div_eq_iff (by norm_num)]
    have : E * 2^23 + M < 2^31 := by
      have : E * 2^23 ≤ (2^8 - 1) * 2^23 := Nat.mul_le_mul_right _ (by omega)
      omega
    omega
  · have h1 : (s * 2^31 + E * 2^23 + M) / 2^23 = s * 2^8 + E := by
      rw [Nat.div_eq_iff (by norm_num)]; omega
    rw [h1]
    rcases Nat.le_one_iff_eq_zero_or_eq_one.mp hs with rfl | rfl <;> omega
  · have : s * 2^31 + E * 2^23 + M = M + 2^23 * (s * 2^8 + E) := by ring
    rw [this, Nat.add_mul_mod_self_left, Nat.mod_eq_of_lt hM]

/-- the value of a finite `Float` from the fields of its pattern -/
theorem v64_fields {x : Float} (hx : F64.IsFin x) :
    F64.v x = sgn (F64.signOf x.toBits.toNat) * ((F64.wOf x.toBits.toNat : ℚ) * 2^(-1074 : ℤ)) ∧ F64.fE x.toBits.toNat ≠ 2047 := by
  have hE : F64.fE x.toBits.toNat ≠ 2047 := by
    intro h
    unfold F64.IsFin at hx
    rw [F64.U_bits, if_pos h] at hx
    split at hx <;> simp [UnpackedFloat.isFinite] at hx
  refine ⟨?_, hE⟩
  unfold F64.v F64.wOf
  rw [F64.U_bits, if_neg hE]
  by_cases hE0 : F64.fE x.toBits.toNat = 0
  · rw [if_pos hE0, if_pos hE0]
    by_cases hM : F64.fM x.toBits.toNat = 0
    · rw [dif_pos hM, hM]; simp [val]
    · rw [dif_neg hM]; simp only [val]; ring
  · rw [if_neg hE0, if_neg hE0]
    simp only [val]
    simp only [Nat.cast_add, Nat.cast_pow, Nat.cast_ofNat, Nat.cast_mul]
    have : (2 : ℚ)^((F64.fE x.toBits.toNat : ℤ) - 1075) = 2^(F64.fE x.toBits.toNat - 1) * 2^(-1074 : ℤ) := by
      rw [← zpow_natCast, ← zpow_add₀ (by norm_num)]; congr 1
      have : 1 ≤ F64.fE x.toBits.toNat := Nat.pos_of_ne_zero hE0
      omega
    rw [this]; ring

/-- rounding in binary32 of `M·2^E` for a 53-bit `M` (`2^52 ≤ M < 2^53`): shift by `k = max (E+29) (−149) − E` -/
theorem R32_of_53 {M : ℕ} (hM0 : 2^52 ≤ M) (hM1 : M < 2^53) (E : ℤ) (k : ℕ) (hk : E + k = max (E + 29) (-149)) :
    F32.R32 ((M : ℚ) * 2^E) = (rneShift M k : ℚ) * 2^(E + k) := by
  have hpos : 0 < M := lt_of_lt_of_le (by norm_num) hM0
  have hlog : M.log2 = 52 := by
    rw [Nat.log2_eq_iff (by omega)]; exact ⟨hM0, hM1⟩
  have ht : texp F32.spec.mantissaBits F32.spec.minExponent ((M : ℚ) * 2^E) = E + k := by
    rw [texp_eq_tE F32.spec hpos, tE_def, hlog, hk]
    show max (((52 : ℕ) : ℤ) + 1 + E - ((24 : ℕ) : ℤ)) (-149) = _
    congr 1; push_cast; ring
  show R F32.spec.mantissaBits F32.spec.minExponent _ = _
  unfold R
  rw [ht, scaled_eq M E (E + k) k rfl, rne_div_pow]; push_cast; rfl

/-- values below a quarter of the least subnormal round to zero -/
theorem R32_tiny {z : ℚ} (h : |z| ≤ 2^(-151 : ℤ)) : F32.R32 z = 0 := by
  rcases eq_or_ne z 0 with rfl | hz
  · exact Rs_zero _
  have hpos : 0 < |z| := abs_pos.mpr hz
  have ht : texp F32.spec.mantissaBits F32.spec.minExponent z = -149 := by
    unfold texp
    have hl : Int.log 2 |z| < -150 := by
      rw [← Int.lt_zpow_iff_log_lt (by norm_num) hpos]
      calc |z| ≤ 2^(-151 : ℤ) := h
        _ < ((2 : ℕ) : ℚ)^(-150 : ℤ) := by push_cast; exact zpow_lt_zpow_right₀ (by norm_num) (by norm_num)
    show max (Int.log 2 |z| + 1 - ((24 : ℕ) : ℤ)) (-149) = -149
    rw [max_eq_right (by push_cast; omega)]
  show R F32.spec.mantissaBits F32.spec.minExponent z = 0
  unfold R
  rw [ht]
  have hq : |z / 2^(-149 : ℤ)| ≤ 1 / 4 := by
    rw [abs_div, abs_of_pos (two_zpow_pos _), div_le_iff₀ (two_zpow_pos _)]
    calc |z| ≤ 2^(-151 : ℤ) := h
      _ = 1 / 4 * 2^(-149 : ℤ) := by
          rw [show (-151 : ℤ) = -2 + -149 by norm_num, zpow_add₀ (by norm_num)]; norm_num
  have : rne (z / 2^(-149 : ℤ)) = 0 := by
    apply rne_eq_of_near
    have := abs_le.mp hq
    rw [abs_lt]; push_cast; constructor <;> linarith [this.1, this.2]
  rw [this]; simp

/-! ### the two rounding arms as functions of the fields -/

def nQ (e m : UInt64) : UInt32 := (((e - 896) <<< 23) ||| (m >>> 29)).toUInt32
def nUp (e m : UInt64) : Bool :=
  (m &&& 0x1fffffff) > 0x10000000 || ((m &&& 0x1fffffff) == 0x10000000 && (nQ e m &&& 1) == 1)
def sQ (e m : UInt64) : UInt32 := ((m ||| (0x10000000000000 : UInt64)) >>> ((926 : UInt64) - e)).toUInt32
def sUp (e m : UInt64) : Bool :=
  ((m ||| (0x10000000000000 : UInt64)) &&& (((1 : UInt64) <<< ((926 : UInt64) - e)) - 1)) > ((1 : UInt64) <<< ((926 : UInt64) - e - 1)) ||
    (((m ||| (0x10000000000000 : UInt64)) &&& (((1 : UInt64) <<< ((926 : UInt64) - e)) - 1)) == ((1 : UInt64) <<< ((926 : UInt64) - e - 1)) &&
      (sQ e m &&& 1) == 1)

/-- `Stim.f64ToF32` as a function of the bit pattern -/
def narrowBits (b : UInt64) : Float32 :=
    if ((b >>> 52) &&& 0x7ff) == 0x7ff then
      (if (b &&& 0xfffffffffffff) == 0 then
        Float32.ofBits (((b >>> 63).toUInt32 <<< 31) ||| (0x7f800000 : UInt32))
       else Float32.ofBits (((b >>> 63).toUInt32 <<< 31) ||| (0x7fc00000 : UInt32) |||
        ((b &&& 0xfffffffffffff) >>> 29).toUInt32))
    else if ((b >>> 52) &&& 0x7ff) ≥ 897 then
      (if ((b >>> 52) &&& 0x7ff) ≥ 1151 then
        Float32.ofBits (((b >>> 63).toUInt32 <<< 31) ||| (0x7f800000 : UInt32))
       else Float32.ofBits (((b >>> 63).toUInt32 <<< 31) |||
        (if nUp ((b >>> 52) &&& 0x7ff) (b &&& 0xfffffffffffff)
         then nQ ((b >>> 52) &&& 0x7ff) (b &&& 0xfffffffffffff) + 1
         else nQ ((b >>> 52) &&& 0x7ff) (b &&& 0xfffffffffffff))))
    else if ((b >>> 52) &&& 0x7ff) < 842 then Float32.ofBits ((b >>> 63).toUInt32 <<< 31)
    else if (926 : UInt64) - ((b >>> 52) &&& 0x7ff) ≥ 64 then Float32.ofBits ((b >>> 63).toUInt32 <<< 31)
    else Float32.ofBits (((b >>> 63).toUInt32 <<< 31) |||
        (if sUp ((b >>> 52) &&& 0x7ff) (b &&& 0xfffffffffffff)
         then sQ ((b >>> 52) &&& 0x7ff) (b &&& 0xfffffffffffff) + 1
         else sQ ((b >>> 52) &&& 0x7ff) (b &&& 0xfffffffffffff)))

theorem f64ToF32_unfold (x : Float) : f64ToF32 x = narrowBits x.toBits := rfl

theorem u32_and_one (q : UInt32) : ((q &&& 1) == 1) = (q.toNat % 2 == 1) := by
  have h : (q &&& 1).toNat = q.toNat % 2 := by
    rw [UInt32.toNat_and]; exact Nat.and_two_pow_sub_one_eq_mod _ 1
  rw [Bool.eq_iff_iff, beq_iff_eq, beq_iff_eq, ← UInt32.toNat_inj, h]
  exact Iff.rfl

section normal
variable {e m : UInt64} {E Mm : ℕ} (he : e.toNat = E) (hm : m.toNat = Mm) (hMm : Mm < 2^52) (hE0 : 897 ≤ E) (hE1 : E ≤ 1150)
include he hm hMm hE0 hE1

theorem nQ_toNat : (nQ e m).toNat = (E - 896) * 2^23 + Mm / 2^29 := by
  unfold nQ
  have h896 : (896 : UInt64) ≤ e := by rw [UInt64.le_iff_toNat_le, he]; show 896 ≤ E; omega
  have h1 : (e - 896).toNat = E - 896 := by rw [UInt64.toNat_sub_of_le _ _ h896, he]; rfl
  have hq : Mm / 2^29 < 2^23 := by rw [Nat.div_lt_iff_lt_mul (by norm_num)]; omega
  have h2 : (E - 896) * 2^23 < 2^31 := by
    have : (E - 896) * 2^23 ≤ 254 * 2^23 := Nat.mul_le_mul_right _ (by omega)
    omega
  have h3 : (E - 896) * 2^23 < 2^64 := by omega
  have h4 : (E - 896) * 2^23 + Mm / 2^29 < 2^32 :=
    lt_of_lt_of_le (Nat.add_lt_add h2 hq) (by norm_num)
  have e23 : (23 : UInt64).toNat % 64 = 23 := rfl
  have e29 : (29 : UInt64).toNat % 64 = 29 := rfl
  rw [UInt64.toNat_toUInt32, UInt64.toNat_or, UInt64.toNat_shiftLeft, UInt64.toNat_shiftRight, h1, hm, e23, e29,
    Nat.shiftLeft_eq, Nat.shiftRight_eq_div_pow, Nat.mod_eq_of_lt h3,
    or_eq_add (i := 23) hq (Dvd.intro_left _ rfl), Nat.mod_eq_of_lt h4]

theorem nUp_eq : nUp e m = (decide ((2^52 + Mm) % 2^29 > 2^(29 - 1)) ||
    ((2^52 + Mm) % 2^29 == 2^(29 - 1) && (2^52 + Mm) / 2^29 % 2 == 1)) := by
  unfold nUp
  have hr : (m &&& 0x1fffffff).toNat = (2^52 + Mm) % 2^29 := by
    rw [UInt64.toNat_and, hm]
    have : (0x1fffffff : UInt64).toNat = 2^29 - 1 := rfl
    rw [this, Nat.and_two_pow_sub_one_eq_mod]; omega
  have hq := nQ_toNat he hm hMm hE0 hE1
  have hpar : (nQ e m).toNat % 2 = (2^52 + Mm) / 2^29 % 2 := by
    rw [hq]
    have : (2^52 + Mm) / 2^29 = 2^23 + Mm / 2^29 := by omega
    rw [this]; omega
  rw [u32_and_one, hpar]
  have h1 : decide ((m &&& 0x1fffffff) > 0x10000000) = decide ((2^52 + Mm) % 2^29 > 2^(29 - 1)) := by
    apply decide_eq_decide.mpr
    show (0x10000000 : UInt64) < _ ↔ _
    rw [UInt64.lt_iff_toNat_lt, hr]; rfl
  have h2 : ((m &&& 0x1fffffff) == 0x10000000) = ((2^52 + Mm) % 2^29 == 2^(29 - 1)) := by
    rw [Bool.eq_iff_iff, beq_iff_eq, beq_iff_eq, ← UInt64.toNat_inj, hr]
    exact Iff.rfl
  rw [h1, h2]

/-- the magnitude pattern of the normal arm: `(E − 897)·2^23 + rneShift (2^52 + m) 29` -/
theorem normal_pat : (if nUp e m then nQ e m + 1 else nQ e m).toNat = (E - 897) * 2^23 + rneShift (2^52 + Mm) 29 := by
  have hq := nQ_toNat he hm hMm hE0 hE1
  have hdiv : (2^52 + Mm) / 2^29 = 2^23 + Mm / 2^29 := by omega
  have hlt : Mm / 2^29 < 2^23 := by rw [Nat.div_lt_iff_lt_mul (by norm_num)]; omega
  have h2 : (E - 896) * 2^23 ≤ 254 * 2^23 := Nat.mul_le_mul_right _ (by omega)
  have hq1 : (nQ e m + 1).toNat = (nQ e m).toNat + 1 := by
    rw [UInt32.toNat_add, show (1 : UInt32).toNat = 1 from rfl, Nat.mod_eq_of_lt (by rw [hq]; omega)]
  rw [← natToF64_round (2^52 + Mm) 29 (by norm_num), ← nUp_eq he hm hMm hE0 hE1]
  cases nUp e m
  · simp only [Bool.false_eq_true, if_false]; rw [hq, hdiv]; omega
  · simp only [if_true]; rw [hq1, hq, hdiv]; omega

end normal

section sub
set_option linter.unusedSectionVars false
variable {e m : UInt64} {E Mm : ℕ} (he : e.toNat = E) (hm : m.toNat = Mm) (hMm : Mm < 2^52) (hE0 : 863 ≤ E) (hE1 : E ≤ 896)
include he hm hMm hE0 hE1

theorem sh_toNat : ((926 : UInt64) - e).toNat = 926 - E := by
  have h : e ≤ (926 : UInt64) := by rw [UInt64.le_iff_toNat_le, he]; show E ≤ 926; omega
  rw [UInt64.toNat_sub_of_le _ _ h, he]; rfl

theorem sh1_toNat : ((926 : UInt64) - e - 1).toNat = 926 - E - 1 := by
  have h : (1 : UInt64) ≤ (926 : UInt64) - e := by
    rw [UInt64.le_iff_toNat_le, sh_toNat he hm hMm hE0 hE1]; show 1 ≤ 926 - E; omega
  rw [UInt64.toNat_sub_of_le _ _ h, sh_toNat he hm hMm hE0 hE1]; rfl

theorem full_toNat : (m ||| (0x10000000000000 : UInt64)).toNat = 2^52 + Mm := by
  rw [UInt64.toNat_or, hm, show (0x10000000000000 : UInt64).toNat = 2^52 from rfl, Nat.or_comm,
    or_eq_add (i := 52) hMm (dvd_refl _)]

theorem pow_sh_lt : 2^(926 - E) < 2^64 := Nat.pow_lt_pow_right (by norm_num) (by omega)

theorem sQ_toNat : (sQ e m).toNat = (2^52 + Mm) / 2^(926 - E) := by
  unfold sQ
  have h30 : 2^30 ≤ 2^(926 - E) := Nat.pow_le_pow_right (by norm_num) (by omega)
  have hq : (2^52 + Mm) / 2^(926 - E) < 2^23 := by
    rw [Nat.div_lt_iff_lt_mul (Nat.pos_of_ne_zero (by simp))]
    calc 2^52 + Mm < 2^23 * 2^30 := by omega
      _ ≤ 2^23 * 2^(926 - E) := Nat.mul_le_mul_left _ h30
  rw [UInt64.toNat_toUInt32, UInt64.toNat_shiftRight, full_toNat he hm hMm hE0 hE1, sh_toNat he hm hMm hE0 hE1,
    Nat.mod_eq_of_lt (a := 926 - E) (by omega), Nat.shiftRight_eq_div_pow, Nat.mod_eq_of_lt (lt_trans hq (by norm_num))]

theorem mask_toNat : (((1 : UInt64) <<< ((926 : UInt64) - e)) - 1).toNat = 2^(926 - E) - 1 := by
  have hp := pow_sh_lt he hm hMm hE0 hE1
  have h1 : ((1 : UInt64) <<< ((926 : UInt64) - e)).toNat = 2^(926 - E) := by
    rw [UInt64.toNat_shiftLeft, sh_toNat he hm hMm hE0 hE1, Nat.mod_eq_of_lt (a := 926 - E) (by omega),
      show (1 : UInt64).toNat = 1 from rfl, Nat.shiftLeft_eq, Nat.one_mul, Nat.mod_eq_of_lt hp]
  have hle : (1 : UInt64) ≤ (1 : UInt64) <<< ((926 : UInt64) - e) := by
    rw [UInt64.le_iff_toNat_le, h1]; exact Nat.one_le_two_pow
  rw [UInt64.toNat_sub_of_le _ _ hle, h1]; rfl

theorem half_toNat : ((1 : UInt64) <<< ((926 : UInt64) - e - 1)).toNat = 2^(926 - E - 1) := by
  have hp : 2^(926 - E - 1) < 2^64 := Nat.pow_lt_pow_right (by norm_num) (by omega)
  rw [UInt64.toNat_shiftLeft, sh1_toNat he hm hMm hE0 hE1, Nat.mod_eq_of_lt (a := 926 - E - 1) (by omega),
    show (1 : UInt64).toNat = 1 from rfl, Nat.shiftLeft_eq, Nat.one_mul, Nat.mod_eq_of_lt hp]

theorem rem_toNat : ((m ||| (0x10000000000000 : UInt64)) &&& (((1 : UInt64) <<< ((926 : UInt64) - e)) - 1)).toNat =
    (2^52 + Mm) % 2^(926 - E) := by
  rw [UInt64.toNat_and, full_toNat he hm hMm hE0 hE1, mask_toNat he hm hMm hE0 hE1, Nat.and_two_pow_sub_one_eq_mod]

theorem sUp_eq : sUp e m = (decide ((2^52 + Mm) % 2^(926 - E) > 2^(926 - E - 1)) ||
    ((2^52 + Mm) % 2^(926 - E) == 2^(926 - E - 1) && (2^52 + Mm) / 2^(926 - E) % 2 == 1)) := by
  unfold sUp
  have hr := rem_toNat he hm hMm hE0 hE1
  have hh := half_toNat he hm hMm hE0 hE1
  rw [u32_and_one, sQ_toNat he hm hMm hE0 hE1]
  have h1 : decide (((m ||| (0x10000000000000 : UInt64)) &&& (((1 : UInt64) <<< ((926 : UInt64) - e)) - 1)) >
      ((1 : UInt64) <<< ((926 : UInt64) - e - 1))) = decide ((2^52 + Mm) % 2^(926 - E) > 2^(926 - E - 1)) := by
    apply decide_eq_decide.mpr
    show ((1 : UInt64) <<< ((926 : UInt64) - e - 1)) < _ ↔ _
    rw [UInt64.lt_iff_toNat_lt, hr, hh]
  have h2 : (((m ||| (0x10000000000000 : UInt64)) &&& (((1 : UInt64) <<< ((926 : UInt64) - e)) - 1)) ==
      ((1 : UInt64) <<< ((926 : UInt64) - e - 1))) = ((2^52 + Mm) % 2^(926 - E) == 2^(926 - E - 1)) := by
    rw [Bool.eq_iff_iff, beq_iff_eq, beq_iff_eq, ← UInt64.toNat_inj, hr, hh]
  rw [h1, h2]

/-- the magnitude pattern of the subnormal arm: `rneShift (2^52 + m) (926 − E)` -/
theorem sub_pat : (if sUp e m then sQ e m + 1 else sQ e m).toNat = rneShift (2^52 + Mm) (926 - E) ∧
    rneShift (2^52 + Mm) (926 - E) ≤ 2^23 := by
  have hq := sQ_toNat he hm hMm hE0 hE1
  have h30 : 2^30 ≤ 2^(926 - E) := Nat.pow_le_pow_right (by norm_num) (by omega)
  have hqlt : (2^52 + Mm) / 2^(926 - E) < 2^23 := by
    rw [Nat.div_lt_iff_lt_mul (Nat.pos_of_ne_zero (by simp))]
    calc 2^52 + Mm < 2^23 * 2^30 := by omega
      _ ≤ 2^23 * 2^(926 - E) := Nat.mul_le_mul_left _ h30
  have hq1 : (sQ e m + 1).toNat = (sQ e m).toNat + 1 := by
    rw [UInt32.toNat_add, show (1 : UInt32).toNat = 1 from rfl, Nat.mod_eq_of_lt (by rw [hq]; omega)]
  have hround := natToF64_round (2^52 + Mm) (926 - E) (by omega)
  have key : (if sUp e m then sQ e m + 1 else sQ e m).toNat = rneShift (2^52 + Mm) (926 - E) := by
    rw [← hround, ← sUp_eq he hm hMm hE0 hE1]
    cases sUp e m
    · simp only [Bool.false_eq_true, if_false]; exact hq
    · simp only [if_true]; rw [hq1, hq]
  refine ⟨key, ?_⟩
  rw [← key]
  cases sUp e m
  · simp only [Bool.false_eq_true, if_false]; rw [hq]; omega
  · simp only [if_true]; rw [hq1, hq]; omega

end sub

/-! ### reading the result pattern -/

/-- a 32-bit pattern `s·2^31 + E'·2^23 + M'` with `E' < 255` is the finite float `± w·2^-149` -/
theorem read32 {a : UInt32} {s E' M' : ℕ} (hs : s ≤ 1) (hE' : E' < 255) (hM' : M' < 2^23)
    (ha : a.toNat = s * 2^31 + E' * 2^23 + M') :
    F32.IsFin (Float32.ofBits a) ∧
    F32.v (Float32.ofBits a) = sgn (if s = 0 then Sign.positive else Sign.negative) *
      (((if E' = 0 then M' else (2^23 + M') * 2^(E' - 1) : ℕ) : ℚ) * 2^(-149 : ℤ)) := by
  obtain ⟨f1, f2, f3⟩ := fields32_of_sum3 (s := s) (E := E') (M := M') hs (by omega) hM'
  obtain ⟨hf, hv⟩ := F32.ofBits_fin (a := a) (by rw [ha, f2]; omega)
  refine ⟨hf, ?_⟩
  rw [hv, ha]; unfold F32.signOf F32.wOf
  rw [f1, f2, f3]

theorem sgn_R32 (s : Sign) (z : ℚ) : F32.R32 (sgn s * z) = sgn s * F32.R32 z := (sgn_mul_R F32.spec s z).symm

theorem rneShift_bounds29 {M : ℕ} (h0 : 2^52 ≤ M) (h1 : M < 2^53) : 2^23 ≤ rneShift M 29 ∧ rneShift M 29 ≤ 2^24 := by
  have hd0 : 2^23 ≤ M / 2^29 := by rw [Nat.le_div_iff_mul_le (by norm_num)]; omega
  have hd1 : M / 2^29 < 2^24 := by rw [Nat.div_lt_iff_lt_mul (by norm_num)]; omega
  unfold rneShift
  split_ifs <;> omega

theorem pow_shift1074 {a : ℕ} (ha : 1 ≤ a) : ((2 : ℕ) : ℚ)^(a - 1) * 2^(-1074 : ℤ) = 2^((a : ℤ) - 1075) := by
  rw [show ((2 : ℕ) : ℚ) = 2 by norm_num, ← zpow_natCast, ← zpow_add₀ (by norm_num)]
  have : ((a - 1 : ℕ) : ℤ) + -1074 = (a : ℤ) - 1075 := by omega
  rw [this]

theorem pow_shift149 {a : ℕ} (c : ℤ) (ha : ((a : ℕ) : ℤ) + -149 = c) : ((2 : ℕ) : ℚ)^a * 2^(-149 : ℤ) = 2^c := by
  rw [show ((2 : ℕ) : ℚ) = 2 by norm_num, ← zpow_natCast, ← zpow_add₀ (by norm_num), ha]

theorem val_carry {E : ℕ} (hE : 897 ≤ E) :
    ((((2^23 + 0) * 2^(E - 895 - 1) : ℕ) : ℕ) : ℚ) * 2^(-149 : ℤ) = ((2^24 : ℕ) : ℚ) * 2^((E : ℤ) - 1046) := by
  have h1 : (((2^(E - 895 - 1) : ℕ) : ℕ) : ℚ) * 2^(-149 : ℤ) = 2^((E : ℤ) - 1045) := by
    rw [Nat.cast_pow]; exact pow_shift149 _ (by omega)
  have h2 : (2 : ℚ)^((E : ℤ) - 1045) = 2 * 2^((E : ℤ) - 1046) := by
    rw [show (E : ℤ) - 1045 = 1 + ((E : ℤ) - 1046) by ring, zpow_add₀ (by norm_num)]; norm_num
  rw [Nat.add_zero, Nat.cast_mul, mul_assoc, h1, h2]
  norm_num; ring

/-- the core of the narrowing on a pattern `b` with fields `S`, `E`, `Mm` and exact value `X` -/
theorem narrowF_core {b : UInt64} {X : ℚ} {S E Mm : ℕ}
    (hE : ((b >>> 52) &&& 0x7ff).toNat = E) (hM : (b &&& 0xfffffffffffff).toNat = Mm)
    (hS : ((b >>> 63).toUInt32 <<< 31).toNat = S * 2^31) (hs1 : S ≤ 1) (hMlt : Mm < 2^52) (hE2047 : E ≠ 2047)
    (hv : X = sgn (if S = 0 then Sign.positive else Sign.negative) *
      (((if E = 0 then Mm else (2^52 + Mm) * 2^(E - 1) : ℕ) : ℚ) * 2^(-1074 : ℤ)))
    (hlt : |X| < 2^127) :
    F32.IsFin (narrowBits b) ∧ F32.v (narrowBits b) = F32.R32 X := by
  set σ : Sign := (if S = 0 then Sign.positive else Sign.negative) with hσ
  have hσabs : |sgn σ| = 1 := by rw [hσ]; split_ifs <;> simp [sgn]
  have h2pos : (0 : ℚ) < 2^(-1074 : ℤ) := two_zpow_pos _
  have habs : |X| = ((if E = 0 then Mm else (2^52 + Mm) * 2^(E - 1) : ℕ) : ℚ) * 2^(-1074 : ℤ) := by
    rw [hv, abs_mul, hσabs, one_mul, abs_of_nonneg (mul_nonneg (Nat.cast_nonneg _) h2pos.le)]
  unfold narrowBits
  have hc1 : ¬ (((b >>> 52) &&& 0x7ff) == 0x7ff) = true := fun h => hE2047 (by
    have := congrArg UInt64.toNat (beq_iff_eq.mp h); rw [hE] at this; exact this)
  rw [if_neg hc1]
  by_cases c897 : 897 ≤ E
  · -- normal candidate
    have hge : ((b >>> 52) &&& 0x7ff) ≥ 897 := by rw [u64_ge_iff, hE]; exact c897
    rw [if_pos hge]
    have hE0 : E ≠ 0 := by omega
    rw [if_neg hE0] at hv habs
    have hmag : (((2^52 + Mm) * 2^(E - 1) : ℕ) : ℚ) * 2^(-1074 : ℤ) = ((2^52 + Mm : ℕ) : ℚ) * 2^((E : ℤ) - 1075) := by
      rw [Nat.cast_mul, Nat.cast_pow, mul_assoc, pow_shift1074 (by omega)]
    have hE1149 : E ≤ 1149 := by
      by_contra hgt; rw [not_le] at hgt
      rw [habs, hmag] at hlt
      have h1 : (2 : ℚ)^(52 : ℤ) ≤ ((2^52 + Mm : ℕ) : ℚ) := by
        have : 2^52 ≤ 2^52 + Mm := Nat.le_add_right _ _
        rw [zpow_ofNat]; exact_mod_cast this
      have h2 : (2 : ℚ)^(75 : ℤ) ≤ 2^((E : ℤ) - 1075) := zpow_le_zpow_right₀ (by norm_num) (by omega)
      have h3 : (2 : ℚ)^(52 : ℤ) * 2^(75 : ℤ) ≤ ((2^52 + Mm : ℕ) : ℚ) * 2^((E : ℤ) - 1075) :=
        mul_le_mul h1 h2 (two_zpow_pos _).le (Nat.cast_nonneg _)
      have h4 : (2 : ℚ)^(52 : ℤ) * 2^(75 : ℤ) = 2^127 := by rw [← zpow_add₀ (by norm_num)]; norm_num
      rw [h4] at h3; linarith
    have hnge : ¬ ((b >>> 52) &&& 0x7ff) ≥ 1151 := by rw [u64_ge_iff, hE]; show ¬ 1151 ≤ E; omega
    rw [if_neg hnge]
    have hM0 : 2^52 ≤ 2^52 + Mm := Nat.le_add_right _ _
    have hM1 : 2^52 + Mm < 2^53 := by omega
    obtain ⟨hQ0, hQ1⟩ := rneShift_bounds29 hM0 hM1
    have hpat := normal_pat hE hM hMlt c897 (by omega : E ≤ 1150)
    have hR : F32.R32 X = sgn σ * ((rneShift (2^52 + Mm) 29 : ℚ) * 2^((E : ℤ) - 1046)) := by
      rw [hv, sgn_R32, hmag, R32_of_53 hM0 hM1 _ 29 (by rw [max_eq_left (by omega)]; push_cast; ring)]
      have : (E : ℤ) - 1075 + ((29 : ℕ) : ℤ) = (E : ℤ) - 1046 := by push_cast; ring
      rw [this]
    rw [hR]
    generalize rneShift (2^52 + Mm) 29 = Q at hQ0 hQ1 hpat ⊢
    have hP : (E - 897) * 2^23 + Q < 2^31 := by
      have : (E - 897) * 2^23 ≤ 252 * 2^23 := Nat.mul_le_mul_right _ (by omega)
      omega
    have hA : (((b >>> 63).toUInt32 <<< 31) ||| (if nUp ((b >>> 52) &&& 0x7ff) (b &&& 0xfffffffffffff)
        then nQ ((b >>> 52) &&& 0x7ff) (b &&& 0xfffffffffffff) + 1
        else nQ ((b >>> 52) &&& 0x7ff) (b &&& 0xfffffffffffff))).toNat = S * 2^31 + ((E - 897) * 2^23 + Q) := by
      rw [UInt32.toNat_or, hS, hpat, or_eq_add (i := 31) hP (Dvd.intro_left _ rfl)]
    rcases hQ1.lt_or_eq with hQlt | hQeq
    · have hA' := hA
      rw [show S * 2^31 + ((E - 897) * 2^23 + Q) = S * 2^31 + (E - 896) * 2^23 + (Q - 2^23) by omega] at hA'
      obtain ⟨hf, hv32⟩ := read32 (s := S) (E' := E - 896) (M' := Q - 2^23) hs1 (by omega) (by omega) hA'
      refine ⟨hf, ?_⟩
      rw [hv32, if_neg (show ¬ E - 896 = 0 by omega)]
      have e1 : 2^23 + (Q - 2^23) = Q := by omega
      rw [e1, Nat.cast_mul, Nat.cast_pow, mul_assoc, pow_shift149 ((E : ℤ) - 1046) (by omega)]
    · have hA' := hA
      rw [show S * 2^31 + ((E - 897) * 2^23 + Q) = S * 2^31 + (E - 895) * 2^23 + 0 by omega] at hA'
      obtain ⟨hf, hv32⟩ := read32 (s := S) (E' := E - 895) (M' := 0) hs1 (by omega) (by norm_num) hA'
      refine ⟨hf, ?_⟩
      rw [hv32, if_neg (show ¬ E - 895 = 0 by omega), hQeq, val_carry c897]
  · rw [not_le] at c897
    have hnge : ¬ ((b >>> 52) &&& 0x7ff) ≥ 897 := by rw [u64_ge_iff, hE]; show ¬ 897 ≤ E; omega
    rw [if_neg hnge]
    by_cases c863 : 863 ≤ E
    · -- subnormal result
      have hn842 : ¬ ((b >>> 52) &&& 0x7ff) < 842 := by rw [u64_lt_iff, hE]; show ¬ E < 842; omega
      rw [if_neg hn842]
      have hn64 : ¬ (926 : UInt64) - ((b >>> 52) &&& 0x7ff) ≥ 64 := by
        rw [u64_ge_iff, sh_toNat hE hM hMlt c863 (by omega)]; show ¬ 64 ≤ 926 - E; omega
      rw [if_neg hn64]
      have hE0 : E ≠ 0 := by omega
      rw [if_neg hE0] at hv
      have hmag : (((2^52 + Mm) * 2^(E - 1) : ℕ) : ℚ) * 2^(-1074 : ℤ) = ((2^52 + Mm : ℕ) : ℚ) * 2^((E : ℤ) - 1075) := by
        rw [Nat.cast_mul, Nat.cast_pow, mul_assoc, pow_shift1074 (by omega)]
      have hM0 : 2^52 ≤ 2^52 + Mm := Nat.le_add_right _ _
      have hM1 : 2^52 + Mm < 2^53 := by omega
      obtain ⟨hpat, hQ1⟩ := sub_pat hE hM hMlt c863 (by omega : E ≤ 896)
      have hR : F32.R32 X = sgn σ * ((rneShift (2^52 + Mm) (926 - E) : ℚ) * 2^(-149 : ℤ)) := by
        have hk : (E : ℤ) - 1075 + ((926 - E : ℕ) : ℤ) = max ((E : ℤ) - 1075 + 29) (-149) := by
          rw [max_eq_right (by omega)]; omega
        rw [hv, sgn_R32, hmag, R32_of_53 hM0 hM1 _ (926 - E) hk]
        have : (E : ℤ) - 1075 + ((926 - E : ℕ) : ℤ) = -149 := by omega
        rw [this]
      rw [hR]
      generalize rneShift (2^52 + Mm) (926 - E) = Q at hQ1 hpat ⊢
      have hA : (((b >>> 63).toUInt32 <<< 31) ||| (if sUp ((b >>> 52) &&& 0x7ff) (b &&& 0xfffffffffffff)
          then sQ ((b >>> 52) &&& 0x7ff) (b &&& 0xfffffffffffff) + 1
          else sQ ((b >>> 52) &&& 0x7ff) (b &&& 0xfffffffffffff))).toNat = S * 2^31 + Q := by
        rw [UInt32.toNat_or, hS, hpat, or_eq_add (i := 31) (by omega) (Dvd.intro_left _ rfl)]
      rcases hQ1.lt_or_eq with hQlt | hQeq
      · have hA' := hA
        rw [show S * 2^31 + Q = S * 2^31 + 0 * 2^23 + Q by omega] at hA'
        obtain ⟨hf, hv32⟩ := read32 (s := S) (E' := 0) (M' := Q) hs1 (by norm_num) hQlt hA'
        exact ⟨hf, by rw [hv32, if_pos rfl]⟩
      · have hA' := hA
        rw [show S * 2^31 + Q = S * 2^31 + 1 * 2^23 + 0 by omega] at hA'
        obtain ⟨hf, hv32⟩ := read32 (s := S) (E' := 1) (M' := 0) hs1 (by norm_num) (by norm_num) hA'
        refine ⟨hf, ?_⟩
        rw [hv32, if_neg (show ¬ (1 : ℕ) = 0 by norm_num), hQeq]; norm_num; rfl
    · -- below half the least subnormal: ±0
      rw [not_le] at c863
      have hres : F32.IsFin (Float32.ofBits ((b >>> 63).toUInt32 <<< 31)) ∧
          F32.v (Float32.ofBits ((b >>> 63).toUInt32 <<< 31)) = 0 := by
        have hS' : ((b >>> 63).toUInt32 <<< 31).toNat = S * 2^31 + 0 * 2^23 + 0 := by rw [hS]; omega
        obtain ⟨hf, hv32⟩ := read32 (s := S) (E' := 0) (M' := 0) hs1 (by norm_num) (by norm_num) hS'
        exact ⟨hf, by rw [hv32, if_pos rfl]; simp⟩
      have htiny : F32.R32 X = 0 := by
        apply R32_tiny
        rw [habs]
        by_cases hE0 : E = 0
        · rw [if_pos hE0]
          have : (Mm : ℚ) ≤ 2^(52 : ℤ) := by
            rw [zpow_ofNat]; exact_mod_cast hMlt.le
          calc (Mm : ℚ) * 2^(-1074 : ℤ) ≤ 2^(52 : ℤ) * 2^(-1074 : ℤ) := mul_le_mul_of_nonneg_right this h2pos.le
            _ = 2^(-1022 : ℤ) := by rw [← zpow_add₀ (by norm_num)]; norm_num
            _ ≤ 2^(-151 : ℤ) := zpow_le_zpow_right₀ (by norm_num) (by norm_num)
        · rw [if_neg hE0, Nat.cast_mul, Nat.cast_pow, mul_assoc, pow_shift1074 (by omega)]
          have h1 : ((2^52 + Mm : ℕ) : ℚ) ≤ 2^(53 : ℤ) := by
            rw [zpow_ofNat]
            have : 2^52 + Mm ≤ 2^53 := by omega
            exact_mod_cast this
          have h3 : (2 : ℚ)^((E : ℤ) - 1075) ≤ 2^(-213 : ℤ) := zpow_le_zpow_right₀ (by norm_num) (by omega)
          calc ((2^52 + Mm : ℕ) : ℚ) * 2^((E : ℤ) - 1075)
              ≤ 2^(53 : ℤ) * 2^(-213 : ℤ) := mul_le_mul h1 h3 (two_zpow_pos _).le (two_zpow_pos _).le
            _ = 2^(-160 : ℤ) := by rw [← zpow_add₀ (by norm_num)]; norm_num
            _ ≤ 2^(-151 : ℤ) := zpow_le_zpow_right₀ (by norm_num) (by norm_num)
      rw [htiny]
      by_cases c842 : E < 842
      · have h842 : ((b >>> 52) &&& 0x7ff) < 842 := by rw [u64_lt_iff, hE]; exact c842
        rw [if_pos h842]; exact hres
      · have hn842 : ¬ ((b >>> 52) &&& 0x7ff) < 842 := by rw [u64_lt_iff, hE]; exact c842
        rw [if_neg hn842]
        have h64 : (926 : UInt64) - ((b >>> 52) &&& 0x7ff) ≥ 64 := by
          have hle : ((b >>> 52) &&& 0x7ff) ≤ (926 : UInt64) := by
            rw [UInt64.le_iff_toNat_le, hE]; show E ≤ 926; omega
          rw [u64_ge_iff, UInt64.toNat_sub_of_le _ _ hle, hE]; show 64 ≤ 926 - E; omega
        rw [if_pos h64]; exact hres

/-! ### the overflow arms -/

/-- a 32-bit pattern with exponent field 255 and zero mantissa is the signed infinity -/
theorem read32_inf {a : UInt32} {s : ℕ} (hs : s ≤ 1) (ha : a.toNat = s * 2^31 + 255 * 2^23 + 0) :
    F32.U (Float32.ofBits a) = .infinity (if s = 0 then Sign.positive else Sign.negative) := by
  obtain ⟨f1, f2, f3⟩ := fields32_of_sum3 (s := s) (E := 255) (M := 0) hs (by norm_num) (by norm_num)
  rw [F32.U_ofBits_inf (by rw [ha]; exact f2) (by rw [ha]; exact f3), ha]
  unfold F32.signOf; rw [f1]

theorem inf_pat {S : ℕ} {sb : UInt32} (hS : sb.toNat = S * 2^31) :
    (sb ||| (0x7f800000 : UInt32)).toNat = S * 2^31 + 255 * 2^23 + 0 := by
  rw [UInt32.toNat_or, hS, show (0x7f800000 : UInt32).toNat = 255 * 2^23 from rfl,
    or_eq_add (i := 31) (by norm_num) (Dvd.intro_left _ rfl), Nat.add_zero]

theorem R32_two_pow {k : ℕ} : F32.R32 ((2 : ℚ)^k) = 2^k := by
  have := R_two_zpow (p := F32.spec.mantissaBits) (emin := F32.spec.minExponent) (one_le_mantissaBits F32.spec) (j := (k : ℤ))
    (le_trans (minExponent_le_zero F32.spec) (by positivity))
  rwa [zpow_natCast] at this

/-- the narrowing of a finite pattern of magnitude at least `2^127` -/
theorem narrowF_core_big {b : UInt64} {X : ℚ} {S E Mm : ℕ}
    (hE : ((b >>> 52) &&& 0x7ff).toNat = E) (hM : (b &&& 0xfffffffffffff).toNat = Mm)
    (hS : ((b >>> 63).toUInt32 <<< 31).toNat = S * 2^31) (hs1 : S ≤ 1) (hMlt : Mm < 2^52) (hE2047 : E ≠ 2047) (hElt : E < 2^11)
    (hv : X = sgn (if S = 0 then Sign.positive else Sign.negative) *
      (((if E = 0 then Mm else (2^52 + Mm) * 2^(E - 1) : ℕ) : ℚ) * 2^(-1074 : ℤ)))
    (hge : 2^127 ≤ |X|) :
    (|F32.R32 X| < 2^128 → F32.IsFin (narrowBits b) ∧ F32.v (narrowBits b) = F32.R32 X) ∧
    (2^128 ≤ |F32.R32 X| → F32.U (narrowBits b) = .infinity (if S = 0 then Sign.positive else Sign.negative)) := by
  set σ : Sign := (if S = 0 then Sign.positive else Sign.negative) with hσ
  have hσabs : |sgn σ| = 1 := by rw [hσ]; split_ifs <;> simp [sgn]
  have h2pos : (0 : ℚ) < 2^(-1074 : ℤ) := two_zpow_pos _
  have habs : |X| = ((if E = 0 then Mm else (2^52 + Mm) * 2^(E - 1) : ℕ) : ℚ) * 2^(-1074 : ℤ) := by
    rw [hv, abs_mul, hσabs, one_mul, abs_of_nonneg (mul_nonneg (Nat.cast_nonneg _) h2pos.le)]
  have h127 : (1 : ℚ) ≤ 2^127 := one_le_pow₀ (by norm_num)
  -- the exponent field is at least 1150
  have hE1150 : 1150 ≤ E := by
    by_contra hlt; rw [not_le] at hlt
    rw [habs] at hge
    by_cases hE0 : E = 0
    · rw [if_pos hE0] at hge
      have : (Mm : ℚ) * 2^(-1074 : ℤ) < 1 := by
        have h1 : (Mm : ℚ) < 2^(52 : ℤ) := by rw [zpow_ofNat]; exact_mod_cast hMlt
        calc (Mm : ℚ) * 2^(-1074 : ℤ) < 2^(52 : ℤ) * 2^(-1074 : ℤ) := mul_lt_mul_of_pos_right h1 h2pos
          _ = 2^(-1022 : ℤ) := by rw [← zpow_add₀ (by norm_num)]; norm_num
          _ ≤ 1 := zpow_le_one_of_nonpos₀ (by norm_num) (by norm_num)
      linarith
    · rw [if_neg hE0, Nat.cast_mul, Nat.cast_pow, mul_assoc, pow_shift1074 (by omega)] at hge
      have h1 : ((2^52 + Mm : ℕ) : ℚ) < 2^(53 : ℤ) := by
        rw [zpow_ofNat]
        have : 2^52 + Mm < 2^53 := by omega
        exact_mod_cast this
      have h3 : (2 : ℚ)^((E : ℤ) - 1075) ≤ 2^(74 : ℤ) := zpow_le_zpow_right₀ (by norm_num) (by omega)
      have : ((2^52 + Mm : ℕ) : ℚ) * 2^((E : ℤ) - 1075) < 2^127 := by
        calc ((2^52 + Mm : ℕ) : ℚ) * 2^((E : ℤ) - 1075) < 2^(53 : ℤ) * 2^((E : ℤ) - 1075) :=
              mul_lt_mul_of_pos_right h1 (two_zpow_pos _)
          _ ≤ 2^(53 : ℤ) * 2^(74 : ℤ) := mul_le_mul_of_nonneg_left h3 (two_zpow_pos _).le
          _ = 2^127 := by rw [← zpow_add₀ (by norm_num)]; norm_num
      linarith
  have hE0 : E ≠ 0 := by omega
  rw [if_neg hE0] at hv habs
  have hmag : (((2^52 + Mm) * 2^(E - 1) : ℕ) : ℚ) * 2^(-1074 : ℤ) = ((2^52 + Mm : ℕ) : ℚ) * 2^((E : ℤ) - 1075) := by
    rw [Nat.cast_mul, Nat.cast_pow, mul_assoc, pow_shift1074 (by omega)]
  have hM0 : 2^52 ≤ 2^52 + Mm := Nat.le_add_right _ _
  have hM1 : 2^52 + Mm < 2^53 := by omega
  obtain ⟨hQ0, hQ1⟩ := rneShift_bounds29 hM0 hM1
  have hR : F32.R32 X = sgn σ * ((rneShift (2^52 + Mm) 29 : ℚ) * 2^((E : ℤ) - 1046)) := by
    rw [hv, sgn_R32, hmag, R32_of_53 hM0 hM1 _ 29 (by rw [max_eq_left (by omega)]; push_cast; ring)]
    have : (E : ℤ) - 1075 + ((29 : ℕ) : ℤ) = (E : ℤ) - 1046 := by push_cast; ring
    rw [this]
  have hRabs : |F32.R32 X| = (rneShift (2^52 + Mm) 29 : ℚ) * 2^((E : ℤ) - 1046) := by
    rw [hR, abs_mul, hσabs, one_mul, abs_of_nonneg (mul_nonneg (Nat.cast_nonneg _) (two_zpow_pos _).le)]
  unfold narrowBits
  have hc1 : ¬ (((b >>> 52) &&& 0x7ff) == 0x7ff) = true := fun h => hE2047 (by
    have := congrArg UInt64.toNat (beq_iff_eq.mp h); rw [hE] at this; exact this)
  have hge897 : ((b >>> 52) &&& 0x7ff) ≥ 897 := by rw [u64_ge_iff, hE]; show 897 ≤ E; omega
  rw [if_neg hc1, if_pos hge897]
  by_cases c1151 : 1151 ≤ E
  · -- exponent out of range: infinity, and the rounded value is at least 2^128
    have h1151 : ((b >>> 52) &&& 0x7ff) ≥ 1151 := by rw [u64_ge_iff, hE]; exact c1151
    rw [if_pos h1151]
    have hbig : (2 : ℚ)^128 ≤ |F32.R32 X| := by
      rw [hRabs]
      have h1 : (2 : ℚ)^(23 : ℤ) ≤ (rneShift (2^52 + Mm) 29 : ℚ) := by rw [zpow_ofNat]; exact_mod_cast hQ0
      have h2 : (2 : ℚ)^(105 : ℤ) ≤ 2^((E : ℤ) - 1046) := zpow_le_zpow_right₀ (by norm_num) (by omega)
      calc (2 : ℚ)^128 = 2^(23 : ℤ) * 2^(105 : ℤ) := by rw [← zpow_add₀ (by norm_num)]; norm_num
        _ ≤ _ := mul_le_mul h1 h2 (two_zpow_pos _).le (Nat.cast_nonneg _)
    exact ⟨fun h => absurd hbig (not_le.mpr h), fun _ => read32_inf hs1 (inf_pat hS)⟩
  · have hE' : E = 1150 := by omega
    have hn1151 : ¬ ((b >>> 52) &&& 0x7ff) ≥ 1151 := by rw [u64_ge_iff, hE]; show ¬ 1151 ≤ E; omega
    rw [if_neg hn1151]
    have hpat := normal_pat hE hM hMlt (by omega : 897 ≤ E) (by omega : E ≤ 1150)
    rw [hRabs, hR]
    generalize rneShift (2^52 + Mm) 29 = Q at hQ0 hQ1 hpat ⊢
    have hP : (E - 897) * 2^23 + Q < 2^31 := by
      have : (E - 897) * 2^23 ≤ 253 * 2^23 := Nat.mul_le_mul_right _ (by omega)
      omega
    have hA : (((b >>> 63).toUInt32 <<< 31) ||| (if nUp ((b >>> 52) &&& 0x7ff) (b &&& 0xfffffffffffff)
        then nQ ((b >>> 52) &&& 0x7ff) (b &&& 0xfffffffffffff) + 1
        else nQ ((b >>> 52) &&& 0x7ff) (b &&& 0xfffffffffffff))).toNat = S * 2^31 + ((E - 897) * 2^23 + Q) := by
      rw [UInt32.toNat_or, hS, hpat, or_eq_add (i := 31) hP (Dvd.intro_left _ rfl)]
    have hpow : (2 : ℚ)^((E : ℤ) - 1046) = 2^(104 : ℤ) := by rw [hE']; norm_num
    rcases hQ1.lt_or_eq with hQlt | hQeq
    · have hA' := hA
      rw [show S * 2^31 + ((E - 897) * 2^23 + Q) = S * 2^31 + (E - 896) * 2^23 + (Q - 2^23) by omega] at hA'
      obtain ⟨hf, hv32⟩ := read32 (s := S) (E' := E - 896) (M' := Q - 2^23) hs1 (by omega) (by omega) hA'
      have hfin : (Q : ℚ) * 2^((E : ℤ) - 1046) < 2^128 := by
        rw [hpow]
        have h1 : (Q : ℚ) < 2^(24 : ℤ) := by rw [zpow_ofNat]; exact_mod_cast hQlt
        calc (Q : ℚ) * 2^(104 : ℤ) < 2^(24 : ℤ) * 2^(104 : ℤ) := mul_lt_mul_of_pos_right h1 (two_zpow_pos _)
          _ = 2^128 := by rw [← zpow_add₀ (by norm_num)]; norm_num
      refine ⟨fun _ => ⟨hf, ?_⟩, fun h => absurd h (not_le.mpr hfin)⟩
      rw [hv32, if_neg (show ¬ E - 896 = 0 by omega)]
      have e1 : 2^23 + (Q - 2^23) = Q := by omega
      rw [e1, Nat.cast_mul, Nat.cast_pow, mul_assoc, pow_shift149 ((E : ℤ) - 1046) (by omega)]
    · have hA' := hA
      rw [show S * 2^31 + ((E - 897) * 2^23 + Q) = S * 2^31 + 255 * 2^23 + 0 by omega] at hA'
      have hinf : (2 : ℚ)^128 ≤ (Q : ℚ) * 2^((E : ℤ) - 1046) := by
        rw [hpow, hQeq]; norm_num
      exact ⟨fun h => absurd hinf (not_le.mpr h), fun _ => read32_inf hs1 hA'⟩

/-- **`Stim.f64ToF32` is the correctly rounded narrowing of every finite double**: the binary32 rounding `R32 (v x)` when
that is below `2^128` in magnitude, the infinity of the sign of `x` otherwise -/
theorem f64ToF32_spec {x : Float} (hx : F64.IsFin x) :
    (|F32.R32 (F64.v x)| < 2^128 → F32.IsFin (f64ToF32 x) ∧ F32.v (f64ToF32 x) = F32.R32 (F64.v x)) ∧
    (2^128 ≤ |F32.R32 (F64.v x)| → F32.U (f64ToF32 x) = .infinity (F64.signOf x.toBits.toNat)) := by
  obtain ⟨hv, hE2047⟩ := v64_fields hx
  rw [f64ToF32_unfold]
  rcases lt_or_ge |F64.v x| (2^127) with hlt | hge
  · have h := narrowF_core (b_expField x.toBits) (b_manField x.toBits) (n_signField x.toBits) (fS64_le_one x.toBits)
      (F64.fM_lt x.toBits.toNat) hE2047 hv hlt
    refine ⟨fun _ => h, fun hbig => ?_⟩
    exfalso
    have h1 : |F32.R32 (F64.v x)| ≤ 2^127 := by
      rw [abs_R]
      have := F32.R32_mono hlt.le
      rwa [R32_two_pow] at this
    have : (2 : ℚ)^127 < 2^128 := pow_lt_pow_right₀ (by norm_num) (by norm_num)
    linarith
  · exact narrowF_core_big (b_expField x.toBits) (b_manField x.toBits) (n_signField x.toBits) (fS64_le_one x.toBits)
      (F64.fM_lt x.toBits.toNat) hE2047 (F64.fE_lt x.toBits.toNat) hv hge

/-- **`Stim.f64ToF32` is the correctly rounded narrowing** (finite inputs below `2^127` in magnitude) -/
theorem f64ToF32_spec_lt {x : Float} (hx : F64.IsFin x) (hlt : |F64.v x| < 2^127) :
    F32.IsFin (f64ToF32 x) ∧ F32.v (f64ToF32 x) = F32.R32 (F64.v x) := by
  obtain ⟨hv, hE2047⟩ := v64_fields hx
  rw [f64ToF32_unfold]
  exact narrowF_core (b_expField x.toBits) (b_manField x.toBits) (n_signField x.toBits) (fS64_le_one x.toBits)
    (F64.fM_lt x.toBits.toNat) hE2047 hv hlt

/-! ### infinities and NaN -/

theorem nan_pat {S Mm : ℕ} {sb : UInt32} {m : UInt64} (hS : sb.toNat = S * 2^31) (hm : m.toNat = Mm) (hMm : Mm < 2^52) :
    ∃ Y, 0 < Y ∧ Y < 2^23 ∧ (sb ||| (0x7fc00000 : UInt32) ||| (m >>> 29).toUInt32).toNat = S * 2^31 + 255 * 2^23 + Y := by
  have hq : Mm / 2^29 < 2^23 := by rw [Nat.div_lt_iff_lt_mul (by norm_num)]; omega
  have hY : 2^22 ||| (Mm / 2^29) < 2^23 := Nat.or_lt_two_pow (by norm_num) hq
  refine ⟨2^22 ||| (Mm / 2^29), lt_of_lt_of_le (by norm_num) Nat.left_le_or, hY, ?_⟩
  have e29 : (29 : UInt64).toNat % 64 = 29 := rfl
  rw [UInt32.toNat_or, UInt32.toNat_or, hS, UInt64.toNat_toUInt32, UInt64.toNat_shiftRight, hm, e29,
    Nat.shiftRight_eq_div_pow, Nat.mod_eq_of_lt (lt_trans hq (by norm_num)),
    show (0x7fc00000 : UInt32).toNat = 255 * 2^23 ||| 2^22 from by decide,
    ← Nat.or_assoc (S * 2^31), Nat.or_assoc,
    or_eq_add (i := 31) (by norm_num) (Dvd.intro_left _ rfl),
    or_eq_add (i := 23) hY (by omega)]

/-- **NaN and the infinities**: `NaN ↦ NaN`, `±∞ ↦ ±∞` -/
theorem f64ToF32_nonfinite (x : Float) :
    (F64.U x = .notANumber → F32.U (f64ToF32 x) = .notANumber) ∧
    (∀ s, F64.U x = .infinity s → F32.U (f64ToF32 x) = .infinity s) := by
  have hU := F64.U_bits x
  have hE := b_expField x.toBits
  have hM := b_manField x.toBits
  have hS := n_signField x.toBits
  have hs1 := fS64_le_one x.toBits
  have hMlt := F64.fM_lt x.toBits.toNat
  have hcls : (F64.U x = .notANumber ∨ ∃ s, F64.U x = .infinity s) → F64.fE x.toBits.toNat = 2047 := by
    intro h
    by_contra hne
    rw [if_neg hne] at hU
    rcases h with h | ⟨s, h⟩ <;> rw [h] at hU <;> split at hU <;> first | (split at hU <;> cases hU) | cases hU
  rw [f64ToF32_unfold]; unfold narrowBits
  constructor
  · intro hnan
    have c1 := hcls (Or.inl hnan)
    have hc1 : (((x.toBits >>> 52) &&& 0x7ff) == 0x7ff) = true := by
      rw [beq_iff_eq, ← UInt64.toNat_inj, hE, c1]; rfl
    rw [if_pos hc1]
    rw [if_pos c1, hnan] at hU
    have c2 : F64.fM x.toBits.toNat ≠ 0 := by
      intro h0; rw [if_pos h0] at hU; cases hU
    have hc2 : ¬ ((x.toBits &&& 0xfffffffffffff) == 0) = true := fun h => c2 (by
      have := congrArg UInt64.toNat (beq_iff_eq.mp h); rw [hM] at this; exact this)
    rw [if_neg hc2]
    obtain ⟨Y, hY0, hY1, hpat⟩ := nan_pat hS hM hMlt
    obtain ⟨f1, f2, f3⟩ := fields32_of_sum3 (s := F64.fS x.toBits.toNat) (E := 255) (M := Y) hs1 (by norm_num) hY1
    exact F32.U_ofBits_nan (by rw [hpat]; exact f2) (by rw [hpat, f3]; omega)
  · intro s hinf
    have c1 := hcls (Or.inr ⟨s, hinf⟩)
    have hc1 : (((x.toBits >>> 52) &&& 0x7ff) == 0x7ff) = true := by
      rw [beq_iff_eq, ← UInt64.toNat_inj, hE, c1]; rfl
    rw [if_pos hc1]
    rw [if_pos c1, hinf] at hU
    have c2 : F64.fM x.toBits.toNat = 0 := by
      by_contra h0; rw [if_neg h0] at hU; cases hU
    have hc2 : ((x.toBits &&& 0xfffffffffffff) == 0) = true := by
      rw [beq_iff_eq, ← UInt64.toNat_inj, hM, c2]; rfl
    rw [if_pos hc2, if_pos c2] at *
    rw [read32_inf hs1 (inf_pat hS)]
    have : UnpackedFloat.infinity s = .infinity (F64.signOf x.toBits.toNat) := hU
    rw [this]; rfl


end C06
