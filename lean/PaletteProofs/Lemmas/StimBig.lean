/-
  C06 helper lemmas: `convert_double_to_uint!` / the `via f64` arm for the 64- and 128-bit targets, where `MAX as f64` is the
  power of two `2^w` and the scaled value can reach the `else` branch (`scaled as uN`, `Stim.bigCast`).

  * `f64BigToNat_spec`: on a finite float with value at least `2^52` the bit-level `Stim.f64BigToNat` is the exact value (an
    integer), and `bigCast w` is that integer saturated at `2^w − 1`;
  * `big_of_scaled`: for a finite clamped value `c ∈ [0, 2^w]`, `f64ToUint w x = min (rne c) (2^w − 1)` — below `2^52` by the
    magic addition (whole range `c < 2^52`, `Ieee/MagicTop.lean`), from `2^52` on by the saturating cast of the integer `c`.
-/
import PaletteProofs.Ieee.MagicTop
import PaletteProofs.Ieee.F64Conv
import PaletteProofs.Lemmas.StimIeee64

namespace C06
open Stim Float.Model Float.Model.UnpackedFloat Ieee Ieee.F64

theorem b_expField (b : UInt64) : ((b >>> 52) &&& 0x7ff).toNat = fE b.toNat := by
  simp only [UInt64.toNat_and, UInt64.toNat_shiftRight, fE, Nat.shiftRight_eq_div_pow]
  exact Nat.and_two_pow_sub_one_eq_mod _ 11

theorem b_manField (b : UInt64) : (b &&& 0xfffffffffffff).toNat = fM b.toNat := by
  simp only [UInt64.toNat_and, fM]
  exact Nat.and_two_pow_sub_one_eq_mod _ 52

theorem f64BigToNat_eq (x : Float) : f64BigToNat x =
    if fE x.toBits.toNat ≥ 1075 then (fM x.toBits.toNat + 2^52) * 2^(fE x.toBits.toNat - 1075)
    else (fM x.toBits.toNat + 2^52) / 2^(1075 - fE x.toBits.toNat) := by
  unfold f64BigToNat
  simp only [b_expField, b_manField]

/-- a finite float of value at least `2^52` is normal, positive, has exponent field `≥ 1075`, and is the integer
`(2^52 + m)·2^(e−1075)` -/
theorem big_fields {s : Float} (hs : IsFin s) (h : 2^52 ≤ v s) :
    1075 ≤ fE s.toBits.toNat ∧ fE s.toBits.toNat ≠ 2047 ∧
    v s = (((fM s.toBits.toNat + 2^52) * 2^(fE s.toBits.toNat - 1075) : ℕ) : ℚ) := by
  have hU := U_bits s
  have hMlt := fM_lt s.toBits.toNat
  unfold IsFin v at *
  by_cases c1 : fE s.toBits.toNat = 2047
  · rw [if_pos c1] at hU; rw [hU] at hs; split at hs <;> simp [UnpackedFloat.isFinite] at hs
  rw [if_neg c1] at hU
  by_cases c0 : fE s.toBits.toNat = 0
  · exfalso
    rw [if_pos c0] at hU
    by_cases cm : fM s.toBits.toNat = 0
    · rw [dif_pos cm] at hU; rw [hU] at h; simp [val] at h; linarith [show (0 : ℚ) < 2^52 by positivity]
    · rw [dif_neg cm] at hU; rw [hU] at h
      have hmq : (fM s.toBits.toNat : ℚ) < 2^52 := by exact_mod_cast hMlt
      have hz : (2 : ℚ)^(-1074 : ℤ) ≤ 1 := zpow_le_one_of_nonpos₀ (by norm_num) (by norm_num)
      have hpos : (0 : ℚ) < 2^(-1074 : ℤ) := two_zpow_pos _
      have hm0 : (0 : ℚ) ≤ fM s.toBits.toNat := by positivity
      have hb : (fM s.toBits.toNat : ℚ) * 2^(-1074 : ℤ) < 2^52 := by nlinarith
      cases hsg : signOf s.toBits.toNat <;> rw [hsg] at h <;> simp only [val, sgn] at h <;> nlinarith
  rw [if_neg c0] at hU
  rw [hU] at h ⊢
  have hW0 : (0 : ℚ) < ((2^52 + fM s.toBits.toNat : ℕ) : ℚ) := by positivity
  have hW1 : ((2^52 + fM s.toBits.toNat : ℕ) : ℚ) < 2^53 := by
    have : 2^52 + fM s.toBits.toNat < 2^53 := by omega
    exact_mod_cast this
  have hpe := two_zpow_pos ((fE s.toBits.toNat : ℤ) - 1075)
  have hsg : signOf s.toBits.toNat = .positive := by
    cases hsg : signOf s.toBits.toNat
    · exfalso; rw [hsg] at h; simp only [val, sgn] at h
      have : (0 : ℚ) < ((2^52 + fM s.toBits.toNat : ℕ) : ℚ) * 2^((fE s.toBits.toNat : ℤ) - 1075) := mul_pos hW0 hpe
      have h52 : (0 : ℚ) < 2^52 := by positivity
      linarith
    · rfl
  rw [hsg] at h ⊢
  simp only [val, sgn, one_mul] at h ⊢
  have hE : 1075 ≤ fE s.toBits.toNat := by
    by_contra hlt; rw [not_le] at hlt
    have h2 : (2 : ℚ)^((fE s.toBits.toNat : ℤ) - 1075) ≤ 2^(-1 : ℤ) := zpow_le_zpow_right₀ (by norm_num) (by omega)
    have : ((2^52 + fM s.toBits.toNat : ℕ) : ℚ) * 2^((fE s.toBits.toNat : ℤ) - 1075) < 2^53 * 2^(-1 : ℤ) :=
      lt_of_le_of_lt (mul_le_mul_of_nonneg_left h2 hW0.le) (mul_lt_mul_of_pos_right hW1 (by positivity))
    have e : (2 : ℚ)^53 * 2^(-1 : ℤ) = 2^52 := by norm_num
    linarith
  refine ⟨hE, c1, ?_⟩
  have : (2 : ℚ)^((fE s.toBits.toNat : ℤ) - 1075) = 2^(fE s.toBits.toNat - 1075) := by
    rw [← zpow_natCast]; congr 1; omega
  rw [this]; push_cast; ring

theorem f64BigToNat_spec {s : Float} (hs : IsFin s) (h : 2^52 ≤ v s) : v s = (f64BigToNat s : ℚ) := by
  obtain ⟨hE, _, hv⟩ := big_fields hs h
  rw [f64BigToNat_eq, if_pos hE]; exact hv

/-- `scaled as uN` on a finite float of value at least `2^52`: the (integer) value, saturated -/
theorem bigCast_spec (w : ℕ) {s : Float} (hs : IsFin s) (h : 2^52 ≤ v s) :
    v s = (f64BigToNat s : ℚ) ∧ bigCast w s = min (f64BigToNat s) (2^w - 1) := by
  obtain ⟨hE, hE1, _⟩ := big_fields hs h
  refine ⟨f64BigToNat_spec hs h, ?_⟩
  unfold bigCast
  rw [hs.not_nan]
  simp only [Bool.false_eq_true, if_false]
  have hne : ¬ (((s.toBits >>> 52) &&& 0x7ff) == 0x7ff) = true := by
    intro hc
    rw [beq_iff_eq] at hc
    have := congrArg UInt64.toNat hc
    rw [b_expField] at this; exact hE1 this
  rw [if_neg hne]
  have hp : 0 < 2^w := Nat.pos_of_ne_zero (by simp)
  by_cases hge : f64BigToNat s ≥ 2^w
  · rw [if_pos hge, Nat.min_eq_right (by omega)]
  · rw [if_neg hge, Nat.min_eq_left (by omega)]

/-! ### the clamped scaled value for a power-of-two maximum -/

theorem scaled64_fin_big {mx x : Float} (hm : IsFin mx) (hmpos : 0 < v mx) (hΩ : v mx < Ω spec) (hx : IsFin x) :
    IsFin (scaled64 mx x) ∧ v (scaled64 mx x) = clampQ (v mx) (R64 (v x * v mx)) := by
  unfold scaled64 clampQ
  rcases mul_cases hx hm with ⟨_, hf, hv⟩ | ⟨hr, hu⟩ | ⟨hr, hu⟩
  · obtain ⟨f1, v1⟩ := min64_fin hf hm
    obtain ⟨f2, v2⟩ := max64_fin f1 fin_zero64
    exact ⟨f2, by rw [v2, v1, hv, v_zero64]⟩
  · rw [min64_posInf hu hm]
    obtain ⟨f2, v2⟩ := max64_fin hm fin_zero64
    refine ⟨f2, ?_⟩
    rw [v2, v_zero64, min_eq_right (by linarith)]
  · rw [min64_negInf hu hm, max64_negInf hu fin_zero64]
    refine ⟨fin_zero64, ?_⟩
    have := Ω_pos spec
    rw [v_zero64, max_eq_right]
    exact le_trans (min_le_left _ _) (by linarith)

/-- the result as a function of the clamped exact value `c` -/
def bigRes (w : ℕ) (c : ℚ) : ℕ := min (rne c).toNat (2^w - 1)

theorem bigRes_mono (w : ℕ) {c d : ℚ} (h : c ≤ d) : bigRes w c ≤ bigRes w d := by
  unfold bigRes
  have := rne_mono h
  exact min_le_min (Int.toNat_le_toNat this) le_rfl

theorem f64Magic_unfold (mx x : Float) :
    f64Magic mx x = if scaled64 mx x < Float.ofBits C52 then .inl (f64Direct mx x) else .inr (scaled64 mx x) := rfl

/-- **both branches of `f64Magic` followed by the final cast**, in terms of the clamped exact value -/
theorem big_of_scaled {w : ℕ} (hw : 53 ≤ w) {mx x : Float} {c : ℚ}
    (hs : IsFin (scaled64 mx x) ∧ v (scaled64 mx x) = c) (h0 : 0 ≤ c)
    (hres : f64ToUint w x = match f64Magic mx x with
      | .inl u => u.toNat % 2^w
      | .inr s => bigCast w s) : f64ToUint w x = bigRes w c := by
  rw [hres, f64Magic_unfold]
  have hpw : 2^53 ≤ 2^w := Nat.pow_le_pow_right (by norm_num) hw
  by_cases hlt : scaled64 mx x < Float.ofBits C52
  · rw [if_pos hlt]
    have hc : c < 2^52 := by
      have := (lt_iff hs.1 fin_C52).mp hlt; rwa [hs.2, v_C52] at this
    obtain ⟨hb, hle⟩ := toBits_add_magic_lt hs.1 (by rw [hs.2]; exact h0) (by rw [hs.2]; exact hc) U_C52
    rw [hs.2] at hb hle
    have hC : C52.toNat = 0x4330000000000000 := rfl
    have hd : (f64Direct mx x).toNat = (rne c).toNat := by
      rw [f64Direct_eq]; unfold satSub64
      have hnlt : ¬ (scaled64 mx x + Float.ofBits C52).toBits < C52 := by
        rw [UInt64.lt_iff_toNat_lt, hb, hC]; omega
      rw [if_neg hnlt, UInt64.toNat_sub_of_le _ _ (by rw [UInt64.le_iff_toNat_le, hb, hC]; omega), hb, hC]
      omega
    show (f64Direct mx x).toNat % 2^w = _
    unfold bigRes
    rw [hd, Nat.mod_eq_of_lt (by omega), Nat.min_eq_left (by omega)]
  · rw [if_neg hlt]
    have hc : 2^52 ≤ c := by
      have := mt (lt_iff hs.1 fin_C52).mpr hlt; rwa [hs.2, v_C52, not_lt] at this
    obtain ⟨hv, hb⟩ := bigCast_spec w hs.1 (by rw [hs.2]; exact hc)
    show bigCast w (scaled64 mx x) = _
    rw [hb]; unfold bigRes
    rw [hs.2] at hv
    rw [hv, rne_natCast]; rfl

end C06
