/-
  C11 helper lemmas: closed forms of the two computed normal forms on every `Float32` with `|x| ≤ 2^20`
  (every intermediate result stays finite, `k·360` is exact):
    normU32 x = R32 (x − 360·k),  k = ⌊R32 (x / 360)⌋
    normS32 x = R32 (x − 360·k),  k = ⌈R32 (R32 (R32 (x + 180) / 360) − 1)⌉
-/
import PaletteProofs.Lemmas.HueIeee32

namespace C11
open Hue.Bits Float.Model Float.Model.UnpackedFloat Ieee Ieee.F32

theorem fin_c360f : IsFin c360f := rfl
theorem v_c360f : v c360f = 360 := by
  unfold v; rw [show U c360f = .finite .positive 0xb40000 (-15) (by decide) from rfl]; norm_num [val, sgn]
theorem fin_c180f : IsFin c180f := rfl
theorem v_c180f : v c180f = 180 := by
  unfold v; rw [show U c180f = .finite .positive 0xb40000 (-16) (by decide) from rfl]; norm_num [val, sgn]

theorem abs_floor_le {z : ℚ} {n : ℕ} (h : |z| ≤ n) : |⌊z⌋| ≤ n := by
  rw [abs_le] at h ⊢
  constructor
  · rw [Int.le_floor]; push_cast; exact h.1
  · have : ⌊z⌋ ≤ ⌊(n : ℚ)⌋ := Int.floor_mono h.2
    simpa using this

theorem abs_ceil_le {z : ℚ} {n : ℕ} (h : |z| ≤ n) : |⌈z⌉| ≤ n := by
  rw [abs_le] at h ⊢
  constructor
  · have : ⌈(-(n : ℚ))⌉ ≤ ⌈z⌉ := Int.ceil_mono h.1
    have e : ⌈(-(n : ℚ))⌉ = -(n : ℤ) := by
      rw [show (-(n : ℚ)) = ((-(n : ℤ) : ℤ) : ℚ) by push_cast; rfl, Int.ceil_intCast]
    rw [e] at this; exact this
  · rw [Int.ceil_le]; push_cast; exact h.2

/-- the last two steps shared by both normal forms: `x − (kf * 360)` with `kf` an integer-valued float -/
theorem sub_mul360 {x kf : Float32} (hx : IsFin x) (hb : |v x| ≤ 2^20) (hk : IsFin kf) {k : ℤ} (hkv : v kf = k)
    (hkb : |k| ≤ 2915) : IsFin (x - kf * c360f) ∧ v (x - kf * c360f) = R32 (v x - 360 * k) := by
  have hkq : |(k : ℚ)| ≤ 2915 := by exact_mod_cast hkb
  have hprod : |v kf * v c360f| ≤ ((1049400 : ℕ) : ℚ) := by
    rw [hkv, v_c360f, abs_mul]; norm_num; nlinarith [abs_nonneg (k : ℚ)]
  obtain ⟨hfp, hvp⟩ := mul_of_le hk fin_c360f (by norm_num) hprod
  have hexact : v (kf * c360f) = 360 * k := by
    rw [hvp, hkv, v_c360f, show (k : ℚ) * 360 = ((k * 360 : ℤ) : ℚ) by push_cast; rfl, R32_intCast]
    · push_cast; ring
    · rw [abs_mul]; norm_num; omega
  have hdiff : |v x - v (kf * c360f)| ≤ ((2097976 : ℕ) : ℚ) := by
    rw [hexact]
    calc |v x - 360 * k| ≤ |v x| + |360 * (k : ℚ)| := abs_sub _ _
      _ ≤ 2^20 + 360 * 2915 := by rw [abs_mul]; norm_num; nlinarith [abs_nonneg (k : ℚ)]
      _ = ((2097976 : ℕ) : ℚ) := by norm_num
  obtain ⟨hfr, hvr⟩ := sub_of_le hx hfp (by norm_num) hdiff
  exact ⟨hfr, by rw [hvr, hexact]⟩

theorem normU32_closed_form {x : Float32} (hx : IsFin x) (hb : |v x| ≤ 2^20) :
    IsFin (normU32 x) ∧ v (normU32 x) = R32 (v x - 360 * (⌊R32 (v x / 360)⌋ : ℤ)) ∧ |⌊R32 (v x / 360)⌋| ≤ 2913 := by
  have h360 : v c360f ≠ 0 := by rw [v_c360f]; norm_num
  have hq : |v x / v c360f| ≤ ((2913 : ℕ) : ℚ) := by
    rw [v_c360f, abs_div]; norm_num
    rw [div_le_iff₀ (by norm_num)]; linarith
  obtain ⟨hfq, hvq⟩ := div_of_le hx fin_c360f h360 (by norm_num) hq
  rw [v_c360f] at hvq hq
  have hQ : |R32 (v x / 360)| ≤ ((2913 : ℕ) : ℚ) := R32_abs_le_nat (by norm_num) hq
  obtain ⟨hff, hvf⟩ := floor32_spec hfq
  rw [hvq] at hvf
  have hkb : |⌊R32 (v x / 360)⌋| ≤ 2913 := by exact_mod_cast abs_floor_le hQ
  obtain ⟨hfr, hvr⟩ := sub_mul360 hx hb hff hvf (by omega)
  exact ⟨hfr, hvr, hkb⟩

theorem normS32_closed_form {x : Float32} (hx : IsFin x) (hb : |v x| ≤ 2^20) :
    IsFin (normS32 x) ∧
    v (normS32 x) = R32 (v x - 360 * (⌈R32 (R32 (R32 (v x + 180) / 360) - 1)⌉ : ℤ)) ∧
    |⌈R32 (R32 (R32 (v x + 180) / 360) - 1)⌉| ≤ 2915 := by
  have h360 : v c360f ≠ 0 := by rw [v_c360f]; norm_num
  -- x + 180
  have h1 : |v x + v c180f| ≤ ((1048756 : ℕ) : ℚ) := by
    rw [v_c180f]
    calc |v x + 180| ≤ |v x| + |(180 : ℚ)| := abs_add_le _ _
      _ ≤ 2^20 + 180 := by norm_num; linarith
      _ = ((1048756 : ℕ) : ℚ) := by norm_num
  obtain ⟨hf1, hv1⟩ := add_of_le hx fin_c180f (by norm_num) h1
  rw [v_c180f] at hv1 h1
  have hY1 : |R32 (v x + 180)| ≤ ((1048756 : ℕ) : ℚ) := R32_abs_le_nat (by norm_num) h1
  -- / 360
  have h2 : |v (x + c180f) / v c360f| ≤ ((2914 : ℕ) : ℚ) := by
    rw [hv1, v_c360f, abs_div]; norm_num
    rw [div_le_iff₀ (by norm_num)]; norm_num at hY1; linarith
  obtain ⟨hf2, hv2⟩ := div_of_le hf1 fin_c360f h360 (by norm_num) h2
  rw [hv1, v_c360f] at hv2 h2
  have hY2 : |R32 (R32 (v x + 180) / 360)| ≤ ((2914 : ℕ) : ℚ) := R32_abs_le_nat (by norm_num) h2
  -- − 1
  have h3 : |v ((x + c180f) / c360f) - v one32| ≤ ((2915 : ℕ) : ℚ) := by
    rw [hv2, v_one32]
    calc |R32 (R32 (v x + 180) / 360) - 1| ≤ |R32 (R32 (v x + 180) / 360)| + |(1 : ℚ)| := abs_sub _ _
      _ ≤ 2914 + 1 := by norm_num at hY2 ⊢; linarith
      _ = ((2915 : ℕ) : ℚ) := by norm_num
  obtain ⟨hf3, hv3⟩ := sub_of_le hf2 fin_one32 (by norm_num) h3
  rw [hv2, v_one32] at hv3 h3
  have hY3 : |R32 (R32 (R32 (v x + 180) / 360) - 1)| ≤ ((2915 : ℕ) : ℚ) := R32_abs_le_nat (by norm_num) h3
  -- ceil
  obtain ⟨hfc, hvc⟩ := ceil32_spec hf3
  rw [hv3] at hvc
  have hkb : |⌈R32 (R32 (R32 (v x + 180) / 360) - 1)⌉| ≤ 2915 := by exact_mod_cast abs_ceil_le hY3
  obtain ⟨hfr, hvr⟩ := sub_mul360 hx hb hfc hvc hkb
  exact ⟨hfr, hvr, hkb⟩

end C11
