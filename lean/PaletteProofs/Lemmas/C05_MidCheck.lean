/-
  C05 — error bound of the float → u8 LUT encoders against the exact curve **at every real number that rounds to an f32 pattern**
  (not only at the f32 values themselves): the `Nat`-only block checks that the kernel evaluates (Mathlib-free; read at ℝ in
  `Lemmas/C05_MidReal.lean`, used for the `f64 → u8` path in `C05_F64Bound.lean`).

  `FromLinear<f64, u8>` narrows the double to f32 (round to nearest) and then takes the f32 table path.  A real `x` whose nearest f32
  has pattern `b` lies within half a unit in the last place of `b`:
        (2·mant b − 1)·2^expo b / 2^151  ≤  x  ≤  (2·mant b + 1)·2^expo b / 2^151 .
  The encoder is constant on each block of 4096 consecutive patterns (which share `expo`), so the set of reals that round into a block
  `[lo, hi]` is inside `[(2·mant lo − 1)·2^expo lo, (2·mant hi + 1)·2^expo hi] / 2^151`, and the two-sided 0.6 bound on that real interval
  follows, piece by piece, from the lower inequality at its left end and the upper inequality at its right end — the same integer
  power comparisons as in `C05_ErrCheck.lean`, at a point `m·2^s / d` instead of at an f32 value.  The knee of sRGB and Rec. is now the
  *real* threshold `θ = tn/td` of the standard (0.0031308, β), not an f32: a block whose real interval contains `θ` is checked on the
  toe up to `θ` and on the power segment from `θ` on.
-/
import PaletteProofs.Lemmas.C05_ErrCheck

namespace C05M
open Lut C05E

/-- `x^(p/q) < (k1·res + k2u)/k3` at the point `x = m·2^s / d` -/
def upperG (P : Piece) (res m s d : Nat) : Bool :=
  decide (m^P.p * 2^(s * P.p) * P.k3^P.q < (P.k1 * res + P.k2u)^P.q * d^P.p)

/-- `(k1·res + k2lp − k2ln)/k3 < x^(p/q)` at the point `x = m·2^s / d` (true when the left side is negative) -/
def lowerG (P : Piece) (res m s d : Nat) : Bool :=
  decide (P.k1 * res + P.k2lp < P.k2ln) ||
  decide ((P.k1 * res + P.k2lp - P.k2ln)^P.q * d^P.p < m^P.p * 2^(s * P.p) * P.k3^P.q)

/-- common denominator of the half-ulp neighbourhoods: `2^151` -/
def D : Nat := 2^151

/-- left end of the reals that round to the pattern `b`: `(2·mant b − 1)·2^expo b / 2^151` (`0` for `b = 0`) -/
def loM (b : Nat) : Nat := 2 * mant b - 1
/-- right end: `(2·mant b + 1)·2^expo b / 2^151` -/
def hiM (b : Nat) : Nat := 2 * mant b + 1

/-- the reals that round into the block `[lo, hi]` of patterns with code `res`; threshold of the curve `θ = tn/td`
    (`tn = 0` for the pure power laws, where `toe = pow`) -/
def blockMidOK (toe pow : Piece) (tn td res lo hi : Nat) : Bool :=
  if hiM hi * 2^expo hi * td < tn * D then
    lowerG toe res (loM lo) (expo lo) D && upperG toe res (hiM hi) (expo hi) D
  else if tn * D < loM lo * 2^expo lo * td then
    lowerG pow res (loM lo) (expo lo) D && upperG pow res (hiM hi) (expo hi) D
  else
    lowerG toe res (loM lo) (expo lo) D && upperG toe res tn 0 td &&
    lowerG pow res tn 0 td && upperG pow res (hiM hi) (expo hi) D

/-- the blocks `t < n` of one cell (`lo0` = first pattern of the cell) -/
def cellMidOK (toe pow : Piece) (tn td entry lo0 : Nat) : Nat → Bool
  | 0 => true
  | n + 1 => blockMidOK toe pow tn td (cellRes 8 entry n) (lo0 + n * 4096) (lo0 + n * 4096 + 4095) && cellMidOK toe pow tn td entry lo0 n

def tableMidOK (toe pow : Piece) (tn td : Nat) : List Nat → Nat → Bool
  | [], _ => true
  | e :: r, lo0 => cellMidOK toe pow tn td e lo0 256 && tableMidOK toe pow tn td r (lo0 + 2^20)

theorem cellMidOK_get (toe pow : Piece) (tn td entry lo0 : Nat) : ∀ n, cellMidOK toe pow tn td entry lo0 n = true → ∀ t, t < n →
    blockMidOK toe pow tn td (cellRes 8 entry t) (lo0 + t * 4096) (lo0 + t * 4096 + 4095) = true
  | 0, _, t, ht => by omega
  | n + 1, h, t, ht => by
    simp only [cellMidOK, Bool.and_eq_true] at h
    by_cases e : t = n
    · subst e; exact h.1
    · exact cellMidOK_get toe pow tn td entry lo0 n h.2 t (by omega)

theorem tableMidOK_get (toe pow : Piece) (tn td : Nat) : ∀ (l : List Nat) (lo0 : Nat), tableMidOK toe pow tn td l lo0 = true →
    ∀ j, j < l.length → cellMidOK toe pow tn td (l.getD j 0) (lo0 + j * 2^20) 256 = true
  | [], _, _, j, hj => by simp at hj
  | e :: r, lo0, h, j, hj => by
    simp only [tableMidOK, Bool.and_eq_true] at h
    cases j with
    | zero => simpa using h.1
    | succ k =>
      have := tableMidOK_get toe pow tn td r (lo0 + 2^20) h.2 k (by simpa using hj)
      have e2 : lo0 + 2^20 + k * 2^20 = lo0 + (k + 1) * 2^20 := by rw [Nat.add_mul]; omega
      rw [e2] at this
      simpa using this

/-- chunks: the part `[a, a+n)` of the table, checked with the right starting pattern -/
def chunkMidOK (toe pow : Piece) (tn td minBits : Nat) (table : List Nat) (a n : Nat) : Bool :=
  tableMidOK toe pow tn td ((table.drop a).take n) (minBits + a * 2^20)

theorem chunkMidOK_get (toe pow : Piece) (tn td minBits : Nat) (table : List Nat) (a n : Nat)
    (h : chunkMidOK toe pow tn td minBits table a n = true)
    (j : Nat) (h1 : a ≤ j) (h2 : j < a + n) (h3 : j < table.length) :
    cellMidOK toe pow tn td (table.getD j 0) (minBits + j * 2^20) 256 = true := by
  have hlen : j - a < ((table.drop a).take n).length := by
    rw [List.length_take, List.length_drop]; omega
  have := tableMidOK_get toe pow tn td _ _ h (j - a) hlen
  have e1 : ((table.drop a).take n).getD (j - a) 0 = table.getD j 0 := by
    rw [List.getD_eq_getElem?_getD, List.getD_eq_getElem?_getD, List.getElem?_take_of_lt (by omega), List.getElem?_drop]
    congr 2; omega
  have e2 : minBits + a * 2^20 + (j - a) * 2^20 = minBits + j * 2^20 := by
    rw [Nat.add_assoc, ← Nat.add_mul]; congr 2; omega
  rw [e1, e2] at this
  exact this

/-! ## thresholds of the standards, as fractions -/

/-- `θ = tn/td`: sRGB `0.0031308`, Rec. `β = 0.018053968510807`, none for the pure power laws -/
def Enc.tn : Enc → Nat
  | .srgb => 31308 | .recOetf => 18053968510807 | .adobeRgb => 0 | .p3Gamma => 0
def Enc.td : Enc → Nat
  | .srgb => 10000000 | .recOetf => 1000000000000000 | .adobeRgb => 1 | .p3Gamma => 1

/-- the two ends that are not table blocks: every pattern `≤ min_float` (code 0; reals from 0 on) and the pattern of 1.0 (code 255) -/
def endsOK (e : Enc) : Bool :=
  blockMidOK (Enc.toe e) (Enc.pow e) (Enc.tn e) (Enc.td e) 0 0 e.minFloat &&
  blockMidOK (Enc.toe e) (Enc.pow e) (Enc.tn e) (Enc.td e) 255 0x3f800000 0x3f800000

end C05M
