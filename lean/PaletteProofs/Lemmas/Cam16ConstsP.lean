/-
  Values of the extracted CAM16 constants at `PReal` (poisoned reals), one `rfl` lemma each — the companions of
  `Lemmas/Cam16Consts.lean`: `T::from_f64(c)` reads as `ok c`, never poison.  Used by `C16_Cam16Defined.lean`.
-/
import PaletteProofs.PReal
import PaletteModel.Color.Cam16

namespace C16.KP

theorem xyzToCam16_0 : (Scalar.const Gen.Cam16.xyzToCam16_0 : PReal) = PReal.ok ((100.0 : ℝ)) := rfl
theorem xyzToCam16_1 : (Scalar.const Gen.Cam16.xyzToCam16_1 : PReal) = PReal.ok (-(12.0 : ℝ)) := rfl
theorem xyzToCam16_2 : (Scalar.const Gen.Cam16.xyzToCam16_2 : PReal) = PReal.ok ((11.0 : ℝ)) := rfl
theorem xyzToCam16_3 : (Scalar.const Gen.Cam16.xyzToCam16_3 : PReal) = PReal.ok ((2.0 : ℝ)) := rfl
theorem xyzToCam16_4 : (Scalar.const Gen.Cam16.xyzToCam16_4 : PReal) = PReal.ok ((9.0 : ℝ)) := rfl
theorem xyzToCam16_5 : (Scalar.const Gen.Cam16.xyzToCam16_5 : PReal) = PReal.ok ((0.25 : ℝ)) := rfl
theorem xyzToCam16_6 : (Scalar.const Gen.Cam16.xyzToCam16_6 : PReal) = PReal.ok ((2.0 : ℝ)) := rfl
theorem xyzToCam16_7 : (Scalar.const Gen.Cam16.xyzToCam16_7 : PReal) = PReal.ok ((3.8 : ℝ)) := rfl
theorem xyzToCam16_8 : (Scalar.const Gen.Cam16.xyzToCam16_8 : PReal) = PReal.ok ((2.0 : ℝ)) := rfl
theorem xyzToCam16_9 : (Scalar.const Gen.Cam16.xyzToCam16_9 : PReal) = PReal.ok ((0.05 : ℝ)) := rfl
theorem xyzToCam16_10 : (Scalar.const Gen.Cam16.xyzToCam16_10 : PReal) = PReal.ok ((0.5 : ℝ)) := rfl
theorem xyzToCam16_11 : (Scalar.const Gen.Cam16.xyzToCam16_11 : PReal) = PReal.ok ((5e4 : ℝ)) := rfl
theorem xyzToCam16_12 : (Scalar.const Gen.Cam16.xyzToCam16_12 : PReal) = PReal.ok ((13.0 : ℝ)) := rfl
theorem xyzToCam16_13 : (Scalar.const Gen.Cam16.xyzToCam16_13 : PReal) = PReal.ok ((1.05 : ℝ)) := rfl
theorem xyzToCam16_14 : (Scalar.const Gen.Cam16.xyzToCam16_14 : PReal) = PReal.ok ((0.305 : ℝ)) := rfl
theorem xyzToCam16_15 : (Scalar.const Gen.Cam16.xyzToCam16_15 : PReal) = PReal.ok ((0.9 : ℝ)) := rfl
theorem xyzToCam16_16 : (Scalar.const Gen.Cam16.xyzToCam16_16 : PReal) = PReal.ok ((1.64 : ℝ)) := rfl
theorem xyzToCam16_17 : (Scalar.const Gen.Cam16.xyzToCam16_17 : PReal) = PReal.ok ((0.29 : ℝ)) := rfl
theorem xyzToCam16_18 : (Scalar.const Gen.Cam16.xyzToCam16_18 : PReal) = PReal.ok ((0.73 : ℝ)) := rfl
theorem calcLightness_0 : (Scalar.const Gen.Cam16.calcLightness_0 : PReal) = PReal.ok ((100.0 : ℝ)) := rfl
theorem calcBrightness_0 : (Scalar.const Gen.Cam16.calcBrightness_0 : PReal) = PReal.ok ((4.0 : ℝ)) := rfl
theorem calcBrightness_1 : (Scalar.const Gen.Cam16.calcBrightness_1 : PReal) = PReal.ok ((4.0 : ℝ)) := rfl
theorem calcSaturation_0 : (Scalar.const Gen.Cam16.calcSaturation_0 : PReal) = PReal.ok ((50.0 : ℝ)) := rfl
theorem calcSaturation_1 : (Scalar.const Gen.Cam16.calcSaturation_1 : PReal) = PReal.ok ((4.0 : ℝ)) := rfl
theorem prepare_0 : (Scalar.const Gen.Cam16.prepare_0 : PReal) = PReal.ok ((100.0 : ℝ)) := rfl
theorem prepare_1 : (Scalar.const Gen.Cam16.prepare_1 : PReal) = PReal.ok ((100.0 : ℝ)) := rfl
theorem prepare_2 : (Scalar.const Gen.Cam16.prepare_2 : PReal) = PReal.ok ((0.1 : ℝ)) := rfl
theorem prepare_3 : (Scalar.const Gen.Cam16.prepare_3 : PReal) = PReal.ok ((0.59 : ℝ)) := rfl
theorem prepare_4 : (Scalar.const Gen.Cam16.prepare_4 : PReal) = PReal.ok ((0.69 : ℝ)) := rfl
theorem prepare_5 : (Scalar.const Gen.Cam16.prepare_5 : PReal) = PReal.ok ((0.525 : ℝ)) := rfl
theorem prepare_6 : (Scalar.const Gen.Cam16.prepare_6 : PReal) = PReal.ok ((0.59 : ℝ)) := rfl
theorem prepare_7 : (Scalar.const Gen.Cam16.prepare_7 : PReal) = PReal.ok ((0.59 : ℝ)) := rfl
theorem prepare_8 : (Scalar.const Gen.Cam16.prepare_8 : PReal) = PReal.ok ((0.9 : ℝ)) := rfl
theorem prepare_9 : (Scalar.const Gen.Cam16.prepare_9 : PReal) = PReal.ok ((0.59 : ℝ)) := rfl
theorem prepare_10 : (Scalar.const Gen.Cam16.prepare_10 : PReal) = PReal.ok ((0.1 : ℝ)) := rfl
theorem prepare_11 : (Scalar.const Gen.Cam16.prepare_11 : PReal) = PReal.ok ((0.8 : ℝ)) := rfl
theorem prepare_12 : (Scalar.const Gen.Cam16.prepare_12 : PReal) = PReal.ok ((0.9 : ℝ)) := rfl
theorem prepare_13 : (Scalar.const Gen.Cam16.prepare_13 : PReal) = PReal.ok ((0.525 : ℝ)) := rfl
theorem prepare_14 : (Scalar.const Gen.Cam16.prepare_14 : PReal) = PReal.ok ((0.065 : ℝ)) := rfl
theorem prepare_15 : (Scalar.const Gen.Cam16.prepare_15 : PReal) = PReal.ok ((5.0 : ℝ)) := rfl
theorem prepare_16 : (Scalar.const Gen.Cam16.prepare_16 : PReal) = PReal.ok ((3.0 : ℝ)) := rfl
theorem prepare_17 : (Scalar.const Gen.Cam16.prepare_17 : PReal) = PReal.ok ((0.1 : ℝ)) := rfl
theorem prepare_18 : (Scalar.const Gen.Cam16.prepare_18 : PReal) = PReal.ok ((5.0 : ℝ)) := rfl
theorem prepare_19 : (Scalar.const Gen.Cam16.prepare_19 : PReal) = PReal.ok ((0.25 : ℝ)) := rfl
theorem prepare_20 : (Scalar.const Gen.Cam16.prepare_20 : PReal) = PReal.ok ((1.48 : ℝ)) := rfl
theorem prepare_21 : (Scalar.const Gen.Cam16.prepare_21 : PReal) = PReal.ok ((0.725 : ℝ)) := rfl
theorem prepare_22 : (Scalar.const Gen.Cam16.prepare_22 : PReal) = PReal.ok (-(0.2 : ℝ)) := rfl
theorem prepare_23 : (Scalar.const Gen.Cam16.prepare_23 : PReal) = PReal.ok ((3.6 : ℝ)) := rfl
theorem prepare_24 : (Scalar.const Gen.Cam16.prepare_24 : PReal) = PReal.ok ((42.0 : ℝ)) := rfl
theorem prepare_25 : (Scalar.const Gen.Cam16.prepare_25 : PReal) = PReal.ok ((92.0 : ℝ)) := rfl
theorem prepare_26 : (Scalar.const Gen.Cam16.prepare_26 : PReal) = PReal.ok ((0.42 : ℝ)) := rfl
theorem prepare_27 : (Scalar.const Gen.Cam16.prepare_27 : PReal) = PReal.ok ((100.0 : ℝ)) := rfl
theorem prepare_28 : (Scalar.const Gen.Cam16.prepare_28 : PReal) = PReal.ok ((27.13 : ℝ)) := rfl
theorem prepare_29 : (Scalar.const Gen.Cam16.prepare_29 : PReal) = PReal.ok ((2.0 : ℝ)) := rfl
theorem prepare_30 : (Scalar.const Gen.Cam16.prepare_30 : PReal) = PReal.ok ((0.05 : ℝ)) := rfl
theorem adapt_0 : (Scalar.const Gen.Cam16.adapt_0 : PReal) = PReal.ok ((0.01 : ℝ)) := rfl
theorem adapt_1 : (Scalar.const Gen.Cam16.adapt_1 : PReal) = PReal.ok ((0.42 : ℝ)) := rfl
theorem adapt_2 : (Scalar.const Gen.Cam16.adapt_2 : PReal) = PReal.ok ((400.0 : ℝ)) := rfl
theorem adapt_3 : (Scalar.const Gen.Cam16.adapt_3 : PReal) = PReal.ok ((27.13 : ℝ)) := rfl
theorem surround_0 : (Scalar.const Gen.Cam16.surround_0 : PReal) = PReal.ok ((0.0 : ℝ)) := rfl
theorem surround_1 : (Scalar.const Gen.Cam16.surround_1 : PReal) = PReal.ok ((10.0 : ℝ)) := rfl
theorem surround_2 : (Scalar.const Gen.Cam16.surround_2 : PReal) = PReal.ok ((20.0 : ℝ)) := rfl
theorem surround_3 : (Scalar.const Gen.Cam16.surround_3 : PReal) = PReal.ok ((0.0 : ℝ)) := rfl
theorem surround_4 : (Scalar.const Gen.Cam16.surround_4 : PReal) = PReal.ok ((20.0 : ℝ)) := rfl

end C16.KP
