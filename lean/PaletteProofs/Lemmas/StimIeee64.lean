/-
  C06 helper lemmas: the magic branch of `Stim.f64Magic` (`convert_double_to_uint!`, f64 → u8/u16/u32) on exact values,
  from the IEEE reasoning layer (`PaletteProofs/Ieee`).  For every `Float` `x`:
    finite:  result = rne (max (min (R64 (x·MAX)) MAX) 0)      NaN, +∞:  rne MAX      −∞:  0
-/
import PaletteProofs.Ieee.F64
import PaletteProofs.Lemmas.StimIeee32

namespace C06
open Stim Float.Model Float.Model.UnpackedFloat Ieee Ieee.F64

def zero64 : Float := Float.ofBits 0

theorem U_zero64 : U zero64 = .zero .positive := rfl
theorem fin_zero64 : IsFin zero64 := rfl
theorem v_zero64 : v zero64 = 0 := rfl
theorem U_C52 : U (Float.ofBits C52) = magicC spec := rfl

theorem min64_fin {a b : Float} (ha : IsFin a) (hb : IsFin b) :
    IsFin (min64 a b) ∧ v (min64 a b) = min (v a) (v b) := by
  unfold min64
  rw [ha.not_nan, hb.not_nan]
  simp only [Bool.false_eq_true, if_false]
  by_cases h : b < a
  · rw [if_pos h]; exact ⟨hb, by rw [min_eq_right ((lt_iff hb ha).mp h).le]⟩
  · rw [if_neg h]; exact ⟨ha, by rw [min_eq_left (not_lt.mp (mt (lt_iff hb ha).mpr h))]⟩

theorem max64_fin {a b : Float} (ha : IsFin a) (hb : IsFin b) :
    IsFin (max64 a b) ∧ v (max64 a b) = max (v a) (v b) := by
  unfold max64
  rw [ha.not_nan, hb.not_nan]
  simp only [Bool.false_eq_true, if_false]
  by_cases h : a < b
  · rw [if_pos h]; exact ⟨hb, by rw [max_eq_right ((lt_iff ha hb).mp h).le]⟩
  · rw [if_neg h]; exact ⟨ha, by rw [max_eq_left (not_lt.mp (mt (lt_iff ha hb).mpr h))]⟩

theorem min64_nan {a b : Float} (ha : U a = .notANumber) : min64 a b = b := by
  unfold min64; rw [nan_of_U ha]; simp

theorem min64_posInf {a b : Float} (ha : U a = .infinity .positive) (hb : IsFin b) : min64 a b = b := by
  unfold min64; rw [not_nan_of_inf ha, hb.not_nan]
  simp only [Bool.false_eq_true, if_false]
  rw [if_pos (lt_posInf hb ha)]

theorem min64_negInf {a b : Float} (ha : U a = .infinity .negative) (hb : IsFin b) : min64 a b = a := by
  unfold min64; rw [not_nan_of_inf ha, hb.not_nan]
  simp only [Bool.false_eq_true, if_false]
  rw [if_neg (not_lt_negInf hb ha)]

theorem max64_negInf {a b : Float} (ha : U a = .infinity .negative) (hb : IsFin b) : max64 a b = b := by
  unfold max64; rw [not_nan_of_inf ha, hb.not_nan]
  simp only [Bool.false_eq_true, if_false]
  rw [if_pos (negInf_lt hb ha)]

/-- the clamped, scaled value before the magic addition -/
def scaled64 (mx x : Float) : Float := max64 (min64 (x * mx) mx) zero64

/-- the `.inl` payload of `Stim.f64Magic` -/
def f64Direct (mx x : Float) : UInt64 := satSub64 (scaled64 mx x + Float.ofBits C52).toBits C52

theorem f64Direct_eq (mx x : Float) :
    f64Direct mx x = satSub64 (scaled64 mx x + Float.ofBits C52).toBits C52 := rfl

theorem fin_C52 : IsFin (Float.ofBits C52) := rfl
theorem v_C52 : v (Float.ofBits C52) = 2^52 := by
  unfold v; rw [U_C52]; rw [val_magicC]; rfl

/-- below `2^52` the magic branch of `f64Magic` is taken -/
theorem f64Magic_eq {mx x : Float} (hs : IsFin (scaled64 mx x)) (hlt : v (scaled64 mx x) < 2^52) :
    f64Magic mx x = .inl (f64Direct mx x) := by
  have h : scaled64 mx x < Float.ofBits C52 := (lt_iff hs fin_C52).mpr (by rw [v_C52]; exact hlt)
  show (if scaled64 mx x < Float.ofBits C52 then _ else _) = _
  rw [if_pos h]; rfl

theorem Ω64 : Ω spec = 2^1024 := by norm_num [Ω]

theorem scaled64_fin {mx x : Float} (hm : IsFin mx) (hmpos : 0 < v mx) (hmle : v mx ≤ 2^52 - 1) (hx : IsFin x) :
    IsFin (scaled64 mx x) ∧ v (scaled64 mx x) = clampQ (v mx) (R64 (v x * v mx)) := by
  have hΩ : v mx < Ω spec := by
    rw [Ω64]
    have h1 : (2 : ℚ)^52 ≤ 2^1024 := pow_le_pow_right₀ (by norm_num) (by norm_num)
    calc v mx ≤ 2^52 - 1 := hmle
      _ < 2^52 := by norm_num
      _ ≤ 2^1024 := h1
  unfold scaled64 clampQ
  rcases mul_cases hx hm with ⟨_, hf, hv⟩ | ⟨hr, hu⟩ | ⟨hr, hu⟩
  · obtain ⟨f1, v1⟩ := min64_fin hf hm
    obtain ⟨f2, v2⟩ := max64_fin f1 fin_zero64
    exact ⟨f2, by rw [v2, v1, hv, v_zero64]⟩
  · rw [min64_posInf hu hm]
    obtain ⟨f2, v2⟩ := max64_fin hm fin_zero64
    refine ⟨f2, ?_⟩
    rw [v2, v_zero64, min_eq_right (by linarith)]
  · rw [min64_negInf hu hm, max64_negInf hu fin_zero64]
    refine ⟨fin_zero64, ?_⟩
    have := Ω_pos spec
    rw [v_zero64, max_eq_right]
    exact le_trans (min_le_left _ _) (by linarith)

theorem scaled64_nan {mx x : Float} (hm : IsFin mx) (hmpos : 0 < v mx) (hx : U x = .notANumber) :
    IsFin (scaled64 mx x) ∧ v (scaled64 mx x) = v mx := by
  unfold scaled64
  rw [min64_nan (U_mul_nan hx)]
  obtain ⟨f2, v2⟩ := max64_fin hm fin_zero64
  exact ⟨f2, by rw [v2, v_zero64, max_eq_left hmpos.le]⟩

theorem scaled64_posInf {mx x : Float} (hm : IsFin mx) (hmpos : 0 < v mx) (hx : U x = .infinity .positive) :
    IsFin (scaled64 mx x) ∧ v (scaled64 mx x) = v mx := by
  unfold scaled64
  rw [min64_posInf (U_mul_inf hx hm hmpos) hm]
  obtain ⟨f2, v2⟩ := max64_fin hm fin_zero64
  exact ⟨f2, by rw [v2, v_zero64, max_eq_left hmpos.le]⟩

theorem scaled64_negInf {mx x : Float} (hm : IsFin mx) (hmpos : 0 < v mx) (hx : U x = .infinity .negative) :
    IsFin (scaled64 mx x) ∧ v (scaled64 mx x) = 0 := by
  unfold scaled64
  have hu := U_mul_inf hx hm hmpos
  rw [min64_negInf hu hm, max64_negInf hu fin_zero64]
  exact ⟨fin_zero64, v_zero64⟩

/-- the magic-number step: for a finite `0 ≤ s ≤ 2^52 − 1` the direct arm returns `rne s` -/
theorem magic64 {s : Float} (fs : IsFin s) (h0 : 0 ≤ v s) (h1 : v s ≤ 2^52 - 1) :
    (satSub64 (s + Float.ofBits C52).toBits C52).toNat = (rne (v s)).toNat := by
  obtain ⟨hb, hle⟩ := toBits_add_magic fs h0 h1 U_C52
  have hC : C52.toNat = 0x4330000000000000 := rfl
  unfold satSub64
  have hnlt : ¬ (s + Float.ofBits C52).toBits < C52 := by
    rw [UInt64.lt_iff_toNat_lt, hb, hC]; omega
  rw [if_neg hnlt, UInt64.toNat_sub_of_le _ _ (by rw [UInt64.le_iff_toNat_le, hb, hC]; omega), hb, hC]
  omega

theorem natCast_le_magic64 {N : ℕ} (h : N ≤ 2^52 - 1) : (N : ℚ) ≤ 2^52 - 1 := by
  have h' : N ≤ 4503599627370495 := h
  have : (N : ℚ) ≤ 4503599627370495 := by exact_mod_cast h'
  have e : (2 : ℚ)^52 - 1 = 4503599627370495 := by norm_num
  rw [e]; exact this

section direct
variable {mx x : Float} {N : ℕ} (hm : IsFin mx) (hN : v mx = N) (hNpos : 0 < N) (hNle : N ≤ 2^52 - 1)
include hm hN hNpos hNle

omit hm hN hNpos in
theorem direct64_of_scaled {c : ℚ} (hs : IsFin (scaled64 mx x) ∧ v (scaled64 mx x) = c) (h0 : 0 ≤ c) (h1 : c ≤ N) :
    (f64Direct mx x).toNat = (rne c).toNat := by
  rw [f64Direct_eq, magic64 hs.1 (by rw [hs.2]; exact h0), hs.2]
  rw [hs.2]
  have := natCast_le_magic64 hNle
  linarith

/-- the direct arm on every finite input -/
theorem direct64_fin (hx : IsFin x) :
    (f64Direct mx x).toNat = (rne (clampQ N (R64 (v x * N)))).toNat := by
  have hmpos : 0 < v mx := by rw [hN]; exact_mod_cast hNpos
  have hmle : v mx ≤ 2^52 - 1 := by rw [hN]; exact natCast_le_magic64 hNle
  have hs := scaled64_fin hm hmpos hmle hx
  rw [hN] at hs
  exact direct64_of_scaled hNle hs (clampQ_nonneg _ _) (clampQ_le (by positivity) _)

theorem direct64_nan (hx : U x = .notANumber) : (f64Direct mx x).toNat = N := by
  have hmpos : 0 < v mx := by rw [hN]; exact_mod_cast hNpos
  have hs := scaled64_nan hm hmpos hx
  rw [hN] at hs
  rw [direct64_of_scaled hNle hs (by positivity) le_rfl, rne_natCast]; rfl

theorem direct64_posInf (hx : U x = .infinity .positive) : (f64Direct mx x).toNat = N := by
  have hmpos : 0 < v mx := by rw [hN]; exact_mod_cast hNpos
  have hs := scaled64_posInf hm hmpos hx
  rw [hN] at hs
  rw [direct64_of_scaled hNle hs (by positivity) le_rfl, rne_natCast]; rfl

theorem direct64_negInf (hx : U x = .infinity .negative) : (f64Direct mx x).toNat = 0 := by
  have hmpos : 0 < v mx := by rw [hN]; exact_mod_cast hNpos
  have hs := scaled64_negInf hm hmpos hx
  rw [direct64_of_scaled hNle hs le_rfl (by positivity)]
  rw [show (0 : ℚ) = ((0 : ℕ) : ℚ) by simp, rne_natCast]; rfl

/-- **monotone over every pair of non-NaN bit patterns** -/
theorem direct64_mono {y : Float} (hx : x.isNaN = false) (hy : y.isNaN = false) (h : x ≤ y) :
    (f64Direct mx x).toNat ≤ (f64Direct mx y).toNat := by
  have hNq : (0 : ℚ) ≤ N := by positivity
  rcases cases_of_not_nan hx with hx | hx | hx
  · rw [direct64_negInf hm hN hNpos hNle hx]; exact Nat.zero_le _
  · rcases cases_of_not_nan hy with hy | hy | hy
    · exact absurd h (not_le_negInf hx hy)
    · rw [direct64_fin hm hN hNpos hNle hx, direct64_fin hm hN hNpos hNle hy]
      apply rne_toNat_mono
      apply clampQ_mono
      exact R_mono (one_le_mantissaBits spec) (mul_le_mul_of_nonneg_right ((le_iff hx hy).mp h) hNq)
    · rw [direct64_fin hm hN hNpos hNle hx, direct64_posInf hm hN hNpos hNle hy]
      exact rne_clampQ_le _
  · rcases cases_of_not_nan hy with hy | hy | hy
    · exact absurd h (not_posInf_le_negInf hx hy)
    · exact absurd h (not_posInf_le hy hx)
    · rw [direct64_posInf hm hN hNpos hNle hx, direct64_posInf hm hN hNpos hNle hy]

/-- for every input the clamped value is finite and in `[0, N]`: the magic branch of `f64Magic` is always taken -/
theorem f64Magic_inl (x : Float) : f64Magic mx x = .inl (f64Direct mx x) := by
  have hmpos : 0 < v mx := by rw [hN]; exact_mod_cast hNpos
  have hmle : v mx ≤ 2^52 - 1 := by rw [hN]; exact natCast_le_magic64 hNle
  have hNq : (0 : ℚ) ≤ N := by positivity
  cases hnan : x.isNaN
  · rcases cases_of_not_nan hnan with hx | hx | hx
    · have hs := scaled64_negInf hm hmpos hx
      exact f64Magic_eq hs.1 (by rw [hs.2]; positivity)
    · have hs := scaled64_fin hm hmpos hmle hx
      refine f64Magic_eq hs.1 ?_
      rw [hs.2]
      have := clampQ_le hmpos.le (R64 (v x * v mx))
      linarith
    · have hs := scaled64_posInf hm hmpos hx
      exact f64Magic_eq hs.1 (by rw [hs.2]; linarith)
  · have hs := scaled64_nan hm hmpos (U_nan_of_isNaN hnan)
    exact f64Magic_eq hs.1 (by rw [hs.2]; linarith)

end direct

end C06
