/-
  Enclosures of the cusp computation of `ok_utils.rs` (`LC::max_saturation`, the gamut maximum of `LC::find_cusp`, the denominators of
  `ST::mid`) over pieces of the hue circle, by running the *generic model code* at the interval type `Fx.V`.

  * `halleyFor o a b` / `satFor` / `cuspMaxFor` / `stMidDenS` / `stMidDenT`: the straight-line pieces of the model functions for a FIXED
    coefficient set (offset `o` into `Gen.Ok.maxSaturation`), generic over `Scalar`; proved equal to the model functions (`rfl`-level).
  * the circle is parametrised rationally: `(circC t, circS t) = ((1−t²)/(1+t²), 2t/(1+t²))`, rotated by `r·90°` (`rot r`); `|t| ≤ √2−1`
    covers a quarter turn centred on an axis.
  * `checkT r n₀ n₁ d` evaluates everything on `t ∈ [n₀/d, n₁/d]` and answers `true` only if, for every coefficient set that the branch
    conditions of `max_saturation` can select somewhere in the box: the Halley denominator is positive, `1/8 < saturation < 1`, the
    largest linear-sRGB component of the cusp direction at `L = 1` is in `(1, 20)`, `0.9·S_mid < saturation`, and both `ST::mid` denominators
    are positive.  `checkT_sound` turns `true` into these facts for the real model functions.
-/
import PaletteProofs.Lemmas.IntervalFx
import PaletteModel.Color.Ok

namespace OkCusp
open Ok Scalar Fx

section generic
variable {α : Type} [Scalar α]

/-- the pieces of `LC::max_saturation` with the coefficient set at offset `o` (2: red, 12: green, 20: blue) and one Halley step -/
structure Halley (α : Type) where
  sat0 : α
  f : α
  f1 : α
  den : α

/-- the quadratic initial guess of the coefficient set at offset `o` -/
def approxFor (o : Nat) (a b : α) : α :=
  let c : Nat → α := kAt Gen.Ok.maxSaturation
  c o + c (o + 1) * a + c (o + 2) * b + c (o + 3) * (a * a) + c (o + 4) * a * b
def kL (a b : α) : α := kAt Gen.Ok.maxSaturation 28 * a + kAt Gen.Ok.maxSaturation 29 * b
def kM (a b : α) : α := kAt Gen.Ok.maxSaturation 30 * a - kAt Gen.Ok.maxSaturation 31 * b
def kS (a b : α) : α := kAt Gen.Ok.maxSaturation 32 * a - kAt Gen.Ok.maxSaturation 33 * b

/-- the quantities of one Halley step (the body of `Ok.maxSaturationStep`) -/
def halleyStep (wl wm ws k_l k_m k_s sat : α) : Halley α :=
  let c : Nat → α := kAt Gen.Ok.maxSaturation
  let l_ := 1.0 + sat * k_l
  let m_ := 1.0 + sat * k_m
  let s_ := 1.0 + sat * k_s
  let l := l_ * l_ * l_
  let m := m_ * m_ * m_
  let s := s_ * s_ * s_
  let l_ds := c 34 * k_l * (l_ * l_)
  let m_ds := c 35 * k_m * (m_ * m_)
  let s_ds := c 36 * k_s * (s_ * s_)
  let l_ds2 := c 37 * (k_l * k_l) * l_
  let m_ds2 := c 38 * (k_m * k_m) * m_
  let s_ds2 := c 39 * (k_s * k_s) * s_
  let f := wl * l + wm * m + ws * s
  let f1 := wl * l_ds + wm * m_ds + ws * s_ds
  let f2 := wl * l_ds2 + wm * m_ds2 + ws * s_ds2
  ⟨sat, f, f1, f1 * f1 - c 40 * f * f2⟩

def halleyFor (o : Nat) (a b : α) : Halley α :=
  halleyStep (kAt Gen.Ok.maxSaturation (o + 5)) (kAt Gen.Ok.maxSaturation (o + 6)) (kAt Gen.Ok.maxSaturation (o + 7))
    (kL a b) (kM a b) (kS a b) (approxFor o a b)

/-- the saturation after the Halley step -/
def satOfHalley (h : Halley α) : α := h.sat0 - h.f * h.f1 / h.den
def satFor (o : Nat) (a b : α) : α := satOfHalley (halleyFor o a b)

/-- `max(max(r, g), b)` of the linear sRGB colour of `Oklab(1, sat·a, sat·b)` (`LC::find_cusp`) -/
def cuspMaxOf (sat a b : α) : α :=
  let rgb := oklabToLinSrgb ⟨1.0, sat * a, sat * b⟩
  Scalar.max (Scalar.max rgb.c0 rgb.c1) rgb.c2

/-- the two denominators of `ST::mid` -/
def stMidDenS (a_ b_ : α) : α :=
  let c : Nat → α := kAt Gen.Ok.stMid
  c 1 + c 2 * b_ + a_ * (c 3 + c 4 * b_ + a_ * (c 5 - c 6 * b_ + a_ * (c 7 + c 8 * b_ + c 9 * a_)))
def stMidDenT (a_ b_ : α) : α :=
  let c : Nat → α := kAt Gen.Ok.stMid
  c 11 - c 12 * b_ + a_ * (c 13 + c 14 * b_ + a_ * (c 15 + c 16 * b_ + a_ * (c 17 - c 18 * b_ - c 19 * a_)))

/-- the two branch conditions of `max_saturation` (`> 1` selects) -/
def cond0 (a b : α) : α := kAt Gen.Ok.maxSaturation 0 * a - kAt Gen.Ok.maxSaturation 1 * b
def cond1 (a b : α) : α := kAt Gen.Ok.maxSaturation 10 * a - kAt Gen.Ok.maxSaturation 11 * b

/-- `0.9 · S_mid` (`0.9` is the first constant of `from_normalized`) -/
def midBound (a b : α) : α := kAt Gen.Ok.fromNormalized 0 * (kAt Gen.Ok.stMid 0 + 1.0 / stMidDenS a b)

/-- rational parametrisation of the circle -/
def circC (t : α) : α := (1.0 - t * t) / (1.0 + t * t)
def circS (t : α) : α := (2.0 * t) / (1.0 + t * t)

/-- rotation by `r` quarter turns -/
def rotA (r : Nat) (c s : α) : α := match r with
  | 0 => c | 1 => -s | 2 => -c | _ => s
def rotB (r : Nat) (c s : α) : α := match r with
  | 0 => s | 1 => c | 2 => -s | _ => -c

end generic

/-! ### the model functions are these pieces -/

def offsetOf : Nat → Nat
  | 0 => 2
  | 1 => 12
  | _ => 20

theorem maxSaturation_eq {α : Type} [Scalar α] [Angle α] (a b : α) : maxSaturation a b = satFor (offsetOf (maxSaturationCase a b)) a b := by
  unfold maxSaturation offsetOf
  generalize maxSaturationCase a b = n
  match n with
  | 0 => rfl
  | 1 => rfl
  | n + 2 => rfl

theorem stMid_eq {α : Type} [Scalar α] [Angle α] (a b : α) :
    stMid a b = ⟨kAt Gen.Ok.stMid 0 + 1.0 / stMidDenS a b, kAt Gen.Ok.stMid 10 + 1.0 / stMidDenT a b⟩ := rfl

/-! ### the check, evaluated by the kernel -/

/-- the facts for one coefficient set on the box `A × B` -/
def checkCase (o : Nat) (A B mid : V) : Bool :=
  let h := halleyFor o A B
  h.den.loGt 0 &&
  (let sat := satOfHalley h
   let M := cuspMaxOf sat A B
   sat.loGt 140737488355328 && sat.hiLt one && M.loGt one && M.hiLt 22517998136852480 && mid.ltB sat)

/-- all facts on the box `A × B` (for every coefficient set the branch conditions can select there) -/
def checkBox (A B : V) : Bool :=
  (stMidDenS A B).loGt 0 && (stMidDenT A B).loGt 0 &&
  (let mid := midBound A B
   let c0 := cond0 A B
   let c1 := cond1 A B
   (!(c0.possGt one) || checkCase 2 A B mid) &&
   (!(c0.possLe one && c1.possGt one) || checkCase 12 A B mid) &&
   (!(c0.possLe one && c1.possLe one) || checkCase 20 A B mid))

/-- the box `t ∈ [n₀/d, n₁/d]` of the sector rotated by `r` quarter turns -/
def checkT (r : Nat) (n0 n1 : Int) (d : Nat) : Bool :=
  let T := V.ofRange n0 n1 d
  let C := circC T
  let S := circS T
  checkBox (rotA r C S) (rotB r C S)

/-- boxes `j₀ ≤ j < j₀ + cnt` of the grid `t_j = (−N + j)/D` -/
def scan (r : Nat) (N : Int) (D : Nat) (j0 : Nat) : Nat → Bool
  | 0 => true
  | cnt + 1 => checkT r (-N + (j0 + cnt : Nat)) (-N + (j0 + cnt : Nat) + 1) D && scan r N D j0 cnt


/-! ### soundness: what a `true` answer says about the real model functions -/

theorem mem_kAt (l : List K) (i : Nat) : Mem (kAt l i : ℝ) (kAt l i : V) := mem_const _

/-- structural enclosure proof: descend through `+ − · / −x`, constants and literals -/
macro "mem_tac" : tactic => `(tactic| repeat' (first
  | assumption
  | exact mem_kAt _ _
  | exact mem_lit _ _ _
  | with_reducible apply mem_div
  | with_reducible apply mem_add
  | with_reducible apply mem_sub
  | with_reducible apply mem_mul
  | with_reducible apply mem_neg
  | with_reducible apply mem_max))

section rel
variable {a b : ℝ} {A B : V}

theorem approxFor_mem (o : Nat) (ha : Mem a A) (hb : Mem b B) : Mem (approxFor o a b) (approxFor o A B) := by
  unfold approxFor; simp only []; mem_tac
theorem kL_mem (ha : Mem a A) (hb : Mem b B) : Mem (kL a b) (kL A B) := by unfold kL; mem_tac
theorem kM_mem (ha : Mem a A) (hb : Mem b B) : Mem (kM a b) (kM A B) := by unfold kM; mem_tac
theorem kS_mem (ha : Mem a A) (hb : Mem b B) : Mem (kS a b) (kS A B) := by unfold kS; mem_tac

theorem halleyStep_mem {wl wm ws kl km ks sat : ℝ} {Wl Wm Ws Kl Km Ks Sat : V} (h1 : Mem wl Wl) (h2 : Mem wm Wm) (h3 : Mem ws Ws)
    (h4 : Mem kl Kl) (h5 : Mem km Km) (h6 : Mem ks Ks) (h7 : Mem sat Sat) :
    Mem (halleyStep wl wm ws kl km ks sat).sat0 (halleyStep Wl Wm Ws Kl Km Ks Sat).sat0 ∧
    Mem (halleyStep wl wm ws kl km ks sat).f (halleyStep Wl Wm Ws Kl Km Ks Sat).f ∧
    Mem (halleyStep wl wm ws kl km ks sat).f1 (halleyStep Wl Wm Ws Kl Km Ks Sat).f1 ∧
    Mem (halleyStep wl wm ws kl km ks sat).den (halleyStep Wl Wm Ws Kl Km Ks Sat).den := by
  unfold halleyStep
  simp only []
  refine ⟨h7, ?_, ?_, ?_⟩ <;> mem_tac

theorem halleyFor_mem (o : Nat) (ha : Mem a A) (hb : Mem b B) :
    Mem (halleyFor o a b).sat0 (halleyFor o A B).sat0 ∧ Mem (halleyFor o a b).f (halleyFor o A B).f ∧
    Mem (halleyFor o a b).f1 (halleyFor o A B).f1 ∧ Mem (halleyFor o a b).den (halleyFor o A B).den :=
  halleyStep_mem (mem_kAt _ _) (mem_kAt _ _) (mem_kAt _ _) (kL_mem ha hb) (kM_mem ha hb) (kS_mem ha hb) (approxFor_mem o ha hb)

theorem satOfHalley_mem {h : Halley ℝ} {H : Halley V} (h0 : Mem h.sat0 H.sat0) (h1 : Mem h.f H.f) (h2 : Mem h.f1 H.f1) (h3 : Mem h.den H.den) :
    Mem (satOfHalley h) (satOfHalley H) := by
  unfold satOfHalley; mem_tac

theorem satFor_mem (o : Nat) (ha : Mem a A) (hb : Mem b B) : Mem (satFor o a b) (satFor o A B) := by
  obtain ⟨h0, h1, h2, h3⟩ := halleyFor_mem o ha hb
  exact satOfHalley_mem h0 h1 h2 h3

theorem cuspMaxOf_mem {s : ℝ} {S : V} (hs : Mem s S) (ha : Mem a A) (hb : Mem b B) : Mem (cuspMaxOf s a b) (cuspMaxOf S A B) := by
  unfold cuspMaxOf oklabToLinSrgb
  simp only []
  mem_tac

theorem stMidDenS_mem (ha : Mem a A) (hb : Mem b B) : Mem (stMidDenS a b) (stMidDenS A B) := by
  unfold stMidDenS; simp only []; mem_tac
theorem stMidDenT_mem (ha : Mem a A) (hb : Mem b B) : Mem (stMidDenT a b) (stMidDenT A B) := by
  unfold stMidDenT; simp only []; mem_tac
theorem cond0_mem (ha : Mem a A) (hb : Mem b B) : Mem (cond0 a b) (cond0 A B) := by unfold cond0; mem_tac
theorem cond1_mem (ha : Mem a A) (hb : Mem b B) : Mem (cond1 a b) (cond1 A B) := by unfold cond1; mem_tac
theorem midBound_mem (ha : Mem a A) (hb : Mem b B) : Mem (midBound a b) (midBound A B) := by
  have := stMidDenS_mem ha hb
  unfold midBound; mem_tac

theorem circC_mem {t : ℝ} {T : V} (ht : Mem t T) : Mem (circC t) (circC T) := by unfold circC; mem_tac
theorem circS_mem {t : ℝ} {T : V} (ht : Mem t T) : Mem (circS t) (circS T) := by unfold circS; mem_tac

theorem rotA_mem (r : Nat) {c s : ℝ} {C S : V} (hc : Mem c C) (hs : Mem s S) : Mem (rotA r c s) (rotA r C S) := by
  unfold rotA; split <;> mem_tac
theorem rotB_mem (r : Nat) {c s : ℝ} {C S : V} (hc : Mem c C) (hs : Mem s S) : Mem (rotB r c s) (rotB r C S) := by
  unfold rotB; split <;> mem_tac

end rel

/-- reading a lower bound `q·2⁻⁵⁰ < x` -/
theorem pos_of_loGt {x : ℝ} {X : V} (hx : Mem x X) (h : X.loGt 0 = true) : 0 < x := by
  have := loGt_sound hx h
  have hR := oneR_pos
  simp only [Int.cast_zero] at this
  by_contra hneg
  have := mul_nonpos_of_nonpos_of_nonneg (not_lt.mp hneg) hR.le
  linarith

theorem one_lt_of_loGt {x : ℝ} {X : V} (hx : Mem x X) (h : X.loGt one = true) : 1 < x := by
  have := loGt_sound hx h
  have hR := oneR_pos
  have e : ((one : Int) : ℝ) = oneR := rfl
  rw [e] at this
  by_contra hneg
  have := mul_le_mul_of_nonneg_right (not_lt.mp hneg) hR.le
  linarith

theorem eighth_lt_of_loGt {x : ℝ} {X : V} (hx : Mem x X) (h : X.loGt 140737488355328 = true) : 1 / 8 < x := by
  have := loGt_sound hx h
  have hR := oneR_pos
  have e : ((140737488355328 : Int) : ℝ) = 1 / 8 * oneR := by unfold oneR one; norm_num
  rw [e] at this
  exact lt_of_mul_lt_mul_right this hR.le

theorem lt_one_of_hiLt {x : ℝ} {X : V} (hx : Mem x X) (h : X.hiLt one = true) : x < 1 := by
  have := hiLt_sound hx h
  have hR := oneR_pos
  have e : ((one : Int) : ℝ) = 1 * oneR := by rw [one_mul]; rfl
  rw [e] at this
  exact lt_of_mul_lt_mul_right this hR.le

theorem lt_twenty_of_hiLt {x : ℝ} {X : V} (hx : Mem x X) (h : X.hiLt 22517998136852480 = true) : x < 20 := by
  have := hiLt_sound hx h
  have hR := oneR_pos
  have e : ((22517998136852480 : Int) : ℝ) = 20 * oneR := by unfold oneR one; norm_num
  rw [e] at this
  exact lt_of_mul_lt_mul_right this hR.le

/-- the facts established for one coefficient set -/
structure CaseFacts (o : Nat) (a b : ℝ) : Prop where
  den : 0 < (halleyFor o a b).den
  sat_lo : 1 / 8 < satFor o a b
  sat_hi : satFor o a b < 1
  mx : 1 < cuspMaxOf (satFor o a b) a b
  mx_hi : cuspMaxOf (satFor o a b) a b < 20
  mid : midBound a b < satFor o a b

theorem checkCase_sound (o : Nat) {a b mid : ℝ} {A B Mid : V} (ha : Mem a A) (hb : Mem b B) (hm : Mem mid Mid)
    (h : checkCase o A B Mid = true) :
    0 < (halleyFor o a b).den ∧ 1 / 8 < satFor o a b ∧ satFor o a b < 1 ∧ 1 < cuspMaxOf (satFor o a b) a b ∧
      cuspMaxOf (satFor o a b) a b < 20 ∧ mid < satFor o a b := by
  unfold checkCase at h
  simp only [Bool.and_eq_true] at h
  obtain ⟨hden, ⟨⟨⟨⟨hlo, hhi⟩, hmx⟩, hmx2⟩, hmid⟩⟩ := h
  obtain ⟨h0, h1, h2, h3⟩ := halleyFor_mem o ha hb
  have hs : Mem (satFor o a b) (satOfHalley (halleyFor o A B)) := satOfHalley_mem h0 h1 h2 h3
  exact ⟨pos_of_loGt h3 hden, eighth_lt_of_loGt hs hlo, lt_one_of_hiLt hs hhi, one_lt_of_loGt (cuspMaxOf_mem hs ha hb) hmx,
    lt_twenty_of_hiLt (cuspMaxOf_mem hs ha hb) hmx2, ltB_sound hm hs hmid⟩

/-- the facts established on a box, about the model functions themselves -/
structure Facts (a b : ℝ) : Prop where
  sden : 0 < stMidDenS a b
  tden : 0 < stMidDenT a b
  cs : CaseFacts (offsetOf (maxSaturationCase a b)) a b

theorem maxSaturationCase_real (a b : ℝ) :
    maxSaturationCase a b = if 1.0 < cond0 a b then 0 else if 1.0 < cond1 a b then 1 else 2 := rfl

theorem le_one_of_possGt_false {x : ℝ} {X : V} (hx : Mem x X) (h : X.possGt one = false) : x ≤ 1 := by
  have := possGt_false hx h
  have hR := oneR_pos
  have e : ((one : Int) : ℝ) = 1 * oneR := by rw [one_mul]; rfl
  rw [e] at this
  exact le_of_mul_le_mul_right this hR

theorem one_lt_of_possLe_false {x : ℝ} {X : V} (hx : Mem x X) (h : X.possLe one = false) : 1 < x := by
  have := possLe_false hx h
  have hR := oneR_pos
  have e : ((one : Int) : ℝ) = 1 * oneR := by rw [one_mul]; rfl
  rw [e] at this
  exact lt_of_mul_lt_mul_right this hR.le

theorem checkBox_sound {a b : ℝ} {A B : V} (ha : Mem a A) (hb : Mem b B) (h : checkBox A B = true) : Facts a b := by
  unfold checkBox at h
  simp only [Bool.and_eq_true, Bool.or_eq_true, Bool.not_eq_true'] at h
  obtain ⟨⟨hds, hdt⟩, ⟨⟨h0, h1⟩, h2⟩⟩ := h
  have hc0 := cond0_mem ha hb
  have hc1 := cond1_mem ha hb
  have hmid := midBound_mem ha hb
  have h10 : (1.0 : ℝ) = 1 := by norm_num
  refine ⟨pos_of_loGt (stMidDenS_mem ha hb) hds, pos_of_loGt (stMidDenT_mem ha hb) hdt, ?_⟩
  rw [maxSaturationCase_real, h10]
  by_cases g0 : 1 < cond0 a b
  · rw [if_pos g0]
    rcases h0 with h0 | h0
    · exact absurd (le_one_of_possGt_false hc0 h0) (not_le.mpr g0)
    · obtain ⟨p1, p2, p3, p4, p5, p6⟩ := checkCase_sound 2 ha hb hmid h0
      exact ⟨p1, p2, p3, p4, p5, p6⟩
  · rw [if_neg g0]
    have q0 : (cond0 A B).possLe one = true := by
      by_contra hq
      exact g0 (one_lt_of_possLe_false hc0 (by simpa using hq))
    by_cases g1 : 1 < cond1 a b
    · rw [if_pos g1]
      rcases h1 with h1 | h1
      · rw [q0, Bool.true_and] at h1
        exact absurd (le_one_of_possGt_false hc1 h1) (not_le.mpr g1)
      · obtain ⟨p1, p2, p3, p4, p5, p6⟩ := checkCase_sound 12 ha hb hmid h1
        exact ⟨p1, p2, p3, p4, p5, p6⟩
    · rw [if_neg g1]
      have q1 : (cond1 A B).possLe one = true := by
        by_contra hq
        exact g1 (one_lt_of_possLe_false hc1 (by simpa using hq))
      rcases h2 with h2 | h2
      · rw [q0, q1] at h2; exact absurd h2 (by simp)
      · obtain ⟨p1, p2, p3, p4, p5, p6⟩ := checkCase_sound 20 ha hb hmid h2
        exact ⟨p1, p2, p3, p4, p5, p6⟩

theorem checkT_sound (r : Nat) (n0 n1 : Int) (d : Nat) (hd : 0 < d) (h : checkT r n0 n1 d = true) (t : ℝ)
    (h0 : (n0 : ℝ) / d ≤ t) (h1 : t ≤ (n1 : ℝ) / d) :
    Facts (rotA r (circC t) (circS t)) (rotB r (circC t) (circS t)) := by
  have ht : Mem t (V.ofRange n0 n1 d) := mem_ofRange hd h0 h1
  exact checkBox_sound (rotA_mem r (circC_mem ht) (circS_mem ht)) (rotB_mem r (circC_mem ht) (circS_mem ht)) h

/-- a scan that answers `true` establishes the facts on the half-open parameter range it covers -/
theorem scan_sound (r : Nat) (N : Int) (D : Nat) (hD : 0 < D) (j0 : Nat) : ∀ cnt, scan r N D j0 cnt = true → ∀ t : ℝ,
    ((-N + (j0 : Int) : Int) : ℝ) / D ≤ t → t < ((-N + ((j0 + cnt : Nat) : Int) : Int) : ℝ) / D →
    Facts (rotA r (circC t) (circS t)) (rotB r (circC t) (circS t))
  | 0, _, t, h0, h1 => by
    exfalso
    simp only [Nat.add_zero] at h1
    exact absurd (lt_of_le_of_lt h0 h1) (lt_irrefl _)
  | cnt + 1, h, t, h0, h1 => by
    unfold scan at h
    simp only [Bool.and_eq_true] at h
    by_cases hlt : t < ((-N + ((j0 + cnt : Nat) : Int) : Int) : ℝ) / D
    · exact scan_sound r N D hD j0 cnt h.2 t h0 hlt
    · have h1' : t ≤ ((-N + ((j0 + cnt : Nat) : Int) + 1 : Int) : ℝ) / D := by
        have e : ((-N + ((j0 + (cnt + 1) : Nat) : Int) : Int) : ℝ) = ((-N + ((j0 + cnt : Nat) : Int) + 1 : Int) : ℝ) := by
          push_cast; ring
        rw [e] at h1
        exact h1.le
      exact checkT_sound r _ _ D hD h.1 t (not_lt.mp hlt) h1'

end OkCusp
