/-
  C07 helper: **"the poisoned reading is defined and equals the real reading"** as a relation, `PReal.Rel x X :⟺ X = ok x`, preserved by
  every operation of `Scalar PReal` / `Angle PReal` under exactly the side conditions C07 is about (`y ≠ 0` for `x / y`, `0 ≤ x` for
  `sqrt x`).  A branch-free generic model function is then shown defined by descending through its expression (`rel_tac`): what
  remains are the side conditions of its divisions and square roots, stated about the REAL sub-expressions.
-/
import PaletteProofs.PReal

namespace PReal

/-- `X` is not poison and is the real number `x` -/
def Rel (x : ℝ) (X : PReal) : Prop := X = ok x

theorem rel_ok (x : ℝ) : Rel x (ok x) := rfl

section ops
variable {x y : ℝ} {X Y : PReal}

theorem rel_add (hx : Rel x X) (hy : Rel y Y) : Rel (x + y) (X + Y) := by unfold Rel at *; rw [hx, hy]; rfl
theorem rel_sub (hx : Rel x X) (hy : Rel y Y) : Rel (x - y) (X - Y) := by unfold Rel at *; rw [hx, hy]; rfl
theorem rel_mul (hx : Rel x X) (hy : Rel y Y) : Rel (x * y) (X * Y) := by unfold Rel at *; rw [hx, hy]; rfl
theorem rel_neg (hx : Rel x X) : Rel (-x) (-X) := by unfold Rel at *; rw [hx]; rfl
/-- a division is defined when its divisor is not zero -/
theorem rel_div (hx : Rel x X) (hy : Rel y Y) (h : y ≠ 0) : Rel (x / y) (X / Y) := by
  unfold Rel at *; rw [hx, hy]; exact div_some_of_ne x y h
/-- a square root is defined when its argument is not negative -/
theorem rel_sqrt (hx : Rel x X) (h : 0 ≤ x) : Rel (Scalar.sqrt x) (Scalar.sqrt X) := by
  unfold Rel at *; rw [hx]; exact sqrt_some_of_nonneg x h
theorem rel_cbrt (hx : Rel x X) : Rel (Scalar.cbrt x) (Scalar.cbrt X) := by unfold Rel at *; rw [hx]; rfl
theorem rel_max (hx : Rel x X) (hy : Rel y Y) : Rel (Scalar.max x y) (Scalar.max X Y) := by unfold Rel at *; rw [hx, hy]; rfl
theorem rel_min (hx : Rel x X) (hy : Rel y Y) : Rel (Scalar.min x y) (Scalar.min X Y) := by unfold Rel at *; rw [hx, hy]; rfl
theorem rel_cos (hx : Rel x X) : Rel (Scalar.cos x) (Scalar.cos X) := by unfold Rel at *; rw [hx]; rfl
theorem rel_sin (hx : Rel x X) : Rel (Scalar.sin x) (Scalar.sin X) := by unfold Rel at *; rw [hx]; rfl
theorem rel_atan2 (hx : Rel x X) (hy : Rel y Y) : Rel (Scalar.atan2 x y) (Scalar.atan2 X Y) := by unfold Rel at *; rw [hx, hy]; rfl
theorem rel_degToRad (hx : Rel x X) : Rel (Angle.degToRad x) (Angle.degToRad X) := by unfold Rel at *; rw [hx]; rfl
theorem rel_radToDeg (hx : Rel x X) : Rel (Angle.radToDeg x) (Angle.radToDeg X) := by unfold Rel at *; rw [hx]; rfl
theorem rel_hypot (hx : Rel x X) (hy : Rel y Y) : Rel (Angle.hypot x y) (Angle.hypot X Y) := by unfold Rel at *; rw [hx, hy]; rfl
theorem rel_pi : Rel (Angle.pi : ℝ) (Angle.pi : PReal) := rfl
theorem rel_lit (m : Nat) (s : Bool) (e : Nat) : Rel (OfScientific.ofScientific m s e : ℝ) (OfScientific.ofScientific m s e : PReal) := rfl

end ops

/-- constant expressions without a division -/
def divFree : K → Bool
  | .lit _ _ _ => true
  | .add a b => divFree a && divFree b
  | .sub a b => divFree a && divFree b
  | .mul a b => divFree a && divFree b
  | .div _ _ => false
  | .neg a => divFree a

theorem rel_eval (k : K) (h : divFree k = true) : Rel (K.eval k : ℝ) (K.eval k : PReal) := by
  induction k with
  | lit m s e => exact rel_lit m s e
  | add a b iha ihb => simp only [divFree, Bool.and_eq_true] at h; exact rel_add (iha h.1) (ihb h.2)
  | sub a b iha ihb => simp only [divFree, Bool.and_eq_true] at h; exact rel_sub (iha h.1) (ihb h.2)
  | mul a b iha ihb => simp only [divFree, Bool.and_eq_true] at h; exact rel_mul (iha h.1) (ihb h.2)
  | div a b _ _ => simp [divFree] at h
  | neg a iha => simp only [divFree] at h; exact rel_neg (iha h)

theorem rel_const (k : K) (h : divFree k = true) : Rel (Scalar.const k : ℝ) (Scalar.const k : PReal) := rel_eval k h

/-- comparisons of defined values are the real comparisons -/
theorem rel_lt {x y : ℝ} {X Y : PReal} (hx : Rel x X) (hy : Rel y Y) : X < Y ↔ x < y := by unfold Rel at *; rw [hx, hy]; exact Iff.rfl
theorem rel_le {x y : ℝ} {X Y : PReal} (hx : Rel x X) (hy : Rel y Y) : X ≤ Y ↔ x ≤ y := by unfold Rel at *; rw [hx, hy]; exact Iff.rfl
theorem rel_eqv {x y : ℝ} {X Y : PReal} (hx : Rel x X) (hy : Rel y Y) : Scalar.eqv X Y ↔ x = y := by
  unfold Rel at *; rw [hx, hy]; exact eqv_some x y
theorem rel_valid {x : ℝ} {X : PReal} (hx : Rel x X) : Scalar.isValidDivisor X = decide (x ≠ 0) := by unfold Rel at *; rw [hx]; rfl

end PReal

/-- a colour all of whose components are defined is the lift of the real colour -/
theorem V3.eq_lift {X : V3 PReal} {x : V3 ℝ} (h0 : PReal.Rel x.c0 X.c0) (h1 : PReal.Rel x.c1 X.c1) (h2 : PReal.Rel x.c2 X.c2) : X = x.lift := by
  cases X; cases x
  unfold PReal.Rel at *
  simp only at h0 h1 h2
  subst h0 h1 h2
  rfl

/-- structural definedness proof: descend through the operations; divisions leave `divisor ≠ 0`, square roots `0 ≤ radicand` -/
macro "rel_tac" : tactic => `(tactic| repeat' (first
  | assumption
  | exact PReal.rel_ok _
  | exact PReal.rel_lit _ _ _
  | exact PReal.rel_pi
  | with_reducible apply PReal.rel_div
  | with_reducible apply PReal.rel_add
  | with_reducible apply PReal.rel_sub
  | with_reducible apply PReal.rel_mul
  | with_reducible apply PReal.rel_neg
  | with_reducible apply PReal.rel_sqrt
  | with_reducible apply PReal.rel_cbrt
  | with_reducible apply PReal.rel_max
  | with_reducible apply PReal.rel_min
  | with_reducible apply PReal.rel_cos
  | with_reducible apply PReal.rel_sin
  | with_reducible apply PReal.rel_degToRad
  | with_reducible apply PReal.rel_radToDeg
  | with_reducible apply PReal.rel_hypot
  | with_reducible apply PReal.rel_atan2))
