/-
  A fifth reading of the law-free model (`class Scalar`): **outward-rounded fixed-point intervals**.

  `Fx.V` is either `top` (no information) or an interval `[lo, hi]·2⁻⁵⁰` with integer end points.  `+ − · / max` and scientific literals are
  evaluated with outward rounding (`Int` floor / ceiling divisions only, so that the kernel evaluates them quickly); a division whose
  divisor interval is not strictly positive, and every operation the interval reading does not implement (`sqrt`, `sin`, …), answer
  `top`.  `Fx.Mem x X` (`x : ℝ` lies in `X`; everything lies in `top`) is preserved by every implemented operation (`mem_add`, …,
  `mem_const`): running a *branch-free* generic model function at `V` on boxes that contain the real arguments encloses its real value.

  Comparisons on `V` are "certainly less" (`[a,b] < [c,d] ⟺ b < c`): an `if` evaluated at `V` is NOT an enclosure of the `if` at ℝ, so
  only straight-line model code may be run here (the callers in `OkCuspEnclosure` select branches themselves from enclosures of the
  branch conditions).
-/
import PaletteProofs.Real
import Mathlib.Tactic.Linarith
import Mathlib.Tactic.Positivity
import Mathlib.Data.Rat.Cast.Lemmas

namespace Fx

/-- fractional bits -/
def P : Nat := 50
/-- `2^P` -/
def one : Int := 1125899906842624
theorem one_eq : one = 2 ^ P := by decide +kernel
theorem one_pos : (0 : Int) < one := by decide +kernel

inductive V where
  | top
  | iv (lo hi : Int)
deriving DecidableEq

/-- `⌊z/d⌋`, `⌈z/d⌉` for `d > 0` -/
def fdiv (z d : Int) : Int := z / d
def cdiv (z d : Int) : Int := -((-z) / d)

namespace V

def add : V → V → V
  | iv a b, iv c d => iv (a + c) (b + d)
  | _, _ => top
def sub : V → V → V
  | iv a b, iv c d => iv (a - d) (b - c)
  | _, _ => top
def neg : V → V
  | iv a b => iv (-b) (-a)
  | top => top
def mul : V → V → V
  | iv a b, iv c d =>
    iv (fdiv (min (min (a * c) (a * d)) (min (b * c) (b * d))) one) (cdiv (max (max (a * c) (a * d)) (max (b * c) (b * d))) one)
  | _, _ => top
/-- reciprocal of a strictly positive interval (anything else: no information) -/
def inv : V → V
  | iv a b => if 0 < a then iv (fdiv (one * one) b) (cdiv (one * one) a) else top
  | top => top
def div (x y : V) : V := mul x (inv y)
def max : V → V → V
  | iv a b, iv c d => iv (Max.max a c) (Max.max b d)
  | _, _ => top
def ofSci (m : Nat) (s : Bool) (e : Nat) : V :=
  if s then iv (fdiv ((m : Int) * one) ((10 ^ e : Nat) : Int)) (cdiv ((m : Int) * one) ((10 ^ e : Nat) : Int))
  else iv (((m * 10 ^ e : Nat) : Int) * one) (((m * 10 ^ e : Nat) : Int) * one)

/-- certainly less / certainly at most -/
def lt : V → V → Prop
  | iv _ b, iv c _ => b < c
  | _, _ => False
def le : V → V → Prop
  | iv _ b, iv c _ => b ≤ c
  | _, _ => False

instance : Add V := ⟨add⟩
instance : Sub V := ⟨sub⟩
instance : Mul V := ⟨mul⟩
instance : Div V := ⟨div⟩
instance : Neg V := ⟨neg⟩
instance : LT V := ⟨lt⟩
instance : LE V := ⟨le⟩
instance : OfScientific V := ⟨ofSci⟩

instance (x y : V) : Decidable (x < y) :=
  match x, y with
  | iv _ b, iv c _ => (inferInstance : Decidable (b < c))
  | iv _ _, top => isFalse (fun h => h)
  | top, _ => isFalse (fun h => h)
instance (x y : V) : Decidable (x ≤ y) :=
  match x, y with
  | iv _ b, iv c _ => (inferInstance : Decidable (b ≤ c))
  | iv _ _, top => isFalse (fun h => h)
  | top, _ => isFalse (fun h => h)

end V

instance instScalarV : Scalar V where
  const := K.eval
  abs := fun _ => .top
  sqrt := fun _ => .top
  cbrt := fun _ => .top
  exp := fun _ => .top
  ln := fun _ => .top
  floor := fun _ => .top
  ceil := fun _ => .top
  round := fun _ => .top
  sin := fun _ => .top
  cos := fun _ => .top
  powf := fun _ _ => .top
  atan2 := fun _ _ => .top
  min := fun _ _ => .top
  max := V.max
  isValidDivisor := fun _ => false
  decLt := fun _ _ => inferInstance
  decLe := fun _ _ => inferInstance

/-! ### checks on enclosures (Bool, for the kernel) -/

/-- the enclosure is an interval whose lower end is above `q·2^P` … -/
def V.loGt (x : V) (q : Int) : Bool := match x with
  | .iv a _ => decide (q < a)
  | .top => false
/-- … whose upper end is below `q` -/
def V.hiLt (x : V) (q : Int) : Bool := match x with
  | .iv _ b => decide (b < q)
  | .top => false
/-- `x < y` certainly -/
def V.ltB (x y : V) : Bool := match x, y with
  | .iv _ b, .iv c _ => decide (b < c)
  | _, _ => false
/-- `x ≤ q` is *possible* (no information counts as possible) -/
def V.possLe (x : V) (q : Int) : Bool := match x with
  | .iv a _ => decide (a ≤ q)
  | .top => true
/-- `q < x` is *possible* -/
def V.possGt (x : V) (q : Int) : Bool := match x with
  | .iv _ b => decide (q < b)
  | .top => true

/-! ### the enclosure relation -/

/-- `2^P` as a real -/
noncomputable def oneR : ℝ := ((one : Int) : ℝ)

theorem oneR_pos : 0 < oneR := by unfold oneR; exact_mod_cast one_pos

/-- `x ∈ X` -/
def Mem (x : ℝ) : V → Prop
  | .top => True
  | .iv lo hi => (lo : ℝ) ≤ x * oneR ∧ x * oneR ≤ (hi : ℝ)

theorem fdiv_le (z d : Int) (hd : 0 < d) : ((fdiv z d : Int) : ℝ) ≤ (z : ℝ) / (d : ℝ) := by
  have hdR : (0 : ℝ) < (d : ℝ) := by exact_mod_cast hd
  rw [le_div_iff₀ hdR]
  have := Int.ediv_mul_le z (ne_of_gt hd)
  unfold fdiv
  exact_mod_cast this

theorem le_cdiv (z d : Int) (hd : 0 < d) : (z : ℝ) / (d : ℝ) ≤ ((cdiv z d : Int) : ℝ) := by
  have h := fdiv_le (-z) d hd
  unfold cdiv; unfold fdiv at h
  push_cast at h ⊢
  have : (-(z : ℝ)) / (d : ℝ) = -((z : ℝ) / d) := neg_div _ _
  rw [this] at h
  linarith

theorem mem_add {x y : ℝ} {X Y : V} (hx : Mem x X) (hy : Mem y Y) : Mem (x + y) (X + Y) := by
  cases X <;> cases Y <;> try trivial
  obtain ⟨h1, h2⟩ := hx; obtain ⟨h3, h4⟩ := hy
  show ((_ + _ : Int) : ℝ) ≤ _ ∧ _ ≤ ((_ + _ : Int) : ℝ)
  push_cast; constructor <;> nlinarith

theorem mem_sub {x y : ℝ} {X Y : V} (hx : Mem x X) (hy : Mem y Y) : Mem (x - y) (X - Y) := by
  cases X <;> cases Y <;> try trivial
  obtain ⟨h1, h2⟩ := hx; obtain ⟨h3, h4⟩ := hy
  show ((_ - _ : Int) : ℝ) ≤ _ ∧ _ ≤ ((_ - _ : Int) : ℝ)
  push_cast; constructor <;> nlinarith

theorem mem_neg {x : ℝ} {X : V} (hx : Mem x X) : Mem (-x) (-X) := by
  cases X <;> try trivial
  obtain ⟨h1, h2⟩ := hx
  show ((-_ : Int) : ℝ) ≤ _ ∧ _ ≤ ((-_ : Int) : ℝ)
  push_cast; constructor <;> nlinarith

/-- a product lies between the products with the end points of one factor -/
theorem mul_between {a b u v : ℝ} (h1 : a ≤ u) (h2 : u ≤ b) : min (a * v) (b * v) ≤ u * v ∧ u * v ≤ max (a * v) (b * v) := by
  rcases le_total 0 v with hv | hv
  · exact ⟨le_trans (min_le_left _ _) (mul_le_mul_of_nonneg_right h1 hv), le_trans (mul_le_mul_of_nonneg_right h2 hv) (le_max_right _ _)⟩
  · exact ⟨le_trans (min_le_right _ _) (mul_le_mul_of_nonpos_right h2 hv), le_trans (mul_le_mul_of_nonpos_right h1 hv) (le_max_left _ _)⟩

/-- … hence between the four corner products -/
theorem mul_corners {a b c d u v : ℝ} (h1 : a ≤ u) (h2 : u ≤ b) (h3 : c ≤ v) (h4 : v ≤ d) :
    min (min (a * c) (a * d)) (min (b * c) (b * d)) ≤ u * v ∧ u * v ≤ max (max (a * c) (a * d)) (max (b * c) (b * d)) := by
  obtain ⟨l1, u1⟩ := mul_between (v := v) h1 h2
  obtain ⟨l2, u2⟩ := mul_between (v := a) h3 h4
  obtain ⟨l3, u3⟩ := mul_between (v := b) h3 h4
  rw [mul_comm c a, mul_comm d a, mul_comm v a] at l2 u2
  rw [mul_comm c b, mul_comm d b, mul_comm v b] at l3 u3
  exact ⟨le_trans (min_le_min l2 l3) l1, le_trans u1 (max_le_max u2 u3)⟩

theorem mem_mul {x y : ℝ} {X Y : V} (hx : Mem x X) (hy : Mem y Y) : Mem (x * y) (X * Y) := by
  cases X with
  | top => trivial
  | iv a b =>
  cases Y with
  | top => trivial
  | iv c d =>
  obtain ⟨h1, h2⟩ := hx; obtain ⟨h3, h4⟩ := hy
  obtain ⟨lo, hi⟩ := mul_corners h1 h2 h3 h4
  have hone : (0 : Int) < one := one_pos
  have hR := oneR_pos
  have e : x * oneR * (y * oneR) = x * y * oneR * oneR := by ring
  rw [e] at lo hi
  show ((fdiv _ one : Int) : ℝ) ≤ _ ∧ _ ≤ ((cdiv _ one : Int) : ℝ)
  constructor
  · refine le_trans (fdiv_le _ _ hone) ?_
    rw [div_le_iff₀ (by exact_mod_cast hone)]
    push_cast
    exact lo
  · refine le_trans ?_ (le_cdiv _ _ hone)
    rw [le_div_iff₀ (by exact_mod_cast hone)]
    push_cast
    exact hi

theorem mem_inv {x : ℝ} {X : V} (hx : Mem x X) : Mem (1 / x) (V.inv X) := by
  cases X with
  | top => trivial
  | iv a b =>
  show Mem (1 / x) (if 0 < a then V.iv (fdiv (one * one) b) (cdiv (one * one) a) else V.top)
  split_ifs with ha
  · obtain ⟨h1, h2⟩ := hx
    have haR : (0 : ℝ) < (a : ℝ) := by exact_mod_cast ha
    have hR := oneR_pos
    have hxo : 0 < x * oneR := lt_of_lt_of_le haR h1
    have hbR : (0 : ℝ) < (b : ℝ) := lt_of_lt_of_le hxo h2
    have hb : (0 : Int) < b := by exact_mod_cast hbR
    have hx0 : 0 < x := by
      by_contra hneg
      have := mul_nonpos_of_nonpos_of_nonneg (not_lt.mp hneg) hR.le
      linarith
    have e : 1 / x * oneR = oneR * oneR / (x * oneR) := by field_simp
    show ((fdiv _ b : Int) : ℝ) ≤ _ ∧ _ ≤ ((cdiv _ a : Int) : ℝ)
    rw [e]
    constructor
    · refine le_trans (fdiv_le _ _ hb) ?_
      push_cast
      exact div_le_div_of_nonneg_left (mul_self_nonneg _) hxo h2
    · refine le_trans ?_ (le_cdiv _ _ ha)
      push_cast
      exact div_le_div_of_nonneg_left (mul_self_nonneg _) haR h1
  · trivial

theorem mem_div {x y : ℝ} {X Y : V} (hx : Mem x X) (hy : Mem y Y) : Mem (x / y) (X / Y) := by
  have : x / y = x * (1 / y) := by rw [mul_one_div]
  rw [this]
  exact mem_mul hx (mem_inv hy)

theorem mem_max {x y : ℝ} {X Y : V} (hx : Mem x X) (hy : Mem y Y) : Mem (Scalar.max x y) (Scalar.max X Y) := by
  cases X <;> cases Y <;> try trivial
  obtain ⟨h1, h2⟩ := hx; obtain ⟨h3, h4⟩ := hy
  have hR := oneR_pos
  show ((Max.max _ _ : Int) : ℝ) ≤ max x y * oneR ∧ max x y * oneR ≤ ((Max.max _ _ : Int) : ℝ)
  rw [max_mul_of_nonneg _ _ hR.le]
  push_cast
  exact ⟨max_le_max h1 h3, max_le_max h2 h4⟩

theorem ofSci_real (m : Nat) (s : Bool) (e : Nat) :
    (OfScientific.ofScientific m s e : ℝ) = if s then (m : ℝ) / (10 : ℝ) ^ e else (m : ℝ) * (10 : ℝ) ^ e := by
  rw [← Rat.cast_ofScientific, Rat.ofScientific_def_eq_if]
  split_ifs <;> push_cast <;> rfl

theorem mem_lit (m : Nat) (s : Bool) (e : Nat) : Mem (OfScientific.ofScientific m s e : ℝ) (OfScientific.ofScientific m s e : V) := by
  rw [ofSci_real]
  show Mem _ (V.ofSci m s e)
  unfold V.ofSci
  have hR := oneR_pos
  cases s
  · simp only [Bool.false_eq_true, if_false]
    show ((_ : Int) : ℝ) ≤ _ ∧ _ ≤ ((_ : Int) : ℝ)
    unfold oneR
    push_cast
    exact ⟨le_refl _, le_refl _⟩
  · simp only [if_true]
    have h10 : (0 : Int) < ((10 ^ e : Nat) : Int) := by positivity
    have e1 : (m : ℝ) / (10 : ℝ) ^ e * oneR = (((m : Int) * one : Int) : ℝ) / ((((10 ^ e : Nat) : Int)) : ℝ) := by
      unfold oneR; push_cast; ring
    show ((fdiv _ _ : Int) : ℝ) ≤ _ ∧ _ ≤ ((cdiv _ _ : Int) : ℝ)
    rw [e1]
    exact ⟨fdiv_le _ _ h10, le_cdiv _ _ h10⟩

/-- **every constant expression is enclosed by its interval reading** -/
theorem mem_const (k : K) : Mem (Scalar.const k : ℝ) (Scalar.const k : V) := by
  show Mem (K.eval k : ℝ) (K.eval k : V)
  induction k with
  | lit m s e => exact mem_lit m s e
  | add a b iha ihb => exact mem_add iha ihb
  | sub a b iha ihb => exact mem_sub iha ihb
  | mul a b iha ihb => exact mem_mul iha ihb
  | div a b iha ihb => exact mem_div iha ihb
  | neg a iha => exact mem_neg iha

/-! ### reading the checks -/

theorem loGt_sound {x : ℝ} {X : V} {q : Int} (hx : Mem x X) (h : X.loGt q = true) : (q : ℝ) < x * oneR := by
  cases X with
  | top => simp [V.loGt] at h
  | iv a b =>
    simp only [V.loGt, decide_eq_true_eq] at h
    have : (q : ℝ) < (a : ℝ) := by exact_mod_cast h
    exact lt_of_lt_of_le this hx.1

theorem hiLt_sound {x : ℝ} {X : V} {q : Int} (hx : Mem x X) (h : X.hiLt q = true) : x * oneR < (q : ℝ) := by
  cases X with
  | top => simp [V.hiLt] at h
  | iv a b =>
    simp only [V.hiLt, decide_eq_true_eq] at h
    have : (b : ℝ) < (q : ℝ) := by exact_mod_cast h
    exact lt_of_le_of_lt hx.2 this

theorem ltB_sound {x y : ℝ} {X Y : V} (hx : Mem x X) (hy : Mem y Y) (h : X.ltB Y = true) : x < y := by
  cases X with
  | top => simp [V.ltB] at h
  | iv a b =>
  cases Y with
  | top => simp [V.ltB] at h
  | iv c d =>
    simp only [V.ltB, decide_eq_true_eq] at h
    have : (b : ℝ) < (c : ℝ) := by exact_mod_cast h
    have h2 : x * oneR < y * oneR := lt_of_le_of_lt hx.2 (lt_of_lt_of_le this hy.1)
    exact lt_of_mul_lt_mul_right h2 oneR_pos.le

/-- if `x ≤ q` is impossible according to the enclosure, then `q < x` -/
theorem possLe_false {x : ℝ} {X : V} {q : Int} (hx : Mem x X) (h : X.possLe q = false) : (q : ℝ) < x * oneR := by
  cases X with
  | top => simp [V.possLe] at h
  | iv a b =>
    simp only [V.possLe, decide_eq_false_iff_not, not_le] at h
    have : (q : ℝ) < (a : ℝ) := by exact_mod_cast h
    exact lt_of_lt_of_le this hx.1

theorem possGt_false {x : ℝ} {X : V} {q : Int} (hx : Mem x X) (h : X.possGt q = false) : x * oneR ≤ (q : ℝ) := by
  cases X with
  | top => simp [V.possGt] at h
  | iv a b =>
    simp only [V.possGt, decide_eq_false_iff_not, not_lt] at h
    have : (b : ℝ) ≤ (q : ℝ) := by exact_mod_cast h
    exact le_trans hx.2 this

/-- a point interval from a rational `n/d` (outward rounded), `d > 0` -/
def V.ofRat (n : Int) (d : Nat) : V := .iv (fdiv (n * one) d) (cdiv (n * one) d)

/-- the interval `[n₀/d, n₁/d]`, `d > 0` -/
def V.ofRange (n0 n1 : Int) (d : Nat) : V := .iv (fdiv (n0 * one) d) (cdiv (n1 * one) d)

theorem mem_ofRange {x : ℝ} {n0 n1 : Int} {d : Nat} (hd : 0 < d) (h0 : (n0 : ℝ) / d ≤ x) (h1 : x ≤ (n1 : ℝ) / d) :
    Mem x (V.ofRange n0 n1 d) := by
  have hdI : (0 : Int) < (d : Int) := by exact_mod_cast hd
  have hdR : (0 : ℝ) < (d : ℝ) := by exact_mod_cast hd
  have hR := oneR_pos
  constructor
  · refine le_trans (fdiv_le _ _ hdI) ?_
    push_cast
    have : (n0 : ℝ) * (one : ℝ) / (d : ℝ) = (n0 : ℝ) / d * oneR := by unfold oneR; ring
    rw [this]
    exact mul_le_mul_of_nonneg_right h0 hR.le
  · refine le_trans ?_ (le_cdiv _ _ hdI)
    push_cast
    have : (n1 : ℝ) * (one : ℝ) / (d : ℝ) = (n1 : ℝ) / d * oneR := by unfold oneR; ring
    rw [this]
    exact mul_le_mul_of_nonneg_right h1 hR.le

end Fx
