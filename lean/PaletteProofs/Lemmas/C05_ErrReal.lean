/-
  C05 — reading the integer block checks of `Lemmas/C05_ErrCheck.lean` at ℝ: value of an f32 pattern, monotone in the pattern;
  `q`-th-root comparisons from integer power comparisons; a passed block check bounds `255·curve` on every pattern of the block.
-/
import PaletteProofs.Lemmas.C05_ErrCheck
import Mathlib.Analysis.SpecialFunctions.Pow.Real
import Mathlib.Tactic.NormNum
import Mathlib.Tactic.Linarith
import Mathlib.Tactic.Positivity
import Mathlib.Tactic.FieldSimp
import Mathlib.Tactic.Ring

namespace C05E

/-- the real number a non-negative finite f32 bit pattern stands for: `mant·2^expo / 2^150`
    (`expo` is the biased exponent field, 1 for subnormals; `mant` includes the implicit bit of normals) -/
noncomputable def f32val (b : Nat) : ℝ := (mant b : ℝ) * 2 ^ (expo b) / 2 ^ 150

/-- the integer `mant·2^expo` is monotone in the pattern (IEEE order = order of the non-negative patterns) -/
theorem weight_mono {b b' : Nat} (h : b ≤ b') : mant b * 2 ^ expo b ≤ mant b' * 2 ^ expo b' := by
  unfold mant expo
  have p23 : (2:Nat)^23 = 8388608 := by decide
  by_cases h1 : b' < 2^23
  · have h0 : b < 2^23 := by omega
    rw [if_pos h0, if_pos h0, if_pos h1, if_pos h1]
    exact Nat.mul_le_mul_right _ h
  · rw [if_neg h1, if_neg h1]
    have hE' : 1 ≤ b' / 2^23 := by
      rw [Nat.le_div_iff_mul_le (by decide)]; omega
    by_cases h0 : b < 2^23
    · rw [if_pos h0, if_pos h0]
      have a1 : b * 2^1 ≤ 2^23 * 2^1 := Nat.mul_le_mul_right _ (by omega)
      have a2 : 2^23 * 2^1 ≤ 2^23 * 2^(b' / 2^23) := Nat.mul_le_mul_left _ (Nat.pow_le_pow_right (by decide) hE')
      have a3 : 2^23 * 2^(b' / 2^23) ≤ (2^23 + b' % 2^23) * 2^(b' / 2^23) := Nat.mul_le_mul_right _ (by omega)
      exact Nat.le_trans a1 (Nat.le_trans a2 a3)
    · rw [if_neg h0, if_neg h0]
      have hE : b / 2^23 ≤ b' / 2^23 := Nat.div_le_div_right h
      rcases Nat.lt_or_eq_of_le hE with hlt | heq
      · have hr : b % 2^23 < 2^23 := Nat.mod_lt _ (by decide)
        have a1 : (2^23 + b % 2^23) * 2^(b / 2^23) ≤ (2^23 * 2) * 2^(b / 2^23) := Nat.mul_le_mul_right _ (by omega)
        have a2 : (2^23 * 2) * 2^(b / 2^23) = 2^23 * 2^(b / 2^23 + 1) := by ring
        have a3 : 2^23 * 2^(b / 2^23 + 1) ≤ 2^23 * 2^(b' / 2^23) := Nat.mul_le_mul_left _ (Nat.pow_le_pow_right (by decide) hlt)
        have a4 : 2^23 * 2^(b' / 2^23) ≤ (2^23 + b' % 2^23) * 2^(b' / 2^23) := Nat.mul_le_mul_right _ (by omega)
        rw [a2] at a1
        exact Nat.le_trans a1 (Nat.le_trans a3 a4)
      · rw [heq]
        apply Nat.mul_le_mul_right
        have e1 := Nat.div_add_mod b (2^23)
        have e2 := Nat.div_add_mod b' (2^23)
        rw [heq] at e1
        omega

theorem f32val_mono {b b' : Nat} (h : b ≤ b') : f32val b ≤ f32val b' := by
  unfold f32val
  have := (Nat.cast_le (α := ℝ)).mpr (weight_mono h)
  push_cast at this
  exact div_le_div_of_nonneg_right this (by positivity)

theorem f32val_nonneg (b : Nat) : 0 ≤ f32val b := by unfold f32val; positivity

theorem f32val_zero : f32val 0 = 0 := by
  unfold f32val mant; simp

theorem f32val_one : f32val 0x3f800000 = 1 := by
  have hm : mant 0x3f800000 = 2^23 := by decide
  have he : expo 0x3f800000 = 127 := by decide
  unfold f32val; rw [hm, he]; norm_num

/-- sanity: ½, the least subnormal -/
example : f32val 0x3f000000 = 1 / 2 := by
  have hm : mant 0x3f000000 = 2^23 := by decide
  have he : expo 0x3f000000 = 126 := by decide
  unfold f32val; rw [hm, he]; norm_num
example : f32val 1 = 1 / 2 ^ 149 := by
  have hm : mant 1 = 1 := by decide
  have he : expo 1 = 1 := by decide
  unfold f32val; rw [hm, he]; norm_num

/-! ### rational exponents: root comparisons from power comparisons -/

theorem rpow_div_lt_of_pow_lt {x r : ℝ} {p q : ℕ} (hx : 0 ≤ x) (hr : 0 ≤ r) (hq : 0 < q) (h : x ^ p < r ^ q) :
    x ^ ((p:ℝ) / (q:ℝ)) < r := by
  have hq' : (0:ℝ) < q := by exact_mod_cast hq
  have e1 : x ^ ((p:ℝ) / (q:ℝ)) = (x ^ p) ^ ((1:ℝ) / q) := by
    rw [← Real.rpow_natCast x p, ← Real.rpow_mul hx]; congr 1; ring
  have e2 : r = (r ^ q) ^ ((1:ℝ) / q) := by
    rw [← Real.rpow_natCast r q, ← Real.rpow_mul hr, mul_one_div_cancel (ne_of_gt hq'), Real.rpow_one]
  rw [e1, e2]
  exact Real.rpow_lt_rpow (pow_nonneg hx p) h (by positivity)

theorem lt_rpow_div_of_pow_lt {x r : ℝ} {p q : ℕ} (hx : 0 ≤ x) (hr : 0 ≤ r) (hq : 0 < q) (h : r ^ q < x ^ p) :
    r < x ^ ((p:ℝ) / (q:ℝ)) := by
  have hq' : (0:ℝ) < q := by exact_mod_cast hq
  have e1 : x ^ ((p:ℝ) / (q:ℝ)) = (x ^ p) ^ ((1:ℝ) / q) := by
    rw [← Real.rpow_natCast x p, ← Real.rpow_mul hx]; congr 1; ring
  have e2 : r = (r ^ q) ^ ((1:ℝ) / q) := by
    rw [← Real.rpow_natCast r q, ← Real.rpow_mul hr, mul_one_div_cancel (ne_of_gt hq'), Real.rpow_one]
  rw [e1, e2]
  exact Real.rpow_lt_rpow (pow_nonneg hr q) h (by positivity)

/-! ### a piece at ℝ -/

/-- `255·(A·x^(p/q) − B)` written with the integers of the piece -/
noncomputable def Piece.scaled (P : Piece) (x : ℝ) : ℝ :=
  ((P.k3:ℝ) * x ^ ((P.p:ℝ) / (P.q:ℝ)) - P.k2u) / P.k1 + 0.6

structure Piece.WF (P : Piece) : Prop where
  k1 : 0 < P.k1
  k3 : 0 < P.k3
  p : 0 < P.p
  q : 0 < P.q
  gap : 5 * (P.k2u + P.k2ln) = 6 * P.k1 + 5 * P.k2lp

theorem Piece.wf_iff (P : Piece) (h : P.wf = true) : P.WF := by
  simp only [Piece.wf, Bool.and_eq_true, decide_eq_true_eq] at h
  exact ⟨h.1.1.1.1, h.1.1.1.2, h.1.1.2, h.1.2, h.2⟩

theorem Piece.scaled_mono (P : Piece) (hw : P.WF) {x y : ℝ} (hx : 0 ≤ x) (h : x ≤ y) : P.scaled x ≤ P.scaled y := by
  unfold Piece.scaled
  have h1 : (0:ℝ) < P.k1 := by exact_mod_cast hw.k1
  have h3 : (0:ℝ) ≤ P.k3 := by positivity
  have hp : x ^ ((P.p:ℝ) / (P.q:ℝ)) ≤ y ^ ((P.p:ℝ) / (P.q:ℝ)) := Real.rpow_le_rpow hx h (by positivity)
  have : (P.k3:ℝ) * x ^ ((P.p:ℝ) / (P.q:ℝ)) - P.k2u ≤ (P.k3:ℝ) * y ^ ((P.p:ℝ) / (P.q:ℝ)) - P.k2u := by
    have := mul_le_mul_of_nonneg_left hp h3; linarith
  have := div_le_div_of_nonneg_right this (le_of_lt h1)
  linarith

/-- power of the value of a pattern, over the common denominator -/
theorem f32val_pow (b p : Nat) : (f32val b) ^ p = ((mant b : ℝ) ^ p * 2 ^ (expo b * p)) / 2 ^ (150 * p) := by
  unfold f32val
  rw [div_pow, mul_pow, ← pow_mul, ← pow_mul]

theorem upperOK_real (P : Piece) (hw : P.WF) (res b : Nat) (h : upperOK P res b = true) :
    P.scaled (f32val b) < res + 0.6 := by
  simp only [upperOK, decide_eq_true_eq] at h
  have hc := (Nat.cast_lt (α := ℝ)).mpr h
  push_cast at hc
  have h1 : (0:ℝ) < P.k1 := by exact_mod_cast hw.k1
  have h3 : (0:ℝ) < P.k3 := by exact_mod_cast hw.k3
  set N : ℝ := (P.k1:ℝ) * res + P.k2u with hN
  have hN0 : 0 ≤ N := by positivity
  -- x^p < (N/k3)^q
  have hpow : (f32val b) ^ P.p < (N / P.k3) ^ P.q := by
    rw [f32val_pow, div_pow, div_lt_div_iff₀ (by positivity) (by positivity)]
    exact hc
  have hy := rpow_div_lt_of_pow_lt (f32val_nonneg b) (div_nonneg hN0 (le_of_lt h3)) hw.q hpow
  rw [lt_div_iff₀ h3] at hy
  unfold Piece.scaled
  have : ((P.k3:ℝ) * f32val b ^ ((P.p:ℝ) / (P.q:ℝ)) - P.k2u) / P.k1 < res := by
    rw [div_lt_iff₀ h1]; rw [hN] at hy; linarith
  linarith

theorem lowerOK_real (P : Piece) (hw : P.WF) (res b : Nat) (h : lowerOK P res b = true) :
    (res:ℝ) - 0.6 < P.scaled (f32val b) := by
  have h1 : (0:ℝ) < P.k1 := by exact_mod_cast hw.k1
  have h3 : (0:ℝ) < P.k3 := by exact_mod_cast hw.k3
  have hgap := (congrArg (Nat.cast (R := ℝ)) hw.gap)
  push_cast at hgap
  have hy0 : 0 ≤ f32val b ^ ((P.p:ℝ) / (P.q:ℝ)) := Real.rpow_nonneg (f32val_nonneg b) _
  unfold Piece.scaled
  -- it suffices: k3·y − k2u > k1·res − 1.2·k1
  suffices hs : (P.k1:ℝ) * res - 1.2 * P.k1 < (P.k3:ℝ) * f32val b ^ ((P.p:ℝ) / (P.q:ℝ)) - P.k2u by
    have : (res:ℝ) - 1.2 < ((P.k3:ℝ) * f32val b ^ ((P.p:ℝ) / (P.q:ℝ)) - P.k2u) / P.k1 := by
      rw [lt_div_iff₀ h1]; linarith
    linarith
  by_cases hneg : P.k1 * res + P.k2lp < P.k2ln
  · have hc := (Nat.cast_lt (α := ℝ)).mpr hneg
    push_cast at hc
    have : 0 ≤ (P.k3:ℝ) * f32val b ^ ((P.p:ℝ) / (P.q:ℝ)) := mul_nonneg (le_of_lt h3) hy0
    linarith
  · simp only [lowerOK, Bool.or_eq_true, decide_eq_true_eq] at h
    rcases h with h | h
    · exact absurd h hneg
    · have hge : P.k2ln ≤ P.k1 * res + P.k2lp := Nat.le_of_not_lt hneg
      have hc := (Nat.cast_lt (α := ℝ)).mpr h
      rw [Nat.cast_mul, Nat.cast_pow, Nat.cast_sub hge] at hc
      push_cast at hc
      set N : ℝ := (P.k1:ℝ) * res + P.k2lp - P.k2ln with hN
      have hN0 : 0 ≤ N := by
        have := (Nat.cast_le (α := ℝ)).mpr hge; push_cast at this; rw [hN]; linarith
      have hpow : (N / P.k3) ^ P.q < (f32val b) ^ P.p := by
        rw [f32val_pow, div_pow, div_lt_div_iff₀ (by positivity) (by positivity)]
        exact hc
      have hy := lt_rpow_div_of_pow_lt (f32val_nonneg b) (div_nonneg hN0 (le_of_lt h3)) hw.q hpow
      rw [div_lt_iff₀ h3] at hy
      rw [hN] at hy
      linarith

/-- **a passed block check bounds the piece that applies, on every pattern of the block** -/
theorem blockOK_real (toe pow : Piece) (hwt : toe.WF) (hwp : pow.WF) (T res lo hi b : Nat)
    (h : blockOK toe pow T res lo hi = true) (h1 : lo ≤ b) (h2 : b ≤ hi) :
    (b ≤ T → (res:ℝ) - 0.6 < toe.scaled (f32val b) ∧ toe.scaled (f32val b) < res + 0.6) ∧
    (T < b → (res:ℝ) - 0.6 < pow.scaled (f32val b) ∧ pow.scaled (f32val b) < res + 0.6) := by
  simp only [blockOK, Bool.and_eq_true] at h
  obtain ⟨ht, hp⟩ := h
  constructor
  · intro hbT
    rw [if_pos (by omega : lo ≤ T)] at ht
    simp only [Bool.and_eq_true] at ht
    have l := lowerOK_real toe hwt res lo ht.1
    have u := upperOK_real toe hwt res (min hi T) ht.2
    have m1 := toe.scaled_mono hwt (f32val_nonneg lo) (f32val_mono h1)
    have m2 := toe.scaled_mono hwt (f32val_nonneg b) (f32val_mono (b' := min hi T) (by omega))
    exact ⟨by linarith, by linarith⟩
  · intro hTb
    rw [if_pos (by omega : T < hi)] at hp
    simp only [Bool.and_eq_true] at hp
    have l := lowerOK_real pow hwp res (max lo (T + 1)) hp.1
    have u := upperOK_real pow hwp res hi hp.2
    have m1 := pow.scaled_mono hwp (f32val_nonneg _) (f32val_mono (b := max lo (T + 1)) (b' := b) (by omega))
    have m2 := pow.scaled_mono hwp (f32val_nonneg b) (f32val_mono h2)
    exact ⟨by linarith, by linarith⟩

end C05E
