/-
  C11 helper: the upper bound of the signed normal form, reduced to a finite scan.

  `K X = ⌈g X⌉`, `g X = R32 (R32 (R32 (X + 180) / 360) − 1)` is the whole-turn count the code computes (monotone in `X`).
  For every integer `k` let `F = 360k + 180` and `T k = F + 2 ulp F` (two floats above `F`, toward `+∞`; written directly as
  an unpacked float).  `chk k` evaluates the three float operations of `g` on `T k` with core's `UnpackedFloat.add/div/sub`
  and tests `k < g (T k)`.  Soundness (`upper_of_chk`): if `chk k` holds then every float `X` with `K X = k` satisfies
  `X − 360k ≤ 180 + ulp X` — by monotonicity `X < T k`, and two distinct floats differ by at least one unit in the last
  place of the smaller one (`grid`).
-/
import PaletteProofs.Ieee.F32Ops
import PaletteProofs.Ieee.Ulp

namespace C11
open Float.Model Float.Model.UnpackedFloat Ieee Ieee.F32

/-- the exact-value reading of `((x + 180) / 360) − 1` in binary32 -/
def g (X : ℚ) : ℚ := R32 (R32 (R32 (X + 180) / 360) - 1)

theorem g_mono {X Y : ℚ} (h : X ≤ Y) : g X ≤ g Y := by
  unfold g
  apply R32_mono
  have := R32_mono (show X + 180 ≤ Y + 180 by linarith)
  have h2 : R32 (X + 180) / 360 ≤ R32 (Y + 180) / 360 := div_le_div_of_nonneg_right this (by norm_num)
  have := R32_mono h2
  linarith

def u180 : UnpackedFloat := .finite .positive 0xb40000 (-16) (by decide)
def u360 : UnpackedFloat := .finite .positive 0xb40000 (-15) (by decide)
def u1 : UnpackedFloat := .finite .positive 0x800000 (-23) (by decide)

theorem canon_u180 : Canon spec u180 := ⟨by decide, by decide, Or.inr (Or.inl (by decide))⟩
theorem canon_u360 : Canon spec u360 := ⟨by decide, by decide, Or.inr (Or.inl (by decide))⟩
theorem canon_u1 : Canon spec u1 := ⟨by decide, by decide, Or.inr (Or.inl (by decide))⟩
theorem val_u180 : val u180 = 180 := by norm_num [u180, val, sgn]
theorem val_u360 : val u360 = 360 := by norm_num [u360, val, sgn]
theorem val_u1 : val u1 = 1 := by norm_num [u1, val, sgn]

/-- `g` on unpacked floats, with core's operations -/
def y3 (t : UnpackedFloat) : UnpackedFloat :=
  UnpackedFloat.sub spec (UnpackedFloat.div spec (UnpackedFloat.add spec t u180) u360) u1

theorem y3_spec {t : UnpackedFloat} (ct : Canon spec t) (ft : t.isFinite = true) :
    val (y3 t) = g (val t) ∧ Canon spec (y3 t) ∧ (y3 t).isFinite = true := by
  have h360 : val u360 ≠ 0 := by rw [val_u360]; norm_num
  have c1 := canon_add spec ct canon_u180
  have f1 := isFinite_add spec ft (show u180.isFinite = true from rfl)
  have v1 := val_add spec ft (show u180.isFinite = true from rfl) ct canon_u180
  have c2 := canon_div spec (UnpackedFloat.add spec t u180) u360
  have f2 := isFinite_div spec f1 (show u360.isFinite = true from rfl) h360
  have v2 := val_div spec f1 (show u360.isFinite = true from rfl) h360
  have c3 := canon_sub spec c2 canon_u1
  have f3 := isFinite_sub spec f2 (show u1.isFinite = true from rfl)
  have v3 := val_sub spec f2 (show u1.isFinite = true from rfl) c2 canon_u1
  refine ⟨?_, c3, f3⟩
  unfold y3 g
  rw [v3, v2, v1, val_u180, val_u360, val_u1]

/-! ### the scan -/

def mkF (s : Sign) (m : ℕ) (e : ℤ) : UnpackedFloat :=
  if h : 0 < m then .finite s m e h else .zero s

/-- mantissa of the integer `n` (`0 < n < 2^24`) in canonical form, exponent `log2 n − 23` -/
def mOf (n : ℕ) : ℕ := n * 2^(23 - n.log2)
def eOf (n : ℕ) : ℤ := (n.log2 : ℤ) - 23

/-- two units in the last place above `F = 360k + 180` -/
def Tk (k : ℤ) : UnpackedFloat :=
  if 0 < 360 * k + 180 then mkF .positive (mOf (360 * k + 180).natAbs + 2) (eOf (360 * k + 180).natAbs)
  else mkF .negative (mOf (360 * k + 180).natAbs - 2) (eOf (360 * k + 180).natAbs)

/-- mantissa of `Tk k` -/
def mT (k : ℤ) : ℕ :=
  if 0 < 360 * k + 180 then mOf (360 * k + 180).natAbs + 2 else mOf (360 * k + 180).natAbs - 2

def chk (k : ℤ) : Bool :=
  decide ((360 * k + 180).natAbs.log2 ≤ 23) && decide (2^23 ≤ mOf (360 * k + 180).natAbs) &&
  decide (2 ≤ mOf (360 * k + 180).natAbs) &&
  decide (2^23 ≤ mT k) && decide (mT k < 2^24) &&
  (UnpackedFloat.normalize spec k 0 .positive).lt (y3 (Tk k))

/-- two distinct positive canonical floats differ by at least a unit in the last place of the smaller -/
theorem grid {m₁ m₂ : ℕ} {e₁ e₂ : ℤ} (c₁ : CanonME spec m₁ e₁) (c₂ : CanonME spec m₂ e₂) (h₁ : 0 < m₁)
    (h : mag m₁ e₁ < mag m₂ e₂) : e₁ ≤ e₂ ∧ mag m₁ e₁ + 2^e₁ ≤ mag m₂ e₂ := by
  have he : e₁ ≤ e₂ := by
    by_contra hlt
    have := mag_lt_of_exp_lt c₂ c₁ h₁ (by omega); linarith
  refine ⟨he, ?_⟩
  obtain ⟨j, hj⟩ : ∃ j : ℕ, (j : ℤ) = e₂ - e₁ := ⟨(e₂ - e₁).toNat, by omega⟩
  have h2 : (2 : ℚ)^e₂ = 2^j * 2^e₁ := by
    rw [← zpow_natCast, ← zpow_add₀ (by norm_num), hj]; congr 1; omega
  unfold mag at h ⊢
  rw [h2] at h ⊢
  have hp := two_zpow_pos e₁
  have hlt : (m₁ : ℚ) < (m₂ : ℚ) * 2^j := by
    by_contra hge; rw [not_lt] at hge
    have : (m₂ : ℚ) * (2^j * 2^e₁) ≤ m₁ * 2^e₁ := by
      calc (m₂ : ℚ) * (2^j * 2^e₁) = (m₂ * 2^j) * 2^e₁ := by ring
        _ ≤ m₁ * 2^e₁ := mul_le_mul_of_nonneg_right hge hp.le
    linarith
  have hnat : m₁ + 1 ≤ m₂ * 2^j := by
    have : (m₁ : ℚ) < ((m₂ * 2^j : ℕ) : ℚ) := by push_cast; exact hlt
    exact_mod_cast this
  have hq : (m₁ : ℚ) + 1 ≤ (m₂ : ℚ) * 2^j := by
    have : ((m₁ + 1 : ℕ) : ℚ) ≤ ((m₂ * 2^j : ℕ) : ℚ) := by exact_mod_cast hnat
    push_cast at this; exact this
  calc (m₁ : ℚ) * 2^e₁ + 2^e₁ = ((m₁ : ℚ) + 1) * 2^e₁ := by ring
    _ ≤ ((m₂ : ℚ) * 2^j) * 2^e₁ := mul_le_mul_of_nonneg_right hq hp.le
    _ = (m₂ : ℚ) * (2^j * 2^e₁) := by ring

theorem mag_mOf {n : ℕ} (hl : n.log2 ≤ 23) : mag (mOf n) (eOf n) = n := by
  unfold mag mOf eOf
  push_cast
  have : (2 : ℚ)^(23 - n.log2) * 2^((n.log2 : ℤ) - 23) = 1 := by
    rw [← zpow_natCast, ← zpow_add₀ (by norm_num)]
    have : ((23 - n.log2 : ℕ) : ℤ) + ((n.log2 : ℤ) - 23) = 0 := by omega
    rw [this]; simp
  rw [mul_assoc, this, mul_one]

theorem canonME_of {m : ℕ} {n : ℕ} (h0 : 2^23 ≤ m) (h1 : m < 2^24) : CanonME spec m (eOf n) :=
  ⟨h1, by unfold eOf; show (-149 : ℤ) ≤ _; omega, Or.inr (Or.inl h0)⟩

/-- **soundness of one scan step**, in terms of exact values.  `X = ± m·2^e` a normal float with `⌈g X⌉ = k`. -/
theorem upper_of_chk {k : ℤ} (hc : chk k = true) {s : Sign} {m : ℕ} {e : ℤ} (hm : 0 < m) (cm : CanonME spec m e)
    (hK : ⌈g (sgn s * mag m e)⌉ = k)
    (hsign : ((360 * k + 180 : ℤ) : ℚ) < sgn s * mag m e → (0 < sgn s * mag m e ↔ 0 < 360 * k + 180)) :
    sgn s * mag m e - 360 * k ≤ 180 + 2^e := by
  simp only [chk, Bool.and_eq_true, decide_eq_true_eq] at hc
  obtain ⟨⟨⟨⟨⟨hl, hmF⟩, hmF2⟩, hT0⟩, hT1⟩, hlt⟩ := hc
  set F : ℤ := 360 * k + 180 with hF
  set n := F.natAbs with hn
  set X := sgn s * mag m e with hX
  have hmagn : mag (mOf n) (eOf n) = n := mag_mOf hl
  have hmFlt : mOf n < 2^24 := by
    have : (mOf n : ℚ) * 2^(eOf n) = n := hmagn
    have hnlt : n < 2^(n.log2 + 1) := Nat.lt_log2_self
    unfold mOf
    calc n * 2^(23 - n.log2) < 2^(n.log2 + 1) * 2^(23 - n.log2) :=
          Nat.mul_lt_mul_of_pos_right hnlt (Nat.pos_of_ne_zero (by simp))
      _ = 2^24 := by rw [← Nat.pow_add]; congr 1; omega
  have cF : CanonME spec (mOf n) (eOf n) := canonME_of hmF hmFlt
  have cT : CanonME spec (mT k) (eOf n) := canonME_of hT0 hT1
  have hTpos : 0 < mT k := by omega
  -- trivial case: X ≤ F
  by_cases hXF : X ≤ F
  · have : (F : ℚ) = 360 * k + 180 := by rw [hF]; push_cast; ring
    have h2 := two_zpow_pos e
    linarith
  rw [not_le] at hXF
  have hsign := hsign hXF
  -- value of the comparison
  have hTk : Tk k = .finite (if 0 < F then .positive else .negative) (mT k) (eOf n) hTpos := by
    unfold Tk mT mkF
    by_cases hpos : 0 < F
    · simp only [← hF, hpos, if_true]
      rw [dif_pos (by simp only [mT, ← hF, hpos, if_true] at hTpos; exact hTpos)]
    · simp only [← hF, hpos, if_false]
      rw [dif_pos (by simp only [mT, ← hF, hpos, if_false] at hTpos; exact hTpos)]
  have cTk : Canon spec (Tk k) := by rw [hTk]; exact cT
  have fTk : (Tk k).isFinite = true := by rw [hTk]; rfl
  obtain ⟨vy, cy, fy⟩ := y3_spec cTk fTk
  have hkval : val (UnpackedFloat.normalize spec k 0 .positive) = k := by
    rw [val_normalize]
    have hkb : |k| < 2^24 := by
      have : n < 2^24 := lt_of_lt_of_le Nat.lt_log2_self (Nat.pow_le_pow_right (by norm_num) (by omega))
      rw [abs_lt]; constructor <;> omega
    have := R32_intCast hkb
    simpa using this
  have hgT : (k : ℚ) < g (val (Tk k)) := by
    have := (lt_iff_val (canon_normalize spec k 0 .positive) cy (isFinite_normalize ..) fy).mp hlt
    rwa [hkval, vy] at this
  -- monotonicity: X < T
  have hXT : X < val (Tk k) := by
    by_contra hge; rw [not_lt] at hge
    have h1 := g_mono hge
    have h2 : g X ≤ k := by rw [← hK]; exact Int.le_ceil _
    linarith
  have h2e := two_zpow_pos e
  have h2eF := two_zpow_pos (eOf n)
  by_cases hpos : 0 < F
  · -- positive side
    have hXpos : 0 < X := hsign.mpr hpos
    have hs : s = .positive := by
      cases s
      · exfalso; rw [hX] at hXpos; have := mag_pos hm e; simp [sgn] at hXpos; linarith
      · rfl
    have hXm : X = mag m e := by rw [hX, hs]; simp [sgn]
    have hFn : (F : ℚ) = n := by
      have : (F : ℤ) = n := by omega
      exact_mod_cast this
    have hTval : val (Tk k) = mag (mT k) (eOf n) := by rw [hTk, if_pos hpos, val_pos_eq]
    have hmTk : mT k = mOf n + 2 := by unfold mT; rw [← hF, if_pos hpos]
    have hTF : mag (mT k) (eOf n) = F + 2 * 2^(eOf n) := by
      rw [hFn, ← hmagn, hmTk]; unfold mag; push_cast; ring
    -- exponent of X is at least that of F
    have hFX : mag (mOf n) (eOf n) < mag m e := by rw [hmagn, ← hFn, ← hXm]; exact hXF
    obtain ⟨hee, _⟩ := grid cF cm (by omega) hFX
    have hgr := (grid cm cT hm (by rw [← hXm, ← hTval]; exact hXT)).2
    have hpow : (2 : ℚ)^(eOf n) ≤ 2^e := zpow_le_zpow_right₀ (by norm_num) hee
    have : (F : ℚ) = 360 * k + 180 := by rw [hF]; push_cast; ring
    rw [hXm]; rw [hTF] at hgr
    linarith
  · -- negative side
    have hXneg : ¬ 0 < X := fun h => hpos (hsign.mp h)
    have hs : s = .negative := by
      cases s
      · rfl
      · exfalso; apply hXneg; rw [hX]; have := mag_pos hm e; simp [sgn]; exact this
    have hXm : X = - mag m e := by rw [hX, hs]; simp [sgn]
    have hFn : (F : ℚ) = -(n : ℚ) := by
      have : (F : ℤ) = -(n : ℤ) := by omega
      exact_mod_cast this
    have hTval : val (Tk k) = - mag (mT k) (eOf n) := by rw [hTk, if_neg hpos, val_neg_eq]
    have hmTk : mT k = mOf n - 2 := by unfold mT; rw [← hF, if_neg hpos]
    have hTF : mag (mT k) (eOf n) = n - 2 * 2^(eOf n) := by
      rw [← hmagn, hmTk]; unfold mag; rw [Nat.cast_sub hmF2]; push_cast; ring
    -- |T| < |X|: grid with T as the smaller one
    have hTX : mag (mT k) (eOf n) < mag m e := by
      rw [hXm, hTval] at hXT; linarith
    obtain ⟨hee, hgr⟩ := grid cT cm hTpos hTX
    have hpow : (2 : ℚ)^(eOf n) ≤ 2^e := zpow_le_zpow_right₀ (by norm_num) hee
    have : (F : ℚ) = 360 * k + 180 := by rw [hF]; push_cast; ring
    rw [hXm]; rw [hTF] at hgr
    linarith

end C11
