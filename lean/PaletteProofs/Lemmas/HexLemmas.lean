/-
  Lemmas behind `C12_Hex`: what `from_str_radix`, slicing and the `hex.rs` functions do on strings of ASCII hex
  digits, a complete description (`Spec`) of each of the ten `FromStr` impls, and the formatter as fixed-width digits.
  Core Lean only.
-/
import PaletteModel.Hex

namespace C12
open Hex

theorem hex_ne_hash {b : UInt8} (h : isHexDigit b = true) : b.toNat ≠ 35 := by
  unfold isHexDigit at h; simp at h; omega

theorem hex_lt_128 {b : UInt8} (h : isHexDigit b = true) : b.toNat < 128 := by
  unfold isHexDigit at h; simp at h; omega

theorem hex_not_sign {b : UInt8} (h : isHexDigit b = true) : ¬ (b.toNat = 43 ∨ b.toNat = 45) := by
  unfold isHexDigit at h; simp at h; omega

/-- `to_digit(16)` succeeds exactly on the hex digits, with a value below 16 -/
theorem toDigit_of_hex {b : UInt8} (h : isHexDigit b = true) : ∃ x, toDigit b = some x ∧ x < 16 := by
  unfold isHexDigit at h; unfold toDigit; simp at h ⊢
  by_cases h1 : 48 ≤ b.toNat ∧ b.toNat ≤ 57
  · exact ⟨b.toNat - 48, by simp [h1], by omega⟩
  · by_cases h2 : 97 ≤ b.toNat ∧ b.toNat ≤ 102
    · exact ⟨b.toNat - 87, by simp [h1, h2], by omega⟩
    · have h3 : 65 ≤ b.toNat ∧ b.toNat ≤ 70 := by omega
      exact ⟨b.toNat - 55, by simp [h1, h2, h3], by omega⟩

theorem toDigit_none_of_not_hex {b : UInt8} (h : isHexDigit b = false) : toDigit b = none := by
  unfold isHexDigit at h; unfold toDigit; simp at h ⊢
  rw [if_neg (by omega), if_neg (by omega), if_neg (by omega)]

theorem stripHash_of_allHex {d : Bytes} (h : d.all isHexDigit = true) : stripHash d = d := by
  cases d with
  | nil => rfl
  | cons c r =>
    have hc : isHexDigit c = true := by simp [List.all_cons] at h; exact h.1
    simp [stripHash, hex_ne_hash hc]

theorem stripHash_cases (s : Bytes) : stripHash s = s ∨ s = 35 :: stripHash s := by
  cases s with
  | nil => left; rfl
  | cons c r =>
    by_cases hc : c.toNat = 35
    · right
      have : c = 35 := UInt8.toNat_inj.mp (by simpa using hc)
      simp [stripHash, this]
    · left; simp [stripHash, hc]

theorem stripHash_hash (d : Bytes) : stripHash (35 :: d) = d := by simp [stripHash]

/-- the number a digit string denotes (most significant digit first), continuing from `acc` -/
def hexVal (t : Bytes) (acc : Nat) : Nat := t.foldl (fun a c => a * 16 + (toDigit c).getD 0) acc

theorem le_hexVal (t : Bytes) : ∀ acc, acc ≤ hexVal t acc := by
  induction t with
  | nil => intro acc; exact Nat.le_refl _
  | cons c cs ih =>
    intro acc
    have := ih (acc * 16 + (toDigit c).getD 0)
    simp only [hexVal, List.foldl_cons] at this ⊢
    omega

theorem hexVal_lt (t : Bytes) (h : t.all isHexDigit = true) : ∀ acc, hexVal t acc < (acc + 1) * 16 ^ t.length := by
  induction t with
  | nil => intro acc; simp [hexVal]
  | cons c cs ih =>
    intro acc
    simp only [List.all_cons, Bool.and_eq_true] at h
    obtain ⟨x, hx, hx16⟩ := toDigit_of_hex h.1
    have := ih h.2 (acc * 16 + x)
    simp only [hexVal, List.foldl_cons, hx, Option.getD_some, List.length_cons, Nat.pow_succ] at this ⊢
    calc _ < (acc * 16 + x + 1) * 16 ^ cs.length := this
      _ ≤ ((acc + 1) * 16) * 16 ^ cs.length := Nat.mul_le_mul_right _ (by omega)
      _ = (acc + 1) * (16 ^ cs.length * 16) := by rw [Nat.mul_assoc, Nat.mul_comm 16]

theorem digitsLoop_ok (bits : Nat) (t : Bytes) (h : t.all isHexDigit = true) :
    ∀ acc, hexVal t acc < 2 ^ bits → digitsLoop bits t acc = .ok (hexVal t acc) := by
  induction t with
  | nil => intro acc _; rfl
  | cons c cs ih =>
    intro acc hv
    simp only [List.all_cons, Bool.and_eq_true] at h
    obtain ⟨x, hx, _⟩ := toDigit_of_hex h.1
    have hv' : hexVal cs (acc * 16 + x) < 2 ^ bits := by simpa [hexVal, hx] using hv
    have hle := le_hexVal cs (acc * 16 + x)
    have hlt : acc * 16 + x < 2 ^ bits := Nat.lt_of_le_of_lt hle hv'
    simp only [digitsLoop, hx, hlt, if_true]
    rw [ih h.2 _ hv']
    simp [hexVal, hx]

theorem fromStrRadix16_ok (bits : Nat) (t : Bytes) (hne : t ≠ []) (h : t.all isHexDigit = true)
    (hv : 16 ^ t.length ≤ 2 ^ bits) : fromStrRadix16 bits t = .ok (hexVal t 0) := by
  have hlt : hexVal t 0 < 2 ^ bits := by
    have := hexVal_lt t h 0; simp at this; omega
  match t, hne, h, hlt with
  | [c], _, h, hlt =>
    have hc : isHexDigit c = true := by simpa using h
    simp only [fromStrRadix16, if_neg (hex_not_sign hc)]
    exact digitsLoop_ok bits [c] h 0 hlt
  | c :: c' :: r, _, h, hlt =>
    have hc : isHexDigit c = true := by simp [List.all_cons] at h; exact h.1
    have : c.toNat ≠ 43 := fun e => hex_not_sign hc (Or.inl e)
    simp only [fromStrRadix16, if_neg this]
    exact digitsLoop_ok bits _ h 0 hlt

/-! ### slicing never panics on hex digits -/

theorem isCharBoundary_of_allHex {d : Bytes} (h : d.all isHexDigit = true) {i : Nat} (hi : i ≤ d.length) :
    isCharBoundary d i = true := by
  unfold isCharBoundary
  by_cases h0 : i = 0
  · simp [h0]
  · by_cases hl : d.length ≤ i
    · have : i = d.length := by omega
      simp [this]
    · have hlt : i < d.length := by omega
      have hm : d[i] ∈ d := List.getElem_mem hlt
      have := hex_lt_128 (List.all_eq_true.mp h _ hm)
      simp [h0, hl, List.getD_eq_getElem?_getD, List.getElem?_eq_getElem hlt, this]

theorem slice_ok {d : Bytes} (h : d.all isHexDigit = true) {i j : Nat} (hij : i ≤ j) (hj : j ≤ d.length) :
    slice d i j = some ((d.drop i).take (j - i)) := by
  unfold slice
  rw [if_pos ⟨hij, isCharBoundary_of_allHex h (by omega), isCharBoundary_of_allHex h hj⟩]

theorem allHex_sub {d : Bytes} (h : d.all isHexDigit = true) (i n : Nat) : ((d.drop i).take n).all isHexDigit = true := by
  rw [List.all_eq_true] at h ⊢
  intro x hx
  exact h x (List.mem_of_mem_drop (List.mem_of_mem_take hx))

/-- group `k` of `w` digits -/
def grp (w k : Nat) (d : Bytes) : Nat := hexVal ((d.drop (k * w)).take w) 0

theorem comp_ok {bits : Nat} {d : Bytes} (h : d.all isHexDigit = true) {i j : Nat} (hij : i < j) (hj : j ≤ d.length)
    (hb : 16 ^ (j - i) ≤ 2 ^ bits) : comp bits d i j = .ok (hexVal ((d.drop i).take (j - i)) 0) := by
  unfold comp
  rw [slice_ok h (Nat.le_of_lt hij) hj]
  have hlen : ((d.drop i).take (j - i)).length = j - i := by simp [List.length_take, List.length_drop]; omega
  have hne : (d.drop i).take (j - i) ≠ [] := by
    intro e; rw [e] at hlen; simp at hlen; omega
  simp only [fromStrRadix16_ok bits _ hne (allHex_sub h i (j - i)) (by rw [hlen]; exact hb)]

/-! ### `hex.rs` on a string of the right length: the digits decide -/

theorem checkHexDigits_true {d : Bytes} (h : d.all isHexDigit = true) : checkHexDigits d = .ok () := by
  simp [checkHexDigits, h]
theorem checkHexDigits_false {d : Bytes} (h : ¬ d.all isHexDigit = true) : checkHexDigits d = .err (.parseInt .invalidDigit) := by
  simp [checkHexDigits, h]

theorem rgbFromHex4bit_ok {d : Bytes} (h : d.all isHexDigit = true) (hl : 3 ≤ d.length) :
    rgbFromHex4bit d = .ok [grp 1 0 d * 17, grp 1 1 d * 17, grp 1 2 d * 17] := by
  simp only [rgbFromHex4bit, rgbFromHex4bitBody, checkHexDigits_true h, Outcome.bind,
    comp_ok (bits := 8) h (i := 0) (j := 1) (by omega) (by omega) (by decide),
    comp_ok (bits := 8) h (i := 1) (j := 2) (by omega) (by omega) (by decide),
    comp_ok (bits := 8) h (i := 2) (j := 3) (by omega) (by omega) (by decide), grp]

theorem rgbaFromHex4bit_ok {d : Bytes} (h : d.all isHexDigit = true) (hl : 4 ≤ d.length) :
    rgbaFromHex4bit d = .ok [grp 1 0 d * 17, grp 1 1 d * 17, grp 1 2 d * 17, grp 1 3 d * 17] := by
  simp only [rgbaFromHex4bit, rgbaFromHex4bitBody, rgbFromHex4bit_ok h (by omega), Outcome.bind,
    comp_ok (bits := 8) h (i := 3) (j := 4) (by omega) (by omega) (by decide), grp, List.cons_append, List.nil_append]

theorem rgbFromHexBody_ok {bits w : Nat} (hw : bits / 4 = w) (hw0 : 0 < w) (hb : 16 ^ w ≤ 2 ^ bits) {d : Bytes}
    (h : d.all isHexDigit = true) (hl : 3 * w ≤ d.length) :
    rgbFromHexBody bits d = .ok [grp w 0 d, grp w 1 d, grp w 2 d] := by
  have e1 : w - 0 = w := by omega
  have e2 : 2 * w - w = w := by omega
  have e3 : 3 * w - 2 * w = w := by omega
  simp only [rgbFromHexBody, hw, Outcome.bind,
    comp_ok (bits := bits) h (i := 0) (j := w) (by omega) (by omega) (by rw [e1]; exact hb),
    comp_ok (bits := bits) h (i := w) (j := 2 * w) (by omega) (by omega) (by rw [e2]; exact hb),
    comp_ok (bits := bits) h (i := 2 * w) (j := 3 * w) (by omega) (by omega) (by rw [e3]; exact hb), grp, e1, e2, e3,
    Nat.zero_mul, Nat.one_mul]

theorem rgbaFromHexBody_ok {bits w : Nat} (hw : bits / 4 = w) (hw0 : 0 < w) (hb : 16 ^ w ≤ 2 ^ bits) {d : Bytes}
    (h : d.all isHexDigit = true) (hl : 4 * w ≤ d.length) {rgb : Bytes → Outcome (List Nat)} {c : List Nat} (hrgb : rgb d = .ok c) :
    rgbaFromHexBody bits rgb d = .ok (c ++ [grp w 3 d]) := by
  have e4 : 4 * w - 3 * w = w := by omega
  simp only [rgbaFromHexBody, hw, hrgb, Outcome.bind,
    comp_ok (bits := bits) h (i := 3 * w) (j := 4 * w) (by omega) (by omega) (by rw [e4]; exact hb), grp, e4]

/-- the colour a digit string of the right length denotes, per `hex.rs` function -/
def val4 (n : Nat) (d : Bytes) : List Nat := (List.range n).map fun k => grp 1 k d * 17
def valW (w n : Nat) (d : Bytes) : List Nat := (List.range n).map fun k => grp w k d

theorem rgbFromHex4bit_spec {d : Bytes} (hl : 3 ≤ d.length) :
    rgbFromHex4bit d = if d.all isHexDigit = true then .ok (val4 3 d) else .err (.parseInt .invalidDigit) := by
  by_cases h : d.all isHexDigit = true
  · rw [if_pos h, rgbFromHex4bit_ok h hl]; rfl
  · rw [if_neg h]; simp [rgbFromHex4bit, checkHexDigits_false h, Outcome.bind]

theorem rgbaFromHex4bit_spec {d : Bytes} (hl : 4 ≤ d.length) :
    rgbaFromHex4bit d = if d.all isHexDigit = true then .ok (val4 4 d) else .err (.parseInt .invalidDigit) := by
  by_cases h : d.all isHexDigit = true
  · rw [if_pos h, rgbaFromHex4bit_ok h hl]; rfl
  · rw [if_neg h]; simp [rgbaFromHex4bit, rgbaFromHex4bitBody, rgbFromHex4bit, checkHexDigits_false h, Outcome.bind]

theorem rgbFromHex8bit_spec {d : Bytes} (hl : 6 ≤ d.length) :
    rgbFromHex8bit d = if d.all isHexDigit = true then .ok (valW 2 3 d) else .err (.parseInt .invalidDigit) := by
  by_cases h : d.all isHexDigit = true
  · rw [if_pos h]; simp only [rgbFromHex8bit, checkHexDigits_true h, Outcome.bind]
    rw [rgbFromHexBody_ok (w := 2) (by decide) (by decide) (by decide) h (by omega)]; rfl
  · rw [if_neg h]; simp [rgbFromHex8bit, checkHexDigits_false h, Outcome.bind]

theorem rgbaFromHex8bit_spec {d : Bytes} (hl : 8 ≤ d.length) :
    rgbaFromHex8bit d = if d.all isHexDigit = true then .ok (valW 2 4 d) else .err (.parseInt .invalidDigit) := by
  by_cases h : d.all isHexDigit = true
  · rw [if_pos h, rgbaFromHex8bit, rgbaFromHexBody_ok (w := 2) (by decide) (by decide) (by decide) h (by omega)
      (by rw [rgbFromHex8bit_spec (by omega), if_pos h])]; rfl
  · rw [if_neg h]; simp [rgbaFromHex8bit, rgbaFromHexBody, rgbFromHex8bit, checkHexDigits_false h, Outcome.bind]

theorem rgbFromHex16bit_spec {d : Bytes} (hl : 12 ≤ d.length) :
    rgbFromHex16bit d = if d.all isHexDigit = true then .ok (valW 4 3 d) else .err (.parseInt .invalidDigit) := by
  by_cases h : d.all isHexDigit = true
  · rw [if_pos h]; simp only [rgbFromHex16bit, checkHexDigits_true h, Outcome.bind]
    rw [rgbFromHexBody_ok (w := 4) (by decide) (by decide) (by decide) h (by omega)]; rfl
  · rw [if_neg h]; simp [rgbFromHex16bit, checkHexDigits_false h, Outcome.bind]

theorem rgbaFromHex16bit_spec {d : Bytes} (hl : 16 ≤ d.length) :
    rgbaFromHex16bit d = if d.all isHexDigit = true then .ok (valW 4 4 d) else .err (.parseInt .invalidDigit) := by
  by_cases h : d.all isHexDigit = true
  · rw [if_pos h, rgbaFromHex16bit, rgbaFromHexBody_ok (w := 4) (by decide) (by decide) (by decide) h (by omega)
      (by rw [rgbFromHex16bit_spec (by omega), if_pos h])]; rfl
  · rw [if_neg h]; simp [rgbaFromHex16bit, rgbaFromHexBody, rgbFromHex16bit, checkHexDigits_false h, Outcome.bind]

theorem rgbFromHex32bit_spec {d : Bytes} (hl : 24 ≤ d.length) :
    rgbFromHex32bit d = if d.all isHexDigit = true then .ok (valW 8 3 d) else .err (.parseInt .invalidDigit) := by
  by_cases h : d.all isHexDigit = true
  · rw [if_pos h]; simp only [rgbFromHex32bit, checkHexDigits_true h, Outcome.bind]
    rw [rgbFromHexBody_ok (w := 8) (by decide) (by decide) (by decide) h (by omega)]; rfl
  · rw [if_neg h]; simp [rgbFromHex32bit, checkHexDigits_false h, Outcome.bind]

theorem rgbaFromHex32bit_spec {d : Bytes} (hl : 32 ≤ d.length) :
    rgbaFromHex32bit d = if d.all isHexDigit = true then .ok (valW 8 4 d) else .err (.parseInt .invalidDigit) := by
  by_cases h : d.all isHexDigit = true
  · rw [if_pos h, rgbaFromHex32bit, rgbaFromHexBody_ok (w := 8) (by decide) (by decide) (by decide) h (by omega)
      (by rw [rgbFromHex32bit_spec (by omega), if_pos h])]; rfl
  · rw [if_neg h]; simp [rgbaFromHex32bit, rgbaFromHexBody, rgbFromHex32bit, checkHexDigits_false h, Outcome.bind]

/-! ### the grammar and what "strict and total" means for a parser -/

/-- "an optional '#' followed by exactly the documented number of hexadecimal digits": `counts` are the documented
    digit counts of the target type -/
def Grammar (counts : List Nat) (s : Bytes) : Prop :=
  ∃ d : Bytes, (s = d ∨ s = 35 :: d) ∧ d.length ∈ counts ∧ d.all isHexDigit = true

theorem grammar_iff (counts : List Nat) (s : Bytes) :
    Grammar counts s ↔ ((stripHash s).length ∈ counts ∧ (stripHash s).all isHexDigit = true) := by
  constructor
  · rintro ⟨d, hs | hs, hl, hd⟩
    · subst hs; rw [stripHash_of_allHex hd]; exact ⟨hl, hd⟩
    · subst hs; rw [stripHash_hash]; exact ⟨hl, hd⟩
  · rintro ⟨hl, hd⟩
    refine ⟨stripHash s, ?_, hl, hd⟩
    rcases stripHash_cases s with h | h
    · left; exact h.symm
    · right; exact h

/-- complete description of a parser `F` up to the kind of error: on the grammar it returns `V` of the digits,
    off the grammar it returns an error; in particular it never panics -/
def Spec (F : Bytes → Outcome (List α)) (counts : List Nat) (V : Bytes → List α) : Prop :=
  ∀ s : Bytes,
    (((stripHash s).length ∈ counts ∧ (stripHash s).all isHexDigit = true) → F s = .ok (V (stripHash s))) ∧
    (¬ ((stripHash s).length ∈ counts ∧ (stripHash s).all isHexDigit = true) → ∃ e, F s = .err e)

theorem Spec.ok_iff {F : Bytes → Outcome (List α)} {counts V} (h : Spec F counts V) (s : Bytes) :
    (∃ c, F s = .ok c) ↔ Grammar counts s := by
  rw [grammar_iff]
  constructor
  · rintro ⟨c, hc⟩
    by_cases hg : (stripHash s).length ∈ counts ∧ (stripHash s).all isHexDigit = true
    · exact hg
    · obtain ⟨e, he⟩ := (h s).2 hg
      rw [he] at hc; cases hc
  · intro hg; exact ⟨_, (h s).1 hg⟩

theorem Spec.no_panic {F : Bytes → Outcome (List α)} {counts V} (h : Spec F counts V) (s : Bytes) : F s ≠ .panic := by
  by_cases hg : (stripHash s).length ∈ counts ∧ (stripHash s).all isHexDigit = true
  · rw [(h s).1 hg]; intro e; cases e
  · obtain ⟨e, he⟩ := (h s).2 hg
    rw [he]; intro e; cases e

theorem Spec.rejects {F : Bytes → Outcome (List α)} {counts V} (h : Spec F counts V) (s : Bytes) (hg : ¬ Grammar counts s) :
    ∃ e, F s = .err e := (h s).2 (by rwa [← grammar_iff])

theorem Spec.value {F : Bytes → Outcome (List α)} {counts V} (h : Spec F counts V) (s : Bytes) (hg : Grammar counts s) :
    F s = .ok (V (stripHash s)) := (h s).1 (by rwa [← grammar_iff])

/-- a parser called on the already stripped code of a documented length (the `FromStr` impls call each other like
    that, and the callee strips a `#` again): the digits decide -/
theorem Spec.inner {F : Bytes → Outcome (List α)} {counts V} (h : Spec F counts V) (d : Bytes)
    (hl : d.length ∈ counts) (hp : d.length - 1 ∉ counts ∨ d.length = 0) :
    (d.all isHexDigit = true → F d = .ok (V d)) ∧ (¬ d.all isHexDigit = true → ∃ e, F d = .err e) := by
  constructor
  · intro hd
    have := (h d).1 (by rw [stripHash_of_allHex hd]; exact ⟨hl, hd⟩)
    rwa [stripHash_of_allHex hd] at this
  · intro hd
    apply (h d).2
    rintro ⟨hl', hd'⟩
    rcases stripHash_cases d with e | e
    · rw [e] at hd'; exact hd hd'
    · have : d.length = (stripHash d).length + 1 := by conv => lhs; rw [e]; simp
      rcases hp with hp | hp
      · apply hp; have : d.length - 1 = (stripHash d).length := by omega
        rw [this]; exact hl'
      · omega

theorem map_ok {x : Outcome α} {v : α} (f : α → β) (h : x = .ok v) : x.map f = .ok (f v) := by
  subst h; rfl
theorem map_err {x : Outcome α} {e : Err} (f : α → β) (h : x = .err e) : x.map f = .err e := by
  subst h; rfl

/-! ### the ten `FromStr` impls -/

def valRgbU8 (d : Bytes) : List Nat := if d.length = 3 then val4 3 d else valW 2 3 d
def valRgbaU8 (d : Bytes) : List Nat := if d.length = 4 then val4 4 d else valW 2 4 d

theorem fromStrRgbU8_spec : Spec fromStrRgbU8 [3, 6] valRgbU8 := by
  intro s
  simp only [fromStrRgbU8, valRgbU8, List.mem_cons, List.not_mem_nil, or_false]
  by_cases h3 : (stripHash s).length = 3
  · rw [if_pos h3, if_pos h3, rgbFromHex4bit_spec (by omega)]
    by_cases hd : (stripHash s).all isHexDigit = true <;> simp [hd, h3]
  · rw [if_neg h3, if_neg h3]
    by_cases h6 : (stripHash s).length = 6
    · rw [if_pos h6, rgbFromHex8bit_spec (by omega)]
      by_cases hd : (stripHash s).all isHexDigit = true <;> simp [hd, h6]
    · simp [h3, h6]

theorem fromStrRgbaU8_spec : Spec fromStrRgbaU8 [4, 8] valRgbaU8 := by
  intro s
  simp only [fromStrRgbaU8, valRgbaU8, List.mem_cons, List.not_mem_nil, or_false]
  by_cases h3 : (stripHash s).length = 4
  · rw [if_pos h3, if_pos h3, rgbaFromHex4bit_spec (by omega)]
    by_cases hd : (stripHash s).all isHexDigit = true <;> simp [hd, h3]
  · rw [if_neg h3, if_neg h3]
    by_cases h6 : (stripHash s).length = 8
    · rw [if_pos h6, rgbaFromHex8bit_spec (by omega)]
      by_cases hd : (stripHash s).all isHexDigit = true <;> simp [hd, h6]
    · simp [h3, h6]

theorem delegate {F : Bytes → Outcome (List α)} {counts V} (h : Spec F counts V) (f : α → β) (d : Bytes)
    (hl : d.length ∈ counts) (hp : d.length - 1 ∉ counts) :
    (d.all isHexDigit = true → (F d).map (List.map f) = .ok ((V d).map f)) ∧
    (¬ d.all isHexDigit = true → ∃ e, (F d).map (List.map f) = .err e) := by
  obtain ⟨h1, h2⟩ := h.inner d hl (Or.inl hp)
  exact ⟨fun hd => map_ok _ (h1 hd), fun hd => by obtain ⟨e, he⟩ := h2 hd; exact ⟨e, map_err _ he⟩⟩

def valRgbU16 (d : Bytes) : List Nat :=
  if d.length = 3 ∨ d.length = 6 then (valRgbU8 d).map (Stim.widen 8 16)
  else valW 4 3 d

theorem fromStrRgbU16_spec : Spec (fromStrRgbU16) [3, 6, 12] (valRgbU16) := by
  intro s
  simp only [fromStrRgbU16, valRgbU16, List.mem_cons, List.not_mem_nil, or_false]
  generalize stripHash s = d
  by_cases h0 : d.length = 3 ∨ d.length = 6
  · rw [if_pos h0, if_pos h0]
    obtain ⟨hok, herr⟩ := delegate fromStrRgbU8_spec (Stim.widen 8 16) d (by simp only [List.mem_cons, List.not_mem_nil, or_false]; omega) (by simp only [List.mem_cons, List.not_mem_nil, or_false]; omega)
    exact ⟨fun hg => hok hg.2, fun hn => herr (fun hd => hn ⟨by omega, hd⟩)⟩
  · rw [if_neg h0, if_neg h0]
    by_cases h1 : d.length = 12
    · rw [if_pos h1]
      rw [rgbFromHex16bit_spec (by omega)]
      by_cases hd : d.all isHexDigit = true <;> simp [hd, h1]
    · rw [if_neg h1]
      exact ⟨fun hg => absurd hg.1 (by omega), fun _ => ⟨_, rfl⟩⟩

def valRgbaU16 (d : Bytes) : List Nat :=
  if d.length = 4 ∨ d.length = 8 then (valRgbaU8 d).map (Stim.widen 8 16)
  else valW 4 4 d

theorem fromStrRgbaU16_spec : Spec (fromStrRgbaU16) [4, 8, 16] (valRgbaU16) := by
  intro s
  simp only [fromStrRgbaU16, valRgbaU16, List.mem_cons, List.not_mem_nil, or_false]
  generalize stripHash s = d
  by_cases h0 : d.length = 4 ∨ d.length = 8
  · rw [if_pos h0, if_pos h0]
    obtain ⟨hok, herr⟩ := delegate fromStrRgbaU8_spec (Stim.widen 8 16) d (by simp only [List.mem_cons, List.not_mem_nil, or_false]; omega) (by simp only [List.mem_cons, List.not_mem_nil, or_false]; omega)
    exact ⟨fun hg => hok hg.2, fun hn => herr (fun hd => hn ⟨by omega, hd⟩)⟩
  · rw [if_neg h0, if_neg h0]
    by_cases h1 : d.length = 16
    · rw [if_pos h1]
      rw [rgbaFromHex16bit_spec (by omega)]
      by_cases hd : d.all isHexDigit = true <;> simp [hd, h1]
    · rw [if_neg h1]
      exact ⟨fun hg => absurd hg.1 (by omega), fun _ => ⟨_, rfl⟩⟩

def valRgbU32 (d : Bytes) : List Nat :=
  if d.length = 3 ∨ d.length = 6 then (valRgbU8 d).map (Stim.widen 8 32)
  else if d.length = 12 then (valRgbU16 d).map (Stim.widen 16 32)
  else valW 8 3 d

theorem fromStrRgbU32_spec : Spec (fromStrRgbU32) [3, 6, 12, 24] (valRgbU32) := by
  intro s
  simp only [fromStrRgbU32, valRgbU32, List.mem_cons, List.not_mem_nil, or_false]
  generalize stripHash s = d
  by_cases h0 : d.length = 3 ∨ d.length = 6
  · rw [if_pos h0, if_pos h0]
    obtain ⟨hok, herr⟩ := delegate fromStrRgbU8_spec (Stim.widen 8 32) d (by simp only [List.mem_cons, List.not_mem_nil, or_false]; omega) (by simp only [List.mem_cons, List.not_mem_nil, or_false]; omega)
    exact ⟨fun hg => hok hg.2, fun hn => herr (fun hd => hn ⟨by omega, hd⟩)⟩
  · rw [if_neg h0, if_neg h0]
    by_cases h1 : d.length = 12
    · rw [if_pos h1, if_pos h1]
      obtain ⟨hok, herr⟩ := delegate fromStrRgbU16_spec (Stim.widen 16 32) d (by simp only [List.mem_cons, List.not_mem_nil, or_false]; omega) (by simp only [List.mem_cons, List.not_mem_nil, or_false]; omega)
      exact ⟨fun hg => hok hg.2, fun hn => herr (fun hd => hn ⟨by omega, hd⟩)⟩
    · rw [if_neg h1, if_neg h1]
      by_cases h2 : d.length = 24
      · rw [if_pos h2]
        rw [rgbFromHex32bit_spec (by omega)]
        by_cases hd : d.all isHexDigit = true <;> simp [hd, h2]
      · rw [if_neg h2]
        exact ⟨fun hg => absurd hg.1 (by omega), fun _ => ⟨_, rfl⟩⟩

def valRgbaU32 (d : Bytes) : List Nat :=
  if d.length = 4 ∨ d.length = 8 then (valRgbaU8 d).map (Stim.widen 8 32)
  else if d.length = 16 then (valRgbaU16 d).map (Stim.widen 16 32)
  else valW 8 4 d

theorem fromStrRgbaU32_spec : Spec (fromStrRgbaU32) [4, 8, 16, 32] (valRgbaU32) := by
  intro s
  simp only [fromStrRgbaU32, valRgbaU32, List.mem_cons, List.not_mem_nil, or_false]
  generalize stripHash s = d
  by_cases h0 : d.length = 4 ∨ d.length = 8
  · rw [if_pos h0, if_pos h0]
    obtain ⟨hok, herr⟩ := delegate fromStrRgbaU8_spec (Stim.widen 8 32) d (by simp only [List.mem_cons, List.not_mem_nil, or_false]; omega) (by simp only [List.mem_cons, List.not_mem_nil, or_false]; omega)
    exact ⟨fun hg => hok hg.2, fun hn => herr (fun hd => hn ⟨by omega, hd⟩)⟩
  · rw [if_neg h0, if_neg h0]
    by_cases h1 : d.length = 16
    · rw [if_pos h1, if_pos h1]
      obtain ⟨hok, herr⟩ := delegate fromStrRgbaU16_spec (Stim.widen 16 32) d (by simp only [List.mem_cons, List.not_mem_nil, or_false]; omega) (by simp only [List.mem_cons, List.not_mem_nil, or_false]; omega)
      exact ⟨fun hg => hok hg.2, fun hn => herr (fun hd => hn ⟨by omega, hd⟩)⟩
    · rw [if_neg h1, if_neg h1]
      by_cases h2 : d.length = 32
      · rw [if_pos h2]
        rw [rgbaFromHex32bit_spec (by omega)]
        by_cases hd : d.all isHexDigit = true <;> simp [hd, h2]
      · rw [if_neg h2]
        exact ⟨fun hg => absurd hg.1 (by omega), fun _ => ⟨_, rfl⟩⟩

def valRgbF32 (conv : Nat → Nat → φ) (d : Bytes) : List φ :=
  if d.length = 3 ∨ d.length = 6 then (valRgbU8 d).map (conv 8)
  else (valRgbU16 d).map (conv 16)

theorem fromStrRgbF32_spec (conv : Nat → Nat → φ) : Spec (fromStrRgbF32 conv) [3, 6, 12] (valRgbF32 conv) := by
  intro s
  simp only [fromStrRgbF32, valRgbF32, List.mem_cons, List.not_mem_nil, or_false]
  generalize stripHash s = d
  by_cases h0 : d.length = 3 ∨ d.length = 6
  · rw [if_pos h0, if_pos h0]
    obtain ⟨hok, herr⟩ := delegate fromStrRgbU8_spec (conv 8) d (by simp only [List.mem_cons, List.not_mem_nil, or_false]; omega) (by simp only [List.mem_cons, List.not_mem_nil, or_false]; omega)
    exact ⟨fun hg => hok hg.2, fun hn => herr (fun hd => hn ⟨by omega, hd⟩)⟩
  · rw [if_neg h0, if_neg h0]
    by_cases h1 : d.length = 12
    · rw [if_pos h1]
      obtain ⟨hok, herr⟩ := delegate fromStrRgbU16_spec (conv 16) d (by simp only [List.mem_cons, List.not_mem_nil, or_false]; omega) (by simp only [List.mem_cons, List.not_mem_nil, or_false]; omega)
      exact ⟨fun hg => hok hg.2, fun hn => herr (fun hd => hn ⟨by omega, hd⟩)⟩
    · rw [if_neg h1]
      exact ⟨fun hg => absurd hg.1 (by omega), fun _ => ⟨_, rfl⟩⟩

def valRgbaF32 (conv : Nat → Nat → φ) (d : Bytes) : List φ :=
  if d.length = 4 ∨ d.length = 8 then (valRgbaU8 d).map (conv 8)
  else (valRgbaU16 d).map (conv 16)

theorem fromStrRgbaF32_spec (conv : Nat → Nat → φ) : Spec (fromStrRgbaF32 conv) [4, 8, 16] (valRgbaF32 conv) := by
  intro s
  simp only [fromStrRgbaF32, valRgbaF32, List.mem_cons, List.not_mem_nil, or_false]
  generalize stripHash s = d
  by_cases h0 : d.length = 4 ∨ d.length = 8
  · rw [if_pos h0, if_pos h0]
    obtain ⟨hok, herr⟩ := delegate fromStrRgbaU8_spec (conv 8) d (by simp only [List.mem_cons, List.not_mem_nil, or_false]; omega) (by simp only [List.mem_cons, List.not_mem_nil, or_false]; omega)
    exact ⟨fun hg => hok hg.2, fun hn => herr (fun hd => hn ⟨by omega, hd⟩)⟩
  · rw [if_neg h0, if_neg h0]
    by_cases h1 : d.length = 16
    · rw [if_pos h1]
      obtain ⟨hok, herr⟩ := delegate fromStrRgbaU16_spec (conv 16) d (by simp only [List.mem_cons, List.not_mem_nil, or_false]; omega) (by simp only [List.mem_cons, List.not_mem_nil, or_false]; omega)
      exact ⟨fun hg => hok hg.2, fun hn => herr (fun hd => hn ⟨by omega, hd⟩)⟩
    · rw [if_neg h1]
      exact ⟨fun hg => absurd hg.1 (by omega), fun _ => ⟨_, rfl⟩⟩

def valRgbF64 (conv : Nat → Nat → φ) (d : Bytes) : List φ :=
  if d.length = 3 ∨ d.length = 6 then (valRgbU8 d).map (conv 8)
  else if d.length = 12 then (valRgbU16 d).map (conv 16)
  else (valRgbU32 d).map (conv 32)

theorem fromStrRgbF64_spec (conv : Nat → Nat → φ) : Spec (fromStrRgbF64 conv) [3, 6, 12, 24] (valRgbF64 conv) := by
  intro s
  simp only [fromStrRgbF64, valRgbF64, List.mem_cons, List.not_mem_nil, or_false]
  generalize stripHash s = d
  by_cases h0 : d.length = 3 ∨ d.length = 6
  · rw [if_pos h0, if_pos h0]
    obtain ⟨hok, herr⟩ := delegate fromStrRgbU8_spec (conv 8) d (by simp only [List.mem_cons, List.not_mem_nil, or_false]; omega) (by simp only [List.mem_cons, List.not_mem_nil, or_false]; omega)
    exact ⟨fun hg => hok hg.2, fun hn => herr (fun hd => hn ⟨by omega, hd⟩)⟩
  · rw [if_neg h0, if_neg h0]
    by_cases h1 : d.length = 12
    · rw [if_pos h1, if_pos h1]
      obtain ⟨hok, herr⟩ := delegate fromStrRgbU16_spec (conv 16) d (by simp only [List.mem_cons, List.not_mem_nil, or_false]; omega) (by simp only [List.mem_cons, List.not_mem_nil, or_false]; omega)
      exact ⟨fun hg => hok hg.2, fun hn => herr (fun hd => hn ⟨by omega, hd⟩)⟩
    · rw [if_neg h1, if_neg h1]
      by_cases h2 : d.length = 24
      · rw [if_pos h2]
        obtain ⟨hok, herr⟩ := delegate fromStrRgbU32_spec (conv 32) d (by simp only [List.mem_cons, List.not_mem_nil, or_false]; omega) (by simp only [List.mem_cons, List.not_mem_nil, or_false]; omega)
        exact ⟨fun hg => hok hg.2, fun hn => herr (fun hd => hn ⟨by omega, hd⟩)⟩
      · rw [if_neg h2]
        exact ⟨fun hg => absurd hg.1 (by omega), fun _ => ⟨_, rfl⟩⟩

def valRgbaF64 (conv : Nat → Nat → φ) (d : Bytes) : List φ :=
  if d.length = 4 ∨ d.length = 8 then (valRgbaU8 d).map (conv 8)
  else if d.length = 16 then (valRgbaU16 d).map (conv 16)
  else (valRgbaU32 d).map (conv 32)

theorem fromStrRgbaF64_spec (conv : Nat → Nat → φ) : Spec (fromStrRgbaF64 conv) [4, 8, 16, 32] (valRgbaF64 conv) := by
  intro s
  simp only [fromStrRgbaF64, valRgbaF64, List.mem_cons, List.not_mem_nil, or_false]
  generalize stripHash s = d
  by_cases h0 : d.length = 4 ∨ d.length = 8
  · rw [if_pos h0, if_pos h0]
    obtain ⟨hok, herr⟩ := delegate fromStrRgbaU8_spec (conv 8) d (by simp only [List.mem_cons, List.not_mem_nil, or_false]; omega) (by simp only [List.mem_cons, List.not_mem_nil, or_false]; omega)
    exact ⟨fun hg => hok hg.2, fun hn => herr (fun hd => hn ⟨by omega, hd⟩)⟩
  · rw [if_neg h0, if_neg h0]
    by_cases h1 : d.length = 16
    · rw [if_pos h1, if_pos h1]
      obtain ⟨hok, herr⟩ := delegate fromStrRgbaU16_spec (conv 16) d (by simp only [List.mem_cons, List.not_mem_nil, or_false]; omega) (by simp only [List.mem_cons, List.not_mem_nil, or_false]; omega)
      exact ⟨fun hg => hok hg.2, fun hn => herr (fun hd => hn ⟨by omega, hd⟩)⟩
    · rw [if_neg h1, if_neg h1]
      by_cases h2 : d.length = 32
      · rw [if_pos h2]
        obtain ⟨hok, herr⟩ := delegate fromStrRgbaU32_spec (conv 32) d (by simp only [List.mem_cons, List.not_mem_nil, or_false]; omega) (by simp only [List.mem_cons, List.not_mem_nil, or_false]; omega)
        exact ⟨fun hg => hok hg.2, fun hn => herr (fun hd => hn ⟨by omega, hd⟩)⟩
      · rw [if_neg h2]
        exact ⟨fun hg => absurd hg.1 (by omega), fun _ => ⟨_, rfl⟩⟩

/-- exactly `w` digits of `n`, most significant first -/
def fixedDigits (upper : Bool) : Nat → Nat → Bytes
  | 0, _ => []
  | w + 1, n => fixedDigits upper w (n / 16) ++ [digitChar upper (n % 16)]

theorem fixedDigits_length (up : Bool) : ∀ w n, (fixedDigits up w n).length = w := by
  intro w; induction w with
  | zero => intro n; rfl
  | succ w ih => intro n; simp [fixedDigits, ih]

theorem digitChar_zero (up : Bool) : digitChar up 0 = 48 := by cases up <;> rfl

theorem fixedDigits_zero (up : Bool) : ∀ w, fixedDigits up w 0 = List.replicate w 48 := by
  intro w; induction w with
  | zero => rfl
  | succ w ih => simp [fixedDigits, ih, digitChar_zero, List.replicate_succ']

theorem hexDigits_succ (up : Bool) (f n : Nat) :
    hexDigits up (f + 1) n = (if n / 16 = 0 then [] else hexDigits up f (n / 16)) ++ [digitChar up (n % 16)] := rfl
theorem fixedDigits_succ (up : Bool) (w n : Nat) :
    fixedDigits up (w + 1) n = fixedDigits up w (n / 16) ++ [digitChar up (n % 16)] := rfl

/-- zero-padded minimal digits = fixed-width digits, when the number fits -/
theorem pad_hexDigits (up : Bool) : ∀ w f n, n < 16 ^ (f + 1) → n < 16 ^ (w + 1) →
    List.replicate (w + 1 - (hexDigits up (f + 1) n).length) 48 ++ hexDigits up (f + 1) n = fixedDigits up (w + 1) n := by
  intro w; induction w with
  | zero =>
    intro f n _ hn
    have h0 : n / 16 = 0 := by simp at hn; omega
    simp [hexDigits_succ, fixedDigits, h0]
  | succ w ih =>
    intro f n hf hn
    by_cases h0 : n / 16 = 0
    · rw [hexDigits_succ, fixedDigits_succ, if_pos h0, h0, fixedDigits_zero]
      simp
    · cases f with
      | zero => simp at hf; omega
      | succ f =>
        have hf' : n / 16 < 16 ^ (f + 1) := by rw [Nat.pow_succ] at hf; omega
        have hn' : n / 16 < 16 ^ (w + 1) := by rw [Nat.pow_succ] at hn; omega
        have := ih f (n / 16) hf' hn'
        rw [fixedDigits_succ, ← this, hexDigits_succ up (f + 1) n, if_neg h0]
        generalize hexDigits up (f + 1) (n / 16) = ds
        have e : w + 1 + 1 - (ds ++ [digitChar up (n % 16)]).length = w + 1 - ds.length := by simp
        rw [e, List.append_assoc]

theorem fmtComp_eq_fixed (up : Bool) {w n : Nat} (hw : 1 ≤ w) (hw32 : w ≤ 32) (hn : n < 16 ^ w) :
    fmtComp up w n = fixedDigits up w n := by
  obtain ⟨w', rfl⟩ : ∃ w', w = w' + 1 := ⟨w - 1, by omega⟩
  have : n < 16 ^ (31 + 1) := Nat.lt_of_lt_of_le hn (Nat.pow_le_pow_right (by decide) hw32)
  exact pad_hexDigits up w' 31 n this hn

/-! ### parsing what the formatter wrote -/

theorem toDigit_digitChar (up : Bool) : ∀ d, d < 16 → toDigit (digitChar up d) = some d := by
  cases up <;> decide

theorem isHexDigit_digitChar (up : Bool) : ∀ d, d < 16 → isHexDigit (digitChar up d) = true := by
  cases up <;> decide

theorem fixedDigits_allHex (up : Bool) : ∀ w n, (fixedDigits up w n).all isHexDigit = true := by
  intro w; induction w with
  | zero => intro n; rfl
  | succ w ih =>
    intro n
    rw [fixedDigits_succ, List.all_append, ih]
    simp [isHexDigit_digitChar up (n % 16) (Nat.mod_lt _ (by decide))]

theorem hexVal_append (a b : Bytes) (acc : Nat) : hexVal (a ++ b) acc = hexVal b (hexVal a acc) := by
  simp [hexVal, List.foldl_append]

theorem hexVal_fixedDigits (up : Bool) : ∀ w n acc, n < 16 ^ w → hexVal (fixedDigits up w n) acc = acc * 16 ^ w + n := by
  intro w; induction w with
  | zero => intro n acc hn; simp at hn; subst hn; simp [fixedDigits, hexVal]
  | succ w ih =>
    intro n acc hn
    have hn' : n / 16 < 16 ^ w := by rw [Nat.pow_succ] at hn; omega
    rw [fixedDigits_succ, hexVal_append, ih _ _ hn']
    simp only [hexVal, List.foldl_cons, List.foldl_nil, toDigit_digitChar up (n % 16) (Nat.mod_lt _ (by decide)), Option.getD_some]
    rw [Nat.pow_succ, ← Nat.mul_assoc]
    omega

theorem grp_append_zero {w : Nat} {a r : Bytes} (h : a.length = w) : grp w 0 (a ++ r) = hexVal a 0 := by
  simp [grp, List.take_left' h]

theorem grp_append_succ {w : Nat} {a r : Bytes} (h : a.length = w) (k : Nat) : grp w (k + 1) (a ++ r) = grp w k r := by
  have : (k + 1) * w = a.length + k * w := by rw [h, Nat.succ_mul]; omega
  have e : List.drop (a.length + k * w) a = [] := List.drop_eq_nil_of_le (Nat.le_add_right _ _)
  simp [grp, this, List.drop_append, e]

/-- the digit groups of a formatted component list are the components -/
theorem valW_flatMap (up : Bool) (w : Nat) : ∀ cs : List Nat, (∀ c ∈ cs, c < 16 ^ w) →
    valW w cs.length (cs.flatMap (fixedDigits up w)) = cs := by
  intro cs; induction cs with
  | nil => intro _; rfl
  | cons c cs ih =>
    intro hc
    have hlen := fixedDigits_length up w c
    have hc0 : c < 16 ^ w := hc c (by simp)
    have := ih (fun x hx => hc x (by simp [hx]))
    simp only [valW, List.length_cons, List.flatMap_cons, List.range_succ_eq_map, List.map_cons, List.map_map] at this ⊢
    rw [grp_append_zero hlen, hexVal_fixedDigits up w c 0 hc0]
    simp only [Nat.zero_mul, Nat.zero_add, List.cons.injEq, true_and]
    conv => rhs; rw [← this]
    apply List.map_congr_left
    intro k _
    simp [grp_append_succ hlen]

theorem flatMap_fixed_length (up : Bool) (w : Nat) (cs : List Nat) : (cs.flatMap (fixedDigits up w)).length = cs.length * w := by
  induction cs with
  | nil => simp
  | cons c cs ih => simp [List.flatMap_cons, fixedDigits_length, ih, Nat.succ_mul]; omega

theorem flatMap_fixed_allHex (up : Bool) (w : Nat) (cs : List Nat) : (cs.flatMap (fixedDigits up w)).all isHexDigit = true := by
  induction cs with
  | nil => rfl
  | cons c cs ih => simp only [List.flatMap_cons, List.all_append, fixedDigits_allHex, ih, Bool.and_self]

theorem flatMap_fmtComp (up : Bool) {w : Nat} (hw : 1 ≤ w) (hw32 : w ≤ 32) (cs : List Nat) (hc : ∀ c ∈ cs, c < 16 ^ w) :
    cs.flatMap (fmtComp up w) = cs.flatMap (fixedDigits up w) := by
  induction cs with
  | nil => rfl
  | cons c cs ih =>
    simp only [List.flatMap_cons]
    rw [fmtComp_eq_fixed up hw hw32 (hc c (by simp)), ih (fun x hx => hc x (by simp [hx]))]

theorem fmtRgb_default (up : Bool) (sz : Nat) (c : List Nat) : fmtRgb up none sz c = c.flatMap (fmtComp up (sz * 2)) := rfl
theorem fmtRgba_default (up : Bool) (sz : Nat) (c : List Nat) : fmtRgba up none sz c = c.flatMap (fmtComp up (sz * 2)) := by
  simp only [fmtRgba, fmtRgb, Option.getD_none, Option.getD_some]
  rw [← List.flatMap_append, List.take_append_drop]

/-- with or without the leading `#` -/
def withHash (hash : Bool) (s : Bytes) : Bytes := if hash then 35 :: s else s

theorem stripHash_withHash (hash : Bool) {s : Bytes} (h : s.all isHexDigit = true) : stripHash (withHash hash s) = s := by
  cases hash
  · exact stripHash_of_allHex h
  · exact stripHash_hash s

/-- core of all six round-trip theorems -/
theorem roundtrip_core {F : Bytes → Outcome (List Nat)} {counts : List Nat} {V : Bytes → List Nat} (hF : Spec F counts V)
    (up hash : Bool) {w : Nat} (hw : 1 ≤ w) (hw32 : w ≤ 32) (c : List Nat) (hc : ∀ x ∈ c, x < 16 ^ w)
    (hcount : c.length * w ∈ counts) (hV : ∀ d : Bytes, d.length = c.length * w → V d = valW w c.length d) :
    F (withHash hash (c.flatMap (fmtComp up w))) = .ok c := by
  rw [flatMap_fmtComp up hw hw32 c hc]
  have hall := flatMap_fixed_allHex up w c
  have hlen := flatMap_fixed_length up w c
  have := (hF (withHash hash (c.flatMap (fixedDigits up w)))).1 (by rw [stripHash_withHash hash hall]; exact ⟨by rw [hlen]; exact hcount, hall⟩)
  rw [this, stripHash_withHash hash hall, hV _ hlen, valW_flatMap up w c hc]
end C12
