/-
  C05 — the decode tables (`IntoLinear<f32|f64, u8>`: `*_U8_TO_F32[c]`, `*_U8_TO_F64[c]`) against the standard's inverse curve at
  `c/255`: the `Nat`-only checks that the kernel evaluates (Mathlib-free; read at ℝ in `C05_DecBound.lean`).

  Every inverse curve is, piece by piece, `y = r^(p/q)` with `r = rn/rd` rational in the code `c` and a rational exponent
  (sRGB 12/5, Rec. 20/9, Adobe RGB 563/256, P3 13/5; the linear toes are `p = q = 1`).  A table entry is a rational `v = vn/vd`
  (`mant·2^expo / 2^150` for f32, `wOf / 2^1074` for f64).  `|v − y| < ε = en/ed` is the pair of integer inequalities
        (v − ε)^q < r^p   (or `v < ε`),        r^p < (v + ε)^q .
-/
import PaletteProofs.Lemmas.C05_ErrCheck

namespace C05D
open Lut C05E

/-- `|vn/vd − (rn/rd)^(p/q)| < en/ed` as integer power comparisons -/
def nearPow (vn vd rn rd p q en ed : Nat) : Bool :=
  (decide (vn * ed < en * vd) || decide ((vn * ed - en * vd)^q * rd^p < rn^p * (vd * ed)^q)) &&
  decide (rn^p * (vd * ed)^q < (vn * ed + en * vd)^q * rd^p)

/-- fixed-point magnitude of a non-negative finite f64 pattern: value = `wOf64 B / 2^1074` (= `Ieee.F64.wOf`, see `C05_DecBound`) -/
def wOf64 (n : Nat) : Nat :=
  if (n / 2^52) % 2^11 = 0 then n % 2^52 else (2^52 + n % 2^52) * 2^((n / 2^52) % 2^11 - 1)

/-- the argument `r = rn/rd` and the exponent `p/q` of the inverse curve of `e` at the code `c` (input `c/255`):
    sRGB  `c/255 ≤ 0.04045 ⟺ c ≤ 10`:  `(c/255)/12.92`, else `((c/255 + 0.055)/1.055)^(12/5)`;
    Rec.  `c/255 < 4.5β ⟺ c ≤ 20`:     `(c/255)/4.5`,   else `((c/255 + α − 1)/α)^(20/9)`, `α = 1.09929682680944`;
    Adobe `(c/255)^(563/256)`;  P3 `(c/255)^(13/5)` -/
def invRn : Enc → Nat → Nat
  | .srgb, c => if c ≤ 10 then 100 * c else 1000 * c + 14025
  | .recOetf, c => if c ≤ 20 then 2 * c else c * 100000000000000 + 255 * 9929682680944
  | .adobeRgb, c => c
  | .p3Gamma, c => c
def invRd : Enc → Nat → Nat
  | .srgb, c => if c ≤ 10 then 329460 else 269025
  | .recOetf, c => if c ≤ 20 then 2295 else 255 * 109929682680944
  | .adobeRgb, _ => 255
  | .p3Gamma, _ => 255
def invP : Enc → Nat → Nat
  | .srgb, c => if c ≤ 10 then 1 else 12
  | .recOetf, c => if c ≤ 20 then 1 else 20
  | .adobeRgb, _ => 563
  | .p3Gamma, _ => 13
def invQ : Enc → Nat → Nat
  | .srgb, c => if c ≤ 10 then 1 else 5
  | .recOetf, c => if c ≤ 20 then 1 else 9
  | .adobeRgb, _ => 256
  | .p3Gamma, _ => 5

/-- stated bounds.  f32 tables: `4e-8` (observed maxima 3.74e-8 sRGB, 2.97e-8 Rec., 2.90e-8 Adobe, 2.94e-8 P3: half an ulp of the f32
    rounding near 1).  f64 tables: sRGB `1.5e-8` (observed 1.40e-8: the generator's continuity-preserving offset `α ≈ 1.055011` instead
    of the published 1.055), the others `2e-15` (observed 1.5e-15 Rec., 1.2e-16 Adobe, 5.6e-17 P3: libm `powf` of the generator). -/
def eps32n : Nat := 4
def eps32d : Nat := 100000000
def eps64n : Enc → Nat
  | .srgb => 15 | _ => 2
def eps64d : Enc → Nat
  | .srgb => 1000000000 | _ => 1000000000000000

def code32OK (e : Enc) (c : Nat) : Bool :=
  let b := intoLinear32 e c
  decide (b ≤ 0x3f800000) &&
  nearPow (mant b * 2^expo b) (2^150) (invRn e c) (invRd e c) (invP e c) (invQ e c) eps32n eps32d

def code64OK (e : Enc) (c : Nat) : Bool :=
  let B := intoLinear64 e c
  decide (B ≤ 0x3ff0000000000000) &&
  nearPow (wOf64 B) (2^1074) (invRn e c) (invRd e c) (invP e c) (invQ e c) (eps64n e) (eps64d e)

/-- all codes `< n` -/
def allBelow (f : Nat → Bool) : Nat → Bool
  | 0 => true
  | n + 1 => f n && allBelow f n

theorem allBelow_get (f : Nat → Bool) : ∀ n, allBelow f n = true → ∀ c, c < n → f c = true
  | 0, _, c, hc => by omega
  | n + 1, h, c, hc => by
    simp only [allBelow, Bool.and_eq_true] at h
    by_cases e : c = n
    · subst e; exact h.1
    · exact allBelow_get f n h.2 c (by omega)

end C05D
