/-
  C05 — reading the per-cell checks of `Lemmas/C05_Err16Check.lean` (16-bit ProPhoto encoder table) at ℝ.

  * `rpow_le_tangent`: `x^p ≤ x₀^p·(1 + p·(x/x₀ − 1))` for `0 ≤ p ≤ 1` (Bernoulli: the concave power lies below its tangents);
  * `affine_lt_rpow`: an affine function below `K·x^p` at the two ends of an interval is below it in between (chord under a concave
    function, derived from the tangent at the intermediate point);
  * `rpow_le_affine`: a tangent of `K·x^p` that is below an affine function at the two ends of an interval keeps `K·x^p` below that
    affine function in between;
  * `upOK_real`, `loOK_real`: the integer power comparisons are these hypotheses; `cell_real`: a cell that passes its six checks has
    `L(t) − 0.6 < 65535·x(t)^(5/9) ≤ L(t) − 0.4` at every one of its 65 536 patterns.
  * `rneDiv_err`, `rnd_err`: the two roundings of the float branch (`Lemmas/F32Round.lean`) are within half a grid step.
-/
import PaletteProofs.Lemmas.C05_Err16Check
import PaletteProofs.Lemmas.C05_ErrReal
import PaletteProofs.Lemmas.F32Round
import Mathlib.Analysis.Convex.SpecificFunctions.Basic
import Mathlib.Tactic.NormNum
import Mathlib.Tactic.Linarith
import Mathlib.Tactic.Positivity
import Mathlib.Tactic.FieldSimp
import Mathlib.Tactic.Ring

namespace C05E16
open C05E

/-! ### concave powers: tangents and chords -/

/-- **Bernoulli, tangent form**: for `0 ≤ p ≤ 1` the power `x^p` lies below its tangent at any `x₀ > 0` -/
theorem rpow_le_tangent {x x0 p : ℝ} (hx : 0 ≤ x) (h0 : 0 < x0) (hp0 : 0 ≤ p) (hp1 : p ≤ 1) :
    x ^ p ≤ x0 ^ p * (1 + p * (x / x0 - 1)) := by
  have hq : 0 ≤ x / x0 := div_nonneg hx h0.le
  have h := rpow_one_add_le_one_add_mul_self (s := x / x0 - 1) (by linarith) hp0 hp1
  have e : x0 * (1 + (x / x0 - 1)) = x := by
    have : x0 * (x / x0) = x := mul_div_cancel₀ x (ne_of_gt h0)
    linarith
  calc x ^ p = (x0 * (1 + (x / x0 - 1))) ^ p := by rw [e]
    _ = x0 ^ p * (1 + (x / x0 - 1)) ^ p := Real.mul_rpow h0.le (by linarith)
    _ ≤ x0 ^ p * (1 + p * (x / x0 - 1)) := mul_le_mul_of_nonneg_left h (Real.rpow_nonneg h0.le p)

theorem affine_pos {α β ta tb t : ℝ} (h1 : ta ≤ t) (h2 : t ≤ tb) (ha : 0 < α + β * ta) (hb : 0 < α + β * tb) :
    0 < α + β * t := by
  rcases le_total 0 β with h | h
  · have := mul_le_mul_of_nonneg_left h1 h; linarith
  · have := mul_le_mul_of_nonpos_left h2 h; linarith

theorem affine_nonneg {α β ta tb t : ℝ} (h1 : ta ≤ t) (h2 : t ≤ tb) (ha : 0 ≤ α + β * ta) (hb : 0 ≤ α + β * tb) :
    0 ≤ α + β * t := by
  rcases le_total 0 β with h | h
  · have := mul_le_mul_of_nonneg_left h1 h; linarith
  · have := mul_le_mul_of_nonpos_left h2 h; linarith

/-- the tangent of `K·x^p` at `x`, as an affine function of `y` -/
theorem tangent_affine (Kc y p x0 s : ℝ) (h0 : x0 ≠ 0) :
    Kc * (y * (1 + p * (s / x0 - 1))) = Kc * y * (1 - p) + Kc * y * p / x0 * s := by
  field_simp
  ring

/-- **chord under a concave power**: an affine function that is below `K·x^p` at both ends of `[xa, xb]` is below it on the interval -/
theorem affine_lt_rpow {a b Kc p xa xb x : ℝ} (hK : 0 ≤ Kc) (hp0 : 0 ≤ p) (hp1 : p ≤ 1)
    (hxa : 0 ≤ xa) (h1 : xa ≤ x) (h2 : x ≤ xb) (hx : 0 < x)
    (ha : a + b * xa < Kc * xa ^ p) (hb : a + b * xb < Kc * xb ^ p) : a + b * x < Kc * x ^ p := by
  have ta := mul_le_mul_of_nonneg_left (rpow_le_tangent (p := p) hxa hx hp0 hp1) hK
  have tb := mul_le_mul_of_nonneg_left (rpow_le_tangent (p := p) (le_trans hxa (le_trans h1 h2)) hx hp0 hp1) hK
  rw [tangent_affine _ _ _ _ _ (ne_of_gt hx)] at ta tb
  have Da : 0 < (Kc * x ^ p * (1 - p) - a) + (Kc * x ^ p * p / x - b) * xa := by linarith
  have Db : 0 < (Kc * x ^ p * (1 - p) - a) + (Kc * x ^ p * p / x - b) * xb := by linarith
  have D := affine_pos h1 h2 Da Db
  have e : Kc * x ^ p * p / x * x = Kc * x ^ p * p := div_mul_cancel₀ _ (ne_of_gt hx)
  linarith

/-- **tangent under an affine function**: if the tangent of `K·x^p` at `x₀` is below an affine function at both ends of `[xa, xb]`,
    then `K·x^p` is below that affine function on the interval -/
theorem rpow_le_affine {a b Kc p x0 xa xb x : ℝ} (hK : 0 ≤ Kc) (hp0 : 0 ≤ p) (hp1 : p ≤ 1)
    (h0 : 0 < x0) (hxa : 0 ≤ xa) (h1 : xa ≤ x) (h2 : x ≤ xb)
    (ha : Kc * (x0 ^ p * (1 + p * (xa / x0 - 1))) ≤ a + b * xa)
    (hb : Kc * (x0 ^ p * (1 + p * (xb / x0 - 1))) ≤ a + b * xb) : Kc * x ^ p ≤ a + b * x := by
  have t := mul_le_mul_of_nonneg_left (rpow_le_tangent (p := p) (le_trans hxa h1) h0 hp0 hp1) hK
  rw [tangent_affine _ _ _ _ _ (ne_of_gt h0)] at ha hb t
  have Da : 0 ≤ (a - Kc * x0 ^ p * (1 - p)) + (b - Kc * x0 ^ p * p / x0) * xa := by linarith
  have Db : 0 ≤ (a - Kc * x0 ^ p * (1 - p)) + (b - Kc * x0 ^ p * p / x0) * xb := by linarith
  have D := affine_nonneg h1 h2 Da Db
  linarith

theorem rpow_div_le_of_pow_le {x r : ℝ} {p q : ℕ} (hx : 0 ≤ x) (hr : 0 ≤ r) (hq : 0 < q) (h : x ^ p ≤ r ^ q) :
    x ^ ((p:ℝ) / (q:ℝ)) ≤ r := by
  have hq' : (0:ℝ) < q := by exact_mod_cast hq
  have e1 : x ^ ((p:ℝ) / (q:ℝ)) = (x ^ p) ^ ((1:ℝ) / q) := by
    rw [← Real.rpow_natCast x p, ← Real.rpow_mul hx]; congr 1; ring
  have e2 : r = (r ^ q) ^ ((1:ℝ) / q) := by
    rw [← Real.rpow_natCast r q, ← Real.rpow_mul hr, mul_one_div_cancel (ne_of_gt hq'), Real.rpow_one]
  rw [e1, e2]
  exact Real.rpow_le_rpow (pow_nonneg hx p) h (by positivity)

/-! ### values -/

theorem f32val_W (b : Nat) : f32val b = (W b : ℝ) / 2 ^ 150 := by
  unfold f32val W; push_cast; rfl

theorem W_pos {b : Nat} (h : 0 < b) : 0 < W b := Nat.mul_pos (mant_pos h) (Nat.two_pow_pos _)

theorem f32val_pos {b : Nat} (h : 0 < b) : 0 < f32val b := by
  rw [f32val_W]
  have : (0:ℝ) < W b := by exact_mod_cast W_pos h
  positivity

/-- the interpolation line at ℝ: `L(t) = (bias + scale·t)/2³²` -/
noncomputable def Lr (entry t : Nat) : ℝ := (lnum entry t : ℝ) / 2 ^ 32

theorem K16_cast : (K16 : ℝ) = 5 * 2 ^ 32 * 65535 := by unfold K16; norm_num
theorem c06_cast : (c06 : ℝ) = 3 * 2 ^ 32 := by unfold c06; norm_num
theorem c04_cast : (c04 : ℝ) = 2 * 2 ^ 32 := by unfold c04; norm_num

/-! ### the two checks at ℝ -/

theorem upOK_real (entry lo t : Nat) (h : upOK entry lo t = true) :
    Lr entry t - 0.6 < 65535 * f32val (lo + t) ^ (((5:ℕ):ℝ) / ((9:ℕ):ℝ)) := by
  simp only [upOK, Bool.and_eq_true, decide_eq_true_eq] at h
  obtain ⟨hpos, hc⟩ := h
  have hc' := (Nat.cast_lt (α := ℝ)).mpr hc
  push_cast [Nat.cast_sub hpos.le] at hc'
  have hpos' := (Nat.cast_lt (α := ℝ)).mpr hpos
  push_cast at hpos'
  set l : ℝ := (lnum entry t : ℝ) with hl
  have hK : (0:ℝ) < (K16 : ℝ) := by rw [K16_cast]; positivity
  have hN0 : 0 ≤ 5 * l - (c06 : ℝ) := by linarith
  have h2 : (0:ℝ) < ((2:ℝ) ^ 150) ^ 5 := by positivity
  have hpow : ((5 * l - (c06 : ℝ)) / K16) ^ 9 < f32val (lo + t) ^ 5 := by
    rw [f32val_W, div_pow, div_pow, div_lt_div_iff₀ (pow_pos hK 9) h2]
    have e : ((2:ℝ) ^ 150) ^ 5 = 2 ^ 750 := by rw [← pow_mul]
    rw [e]; exact hc'
  have hy := lt_rpow_div_of_pow_lt (f32val_nonneg (lo + t)) (div_nonneg hN0 hK.le) (by decide : 0 < 9) hpow
  rw [div_lt_iff₀ hK, K16_cast, c06_cast] at hy
  unfold Lr
  rw [← hl]
  have e : l / 2 ^ 32 - 0.6 = (5 * l - 3 * 2 ^ 32) / (5 * 2 ^ 32) := by
    field_simp; ring
  rw [e, div_lt_iff₀ (by positivity)]
  linarith

theorem loOK_real (entry lo t0 t : Nat) (h0 : 0 < lo + t0) (h : loOK entry lo t0 t = true) :
    65535 * (f32val (lo + t0) ^ (((5:ℕ):ℝ) / ((9:ℕ):ℝ)) *
        (1 + (((5:ℕ):ℝ) / ((9:ℕ):ℝ)) * (f32val (lo + t) / f32val (lo + t0) - 1))) ≤ Lr entry t - 0.4 := by
  simp only [loOK, Bool.and_eq_true, decide_eq_true_eq] at h
  obtain ⟨hpos, hc⟩ := h
  have hc' := (Nat.cast_le (α := ℝ)).mpr hc
  push_cast [Nat.cast_sub hpos.le] at hc'
  have hpos' := (Nat.cast_lt (α := ℝ)).mpr hpos
  push_cast at hpos'
  set l : ℝ := (lnum entry t : ℝ) with hl
  set w0 : ℝ := (W (lo + t0) : ℝ) with hw0
  set w : ℝ := (W (lo + t) : ℝ) with hw
  have hw0p : 0 < w0 := by rw [hw0]; exact_mod_cast W_pos h0
  have hwn : 0 ≤ w := Nat.cast_nonneg _
  have hK : (0:ℝ) < (K16 : ℝ) := by rw [K16_cast]; positivity
  have hN0 : 0 ≤ 5 * l - (c04 : ℝ) := by linarith
  have hsum : 0 < 4 * w0 + 5 * w := by linarith
  have hden : 0 < (K16 : ℝ) * (4 * w0 + 5 * w) := mul_pos hK hsum
  have hnum : 0 ≤ (5 * l - (c04 : ℝ)) * 9 * w0 := mul_nonneg (mul_nonneg hN0 (by norm_num)) hw0p.le
  have h2 : (0:ℝ) < ((2:ℝ) ^ 150) ^ 5 := by positivity
  -- x₀⁵ ≤ R⁹
  have hpow : f32val (lo + t0) ^ 5 ≤ (((5 * l - (c04 : ℝ)) * 9 * w0) / ((K16 : ℝ) * (4 * w0 + 5 * w))) ^ 9 := by
    rw [f32val_W, div_pow, div_pow, div_le_div_iff₀ h2 (pow_pos hden 9)]
    have e : ((2:ℝ) ^ 150) ^ 5 = 2 ^ 750 := by rw [← pow_mul]
    rw [e]; exact hc'
  have hy := rpow_div_le_of_pow_le (f32val_nonneg (lo + t0)) (div_nonneg hnum hden.le) (by decide : 0 < 9) hpow
  -- the slope factor
  have hF : 1 + (((5:ℕ):ℝ) / ((9:ℕ):ℝ)) * (f32val (lo + t) / f32val (lo + t0) - 1) = (4 * w0 + 5 * w) / (9 * w0) := by
    rw [f32val_W, f32val_W, ← hw0, ← hw]
    push_cast
    field_simp
    ring
  rw [hF]
  have hF0 : 0 ≤ (4 * w0 + 5 * w) / (9 * w0) := div_nonneg hsum.le (by linarith)
  have step := mul_le_mul_of_nonneg_right hy hF0
  have e1 : ((5 * l - (c04 : ℝ)) * 9 * w0) / ((K16 : ℝ) * (4 * w0 + 5 * w)) * ((4 * w0 + 5 * w) / (9 * w0)) =
      (5 * l - (c04 : ℝ)) / K16 := by
    have h1 : 4 * w0 + 5 * w ≠ 0 := ne_of_gt hsum
    have h3 : w0 ≠ 0 := ne_of_gt hw0p
    have h4 : (K16 : ℝ) ≠ 0 := ne_of_gt hK
    field_simp
  rw [e1] at step
  unfold Lr
  rw [← hl]
  have e2 : l / 2 ^ 32 - 0.4 = 65535 * ((5 * l - (c04 : ℝ)) / K16) := by
    rw [K16_cast, c04_cast]; field_simp; ring
  rw [e2]
  exact mul_le_mul_of_nonneg_left step (by norm_num)

/-! ### a whole cell -/

/-- in a cell (65 536 patterns from a multiple of 65 536 at or above `2²³`) the exponent is constant and the significand is affine -/
theorem cell_mant_expo (k t : Nat) (hk : 128 ≤ k) (ht : t < 65536) :
    mant (65536 * k + t) = mant (65536 * k) + t ∧ expo (65536 * k + t) = expo (65536 * k) := by
  unfold mant expo
  have p23 : (2:Nat) ^ 23 = 8388608 := by decide
  rw [p23]
  rw [if_neg (by omega), if_neg (by omega), if_neg (by omega), if_neg (by omega)]
  omega

theorem cell_val (k t : Nat) (hk : 128 ≤ k) (ht : t < 65536) :
    f32val (65536 * k + t) = ((mant (65536 * k) : ℝ) + t) * ((2:ℝ) ^ expo (65536 * k) / 2 ^ 150) := by
  obtain ⟨hm, he⟩ := cell_mant_expo k t hk ht
  unfold f32val
  rw [hm, he]; push_cast; ring

/-- **a cell that passes its six checks**: at every pattern `65536·k + t` of the cell, the exact curve lies between `L(t) − 0.6`
    (exclusive) and `L(t) − 0.4` (inclusive) -/
theorem cell_real (entry k t : Nat) (hk : 128 ≤ k) (ht : t < 65536) (h : cellOK entry (65536 * k) = true) :
    Lr entry t - 0.6 < 65535 * f32val (65536 * k + t) ^ (((5:ℕ):ℝ) / ((9:ℕ):ℝ)) ∧
    65535 * f32val (65536 * k + t) ^ (((5:ℕ):ℝ) / ((9:ℕ):ℝ)) ≤ Lr entry t - 0.4 := by
  simp only [cellOK, Bool.and_eq_true] at h
  obtain ⟨⟨⟨⟨⟨u0, u1⟩, l00⟩, l01⟩, l10⟩, l11⟩ := h
  have hp0 : (0:ℝ) ≤ ((5:ℕ):ℝ) / ((9:ℕ):ℝ) := by norm_num
  have hp1 : ((5:ℕ):ℝ) / ((9:ℕ):ℝ) ≤ 1 := by norm_num
  set lo := 65536 * k with hlo
  set c : ℝ := (2:ℝ) ^ expo lo / 2 ^ 150 with hc
  have hcp : 0 < c := by rw [hc]; positivity
  set m : ℝ := (mant lo : ℝ) with hm
  set A : ℝ := (lA entry : ℝ) with hA
  set S : ℝ := (lS entry : ℝ) with hS
  have hL : ∀ s : Nat, Lr entry s = (A + S * s) / 2 ^ 32 := by
    intro s; unfold Lr lnum; push_cast; rfl
  have hx : ∀ s : Nat, s < 65536 → f32val (lo + s) = (m + s) * c := fun s hs => cell_val k s hk hs
  -- the interpolation line as an affine function of the value `x`
  have link : ∀ (d : ℝ) (s : Nat), s < 65536 →
      ((A - S * m) / 2 ^ 32 - d) + S / (c * 2 ^ 32) * f32val (lo + s) = Lr entry s - d := by
    intro d s hs
    rw [hx s hs, hL s]
    field_simp
    ring
  have hmono : ∀ s s' : Nat, s ≤ s' → f32val (lo + s) ≤ f32val (lo + s') := fun s s' hss => f32val_mono (by omega)
  have hpos : ∀ s : Nat, 0 < f32val (lo + s) := fun s => f32val_pos (by omega)
  constructor
  · -- upper side: the chord
    have a0 := upOK_real entry lo 0 u0
    have a1 := upOK_real entry lo 65535 u1
    rw [← link 0.6 0 (by omega)] at a0
    rw [← link 0.6 65535 (by omega)] at a1
    have := affine_lt_rpow (by norm_num) hp0 hp1 (hpos 0).le (hmono 0 t (by omega)) (hmono t 65535 (by omega)) (hpos t) a0 a1
    rw [link 0.6 t ht] at this
    exact this
  · -- lower side: two tangents
    by_cases hlt : t ≤ 32768
    · have a0 := loOK_real entry lo 16384 0 (by omega) l00
      have a1 := loOK_real entry lo 16384 32768 (by omega) l01
      rw [← link 0.4 0 (by omega)] at a0
      rw [← link 0.4 32768 (by omega)] at a1
      have := rpow_le_affine (by norm_num) hp0 hp1 (hpos 16384) (hpos 0).le (hmono 0 t (by omega)) (hmono t 32768 hlt) a0 a1
      rw [link 0.4 t ht] at this
      exact this
    · have a0 := loOK_real entry lo 49152 32768 (by omega) l10
      have a1 := loOK_real entry lo 49152 65535 (by omega) l11
      rw [← link 0.4 32768 (by omega)] at a0
      rw [← link 0.4 65535 (by omega)] at a1
      have := rpow_le_affine (by norm_num) hp0 hp1 (hpos 49152) (hpos 32768).le (hmono 32768 t (by omega)) (hmono t 65535 (by omega)) a0 a1
      rw [link 0.4 t ht] at this
      exact this

/-! ### the float branch: two roundings -/

open F32Round

/-- `rneDiv V d` is within half of `V/d` -/
theorem rneDiv_err (V d : Nat) (hd : 0 < d) :
    2 * (rneDiv V d * d) ≤ 2 * V + d ∧ 2 * V ≤ 2 * (rneDiv V d * d) + d := by
  have e := Nat.div_add_mod V d
  have hr := Nat.mod_lt V hd
  have hq : V / d * d = d * (V / d) := Nat.mul_comm _ _
  have hq1 : (V / d + 1) * d = d * (V / d) + d := by rw [Nat.add_mul, Nat.one_mul, Nat.mul_comm]
  unfold rneDiv
  split
  · rw [hq]; omega
  · split
    · rw [hq1]; omega
    · rcases Nat.mod_two_eq_zero_or_one (V / d) with h2 | h2
      · rw [h2, Nat.add_zero, hq]; omega
      · rw [h2, hq1]; omega

/-- one rounding to 24 significant bits moves the value by at most half a grid step -/
theorem rnd_err (c V : Nat) :
    2 * rnd c V ≤ 2 * V + 2 ^ gexp c V ∧ 2 * V ≤ 2 * rnd c V + 2 ^ gexp c V :=
  rneDiv_err V (2 ^ gexp c V) (Nat.two_pow_pos _)

theorem gexp_le (c V n : Nat) (hV : V < 2 ^ (n + 24)) (hc : c ≤ n) : gexp c V ≤ n := by
  unfold gexp
  rcases Nat.eq_zero_or_pos V with h0 | h0
  · subst h0; simp; omega
  · have : V.log2 < n + 24 := (Nat.log2_lt (by omega)).2 hV
    omega

end C05E16
