/-
  General lemmas about Lean core's kernel-transparent IEEE-754 model (`Init/Data/Float/Model`), binary32, positive operands:
  closed forms of `roundWithAccuracy`, `pack`, `unpack ∘ pack`, of the product of two positive finite floats and of the sum
  `x + 2²³` for a small positive `x`, in terms of the `Nat` function `rneDiv V d` (`V / d` rounded to nearest, ties to even),
  and monotonicity of rounding in the exact value.  (Core Lean only: `omega`, `simp`, `decide`.)
-/
import PaletteProofs.C05_F32Val

namespace F32Round
open Float.Model Float.Model.UnpackedFloat

/-! ## `Nat` arithmetic: round to nearest even, binary grids -/

/-- `V / d` rounded to the nearest integer, ties to even -/
def rneDiv (V d : Nat) : Nat :=
  if 2 * (V % d) < d then V / d else if d < 2 * (V % d) then V / d + 1 else V / d + (V / d) % 2

theorem rneDiv_mono {V V' d : Nat} (hd : 0 < d) (h : V ≤ V') : rneDiv V d ≤ rneDiv V' d := by
  unfold rneDiv
  have hq : V / d ≤ V' / d := Nat.div_le_div_right h
  have e1 := Nat.div_add_mod V d
  have e2 := Nat.div_add_mod V' d
  have hr := Nat.mod_lt V hd
  have hr' := Nat.mod_lt V' hd
  rcases Nat.lt_or_eq_of_le hq with hlt | heq
  · generalize V / d = q at *
    generalize V' / d = q' at *
    generalize V % d = r at *
    generalize V' % d = r' at *
    (repeat' split) <;> omega
  · rw [← heq] at e2 ⊢
    generalize V / d = q at *
    generalize d * q = dq at *
    generalize V % d = r at *
    generalize V' % d = r' at *
    (repeat' split) <;> omega

theorem rneDiv_ge (V d : Nat) : V / d ≤ rneDiv V d := by
  unfold rneDiv; (repeat' split) <;> omega

theorem rneDiv_le (V d : Nat) : rneDiv V d ≤ V / d + 1 := by
  unfold rneDiv; (repeat' split) <;> omega

theorem rneDiv_one (V : Nat) : rneDiv V 1 = V := by
  unfold rneDiv; simp [Nat.mod_one]

theorem rneDiv_zero (d : Nat) : rneDiv 0 d = 0 := by
  unfold rneDiv; simp

/-- scaling numerator and denominator by the same positive factor does not change the rounded quotient -/
theorem rneDiv_mul_right (V d k : Nat) (hk : 0 < k) : rneDiv (V * k) (d * k) = rneDiv V d := by
  unfold rneDiv
  rw [Nat.mul_div_mul_right _ _ hk, Nat.mul_mod_mul_right]
  have h1 : 2 * (V % d * k) < d * k ↔ 2 * (V % d) < d := by
    rw [← Nat.mul_assoc]; exact Nat.mul_lt_mul_right hk
  have h2 : d * k < 2 * (V % d * k) ↔ d < 2 * (V % d) := by
    rw [← Nat.mul_assoc]; exact Nat.mul_lt_mul_right hk
  simp only [h1, h2]

/-- adding an even multiple of the divisor -/
theorem rneDiv_add_even (V a d : Nat) (hd : 0 < d) : rneDiv (V + 2 * a * d) d = 2 * a + rneDiv V d := by
  unfold rneDiv
  rw [Nat.add_mul_div_right _ _ hd, Nat.add_mul_mod_self_right]
  (repeat' split) <;> omega

/-- exact multiples are not changed -/
theorem rneDiv_mul_self (a d : Nat) (hd : 0 < d) : rneDiv (a * d) d = a := by
  unfold rneDiv
  rw [Nat.mul_mod_left, Nat.mul_div_cancel _ hd]
  simp [hd]

theorem log2_eq {x k : Nat} (h1 : 2 ^ k ≤ x) (h2 : x < 2 ^ (k + 1)) : x.log2 = k := by
  have hx : x ≠ 0 := by
    have := Nat.two_pow_pos k; omega
  exact (Nat.log2_eq_iff hx).2 ⟨h1, h2⟩

theorem log2_mul_pow (x k : Nat) (hx : 0 < x) : (x * 2 ^ k).log2 = x.log2 + k := by
  have hx' : x ≠ 0 := by omega
  apply log2_eq
  · rw [Nat.pow_add]; exact Nat.mul_le_mul_right _ (Nat.log2_self_le hx')
  · have : x < 2 ^ (x.log2 + 1) := Nat.lt_log2_self
    have e : 2 ^ (x.log2 + k + 1) = 2 ^ (x.log2 + 1) * 2 ^ k := by
      rw [← Nat.pow_add]; congr 1; omega
    rw [e]; exact Nat.mul_lt_mul_of_pos_right this (Nat.two_pow_pos k)

theorem log2_mono {x y : Nat} (hx : 0 < x) (h : x ≤ y) : x.log2 ≤ y.log2 := by
  have hy : y ≠ 0 := by omega
  rw [Nat.le_log2 hy]
  exact Nat.le_trans (Nat.log2_self_le (by omega)) h

/-- exponent of the binary32-like grid for the scaled value `V` (24 significant bits, least grid exponent `c`) -/
def gexp (c V : Nat) : Nat := max (V.log2 - 23) c

/-- `V` rounded (nearest, ties to even) to 24 significant bits, on a grid no finer than `2^c` -/
def rnd (c V : Nat) : Nat := rneDiv V (2 ^ gexp c V) * 2 ^ gexp c V

theorem gexp_mono (c : Nat) {V V' : Nat} (hV : 0 < V) (h : V ≤ V') : gexp c V ≤ gexp c V' := by
  have := log2_mono hV h
  unfold gexp; omega

/-- one rounding is monotone in the exact value -/
theorem rnd_mono (c : Nat) {V V' : Nat} (h : V ≤ V') : rnd c V ≤ rnd c V' := by
  rcases Nat.eq_zero_or_pos V with h0 | hV
  · subst h0; unfold rnd; rw [rneDiv_zero]; omega
  have hV' : 0 < V' := by omega
  have hg := gexp_mono c hV h
  unfold rnd
  rcases Nat.lt_or_eq_of_le hg with hlt | heq
  · -- coarser grid for V': rnd V ≤ 2^24·g ≤ 2^23·g' ≤ rnd V'
    have a1 : V < 2 ^ 24 * 2 ^ gexp c V := by
      have : V < 2 ^ (V.log2 + 1) := Nat.lt_log2_self
      have l : V.log2 + 1 ≤ 24 + gexp c V := by unfold gexp; omega
      rw [← Nat.pow_add]
      exact Nat.lt_of_lt_of_le this (Nat.pow_le_pow_right (by decide) l)
    have a2 : rneDiv V (2 ^ gexp c V) ≤ 2 ^ 24 := by
      have := rneDiv_le V (2 ^ gexp c V)
      have : V / 2 ^ gexp c V < 2 ^ 24 := (Nat.div_lt_iff_lt_mul (Nat.two_pow_pos _)).2 a1
      omega
    have b0 : gexp c V' = V'.log2 - 23 ∧ 23 ≤ V'.log2 := by unfold gexp at hlt ⊢; omega
    have b1 : 2 ^ 23 * 2 ^ gexp c V' ≤ V' := by
      rw [← Nat.pow_add]
      have e : 23 + gexp c V' = V'.log2 := by omega
      rw [e]; exact Nat.log2_self_le (by omega)
    have b2 : 2 ^ 23 ≤ rneDiv V' (2 ^ gexp c V') :=
      Nat.le_trans ((Nat.le_div_iff_mul_le (Nat.two_pow_pos _)).2 b1) (rneDiv_ge _ _)
    have c1 : 2 ^ gexp c V * 2 ≤ 2 ^ gexp c V' := by
      rw [← Nat.pow_succ]; exact Nat.pow_le_pow_right (by decide) hlt
    calc rneDiv V (2 ^ gexp c V) * 2 ^ gexp c V ≤ 2 ^ 24 * 2 ^ gexp c V := Nat.mul_le_mul_right _ a2
      _ = 2 ^ 23 * (2 ^ gexp c V * 2) := by rw [show (2:Nat) ^ 24 = 2 ^ 23 * 2 from rfl]; simp only [Nat.mul_assoc, Nat.mul_comm, Nat.mul_left_comm]
      _ ≤ 2 ^ 23 * 2 ^ gexp c V' := Nat.mul_le_mul_left _ c1
      _ ≤ rneDiv V' (2 ^ gexp c V') * 2 ^ gexp c V' := Nat.mul_le_mul_right _ b2
  · rw [← heq]
    exact Nat.mul_le_mul_right _ (rneDiv_mono (Nat.two_pow_pos _) h)

/-! ## the model: shifting and rounding the extended mantissa -/

theorem repeat_shift (P n : Nat) :
    Nat.repeat ExtendedMantissa.shiftRightOne (n+1) ⟨P, false, false⟩ =
      ⟨P / 2^(n+1), (P / 2^n) % 2 != 0, P % 2^n != 0⟩ := by
  induction n with
  | zero => simp [Nat.repeat, ExtendedMantissa.shiftRightOne, Nat.mod_one]
  | succ n ih =>
    rw [Nat.repeat, ih]
    simp only [ExtendedMantissa.shiftRightOne]
    congr 1
    · rw [Nat.div_div_eq_div_mul, ← Nat.pow_succ]
    · rw [Nat.mod_pow_succ (k := n)]
      have hg := Nat.two_pow_pos n
      rcases Nat.mod_two_eq_zero_or_one (P / 2^n) with h | h
      · rw [h]; simp
      · rw [h]; simp

theorem repeat_mantissa (P n : Nat) :
    (Nat.repeat ExtendedMantissa.shiftRightOne n ⟨P, false, false⟩).mantissa = P / 2^n := by
  cases n with
  | zero => simp [Nat.repeat]
  | succ n => rw [repeat_shift]

theorem rounded_aux (q g l a : Nat) (hg : 0 < g) (hl : l < g) (ha : a < 2) :
    ExtendedMantissa.roundedMantissa ⟨q, a != 0, l != 0⟩ =
      (if 2 * (l + g * a) < 2 * g then q else if 2 * g < 2 * (l + g * a) then q + 1 else q + q % 2) := by
  have ha' : a = 0 ∨ a = 1 := by omega
  rcases ha' with h | h <;> subst h <;> rcases Nat.eq_zero_or_pos l with hl0 | hl0
  · subst hl0
    simp [ExtendedMantissa.roundedMantissa, ExtendedMantissa.accuracy, Accuracy.roundToNearestEven, hg]
  · have h1 : (l != 0) = true := by simp; omega
    have h2 : 2 * (l + g * 0) < 2 * g := by omega
    rw [h1, if_pos h2]
    simp [ExtendedMantissa.roundedMantissa, ExtendedMantissa.accuracy, Accuracy.roundToNearestEven]
  · subst hl0
    simp [ExtendedMantissa.roundedMantissa, ExtendedMantissa.accuracy, Accuracy.roundToNearestEven]
  · have h1 : (l != 0) = true := by simp; omega
    have h2 : ¬ 2 * (l + g * 1) < 2 * g := by omega
    have h3 : 2 * g < 2 * (l + g * 1) := by omega
    rw [h1, if_neg h2, if_pos h3]
    simp [ExtendedMantissa.roundedMantissa, ExtendedMantissa.accuracy, Accuracy.roundToNearestEven]

theorem repeat_rounded (P n : Nat) :
    (Nat.repeat ExtendedMantissa.shiftRightOne n ⟨P, false, false⟩).roundedMantissa = rneDiv P (2^n) := by
  cases n with
  | zero => simp [Nat.repeat, ExtendedMantissa.roundedMantissa, ExtendedMantissa.accuracy, Accuracy.roundToNearestEven, rneDiv_one]
  | succ n =>
    rw [repeat_shift]
    unfold rneDiv
    rw [Nat.mod_pow_succ (k := n)]
    have hg := Nat.two_pow_pos n
    have hd : 2 ^ (n+1) = 2 * 2^n := by rw [Nat.pow_succ, Nat.mul_comm]
    have hl := Nat.mod_lt P hg
    rw [hd, rounded_aux _ (2^n) _ _ hg hl (Nat.mod_lt _ (by decide))]

/-! ## the model: `roundWithAccuracy` -/

/-- the binary32 target exponent of `P·2^ex` -/
def tgt (P : Nat) (ex : Int) : Int := max ((P.log2 : Int) + 1 + ex - 24) (-149)

theorem targetExponent_eq (P : Nat) (ex : Int) :
    Format.binary32.targetExponent (totalExponent P ex) = tgt P ex := by
  simp only [Format.targetExponent, totalExponent, Format.mantissaBits, Format.minExponent, tgt]
  omega

/-- zero or a positive finite float -/
def mkF (M : Nat) (e : Int) : UnpackedFloat :=
  if h : M = 0 then .zero .positive else .finite .positive M e (Nat.pos_of_ne_zero h)

/-- `roundWithAccuracy` on an exact positive input, unfolded (no hypotheses) -/
theorem rwa_eq (P : Nat) (ex : Int) :
    roundWithAccuracy .binary32 .positive P ex .exact =
      mkF (rneDiv P (2 ^ (tgt P ex - ex).toNat) /
            2 ^ (tgt (rneDiv P (2 ^ (tgt P ex - ex).toNat)) (ex + (tgt P ex - ex).toNat) - (ex + (tgt P ex - ex).toNat)).toNat)
          (ex + (tgt P ex - ex).toNat +
            (tgt (rneDiv P (2 ^ (tgt P ex - ex).toNat)) (ex + (tgt P ex - ex).toNat) - (ex + (tgt P ex - ex).toNat)).toNat) := by
  simp only [roundWithAccuracy, shiftToTargetExponent, shiftToExponent, targetExponent_eq, HShiftRight.hShiftRight,
    ExtendedMantissa.ofMantissaAndAccuracy, repeat_rounded, repeat_mantissa, mkF]

/-- with `ex ≤ tgt P ex` the first shift lands on the target exponent and the rounded significand has at most 25 bits -/
theorem rne_le_of_tgt (P : Nat) (ex : Int) :
    rneDiv P (2 ^ (tgt P ex - ex).toNat) ≤ 2 ^ 24 := by
  have h1 : P < 2 ^ (P.log2 + 1) := Nat.lt_log2_self
  have h2 : P.log2 + 1 ≤ 24 + (tgt P ex - ex).toNat := by unfold tgt; omega
  have h3 : P < 2 ^ 24 * 2 ^ (tgt P ex - ex).toNat := by
    rw [← Nat.pow_add]; exact Nat.lt_of_lt_of_le h1 (Nat.pow_le_pow_right (by decide) h2)
  have h4 : P / 2 ^ (tgt P ex - ex).toNat < 2 ^ 24 := (Nat.div_lt_iff_lt_mul (Nat.two_pow_pos _)).2 h3
  have := rneDiv_le P (2 ^ (tgt P ex - ex).toNat)
  omega

/-- above the subnormal grid the rounded significand is normal -/
theorem rne_ge_of_tgt (P : Nat) (ex : Int) (hP : 0 < P) (hex : ex ≤ tgt P ex) (ht : -149 < tgt P ex) :
    2 ^ 23 ≤ rneDiv P (2 ^ (tgt P ex - ex).toNat) := by
  have h1 : 2 ^ P.log2 ≤ P := Nat.log2_self_le (by omega)
  have h2 : 23 + (tgt P ex - ex).toNat = P.log2 := by unfold tgt at ht hex ⊢; omega
  have h3 : 2 ^ 23 * 2 ^ (tgt P ex - ex).toNat ≤ P := by rw [← Nat.pow_add, h2]; exact h1
  exact Nat.le_trans ((Nat.le_div_iff_mul_le (Nat.two_pow_pos _)).2 h3) (rneDiv_ge _ _)

/-- canonical significand / exponent after a possible carry out of the 24th bit -/
def canonM (R : Nat) : Nat := if R = 2 ^ 24 then 2 ^ 23 else R
def canonE (R : Nat) (t : Int) : Int := if R = 2 ^ 24 then t + 1 else t

/-- **closed form of one rounding** (binary32, positive exact input whose exponent is at or below its target exponent):
    shift to the target exponent, round to nearest even, renormalise a carry -/
theorem rwa_canon (P : Nat) (ex : Int) (hex : ex ≤ tgt P ex) :
    roundWithAccuracy .binary32 .positive P ex .exact =
      mkF (canonM (rneDiv P (2 ^ (tgt P ex - ex).toNat))) (canonE (rneDiv P (2 ^ (tgt P ex - ex).toNat)) (tgt P ex)) := by
  rw [rwa_eq]
  have he1 : ex + ((tgt P ex - ex).toNat : Int) = tgt P ex := by omega
  rw [he1]
  have hle := rne_le_of_tgt P ex
  have ht : -149 ≤ tgt P ex := by unfold tgt; omega
  generalize rneDiv P (2 ^ (tgt P ex - ex).toNat) = R at *
  generalize tgt P ex = t at *
  unfold canonM canonE
  by_cases hR : R = 2 ^ 24
  · rw [if_pos hR, if_pos hR]
    have h1 : tgt R t = t + 1 := by subst hR; unfold tgt; rw [Nat.log2_two_pow]; omega
    have h2 : (t + 1 - t).toNat = 1 := by omega
    rw [h1, h2, hR]; rfl
  · rw [if_neg hR, if_neg hR]
    rcases Nat.eq_zero_or_pos R with h0 | h0
    · subst h0; simp [mkF]
    · have hlog : R.log2 < 24 := (Nat.log2_lt (by omega)).2 (by omega)
      have h2 : (tgt R t - t).toNat = 0 := by unfold tgt; omega
      rw [h2]; simp

/-! ## the model: `pack` and `unpack ∘ pack` on canonical floats -/

/-- canonical for binary32: zero, subnormal (`e = −149`) or normal; finite range -/
def IsCanon (M : Nat) (e : Int) : Prop :=
  M = 0 ∨ (M < 2 ^ 23 ∧ e = -149) ∨ (2 ^ 23 ≤ M ∧ M < 2 ^ 24 ∧ -149 ≤ e ∧ e ≤ 104)

/-- the bit pattern of a canonical positive float -/
def code (M : Nat) (e : Int) : Nat := if M = 0 then 0 else (e + 149).toNat * 2 ^ 23 + M

theorem packComponents_toNat (ev : BitVec 8) (mv : BitVec 23) :
    (packComponents .binary32 .positive ev mv).toNat = ev.toNat * 2 ^ 23 + mv.toNat := by
  unfold packComponents
  rw [BitVec.toNat_append, BitVec.toNat_append, ← Nat.shiftLeft_add_eq_or_of_lt mv.isLt]
  simp [Sign.toBitVec, Nat.shiftLeft_eq]

theorem pack_mkF (M : Nat) (e : Int) (hc : IsCanon M e) :
    (UnpackedFloat.pack .binary32 (mkF M e)).toNat = code M e := by
  unfold mkF code
  by_cases hM : M = 0
  · rw [dif_pos hM, if_pos hM]; rfl
  · rw [dif_neg hM, if_neg hM]
    have hbias : Format.binary32.exponentBias = 127 := rfl
    unfold IsCanon at hc
    simp only [UnpackedFloat.pack, hbias, Format.mantissaBits]
    rcases hc with h | ⟨h1, h2⟩ | ⟨h1, h2, h3, h4⟩
    · exact absurd h hM
    · subst h2
      have hl : ¬ (M.log2 + 1 = 1 + 23) := by
        have : M.log2 < 23 := (Nat.log2_lt hM).2 h1
        omega
      rw [if_neg (by decide), if_neg hl, packComponents_toNat]
      simp
      omega
    · have hl : M.log2 + 1 = 1 + 23 := by
        have : M.log2 = 23 := log2_eq h1 h2
        omega
      have hb : ¬ (2 ^ 8 ≤ (e + (127 : Nat) + (23 : Nat)).toNat + 1) := by omega
      rw [if_neg hb, if_pos hl, packComponents_toNat]
      simp
      omega

theorem code_lt (M : Nat) (e : Int) (hc : IsCanon M e) : code M e < 0x7f800000 := by
  unfold code IsCanon at *
  split <;> omega

theorem code_pos (M : Nat) (e : Int) (hM : M ≠ 0) : 0 < code M e := by
  unfold code; rw [if_neg hM]; omega

theorem pack_mkF_eq (M : Nat) (e : Int) (hc : IsCanon M e) :
    UnpackedFloat.pack .binary32 (mkF M e) = BitVec.ofNat _ (code M e) := by
  apply BitVec.eq_of_toNat_eq
  rw [pack_mkF M e hc, BitVec.toNat_ofNat]
  have := code_lt M e hc
  show code M e = code M e % 2 ^ 32
  omega

/-- a canonical float survives `pack` then `unpack` -/
theorem unpack_pack_mkF (M : Nat) (e : Int) (hc : IsCanon M e) :
    UnpackedFloat.unpack .binary32 (UnpackedFloat.pack .binary32 (mkF M e)) = mkF M e := by
  by_cases hM : M = 0
  · subst hM
    have h0 : mkF 0 e = .zero .positive := rfl
    rw [h0]
    show UnpackedFloat.unpack .binary32 (packComponents .binary32 .positive 0 0) = _
    unfold UnpackedFloat.unpack
    simp only [unpackMantissa_packComponents, unpackExponent_packComponents]
    rfl
  · rw [pack_mkF_eq M e hc, C05E.unpack_pos (code M e) (code_pos M e hM) (code_lt M e hc)]
    unfold mkF; rw [dif_neg hM]
    simp only [finite.injEq, true_and]
    unfold C05E.mant C05E.expo code IsCanon at *
    rw [if_neg hM]
    rcases hc with h | ⟨h1, h2⟩ | ⟨h1, h2, h3, h4⟩
    · exact absurd h hM
    · subst h2
      have : (-149 + 149 : Int).toNat * 2 ^ 23 + M < 2 ^ 23 := by omega
      rw [if_pos this, if_pos this]; omega
    · have : ¬ (e + 149).toNat * 2 ^ 23 + M < 2 ^ 23 := by omega
      rw [if_neg this, if_neg this]; omega

/-- `mant`/`expo` of a positive finite pattern are canonical, with code the pattern itself -/
theorem isCanon_pattern (b : Nat) (h1 : b < 0x7f800000) : IsCanon (C05E.mant b) ((C05E.expo b : Int) - 150) := by
  unfold IsCanon C05E.mant C05E.expo
  by_cases hb : b < 2 ^ 23
  · rw [if_pos hb, if_pos hb]; omega
  · rw [if_neg hb, if_neg hb]; omega

theorem mkF_pos (M : Nat) (e : Int) (h : 0 < M) : mkF M e = .finite .positive M e h := by
  unfold mkF; rw [dif_neg (by omega)]

/-! ## `Float32` operations on positive finite operands -/

/-- `Float32.ofBits` of a positive finite pattern, unpacked (the NaN canonicalisation `pack ∘ unpack` is the identity here) -/
theorem ofBits_unpack (b : Nat) (h0 : 0 < b) (h1 : b < 0x7f800000) :
    (Float32.ofBits (UInt32.ofNat b)).toModel.unpack =
      .finite .positive (C05E.mant b) ((C05E.expo b : Int) - 150) (C05E.mant_pos h0) := by
  show UnpackedFloat.unpack .binary32 (UnpackedFloat.pack .binary32 (UnpackedFloat.unpack .binary32 (UInt32.ofNat b).toBitVec)) = _
  rw [show (UInt32.ofNat b).toBitVec = BitVec.ofNat Format.binary32.numBits b from rfl, C05E.unpack_pos b h0 h1, ← mkF_pos, unpack_pack_mkF _ _ (isCanon_pattern b h1)]

theorem isCanon_canon (P : Nat) (ex : Int) (hP : 0 < P) (hex : ex ≤ tgt P ex) (hub : tgt P ex ≤ 103) :
    IsCanon (canonM (rneDiv P (2 ^ (tgt P ex - ex).toNat))) (canonE (rneDiv P (2 ^ (tgt P ex - ex).toNat)) (tgt P ex)) := by
  have hle := rne_le_of_tgt P ex
  have hge := rne_ge_of_tgt P ex hP hex
  have ht : -149 ≤ tgt P ex := by unfold tgt; omega
  generalize rneDiv P (2 ^ (tgt P ex - ex).toNat) = R at *
  generalize tgt P ex = t at *
  unfold IsCanon canonM canonE
  by_cases hR : R = 2 ^ 24
  · rw [if_pos hR, if_pos hR]; omega
  · rw [if_neg hR, if_neg hR]
    by_cases ht' : -149 < t
    · have := hge ht'; omega
    · omega

theorem code_canon (R : Nat) (t : Int) (h0 : 0 < R) (ht : -149 ≤ t) :
    code (canonM R) (canonE R t) = (t + 149).toNat * 2 ^ 23 + R := by
  unfold code canonM canonE
  by_cases hR : R = 2 ^ 24
  · rw [if_pos hR, if_pos hR, if_neg (by decide)]; omega
  · rw [if_neg hR, if_neg hR, if_neg (by omega)]

/-- the product of two positive finite floats whose exact product has at least 24 bits (e.g. one factor normal), unpacked -/
theorem mul_unpack (x y : Float32) (m1 m2 : Nat) (e1 e2 : Int) (h1 : 0 < m1) (h2 : 0 < m2)
    (hx : x.toModel.unpack = .finite .positive m1 e1 h1) (hy : y.toModel.unpack = .finite .positive m2 e2 h2)
    (hex : e1 + e2 ≤ tgt (m1 * m2) (e1 + e2)) (hub : tgt (m1 * m2) (e1 + e2) ≤ 103) :
    (x * y).toModel.unpack =
      mkF (canonM (rneDiv (m1 * m2) (2 ^ (tgt (m1 * m2) (e1 + e2) - (e1 + e2)).toNat)))
        (canonE (rneDiv (m1 * m2) (2 ^ (tgt (m1 * m2) (e1 + e2) - (e1 + e2)).toNat)) (tgt (m1 * m2) (e1 + e2))) := by
  show UnpackedFloat.unpack .binary32 (UnpackedFloat.pack .binary32
    (UnpackedFloat.mul .binary32 x.toModel.unpack y.toModel.unpack)) = _
  rw [hx, hy]
  show UnpackedFloat.unpack .binary32 (UnpackedFloat.pack .binary32
    (roundWithAccuracy .binary32 .positive (m1 * m2) (e1 + e2) .exact)) = _
  rw [rwa_canon _ _ hex, unpack_pack_mkF _ _ (isCanon_canon _ _ (Nat.mul_pos h1 h2) hex hub)]

theorem round_eq (P : Nat) (ex : Int) (hex : ex ≤ tgt P ex) :
    UnpackedFloat.round .binary32 .positive P ex = roundWithAccuracy .binary32 .positive P ex .exact := by
  have h : (ex - tgt P ex).toNat = 0 := by omega
  simp only [UnpackedFloat.round, decreaseExponent, targetExponent_eq, h, Nat.shiftLeft_zero]
  simp

theorem add_pos_pos (m1 m2 : Nat) (e1 e2 : Int) (h1 : 0 < m1) (h2 : 0 < m2) (he : e1 ≤ e2) :
    UnpackedFloat.add .binary32 (.finite .positive m1 e1 h1) (.finite .positive m2 e2 h2) =
      UnpackedFloat.round .binary32 .positive (m1 + m2 * 2 ^ (e2 - e1).toNat) e1 := by
  have hmin : min e1 e2 = e1 := Int.min_eq_left he
  have h0 : (e1 - e1).toNat = 0 := by omega
  have hpos : compare ((m1 : Int) + ((m2 * 2 ^ (e2 - e1).toNat : Nat) : Int)) 0 = .gt := by
    rw [Int.compare_eq_gt]; omega
  have hnat : ((m1 : Int) + ((m2 * 2 ^ (e2 - e1).toNat : Nat) : Int)).toNat = m1 + m2 * 2 ^ (e2 - e1).toNat := by omega
  simp only [UnpackedFloat.add, decreaseExponent, Sign.apply, hmin, h0, Nat.shiftLeft_eq, normalize, Nat.pow_zero,
    Nat.mul_one, hpos, hnat]

theorem two23_unpack :
    (Float32.ofBits 0x4b000000).toModel.unpack = .finite .positive (2 ^ 23) 0 (by decide) := by
  have h := ofBits_unpack 0x4b000000 (by decide) (by decide)
  rw [show (0x4b000000 : UInt32) = UInt32.ofNat 0x4b000000 from rfl, h]
  simp only [finite.injEq, true_and]
  decide

/-- `x + 2²³` for a canonical `x = M·2^e ≥ 0` with `e ≤ −1` (so `x < 2²³`): the low bits of the pattern are `x` rounded to an integer -/
theorem add_two23_bits (x : Float32) (M : Nat) (e : Int) (hx : x.toModel.unpack = mkF M e) (hc : IsCanon M e)
    (he : e ≤ -1) :
    (x + Float32.ofBits 0x4b000000).toBits.toNat = 0x4b000000 + rneDiv M (2 ^ (-e).toNat) := by
  show (UnpackedFloat.pack .binary32
    (UnpackedFloat.add .binary32 x.toModel.unpack (Float32.ofBits 0x4b000000).toModel.unpack)).toNat = _
  rw [hx, two23_unpack]
  by_cases hM : M = 0
  · subst hM
    rw [rneDiv_zero]
    show (UnpackedFloat.pack .binary32 (.finite .positive (2 ^ 23) 0 (by decide))).toNat = _
    rw [← mkF_pos, pack_mkF _ _ (by unfold IsCanon; omega)]
    decide
  · have hMpos : 0 < M := by omega
    have hM24 : M < 2 ^ 24 := by unfold IsCanon at hc; omega
    rw [mkF_pos M e hMpos, add_pos_pos M (2 ^ 23) e 0 hMpos (by decide) (by omega)]
    have hm : 1 ≤ (0 - e).toNat := by omega
    have hp : 2 ^ 1 ≤ 2 ^ (0 - e).toNat := Nat.pow_le_pow_right (by decide) hm
    have e1 : (2 : Nat) ^ (23 + (0 - e).toNat) = 2 ^ 23 * 2 ^ (0 - e).toNat := Nat.pow_add ..
    have e2 : (2 : Nat) ^ (23 + (0 - e).toNat + 1) = 2 ^ (23 + (0 - e).toNat) * 2 := Nat.pow_succ ..
    have hlog : (M + 2 ^ 23 * 2 ^ (0 - e).toNat).log2 = 23 + (0 - e).toNat :=
      log2_eq (by rw [e1]; omega) (by rw [e2, e1]; omega)
    have ht : tgt (M + 2 ^ 23 * 2 ^ (0 - e).toNat) e = 0 := by unfold tgt; rw [hlog]; omega
    have hQ : 0 < M + 2 ^ 23 * 2 ^ (0 - e).toNat := by omega
    rw [round_eq _ _ (by rw [ht]; omega), rwa_canon _ _ (by rw [ht]; omega),
      pack_mkF _ _ (isCanon_canon _ _ hQ (by rw [ht]; omega) (by rw [ht]; omega))]
    rw [ht]
    have hR : rneDiv (M + 2 ^ 23 * 2 ^ (0 - e).toNat) (2 ^ (0 - e).toNat) = 2 ^ 23 + rneDiv M (2 ^ (0 - e).toNat) := by
      have h := rneDiv_add_even M (2 ^ 22) (2 ^ (0 - e).toNat) (Nat.two_pow_pos _)
      rw [show 2 * 2 ^ 22 = 2 ^ 23 from by decide] at h
      exact h
    rw [hR, code_canon _ _ (by omega) (by omega)]
    have : (-e).toNat = (0 - e).toNat := by omega
    rw [this]; omega

/-! ## reading the closed forms as values scaled by `2^K` -/

/-- the target exponent, shifted by `K`, is the grid exponent of the scaled value -/
theorem tgt_gexp (P : Nat) (ex : Int) (K : Nat) (hP : 0 < P) (hK : 149 ≤ K) (h0 : 0 ≤ ex + K) :
    tgt P ex + K = gexp (K - 149) (P * 2 ^ (ex + K).toNat) := by
  unfold tgt gexp
  rw [log2_mul_pow _ _ hP]
  omega

/-- the canonical result of one rounding, as a scaled value, is `rnd` of the scaled exact value -/
theorem canon_value (P : Nat) (ex : Int) (K : Nat) (hP : 0 < P) (hex : ex ≤ tgt P ex) (hK : 149 ≤ K) (h0 : 0 ≤ ex + K) :
    canonM (rneDiv P (2 ^ (tgt P ex - ex).toNat)) *
        2 ^ (canonE (rneDiv P (2 ^ (tgt P ex - ex).toNat)) (tgt P ex) + K).toNat =
      rnd (K - 149) (P * 2 ^ (ex + K).toNat) := by
  have hg := tgt_gexp P ex K hP hK h0
  unfold rnd
  generalize gexp (K - 149) (P * 2 ^ (ex + K).toNat) = G at *
  have hG : G = (tgt P ex - ex).toNat + (ex + K).toNat := by omega
  have hR : rneDiv (P * 2 ^ (ex + K).toNat) (2 ^ G) = rneDiv P (2 ^ (tgt P ex - ex).toNat) := by
    rw [hG, Nat.pow_add]; exact rneDiv_mul_right _ _ _ (Nat.two_pow_pos _)
  rw [hR]
  generalize rneDiv P (2 ^ (tgt P ex - ex).toNat) = R at *
  unfold canonM canonE
  by_cases h : R = 2 ^ 24
  · rw [if_pos h, if_pos h, h]
    have : (tgt P ex + 1 + K).toNat = G + 1 := by omega
    rw [this, show (2 : Nat) ^ (G + 1) = 2 ^ G * 2 from Nat.pow_succ ..]
    generalize 2 ^ G = g
    omega
  · rw [if_neg h, if_neg h]
    have : (tgt P ex + K).toNat = G := by omega
    rw [this]

/-- rounding a canonical value `M·2^e`, `e ≤ 0`, to an integer, in scaled form -/
theorem rint_value (M : Nat) (e : Int) (K : Nat) (he : e ≤ 0) (h0 : 0 ≤ e + K) :
    rneDiv M (2 ^ (-e).toNat) = rneDiv (M * 2 ^ (e + K).toNat) (2 ^ K) := by
  have : K = (-e).toNat + (e + K).toNat := by omega
  rw [show (2 : Nat) ^ K = 2 ^ (-e).toNat * 2 ^ (e + K).toNat from by rw [← Nat.pow_add, ← this]]
  exact (rneDiv_mul_right _ _ _ (Nat.two_pow_pos _)).symm

/-- **`s · b + 2²³`** for positive finite patterns `s` (normal) and `b` whose exact product is below `2²²`:
    the result pattern is `0x4b000000 +` (the rounded product, rounded to an integer), everything read off the scaled exact
    product `mant s · mant b · 2^expo b` (scale `2^K`, `K = 300 − expo s`) -/
theorem mul_add_two23_bits (s b K : Nat) (hs0 : 0 < s) (hs1 : s < 0x7f800000) (hb0 : 0 < b) (hb1 : b < 0x7f800000)
    (hS : 2 ^ 23 ≤ C05E.mant s) (hK : C05E.expo s + K = 300) (hK' : 149 ≤ K)
    (hV : C05E.mant s * C05E.mant b * 2 ^ C05E.expo b < 2 ^ (K + 22)) :
    (Float32.ofBits (UInt32.ofNat s) * Float32.ofBits (UInt32.ofNat b) + Float32.ofBits 0x4b000000).toBits.toNat =
      0x4b000000 + rneDiv (rnd (K - 149) (C05E.mant s * C05E.mant b * 2 ^ C05E.expo b)) (2 ^ K) := by
  have hx := ofBits_unpack s hs0 hs1
  have hy := ofBits_unpack b hb0 hb1
  have hmb := C05E.mant_pos hb0
  have hP : 0 < C05E.mant s * C05E.mant b := Nat.mul_pos (C05E.mant_pos hs0) hmb
  have hP23 : 2 ^ 23 ≤ C05E.mant s * C05E.mant b := Nat.le_trans hS (Nat.le_mul_of_pos_right _ hmb)
  have hlog : 23 ≤ (C05E.mant s * C05E.mant b).log2 := (Nat.le_log2 (by omega)).2 hP23
  have hexK : (((C05E.expo s : Int) - 150 + ((C05E.expo b : Int) - 150)) + K).toNat = C05E.expo b := by omega
  have hex : ((C05E.expo s : Int) - 150 + ((C05E.expo b : Int) - 150)) ≤
      tgt (C05E.mant s * C05E.mant b) ((C05E.expo s : Int) - 150 + ((C05E.expo b : Int) - 150)) := by
    unfold tgt; omega
  have hg := tgt_gexp _ ((C05E.expo s : Int) - 150 + ((C05E.expo b : Int) - 150)) K hP hK' (by omega)
  have hcv := canon_value _ ((C05E.expo s : Int) - 150 + ((C05E.expo b : Int) - 150)) K hP hex hK' (by omega)
  rw [hexK] at hg hcv
  have hlogV : (C05E.mant s * C05E.mant b * 2 ^ C05E.expo b).log2 < K + 22 :=
    (Nat.log2_lt (by have := Nat.two_pow_pos (C05E.expo b); exact Nat.ne_of_gt (Nat.mul_pos hP this))).2 hV
  have hgub : gexp (K - 149) (C05E.mant s * C05E.mant b * 2 ^ C05E.expo b) + 2 ≤ K := by unfold gexp; omega
  have hmul := mul_unpack _ _ _ _ _ _ _ _ hx hy hex (by omega)
  have hc := isCanon_canon _ _ hP hex (by omega)
  have hce : canonE (rneDiv (C05E.mant s * C05E.mant b)
        (2 ^ (tgt (C05E.mant s * C05E.mant b) ((C05E.expo s : Int) - 150 + ((C05E.expo b : Int) - 150)) -
          ((C05E.expo s : Int) - 150 + ((C05E.expo b : Int) - 150))).toNat))
      (tgt (C05E.mant s * C05E.mant b) ((C05E.expo s : Int) - 150 + ((C05E.expo b : Int) - 150))) ≤ -1 := by
    unfold canonE; split <;> omega
  have hce0 : -149 ≤ tgt (C05E.mant s * C05E.mant b) ((C05E.expo s : Int) - 150 + ((C05E.expo b : Int) - 150)) := by
    unfold tgt; omega
  rw [add_two23_bits _ _ _ hmul hc hce, rint_value _ _ K (by omega) (by unfold canonE; split <;> omega), hcv]

/-! ## monotonicity in the bit pattern -/

/-- the integer `mant·2^expo` is monotone in the pattern (IEEE order = order of the non-negative patterns) -/
theorem weight_mono {b b' : Nat} (h : b ≤ b') :
    C05E.mant b * 2 ^ C05E.expo b ≤ C05E.mant b' * 2 ^ C05E.expo b' := by
  unfold C05E.mant C05E.expo
  by_cases h1 : b' < 2 ^ 23
  · have h0 : b < 2 ^ 23 := by omega
    rw [if_pos h0, if_pos h0, if_pos h1, if_pos h1]
    exact Nat.mul_le_mul_right _ h
  · rw [if_neg h1, if_neg h1]
    have hE' : 1 ≤ b' / 2 ^ 23 := by omega
    by_cases h0 : b < 2 ^ 23
    · rw [if_pos h0, if_pos h0]
      have a1 : b * 2 ^ 1 ≤ 2 ^ 23 * 2 ^ 1 := Nat.mul_le_mul_right _ (by omega)
      have a2 : 2 ^ 23 * 2 ^ 1 ≤ 2 ^ 23 * 2 ^ (b' / 2 ^ 23) :=
        Nat.mul_le_mul_left _ (Nat.pow_le_pow_right (by decide) hE')
      have a3 : 2 ^ 23 * 2 ^ (b' / 2 ^ 23) ≤ (2 ^ 23 + b' % 2 ^ 23) * 2 ^ (b' / 2 ^ 23) :=
        Nat.mul_le_mul_right _ (by omega)
      exact Nat.le_trans a1 (Nat.le_trans a2 a3)
    · rw [if_neg h0, if_neg h0]
      have hE : b / 2 ^ 23 ≤ b' / 2 ^ 23 := Nat.div_le_div_right h
      rcases Nat.lt_or_eq_of_le hE with hlt | heq
      · have a1 : (2 ^ 23 + b % 2 ^ 23) * 2 ^ (b / 2 ^ 23) ≤ (2 ^ 23 * 2) * 2 ^ (b / 2 ^ 23) :=
          Nat.mul_le_mul_right _ (by omega)
        have a2 : (2 ^ 23 * 2) * 2 ^ (b / 2 ^ 23) = 2 ^ 23 * 2 ^ (b / 2 ^ 23 + 1) := by
          rw [show (2 : Nat) ^ (b / 2 ^ 23 + 1) = 2 ^ (b / 2 ^ 23) * 2 from Nat.pow_succ .., Nat.mul_assoc,
            Nat.mul_comm 2]
        have a3 : 2 ^ 23 * 2 ^ (b / 2 ^ 23 + 1) ≤ 2 ^ 23 * 2 ^ (b' / 2 ^ 23) :=
          Nat.mul_le_mul_left _ (Nat.pow_le_pow_right (by decide) hlt)
        have a4 : 2 ^ 23 * 2 ^ (b' / 2 ^ 23) ≤ (2 ^ 23 + b' % 2 ^ 23) * 2 ^ (b' / 2 ^ 23) :=
          Nat.mul_le_mul_right _ (by omega)
        rw [a2] at a1
        exact Nat.le_trans a1 (Nat.le_trans a3 a4)
      · rw [heq]
        apply Nat.mul_le_mul_right
        omega

/-- the integer part read off `s · b + 2²³` is monotone in the pattern `b` (two monotone roundings) -/
theorem mul_add_two23_mono (ms c K : Nat) {b b' : Nat} (h : b ≤ b') :
    rneDiv (rnd c (ms * C05E.mant b * 2 ^ C05E.expo b)) (2 ^ K) ≤
      rneDiv (rnd c (ms * C05E.mant b' * 2 ^ C05E.expo b')) (2 ^ K) := by
  apply rneDiv_mono (Nat.two_pow_pos _)
  apply rnd_mono
  rw [Nat.mul_assoc, Nat.mul_assoc]
  exact Nat.mul_le_mul_left _ (weight_mono h)

end F32Round
