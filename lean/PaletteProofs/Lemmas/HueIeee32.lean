/-
  C11 helper lemmas: the bit-level `Hue.Bits.floor32` / `ceil32` compute the exact floor / ceiling of the value of every
  finite `Float32` (IEEE reasoning layer `PaletteProofs/Ieee`).
-/
import PaletteProofs.Ieee.F32Ops
import PaletteModel.Hue
import Mathlib.Algebra.Order.Floor.Ring

namespace C11
open Hue.Bits Float.Model Float.Model.UnpackedFloat Ieee Ieee.F32

def zero32 : Float32 := Float32.ofBits 0
def one32 : Float32 := Float32.ofBits 0x3f800000
def two23 : Float32 := Float32.ofBits 0x4b000000

theorem fin_zero32 : IsFin zero32 := rfl
theorem v_zero32 : v zero32 = 0 := rfl
theorem fin_one32 : IsFin one32 := rfl
theorem v_one32 : v one32 = 1 := by
  unfold v; rw [show U one32 = .finite .positive 0x800000 (-23) (by decide) from rfl]; norm_num [val, sgn]
theorem fin_two23 : IsFin two23 := rfl
theorem v_two23 : v two23 = 2^23 := by
  unfold v; rw [show U two23 = .finite .positive 0x800000 0 (by decide) from rfl]; norm_num [val, sgn]

/-- finite floats of magnitude at least `2^23` are integers -/
theorem int_of_large {x : Float32} (hx : IsFin x) (h : 2^23 ≤ |v x|) : ∃ n : ℤ, v x = n := by
  unfold v IsFin at *
  have hc := canon_U x
  cases hu : U x <;> rw [hu] at hx h hc <;> simp only [UnpackedFloat.isFinite, Bool.false_eq_true] at hx
  · exact ⟨0, by simp [val]⟩
  · rename_i s m e hm
    have hcm : CanonME spec m e := hc
    have he : 0 ≤ e := by
      by_contra hneg
      have hlt : (m : ℚ) < 2^24 := by exact_mod_cast hcm.lt
      have h2 : (2 : ℚ)^e ≤ 2^(-1 : ℤ) := zpow_le_zpow_right₀ (by norm_num) (by omega)
      have hmag : mag m e < 2^23 := by
        unfold mag
        calc (m : ℚ) * 2^e < 2^24 * 2^e := mul_lt_mul_of_pos_right hlt (two_zpow_pos e)
          _ ≤ 2^24 * 2^(-1 : ℤ) := mul_le_mul_of_nonneg_left h2 (by norm_num)
          _ = 2^23 := by norm_num
      have hpos := mag_pos hm e
      cases s
      · rw [val_neg_eq, abs_neg, abs_of_pos hpos] at h; linarith
      · rw [val_pos_eq, abs_of_pos hpos] at h; linarith
    obtain ⟨k, hk⟩ : ∃ k : ℕ, (k : ℤ) = e := ⟨e.toNat, by omega⟩
    cases s
    · exact ⟨-(m * 2^k : ℕ), by rw [val_neg_eq]; unfold mag; rw [← hk, zpow_natCast]; push_cast; ring⟩
    · exact ⟨(m * 2^k : ℕ), by rw [val_pos_eq]; unfold mag; rw [← hk, zpow_natCast]; push_cast; ring⟩

theorem floor32_eq (x : Float32) : floor32 x =
    if x.isNaN then x else
    if two23 ≤ Float32.abs x then x else
    if zero32 < x then x.toUInt32.toFloat32 else
    if x < zero32 then
      (if (-x).toUInt32.toFloat32 < -x then -((-x).toUInt32.toFloat32 + one32) else x)
    else x := rfl

/-- **`floor32` is the exact floor** on every finite `Float32` -/
theorem floor32_spec {x : Float32} (hx : IsFin x) : IsFin (floor32 x) ∧ v (floor32 x) = ⌊v x⌋ := by
  rw [floor32_eq, hx.not_nan]
  simp only [Bool.false_eq_true, if_false]
  by_cases hbig : two23 ≤ Float32.abs x
  · rw [if_pos hbig]
    refine ⟨hx, ?_⟩
    have : 2^23 ≤ |v x| := by
      have := (le_iff fin_two23 hx.abs).mp hbig
      rwa [v_two23, v_abs] at this
    obtain ⟨n, hn⟩ := int_of_large hx this
    rw [hn, Int.floor_intCast]
  · rw [if_neg hbig]
    have hlt : |v x| < 2^23 := by
      have := mt (le_iff fin_two23 hx.abs).mpr hbig
      rwa [v_two23, v_abs, not_le] at this
    obtain ⟨hlo, hhi⟩ := abs_lt.mp hlt
    by_cases hpos : zero32 < x
    · rw [if_pos hpos]
      have h0 : 0 < v x := by have := (lt_iff fin_zero32 hx).mp hpos; rwa [v_zero32] at this
      have hcast := toUInt32_eq hx h0.le (by linarith [show (2 : ℚ)^23 < 2^32 by norm_num])
      have hfl : ⌊v x⌋ < 2^23 := by rw [Int.floor_lt]; exact_mod_cast hhi
      have hfl0 : 0 ≤ ⌊v x⌋ := Int.floor_nonneg.mpr h0.le
      obtain ⟨hf, hv⟩ := toFloat32_small x.toUInt32 (by omega)
      refine ⟨hf, ?_⟩
      rw [hv, ← hcast]; simp
    · rw [if_neg hpos]
      have hle0 : v x ≤ 0 := by
        have := mt (lt_iff fin_zero32 hx).mpr hpos; rwa [v_zero32, not_lt] at this
      by_cases hneg : x < zero32
      · rw [if_pos hneg]
        have h0 : v x < 0 := by have := (lt_iff hx fin_zero32).mp hneg; rwa [v_zero32] at this
        have hva : v (-x) = - v x := v_neg x
        have hfa : IsFin (-x) := hx.neg
        have hcast := toUInt32_eq hfa (by rw [hva]; linarith) (by rw [hva]; linarith [show (2 : ℚ)^23 < 2^32 by norm_num])
        have hfl : ⌊v (-x)⌋ < 2^23 := by rw [Int.floor_lt, hva]; push_cast; linarith
        have hfl0 : 0 ≤ ⌊v (-x)⌋ := Int.floor_nonneg.mpr (by rw [hva]; linarith)
        obtain ⟨hft, hvt⟩ := toFloat32_small (-x).toUInt32 (by omega)
        have hvt' : v ((-x).toUInt32.toFloat32) = ⌊- v x⌋ := by
          rw [hvt, ← hva, ← hcast]; simp
        by_cases hta : (-x).toUInt32.toFloat32 < -x
        · rw [if_pos hta]
          have hlt' : (⌊- v x⌋ : ℚ) < - v x := by
            have := (lt_iff hft hfa).mp hta; rwa [hvt', hva] at this
          have hnn : (0 : ℚ) ≤ ⌊-v x⌋ := by rw [← hva]; exact_mod_cast hfl0
          have hsum : |v ((-x).toUInt32.toFloat32) + v one32| ≤ ((2^23 : ℕ) : ℚ) := by
            rw [hvt', v_one32, abs_of_nonneg (by linarith)]
            have : ((⌊- v x⌋ + 1 : ℤ) : ℚ) ≤ ((2^23 : ℤ) : ℚ) := by
              rw [← hva]; exact_mod_cast (by omega : ⌊v (-x)⌋ + 1 ≤ 2^23)
            push_cast at this ⊢; linarith
          obtain ⟨hfs, hvs⟩ := add_of_le hft fin_one32 (by norm_num) hsum
          refine ⟨hfs.neg, ?_⟩
          rw [v_neg, hvs, hvt', v_one32]
          have hint : R32 ((⌊- v x⌋ : ℚ) + 1) = ((⌊- v x⌋ + 1 : ℤ) : ℚ) := by
            rw [show (⌊- v x⌋ : ℚ) + 1 = ((⌊- v x⌋ + 1 : ℤ) : ℚ) by push_cast; rfl]
            apply R32_intCast
            rw [← hva, abs_of_nonneg (by omega)]; omega
          rw [hint]
          -- ⌊v x⌋ = -(⌊-v x⌋ + 1) for non-integer v x
          have : ⌊v x⌋ = -(⌊- v x⌋ + 1) := by
            rw [Int.floor_eq_iff]
            have h1 := Int.lt_floor_add_one (- v x)
            push_cast
            constructor <;> linarith
          rw [this]; push_cast; ring
        · rw [if_neg hta]
          refine ⟨hx, ?_⟩
          have hge : - v x ≤ (⌊- v x⌋ : ℚ) := by
            have := mt (lt_iff hft hfa).mpr hta; rwa [hvt', hva, not_lt] at this
          have heq : (⌊- v x⌋ : ℚ) = - v x := le_antisymm (Int.floor_le _) hge
          have : v x = ((-⌊- v x⌋ : ℤ) : ℚ) := by push_cast; linarith
          rw [this, Int.floor_intCast]
      · rw [if_neg hneg]
        have hge0 : 0 ≤ v x := by
          have := mt (lt_iff hx fin_zero32).mpr hneg; rwa [v_zero32, not_lt] at this
        have : v x = 0 := le_antisymm hle0 hge0
        exact ⟨hx, by rw [this]; simp⟩

/-- **`ceil32` is the exact ceiling** on every finite `Float32` -/
theorem ceil32_spec {x : Float32} (hx : IsFin x) : IsFin (ceil32 x) ∧ v (ceil32 x) = ⌈v x⌉ := by
  unfold ceil32
  obtain ⟨hf, hv⟩ := floor32_spec hx.neg
  refine ⟨hf.neg, ?_⟩
  rw [v_neg, hv, v_neg, Int.floor_neg]; push_cast; ring

end C11
