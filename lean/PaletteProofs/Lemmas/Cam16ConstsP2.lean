/-
  Values of the remaining extracted CAM16 constants at `PReal` (poisoned reals), one `rfl` lemma each — continuation of
  `Lemmas/Cam16ConstsP.lean` (which covers `xyz_to_cam16`, `prepare_parameters`, `Adapt::run`, the surround table and the
  `calculate_*` functions) for the inverse model, the attribute algebra and CAM16-UCS.  Used by `C07_FiniteCam16*.lean`.
-/
import PaletteProofs.PReal
import PaletteModel.Color.Cam16

namespace C16.KP

theorem nonBlack_0 : (Scalar.const Gen.Cam16.nonBlack_0 : PReal) = PReal.ok ((1.64 : ℝ)) := rfl
theorem nonBlack_1 : (Scalar.const Gen.Cam16.nonBlack_1 : PReal) = PReal.ok ((0.29 : ℝ)) := rfl
theorem nonBlack_2 : (Scalar.const Gen.Cam16.nonBlack_2 : PReal) = PReal.ok (-(0.73 : ℝ)) := rfl
theorem nonBlack_3 : (Scalar.const Gen.Cam16.nonBlack_3 : PReal) = PReal.ok ((10.0 : ℝ)) := rfl
theorem nonBlack_4 : (Scalar.const Gen.Cam16.nonBlack_4 : PReal) = PReal.ok ((9.0 : ℝ)) := rfl
theorem nonBlack_5 : (Scalar.const Gen.Cam16.nonBlack_5 : PReal) = PReal.ok ((0.25 : ℝ)) := rfl
theorem nonBlack_6 : (Scalar.const Gen.Cam16.nonBlack_6 : PReal) = PReal.ok ((2.0 : ℝ)) := rfl
theorem nonBlack_7 : (Scalar.const Gen.Cam16.nonBlack_7 : PReal) = PReal.ok ((3.8 : ℝ)) := rfl
theorem nonBlack_8 : (Scalar.const Gen.Cam16.nonBlack_8 : PReal) = PReal.ok ((2.0 : ℝ)) := rfl
theorem nonBlack_9 : (Scalar.const Gen.Cam16.nonBlack_9 : PReal) = PReal.ok ((5e4 : ℝ)) := rfl
theorem nonBlack_10 : (Scalar.const Gen.Cam16.nonBlack_10 : PReal) = PReal.ok ((13.0 : ℝ)) := rfl
theorem nonBlack_11 : (Scalar.const Gen.Cam16.nonBlack_11 : PReal) = PReal.ok ((23.0 : ℝ)) := rfl
theorem nonBlack_12 : (Scalar.const Gen.Cam16.nonBlack_12 : PReal) = PReal.ok ((0.305 : ℝ)) := rfl
theorem nonBlack_13 : (Scalar.const Gen.Cam16.nonBlack_13 : PReal) = PReal.ok ((23.0 : ℝ)) := rfl
theorem nonBlack_14 : (Scalar.const Gen.Cam16.nonBlack_14 : PReal) = PReal.ok ((11.0 : ℝ)) := rfl
theorem nonBlack_15 : (Scalar.const Gen.Cam16.nonBlack_15 : PReal) = PReal.ok ((108.0 : ℝ)) := rfl
theorem nonBlack_16 : (Scalar.const Gen.Cam16.nonBlack_16 : PReal) = PReal.ok ((1403.0 : ℝ)) := rfl
theorem nonBlack_17 : (Scalar.const Gen.Cam16.nonBlack_17 : PReal) = PReal.ok ((460.0 : ℝ)) := rfl
theorem nonBlack_18 : (Scalar.const Gen.Cam16.nonBlack_18 : PReal) = PReal.ok ((451.0 : ℝ)) := rfl
theorem nonBlack_19 : (Scalar.const Gen.Cam16.nonBlack_19 : PReal) = PReal.ok ((288.0 : ℝ)) := rfl
theorem nonBlack_20 : (Scalar.const Gen.Cam16.nonBlack_20 : PReal) = PReal.ok ((460.0 : ℝ)) := rfl
theorem nonBlack_21 : (Scalar.const Gen.Cam16.nonBlack_21 : PReal) = PReal.ok ((891.0 : ℝ)) := rfl
theorem nonBlack_22 : (Scalar.const Gen.Cam16.nonBlack_22 : PReal) = PReal.ok ((261.0 : ℝ)) := rfl
theorem nonBlack_23 : (Scalar.const Gen.Cam16.nonBlack_23 : PReal) = PReal.ok ((460.0 : ℝ)) := rfl
theorem nonBlack_24 : (Scalar.const Gen.Cam16.nonBlack_24 : PReal) = PReal.ok ((220.0 : ℝ)) := rfl
theorem nonBlack_25 : (Scalar.const Gen.Cam16.nonBlack_25 : PReal) = PReal.ok ((6300.0 : ℝ)) := rfl
theorem nonBlack_26 : (Scalar.const Gen.Cam16.nonBlack_26 : PReal) = PReal.ok ((100.0 : ℝ)) := rfl
theorem lightnessToJRoot_0 : (Scalar.const Gen.Cam16.lightnessToJRoot_0 : PReal) = PReal.ok ((0.1 : ℝ)) := rfl
theorem brightnessToJRoot_0 : (Scalar.const Gen.Cam16.brightnessToJRoot_0 : PReal) = PReal.ok ((0.25 : ℝ)) := rfl
theorem brightnessToJRoot_1 : (Scalar.const Gen.Cam16.brightnessToJRoot_1 : PReal) = PReal.ok ((4.0 : ℝ)) := rfl
theorem saturationToAlpha_0 : (Scalar.const Gen.Cam16.saturationToAlpha_0 : PReal) = PReal.ok ((0.0004 : ℝ)) := rfl
theorem saturationToAlpha_1 : (Scalar.const Gen.Cam16.saturationToAlpha_1 : PReal) = PReal.ok ((4.0 : ℝ)) := rfl
theorem unadapt_0 : (Scalar.const Gen.Cam16.unadapt_0 : PReal) = PReal.ok ((400.0 : ℝ)) := rfl
theorem jmhToUcs_0 : (Scalar.const Gen.Cam16.jmhToUcs_0 : PReal) = PReal.ok ((0.0228 : ℝ)) := rfl
theorem jmhToUcs_1 : (Scalar.const Gen.Cam16.jmhToUcs_1 : PReal) = PReal.ok ((0.0228 : ℝ)) := rfl
theorem jmhToUcs_2 : (Scalar.const Gen.Cam16.jmhToUcs_2 : PReal) = PReal.ok ((1.7 : ℝ)) := rfl
theorem jmhToUcs_3 : (Scalar.const Gen.Cam16.jmhToUcs_3 : PReal) = PReal.ok ((0.007 : ℝ)) := rfl
theorem ucsToJmh_0 : (Scalar.const Gen.Cam16.ucsToJmh_0 : PReal) = PReal.ok ((0.0228 : ℝ)) := rfl
theorem ucsToJmh_1 : (Scalar.const Gen.Cam16.ucsToJmh_1 : PReal) = PReal.ok ((0.0228 : ℝ)) := rfl
theorem ucsToJmh_2 : (Scalar.const Gen.Cam16.ucsToJmh_2 : PReal) = PReal.ok ((1.7 : ℝ)) := rfl
theorem ucsToJmh_3 : (Scalar.const Gen.Cam16.ucsToJmh_3 : PReal) = PReal.ok ((0.007 : ℝ)) := rfl

end C16.KP
