/-
  From `ℚ` to `ℝ`: the model's matrix code evaluated at `KRat.instScalarRat` (what `decide +kernel` runs in `C14_White.lean`)
  is the cast of the same code read at `ℝ` (what the theorems of `C14_Gray*.lean` are about).  Only `+ − × ÷`, constants and
  the generated tables are involved, so the cast is a ring homomorphism argument; nothing here is a property statement.
-/
import PaletteProofs.Real
import PaletteProofs.KRat
import PaletteModel.Color.Basic
import Mathlib.Tactic.Linarith

namespace KRatCast
open KRat

/-- `KRat.sci` is Lean's own reading of a scientific literal over `ℚ` -/
theorem sci_eq (m : Nat) (s : Bool) (e : Nat) : KRat.sci m s e = (OfScientific.ofScientific m s e : Rat) := by
  show _ = Rat.ofScientific m s e
  cases s
  · rw [Rat.ofScientific_false_def]; simp [KRat.sci]
  · rw [Rat.ofScientific_true_def, Rat.mkRat_eq_div]; simp [KRat.sci]

/-- a literal of model code read at `instScalarRat` casts to the same literal at `ℝ` -/
theorem lit_cast (m : Nat) (s : Bool) (e : Nat) :
    ((@OfScientific.ofScientific Rat instScalarRat.toOfScientific m s e : Rat) : ℝ) = (OfScientific.ofScientific m s e : ℝ) := by
  show ((KRat.sci m s e : Rat) : ℝ) = _
  rw [sci_eq]; simp

/-- a constant expression read at `ℚ` (`KRat.toRat`, the `const` of `instScalarRat`) casts to its reading at `ℝ` -/
theorem toRat_cast (k : K) : ((KRat.toRat k : Rat) : ℝ) = (K.eval k : ℝ) := by
  induction k with
  | lit m s e => simp only [KRat.toRat, K.eval, sci_eq]; simp
  | add a b iha ihb => simp only [KRat.toRat, K.eval, Rat.cast_add, iha, ihb]
  | sub a b iha ihb => simp only [KRat.toRat, K.eval, Rat.cast_sub, iha, ihb]
  | mul a b iha ihb => simp only [KRat.toRat, K.eval, Rat.cast_mul, iha, ihb]
  | div a b iha ihb => simp only [KRat.toRat, K.eval, Rat.cast_div, iha, ihb]
  | neg a iha => simp only [KRat.toRat, K.eval, Rat.cast_neg, iha]

theorem const_cast (k : K) : (((Scalar.const k : Rat)) : ℝ) = (Scalar.const k : ℝ) := toRat_cast k

/-- componentwise cast -/
def castV (v : V3 Rat) : V3 ℝ := ⟨(v.c0 : ℝ), (v.c1 : ℝ), (v.c2 : ℝ)⟩
def castM (m : M3 Rat) : M3 ℝ := ⟨(m.m0 : ℝ), (m.m1 : ℝ), (m.m2 : ℝ), (m.m3 : ℝ), (m.m4 : ℝ), (m.m5 : ℝ), (m.m6 : ℝ), (m.m7 : ℝ), (m.m8 : ℝ)⟩

theorem add_cast (a b : Rat) : (((a + b : Rat)) : ℝ) = (a : ℝ) + (b : ℝ) := Rat.cast_add a b
theorem mul_cast (a b : Rat) : (((a * b : Rat)) : ℝ) = (a : ℝ) * (b : ℝ) := Rat.cast_mul a b
theorem sub_cast (a b : Rat) : (((a - b : Rat)) : ℝ) = (a : ℝ) - (b : ℝ) := Rat.cast_sub a b

/-- `multiply_3x3_and_vec3` commutes with the cast -/
theorem mulVec_cast (m : M3 Rat) (v : V3 Rat) : castV (m.mulVec v) = (castM m).mulVec (castV v) := by
  simp only [M3.mulVec, castV, castM]
  congr 1 <;> (simp only [add_cast, mul_cast])

/-- `matrix_map(table, T::from_f64)` commutes with the cast -/
theorem ofK_cast (l : List K) : castM (M3.ofK l : M3 Rat) = (M3.ofK l : M3 ℝ) := by
  unfold M3.ofK
  split
  · simp only [castM, const_cast]
  · simp only [castM, lit_cast]

theorem v3OfK_cast (l : List K) : castV (Color.v3OfK l : V3 Rat) = (Color.v3OfK l : V3 ℝ) := by
  unfold Color.v3OfK
  split
  · simp only [castV, const_cast]
  · simp only [castV, lit_cast]

/-- `Wp::get_xyz()` commutes with the cast -/
theorem whitePoint_cast (n : String) : castV (Color.whitePoint n : V3 Rat) = (Color.whitePoint n : V3 ℝ) := by
  unfold Color.whitePoint
  split
  · exact v3OfK_cast _
  · simp only [castV, lit_cast]

/-- `|·|` of `KRat` -/
theorem absR_cast (x : Rat) : ((KRat.absR x : Rat) : ℝ) = |(x : ℝ)| := by
  unfold KRat.absR
  split
  · rename_i h; rw [abs_of_neg (by exact_mod_cast h)]; simp
  · rename_i h; rw [abs_of_nonneg (by exact_mod_cast (not_lt.mp h))]

theorem absR_le_cast {x eps : Rat} (h : KRat.absR x ≤ eps) : |(x : ℝ)| ≤ (eps : ℝ) := by
  rw [← absR_cast]; exact_mod_cast h

theorem absR_sub_le_cast {x y eps : Rat} (h : KRat.absR (x - y) ≤ eps) : |(x : ℝ) - (y : ℝ)| ≤ (eps : ℝ) := by
  have := absR_le_cast h; rwa [Rat.cast_sub] at this

end KRatCast
