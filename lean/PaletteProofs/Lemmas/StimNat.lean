/-
  C06 helper lemmas: integer → binary64.
  * `natToF64_spec`: the bit-level `Stim.natToF64` (`n as f64` for every `n < 2^128`; the 128-bit sources are rounded by hand:
    keep 53 bits, round half to even, scale by `2^sh`) is finite with value `R64 n` — the correctly rounded integer.
  * `two_pow_pattern`: `Float.ofBits ((1023 + k)·2^52) = 2^k` for `k ≤ 1023`.
  * `R64_scale_down`: dividing a float of magnitude `≥ 1` by `2^w` is exact; a rounded natural number is `0` or `≥ 1`.
-/
import PaletteProofs.Lemmas.StimWiden

namespace C06
open Stim Float.Model Float.Model.UnpackedFloat Ieee Ieee.F64

/-- the pattern with exponent field `1023 + k` and zero mantissa is the float `2^k` -/
theorem two_pow_pattern {k : ℕ} (hk : k ≤ 1023) :
    IsFin (Float.ofBits (UInt64.ofNat ((1023 + k) * 2^52))) ∧ v (Float.ofBits (UInt64.ofNat ((1023 + k) * 2^52))) = 2^k := by
  have hlt : (1023 + k) * 2^52 < 2^64 := by
    calc (1023 + k) * 2^52 < 2^11 * 2^52 := Nat.mul_lt_mul_of_pos_right (by omega) (by norm_num)
      _ ≤ 2^64 := by norm_num
  have hnat : (UInt64.ofNat ((1023 + k) * 2^52)).toNat = 0 * 2^63 + (1023 + k) * 2^52 + 0 := by
    rw [UInt64.toNat_ofNat_of_lt' hlt]; omega
  obtain ⟨f1, f2, f3⟩ := fields_of_sum (s := 0) (E := 1023 + k) (M := 0) (by norm_num) (by omega) (by norm_num)
  obtain ⟨hf, hv⟩ := ofBits_fin (a := UInt64.ofNat ((1023 + k) * 2^52)) (by rw [hnat, f2]; omega)
  refine ⟨hf, ?_⟩
  rw [hv, hnat]
  unfold signOf wOf
  rw [f1, f2, f3, if_pos rfl, if_neg (by omega)]
  simp only [sgn, one_mul, Nat.add_zero]
  have e : 1023 + k - 1 = 1022 + k := by omega
  rw [e]
  simp only [Nat.cast_mul, Nat.cast_pow, Nat.cast_ofNat]
  rw [pow_add, ← zpow_natCast (2 : ℚ) 1022, ← zpow_natCast (2 : ℚ) 52]
  have : (2 : ℚ)^((52 : ℕ) : ℤ) * (2^((1022 : ℕ) : ℤ) * 2^k) * 2^(-1074 : ℤ) =
      2^k * (2^((52 : ℕ) : ℤ) * 2^((1022 : ℕ) : ℤ) * 2^(-1074 : ℤ)) := by ring
  rw [this, ← zpow_add₀ (by norm_num), ← zpow_add₀ (by norm_num)]
  norm_num

/-- `R64 n` for a natural number with more than 53 bits: round-half-even of the quotient by `2^sh`, `sh = log2 n − 52` -/
theorem R64_nat_big {n : ℕ} (hn : 2^53 ≤ n) :
    R64 (n : ℚ) = (rneShift n (n.log2 + 1 - 53) : ℚ) * 2^(n.log2 + 1 - 53) := by
  have hpos : 0 < n := lt_of_lt_of_le (by norm_num) hn
  have hlog : 53 ≤ n.log2 := (Nat.le_log2 (by omega)).mpr hn
  have ht : texp spec.mantissaBits spec.minExponent ((n : ℚ) * 2^(0 : ℤ)) = ((n.log2 + 1 - 53 : ℕ) : ℤ) := by
    rw [texp_eq_tE spec hpos, tE_def]
    show max ((n.log2 : ℤ) + 1 + 0 - ((53 : ℕ) : ℤ)) (-1074) = _
    rw [max_eq_left (by push_cast; omega)]; push_cast; omega
  have h1 : (n : ℚ) = (n : ℚ) * 2^(0 : ℤ) := by simp
  show R spec.mantissaBits spec.minExponent (n : ℚ) = _
  rw [h1]; unfold R; rw [ht, ← h1, zpow_natCast, rne_div_pow]; push_cast; rfl

/-- the hand-written rounding of `natToF64` is `rneShift` -/
theorem natToF64_round (n sh : ℕ) (hsh : 1 ≤ sh) :
    (if n % 2^sh > 2^(sh - 1) || (n % 2^sh == 2^(sh - 1) && n / 2^sh % 2 == 1) then n / 2^sh + 1 else n / 2^sh) =
      rneShift n sh := by
  obtain ⟨j, rfl⟩ : ∃ j, sh = j + 1 := ⟨sh - 1, by omega⟩
  unfold rneShift
  rw [Nat.add_sub_cancel]
  have hp : 2^(j + 1) = 2 * 2^j := by rw [Nat.pow_succ]; omega
  have h2 : n / 2^(j + 1) % 2 = 0 ∨ n / 2^(j + 1) % 2 = 1 := by omega
  generalize n / 2^(j + 1) = q at *
  generalize n % 2^(j + 1) = r at *
  rw [hp]
  by_cases c1 : r > 2^j
  · simp only [c1, decide_true, Bool.true_or, if_true]
    rw [if_neg (by omega), if_pos (by omega)]
  · by_cases c2 : r = 2^j
    · rcases h2 with h | h
      · simp [c2, h]
      · simp [c2, h]
    · have c3 : r < 2^j := by omega
      have : (r == 2^j) = false := by simp [c2]
      simp only [c1, decide_false, this, Bool.false_and, Bool.or_false, Bool.false_eq_true, if_false]
      rw [if_pos (by omega)]

theorem natToF64_big_unfold (n : ℕ) (h : ¬ n < 2^64) : natToF64 n =
    (UInt64.ofNat (if n % 2^(n.log2 + 1 - 53) > 2^(n.log2 + 1 - 53 - 1) ||
        (n % 2^(n.log2 + 1 - 53) == 2^(n.log2 + 1 - 53 - 1) && n / 2^(n.log2 + 1 - 53) % 2 == 1)
      then n / 2^(n.log2 + 1 - 53) + 1 else n / 2^(n.log2 + 1 - 53))).toFloat *
      Float.ofBits (UInt64.ofNat ((1023 + (n.log2 + 1 - 53)) * 2^52)) := by
  unfold natToF64; rw [if_neg h]

/-- the product of an integer-valued float `q ≤ 2^53` and the float `2^k` is exact -/
theorem mul_pow_exact {a c : Float} {q k : ℕ} (fa : IsFin a) (fc : IsFin c) (hva : v a = q) (hvc : v c = 2^k)
    (hq : q ≤ 2^53) (hk : k ≤ 75) : IsFin (a * c) ∧ v (a * c) = (q : ℚ) * 2^k := by
  have hex : R64 (v a * v c) = (q : ℚ) * 2^k := by rw [hva, hvc]; exact R64_nat_mul_pow hq
  have hle : (q : ℚ) * 2^k ≤ 2^53 * 2^75 := by
    have h1 : (q : ℚ) ≤ 2^53 := by exact_mod_cast hq
    have h2 : (2 : ℚ)^k ≤ 2^75 := pow_le_pow_right₀ (by norm_num) hk
    exact mul_le_mul h1 h2 (by positivity) (by positivity)
  have hΩ : |R64 (v a * v c)| < Ω spec := by
    rw [hex, abs_of_nonneg (by positivity), Ω_eq]
    calc (q : ℚ) * 2^k ≤ 2^53 * 2^75 := hle
      _ < 2^1024 := by rw [← pow_add]; exact pow_lt_pow_right₀ (by norm_num) (by norm_num)
  obtain ⟨hf, hv⟩ := fin_of_cases (mul_cases fa fc) hΩ
  exact ⟨hf, by rw [hv, hex]⟩

theorem rneShift_le_two53 {n : ℕ} (hn : 2^53 ≤ n) : rneShift n (n.log2 + 1 - 53) ≤ 2^53 := by
  have hpos : 0 < n := lt_of_lt_of_le (by norm_num) hn
  have hlog : 53 ≤ n.log2 := (Nat.le_log2 (by omega)).mpr hn
  have h3 : (n : ℚ) ≤ 2^((n.log2 + 1 - 53) + 53) := by
    have := (natCast_lt_two_pow_log2 n).le
    rwa [show n.log2 + 1 - 53 + 53 = n.log2 + 1 by omega]
  have h4 : (n : ℚ) / 2^(n.log2 + 1 - 53) ≤ 2^53 := by
    rw [div_le_iff₀ (by positivity), ← pow_add, add_comm]; exact h3
  have h5 := rne_le_of_le_natPow h4
  rw [rne_div_pow] at h5
  exact_mod_cast h5

/-- **`Stim.natToF64` is the correctly rounded conversion** for every `n < 2^128` -/
theorem natToF64_spec {n : ℕ} (hn : n < 2^128) : IsFin (natToF64 n) ∧ v (natToF64 n) = R64 (n : ℚ) := by
  by_cases h : n < 2^64
  · have e : natToF64 n = (UInt64.ofNat n).toFloat := by unfold natToF64; rw [if_pos h]
    rw [e]
    have := u64_toFloat (UInt64.ofNat n)
    rwa [UInt64.toNat_ofNat_of_lt' h] at this
  · have hge : 2^64 ≤ n := not_lt.mp h
    have h53 : 2^53 ≤ n := le_trans (by norm_num) hge
    have hlog0 : 64 ≤ n.log2 := (Nat.le_log2 (by omega)).mpr hge
    have hlog1 : n.log2 < 128 := (Nat.log2_lt (by omega)).mpr hn
    rw [natToF64_big_unfold n h, natToF64_round n _ (by omega), R64_nat_big h53]
    have hq := rneShift_le_two53 h53
    set q := rneShift n (n.log2 + 1 - 53) with hqdef
    have hq64 : q < 2^64 := lt_of_le_of_lt hq (by norm_num)
    obtain ⟨fa, va⟩ := u64_toFloat (UInt64.ofNat q)
    rw [UInt64.toNat_ofNat_of_lt' hq64] at va
    have va' : v (UInt64.ofNat q).toFloat = q := by
      rw [va]; have := R64_nat_mul_pow (q := q) (j := 0) hq; simpa using this
    obtain ⟨fc, vc⟩ := two_pow_pattern (k := n.log2 + 1 - 53) (by omega)
    exact mul_pow_exact fa fc va' vc hq (by omega)

/-- dividing a finite float of magnitude at least one (or zero) by `2^w`, `w ≤ 1022`, is exact -/
theorem R64_scale_down {x : Float} (hx : IsFin x) (h1 : v x = 0 ∨ 1 ≤ |v x|) {w : ℕ} (hw : w ≤ 1022) :
    R64 (v x / 2^w) = v x / 2^w := by
  have hc := canon_U x
  unfold IsFin v at *
  cases hu : U x <;> rw [hu] at hx hc h1 <;> simp only [UnpackedFloat.isFinite, Bool.false_eq_true] at hx
  · simp [val, Rs_zero]
  · rename_i s m e hm
    have cm : CanonME spec m e := hc
    have hmag := mag_pos hm e
    have habs : |val (.finite s m e hm)| = mag m e := by
      cases s
      · rw [val_neg_eq, abs_neg, abs_of_pos hmag]
      · rw [val_pos_eq, abs_of_pos hmag]
    have h1' : 1 ≤ mag m e := by
      rcases h1 with h | h
      · exfalso; have : |val (.finite s m e hm)| = 0 := by rw [h]; simp
        rw [habs] at this; linarith
      · rwa [habs] at h
    have he : -53 < e := by
      by_contra hle; rw [not_lt] at hle
      have hmlt : (m : ℚ) < 2^53 := by exact_mod_cast cm.lt
      have h2 : (2 : ℚ)^e ≤ 2^(-53 : ℤ) := zpow_le_zpow_right₀ (by norm_num) hle
      have : mag m e < 2^53 * 2^(-53 : ℤ) := by
        unfold mag
        exact lt_of_lt_of_le (mul_lt_mul_of_pos_right hmlt (two_zpow_pos e)) (mul_le_mul_of_nonneg_left h2 (by positivity))
      have e1 : (2 : ℚ)^53 * 2^(-53 : ℤ) = 1 := by norm_num
      linarith
    have key : val (.finite s m e hm) / 2^w = (((sgn s).num * m : ℤ) : ℚ) * 2^(e - w) := by
      simp only [val]
      rw [zpow_sub₀ (by norm_num), zpow_natCast]
      cases s <;> simp [sgn] <;> ring
    rw [key]
    apply R_fix (p := spec.mantissaBits) (emin := spec.minExponent)
    · have : |(sgn s).num * (m : ℤ)| = m := by cases s <;> simp [sgn]
      rw [this]; exact_mod_cast cm.lt
    · show (-1074 : ℤ) ≤ e - w; omega

/-- a correctly rounded natural number is zero or at least one -/
theorem R64_nat_zero_or_ge_one (n : ℕ) : R64 (n : ℚ) = 0 ∨ 1 ≤ |R64 (n : ℚ)| := by
  rcases Nat.eq_zero_or_pos n with rfl | hpos
  · left; simp [Rs_zero]
  · right
    have h1 : (1 : ℚ) ≤ n := by exact_mod_cast hpos
    have := R64_mono h1
    rw [show (1 : ℚ) = ((1 : ℕ) : ℚ) by norm_num, R64_natCast (by norm_num)] at this
    rw [abs_of_nonneg (R_nonneg (by positivity))]; exact_mod_cast this

end C06
