/-
  C05 — error bound of the 16-bit ProPhoto encoder table (`FromLinear<f32, u16>`, feature `gamma_lut_u16`) against the exact curve
  `65535·x^(5/9)`: the `Nat`-only per-cell checks that the kernel evaluates (Mathlib-free; read at ℝ in `Lemmas/C05_Err16Real.lean`,
  assembled in `C05_Err16Bound.lean`).

  With `bit_width = 16` and `man_index_width = 7` the in-cell coordinate `t` is the low 16 bits of the pattern: a cell is 65 536
  consecutive patterns `lo + t` which share the exponent, every pattern is its own interpolation step, and the code is
        code(t) = ⌊L(t)⌋ ,   L(t) = (bias + scale·t) / 2³²         (`lnum entry t = bias + scale·t`).
  The table has 1152 cells (9 binades × 128), i.e. 75 M steps: too many for a per-step check.  Instead, per cell:

  * `x(t) = (mant lo + t)·2^expo lo / 2^150` is affine in `t`, `C(t) = 65535·x(t)^(5/9)` is concave, `L` is affine.
  * **upper side** `code − C ≤ L − C < 0.6`: `L − 0.6` is affine and below the concave `C` at `t = 0` and `t = 65535`, hence on
    the whole cell (`upOK` at the two ends).
  * **lower side** `code − C > L − 1 − C ≥ −0.6`, i.e. `C ≤ L − 0.4`: `C` lies below each of its tangents
    `T(t) = 65535·x₀^(5/9)·(4/9 + 5·x(t)/(9·x₀))` (Bernoulli), `T` and `L − 0.4` are affine, so `T ≤ L − 0.4` at the two ends of a
    sub-interval gives `C ≤ L − 0.4` on it (`loOK` with tangent point `t0` at an end `t`).  Two sub-intervals per cell
    (`[0, 32768]` tangent at 16384, `[32768, 65535]` tangent at 49152).

  Each check is one comparison of integer powers: `x₀^(5/9) ≤ R` is `x₀⁵ ≤ R⁹` with `R` rational.  6 checks per cell, 6912 in all.
-/
import PaletteProofs.Lemmas.C05_ErrCheck

namespace C05E16
open Lut C05E

/-- the integer `mant·2^expo` of a pattern: value `= W b / 2^150` -/
def W (b : Nat) : Nat := mant b * 2 ^ expo b

/-- bias and scale of a 16-bit table entry, as the macro unpacks them -/
def lA (entry : Nat) : Nat := (entry >>> (2 * 16)) <<< (16 + 1)
def lS (entry : Nat) : Nat := entry &&& (2 ^ (2 * 16) - 1)

/-- numerator of the interpolation line of a 16-bit table entry: `cellRes 16 entry t = lnum entry t >>> 32` -/
def lnum (entry t : Nat) : Nat := lA entry + lS entry * t

theorem cellRes_eq (entry t : Nat) : cellRes 16 entry t = lnum entry t / 2 ^ 32 := by
  unfold cellRes lnum lA lS
  exact Nat.shiftRight_eq_div_pow _ _

/-- the code is the floor of the interpolation line: `code·2³² ≤ lnum < (code + 1)·2³²` -/
theorem cellRes_floor (entry t : Nat) :
    cellRes 16 entry t * 2 ^ 32 ≤ lnum entry t ∧ lnum entry t < (cellRes 16 entry t + 1) * 2 ^ 32 := by
  rw [cellRes_eq]
  have e := Nat.div_add_mod (lnum entry t) (2 ^ 32)
  have hr := Nat.mod_lt (lnum entry t) (Nat.two_pow_pos 32)
  omega

/-- `5·2³²·65535`: `(L − c/5)/65535 = (5·lnum − c·2³²)/K16` -/
def K16 : Nat := 5 * 2 ^ 32 * 65535
/-- `0.6 = c06/(5·2³²)`, `0.4 = c04/(5·2³²)` -/
def c06 : Nat := 3 * 2 ^ 32
def c04 : Nat := 2 * 2 ^ 32

/-- `L(t) − 0.6 < 65535·x(lo+t)^(5/9)`: `(5·lnum − 3·2³²)/K16 < x^(5/9)` (the left side is positive: the least code of the table is 2048) -/
def upOK (entry lo t : Nat) : Bool :=
  decide (c06 < 5 * lnum entry t) &&
  decide ((5 * lnum entry t - c06) ^ 9 * 2 ^ 750 < W (lo + t) ^ 5 * K16 ^ 9)

/-- the tangent of `65535·x^(5/9)` at `x₀ = x(lo+t0)`, evaluated at `x = x(lo+t)`, does not exceed `L(t) − 0.4`:
    `x₀^(5/9) ≤ R`, `R = (5·lnum − 2·2³²)·9·W₀ / (K16·(4·W₀ + 5·W))`, as `x₀⁵ ≤ R⁹` -/
def loOK (entry lo t0 t : Nat) : Bool :=
  decide (c04 < 5 * lnum entry t) &&
  decide (W (lo + t0) ^ 5 * (K16 * (4 * W (lo + t0) + 5 * W (lo + t))) ^ 9 ≤
    ((5 * lnum entry t - c04) * 9 * W (lo + t0)) ^ 9 * 2 ^ 750)

/-- all six checks of the cell whose first pattern is `lo` -/
def cellOK (entry lo : Nat) : Bool :=
  upOK entry lo 0 && upOK entry lo 65535 &&
  loOK entry lo 16384 0 && loOK entry lo 16384 32768 &&
  loOK entry lo 49152 32768 && loOK entry lo 49152 65535

attribute [local irreducible] cellOK

/-- all cells of a (part of a) table whose first cell starts at pattern `lo` -/
def tableOK : List Nat → Nat → Bool
  | [], _ => true
  | e :: r, lo => cellOK e lo && tableOK r (lo + 65536)

theorem tableOK_get : ∀ (l : List Nat) (lo : Nat), tableOK l lo = true → ∀ j, j < l.length →
    cellOK (l.getD j 0) (lo + j * 65536) = true
  | [], _, _, j, hj => by simp at hj
  | e :: r, lo, h, j, hj => by
    simp only [tableOK, Bool.and_eq_true] at h
    cases j with
    | zero => simpa using h.1
    | succ k =>
      have := tableOK_get r (lo + 65536) h.2 k (by simpa using hj)
      have e2 : lo + 65536 + k * 65536 = lo + (k + 1) * 65536 := by rw [Nat.add_mul]; omega
      rw [e2] at this
      simpa using this

/-- chunks: the part `[a, a+n)` of the table, checked with the right starting pattern -/
def chunkOK (minBits : Nat) (table : List Nat) (a n : Nat) : Bool :=
  tableOK ((table.drop a).take n) (minBits + a * 65536)

theorem chunkOK_get (minBits : Nat) (table : List Nat) (a n : Nat) (h : chunkOK minBits table a n = true)
    (j : Nat) (h1 : a ≤ j) (h2 : j < a + n) (h3 : j < table.length) :
    cellOK (table.getD j 0) (minBits + j * 65536) = true := by
  have hlen : j - a < ((table.drop a).take n).length := by
    rw [List.length_take, List.length_drop]; omega
  have := tableOK_get _ _ h (j - a) hlen
  have e1 : ((table.drop a).take n).getD (j - a) 0 = table.getD j 0 := by
    rw [List.getD_eq_getElem?_getD, List.getD_eq_getElem?_getD, List.getElem?_take_of_lt (by omega), List.getElem?_drop]
    congr 2; omega
  have e2 : minBits + a * 65536 + (j - a) * 65536 = minBits + j * 65536 := by
    rw [Nat.add_assoc, ← Nat.add_mul]; congr 2; omega
  rw [e1, e2] at this
  exact this

/-- the check of cells `[a, a+n)` of the ProPhoto table regenerated from /repo -/
def prophotoChunk (a n : Nat) : Bool := chunkOK Gen.Lut.prophotoMinFloat Gen.Lut.prophotoEnc a n

end C05E16
