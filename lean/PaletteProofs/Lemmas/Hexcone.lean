/-
  Lemmas about the hexcone code at ℝ shared by C01_Rgb and C02_Rgb: the `(max, min, sep, coeff)` block by ordering,
  the hue normalisation, and the zone selection of `Rgb ← Hsv/Hsl` on a sector `h = k + f`.
-/
import PaletteProofs.Real
import PaletteModel.Color.RgbFamily
import PaletteSpec.Rgb
import Mathlib.Algebra.Order.Floor.Ring
import Mathlib.Tactic.FieldSimp
import Mathlib.Tactic.Linarith
import Mathlib.Tactic.IntervalCases

namespace Hexcone
open RgbFam

theorem floor_eq (x : ℝ) : Scalar.floor x = (⌊x⌋ : ℝ) := rfl
theorem eqv_iff (a b : ℝ) : Scalar.eqv a b ↔ a = b := by unfold Scalar.eqv; exact le_antisymm_iff.symm

theorem max0_of_nonneg {x : ℝ} (h : 0 ≤ x) : max0 x = x := by
  unfold max0; simp only [RealScalar.max_eq]; norm_num; exact h

/-- `normalize_unsigned_angle` on `60·y + 360·n`, `y ∈ [0,6)` -/
theorem normalizeUnsigned_of (y : ℝ) (n : ℤ) (h0 : 0 ≤ y) (h1 : y < 6) : normalizeUnsigned (60 * y + 360 * (n : ℝ)) = 60 * y := by
  unfold normalizeUnsigned
  rw [floor_eq]
  have : ⌊(60 * y + 360 * (n : ℝ)) / 360.0⌋ = n := by
    rw [Int.floor_eq_iff]; constructor <;> norm_num <;> linarith
  rw [this]; norm_num; ring

/-- the triple the zone selection produces on sector `k` at fraction `f` -/
def sectorTriple (k : ℕ) (f c m : ℝ) : V3 ℝ :=
  match k with
  | 0 => ⟨c + m, c * f + m, 0 + m⟩
  | 1 => ⟨c * (1 - f) + m, c + m, 0 + m⟩
  | 2 => ⟨0 + m, c + m, c * f + m⟩
  | 3 => ⟨0 + m, c * (1 - f) + m, c + m⟩
  | 4 => ⟨c * f + m, 0 + m, c + m⟩
  | _ => ⟨c + m, 0 + m, c * (1 - f) + m⟩

theorem hexX_even (j : ℤ) (f c : ℝ) (h0 : 0 ≤ f) (h1 : f < 1) : hexX (2 * (j : ℝ) + f) c = c * f := by
  simp only [hexX]; rw [floor_eq]
  have : ⌊(2 * (j : ℝ) + f) * 0.5⌋ = j := by rw [Int.floor_eq_iff]; constructor <;> norm_num <;> linarith
  rw [this, RealScalar.abs_eq]
  have e : 2 * (j : ℝ) + f - (j : ℝ) * 2.0 - 1.0 = f - 1 := by norm_num; ring
  rw [e, abs_of_nonpos (by linarith)]; norm_num

theorem hexX_odd (j : ℤ) (f c : ℝ) (h0 : 0 ≤ f) (h1 : f < 1) : hexX (2 * (j : ℝ) + 1 + f) c = c * (1 - f) := by
  simp only [hexX]; rw [floor_eq]
  have : ⌊(2 * (j : ℝ) + 1 + f) * 0.5⌋ = j := by rw [Int.floor_eq_iff]; constructor <;> norm_num <;> linarith
  rw [this, RealScalar.abs_eq]
  have e : 2 * (j : ℝ) + 1 + f - (j : ℝ) * 2.0 - 1.0 = f := by norm_num; ring
  rw [e, abs_of_nonneg h0]; norm_num

theorem zone_true {h lo hi : ℝ} (h1 : lo ≤ h) (h2 : h < hi) : (decide (lo ≤ h) && decide (h < hi)) = true := by simp [h1, h2]
theorem zone_false_lo {h lo hi : ℝ} (h1 : h < lo) : (decide (lo ≤ h) && decide (h < hi)) = false := by simp [not_le.mpr h1]
theorem zone_false_hi {h lo hi : ℝ} (h2 : hi ≤ h) : (decide (lo ≤ h) && decide (h < hi)) = false := by simp [not_lt.mpr h2]

/-- on `h = k + f` zone `j` is selected iff `j = k` -/
theorem z_eval (k : ℕ) (f : ℝ) (h0 : 0 ≤ f) (h1 : f < 1) (lo hi : ℝ) (j : ℕ) (hlo : lo = (j : ℝ)) (hhi : hi = (j : ℝ) + 1) :
    (decide (lo ≤ (k : ℝ) + f) && decide ((k : ℝ) + f < hi)) = decide (j = k) := by
  subst hlo hhi
  by_cases hjk : j = k
  · subst hjk; simp [h0, h1]
  · simp only [hjk, decide_false, Bool.and_eq_false_iff, decide_eq_false_iff_not, not_le, not_lt]
    rcases Nat.lt_or_gt_of_ne hjk with h | h
    · right
      have : (j : ℝ) + 1 ≤ (k : ℝ) := by exact_mod_cast h
      linarith
    · left
      have : (k : ℝ) + 1 ≤ (j : ℝ) := by exact_mod_cast h
      linarith

theorem hexX_nat (k : ℕ) (hk : k ≤ 5) (f c : ℝ) (h0 : 0 ≤ f) (h1 : f < 1) :
    hexX ((k : ℝ) + f) c = if k % 2 = 0 then c * f else c * (1 - f) := by
  interval_cases k
  · have := hexX_even 0 f c h0 h1; simpa using this
  · have := hexX_odd 0 f c h0 h1; simpa using this
  · have := hexX_even 1 f c h0 h1; simpa using this
  · have := hexX_odd 1 f c h0 h1
    have e : (2 : ℝ) * ((1 : ℤ) : ℝ) + 1 + f = ((3 : ℕ) : ℝ) + f := by push_cast; ring
    rw [e] at this; simpa using this
  · have := hexX_even 2 f c h0 h1
    have e : (2 : ℝ) * ((2 : ℤ) : ℝ) + f = ((4 : ℕ) : ℝ) + f := by push_cast; ring
    rw [e] at this; simpa using this
  · have := hexX_odd 2 f c h0 h1
    have e : (2 : ℝ) * ((2 : ℤ) : ℝ) + 1 + f = ((5 : ℕ) : ℝ) + f := by push_cast; ring
    rw [e] at this; simpa using this

/-- **the zone selection of `Rgb ← Hsv/Hsl` on sector `k`, fraction `f`** -/
theorem zones_sector (k : ℕ) (hk : k ≤ 5) (f c m : ℝ) (h0 : 0 ≤ f) (h1 : f < 1) :
    zones ((k : ℝ) + f) c (hexX ((k : ℝ) + f) c) m = sectorTriple k f c m := by
  rw [hexX_nat k hk f c h0 h1]
  simp only [zones, z_eval k f h0 h1 0.0 1.0 0 (by norm_num) (by norm_num), z_eval k f h0 h1 1.0 2.0 1 (by norm_num) (by norm_num),
    z_eval k f h0 h1 2.0 3.0 2 (by norm_num) (by norm_num), z_eval k f h0 h1 3.0 4.0 3 (by norm_num) (by norm_num),
    z_eval k f h0 h1 4.0 5.0 4 (by norm_num) (by norm_num)]
  interval_cases k <;> norm_num [sectorTriple]

/-! ### the `(max, min, sep, coeff)` block, by ordering of the components -/

theorem cases_order (r g b : ℝ) :
    (g < r ∧ b ≤ r ∧ b < g ∧ maxMinSep r g b = ⟨r, b, g - b, 0.0⟩) ∨
    (g < r ∧ b ≤ r ∧ g ≤ b ∧ maxMinSep r g b = ⟨r, g, g - b, 0.0⟩) ∨
    (g < r ∧ r < b ∧ maxMinSep r g b = ⟨b, g, r - g, 4.0⟩) ∨
    (r ≤ g ∧ g < b ∧ maxMinSep r g b = ⟨b, r, r - g, 4.0⟩) ∨
    (r ≤ g ∧ b ≤ g ∧ b < r ∧ maxMinSep r g b = ⟨g, b, b - r, 2.0⟩) ∨
    (r ≤ g ∧ b ≤ g ∧ r ≤ b ∧ maxMinSep r g b = ⟨g, r, b - r, 2.0⟩) := by
  unfold maxMinSep
  by_cases h1 : g < r
  · by_cases h2 : r < b
    · right; right; left; exact ⟨h1, h2, by simp [h1, h2]⟩
    · by_cases h3 : b < g
      · left; exact ⟨h1, not_lt.mp h2, h3, by simp [h1, h2, h3]⟩
      · right; left; exact ⟨h1, not_lt.mp h2, not_lt.mp h3, by simp [h1, h2, h3]⟩
  · by_cases h2 : g < b
    · right; right; right; left; exact ⟨not_lt.mp h1, h2, by simp [h1, h2]⟩
    · by_cases h3 : b < r
      · right; right; right; right; left; exact ⟨not_lt.mp h1, not_lt.mp h2, h3, by simp [h1, h2, h3]⟩
      · right; right; right; right; right; exact ⟨not_lt.mp h1, not_lt.mp h2, not_lt.mp h3, by simp [h1, h2, h3]⟩

theorem frac_bounds {a d : ℝ} (h0 : 0 ≤ a) (h1 : a < d) : 0 ≤ a / d ∧ a / d < 1 :=
  ⟨div_nonneg h0 (le_trans h0 h1.le), (div_lt_one (lt_of_le_of_lt h0 h1)).mpr h1⟩

/-- **sector analysis of the hue the scalar branch computes**: whenever `max ≠ min`, the hue is `60·(k + f) + 360·n` on a
    sector `k ≤ 5` at a fraction `f ∈ [0,1)`, and the zone triple of that sector with chroma `max − min` and offset `min`
    is the original colour.  Also `min ≤ max`. -/
theorem sector (r g b : ℝ) (hne : (maxMinSep r g b).max ≠ (maxMinSep r g b).min) :
    ∃ (k : ℕ) (f : ℝ) (n : ℤ), k ≤ 5 ∧ 0 ≤ f ∧ f < 1 ∧
      ((maxMinSep r g b).sep / ((maxMinSep r g b).max - (maxMinSep r g b).min) + (maxMinSep r g b).coeff) * 60.0
        = 60 * ((k : ℝ) + f) + 360 * (n : ℝ) ∧
      sectorTriple k f ((maxMinSep r g b).max - (maxMinSep r g b).min) (maxMinSep r g b).min = ⟨r, g, b⟩ ∧
      (maxMinSep r g b).min < (maxMinSep r g b).max := by
  rcases cases_order r g b with ⟨h1, h2, h3, hp⟩ | ⟨h1, h2, h3, hp⟩ | ⟨h1, h2, hp⟩ | ⟨h1, h2, hp⟩ | ⟨h1, h2, h3, hp⟩ | ⟨h1, h2, h3, hp⟩
  all_goals rw [hp] at hne ⊢
  all_goals simp only at hne ⊢
  · -- red max, b < g < r
    have hd : r - b ≠ 0 := by intro h; apply hne; linarith
    obtain ⟨f0, f1⟩ := frac_bounds (a := g - b) (d := r - b) (by linarith) (by linarith)
    refine ⟨0, (g - b) / (r - b), 0, by norm_num, f0, f1, by norm_num; ring, ?_, by linarith⟩
    simp only [sectorTriple]; congr 1
    · ring
    · field_simp; ring
    · ring
  · -- red max, g ≤ b ≤ r
    have hd : r - g ≠ 0 := by intro h; apply hne; linarith
    rcases eq_or_lt_of_le h3 with h3 | h3
    · subst h3
      refine ⟨0, 0, 0, by norm_num, le_refl _, by norm_num, by norm_num, ?_, by linarith⟩
      simp only [sectorTriple]; congr 1 <;> ring
    · obtain ⟨f0, f1⟩ := frac_bounds (a := r - b) (d := r - g) (by linarith) (by linarith)
      refine ⟨5, (r - b) / (r - g), -1, by norm_num, f0, f1, ?_, ?_, by linarith⟩
      · norm_num; field_simp; ring
      · simp only [sectorTriple]; congr 1
        · ring
        · ring
        · field_simp; ring
  · -- blue max, g < r < b
    have hd : b - g ≠ 0 := by intro h; apply hne; linarith
    obtain ⟨f0, f1⟩ := frac_bounds (a := r - g) (d := b - g) (by linarith) (by linarith)
    refine ⟨4, (r - g) / (b - g), 0, by norm_num, f0, f1, by norm_num; ring, ?_, by linarith⟩
    simp only [sectorTriple]; congr 1
    · field_simp; ring
    · ring
    · ring
  · -- blue max, r ≤ g < b
    have hd : b - r ≠ 0 := by intro h; apply hne; linarith
    rcases eq_or_lt_of_le h1 with h1 | h1
    · subst h1
      refine ⟨4, 0, 0, by norm_num, le_refl _, by norm_num, by norm_num, ?_, by linarith⟩
      simp only [sectorTriple]; congr 1 <;> ring
    · obtain ⟨f0, f1⟩ := frac_bounds (a := b - g) (d := b - r) (by linarith) (by linarith)
      refine ⟨3, (b - g) / (b - r), 0, by norm_num, f0, f1, ?_, ?_, by linarith⟩
      · norm_num; field_simp; ring
      · simp only [sectorTriple]; congr 1
        · ring
        · field_simp; ring
        · ring
  · -- green max, b < r ≤ g
    have hd : g - b ≠ 0 := by intro h; apply hne; linarith
    obtain ⟨f0, f1⟩ := frac_bounds (a := g - r) (d := g - b) (by linarith) (by linarith)
    refine ⟨1, (g - r) / (g - b), 0, by norm_num, f0, f1, ?_, ?_, by linarith⟩
    · norm_num; field_simp; ring
    · simp only [sectorTriple]; congr 1
      · field_simp; ring
      · ring
      · ring
  · -- green max, r ≤ b ≤ g
    have hd : g - r ≠ 0 := by intro h; apply hne; linarith
    rcases eq_or_lt_of_le h2 with h2 | h2
    · subst h2
      refine ⟨3, 0, 0, by norm_num, le_refl _, by norm_num, ?_, ?_, by linarith [lt_of_le_of_ne h1 (fun h => hne (by linarith))]⟩
      · norm_num; field_simp; ring
      · simp only [sectorTriple]; congr 1 <;> ring
    · obtain ⟨f0, f1⟩ := frac_bounds (a := b - r) (d := g - r) (by linarith) (by linarith)
      refine ⟨2, (b - r) / (g - r), 0, by norm_num, f0, f1, by norm_num; ring, ?_, by linarith⟩
      simp only [sectorTriple]; congr 1
      · ring
      · ring
      · field_simp; ring

/-- the block really computes the maximum and the minimum -/
theorem maxMin_bounds (r g b : ℝ) :
    (maxMinSep r g b).min ≤ r ∧ r ≤ (maxMinSep r g b).max ∧ (maxMinSep r g b).min ≤ g ∧ g ≤ (maxMinSep r g b).max ∧
    (maxMinSep r g b).min ≤ b ∧ b ≤ (maxMinSep r g b).max := by
  rcases cases_order r g b with ⟨h1, h2, h3, hp⟩ | ⟨h1, h2, h3, hp⟩ | ⟨h1, h2, hp⟩ | ⟨h1, h2, hp⟩ | ⟨h1, h2, h3, hp⟩ | ⟨h1, h2, h3, hp⟩ <;>
    rw [hp] <;> simp only <;> refine ⟨?_, ?_, ?_, ?_, ?_, ?_⟩ <;> linarith

theorem min_nonneg (r g b : ℝ) (hr : 0 ≤ r) (hg : 0 ≤ g) (hb : 0 ≤ b) : 0 ≤ (maxMinSep r g b).min := by
  rcases cases_order r g b with ⟨h1, h2, h3, hp⟩ | ⟨h1, h2, h3, hp⟩ | ⟨h1, h2, hp⟩ | ⟨h1, h2, hp⟩ | ⟨h1, h2, h3, hp⟩ | ⟨h1, h2, h3, hp⟩ <;>
    rw [hp] <;> simp only <;> assumption

/-- the zone selection applied to a hue on sector `k`, fraction `f`, any number of full turns away -/
theorem zones_of_hue (hue : ℝ) (k : ℕ) (f : ℝ) (n : ℤ) (hk : k ≤ 5) (h0 : 0 ≤ f) (h1 : f < 1)
    (hh : hue = 60 * ((k : ℝ) + f) + 360 * (n : ℝ)) (c m : ℝ) :
    zones (normalizeUnsigned hue / 60.0) c (hexX (normalizeUnsigned hue / 60.0) c) m = sectorTriple k f c m := by
  have hk' : (k : ℝ) ≤ 5 := by exact_mod_cast hk
  have hk0 : (0 : ℝ) ≤ (k : ℝ) := Nat.cast_nonneg k
  rw [hh, normalizeUnsigned_of _ n (by linarith) (by linarith)]
  have e : 60 * ((k : ℝ) + f) / 60.0 = (k : ℝ) + f := by norm_num
  rw [e]; exact zones_sector k hk f c m h0 h1

/-! ### the other direction: the block on an explicitly ordered triple, and every hue lies on a sector -/

theorem ms_R {r g b : ℝ} (h1 : g < r) (h2 : b ≤ r) : maxMinSep r g b = ⟨r, if b < g then b else g, g - b, 0.0⟩ := by
  unfold maxMinSep; simp [h1, not_lt.mpr h2]
theorem ms_B1 {r g b : ℝ} (h1 : g < r) (h2 : r < b) : maxMinSep r g b = ⟨b, g, r - g, 4.0⟩ := by
  unfold maxMinSep; simp [h1, h2]
theorem ms_B2 {r g b : ℝ} (h1 : r ≤ g) (h2 : g < b) : maxMinSep r g b = ⟨b, r, r - g, 4.0⟩ := by
  unfold maxMinSep; simp [not_lt.mpr h1, h2]
theorem ms_G {r g b : ℝ} (h1 : r ≤ g) (h2 : b ≤ g) : maxMinSep r g b = ⟨g, if b < r then b else r, b - r, 2.0⟩ := by
  unfold maxMinSep; simp [not_lt.mpr h1, not_lt.mpr h2]

/-- every angle is `60·(k + f) + 360·n` with `k ≤ 5`, `f ∈ [0,1)` -/
theorem hue_decomp (hue : ℝ) : ∃ (k : ℕ) (f : ℝ) (n : ℤ), k ≤ 5 ∧ 0 ≤ f ∧ f < 1 ∧ hue = 60 * ((k : ℝ) + f) + 360 * (n : ℝ) := by
  set n : ℤ := ⌊hue / 360⌋ with hn
  set y : ℝ := (hue - 360 * (n : ℝ)) / 60 with hy
  have hn1 : (n : ℝ) ≤ hue / 360 := Int.floor_le _
  have hn2 : hue / 360 < (n : ℝ) + 1 := Int.lt_floor_add_one _
  have y0 : 0 ≤ y := by rw [hy]; apply div_nonneg _ (by norm_num); linarith
  have y6 : y < 6 := by rw [hy, div_lt_iff₀ (by norm_num)]; linarith
  have k0 : 0 ≤ ⌊y⌋ := Int.floor_nonneg.mpr y0
  have k5 : ⌊y⌋ < 6 := by rw [Int.floor_lt]; exact_mod_cast y6
  refine ⟨⌊y⌋.toNat, Int.fract y, n, by omega, Int.fract_nonneg _, Int.fract_lt_one _, ?_⟩
  have e : ((⌊y⌋.toNat : ℕ) : ℝ) = ((⌊y⌋ : ℤ) : ℝ) := by
    have : ((⌊y⌋.toNat : ℕ) : ℤ) = ⌊y⌋ := Int.toNat_of_nonneg k0
    exact_mod_cast congrArg (fun z : ℤ => (z : ℝ)) this
  rw [e, Int.floor_add_fract, hy]; ring

/-! ### the three hues: scalar branch, mask-generic branch, published definition -/
open Spec.Rgb in
theorem fmod_of_nonneg {t : ℝ} (h0 : 0 ≤ t) (h1 : t < 6) : fmod t 6 = t := by
  unfold fmod
  have : ⌊t / 6⌋ = 0 := by rw [Int.floor_eq_iff]; constructor <;> norm_num <;> linarith
  rw [this]; simp
open Spec.Rgb in
theorem fmod_of_neg {t : ℝ} (h0 : -6 ≤ t) (h1 : t < 0) : fmod t 6 = t + 6 := by
  unfold fmod
  have : ⌊t / 6⌋ = -1 := by rw [Int.floor_eq_iff]; constructor <;> norm_num <;> linarith
  rw [this]; push_cast; ring

open Spec.Rgb in
theorem spec_hue_red {r g b C : ℝ} (hM : cmax r g b = r) (hC : chroma r g b = C) (hC0 : C ≠ 0) :
    hue r g b = 60 * fmod ((g - b) / C) 6 := by
  unfold hue; rw [hC, if_neg hC0, if_pos hM]
open Spec.Rgb in
theorem spec_hue_green {r g b C : ℝ} (hM : cmax r g b = g) (hr : g ≠ r) (hC : chroma r g b = C) (hC0 : C ≠ 0) :
    hue r g b = 60 * ((b - r) / C + 2) := by
  unfold hue; rw [hC, if_neg hC0, hM, if_neg hr, if_pos rfl]
open Spec.Rgb in
theorem spec_hue_blue {r g b C : ℝ} (hM : cmax r g b = b) (hr : b ≠ r) (hg : b ≠ g) (hC : chroma r g b = C) (hC0 : C ≠ 0) :
    hue r g b = 60 * ((r - g) / C + 4) := by
  unfold hue; rw [hC, if_neg hC0, hM, if_neg hr, if_neg hg]

theorem maskHue_red (red green blue value chroma : ℝ) (hv : value = red) (hc : chroma ≠ 0) :
    maskHue red green blue value chroma =
      (6 + (green - blue) / chroma) - (if 6 ≤ 6 + (green - blue) / chroma then 6 else 0) := by
  subst hv
  simp only [maskHue, eqv_iff]
  norm_num [hc]
  ring_nf
theorem maskHue_green (red green blue value chroma : ℝ) (hr : value ≠ red) (hv : value = green) (hc : chroma ≠ 0) :
    maskHue red green blue value chroma =
      (2 + (blue - red) / chroma) - (if 6 ≤ 2 + (blue - red) / chroma then 6 else 0) := by
  subst hv
  simp only [maskHue, eqv_iff]
  norm_num [hc, hr]
  ring_nf
theorem maskHue_blue (red green blue value chroma : ℝ) (hr : value ≠ red) (hg : value ≠ green) (hc : chroma ≠ 0) :
    maskHue red green blue value chroma =
      (10 + (red - green) / chroma) - (if 6 ≤ 10 + (red - green) / chroma then 6 else 0) := by
  simp only [maskHue, eqv_iff]
  norm_num [hc, hr, hg]
  ring_nf

open Spec.Rgb in
/-- **one case analysis, three hues**: whenever `max ≠ min` there is `y ∈ [0,6)` such that the scalar branch's hue is
    `60·y` up to full turns, the published hue is `60·y`, and the branch-free hue equation gives `y`; the block's `max`/`min`
    are the maximum and the minimum. -/
theorem hue_master (r g b : ℝ) (hne : (maxMinSep r g b).max ≠ (maxMinSep r g b).min) :
    ∃ (y : ℝ) (n : ℤ), 0 ≤ y ∧ y < 6 ∧
      ((maxMinSep r g b).sep / ((maxMinSep r g b).max - (maxMinSep r g b).min) + (maxMinSep r g b).coeff) * 60.0
        = 60 * y + 360 * (n : ℝ) ∧
      hue r g b = 60 * y ∧
      maskHue r g b (maxMinSep r g b).max ((maxMinSep r g b).max - (maxMinSep r g b).min) = y ∧
      cmax r g b = (maxMinSep r g b).max ∧ cmin r g b = (maxMinSep r g b).min := by
  rcases cases_order r g b with ⟨h1, h2, h3, hp⟩ | ⟨h1, h2, h3, hp⟩ | ⟨h1, h2, hp⟩ | ⟨h1, h2, hp⟩ | ⟨h1, h2, h3, hp⟩ | ⟨h1, h2, h3, hp⟩
  all_goals rw [hp] at hne ⊢
  all_goals simp only at hne ⊢
  · -- red max, b < g < r
    have hC : r - b ≠ 0 := by intro h; linarith
    obtain ⟨f0, f1⟩ := frac_bounds (a := g - b) (d := r - b) (by linarith) (by linarith)
    have hM : cmax r g b = r := by unfold cmax; rw [max_eq_left (max_le h1.le h2)]
    have hm : cmin r g b = b := by unfold cmin; rw [min_eq_right h3.le, min_eq_right h2]
    refine ⟨(g - b) / (r - b), 0, f0, by linarith, by norm_num; ring, ?_, ?_, hM, hm⟩
    · rw [spec_hue_red hM (by unfold chroma; rw [hM, hm]) hC, fmod_of_nonneg f0 (by linarith)]
    · rw [maskHue_red _ _ _ _ _ rfl hC, if_pos (by linarith)]; ring
  · -- red max, g ≤ b ≤ r
    have hC : r - g ≠ 0 := by intro h; linarith
    have hM : cmax r g b = r := by unfold cmax; rw [max_eq_left (max_le h1.le h2)]
    have hm : cmin r g b = g := by unfold cmin; rw [min_eq_left h3, min_eq_right h1.le]
    rcases eq_or_lt_of_le h3 with h3 | h3
    · subst h3
      refine ⟨0, 0, le_refl _, by norm_num, by norm_num, ?_, ?_, hM, hm⟩
      · rw [spec_hue_red hM (by unfold chroma; rw [hM, hm]) hC]; simp [fmod]
      · rw [maskHue_red _ _ _ _ _ rfl hC]; simp
    · obtain ⟨f0, f1⟩ := frac_bounds (a := r - b) (d := r - g) (by linarith) (by linarith)
      have et : (g - b) / (r - g) = (r - b) / (r - g) - 1 := by field_simp; ring
      refine ⟨(r - b) / (r - g) + 5, -1, by linarith, by linarith, ?_, ?_, ?_, hM, hm⟩
      · rw [et]; norm_num; ring
      · rw [spec_hue_red hM (by unfold chroma; rw [hM, hm]) hC, et, fmod_of_neg (by linarith) (by linarith)]; ring
      · rw [maskHue_red _ _ _ _ _ rfl hC, et, if_neg (by linarith)]; ring
  · -- blue max, g < r < b
    have hC : b - g ≠ 0 := by intro h; linarith
    obtain ⟨f0, f1⟩ := frac_bounds (a := r - g) (d := b - g) (by linarith) (by linarith)
    have hM : cmax r g b = b := by unfold cmax; rw [max_eq_right (by linarith : g ≤ b), max_eq_right h2.le]
    have hm : cmin r g b = g := by unfold cmin; rw [min_eq_left (by linarith : g ≤ b), min_eq_right h1.le]
    refine ⟨(r - g) / (b - g) + 4, 0, by linarith, by linarith, by norm_num; ring, ?_, ?_, hM, hm⟩
    · rw [spec_hue_blue hM (by intro e; linarith) (by intro e; linarith) (by unfold chroma; rw [hM, hm]) hC]
    · rw [maskHue_blue _ _ _ _ _ (by intro e; linarith) (by intro e; linarith) hC, if_pos (by linarith)]; ring
  · -- blue max, r ≤ g < b
    have hC : b - r ≠ 0 := by intro h; linarith
    have f1 : (b - g) / (b - r) ≤ 1 := by rw [div_le_one (by linarith)]; linarith
    have et : (r - g) / (b - r) = (b - g) / (b - r) - 1 := by field_simp; ring
    have f2 : 0 < (b - g) / (b - r) := div_pos (by linarith) (by linarith)
    have hM : cmax r g b = b := by unfold cmax; rw [max_eq_right h2.le, max_eq_right (by linarith)]
    have hm : cmin r g b = r := by unfold cmin; rw [min_eq_left h2.le, min_eq_left h1]
    refine ⟨(b - g) / (b - r) + 3, 0, by linarith, by linarith, ?_, ?_, ?_, hM, hm⟩
    · rw [et]; norm_num; ring
    · rw [spec_hue_blue hM (by intro e; linarith) (by intro e; linarith) (by unfold chroma; rw [hM, hm]) hC, et]; ring
    · rw [maskHue_blue _ _ _ _ _ (by intro e; linarith) (by intro e; linarith) hC, et, if_pos (by linarith)]; ring
  · -- green max, b < r ≤ g
    have hC : g - b ≠ 0 := by intro h; linarith
    obtain ⟨f0, f1⟩ := frac_bounds (a := g - r) (d := g - b) (by linarith) (by linarith)
    have et : (b - r) / (g - b) = (g - r) / (g - b) - 1 := by field_simp; ring
    have hM : cmax r g b = g := by unfold cmax; rw [max_eq_left h2, max_eq_right h1]
    have hm : cmin r g b = b := by unfold cmin; rw [min_eq_right h2, min_eq_right h3.le]
    refine ⟨(g - r) / (g - b) + 1, 0, by linarith, by linarith, ?_, ?_, ?_, hM, hm⟩
    · rw [et]; norm_num; ring
    · rcases eq_or_lt_of_le h1 with h1 | h1
      · subst h1
        rw [spec_hue_red hM (by unfold chroma; rw [hM, hm]) hC, div_self hC, fmod_of_nonneg (by norm_num) (by norm_num)]
        simp
      · rw [spec_hue_green hM (by intro e; linarith) (by unfold chroma; rw [hM, hm]) hC, et]; ring
    · rcases eq_or_lt_of_le h1 with h1 | h1
      · subst h1
        rw [maskHue_red _ _ _ _ _ rfl hC, div_self hC]; norm_num
      · rw [maskHue_green _ _ _ _ _ (by intro e; linarith) rfl hC, et, if_neg (by linarith)]; ring
  · -- green max, r ≤ b ≤ g
    have hrg : r < g := lt_of_le_of_ne h1 (fun e => hne e.symm)
    have hC : g - r ≠ 0 := by intro h; linarith
    have f0 : 0 ≤ (b - r) / (g - r) := div_nonneg (by linarith) (by linarith)
    have f1 : (b - r) / (g - r) ≤ 1 := by rw [div_le_one (by linarith)]; linarith
    have hM : cmax r g b = g := by unfold cmax; rw [max_eq_left h2, max_eq_right h1]
    have hm : cmin r g b = r := by unfold cmin; rw [min_eq_right h2, min_eq_left h3]
    refine ⟨(b - r) / (g - r) + 2, 0, by linarith, by linarith, by norm_num; ring, ?_, ?_, hM, hm⟩
    · rw [spec_hue_green hM (by intro e; linarith) (by unfold chroma; rw [hM, hm]) hC]
    · rw [maskHue_green _ _ _ _ _ (by intro e; linarith) rfl hC, if_neg (by linarith)]; ring

open Spec.Rgb in
theorem cmax_cmin_eq (r g b : ℝ) : cmax r g b = (maxMinSep r g b).max ∧ cmin r g b = (maxMinSep r g b).min := by
  rcases cases_order r g b with ⟨h1, h2, h3, hp⟩ | ⟨h1, h2, h3, hp⟩ | ⟨h1, h2, hp⟩ | ⟨h1, h2, hp⟩ | ⟨h1, h2, h3, hp⟩ | ⟨h1, h2, h3, hp⟩
  all_goals rw [hp]
  all_goals simp only
  all_goals unfold cmax cmin
  · rw [max_eq_left (max_le h1.le h2), min_eq_right h3.le, min_eq_right h2]; exact ⟨rfl, rfl⟩
  · rw [max_eq_left (max_le h1.le h2), min_eq_left h3, min_eq_right h1.le]; exact ⟨rfl, rfl⟩
  · rw [max_eq_right (by linarith : g ≤ b), max_eq_right h2.le, min_eq_left (by linarith : g ≤ b), min_eq_right h1.le]; exact ⟨rfl, rfl⟩
  · rw [max_eq_right h2.le, max_eq_right (by linarith), min_eq_left h2.le, min_eq_left h1]; exact ⟨rfl, rfl⟩
  · rw [max_eq_left h2, max_eq_right h1, min_eq_right h2, min_eq_right h3.le]; exact ⟨rfl, rfl⟩
  · rw [max_eq_left h2, max_eq_right h1, min_eq_right h2, min_eq_left h3]; exact ⟨rfl, rfl⟩

/-- `red.max(green).max(blue)` / `red.min(green).min(blue)` of the mask-generic branches are the block's `max` / `min` -/
theorem smax_smin_eq (r g b : ℝ) :
    Scalar.max (Scalar.max r g) b = (maxMinSep r g b).max ∧ Scalar.min (Scalar.min r g) b = (maxMinSep r g b).min := by
  obtain ⟨h1, h2⟩ := cmax_cmin_eq r g b
  simp only [RealScalar.max_eq, RealScalar.min_eq]
  rw [← h1, ← h2]; unfold Spec.Rgb.cmax Spec.Rgb.cmin
  exact ⟨max_assoc r g b, min_assoc r g b⟩

theorem normalizeUnsigned_zero : normalizeUnsigned (0.0 : ℝ) = 0 := by
  have := normalizeUnsigned_of 0 0 (le_refl _) (by norm_num)
  have e : (60 : ℝ) * 0 + 360 * ((0 : ℤ) : ℝ) = 0.0 := by norm_num
  rw [e] at this; rw [this]; norm_num

end Hexcone
