/-
  C05 — error bound of the float → u8 LUT encoders against the exact curve: the `Nat`-only block checks that the kernel evaluates
  (Mathlib-free; the reading at ℝ is in `C05_ErrBound.lean`).

  The encoder is constant on each *block* of 4096 consecutive f32 patterns (`t = (bits >>> 12) &&& 255` drops the low 12 bits):
  104..192 cells × 256 blocks per table.  Each curve is, piece by piece, `x ↦ A·x^(p/q) − B` with rational `A, B` and a rational
  exponent (the linear toe is the piece `p = q = 1`, `B = 0`), increasing in `x`; so `res − 0.6 < 255·curve(x) < res + 0.6` on a block
  follows from the lower inequality at its first and the upper inequality at its last pattern, per piece.  With
  `x = mant·2^expo / 2^150` each inequality `(N/k3) < x^(p/q)` is the integer inequality `N^q · 2^(150p) < mant^p · 2^(expo·p) · k3^q`.
-/
import PaletteModel.Lut

namespace C05E
open Lut

/-- integer form of one piece `y ↦ 255·(A·y − B)`, `y = x^(p/q)`:
    `255·(A·y − B) = (k3·y − k2u)/k1 + 0.6`, so that
    `255·(A·y − B) < res + 0.6 ⟺ y < (k1·res + k2u)/k3` and `255·(A·y − B) > res − 0.6 ⟺ y > (k1·res + k2lp − k2ln)/k3`
    (`k2u − (k2lp − k2ln) = 1.2·k1`, checked by `Piece.wf`). -/
structure Piece where
  k1 : Nat
  k2u : Nat
  k2lp : Nat
  k2ln : Nat
  k3 : Nat
  p : Nat
  q : Nat

def Piece.wf (P : Piece) : Bool :=
  decide (0 < P.k1) && decide (0 < P.k3) && decide (0 < P.p) && decide (0 < P.q) &&
  decide (5 * (P.k2u + P.k2ln) = 6 * P.k1 + 5 * P.k2lp)

/-- a piece without offset (`B = 0`): `k2u/k1 = 0.6` -/
def Piece.noOffset (P : Piece) : Bool := decide (5 * P.k2u = 3 * P.k1)

/-- significand and (biased, subnormal-adjusted) exponent of a non-negative finite f32 pattern: value = `mant·2^expo / 2^150` -/
def mant (b : Nat) : Nat := if b < 2^23 then b else 2^23 + b % 2^23
def expo (b : Nat) : Nat := if b < 2^23 then 1 else b / 2^23

/-- `x(b)^(p/q) < (k1·res + k2u)/k3` -/
def upperOK (P : Piece) (res b : Nat) : Bool :=
  decide ((mant b)^P.p * 2^(expo b * P.p) * P.k3^P.q < (P.k1 * res + P.k2u)^P.q * 2^(150 * P.p))

/-- `(k1·res + k2lp − k2ln)/k3 < x(b)^(p/q)` (true when the left side is negative) -/
def lowerOK (P : Piece) (res b : Nat) : Bool :=
  decide (P.k1 * res + P.k2lp < P.k2ln) ||
  decide ((P.k1 * res + P.k2lp - P.k2ln)^P.q * 2^(150 * P.p) < (mant b)^P.p * 2^(expo b * P.p) * P.k3^P.q)

/-- block `[lo, hi]` of patterns with code `res`; the `toe` piece applies to patterns `≤ T`, the `pow` piece above -/
def blockOK (toe pow : Piece) (T res lo hi : Nat) : Bool :=
  (if lo ≤ T then lowerOK toe res lo && upperOK toe res (min hi T) else true) &&
  (if T < hi then lowerOK pow res (max lo (T + 1)) && upperOK pow res hi else true)

/-- the blocks `t < n` of one cell (`lo0` = first pattern of the cell) -/
def cellOK (toe pow : Piece) (T entry lo0 : Nat) : Nat → Bool
  | 0 => true
  | n + 1 => blockOK toe pow T (cellRes 8 entry n) (lo0 + n * 4096) (lo0 + n * 4096 + 4095) && cellOK toe pow T entry lo0 n

/-- all cells of a (part of a) table whose first cell starts at pattern `lo0` -/
def tableOK (toe pow : Piece) (T : Nat) : List Nat → Nat → Bool
  | [], _ => true
  | e :: r, lo0 => cellOK toe pow T e lo0 256 && tableOK toe pow T r (lo0 + 2^20)

theorem cellOK_get (toe pow : Piece) (T entry lo0 : Nat) : ∀ n, cellOK toe pow T entry lo0 n = true → ∀ t, t < n →
    blockOK toe pow T (cellRes 8 entry t) (lo0 + t * 4096) (lo0 + t * 4096 + 4095) = true
  | 0, _, t, ht => by omega
  | n + 1, h, t, ht => by
    simp only [cellOK, Bool.and_eq_true] at h
    by_cases e : t = n
    · subst e; exact h.1
    · exact cellOK_get toe pow T entry lo0 n h.2 t (by omega)

theorem tableOK_get (toe pow : Piece) (T : Nat) : ∀ (l : List Nat) (lo0 : Nat), tableOK toe pow T l lo0 = true → ∀ j, j < l.length →
    cellOK toe pow T (l.getD j 0) (lo0 + j * 2^20) 256 = true
  | [], _, _, j, hj => by simp at hj
  | e :: r, lo0, h, j, hj => by
    simp only [tableOK, Bool.and_eq_true] at h
    cases j with
    | zero => simpa using h.1
    | succ k =>
      have := tableOK_get toe pow T r (lo0 + 2^20) h.2 k (by simpa using hj)
      have e2 : lo0 + 2^20 + k * 2^20 = lo0 + (k + 1) * 2^20 := by rw [Nat.add_mul]; omega
      rw [e2] at this
      simpa using this

/-- chunks: the part `[a, a+n)` of the table, checked with the right starting pattern -/
def chunkOK (toe pow : Piece) (T minBits : Nat) (table : List Nat) (a n : Nat) : Bool :=
  tableOK toe pow T ((table.drop a).take n) (minBits + a * 2^20)

theorem chunkOK_get (toe pow : Piece) (T minBits : Nat) (table : List Nat) (a n : Nat) (h : chunkOK toe pow T minBits table a n = true)
    (j : Nat) (h1 : a ≤ j) (h2 : j < a + n) (h3 : j < table.length) :
    cellOK toe pow T (table.getD j 0) (minBits + j * 2^20) 256 = true := by
  have hlen : j - a < ((table.drop a).take n).length := by
    rw [List.length_take, List.length_drop]; omega
  have := tableOK_get toe pow T _ _ h (j - a) hlen
  have e1 : ((table.drop a).take n).getD (j - a) 0 = table.getD j 0 := by
    rw [List.getD_eq_getElem?_getD, List.getD_eq_getElem?_getD, List.getElem?_take_of_lt (by omega), List.getElem?_drop]
    congr 2; omega
  have e2 : minBits + a * 2^20 + (j - a) * 2^20 = minBits + j * 2^20 := by
    rw [Nat.add_assoc, ← Nat.add_mul]; congr 2; omega
  rw [e1, e2] at this
  exact this

/-! ## the four curves in integer form -/

/-- sRGB toe `12.92·x`: `255·12.92·x < res + 0.6 ⟺ x < (1000·res + 600)/3294600` -/
def srgbToe : Piece := ⟨1000, 600, 0, 600, 3294600, 1, 1⟩
/-- sRGB power segment `1.055·x^(5/12) − 0.055`: `255·1.055 = 269.025`, `255·0.055 = 14.025` -/
def srgbPow : Piece := ⟨1000, 14625, 13425, 0, 269025, 5, 12⟩
/-- Rec.709/2020 toe `4.5·x` -/
def recToe : Piece := ⟨10, 6, 0, 6, 11475, 1, 1⟩
/-- Rec. power segment `α·x^(9/20) − (α − 1)`, `α = 1.09929682680944`: scaled by `10^15` -/
def recPow : Piece := ⟨1000000000000000, 600000000000000 + 255 * 99296826809440, 255 * 99296826809440 - 600000000000000, 0,
  255 * 1099296826809440, 9, 20⟩
/-- Adobe RGB `x^(256/563)` -/
def adobePow : Piece := ⟨10, 6, 0, 6, 2550, 256, 563⟩
/-- P3 gamma `x^(5/13)` -/
def p3Pow : Piece := ⟨10, 6, 0, 6, 2550, 5, 13⟩

/-- last f32 pattern on the toe: `0x3b4d2e1b` is the largest f32 `≤ 0.0031308` (sRGB, test `x ≤ 0.0031308`),
    `0x3c93e5ea` the largest f32 `< β = 0.018053968510807` (Rec., test `x < β`); neither constant is an f32 value.
    Both facts are decided in `C05_ErrBound.lean` as rational inequalities on `mant·2^expo/2^150`. -/
def srgbT : Nat := 0x3b4d2e1b
def recT : Nat := 0x3c93e5ea

def Enc.toe : Enc → Piece
  | .srgb => srgbToe | .recOetf => recToe | .adobeRgb => adobePow | .p3Gamma => p3Pow
def Enc.pow : Enc → Piece
  | .srgb => srgbPow | .recOetf => recPow | .adobeRgb => adobePow | .p3Gamma => p3Pow
def Enc.T : Enc → Nat
  | .srgb => srgbT | .recOetf => recT | .adobeRgb => 0 | .p3Gamma => 0

end C05E
