/-
  Bridge lemmas for the guarded `Rgb → Hsl` saturation (palette c404fc5: saturation 0 when the selected divisor
  `if sum > 1 { (1 − max) + (1 − min) } else { sum }` is exactly 0; both the scalar and the mask-generic branch of hsl.rs).
-/
import PaletteProofs.Real

namespace RealScalar

/-- bridge for the guarded `Rgb → Hsl` saturation (palette c404fc5: saturation 0 when the selected divisor is exactly 0),
    scalar branch.  Mathlib's `ℝ` has `d / 0 = 0`, so the ℝ reading of the guarded quotient *is* the unguarded quotient: the
    exact-arithmetic theorems (C01, C02, C15) do not see the guard.  That the guard never fires on the gamut is stated separately
    (`C02.rgbToHsl_guard_dead`, `C15.rgbToHsl_divisor_pos`); that it removes the division by zero off the gamut is the `PReal`
    reading (`C07.rgbToHsl_sat_defined`).  Not `simp`: rewrite with it explicitly after unfolding. -/
theorem hslSat_eq (c : Prop) [Decidable c] (d x y : ℝ) :
    (if Scalar.eqv (if c then x else y) 0.0 then (0.0 : ℝ) else d / (if c then x else y)) = if c then d / x else d / y := by
  have e0 : (0.0 : ℝ) = 0 := by norm_num
  by_cases hc : c <;> simp only [hc, if_true, if_false] <;>
    (split
     · next h => have h' := le_antisymm h.1 h.2; rw [h', e0, div_zero]
     · rfl)

/-- the same for the mask-generic branch (`if min.eq(&max) | divisor.eq(&T::zero())`) -/
theorem hslSatMask_eq (p : Prop) [Decidable p] (d x : ℝ) :
    (if (decide p || decide (Scalar.eqv x 0.0)) = true then (0.0 : ℝ) else d / x) = if p then 0.0 else d / x := by
  have e0 : (0.0 : ℝ) = 0 := by norm_num
  by_cases hp : p
  · simp only [hp, decide_true, Bool.true_or, if_true]
  · simp only [hp, decide_false, Bool.false_or, decide_eq_true_eq, if_false]
    split
    · next h => have h' := le_antisymm h.1 h.2; rw [h', e0, div_zero]
    · rfl

end RealScalar
