/-
  C11 helper: the upper bound of the signed normal form, reduced to a finite scan.

  `K X = ⌈g64 X⌉`, `g64 X = R64 (R64 (R64 (X + 180) / 360) − 1)` is the whole-turn count the code computes (monotone in `X`).
  For every integer `k` let `F = 360k + 180` and `T k = F + 2 ulp F` (two floats above `F`, toward `+∞`; written directly as
  an unpacked float).  `chk64 k` evaluates the three float operations of `g64` on `T k` with core's `UnpackedFloat.add/div/sub`
  and tests `k < g64 (T k)`.  Soundness (`upper_of_chk64`): if `chk64 k` holds then every float `X` with `K X = k` satisfies
  `X − 360k ≤ 180 + ulp X` — by monotonicity `X < T k`, and two distinct floats differ by at least one unit in the last
  place of the smaller one (`grid64`).
-/
import PaletteProofs.Ieee.F64Ops
import PaletteProofs.Ieee.Ulp

namespace C11
open Float.Model Float.Model.UnpackedFloat Ieee Ieee.F64

/-- the exact-value reading of `((x + 180) / 360) − 1` in binary64 -/
def g64 (X : ℚ) : ℚ := R64 (R64 (R64 (X + 180) / 360) - 1)

theorem g_mono64 {X Y : ℚ} (h : X ≤ Y) : g64 X ≤ g64 Y := by
  unfold g64
  apply R64_mono
  have := R64_mono (show X + 180 ≤ Y + 180 by linarith)
  have h2 : R64 (X + 180) / 360 ≤ R64 (Y + 180) / 360 := div_le_div_of_nonneg_right this (by norm_num)
  have := R64_mono h2
  linarith

def u18064 : UnpackedFloat := .finite .positive 0x16800000000000 (-45) (by decide)
def u36064 : UnpackedFloat := .finite .positive 0x16800000000000 (-44) (by decide)
def u164 : UnpackedFloat := .finite .positive 0x10000000000000 (-52) (by decide)

theorem canon_u18064 : Canon spec u18064 := ⟨by decide, by decide, Or.inr (Or.inl (by decide))⟩
theorem canon_u36064 : Canon spec u36064 := ⟨by decide, by decide, Or.inr (Or.inl (by decide))⟩
theorem canon_u164 : Canon spec u164 := ⟨by decide, by decide, Or.inr (Or.inl (by decide))⟩
theorem val_u18064 : val u18064 = 180 := by norm_num [u18064, val, sgn]
theorem val_u36064 : val u36064 = 360 := by norm_num [u36064, val, sgn]
theorem val_u164 : val u164 = 1 := by norm_num [u164, val, sgn]

/-- `g64` on unpacked floats, with core's operations -/
def y364 (t : UnpackedFloat) : UnpackedFloat :=
  UnpackedFloat.sub spec (UnpackedFloat.div spec (UnpackedFloat.add spec t u18064) u36064) u164

theorem y3_spec64 {t : UnpackedFloat} (ct : Canon spec t) (ft : t.isFinite = true) :
    val (y364 t) = g64 (val t) ∧ Canon spec (y364 t) ∧ (y364 t).isFinite = true := by
  have h360 : val u36064 ≠ 0 := by rw [val_u36064]; norm_num
  have c1 := canon_add spec ct canon_u18064
  have f1 := isFinite_add spec ft (show u18064.isFinite = true from rfl)
  have v1 := val_add spec ft (show u18064.isFinite = true from rfl) ct canon_u18064
  have c2 := canon_div spec (UnpackedFloat.add spec t u18064) u36064
  have f2 := isFinite_div spec f1 (show u36064.isFinite = true from rfl) h360
  have v2 := val_div spec f1 (show u36064.isFinite = true from rfl) h360
  have c3 := canon_sub spec c2 canon_u164
  have f3 := isFinite_sub spec f2 (show u164.isFinite = true from rfl)
  have v3 := val_sub spec f2 (show u164.isFinite = true from rfl) c2 canon_u164
  refine ⟨?_, c3, f3⟩
  unfold y364 g64
  rw [v3, v2, v1, val_u18064, val_u36064, val_u164]

/-! ### the scan -/

def mkF64 (s : Sign) (m : ℕ) (e : ℤ) : UnpackedFloat :=
  if h : 0 < m then .finite s m e h else .zero s

/-- mantissa of the integer `n` (`0 < n < 2^53`) in canonical form, exponent `log2 n − 52` -/
def mOf64 (n : ℕ) : ℕ := n * 2^(52 - n.log2)
def eOf64 (n : ℕ) : ℤ := (n.log2 : ℤ) - 52

/-- two units in the last place above `F = 360k + 180` -/
def Tk64 (k : ℤ) : UnpackedFloat :=
  if 0 < 360 * k + 180 then mkF64 .positive (mOf64 (360 * k + 180).natAbs + 2) (eOf64 (360 * k + 180).natAbs)
  else mkF64 .negative (mOf64 (360 * k + 180).natAbs - 2) (eOf64 (360 * k + 180).natAbs)

/-- mantissa of `Tk64 k` -/
def mT64 (k : ℤ) : ℕ :=
  if 0 < 360 * k + 180 then mOf64 (360 * k + 180).natAbs + 2 else mOf64 (360 * k + 180).natAbs - 2

def chk64 (k : ℤ) : Bool :=
  decide ((360 * k + 180).natAbs.log2 ≤ 52) && decide (2^52 ≤ mOf64 (360 * k + 180).natAbs) &&
  decide (2 ≤ mOf64 (360 * k + 180).natAbs) &&
  decide (2^52 ≤ mT64 k) && decide (mT64 k < 2^53) &&
  (UnpackedFloat.normalize spec k 0 .positive).lt (y364 (Tk64 k))

/-- two distinct positive canonical floats differ by at least a unit in the last place of the smaller -/
theorem grid64 {m₁ m₂ : ℕ} {e₁ e₂ : ℤ} (c₁ : CanonME spec m₁ e₁) (c₂ : CanonME spec m₂ e₂) (h₁ : 0 < m₁)
    (h : mag m₁ e₁ < mag m₂ e₂) : e₁ ≤ e₂ ∧ mag m₁ e₁ + 2^e₁ ≤ mag m₂ e₂ := by
  have he : e₁ ≤ e₂ := by
    by_contra hlt
    have := mag_lt_of_exp_lt c₂ c₁ h₁ (by omega); linarith
  refine ⟨he, ?_⟩
  obtain ⟨j, hj⟩ : ∃ j : ℕ, (j : ℤ) = e₂ - e₁ := ⟨(e₂ - e₁).toNat, by omega⟩
  have h2 : (2 : ℚ)^e₂ = 2^j * 2^e₁ := by
    rw [← zpow_natCast, ← zpow_add₀ (by norm_num), hj]; congr 1; omega
  unfold mag at h ⊢
  rw [h2] at h ⊢
  have hp := two_zpow_pos e₁
  have hlt : (m₁ : ℚ) < (m₂ : ℚ) * 2^j := by
    by_contra hge; rw [not_lt] at hge
    have : (m₂ : ℚ) * (2^j * 2^e₁) ≤ m₁ * 2^e₁ := by
      calc (m₂ : ℚ) * (2^j * 2^e₁) = (m₂ * 2^j) * 2^e₁ := by ring
        _ ≤ m₁ * 2^e₁ := mul_le_mul_of_nonneg_right hge hp.le
    linarith
  have hnat : m₁ + 1 ≤ m₂ * 2^j := by
    have : (m₁ : ℚ) < ((m₂ * 2^j : ℕ) : ℚ) := by push_cast; exact hlt
    exact_mod_cast this
  have hq : (m₁ : ℚ) + 1 ≤ (m₂ : ℚ) * 2^j := by
    have : ((m₁ + 1 : ℕ) : ℚ) ≤ ((m₂ * 2^j : ℕ) : ℚ) := by exact_mod_cast hnat
    push_cast at this; exact this
  calc (m₁ : ℚ) * 2^e₁ + 2^e₁ = ((m₁ : ℚ) + 1) * 2^e₁ := by ring
    _ ≤ ((m₂ : ℚ) * 2^j) * 2^e₁ := mul_le_mul_of_nonneg_right hq hp.le
    _ = (m₂ : ℚ) * (2^j * 2^e₁) := by ring

theorem mag_mOf64 {n : ℕ} (hl : n.log2 ≤ 52) : mag (mOf64 n) (eOf64 n) = n := by
  unfold mag mOf64 eOf64
  push_cast
  have : (2 : ℚ)^(52 - n.log2) * 2^((n.log2 : ℤ) - 52) = 1 := by
    rw [← zpow_natCast, ← zpow_add₀ (by norm_num)]
    have : ((52 - n.log2 : ℕ) : ℤ) + ((n.log2 : ℤ) - 52) = 0 := by omega
    rw [this]; simp
  rw [mul_assoc, this, mul_one]

theorem canonME_of64 {m : ℕ} {n : ℕ} (h0 : 2^52 ≤ m) (h1 : m < 2^53) : CanonME spec m (eOf64 n) :=
  ⟨h1, by unfold eOf64; show (-1074 : ℤ) ≤ _; omega, Or.inr (Or.inl h0)⟩

/-- **soundness of one scan step**, in terms of exact values.  `X = ± m·2^e` a normal float with `⌈g64 X⌉ = k`. -/
theorem upper_of_chk64 {k : ℤ} (hc : chk64 k = true) {s : Sign} {m : ℕ} {e : ℤ} (hm : 0 < m) (cm : CanonME spec m e)
    (hK : ⌈g64 (sgn s * mag m e)⌉ = k)
    (hsign : ((360 * k + 180 : ℤ) : ℚ) < sgn s * mag m e → (0 < sgn s * mag m e ↔ 0 < 360 * k + 180)) :
    sgn s * mag m e - 360 * k ≤ 180 + 2^e := by
  simp only [chk64, Bool.and_eq_true, decide_eq_true_eq] at hc
  obtain ⟨⟨⟨⟨⟨hl, hmF⟩, hmF2⟩, hT0⟩, hT1⟩, hlt⟩ := hc
  set F : ℤ := 360 * k + 180 with hF
  set n := F.natAbs with hn
  set X := sgn s * mag m e with hX
  have hmagn : mag (mOf64 n) (eOf64 n) = n := mag_mOf64 hl
  have hmFlt : mOf64 n < 2^53 := by
    have : (mOf64 n : ℚ) * 2^(eOf64 n) = n := hmagn
    have hnlt : n < 2^(n.log2 + 1) := Nat.lt_log2_self
    unfold mOf64
    calc n * 2^(52 - n.log2) < 2^(n.log2 + 1) * 2^(52 - n.log2) :=
          Nat.mul_lt_mul_of_pos_right hnlt (Nat.pos_of_ne_zero (by simp))
      _ = 2^53 := by rw [← Nat.pow_add]; congr 1; omega
  have cF : CanonME spec (mOf64 n) (eOf64 n) := canonME_of64 hmF hmFlt
  have cT : CanonME spec (mT64 k) (eOf64 n) := canonME_of64 hT0 hT1
  have hTpos : 0 < mT64 k := by omega
  -- trivial case: X ≤ F
  by_cases hXF : X ≤ F
  · have : (F : ℚ) = 360 * k + 180 := by rw [hF]; push_cast; ring
    have h2 := two_zpow_pos e
    linarith
  rw [not_le] at hXF
  have hsign := hsign hXF
  -- value of the comparison
  have hTk : Tk64 k = .finite (if 0 < F then .positive else .negative) (mT64 k) (eOf64 n) hTpos := by
    unfold Tk64 mT64 mkF64
    by_cases hpos : 0 < F
    · simp only [← hF, hpos, if_true]
      rw [dif_pos (by simp only [mT64, ← hF, hpos, if_true] at hTpos; exact hTpos)]
    · simp only [← hF, hpos, if_false]
      rw [dif_pos (by simp only [mT64, ← hF, hpos, if_false] at hTpos; exact hTpos)]
  have cTk : Canon spec (Tk64 k) := by rw [hTk]; exact cT
  have fTk : (Tk64 k).isFinite = true := by rw [hTk]; rfl
  obtain ⟨vy, cy, fy⟩ := y3_spec64 cTk fTk
  have hkval : val (UnpackedFloat.normalize spec k 0 .positive) = k := by
    rw [val_normalize]
    have hkb : |k| < 2^53 := by
      have : n < 2^53 := lt_of_lt_of_le Nat.lt_log2_self (Nat.pow_le_pow_right (by norm_num) (by omega))
      rw [abs_lt]; constructor <;> omega
    have := R64_intCast hkb
    simpa using this
  have hgT : (k : ℚ) < g64 (val (Tk64 k)) := by
    have := (lt_iff_val (canon_normalize spec k 0 .positive) cy (isFinite_normalize ..) fy).mp hlt
    rwa [hkval, vy] at this
  -- monotonicity: X < T
  have hXT : X < val (Tk64 k) := by
    by_contra hge; rw [not_lt] at hge
    have h1 := g_mono64 hge
    have h2 : g64 X ≤ k := by rw [← hK]; exact Int.le_ceil _
    linarith
  have h2e := two_zpow_pos e
  have h2eF := two_zpow_pos (eOf64 n)
  by_cases hpos : 0 < F
  · -- positive side
    have hXpos : 0 < X := hsign.mpr hpos
    have hs : s = .positive := by
      cases s
      · exfalso; rw [hX] at hXpos; have := mag_pos hm e; simp [sgn] at hXpos; linarith
      · rfl
    have hXm : X = mag m e := by rw [hX, hs]; simp [sgn]
    have hFn : (F : ℚ) = n := by
      have : (F : ℤ) = n := by omega
      exact_mod_cast this
    have hTval : val (Tk64 k) = mag (mT64 k) (eOf64 n) := by rw [hTk, if_pos hpos, val_pos_eq]
    have hmTk : mT64 k = mOf64 n + 2 := by unfold mT64; rw [← hF, if_pos hpos]
    have hTF : mag (mT64 k) (eOf64 n) = F + 2 * 2^(eOf64 n) := by
      rw [hFn, ← hmagn, hmTk]; unfold mag; push_cast; ring
    -- exponent of X is at least that of F
    have hFX : mag (mOf64 n) (eOf64 n) < mag m e := by rw [hmagn, ← hFn, ← hXm]; exact hXF
    obtain ⟨hee, _⟩ := grid64 cF cm (by omega) hFX
    have hgr := (grid64 cm cT hm (by rw [← hXm, ← hTval]; exact hXT)).2
    have hpow : (2 : ℚ)^(eOf64 n) ≤ 2^e := zpow_le_zpow_right₀ (by norm_num) hee
    have : (F : ℚ) = 360 * k + 180 := by rw [hF]; push_cast; ring
    rw [hXm]; rw [hTF] at hgr
    linarith
  · -- negative side
    have hXneg : ¬ 0 < X := fun h => hpos (hsign.mp h)
    have hs : s = .negative := by
      cases s
      · rfl
      · exfalso; apply hXneg; rw [hX]; have := mag_pos hm e; simp [sgn]; exact this
    have hXm : X = - mag m e := by rw [hX, hs]; simp [sgn]
    have hFn : (F : ℚ) = -(n : ℚ) := by
      have : (F : ℤ) = -(n : ℤ) := by omega
      exact_mod_cast this
    have hTval : val (Tk64 k) = - mag (mT64 k) (eOf64 n) := by rw [hTk, if_neg hpos, val_neg_eq]
    have hmTk : mT64 k = mOf64 n - 2 := by unfold mT64; rw [← hF, if_neg hpos]
    have hTF : mag (mT64 k) (eOf64 n) = n - 2 * 2^(eOf64 n) := by
      rw [← hmagn, hmTk]; unfold mag; rw [Nat.cast_sub hmF2]; push_cast; ring
    -- |T| < |X|: grid64 with T as the smaller one
    have hTX : mag (mT64 k) (eOf64 n) < mag m e := by
      rw [hXm, hTval] at hXT; linarith
    obtain ⟨hee, hgr⟩ := grid64 cT cm hTpos hTX
    have hpow : (2 : ℚ)^(eOf64 n) ≤ 2^e := zpow_le_zpow_right₀ (by norm_num) hee
    have : (F : ℚ) = 360 * k + 180 := by rw [hF]; push_cast; ring
    rw [hXm]; rw [hTF] at hgr
    linarith

end C11
