/-
  The model's cube root read at ℝ (`Scalar.cbrt`, the odd real cube root of `PaletteProofs/Real.lean`) is the two-sided inverse
  of cubing on all of ℝ, monotone, and stable under relative perturbation; the cube is Lipschitz on bounded sets.
  (The first few facts also exist in `C19_Sampling`; they are re-proved here so that C01 does not import C19.)
-/
import PaletteProofs.Real
import Mathlib.Tactic.Linarith
import Mathlib.Tactic.Positivity
import Mathlib.Tactic.FieldSimp

namespace CbrtReal

theorem cbrt_of_nonneg {x : ℝ} (h : 0 ≤ x) : Scalar.cbrt x = x ^ ((1:ℝ)/3) := if_pos h
theorem cbrt_of_neg {x : ℝ} (h : ¬ 0 ≤ x) : Scalar.cbrt x = -((-x) ^ ((1:ℝ)/3)) := if_neg h

theorem rpow_third_cube {y : ℝ} (h : 0 ≤ y) : (y ^ ((1:ℝ)/3)) ^ 3 = y := by
  rw [← Real.rpow_natCast, ← Real.rpow_mul h]; norm_num

/-- cubing undoes `cbrt` on all of ℝ -/
theorem cbrt_cube (x : ℝ) : (Scalar.cbrt x) ^ 3 = x := by
  by_cases h : 0 ≤ x
  · rw [cbrt_of_nonneg h, rpow_third_cube h]
  · rw [cbrt_of_neg h]
    have h' : 0 ≤ -x := by linarith [not_le.mp h]
    have e : (-((-x) ^ ((1:ℝ)/3))) ^ 3 = -(((-x) ^ ((1:ℝ)/3)) ^ 3) := by ring
    rw [e, rpow_third_cube h']; ring

theorem cube_strictMono : StrictMono (fun t : ℝ => t ^ 3) := Odd.strictMono_pow ⟨1, by norm_num⟩
theorem cube_le_cube {a b : ℝ} : a ^ 3 ≤ b ^ 3 ↔ a ≤ b := cube_strictMono.le_iff_le
theorem cube_lt_cube {a b : ℝ} : a ^ 3 < b ^ 3 ↔ a < b := cube_strictMono.lt_iff_lt

theorem le_cbrt_iff (v d : ℝ) : v ≤ Scalar.cbrt d ↔ v ^ 3 ≤ d := by rw [← cube_le_cube, cbrt_cube]
theorem cbrt_le_iff (v d : ℝ) : Scalar.cbrt d ≤ v ↔ d ≤ v ^ 3 := by rw [← cube_le_cube, cbrt_cube]

/-- **`cbrt (x³) = x` for every real `x`** (negative ones included: the model's `cbrt` at ℝ is odd) -/
theorem cbrt_of_cube (x : ℝ) : Scalar.cbrt (x ^ 3) = x := by
  apply le_antisymm
  · rw [cbrt_le_iff]
  · rw [le_cbrt_iff]

/-- the same for the way the code writes the cube, `x * x * x` -/
theorem cbrt_mul_self3 (x : ℝ) : Scalar.cbrt (x * x * x) = x := by
  have : x * x * x = x ^ 3 := by ring
  rw [this, cbrt_of_cube]
theorem mul_self3_cbrt (x : ℝ) : Scalar.cbrt x * Scalar.cbrt x * Scalar.cbrt x = x := by
  have : Scalar.cbrt x * Scalar.cbrt x * Scalar.cbrt x = (Scalar.cbrt x) ^ 3 := by ring
  rw [this, cbrt_cube]

theorem cbrt_nonneg {x : ℝ} (h : 0 ≤ x) : 0 ≤ Scalar.cbrt x := by rw [le_cbrt_iff]; norm_num; exact h

/-- `|x| ≤ T³` gives `|cbrt x| ≤ T` -/
theorem abs_cbrt_le {x T : ℝ} (h : |x| ≤ T ^ 3) : |Scalar.cbrt x| ≤ T := by
  rw [abs_le] at h ⊢
  refine ⟨(le_cbrt_iff _ _).mpr ?_, (cbrt_le_iff _ _).mpr h.2⟩
  have : (-T) ^ 3 = -(T ^ 3) := by ring
  rw [this]; exact h.1

/-- the cube is Lipschitz on bounded sets: `|t| ≤ T`, `|d| ≤ δ` give `|(t+d)³ − t³| ≤ δ(3T² + 3Tδ + δ²)` -/
theorem abs_cube_sub_le {t d T δ : ℝ} (ht : |t| ≤ T) (hd : |d| ≤ δ) :
    |(t + d) * (t + d) * (t + d) - t ^ 3| ≤ δ * (3 * T ^ 2 + 3 * T * δ + δ ^ 2) := by
  have hT : 0 ≤ T := le_trans (abs_nonneg _) ht
  have hδ : 0 ≤ δ := le_trans (abs_nonneg _) hd
  have e : (t + d) * (t + d) * (t + d) - t ^ 3 = d * (3 * t ^ 2 + 3 * t * d + d ^ 2) := by ring
  rw [e, abs_mul]
  have h1 : t ^ 2 ≤ T ^ 2 := by rw [← sq_abs t]; exact pow_le_pow_left₀ (abs_nonneg _) ht 2
  have h2 : d ^ 2 ≤ δ ^ 2 := by rw [← sq_abs d]; exact pow_le_pow_left₀ (abs_nonneg _) hd 2
  have h3 : |t * d| ≤ T * δ := by rw [abs_mul]; exact mul_le_mul ht hd (abs_nonneg _) hT
  have h4 : |3 * t ^ 2 + 3 * t * d + d ^ 2| ≤ 3 * T ^ 2 + 3 * T * δ + δ ^ 2 := by
    rw [abs_le] at h3 ⊢
    constructor
    · nlinarith [sq_nonneg t, sq_nonneg d]
    · nlinarith [sq_nonneg t, sq_nonneg d]
  exact mul_le_mul hd h4 (abs_nonneg _) hδ

/-- **relative stability of the cube root**: for `u ≥ 0` and `|u′ − u| ≤ ρ·u` with `0 ≤ ρ ≤ 1/2`,
    `|cbrt u′ − cbrt u|·(3 − 3ρ) ≤ ρ·cbrt u` -/
theorem cbrt_rel {u u' ρ : ℝ} (hu : 0 ≤ u) (hρ0 : 0 ≤ ρ) (hρ1 : ρ ≤ 1 / 2) (h : |u' - u| ≤ ρ * u) :
    |Scalar.cbrt u' - Scalar.cbrt u| * (3 - 3 * ρ) ≤ ρ * Scalar.cbrt u := by
  rw [abs_le] at h
  have hu' : 0 ≤ u' := by nlinarith
  set t := Scalar.cbrt u with ht
  set t' := Scalar.cbrt u' with ht'
  have t0 : 0 ≤ t := cbrt_nonneg hu
  have t0' : 0 ≤ t' := cbrt_nonneg hu'
  have e : t ^ 3 = u := cbrt_cube u
  have e' : t' ^ 3 = u' := cbrt_cube u'
  -- t' ≥ (1-ρ) t
  have hlow : (1 - ρ) * t ≤ t' := by
    rw [ht', le_cbrt_iff]
    have h1 : ((1 - ρ) * t) ^ 3 = (1 - ρ) ^ 3 * u := by rw [mul_pow, e]
    rw [h1]
    have h2 : (1 - ρ) ^ 3 ≤ 1 - ρ := by
      have a0 : 0 ≤ 1 - ρ := by linarith
      have a1 : 1 - ρ ≤ 1 := by linarith
      have : (1 - ρ) ^ 3 = (1 - ρ) * ((1 - ρ) * (1 - ρ)) := by ring
      rw [this]
      have : (1 - ρ) * (1 - ρ) ≤ 1 := by nlinarith
      nlinarith
    nlinarith
  rcases eq_or_lt_of_le t0 with hz | hpos
  · -- t = 0: then u = 0 and u' = 0
    have hu0 : u = 0 := by rw [← e, ← hz]; ring
    have hu'0 : u' = 0 := by rw [hu0] at h; linarith [h.1, h.2]
    have : t' = 0 := by
      have : t' ^ 3 = 0 := by rw [e', hu'0]
      exact pow_eq_zero_iff (by norm_num) |>.mp this
    rw [this, ← hz]; simp
  · -- divide the factorisation by t²
    have hden : (3 - 3 * ρ) * t ^ 2 ≤ t' ^ 2 + t' * t + t ^ 2 := by
      have a : (1 - ρ) * t * t ≤ t' * t := mul_le_mul_of_nonneg_right hlow t0
      have b : ((1 - ρ) * t) * ((1 - ρ) * t) ≤ t' * t' :=
        mul_le_mul hlow hlow (mul_nonneg (by linarith) t0) t0'
      have c : (1 - 2 * ρ) * t ^ 2 ≤ ((1 - ρ) * t) * ((1 - ρ) * t) := by nlinarith [sq_nonneg (ρ * t)]
      nlinarith
    have hfac : (t' - t) * (t' ^ 2 + t' * t + t ^ 2) = u' - u := by rw [← e, ← e']; ring
    have hq : 0 ≤ t' ^ 2 + t' * t + t ^ 2 := by positivity
    have habs : |t' - t| * (t' ^ 2 + t' * t + t ^ 2) ≤ ρ * t ^ 3 := by
      rw [← abs_of_nonneg hq, ← abs_mul, hfac, e, abs_le]; exact h
    have h3 : |t' - t| * ((3 - 3 * ρ) * t ^ 2) ≤ ρ * t ^ 3 :=
      le_trans (mul_le_mul_of_nonneg_left hden (abs_nonneg _)) habs
    have ht2 : 0 < t ^ 2 := by positivity
    have : |t' - t| * (3 - 3 * ρ) * t ^ 2 ≤ ρ * t * t ^ 2 := by
      calc |t' - t| * (3 - 3 * ρ) * t ^ 2 = |t' - t| * ((3 - 3 * ρ) * t ^ 2) := by ring
        _ ≤ ρ * t ^ 3 := h3
        _ = ρ * t * t ^ 2 := by ring
    exact le_of_mul_le_mul_right this ht2

end CbrtReal
