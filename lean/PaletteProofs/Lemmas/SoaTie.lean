/-
  Helper lemmas for `PaletteProofs/Tie_Soa.lean`: the model's `k`-generic vector operations (`allSome`, `Vector.ofFn`,
  `drainPanicState`) at the literal column vectors `#v[a]` / `#v[a, b, c]` the translated macro bodies build.
-/
import PaletteProofs.C18_SoaNested
import PaletteModel.BodyPrimSoa

namespace SoaTie
open Soa C18 SoaPrim

theorem vec1_eta {β : Type} (v : Vector β 1) : v = #v[v[0]] := by
  ext i hi
  match i, hi with
  | 0, _ => rfl

theorem vec3_eta {β : Type} (v : Vector β 3) : v = #v[v[0], v[1], v[2]] := by
  ext i hi
  match i, hi with
  | 0, _ => rfl
  | 1, _ => rfl
  | 2, _ => rfl

theorem vec1_cases {β : Type} (v : Vector β 1) : ∃ a, v = #v[a] := ⟨_, vec1_eta v⟩
theorem vec3_cases {β : Type} (v : Vector β 3) : ∃ a b c, v = #v[a, b, c] := ⟨_, _, _, vec3_eta v⟩

theorem allSome1 {β : Type} (a : Option β) : allSome #v[a] = (match a with | some a => some #v[a] | _ => none) := by
  cases a with
  | none => exact (allSome_eq_none_iff _).2 ⟨0, by decide, rfl⟩
  | some a => exact (allSome_eq_some_iff _ _).2 (fun i hi => match i, hi with | 0, _ => rfl)

theorem allSome3 {β : Type} (a b c : Option β) :
    allSome #v[a, b, c] = (match a, b, c with | some a, some b, some c => some #v[a, b, c] | _, _, _ => none) := by
  cases a with
  | none => exact (allSome_eq_none_iff _).2 ⟨0, by decide, rfl⟩
  | some a =>
  cases b with
  | none => exact (allSome_eq_none_iff _).2 ⟨1, by decide, rfl⟩
  | some b =>
  cases c with
  | none => exact (allSome_eq_none_iff _).2 ⟨2, by decide, rfl⟩
  | some c => exact (allSome_eq_some_iff _ _).2 (fun i hi => match i, hi with | 0, _ => rfl | 1, _ => rfl | 2, _ => rfl)

theorem ofFn1 {β : Type} (f : Fin 1 → β) : Vector.ofFn f = #v[f 0] := by
  ext i hi
  match i, hi with
  | 0, _ => simp

theorem ofFn3 {β : Type} (f : Fin 3 → β) : Vector.ofFn f = #v[f 0, f 1, f 2] := by
  ext i hi
  match i, hi with
  | 0, _ => simp
  | 1, _ => simp
  | 2, _ => simp

theorem map1 {β γ : Type} (f : β → γ) (a : β) : (#v[a]).map f = #v[f a] := by simp
theorem map3 {β γ : Type} (f : β → γ) (a b c : β) : (#v[a, b, c]).map f = #v[f a, f b, f c] := by simp

/-- the state after a panicking multi-column drain: the columns before the first failing one have lost their range -/
theorem drainPanicState1 {α : Type} (a : List α) (ra : Option (List α × List α)) :
    drainPanicState #v[a] #v[ra] = #v[(match ra with | some p => p.1 | none => a)] := by
  cases ra <;> simp [drainPanicState, ofFn1]

theorem drainPanicState3 {α : Type} (a b c : List α) (ra rb rc : Option (List α × List α)) :
    drainPanicState #v[a, b, c] #v[ra, rb, rc] =
      #v[(match ra with | some p => p.1 | none => a),
         (match ra, rb with | some _, some p => p.1 | _, _ => b),
         (match ra, rb, rc with | some _, some _, some p => p.1 | _, _, _ => c)] := by
  cases ra <;> cases rb <;> cases rc <;> simp [drainPanicState, ofFn3, Nat.forall_lt_succ_right]

theorem emptyCols1 {α : Type} : emptyCols α 1 = #v[[]] := by
  ext i hi
  match i, hi with
  | 0, _ => simp [emptyCols]

theorem emptyCols3 {α : Type} : emptyCols α 3 = #v[[], [], []] := by
  ext i hi
  match i, hi with
  | 0, _ => simp [emptyCols]
  | 1, _ => simp [emptyCols]
  | 2, _ => simp [emptyCols]

theorem firstLen1 {α : Type} (a : List α) : firstLen #v[a] = a.length := by simp [firstLen]
theorem firstLen3 {α : Type} (a b c : List α) : firstLen #v[a, b, c] = a.length := by simp [firstLen]

end SoaTie
