/-
  Measure theory for C19 (no dependency on the model): the sampler of a solid of revolution has constant Jacobian.

  A solid of revolution is given by a radius profile `R` on the heights `(a, b)`.  With `F` a multiple of the volume CDF along the
  height (`F' = c·R²`) and `G` its inverse, the sampler
      `(d₁, d₂, d₃) ↦ (z, ρ cos θ, ρ sin θ)`,  `z = G d₁`, `ρ = √d₂ · R z`, `θ = κ·d₃`
  pushes Lebesgue measure on a box of draws to a constant multiple of Lebesgue measure on its image (`map_T3`): per height slice the
  disc sampler `(d₂, d₃) ↦ √d₂·r·(cos κd₃, sin κd₃)` has the constant Jacobian `κ r²/2` (`map_T2`, from Mathlib's change of variables
  formula and its derivative of the polar coordinate map), and the height is a one-dimensional change of variables; Tonelli joins them.
  `κ` = radians per unit of the hue draw (`π/180` for draws in degrees, `2π` for `rng.gen() * 360°`).
-/
import Mathlib.Analysis.SpecialFunctions.PolarCoord
import Mathlib.MeasureTheory.Function.Jacobian
import Mathlib.MeasureTheory.Function.JacobianOneDim
import Mathlib.Analysis.SpecialFunctions.Sqrt

open MeasureTheory Set Real
open scoped ENNReal

noncomputable section
namespace Revolution

/-- the polar map `(ρ, θ) ↦ (ρ cos θ, ρ sin θ)` -/
def pol (q : ℝ × ℝ) : ℝ × ℝ := (q.1 * cos q.2, q.1 * sin q.2)

theorem pol_eq : pol = polarCoord.symm := rfl

/-- `(ρ,θ) ↦ ρ(cos θ, sin θ)` is injective on `ρ > 0`, `θ` in a half-open interval of length at most `2π` -/
theorem pol_injOn {t0 t1 : ℝ} (ht : t1 ≤ t0 + 2 * π) : InjOn pol (Ioi (0:ℝ) ×ˢ Ico t0 t1) := by
  rintro ⟨r, t⟩ ⟨hr, ht0, ht1⟩ ⟨r', t'⟩ ⟨hr', ht0', ht1'⟩ h
  simp only [pol, Prod.mk.injEq] at h
  simp only [mem_Ioi] at hr hr'
  obtain ⟨hx, hy⟩ := h
  have hrr : r = r' := by
    have h2 : r ^ 2 = r' ^ 2 := by
      have e1 : r ^ 2 = (r * cos t) ^ 2 + (r * sin t) ^ 2 := by
        have := cos_sq_add_sin_sq t; nlinarith [this]
      have e2 : r' ^ 2 = (r' * cos t') ^ 2 + (r' * sin t') ^ 2 := by
        have := cos_sq_add_sin_sq t'; nlinarith [this]
      rw [e1, e2, hx, hy]
    nlinarith [pow_pos hr 2, pow_pos hr' 2]
  subst hrr
  have hc : cos t = cos t' := mul_left_cancel₀ hr.ne' hx
  have hs : sin t = sin t' := mul_left_cancel₀ hr.ne' hy
  have h1 : cos (t - t') = 1 := by
    rw [cos_sub, hc, hs]; have := cos_sq_add_sin_sq t'; nlinarith [this]
  obtain ⟨n, hn⟩ := (Real.cos_eq_one_iff _).mp h1
  have hpi := Real.pi_pos
  have hn0 : n = 0 := by
    have hlt : (n:ℝ) * (2 * π) < 1 * (2 * π) := by rw [hn]; linarith
    have hgt : (-1:ℝ) * (2 * π) < (n:ℝ) * (2 * π) := by rw [hn]; linarith
    have h1' : (n:ℝ) < 1 := lt_of_mul_lt_mul_right hlt (by positivity)
    have h2' : (-1:ℝ) < n := lt_of_mul_lt_mul_right hgt (by positivity)
    have h3 : n < 1 := by exact_mod_cast h1'
    have h4 : -1 < n := by exact_mod_cast h2'
    omega
  rw [hn0] at hn
  have : t = t' := by simp at hn; linarith
  rw [this]

/-! ## the disc sampler at a fixed height -/

/-- `(d, h) ↦ (√d·r, κ h)`: polar coordinates of the sampled point of the disc of radius `r` -/
def inner2 (κ r : ℝ) (q : ℝ × ℝ) : ℝ × ℝ := (Real.sqrt q.1 * r, q.2 * κ)
/-- the disc sampler at radius scale `r`: `(d, h) ↦ √d·r·(cos κh, sin κh)` -/
def T2 (κ r : ℝ) (q : ℝ × ℝ) : ℝ × ℝ := pol (inner2 κ r q)

def inner2' (κ r : ℝ) (q : ℝ × ℝ) : ℝ × ℝ →L[ℝ] ℝ × ℝ :=
  (ContinuousLinearMap.smulRight (1 : ℝ →L[ℝ] ℝ) (1 / (2 * Real.sqrt q.1) * r)).prodMap
    (ContinuousLinearMap.smulRight (1 : ℝ →L[ℝ] ℝ) κ)

theorem hasFDerivAt_inner2 (κ r : ℝ) (q : ℝ × ℝ) (hq : 0 < q.1) : HasFDerivAt (inner2 κ r) (inner2' κ r q) q := by
  have h1 : HasDerivAt (fun d => Real.sqrt d * r) (1 / (2 * Real.sqrt q.1) * r) q.1 :=
    (Real.hasDerivAt_sqrt hq.ne').mul_const r
  have h2 : HasDerivAt (fun h : ℝ => h * κ) κ q.2 := by
    simpa using (hasDerivAt_id q.2).mul_const κ
  exact HasFDerivAt.prodMap q h1.hasFDerivAt h2.hasFDerivAt

def T2' (κ r : ℝ) (q : ℝ × ℝ) : ℝ × ℝ →L[ℝ] ℝ × ℝ := (fderivPolarCoordSymm (inner2 κ r q)).comp (inner2' κ r q)

theorem hasFDerivAt_T2 (κ r : ℝ) (q : ℝ × ℝ) (hq : 0 < q.1) : HasFDerivAt (T2 κ r) (T2' κ r q) q :=
  (hasFDerivAt_polarCoord_symm (inner2 κ r q)).comp q (hasFDerivAt_inner2 κ r q hq)

/-- the Jacobian determinant of the disc sampler does not depend on the point -/
theorem det_T2' (κ r : ℝ) (q : ℝ × ℝ) (hq : 0 < q.1) : (T2' κ r q).det = κ * r ^ 2 / 2 := by
  unfold T2' inner2'
  rw [ContinuousLinearMap.det, ContinuousLinearMap.toLinearMap_comp, LinearMap.det_comp]
  have e1 : LinearMap.det (fderivPolarCoordSymm (inner2 κ r q) : ℝ × ℝ →ₗ[ℝ] ℝ × ℝ) = Real.sqrt q.1 * r :=
    det_fderivPolarCoordSymm (inner2 κ r q)
  rw [e1, ContinuousLinearMap.coe_prodMap, LinearMap.det_prodMap]
  simp only [LinearMap.det_ring, ContinuousLinearMap.coe_coe, ContinuousLinearMap.smulRight_apply,
    one_apply_eq_self, smul_eq_mul, one_mul]
  have hs : 0 < Real.sqrt q.1 := Real.sqrt_pos.mpr hq
  field_simp

theorem inner2_mapsTo {κ r m0 m1 h0 h1 : ℝ} (hκ : 0 < κ) (hr : 0 < r) (hm : 0 ≤ m0) :
    MapsTo (inner2 κ r) (Ioo m0 m1 ×ˢ Ico h0 h1) (Ioi (0:ℝ) ×ˢ Ico (h0 * κ) (h1 * κ)) := by
  rintro ⟨d, h⟩ ⟨⟨hd0, hd1⟩, hh0, hh1⟩
  refine ⟨?_, ?_, ?_⟩
  · exact mul_pos (Real.sqrt_pos.mpr (lt_of_le_of_lt hm hd0)) hr
  · exact mul_le_mul_of_nonneg_right hh0 hκ.le
  · exact mul_lt_mul_of_pos_right hh1 hκ

theorem inner2_injOn {κ r m0 m1 h0 h1 : ℝ} (hκ : 0 < κ) (hr : 0 < r) (hm : 0 ≤ m0) :
    InjOn (inner2 κ r) (Ioo m0 m1 ×ˢ Ico h0 h1) := by
  rintro ⟨d, h⟩ ⟨⟨hd0, hd1⟩, hh0, hh1⟩ ⟨d', h'⟩ ⟨⟨hd0', hd1'⟩, hh0', hh1'⟩ e
  simp only [inner2, Prod.mk.injEq] at e
  have e1 : Real.sqrt d = Real.sqrt d' := mul_right_cancel₀ hr.ne' e.1
  have e2 : h = h' := mul_right_cancel₀ hκ.ne' e.2
  have e3 : d = d' := (Real.sqrt_inj (hm.trans hd0.le) (hm.trans hd0'.le)).mp e1
  rw [e2, e3]

theorem arc_le {κ h0 h1 : ℝ} (hh : (h1 - h0) * κ ≤ 2 * π) : h1 * κ ≤ h0 * κ + 2 * π := by linarith

theorem T2_injOn {κ r m0 m1 h0 h1 : ℝ} (hκ : 0 < κ) (hr : 0 < r) (hm : 0 ≤ m0) (hh : (h1 - h0) * κ ≤ 2 * π) :
    InjOn (T2 κ r) (Ioo m0 m1 ×ˢ Ico h0 h1) :=
  (pol_injOn (arc_le hh)).comp (inner2_injOn hκ hr hm) (inner2_mapsTo hκ hr hm)

/-- **constant Jacobian of the disc sampler**: Lebesgue measure on the box of draws is pushed to a constant multiple of
    Lebesgue measure on the image (an annular sector) -/
theorem map_T2 {κ r m0 m1 h0 h1 : ℝ} (hκ : 0 < κ) (hr : 0 < r) (hm : 0 ≤ m0) (hh : (h1 - h0) * κ ≤ 2 * π) :
    Measure.map (T2 κ r) (volume.restrict (Ioo m0 m1 ×ˢ Ico h0 h1)) =
      ENNReal.ofReal (2 / (κ * r ^ 2)) • volume.restrict (T2 κ r '' (Ioo m0 m1 ×ˢ Ico h0 h1)) := by
  have hS : MeasurableSet (Ioo m0 m1 ×ˢ Ico h0 h1) := measurableSet_Ioo.prod measurableSet_Ico
  have hpos : ∀ q ∈ Ioo m0 m1 ×ˢ Ico h0 h1, 0 < q.1 := fun q hq => lt_of_le_of_lt hm hq.1.1
  have key := map_withDensity_abs_det_fderiv_eq_addHaar (μ := volume) (f := T2 κ r) (f' := T2' κ r) hS.nullMeasurableSet
    (fun q hq => (hasFDerivAt_T2 κ r q (hpos q hq)).hasFDerivWithinAt) (T2_injOn hκ hr hm hh)
  have hc : 0 < κ * r ^ 2 / 2 := by positivity
  have hd : (volume.restrict (Ioo m0 m1 ×ˢ Ico h0 h1)).withDensity (fun q => ENNReal.ofReal |(T2' κ r q).det|) =
      ENNReal.ofReal (κ * r ^ 2 / 2) • volume.restrict (Ioo m0 m1 ×ˢ Ico h0 h1) := by
    rw [← withDensity_const]
    apply withDensity_congr_ae
    filter_upwards [ae_restrict_mem hS] with q hq
    rw [det_T2' κ r q (hpos q hq), abs_of_pos hc]
  rw [hd, Measure.map_smul] at key
  rw [← key, smul_smul, ← ENNReal.ofReal_mul (by positivity)]
  have : 2 / (κ * r ^ 2) * (κ * r ^ 2 / 2) = 1 := by field_simp
  rw [this, ENNReal.ofReal_one, one_smul]

/-! ## the sectors in polar coordinates -/

theorem inner2_image {κ r s0 s1 h0 h1 : ℝ} (hκ : 0 < κ) (hr : 0 < r) (hs0 : 0 ≤ s0) (hs1 : 0 ≤ s1) :
    inner2 κ r '' (Ioo (s0 ^ 2) (s1 ^ 2) ×ˢ Ico h0 h1) = Ioo (s0 * r) (s1 * r) ×ˢ Ico (h0 * κ) (h1 * κ) := by
  ext ⟨ρ, θ⟩
  constructor
  · rintro ⟨⟨d, h⟩, ⟨⟨hd0, hd1⟩, hh0, hh1⟩, e⟩
    simp only [inner2, Prod.mk.injEq] at e
    obtain ⟨rfl, rfl⟩ := e
    refine ⟨⟨?_, ?_⟩, ?_, ?_⟩
    · exact mul_lt_mul_of_pos_right (Real.lt_sqrt_of_sq_lt hd0) hr
    · exact mul_lt_mul_of_pos_right ((Real.sqrt_lt' (lt_of_le_of_ne hs1 (by rintro rfl; nlinarith))).mpr hd1) hr
    · exact mul_le_mul_of_nonneg_right hh0 hκ.le
    · exact mul_lt_mul_of_pos_right hh1 hκ
  · rintro ⟨⟨h1', h2'⟩, h3', h4'⟩
    simp only at h1' h2' h3' h4'
    have hρ : 0 ≤ ρ / r := div_nonneg (le_trans (mul_nonneg hs0 hr.le) h1'.le) hr.le
    refine ⟨((ρ / r) ^ 2, θ / κ), ⟨⟨?_, ?_⟩, ?_, ?_⟩, ?_⟩
    · have : s0 < ρ / r := by rw [lt_div_iff₀ hr]; exact h1'
      simp only; nlinarith
    · have : ρ / r < s1 := by rw [div_lt_iff₀ hr]; exact h2'
      simp only; nlinarith
    · simp only; rw [le_div_iff₀ hκ]; exact h3'
    · simp only; rw [div_lt_iff₀ hκ]; exact h4'
    · simp only [inner2, Real.sqrt_sq hρ, Prod.mk.injEq]
      constructor <;> field_simp

theorem T2_image {κ r s0 s1 h0 h1 : ℝ} (hκ : 0 < κ) (hr : 0 < r) (hs0 : 0 ≤ s0) (hs1 : 0 ≤ s1) :
    T2 κ r '' (Ioo (s0 ^ 2) (s1 ^ 2) ×ˢ Ico h0 h1) = pol '' (Ioo (s0 * r) (s1 * r) ×ˢ Ico (h0 * κ) (h1 * κ)) := by
  rw [← inner2_image hκ hr hs0 hs1, ← image_comp]; rfl

/-! ## the solid of revolution -/

/-- the sampler of a solid of revolution with height sampler `G` and radius profile `R`, output in the order `(z, (x, y))` -/
def T3 (κ : ℝ) (G R : ℝ → ℝ) (d : ℝ × ℝ × ℝ) : ℝ × ℝ × ℝ := (G d.1, T2 κ (R (G d.1)) d.2)

/-- cylindrical coordinates `(z, (ρ, θ)) ↦ (z, (ρ cos θ, ρ sin θ))` -/
def cyl (p : ℝ × ℝ × ℝ) : ℝ × ℝ × ℝ := (p.1, pol p.2)

/-- the open region in cylindrical coordinates -/
def regionO (R : ℝ → ℝ) (a b s0 s1 t0 t1 : ℝ) : Set (ℝ × ℝ × ℝ) :=
  {p | p.1 ∈ Ioo a b ∧ p.2.1 ∈ Ioo (s0 * R p.1) (s1 * R p.1) ∧ p.2.2 ∈ Ico t0 t1}

theorem measurable_T2_uncurry (κ : ℝ) : Measurable (fun p : ℝ × ℝ × ℝ => T2 κ p.1 p.2) := by
  unfold T2 pol inner2
  fun_prop

theorem measurable_T2 (κ r : ℝ) : Measurable (T2 κ r) := by
  unfold T2 pol inner2
  fun_prop

theorem measurable_T3 (κ : ℝ) {G R : ℝ → ℝ} (hG : Measurable G) (hR : Measurable R) : Measurable (T3 κ G R) := by
  unfold T3
  refine Measurable.prodMk (hG.comp measurable_fst) ?_
  exact (measurable_T2_uncurry κ).comp (Measurable.prodMk (hR.comp (hG.comp measurable_fst)) measurable_snd)

theorem continuous_cyl : Continuous cyl := by
  unfold cyl pol
  fun_prop

theorem measurableSet_regionO {R : ℝ → ℝ} (hR : Measurable R) (a b s0 s1 t0 t1 : ℝ) :
    MeasurableSet (regionO R a b s0 s1 t0 t1) := by
  unfold regionO
  simp only [mem_Ioo, mem_Ico]
  refine MeasurableSet.inter ?_ (MeasurableSet.inter ?_ ?_)
  · exact (measurableSet_lt measurable_const measurable_fst).inter (measurableSet_lt measurable_fst measurable_const)
  · exact (measurableSet_lt (measurable_const.mul (hR.comp measurable_fst)) (measurable_fst.comp measurable_snd)).inter
      (measurableSet_lt (measurable_fst.comp measurable_snd) (measurable_const.mul (hR.comp measurable_fst)))
  · exact (measurableSet_le measurable_const (measurable_snd.comp measurable_snd)).inter
      (measurableSet_lt (measurable_snd.comp measurable_snd) measurable_const)

theorem cyl_injOn_regionO {R : ℝ → ℝ} {a b s0 s1 t0 t1 : ℝ} (hRpos : ∀ z ∈ Ioo a b, 0 < R z) (hs0 : 0 ≤ s0)
    (ht : t1 ≤ t0 + 2 * π) : InjOn cyl (regionO R a b s0 s1 t0 t1) := by
  rintro ⟨z, q⟩ ⟨hz, hq1, hq2⟩ ⟨z', q'⟩ ⟨hz', hq1', hq2'⟩ e
  simp only [cyl, Prod.mk.injEq] at e
  obtain ⟨rfl, e2⟩ := e
  have m1 : q ∈ Ioi (0:ℝ) ×ˢ Ico t0 t1 := ⟨lt_of_le_of_lt (mul_nonneg hs0 (hRpos z hz).le) hq1.1, hq2⟩
  have m2 : q' ∈ Ioi (0:ℝ) ×ˢ Ico t0 t1 := ⟨lt_of_le_of_lt (mul_nonneg hs0 (hRpos z hz).le) hq1'.1, hq2'⟩
  rw [pol_injOn ht m1 m2 e2]

theorem measurableSet_cyl_regionO {R : ℝ → ℝ} (hR : Measurable R) {a b s0 s1 t0 t1 : ℝ} (hRpos : ∀ z ∈ Ioo a b, 0 < R z)
    (hs0 : 0 ≤ s0) (ht : t1 ≤ t0 + 2 * π) : MeasurableSet (cyl '' regionO R a b s0 s1 t0 t1) :=
  (measurableSet_regionO hR a b s0 s1 t0 t1).image_of_continuousOn_injOn continuous_cyl.continuousOn
    (cyl_injOn_regionO hRpos hs0 ht)

/-- slices of the solid -/
theorem slice_cyl_regionO (R : ℝ → ℝ) (a b s0 s1 t0 t1 z : ℝ) :
    Prod.mk z ⁻¹' (cyl '' regionO R a b s0 s1 t0 t1) =
      if z ∈ Ioo a b then pol '' (Ioo (s0 * R z) (s1 * R z) ×ˢ Ico t0 t1) else ∅ := by
  ext p
  constructor
  · rintro ⟨⟨z', q⟩, ⟨hz, hq1, hq2⟩, e⟩
    simp only [cyl, Prod.mk.injEq] at e
    obtain ⟨rfl, rfl⟩ := e
    rw [if_pos hz]
    exact ⟨q, ⟨hq1, hq2⟩, rfl⟩
  · intro h
    by_cases hz : z ∈ Ioo a b
    · rw [if_pos hz] at h
      obtain ⟨q, ⟨hq1, hq2⟩, rfl⟩ := h
      exact ⟨(z, q), ⟨hz, hq1, hq2⟩, rfl⟩
    · rw [if_neg hz] at h; exact absurd h (notMem_empty _)

/-- **Core.**  A solid of revolution with radius profile `R` on the heights `(a, b)`; `F` is (a multiple of) the volume CDF along
    the height, `F' = c·R²`, and `G` its inverse.  The sampler `(d₁, d₂, d₃) ↦ (z, ρ cos θ, ρ sin θ)` with `z = G d₁`,
    `ρ = √d₂ · R z`, `θ = κ d₃` pushes Lebesgue measure on the box of draws to a constant multiple of Lebesgue measure on the solid. -/
theorem map_T3 {κ : ℝ} {F G R : ℝ → ℝ} {c a b α β s0 s1 h0 h1 : ℝ} (hκ : 0 < κ)
    (hG : Measurable G) (hR : Measurable R) (hc : 0 ≤ c)
    (hF : ∀ z ∈ Ioo a b, HasDerivAt F (c * R z ^ 2) z)
    (hRpos : ∀ z ∈ Ioo a b, 0 < R z)
    (hGF : ∀ z ∈ Ioo a b, G (F z) = z)
    (himg : F '' Ioo a b = Ioo α β)
    (hs0 : 0 ≤ s0) (hs1 : 0 ≤ s1) (hh : (h1 - h0) * κ ≤ 2 * π) :
    Measure.map (T3 κ G R) (volume.restrict (Ioo α β ×ˢ (Ioo (s0 ^ 2) (s1 ^ 2) ×ˢ Ico h0 h1))) =
      ENNReal.ofReal (2 * c / κ) • volume.restrict (cyl '' regionO R a b s0 s1 (h0 * κ) (h1 * κ)) := by
  set S : Set (ℝ × ℝ) := Ioo (s0 ^ 2) (s1 ^ 2) ×ˢ Ico h0 h1 with hSdef
  have hT := measurable_T3 κ hG hR
  have hSolid := measurableSet_cyl_regionO hR (s1 := s1) hRpos hs0 (arc_le hh)
  have hm : (0:ℝ) ≤ s0 ^ 2 := sq_nonneg _
  have hinj : InjOn F (Ioo a b) := fun x hx y hy h => by rw [← hGF x hx, ← hGF y hy, h]
  ext A hA
  rw [Measure.map_apply hT hA, Measure.smul_apply, Measure.restrict_apply hA, smul_eq_mul]
  -- left side: Tonelli, then the two changes of variables
  have hvol : (volume : Measure (ℝ × ℝ × ℝ)).restrict (Ioo α β ×ˢ S) = (volume.restrict (Ioo α β)).prod (volume.restrict S) := by
    rw [Measure.prod_restrict]; rfl
  rw [hvol, Measure.prod_apply (hT hA)]
  have hφ : ∀ d1, (volume.restrict S) (Prod.mk d1 ⁻¹' (T3 κ G R ⁻¹' A)) =
      (fun z => (volume.restrict S) (T2 κ (R z) ⁻¹' (Prod.mk z ⁻¹' A))) (G d1) := fun d1 => rfl
  simp_rw [hφ]
  rw [← himg, lintegral_image_eq_lintegral_abs_deriv_mul measurableSet_Ioo (fun z hz => (hF z hz).hasDerivWithinAt) hinj]
  -- right side: Tonelli
  have hvol' : (volume : Measure (ℝ × ℝ × ℝ)) = (volume : Measure ℝ).prod (volume : Measure (ℝ × ℝ)) := rfl
  rw [hvol', Measure.prod_apply (hA.inter hSolid)]
  have hslice : ∀ z, (volume : Measure (ℝ × ℝ)) (Prod.mk z ⁻¹' (A ∩ cyl '' regionO R a b s0 s1 (h0 * κ) (h1 * κ))) =
      (Ioo a b).indicator (fun z => volume ((Prod.mk z ⁻¹' A) ∩ T2 κ (R z) '' S)) z := by
    intro z
    rw [preimage_inter, slice_cyl_regionO]
    by_cases hz : z ∈ Ioo a b
    · rw [if_pos hz, indicator_of_mem hz, T2_image hκ (hRpos z hz) hs0 hs1]
    · rw [if_neg hz, indicator_of_notMem hz, inter_empty, measure_empty]
  simp_rw [hslice]
  rw [lintegral_indicator measurableSet_Ioo, ← lintegral_const_mul' _ _ ENNReal.ofReal_ne_top]
  apply setLIntegral_congr_fun measurableSet_Ioo
  intro z hz
  have hAz : MeasurableSet (Prod.mk z ⁻¹' A) := measurable_prodMk_left hA
  have hr := hRpos z hz
  simp only
  rw [hGF z hz, ← Measure.map_apply (measurable_T2 _ _) hAz, map_T2 hκ hr hm hh, Measure.smul_apply, Measure.restrict_apply hAz,
    smul_eq_mul, ← mul_assoc, abs_of_nonneg (by positivity), ← ENNReal.ofReal_mul (by positivity)]
  congr 2
  field_simp

end Revolution
