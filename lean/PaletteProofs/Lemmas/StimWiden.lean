/-
  C06 helper lemmas: the bit-level widening `Stim.f32ToF64` (`x as f64`, `f64::from(x)`) is EXACT on every `Float32`:
  finite ↦ finite with the same value (normal numbers by re-biasing the exponent field, subnormals by the exact product
  `m · 2^-149`), `±∞ ↦ ±∞`, NaN ↦ NaN.  Hence it preserves and reflects the IEEE order (`f32ToF64_le_iff`).
-/
import PaletteProofs.Ieee.OfBits32
import PaletteProofs.Ieee.F64Conv
import PaletteProofs.Ieee.Order
import PaletteModel.Stimulus

namespace C06
open Stim Float.Model Float.Model.UnpackedFloat Ieee

/-! ### the fields of the source pattern as natural numbers -/

theorem w_expField (b : UInt32) : ((b >>> 23) &&& 0xff).toNat = F32.fE b.toNat := by
  simp only [UInt32.toNat_and, UInt32.toNat_shiftRight, F32.fE, Nat.shiftRight_eq_div_pow]
  exact Nat.and_two_pow_sub_one_eq_mod _ 8

theorem w_manField (b : UInt32) : (b &&& 0x7fffff).toNat = F32.fM b.toNat := by
  simp only [UInt32.toNat_and, F32.fM]
  exact Nat.and_two_pow_sub_one_eq_mod _ 23

theorem fS_le_one (b : UInt32) : F32.fS b.toNat ≤ 1 := by
  have := b.toNat_lt
  unfold F32.fS
  have : b.toNat / 2^31 < 2 := by rw [Nat.div_lt_iff_lt_mul (by norm_num)]; omega
  omega

theorem w_signField (b : UInt32) : ((b >>> 31).toUInt64 <<< 63).toNat = F32.fS b.toNat * 2^63 := by
  have h := fS_le_one b
  simp only [UInt64.toNat_shiftLeft, UInt32.toNat_toUInt64, UInt32.toNat_shiftRight, Nat.shiftRight_eq_div_pow,
    Nat.shiftLeft_eq]
  unfold F32.fS at *
  have e1 : (31 : UInt32).toNat % 32 = 31 := rfl
  have e2 : (63 : UInt64).toNat % 64 = 63 := rfl
  rw [e1, e2]
  rw [Nat.mod_eq_of_lt]
  have : b.toNat / 2^31 * 2^63 ≤ 1 * 2^63 := Nat.mul_le_mul_right _ h
  omega

/-- sign, exponent, mantissa of a 64-bit pattern assembled from disjoint fields -/
theorem fields_of_sum {s E M : ℕ} (hs : s ≤ 1) (hE : E < 2^11) (hM : M < 2^52) :
    F64.fS (s * 2^63 + E * 2^52 + M) = s ∧ F64.fE (s * 2^63 + E * 2^52 + M) = E ∧ F64.fM (s * 2^63 + E * 2^52 + M) = M := by
  unfold F64.fS F64.fE F64.fM
  refine ⟨?_, ?_, ?_⟩
  · rw [Nat.div_eq_iff (by norm_num)]
    have : E * 2^52 + M < 2^63 := by
      have : E * 2^52 ≤ (2^11 - 1) * 2^52 := Nat.mul_le_mul_right _ (by omega)
      omega
    omega
  · have h1 : (s * 2^63 + E * 2^52 + M) / 2^52 = s * 2^11 + E := by
      rw [Nat.div_eq_iff (by norm_num)]; omega
    rw [h1]
    rcases Nat.le_one_iff_eq_zero_or_eq_one.mp hs with rfl | rfl <;> omega
  · have : s * 2^63 + E * 2^52 + M = M + 2^52 * (s * 2^11 + E) := by ring
    rw [this, Nat.add_mul_mod_self_left, Nat.mod_eq_of_lt hM]

theorem signOf_eq {n N : ℕ} (h : F64.fS N = F32.fS n) : F64.signOf N = F32.signOf n := by
  unfold F64.signOf F32.signOf; rw [h]

/-- `a ||| b = a + b` for `a` a multiple of `2^i` and `b < 2^i` -/
theorem or_eq_add {a b i : ℕ} (hb : b < 2^i) (ha : 2^i ∣ a) : a ||| b = a + b := by
  obtain ⟨c, rfl⟩ := ha
  rw [Nat.mul_comm, ← Nat.shiftLeft_eq, Nat.shiftLeft_add_eq_or_of_lt hb]

/-! ### the three arms -/

theorem f32ToF64_unfold (x : Float32) : f32ToF64 x =
    if ((x.toBits >>> 23) &&& 0xff) == 0xff then
      (if (x.toBits &&& 0x7fffff) == 0 then
        Float.ofBits (((x.toBits >>> 31).toUInt64 <<< 63) ||| (0x7ff0000000000000 : UInt64))
      else Float.ofBits (((x.toBits >>> 31).toUInt64 <<< 63) ||| (0x7ff8000000000000 : UInt64) |||
        ((x.toBits &&& 0x7fffff).toUInt64 <<< 29)))
    else if ((x.toBits >>> 23) &&& 0xff) == 0 then
      (if ((x.toBits >>> 31).toUInt64 <<< 63) == 0 then (x.toBits &&& 0x7fffff).toFloat * Float.ofBits 0x36a0000000000000
       else -((x.toBits &&& 0x7fffff).toFloat * Float.ofBits 0x36a0000000000000))
    else Float.ofBits (((x.toBits >>> 31).toUInt64 <<< 63) ||| ((((x.toBits >>> 23) &&& 0xff).toUInt64 + 896) <<< 52) |||
        ((x.toBits &&& 0x7fffff).toUInt64 <<< 29)) := rfl

theorem u32_beq_iff (a c : UInt32) : (a == c) = true ↔ a.toNat = c.toNat := by
  rw [beq_iff_eq]; exact UInt32.toNat_inj.symm

theorem u64_beq_iff (a c : UInt64) : (a == c) = true ↔ a.toNat = c.toNat := by
  rw [beq_iff_eq]; exact UInt64.toNat_inj.symm

theorem man_shift (b : UInt32) : ((b &&& 0x7fffff).toUInt64 <<< 29).toNat = F32.fM b.toNat * 2^29 := by
  have h := F32.fM_lt b.toNat
  simp only [UInt64.toNat_shiftLeft, UInt32.toNat_toUInt64, w_manField, Nat.shiftLeft_eq]
  have e2 : (29 : UInt64).toNat % 64 = 29 := rfl
  rw [e2, Nat.mod_eq_of_lt]
  have : F32.fM b.toNat * 2^29 < 2^23 * 2^29 := Nat.mul_lt_mul_of_pos_right h (by norm_num)
  omega

theorem exp_shift (b : UInt32) (h : F32.fE b.toNat < 255) :
    ((((b >>> 23) &&& 0xff).toUInt64 + 896) <<< 52).toNat = (F32.fE b.toNat + 896) * 2^52 := by
  simp only [UInt64.toNat_shiftLeft, UInt64.toNat_add, UInt32.toNat_toUInt64, w_expField, Nat.shiftLeft_eq]
  have e2 : (52 : UInt64).toNat % 64 = 52 := rfl
  have e3 : (896 : UInt64).toNat = 896 := rfl
  have h1 : F32.fE b.toNat + 896 < 2^64 := by omega
  have h2 : (F32.fE b.toNat + 896) * 2^52 < 2^64 := by
    calc (F32.fE b.toNat + 896) * 2^52 < 2^11 * 2^52 := Nat.mul_lt_mul_of_pos_right (by omega) (by norm_num)
      _ ≤ 2^64 := by norm_num
  rw [e2, e3, Nat.mod_eq_of_lt h1, Nat.mod_eq_of_lt h2]

theorem pat_inf (b : UInt32) : (((b >>> 31).toUInt64 <<< 63) ||| (0x7ff0000000000000 : UInt64)).toNat =
    F32.fS b.toNat * 2^63 + 2047 * 2^52 + 0 := by
  rw [UInt64.toNat_or, w_signField]
  rw [show (0x7ff0000000000000 : UInt64).toNat = 2047 * 2^52 from rfl]
  rw [or_eq_add (i := 63) (by norm_num) (Dvd.intro_left _ rfl), Nat.add_zero]

theorem pat_nan (b : UInt32) : ∃ Y, 0 < Y ∧ Y < 2^52 ∧
    (((b >>> 31).toUInt64 <<< 63) ||| (0x7ff8000000000000 : UInt64) ||| ((b &&& 0x7fffff).toUInt64 <<< 29)).toNat =
      F32.fS b.toNat * 2^63 + 2047 * 2^52 + Y := by
  have hMlt := F32.fM_lt b.toNat
  refine ⟨2^51 ||| (F32.fM b.toNat * 2^29), ?_, ?_, ?_⟩
  · exact lt_of_lt_of_le (by norm_num) Nat.left_le_or
  · apply Nat.or_lt_two_pow (by norm_num)
    have : F32.fM b.toNat * 2^29 < 2^23 * 2^29 := Nat.mul_lt_mul_of_pos_right hMlt (by norm_num)
    omega
  · rw [UInt64.toNat_or, UInt64.toNat_or, w_signField, man_shift]
    rw [show (0x7ff8000000000000 : UInt64).toNat = 2047 * 2^52 ||| 2^51 from by decide]
    rw [← Nat.or_assoc (F32.fS b.toNat * 2^63), Nat.or_assoc]
    have hY : 2^51 ||| (F32.fM b.toNat * 2^29) < 2^52 := by
      apply Nat.or_lt_two_pow (by norm_num)
      have : F32.fM b.toNat * 2^29 < 2^23 * 2^29 := Nat.mul_lt_mul_of_pos_right hMlt (by norm_num)
      omega
    rw [or_eq_add (i := 63) (by norm_num) (Dvd.intro_left _ rfl)]
    rw [or_eq_add (i := 52) hY (by omega)]

theorem pat_norm (b : UInt32) (h : F32.fE b.toNat < 255) :
    (((b >>> 31).toUInt64 <<< 63) ||| ((((b >>> 23) &&& 0xff).toUInt64 + 896) <<< 52) |||
        ((b &&& 0x7fffff).toUInt64 <<< 29)).toNat =
      F32.fS b.toNat * 2^63 + (F32.fE b.toNat + 896) * 2^52 + F32.fM b.toNat * 2^29 := by
  have hMlt := F32.fM_lt b.toNat
  rw [UInt64.toNat_or, UInt64.toNat_or, w_signField, man_shift, exp_shift b h]
  have h1 : (F32.fE b.toNat + 896) * 2^52 < 2^63 := by
    have : (F32.fE b.toNat + 896) * 2^52 < 2^11 * 2^52 := Nat.mul_lt_mul_of_pos_right (by omega) (by norm_num)
    omega
  have h2 : F32.fM b.toNat * 2^29 < 2^52 := by
    have : F32.fM b.toNat * 2^29 < 2^23 * 2^29 := Nat.mul_lt_mul_of_pos_right hMlt (by norm_num)
    omega
  rw [or_eq_add (i := 63) h1 (Dvd.intro_left _ rfl)]
  rw [or_eq_add (i := 52) h2 (by omega)]

/-- value of `2^-149` as a `Float` -/
theorem fin_twoM149 : F64.IsFin (Float.ofBits 0x36a0000000000000) := rfl
theorem v_twoM149 : F64.v (Float.ofBits 0x36a0000000000000) = 2^(-149 : ℤ) := by
  unfold F64.v
  rw [show F64.U (Float.ofBits 0x36a0000000000000) = .finite .positive 0x10000000000000 (-201) (by decide) from rfl]
  simp only [val, sgn, one_mul]
  rw [show ((0x10000000000000 : ℕ) : ℚ) = 2^(52 : ℤ) by norm_num, ← zpow_add₀ (by norm_num)]; norm_num

/-- the normal arm in fixed point: `(2^52 + M·2^29) · 2^(E+896−1) · 2^-1074 = (2^23 + M) · 2^(E−1) · 2^-149` -/
theorem norm_val (M : ℕ) {E : ℕ} (hE : 1 ≤ E) :
    (((2^52 + M * 2^29) * 2^(E + 896 - 1) : ℕ) : ℚ) * 2^(-1074 : ℤ) = (((2^23 + M) * 2^(E - 1) : ℕ) : ℚ) * 2^(-149 : ℤ) := by
  obtain ⟨j, rfl⟩ : ∃ j, E = j + 1 := ⟨E - 1, by omega⟩
  have e1 : j + 1 + 896 - 1 = j + 896 := by omega
  rw [e1, Nat.add_sub_cancel]
  simp only [Nat.cast_add, Nat.cast_pow, Nat.cast_ofNat, Nat.cast_mul]
  have h2 : (2 : ℚ)^(j + 896) * 2^(-1074 : ℤ) = 2^j * 2^(-178 : ℤ) := by
    rw [pow_add, mul_assoc]; congr 1
    rw [← zpow_natCast, ← zpow_add₀ (by norm_num)]; norm_num
  have h3 : (2 : ℚ)^(-149 : ℤ) = 2^(29 : ℤ) * 2^(-178 : ℤ) := by
    rw [← zpow_add₀ (by norm_num)]; norm_num
  calc ((2 : ℚ)^52 + (M : ℚ) * 2^29) * 2^(j + 896) * 2^(-1074 : ℤ)
      = ((2 : ℚ)^52 + (M : ℚ) * 2^29) * (2^(j + 896) * 2^(-1074 : ℤ)) := mul_assoc _ _ _
    _ = ((2 : ℚ)^52 + (M : ℚ) * 2^29) * (2^j * 2^(-178 : ℤ)) := by rw [h2]
    _ = ((2 : ℚ)^23 + (M : ℚ)) * 2^j * (2^(29 : ℤ) * 2^(-178 : ℤ)) := by
        rw [zpow_ofNat]; ring
    _ = _ := by rw [h3]

/-- the subnormal arm on variable floats: `m · 2^-149` is exact in binary64 -/
theorem sub_arm {a c : Float} {m : ℕ} (fa : F64.IsFin a) (fc : F64.IsFin c) (hva : F64.v a = m)
    (hvc : F64.v c = 2^(-149 : ℤ)) (hm : m < 2^23) :
    F64.IsFin (a * c) ∧ F64.v (a * c) = (m : ℚ) * 2^(-149 : ℤ) := by
  have hle : |F64.v a * F64.v c| ≤ ((1 : ℕ) : ℚ) := by
    rw [hva, hvc, abs_of_nonneg (by positivity)]
    have h1 : (m : ℚ) ≤ 2^(23 : ℤ) := by
      have : (m : ℚ) ≤ ((2^23 : ℕ) : ℚ) := by exact_mod_cast hm.le
      rw [zpow_ofNat]; exact_mod_cast this
    calc (m : ℚ) * 2^(-149 : ℤ) ≤ 2^(23 : ℤ) * 2^(-149 : ℤ) := mul_le_mul_of_nonneg_right h1 (by positivity)
      _ ≤ ((1 : ℕ) : ℚ) := by rw [← zpow_add₀ (by norm_num)]; norm_num
  obtain ⟨hf, hv⟩ := F64.mul_of_le fa fc (n := 1) (by norm_num) hle
  refine ⟨hf, ?_⟩
  rw [hv, hva, hvc]
  have := F64.R64_fix_scaled (n := (m : ℤ)) (t := -149)
    (by rw [abs_of_nonneg (by positivity)]; exact_mod_cast lt_trans hm (by norm_num)) (by norm_num)
  exact_mod_cast this

/-- value of a finite `Float32` from the fields of its pattern -/
theorem v32_fields {x : Float32} (hx : F32.IsFin x) :
    F32.v x = sgn (F32.signOf x.toBits.toNat) * ((F32.wOf x.toBits.toNat : ℚ) * 2^(-149 : ℤ)) := by
  have hE : F32.fE x.toBits.toNat ≠ 255 := by
    intro h
    unfold F32.IsFin at hx
    rw [F32.U_bits, if_pos h] at hx
    split at hx <;> simp [UnpackedFloat.isFinite] at hx
  unfold F32.v F32.wOf
  rw [F32.U_bits, if_neg hE]
  by_cases hE0 : F32.fE x.toBits.toNat = 0
  · rw [if_pos hE0, if_pos hE0]
    by_cases hM : F32.fM x.toBits.toNat = 0
    · rw [dif_pos hM, hM]; simp [val]
    · rw [dif_neg hM]; simp only [val]; ring
  · rw [if_neg hE0, if_neg hE0]
    simp only [val]
    push_cast
    have : (2 : ℚ)^((F32.fE x.toBits.toNat : ℤ) - 150) = 2^(F32.fE x.toBits.toNat - 1) * 2^(-149 : ℤ) := by
      rw [← zpow_natCast, ← zpow_add₀ (by norm_num)]; congr 1
      have : 1 ≤ F32.fE x.toBits.toNat := Nat.pos_of_ne_zero hE0
      omega
    rw [this]; ring

/-- **`Stim.f32ToF64` is exact** -/
theorem f32ToF64_spec (x : Float32) :
    (F32.IsFin x → F64.IsFin (f32ToF64 x) ∧ F64.v (f32ToF64 x) = F32.v x) ∧
    (F32.U x = .notANumber → F64.U (f32ToF64 x) = .notANumber) ∧
    (∀ s, F32.U x = .infinity s → F64.U (f32ToF64 x) = .infinity s) := by
  have hU := F32.U_bits x
  have hE := w_expField x.toBits
  have hM := w_manField x.toBits
  have hS := w_signField x.toBits
  have hs1 := fS_le_one x.toBits
  have hMlt := F32.fM_lt x.toBits.toNat
  have hElt := F32.fE_lt x.toBits.toNat
  rw [f32ToF64_unfold]
  by_cases c1 : F32.fE x.toBits.toNat = 255
  · -- infinity or NaN
    have hc1 : (((x.toBits >>> 23) &&& 0xff) == 0xff) = true := (u32_beq_iff _ _).mpr (by rw [hE, c1]; rfl)
    rw [if_pos hc1]
    rw [if_pos c1] at hU
    by_cases c2 : F32.fM x.toBits.toNat = 0
    · have hc2 : ((x.toBits &&& 0x7fffff) == 0) = true := (u32_beq_iff _ _).mpr (by rw [hM, c2]; rfl)
      rw [if_pos hc2]
      rw [if_pos c2] at hU
      obtain ⟨f1, f2, f3⟩ := fields_of_sum (s := F32.fS x.toBits.toNat) (E := 2047) (M := 0) hs1 (by norm_num) (by norm_num)
      have hpat := pat_inf x.toBits
      have hres : F64.U (Float.ofBits (((x.toBits >>> 31).toUInt64 <<< 63) ||| (0x7ff0000000000000 : UInt64))) =
          .infinity (F32.signOf x.toBits.toNat) := by
        rw [F64.U_ofBits_inf (by rw [hpat]; exact f2) (by rw [hpat]; exact f3), hpat, signOf_eq f1]
      refine ⟨fun hf => ?_, fun hnan => ?_, fun s hinf => ?_⟩
      · unfold F32.IsFin at hf; rw [hU] at hf; simp [UnpackedFloat.isFinite] at hf
      · rw [hU] at hnan; cases hnan
      · rw [hU] at hinf; rw [hres]; exact hinf
    · have hc2 : ¬ ((x.toBits &&& 0x7fffff) == 0) = true := fun h => c2 (by
        have := (u32_beq_iff _ _).mp h; rw [hM] at this; exact this)
      rw [if_neg hc2]
      rw [if_neg c2] at hU
      obtain ⟨Y, hY0, hY1, hpat⟩ := pat_nan x.toBits
      obtain ⟨f1, f2, f3⟩ := fields_of_sum (s := F32.fS x.toBits.toNat) (E := 2047) (M := Y) hs1 (by norm_num) hY1
      have hres : F64.U (Float.ofBits (((x.toBits >>> 31).toUInt64 <<< 63) ||| (0x7ff8000000000000 : UInt64) |||
          ((x.toBits &&& 0x7fffff).toUInt64 <<< 29))) = .notANumber :=
        F64.U_ofBits_nan (by rw [hpat]; exact f2) (by rw [hpat, f3]; omega)
      refine ⟨fun hf => ?_, fun _ => hres, fun s hinf => ?_⟩
      · unfold F32.IsFin at hf; rw [hU] at hf; simp [UnpackedFloat.isFinite] at hf
      · rw [hU] at hinf; cases hinf
  · have hc1 : ¬ (((x.toBits >>> 23) &&& 0xff) == 0xff) = true := fun h => c1 (by
      have := (u32_beq_iff _ _).mp h; rw [hE] at this; exact this)
    rw [if_neg hc1]
    have hfin : F32.IsFin x := by
      unfold F32.IsFin; rw [hU, if_neg c1]; split
      · split <;> rfl
      · rfl
    have hnn : F32.U x ≠ .notANumber := by
      intro h; unfold F32.IsFin at hfin; rw [h] at hfin; simp [UnpackedFloat.isFinite] at hfin
    have hni : ∀ s, F32.U x ≠ .infinity s := by
      intro s h; unfold F32.IsFin at hfin; rw [h] at hfin; simp [UnpackedFloat.isFinite] at hfin
    refine ⟨fun _ => ?_, fun h => absurd h hnn, fun s h => absurd h (hni s)⟩
    rw [v32_fields hfin]
    unfold F32.wOf
    by_cases c3 : F32.fE x.toBits.toNat = 0
    · -- zero or subnormal: the exact product m · 2^-149
      have hc3 : (((x.toBits >>> 23) &&& 0xff) == 0) = true := (u32_beq_iff _ _).mpr (by rw [hE, c3]; rfl)
      rw [if_pos hc3, if_pos c3]
      obtain ⟨hfm, hvm⟩ := F64.u32_toFloat (x.toBits &&& 0x7fffff)
      rw [hM] at hvm
      have hprod := sub_arm hfm fin_twoM149 hvm v_twoM149 hMlt
      by_cases cs : F32.fS x.toBits.toNat = 0
      · have hcs : (((x.toBits >>> 31).toUInt64 <<< 63) == 0) = true := (u64_beq_iff _ _).mpr (by rw [hS, cs]; rfl)
        rw [if_pos hcs]
        refine ⟨hprod.1, ?_⟩
        rw [hprod.2]; unfold F32.signOf; rw [if_pos cs]; simp [sgn]
      · have hcs : ¬ (((x.toBits >>> 31).toUInt64 <<< 63) == 0) = true := fun h => cs (by
          have := (u64_beq_iff _ _).mp h; rw [hS] at this
          have h0 : (0 : UInt64).toNat = 0 := rfl
          omega)
        rw [if_neg hcs]
        refine ⟨hprod.1.neg, ?_⟩
        rw [F64.v_neg, hprod.2]; unfold F32.signOf; rw [if_neg cs]; simp [sgn]
    · have hc3 : ¬ (((x.toBits >>> 23) &&& 0xff) == 0) = true := fun h => c3 (by
        have := (u32_beq_iff _ _).mp h; rw [hE] at this; exact this)
      rw [if_neg hc3, if_neg c3]
      have hlt : F32.fE x.toBits.toNat < 255 := by have := hElt; omega
      have hpat := pat_norm x.toBits hlt
      have hMs : F32.fM x.toBits.toNat * 2^29 < 2^52 := by
        have : F32.fM x.toBits.toNat * 2^29 < 2^23 * 2^29 := Nat.mul_lt_mul_of_pos_right hMlt (by norm_num)
        omega
      obtain ⟨f1, f2, f3⟩ := fields_of_sum (s := F32.fS x.toBits.toNat) (E := F32.fE x.toBits.toNat + 896)
        (M := F32.fM x.toBits.toNat * 2^29) hs1 (by omega) hMs
      obtain ⟨hf, hv⟩ := F64.ofBits_fin (a := ((x.toBits >>> 31).toUInt64 <<< 63) |||
        ((((x.toBits >>> 23) &&& 0xff).toUInt64 + 896) <<< 52) ||| ((x.toBits &&& 0x7fffff).toUInt64 <<< 29))
        (by rw [hpat, f2]; omega)
      refine ⟨hf, ?_⟩
      rw [hv, hpat, signOf_eq f1]
      unfold F64.wOf
      rw [f2, f3, if_neg (by omega), norm_val _ (Nat.pos_of_ne_zero c3)]

/-! ### consequences: order -/

theorem f32ToF64_isNaN (x : Float32) : (f32ToF64 x).isNaN = x.isNaN := by
  obtain ⟨h1, h2, h3⟩ := f32ToF64_spec x
  cases hn : x.isNaN
  · rcases F32.cases_of_not_nan hn with hx | hx | hx
    · exact F64.not_nan_of_inf (h3 _ hx)
    · exact (h1 hx).1.not_nan
    · exact F64.not_nan_of_inf (h3 _ hx)
  · exact F64.nan_of_U (h2 (F32.U_nan_of_isNaN hn))

/-- the widening preserves `≤` (every pair of bit patterns) -/
theorem f32ToF64_le {x y : Float32} (h : x ≤ y) : f32ToF64 x ≤ f32ToF64 y := by
  obtain ⟨x1, _, x3⟩ := f32ToF64_spec x
  obtain ⟨y1, _, y3⟩ := f32ToF64_spec y
  obtain ⟨nx, ny⟩ := F32.not_nan_of_le h
  have nx' : (f32ToF64 x).isNaN = false := by rw [f32ToF64_isNaN]; exact nx
  have ny' : (f32ToF64 y).isNaN = false := by rw [f32ToF64_isNaN]; exact ny
  rcases F32.cases_of_not_nan nx with hx | hx | hx
  · exact F64.negInf_le (x3 _ hx) ny'
  · rcases F32.cases_of_not_nan ny with hy | hy | hy
    · exact absurd h (F32.not_le_negInf hx hy)
    · obtain ⟨fx, vx⟩ := x1 hx
      obtain ⟨fy, vy⟩ := y1 hy
      rw [F64.le_iff fx fy, vx, vy]; exact (F32.le_iff hx hy).mp h
    · exact F64.le_posInf (y3 _ hy) nx'
  · rcases F32.cases_of_not_nan ny with hy | hy | hy
    · exact absurd h (F32.not_posInf_le_negInf hx hy)
    · exact absurd h (F32.not_posInf_le hy hx)
    · exact F64.le_posInf (y3 _ hy) nx'

/-- … and reflects it -/
theorem f32ToF64_le_iff (x y : Float32) : f32ToF64 x ≤ f32ToF64 y ↔ x ≤ y := by
  refine ⟨fun h => ?_, f32ToF64_le⟩
  obtain ⟨x1, _, x3⟩ := f32ToF64_spec x
  obtain ⟨y1, _, y3⟩ := f32ToF64_spec y
  obtain ⟨nx', ny'⟩ := F64.not_nan_of_le h
  have nx : x.isNaN = false := by rw [← f32ToF64_isNaN]; exact nx'
  have ny : y.isNaN = false := by rw [← f32ToF64_isNaN]; exact ny'
  rcases F32.cases_of_not_nan nx with hx | hx | hx
  · exact F32.negInf_le hx ny
  · rcases F32.cases_of_not_nan ny with hy | hy | hy
    · exact absurd h (F64.not_le_negInf (x1 hx).1 (y3 _ hy))
    · obtain ⟨fx, vx⟩ := x1 hx
      obtain ⟨fy, vy⟩ := y1 hy
      rw [F32.le_iff hx hy, ← vx, ← vy]; exact (F64.le_iff fx fy).mp h
    · exact F32.le_posInf hy nx
  · rcases F32.cases_of_not_nan ny with hy | hy | hy
    · exact absurd h (F64.not_posInf_le_negInf (x3 _ hx) (y3 _ hy))
    · exact absurd h (F64.not_posInf_le (y1 hy).1 (x3 _ hx))
    · exact F32.le_posInf hy nx

end C06
