/-
  Values of the extracted CAM16 constants at ℝ, one `rfl` lemma each: `T::from_f64(c)` reads as the exact decimal `c`.
  The right-hand sides are what the theorems of `C16_Cam16.lean` were proved for; if a constant changes in palette's source, the
  regenerated `Gen/Cam16.lean` no longer matches and the lemma (hence every theorem using it) stops checking.
-/
import PaletteProofs.Real
import PaletteModel.Color.Cam16

namespace C16.K

@[simp] theorem xyzToCam16_0 : (Scalar.const Gen.Cam16.xyzToCam16_0 : ℝ) = (100.0 : ℝ) := rfl
@[simp] theorem xyzToCam16_1 : (Scalar.const Gen.Cam16.xyzToCam16_1 : ℝ) = -(12.0 : ℝ) := rfl
@[simp] theorem xyzToCam16_2 : (Scalar.const Gen.Cam16.xyzToCam16_2 : ℝ) = (11.0 : ℝ) := rfl
@[simp] theorem xyzToCam16_3 : (Scalar.const Gen.Cam16.xyzToCam16_3 : ℝ) = (2.0 : ℝ) := rfl
@[simp] theorem xyzToCam16_4 : (Scalar.const Gen.Cam16.xyzToCam16_4 : ℝ) = (9.0 : ℝ) := rfl
@[simp] theorem xyzToCam16_5 : (Scalar.const Gen.Cam16.xyzToCam16_5 : ℝ) = (0.25 : ℝ) := rfl
@[simp] theorem xyzToCam16_6 : (Scalar.const Gen.Cam16.xyzToCam16_6 : ℝ) = (2.0 : ℝ) := rfl
@[simp] theorem xyzToCam16_7 : (Scalar.const Gen.Cam16.xyzToCam16_7 : ℝ) = (3.8 : ℝ) := rfl
@[simp] theorem xyzToCam16_8 : (Scalar.const Gen.Cam16.xyzToCam16_8 : ℝ) = (2.0 : ℝ) := rfl
@[simp] theorem xyzToCam16_9 : (Scalar.const Gen.Cam16.xyzToCam16_9 : ℝ) = (0.05 : ℝ) := rfl
@[simp] theorem xyzToCam16_10 : (Scalar.const Gen.Cam16.xyzToCam16_10 : ℝ) = (0.5 : ℝ) := rfl
@[simp] theorem xyzToCam16_11 : (Scalar.const Gen.Cam16.xyzToCam16_11 : ℝ) = (5e4 : ℝ) := rfl
@[simp] theorem xyzToCam16_12 : (Scalar.const Gen.Cam16.xyzToCam16_12 : ℝ) = (13.0 : ℝ) := rfl
@[simp] theorem xyzToCam16_13 : (Scalar.const Gen.Cam16.xyzToCam16_13 : ℝ) = (1.05 : ℝ) := rfl
@[simp] theorem xyzToCam16_14 : (Scalar.const Gen.Cam16.xyzToCam16_14 : ℝ) = (0.305 : ℝ) := rfl
@[simp] theorem xyzToCam16_15 : (Scalar.const Gen.Cam16.xyzToCam16_15 : ℝ) = (0.9 : ℝ) := rfl
@[simp] theorem xyzToCam16_16 : (Scalar.const Gen.Cam16.xyzToCam16_16 : ℝ) = (1.64 : ℝ) := rfl
@[simp] theorem xyzToCam16_17 : (Scalar.const Gen.Cam16.xyzToCam16_17 : ℝ) = (0.29 : ℝ) := rfl
@[simp] theorem xyzToCam16_18 : (Scalar.const Gen.Cam16.xyzToCam16_18 : ℝ) = (0.73 : ℝ) := rfl
@[simp] theorem calcLightness_0 : (Scalar.const Gen.Cam16.calcLightness_0 : ℝ) = (100.0 : ℝ) := rfl
@[simp] theorem calcBrightness_0 : (Scalar.const Gen.Cam16.calcBrightness_0 : ℝ) = (4.0 : ℝ) := rfl
@[simp] theorem calcBrightness_1 : (Scalar.const Gen.Cam16.calcBrightness_1 : ℝ) = (4.0 : ℝ) := rfl
@[simp] theorem calcSaturation_0 : (Scalar.const Gen.Cam16.calcSaturation_0 : ℝ) = (50.0 : ℝ) := rfl
@[simp] theorem calcSaturation_1 : (Scalar.const Gen.Cam16.calcSaturation_1 : ℝ) = (4.0 : ℝ) := rfl
@[simp] theorem nonBlack_0 : (Scalar.const Gen.Cam16.nonBlack_0 : ℝ) = (1.64 : ℝ) := rfl
@[simp] theorem nonBlack_1 : (Scalar.const Gen.Cam16.nonBlack_1 : ℝ) = (0.29 : ℝ) := rfl
@[simp] theorem nonBlack_2 : (Scalar.const Gen.Cam16.nonBlack_2 : ℝ) = -(0.73 : ℝ) := rfl
@[simp] theorem nonBlack_3 : (Scalar.const Gen.Cam16.nonBlack_3 : ℝ) = (10.0 : ℝ) := rfl
@[simp] theorem nonBlack_4 : (Scalar.const Gen.Cam16.nonBlack_4 : ℝ) = (9.0 : ℝ) := rfl
@[simp] theorem nonBlack_5 : (Scalar.const Gen.Cam16.nonBlack_5 : ℝ) = (0.25 : ℝ) := rfl
@[simp] theorem nonBlack_6 : (Scalar.const Gen.Cam16.nonBlack_6 : ℝ) = (2.0 : ℝ) := rfl
@[simp] theorem nonBlack_7 : (Scalar.const Gen.Cam16.nonBlack_7 : ℝ) = (3.8 : ℝ) := rfl
@[simp] theorem nonBlack_8 : (Scalar.const Gen.Cam16.nonBlack_8 : ℝ) = (2.0 : ℝ) := rfl
@[simp] theorem nonBlack_9 : (Scalar.const Gen.Cam16.nonBlack_9 : ℝ) = (5e4 : ℝ) := rfl
@[simp] theorem nonBlack_10 : (Scalar.const Gen.Cam16.nonBlack_10 : ℝ) = (13.0 : ℝ) := rfl
@[simp] theorem nonBlack_11 : (Scalar.const Gen.Cam16.nonBlack_11 : ℝ) = (23.0 : ℝ) := rfl
@[simp] theorem nonBlack_12 : (Scalar.const Gen.Cam16.nonBlack_12 : ℝ) = (0.305 : ℝ) := rfl
@[simp] theorem nonBlack_13 : (Scalar.const Gen.Cam16.nonBlack_13 : ℝ) = (23.0 : ℝ) := rfl
@[simp] theorem nonBlack_14 : (Scalar.const Gen.Cam16.nonBlack_14 : ℝ) = (11.0 : ℝ) := rfl
@[simp] theorem nonBlack_15 : (Scalar.const Gen.Cam16.nonBlack_15 : ℝ) = (108.0 : ℝ) := rfl
@[simp] theorem nonBlack_16 : (Scalar.const Gen.Cam16.nonBlack_16 : ℝ) = (1403.0 : ℝ) := rfl
@[simp] theorem nonBlack_17 : (Scalar.const Gen.Cam16.nonBlack_17 : ℝ) = (460.0 : ℝ) := rfl
@[simp] theorem nonBlack_18 : (Scalar.const Gen.Cam16.nonBlack_18 : ℝ) = (451.0 : ℝ) := rfl
@[simp] theorem nonBlack_19 : (Scalar.const Gen.Cam16.nonBlack_19 : ℝ) = (288.0 : ℝ) := rfl
@[simp] theorem nonBlack_20 : (Scalar.const Gen.Cam16.nonBlack_20 : ℝ) = (460.0 : ℝ) := rfl
@[simp] theorem nonBlack_21 : (Scalar.const Gen.Cam16.nonBlack_21 : ℝ) = (891.0 : ℝ) := rfl
@[simp] theorem nonBlack_22 : (Scalar.const Gen.Cam16.nonBlack_22 : ℝ) = (261.0 : ℝ) := rfl
@[simp] theorem nonBlack_23 : (Scalar.const Gen.Cam16.nonBlack_23 : ℝ) = (460.0 : ℝ) := rfl
@[simp] theorem nonBlack_24 : (Scalar.const Gen.Cam16.nonBlack_24 : ℝ) = (220.0 : ℝ) := rfl
@[simp] theorem nonBlack_25 : (Scalar.const Gen.Cam16.nonBlack_25 : ℝ) = (6300.0 : ℝ) := rfl
@[simp] theorem nonBlack_26 : (Scalar.const Gen.Cam16.nonBlack_26 : ℝ) = (100.0 : ℝ) := rfl
@[simp] theorem prepare_0 : (Scalar.const Gen.Cam16.prepare_0 : ℝ) = (100.0 : ℝ) := rfl
@[simp] theorem prepare_1 : (Scalar.const Gen.Cam16.prepare_1 : ℝ) = (100.0 : ℝ) := rfl
@[simp] theorem prepare_2 : (Scalar.const Gen.Cam16.prepare_2 : ℝ) = (0.1 : ℝ) := rfl
@[simp] theorem prepare_3 : (Scalar.const Gen.Cam16.prepare_3 : ℝ) = (0.59 : ℝ) := rfl
@[simp] theorem prepare_4 : (Scalar.const Gen.Cam16.prepare_4 : ℝ) = (0.69 : ℝ) := rfl
@[simp] theorem prepare_5 : (Scalar.const Gen.Cam16.prepare_5 : ℝ) = (0.525 : ℝ) := rfl
@[simp] theorem prepare_6 : (Scalar.const Gen.Cam16.prepare_6 : ℝ) = (0.59 : ℝ) := rfl
@[simp] theorem prepare_7 : (Scalar.const Gen.Cam16.prepare_7 : ℝ) = (0.59 : ℝ) := rfl
@[simp] theorem prepare_8 : (Scalar.const Gen.Cam16.prepare_8 : ℝ) = (0.9 : ℝ) := rfl
@[simp] theorem prepare_9 : (Scalar.const Gen.Cam16.prepare_9 : ℝ) = (0.59 : ℝ) := rfl
@[simp] theorem prepare_10 : (Scalar.const Gen.Cam16.prepare_10 : ℝ) = (0.1 : ℝ) := rfl
@[simp] theorem prepare_11 : (Scalar.const Gen.Cam16.prepare_11 : ℝ) = (0.8 : ℝ) := rfl
@[simp] theorem prepare_12 : (Scalar.const Gen.Cam16.prepare_12 : ℝ) = (0.9 : ℝ) := rfl
@[simp] theorem prepare_13 : (Scalar.const Gen.Cam16.prepare_13 : ℝ) = (0.525 : ℝ) := rfl
@[simp] theorem prepare_14 : (Scalar.const Gen.Cam16.prepare_14 : ℝ) = (0.065 : ℝ) := rfl
@[simp] theorem prepare_15 : (Scalar.const Gen.Cam16.prepare_15 : ℝ) = (5.0 : ℝ) := rfl
@[simp] theorem prepare_16 : (Scalar.const Gen.Cam16.prepare_16 : ℝ) = (3.0 : ℝ) := rfl
@[simp] theorem prepare_17 : (Scalar.const Gen.Cam16.prepare_17 : ℝ) = (0.1 : ℝ) := rfl
@[simp] theorem prepare_18 : (Scalar.const Gen.Cam16.prepare_18 : ℝ) = (5.0 : ℝ) := rfl
@[simp] theorem prepare_19 : (Scalar.const Gen.Cam16.prepare_19 : ℝ) = (0.25 : ℝ) := rfl
@[simp] theorem prepare_20 : (Scalar.const Gen.Cam16.prepare_20 : ℝ) = (1.48 : ℝ) := rfl
@[simp] theorem prepare_21 : (Scalar.const Gen.Cam16.prepare_21 : ℝ) = (0.725 : ℝ) := rfl
@[simp] theorem prepare_22 : (Scalar.const Gen.Cam16.prepare_22 : ℝ) = -(0.2 : ℝ) := rfl
@[simp] theorem prepare_23 : (Scalar.const Gen.Cam16.prepare_23 : ℝ) = (3.6 : ℝ) := rfl
@[simp] theorem prepare_24 : (Scalar.const Gen.Cam16.prepare_24 : ℝ) = (42.0 : ℝ) := rfl
@[simp] theorem prepare_25 : (Scalar.const Gen.Cam16.prepare_25 : ℝ) = (92.0 : ℝ) := rfl
@[simp] theorem prepare_26 : (Scalar.const Gen.Cam16.prepare_26 : ℝ) = (0.42 : ℝ) := rfl
@[simp] theorem prepare_27 : (Scalar.const Gen.Cam16.prepare_27 : ℝ) = (100.0 : ℝ) := rfl
@[simp] theorem prepare_28 : (Scalar.const Gen.Cam16.prepare_28 : ℝ) = (27.13 : ℝ) := rfl
@[simp] theorem prepare_29 : (Scalar.const Gen.Cam16.prepare_29 : ℝ) = (2.0 : ℝ) := rfl
@[simp] theorem prepare_30 : (Scalar.const Gen.Cam16.prepare_30 : ℝ) = (0.05 : ℝ) := rfl
@[simp] theorem lightnessToJRoot_0 : (Scalar.const Gen.Cam16.lightnessToJRoot_0 : ℝ) = (0.1 : ℝ) := rfl
@[simp] theorem brightnessToJRoot_0 : (Scalar.const Gen.Cam16.brightnessToJRoot_0 : ℝ) = (0.25 : ℝ) := rfl
@[simp] theorem brightnessToJRoot_1 : (Scalar.const Gen.Cam16.brightnessToJRoot_1 : ℝ) = (4.0 : ℝ) := rfl
@[simp] theorem saturationToAlpha_0 : (Scalar.const Gen.Cam16.saturationToAlpha_0 : ℝ) = (0.0004 : ℝ) := rfl
@[simp] theorem saturationToAlpha_1 : (Scalar.const Gen.Cam16.saturationToAlpha_1 : ℝ) = (4.0 : ℝ) := rfl
@[simp] theorem adapt_0 : (Scalar.const Gen.Cam16.adapt_0 : ℝ) = (0.01 : ℝ) := rfl
@[simp] theorem adapt_1 : (Scalar.const Gen.Cam16.adapt_1 : ℝ) = (0.42 : ℝ) := rfl
@[simp] theorem adapt_2 : (Scalar.const Gen.Cam16.adapt_2 : ℝ) = (400.0 : ℝ) := rfl
@[simp] theorem adapt_3 : (Scalar.const Gen.Cam16.adapt_3 : ℝ) = (27.13 : ℝ) := rfl
@[simp] theorem unadapt_0 : (Scalar.const Gen.Cam16.unadapt_0 : ℝ) = (400.0 : ℝ) := rfl
@[simp] theorem surround_0 : (Scalar.const Gen.Cam16.surround_0 : ℝ) = (0.0 : ℝ) := rfl
@[simp] theorem surround_1 : (Scalar.const Gen.Cam16.surround_1 : ℝ) = (10.0 : ℝ) := rfl
@[simp] theorem surround_2 : (Scalar.const Gen.Cam16.surround_2 : ℝ) = (20.0 : ℝ) := rfl
@[simp] theorem surround_3 : (Scalar.const Gen.Cam16.surround_3 : ℝ) = (0.0 : ℝ) := rfl
@[simp] theorem surround_4 : (Scalar.const Gen.Cam16.surround_4 : ℝ) = (20.0 : ℝ) := rfl
@[simp] theorem jmhToUcs_0 : (Scalar.const Gen.Cam16.jmhToUcs_0 : ℝ) = (0.0228 : ℝ) := rfl
@[simp] theorem jmhToUcs_1 : (Scalar.const Gen.Cam16.jmhToUcs_1 : ℝ) = (0.0228 : ℝ) := rfl
@[simp] theorem jmhToUcs_2 : (Scalar.const Gen.Cam16.jmhToUcs_2 : ℝ) = (1.7 : ℝ) := rfl
@[simp] theorem jmhToUcs_3 : (Scalar.const Gen.Cam16.jmhToUcs_3 : ℝ) = (0.007 : ℝ) := rfl
@[simp] theorem ucsToJmh_0 : (Scalar.const Gen.Cam16.ucsToJmh_0 : ℝ) = (0.0228 : ℝ) := rfl
@[simp] theorem ucsToJmh_1 : (Scalar.const Gen.Cam16.ucsToJmh_1 : ℝ) = (0.0228 : ℝ) := rfl
@[simp] theorem ucsToJmh_2 : (Scalar.const Gen.Cam16.ucsToJmh_2 : ℝ) = (1.7 : ℝ) := rfl
@[simp] theorem ucsToJmh_3 : (Scalar.const Gen.Cam16.ucsToJmh_3 : ℝ) = (0.007 : ℝ) := rfl

end C16.K
