/-
  C11 helper lemmas: the bit-level `Hue.Bits.floor64` / `ceil64` compute the exact floor / ceiling of the value of every
  finite `Float` (IEEE reasoning layer `PaletteProofs/Ieee`).
-/
import PaletteProofs.Ieee.F64Ops
import PaletteModel.Hue
import Mathlib.Algebra.Order.Floor.Ring

namespace C11
open Hue.Bits Float.Model Float.Model.UnpackedFloat Ieee Ieee.F64

def zero64 : Float := Float.ofBits 0
def one64 : Float := Float.ofBits 0x3ff0000000000000
def two52 : Float := Float.ofBits 0x4330000000000000

theorem fin_zero64 : IsFin zero64 := rfl
theorem v_zero64 : v zero64 = 0 := rfl
theorem fin_one64 : IsFin one64 := rfl
theorem v_one64 : v one64 = 1 := by
  unfold v; rw [show U one64 = .finite .positive 0x10000000000000 (-52) (by decide) from rfl]; norm_num [val, sgn]
theorem fin_two52 : IsFin two52 := rfl
theorem v_two52 : v two52 = 2^52 := by
  unfold v; rw [show U two52 = .finite .positive 0x10000000000000 0 (by decide) from rfl]; norm_num [val, sgn]

/-- finite floats of magnitude at least `2^52` are integers -/
theorem int_of_large64 {x : Float} (hx : IsFin x) (h : 2^52 ≤ |v x|) : ∃ n : ℤ, v x = n := by
  unfold v IsFin at *
  have hc := canon_U x
  cases hu : U x <;> rw [hu] at hx h hc <;> simp only [UnpackedFloat.isFinite, Bool.false_eq_true] at hx
  · exact ⟨0, by simp [val]⟩
  · rename_i s m e hm
    have hcm : CanonME spec m e := hc
    have he : 0 ≤ e := by
      by_contra hneg
      have hlt : (m : ℚ) < 2^53 := by exact_mod_cast hcm.lt
      have h2 : (2 : ℚ)^e ≤ 2^(-1 : ℤ) := zpow_le_zpow_right₀ (by norm_num) (by omega)
      have hmag : mag m e < 2^52 := by
        unfold mag
        calc (m : ℚ) * 2^e < 2^53 * 2^e := mul_lt_mul_of_pos_right hlt (two_zpow_pos e)
          _ ≤ 2^53 * 2^(-1 : ℤ) := mul_le_mul_of_nonneg_left h2 (by norm_num)
          _ = 2^52 := by norm_num
      have hpos := mag_pos hm e
      cases s
      · rw [val_neg_eq, abs_neg, abs_of_pos hpos] at h; linarith
      · rw [val_pos_eq, abs_of_pos hpos] at h; linarith
    obtain ⟨k, hk⟩ : ∃ k : ℕ, (k : ℤ) = e := ⟨e.toNat, by omega⟩
    cases s
    · exact ⟨-(m * 2^k : ℕ), by rw [val_neg_eq]; unfold mag; rw [← hk, zpow_natCast]; push_cast; ring⟩
    · exact ⟨(m * 2^k : ℕ), by rw [val_pos_eq]; unfold mag; rw [← hk, zpow_natCast]; push_cast; ring⟩

theorem floor64_eq (x : Float) : floor64 x =
    if x.isNaN then x else
    if two52 ≤ Float.abs x then x else
    if zero64 < x then x.toUInt64.toFloat else
    if x < zero64 then
      (if (-x).toUInt64.toFloat < -x then -((-x).toUInt64.toFloat + one64) else x)
    else x := rfl

/-- **`floor64` is the exact floor** on every finite `Float` -/
theorem floor64_spec {x : Float} (hx : IsFin x) : IsFin (floor64 x) ∧ v (floor64 x) = ⌊v x⌋ := by
  rw [floor64_eq, hx.not_nan]
  simp only [Bool.false_eq_true, if_false]
  by_cases hbig : two52 ≤ Float.abs x
  · rw [if_pos hbig]
    refine ⟨hx, ?_⟩
    have : 2^52 ≤ |v x| := by
      have := (le_iff fin_two52 hx.abs).mp hbig
      rwa [v_two52, v_abs] at this
    obtain ⟨n, hn⟩ := int_of_large64 hx this
    rw [hn, Int.floor_intCast]
  · rw [if_neg hbig]
    have hlt : |v x| < 2^52 := by
      have := mt (le_iff fin_two52 hx.abs).mpr hbig
      rwa [v_two52, v_abs, not_le] at this
    obtain ⟨hlo, hhi⟩ := abs_lt.mp hlt
    by_cases hpos : zero64 < x
    · rw [if_pos hpos]
      have h0 : 0 < v x := by have := (lt_iff fin_zero64 hx).mp hpos; rwa [v_zero64] at this
      have hcast := toUInt64_eq hx h0.le (by linarith [show (2 : ℚ)^52 < 2^64 by norm_num])
      have hfl : ⌊v x⌋ < 2^52 := by rw [Int.floor_lt]; exact_mod_cast hhi
      have hfl0 : 0 ≤ ⌊v x⌋ := Int.floor_nonneg.mpr h0.le
      obtain ⟨hf, hv⟩ := toFloat_small x.toUInt64 (by omega)
      refine ⟨hf, ?_⟩
      rw [hv, ← hcast]; simp
    · rw [if_neg hpos]
      have hle0 : v x ≤ 0 := by
        have := mt (lt_iff fin_zero64 hx).mpr hpos; rwa [v_zero64, not_lt] at this
      by_cases hneg : x < zero64
      · rw [if_pos hneg]
        have h0 : v x < 0 := by have := (lt_iff hx fin_zero64).mp hneg; rwa [v_zero64] at this
        have hva : v (-x) = - v x := v_neg x
        have hfa : IsFin (-x) := hx.neg
        have hcast := toUInt64_eq hfa (by rw [hva]; linarith) (by rw [hva]; linarith [show (2 : ℚ)^52 < 2^64 by norm_num])
        have hfl : ⌊v (-x)⌋ < 2^52 := by rw [Int.floor_lt, hva]; push_cast; linarith
        have hfl0 : 0 ≤ ⌊v (-x)⌋ := Int.floor_nonneg.mpr (by rw [hva]; linarith)
        obtain ⟨hft, hvt⟩ := toFloat_small (-x).toUInt64 (by omega)
        have hvt' : v ((-x).toUInt64.toFloat) = ⌊- v x⌋ := by
          rw [hvt, ← hva, ← hcast]; simp
        by_cases hta : (-x).toUInt64.toFloat < -x
        · rw [if_pos hta]
          have hlt' : (⌊- v x⌋ : ℚ) < - v x := by
            have := (lt_iff hft hfa).mp hta; rwa [hvt', hva] at this
          have hnn : (0 : ℚ) ≤ ⌊-v x⌋ := by rw [← hva]; exact_mod_cast hfl0
          have hsum : |v ((-x).toUInt64.toFloat) + v one64| ≤ ((2^52 : ℕ) : ℚ) := by
            rw [hvt', v_one64, abs_of_nonneg (by linarith)]
            have : ((⌊- v x⌋ + 1 : ℤ) : ℚ) ≤ ((2^52 : ℤ) : ℚ) := by
              rw [← hva]; exact_mod_cast (by omega : ⌊v (-x)⌋ + 1 ≤ 2^52)
            push_cast at this ⊢; linarith
          obtain ⟨hfs, hvs⟩ := add_of_le hft fin_one64 (by norm_num) hsum
          refine ⟨hfs.neg, ?_⟩
          rw [v_neg, hvs, hvt', v_one64]
          have hint : R64 ((⌊- v x⌋ : ℚ) + 1) = ((⌊- v x⌋ + 1 : ℤ) : ℚ) := by
            rw [show (⌊- v x⌋ : ℚ) + 1 = ((⌊- v x⌋ + 1 : ℤ) : ℚ) by push_cast; rfl]
            apply R64_intCast
            rw [← hva, abs_of_nonneg (by omega)]; omega
          rw [hint]
          -- ⌊v x⌋ = -(⌊-v x⌋ + 1) for non-integer v x
          have : ⌊v x⌋ = -(⌊- v x⌋ + 1) := by
            rw [Int.floor_eq_iff]
            have h1 := Int.lt_floor_add_one (- v x)
            push_cast
            constructor <;> linarith
          rw [this]; push_cast; ring
        · rw [if_neg hta]
          refine ⟨hx, ?_⟩
          have hge : - v x ≤ (⌊- v x⌋ : ℚ) := by
            have := mt (lt_iff hft hfa).mpr hta; rwa [hvt', hva, not_lt] at this
          have heq : (⌊- v x⌋ : ℚ) = - v x := le_antisymm (Int.floor_le _) hge
          have : v x = ((-⌊- v x⌋ : ℤ) : ℚ) := by push_cast; linarith
          rw [this, Int.floor_intCast]
      · rw [if_neg hneg]
        have hge0 : 0 ≤ v x := by
          have := mt (lt_iff hx fin_zero64).mpr hneg; rwa [v_zero64, not_lt] at this
        have : v x = 0 := le_antisymm hle0 hge0
        exact ⟨hx, by rw [this]; simp⟩

/-- **`ceil64` is the exact ceiling** on every finite `Float` -/
theorem ceil64_spec {x : Float} (hx : IsFin x) : IsFin (ceil64 x) ∧ v (ceil64 x) = ⌈v x⌉ := by
  unfold ceil64
  obtain ⟨hf, hv⟩ := floor64_spec hx.neg
  refine ⟨hf.neg, ?_⟩
  rw [v_neg, hv, v_neg, Int.floor_neg]; push_cast; ring

end C11
