/-
  Helper definitions for the decided facts about the RGB tables of `Gen/Matrices.lean`: everything is evaluated over `Rat`
  by the kernel (`decide +kernel`), and `K.eval_cast` carries a rational value of a constant expression to its real reading.
-/
import PaletteProofs.Real
import PaletteModel.Color.RgbFamily
import PaletteSpec.Rgb

namespace RgbTables
open MatArith

/-- `K.toRat`: a constant expression read over `Rat` -/
def K.toRat (k : K) : Rat := K.eval k

def absQ (x : Rat) : Rat := if x < 0 then -x else x

/-- two lists of the same length `n` agree entrywise within `eps` -/
def nearList (n : Nat) (a b : List Rat) (eps : Rat) : Bool :=
  a.length == n && b.length == n && (List.zipWith (fun x y => decide (absQ (x - y) ≤ eps)) a b).all id

def v3? : List Rat → Option (V3 Rat)
  | [a, b, c] => some ⟨a, b, c⟩
  | _ => none

abbrev SpaceRow := String × String × List K × List K × List (List K)

def whiteQ (sp : SpaceRow) : Option (V3 Rat) :=
  (Gen.Mat.whitePoints.find? (·.1 == sp.2.1)).bind (fun w => v3? (ofK w.2))

/-- `matrix::rgb_to_xyz_matrix` evaluated over `Rat` on the generated primaries and white point -/
def derivedQ (sp : SpaceRow) : Option (M3 Rat) :=
  match sp.2.2.2.2.map (fun p => v3? (ofK p)), whiteQ sp with
  | [some r, some g, some b], some w => some (rgbToXyzMatrix r g b w)
  | _, _ => none

/-- the published row of a generated space -/
def published (sp : SpaceRow) : Option Spec.Rgb.Space := Spec.Rgb.spaces.find? (·.name == sp.1)

/-- `Gen` primaries (chromaticities) and white point are the published digits -/
def primariesPublished (sp : SpaceRow) : Bool :=
  match published sp, sp.2.2.2.2.map (fun p => (ofK p : List Rat)), whiteQ sp with
  | some s, [[xr, yr, _], [xg, yg, _], [xb, yb, _]], some w =>
    decide (s.r = (xr, yr)) && decide (s.g = (xg, yg)) && decide (s.b = (xb, yb)) && decide (s.white = (w.c0, w.c1, w.c2))
  | _, _, _ => false

/-- what the crate would derive is exactly Lindbloom's matrix of the published data -/
def derivedIsLindbloom (sp : SpaceRow) : Bool :=
  match published sp, derivedQ sp with
  | some s, some d => decide (toList d = Spec.Rgb.rgbToXyz s)
  | _, _ => false

/-- both hard-coded tables are within `eps` of the derived matrix / its inverse -/
def hardNearDerived (eps : Rat) (sp : SpaceRow) : Bool :=
  match derivedQ sp with
  | some d => nearList 9 (ofK sp.2.2.1) (toList d) eps && nearList 9 (ofK sp.2.2.2.1) (toList (inverse d)) eps
  | none => false

/-- and within `eps` of Lindbloom's matrix of the *published* data -/
def hardNearPublished (eps : Rat) (sp : SpaceRow) : Bool :=
  match published sp with
  | some s => nearList 9 (ofK sp.2.2.1) (Spec.Rgb.rgbToXyz s) eps
  | none => false

/-- `M·(1,1,1)` within `eps` of the white point -/
def whiteNear (eps : Rat) (sp : SpaceRow) : Bool :=
  match m3? (ofK sp.2.2.1 : List Rat), whiteQ sp with
  | some m, some w => nearList 3 (mulVec m ⟨1, 1, 1⟩).toList w.toList eps
  | _, _ => false

def derivedWhiteExact (sp : SpaceRow) : Bool :=
  match derivedQ sp, whiteQ sp with
  | some m, some w => decide ((mulVec m ⟨1, 1, 1⟩).toList = w.toList)
  | _, _ => false

/-- no `matrix_inverse` panic and every primary's `y` is a valid divisor -/
def derivationRegular (sp : SpaceRow) : Bool :=
  match sp.2.2.2.2.map (fun p => v3? (ofK p)) with
  | [some r, some g, some b] =>
    let pr := primaryXyz r; let pg := primaryXyz g; let pb := primaryXyz b
    decide (r.c1 ≠ 0) && decide (g.c1 ≠ 0) && decide (b.c1 ≠ 0) &&
      decide (det (⟨pr.c0, pg.c0, pb.c0, pr.c1, pg.c1, pb.c1, pr.c2, pg.c2, pb.c2⟩ : M3 Rat) ≠ 0)
  | _ => false

/-- entrywise `|A·B − I| ≤ eps` -/
def nearIdentity (eps : Rat) (p : M3 Rat) : Bool :=
  nearList 9 (toList p) [1, 0, 0, 0, 1, 0, 0, 0, 1] eps

/-- the pair of hard-coded tables of a space: `A·B` and `B·A` within `eps` of the identity -/
def pairNearInverse (eps : Rat) (sp : SpaceRow) : Bool :=
  match m3? (ofK sp.2.2.1 : List Rat), m3? (ofK sp.2.2.2.1 : List Rat) with
  | some a, some b => nearIdentity eps (mul a b) && nearIdentity eps (mul b a)
  | _, _ => false

/-! ### from `Rat` to `ℝ` -/

theorem K.eval_cast (k : K) : (K.eval k : ℝ) = ((K.eval k : Rat) : ℝ) := by
  induction k with
  | lit m s e => simp [K.eval]
  | add a b iha ihb => simp only [K.eval, iha, ihb, Rat.cast_add]
  | sub a b iha ihb => simp only [K.eval, iha, ihb, Rat.cast_sub]
  | mul a b iha ihb => simp only [K.eval, iha, ihb, Rat.cast_mul]
  | div a b iha ihb => simp only [K.eval, iha, ihb, Rat.cast_div]
  | neg a iha => simp only [K.eval, iha, Rat.cast_neg]

theorem absQ_cast (x : Rat) : ((absQ x : Rat) : ℝ) = |(x : ℝ)| := by
  unfold absQ
  split
  · rename_i h; rw [abs_of_neg (by exact_mod_cast h)]; simp
  · rename_i h; rw [abs_of_nonneg (by exact_mod_cast (not_lt.mp h))]

theorem absQ_le_cast {x eps : Rat} (h : absQ x ≤ eps) : |(x : ℝ)| ≤ (eps : ℝ) := by
  rw [← absQ_cast]; exact_mod_cast h

/-- linear `Rgb<src> → Xyz → Rgb<dst>` through the hard-coded tables, over `Rat` -/
def crossQ (src dst : String) (x : V3 Rat) : Option (V3 Rat) :=
  match Gen.Mat.rgbSpaces.find? (·.1 == src), Gen.Mat.rgbSpaces.find? (·.1 == dst) with
  | some s, some d =>
    match m3? (ofK s.2.2.1 : List Rat), m3? (ofK d.2.2.2.1 : List Rat) with
    | some a, some b => some (mulVec b (mulVec a x))
    | _, _ => none
  | _, _ => none

end RgbTables
