/-
  Value lemmas: the model functions of `PaletteModel/Blend.lean` read at `ℝ`, one lemma per `lazy_select!` branch, with the
  right-hand sides stated over the standard real-number instances (so that `norm_num` / `linarith` / `nlinarith` apply).
  Not property statements; used by `PaletteProofs/C08_Blend.lean`.
-/
import PaletteProofs.Real
import PaletteModel.Blend
import Mathlib.Analysis.Real.Sqrt
import Mathlib.Tactic.NormNum
import Mathlib.Tactic.Linarith

namespace BlendReal
open Blend

theorem lit1 : (1.0 : ℝ) = 1 := by norm_num
theorem lit0 : (0.0 : ℝ) = 0 := by norm_num
theorem lit4 : (4.0 : ℝ) = 4 := by norm_num
theorem lit12 : (12.0 : ℝ) = 12 := by norm_num

theorem multiply_eq (s d : ℝ) : multiplyBlend s d = s * d := rfl
theorem screen_eq (s d : ℝ) : screenBlend s d = s + d - s * d := rfl
theorem darken_eq (s d : ℝ) : darkenBlend s d = min s d := rfl
theorem lighten_eq (s d : ℝ) : lightenBlend s d = max s d := rfl
theorem difference_eq (s d : ℝ) : differenceBlend s d = |d - s| := rfl
theorem exclusion_eq (s d : ℝ) : exclusionBlend s d = d + s - (d + d) * s := rfl
theorem overlay_eq (s d : ℝ) : overlayBlend s d = hardLightBlend d s := rfl

theorem hardLight_lo {s : ℝ} (d : ℝ) (h : s + s ≤ 1) : hardLightBlend s d = (s + s) * d := by
  have h' : s + s ≤ (1.0 : ℝ) := by rw [lit1]; exact h
  unfold hardLightBlend multiplyBlend; exact if_pos h'
theorem hardLight_hi {s : ℝ} (d : ℝ) (h : ¬ s + s ≤ 1) : hardLightBlend s d = (s + s - 1) + d - (s + s - 1) * d := by
  have h' : ¬ s + s ≤ (1.0 : ℝ) := by rw [lit1]; exact h
  have e : hardLightBlend s d = (s + s - 1.0) + d - (s + s - 1.0) * d := by
    unfold hardLightBlend screenBlend; exact if_neg h'
  rw [e, lit1]

theorem dodge_d0 {d : ℝ} (s : ℝ) (h : d ≤ 0) : dodgeBlend s d = 0 := by
  have h' : d ≤ (0.0 : ℝ) := by rw [lit0]; exact h
  have e : dodgeBlend s d = (0.0 : ℝ) := by unfold dodgeBlend; exact if_pos h'
  rw [e, lit0]
theorem dodge_s1 {s d : ℝ} (hd : ¬ d ≤ 0) (h : 1 ≤ s) : dodgeBlend s d = 1 := by
  have hd' : ¬ d ≤ (0.0 : ℝ) := by rw [lit0]; exact hd
  have h' : (1.0 : ℝ) ≤ s := by rw [lit1]; exact h
  have e : dodgeBlend s d = (1.0 : ℝ) := by unfold dodgeBlend; rw [if_neg hd']; exact if_pos h'
  rw [e, lit1]
theorem dodge_q {s d : ℝ} (hd : ¬ d ≤ 0) (h : ¬ 1 ≤ s) : dodgeBlend s d = min 1 (d / (1 - s)) := by
  have hd' : ¬ d ≤ (0.0 : ℝ) := by rw [lit0]; exact hd
  have h' : ¬ (1.0 : ℝ) ≤ s := by rw [lit1]; exact h
  have e : dodgeBlend s d = min (1.0 : ℝ) (d / (1.0 - s)) := by unfold dodgeBlend; rw [if_neg hd', if_neg h']; rfl
  rw [e, lit1]

theorem burn_d1 {d : ℝ} (s : ℝ) (h : 1 ≤ d) : burnBlend s d = 1 := by
  have h' : (1.0 : ℝ) ≤ d := by rw [lit1]; exact h
  have e : burnBlend s d = (1.0 : ℝ) := by unfold burnBlend; exact if_pos h'
  rw [e, lit1]
theorem burn_s0 {s d : ℝ} (hd : ¬ 1 ≤ d) (h : s ≤ 0) : burnBlend s d = 0 := by
  have hd' : ¬ (1.0 : ℝ) ≤ d := by rw [lit1]; exact hd
  have h' : s ≤ (0.0 : ℝ) := by rw [lit0]; exact h
  have e : burnBlend s d = (0.0 : ℝ) := by unfold burnBlend; rw [if_neg hd']; exact if_pos h'
  rw [e, lit0]
theorem burn_q {s d : ℝ} (hd : ¬ 1 ≤ d) (h : ¬ s ≤ 0) : burnBlend s d = 1 - min 1 ((1 - d) / s) := by
  have hd' : ¬ (1.0 : ℝ) ≤ d := by rw [lit1]; exact hd
  have h' : ¬ s ≤ (0.0 : ℝ) := by rw [lit0]; exact h
  have e : burnBlend s d = 1.0 - min (1.0 : ℝ) ((1.0 - d) / s) := by unfold burnBlend; rw [if_neg hd', if_neg h']; rfl
  rw [e, lit1]

theorem softD_lo {d : ℝ} (h : d * 4 ≤ 1) : softLightD d = ((d * 4 * 4 - 12) * d + 4) * d := by
  have h' : d * (4.0 : ℝ) ≤ (1.0 : ℝ) := by rw [lit1, lit4]; exact h
  have e : softLightD d = ((d * 4.0 * 4.0 - 12.0) * d + 4.0) * d := by unfold softLightD; exact if_pos h'
  rw [e, lit4, lit12]
theorem softD_hi {d : ℝ} (h : ¬ d * 4 ≤ 1) : softLightD d = Real.sqrt d := by
  have h' : ¬ d * (4.0 : ℝ) ≤ (1.0 : ℝ) := by rw [lit1, lit4]; exact h
  unfold softLightD; exact if_neg h'

theorem softLight_lo {s : ℝ} (d : ℝ) (h : s + s ≤ 1) : softLightBlend s d = d - (1 - (s + s)) * d * (1 - d) := by
  have h' : s + s ≤ (1.0 : ℝ) := by rw [lit1]; exact h
  have e : softLightBlend s d = d - (1.0 - (s + s)) * d * (1.0 - d) := by unfold softLightBlend; exact if_pos h'
  rw [e, lit1]
theorem softLight_hi {s : ℝ} (d : ℝ) (h : ¬ s + s ≤ 1) : softLightBlend s d = d + (s + s - 1) * (softLightD d - d) := by
  have h' : ¬ s + s ≤ (1.0 : ℝ) := by rw [lit1]; exact h
  have e : softLightBlend s d = d + (s + s - 1.0) * (softLightD d - d) := by unfold softLightBlend; exact if_neg h'
  rw [e, lit1]

/-- `Scalar.clamp · 0 1` is the identity on `[0,1]` -/
theorem clamp01_id {v : ℝ} (h0 : 0 ≤ v) (h1 : v ≤ 1) : Scalar.clamp v (0.0 : ℝ) 1.0 = v := by
  have a : ¬ v < (0.0 : ℝ) := by rw [lit0]; exact not_lt.mpr h0
  have b : ¬ (1.0 : ℝ) < v := by rw [lit1]; exact not_lt.mpr h1
  unfold Scalar.clamp; rw [if_neg a, if_neg b]
theorem clamp01_hi {v : ℝ} (h1 : 1 < v) : Scalar.clamp v (0.0 : ℝ) 1.0 = 1 := by
  have a : ¬ v < (0.0 : ℝ) := by rw [lit0]; exact not_lt.mpr (by linarith)
  have b : (1.0 : ℝ) < v := by rw [lit1]; exact h1
  unfold Scalar.clamp; rw [if_neg a, if_pos b, lit1]
theorem clamp01_lo {v : ℝ} (h0 : v < 0) : Scalar.clamp v (0.0 : ℝ) 1.0 = 0 := by
  have a : v < (0.0 : ℝ) := by rw [lit0]; exact h0
  unfold Scalar.clamp; rw [if_pos a, lit0]
/-- in general it is `max 0 (min 1 v)` -/
theorem clamp01_eq (v : ℝ) : Scalar.clamp v (0.0 : ℝ) 1.0 = max 0 (min 1 v) := by
  rcases lt_or_ge v 0 with h | h
  · rw [clamp01_lo h, min_eq_right (by linarith), max_eq_left (le_of_lt h)]
  · rcases le_or_gt v 1 with h1 | h1
    · rw [clamp01_id h h1, min_eq_right h1, max_eq_right h]
    · rw [clamp01_hi h1, min_eq_left (le_of_lt h1), max_eq_right (by norm_num)]

theorem blendAlpha_eq (s d : ℝ) : blendAlpha s d = Scalar.clamp (s + d - s * d) (0.0 : ℝ) 1.0 := rfl

theorem blendComp_eq (f : ℝ → ℝ → ℝ) (sa da s sp d dp : ℝ) :
    blendComp f sa da s sp d dp = sp * (1 - da) + f s d * sa * da + (1 - sa) * dp := by
  have e : blendComp f sa da s sp d dp = sp * (1.0 - da) + f s d * sa * da + (1.0 - sa) * dp := rfl
  rw [e, lit1]

theorem unpremulC_valid {a : ℝ} (x : ℝ) (h : a ≠ 0) : unpremulC (Scalar.isValidDivisor a) a x = x / a := by
  have e : Scalar.isValidDivisor a = true := by simp [h]
  rw [e]; rfl
theorem unpremulC_zero (x : ℝ) : unpremulC (Scalar.isValidDivisor (0 : ℝ)) 0 x = 0 := by
  have e : Scalar.isValidDivisor (0 : ℝ) = false := by simp
  rw [e]; exact lit0

end BlendReal
