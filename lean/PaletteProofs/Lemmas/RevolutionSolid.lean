/-
  Measure theory for C19, part 2 (no dependency on the model): from the constant-Jacobian statement `Revolution.map_T3` to
  "uniform draws give a uniformly distributed point of the solid".

  * the closed solid (heights `[a,b]`, relative radii `[s0,s1]`, directions `[h0,h1]`) differs from the open one by a null set
    (`cyl_regionC_ae_eq`: faces and graphs are null by Tonelli; their image under the smooth cylindrical-coordinate map is null);
  * normalisation: a map that pushes `μ|B` to a constant multiple of `ν|S` pushes the uniform distribution `μ[|B]` to `ν[|S]`
    (`cond_map_of_restrict_map`; Mathlib's `ProbabilityTheory.cond μ s = (μ s)⁻¹ • μ.restrict s`);
  * coordinate orders (`rot`, measure preserving): draws `(hue, height, radius²)` as the cone/bicone macros consume them, or
    `(height, radius², hue)` as the cylinder macro does; point `(x, y, z)`;
  * `sampler_uniform` / `sampler_uniform_hrh`: the general uniformity theorem; `solid_volume_ne`: the solid has positive finite volume, so
    `volume[|solid]` is a probability measure; `solid_full`: the whole solid is `{z ∈ [a,b], x² + y² ≤ R(z)²}`.
-/
import PaletteProofs.Lemmas.RevolutionMeasure
import Mathlib.Probability.ConditionalProbability
import Mathlib.Algebra.Order.ToIntervalMod

open MeasureTheory Set Real ProbabilityTheory
open scoped ENNReal

noncomputable section
namespace Revolution

instance : Measure.IsAddHaarMeasure (volume : Measure (ℝ × ℝ × ℝ)) :=
  Measure.prod.instIsAddHaarMeasure _ _

/-- the closed region in cylindrical coordinates -/
def regionC (R : ℝ → ℝ) (a b s0 s1 t0 t1 : ℝ) : Set (ℝ × ℝ × ℝ) :=
  {p | p.1 ∈ Icc a b ∧ p.2.1 ∈ Icc (s0 * R p.1) (s1 * R p.1) ∧ p.2.2 ∈ Icc t0 t1}

theorem regionO_subset_regionC (R : ℝ → ℝ) (a b s0 s1 t0 t1 : ℝ) :
    regionO R a b s0 s1 t0 t1 ⊆ regionC R a b s0 s1 t0 t1 :=
  fun _ hp => ⟨Ioo_subset_Icc_self hp.1, Ioo_subset_Icc_self hp.2.1, Ico_subset_Icc_self hp.2.2⟩

theorem volume_fst_eq (c : ℝ) : volume {p : ℝ × ℝ × ℝ | p.1 = c} = 0 := by
  have : {p : ℝ × ℝ × ℝ | p.1 = c} = {c} ×ˢ univ := by ext p; simp
  rw [this]
  show (volume.prod volume) _ = 0
  rw [Measure.prod_prod]; simp

theorem volume2_fst_eq (c : ℝ) : volume {q : ℝ × ℝ | q.1 = c} = 0 := by
  have : {q : ℝ × ℝ | q.1 = c} = {c} ×ˢ univ := by ext p; simp
  rw [this]
  show (volume.prod volume) _ = 0
  rw [Measure.prod_prod]; simp

theorem volume_snd_snd_eq (c : ℝ) : volume {p : ℝ × ℝ × ℝ | p.2.2 = c} = 0 := by
  have : {p : ℝ × ℝ × ℝ | p.2.2 = c} = univ ×ˢ (univ ×ˢ {c}) := by ext p; simp
  rw [this]
  show (volume.prod (volume.prod volume)) _ = 0
  rw [Measure.prod_prod, Measure.prod_prod]; simp

theorem volume_graph {R : ℝ → ℝ} (hR : Measurable R) (s : ℝ) : volume {p : ℝ × ℝ × ℝ | p.2.1 = s * R p.1} = 0 := by
  have hm : MeasurableSet {p : ℝ × ℝ × ℝ | p.2.1 = s * R p.1} :=
    measurableSet_eq_fun (measurable_fst.comp measurable_snd) (measurable_const.mul (hR.comp measurable_fst))
  show (volume.prod volume) _ = 0
  rw [Measure.measure_prod_null hm]
  exact Filter.Eventually.of_forall fun z => volume2_fst_eq (s * R z)

theorem volume_regionC_diff {R : ℝ → ℝ} (hR : Measurable R) (a b s0 s1 t0 t1 : ℝ) :
    volume (regionC R a b s0 s1 t0 t1 \ regionO R a b s0 s1 t0 t1) = 0 := by
  have hsub : regionC R a b s0 s1 t0 t1 \ regionO R a b s0 s1 t0 t1 ⊆
      {p | p.1 = a} ∪ {p | p.1 = b} ∪ {p | p.2.1 = s0 * R p.1} ∪ {p | p.2.1 = s1 * R p.1} ∪ {p | p.2.2 = t1} := by
    rintro p ⟨⟨⟨h1, h2⟩, ⟨h3, h4⟩, h5, h6⟩, hn⟩
    by_contra hc
    simp only [mem_union, mem_ofPred_eq, not_or] at hc
    obtain ⟨⟨⟨⟨c1, c2⟩, c3⟩, c4⟩, c5⟩ := hc
    exact hn ⟨⟨lt_of_le_of_ne h1 (Ne.symm c1), lt_of_le_of_ne h2 c2⟩,
      ⟨lt_of_le_of_ne h3 (Ne.symm c3), lt_of_le_of_ne h4 c4⟩, h5, lt_of_le_of_ne h6 c5⟩
  refine measure_mono_null hsub ?_
  simp only [measure_union_null_iff]
  exact ⟨⟨⟨⟨volume_fst_eq a, volume_fst_eq b⟩, volume_graph hR s0⟩, volume_graph hR s1⟩, volume_snd_snd_eq t1⟩

theorem differentiable_cyl : Differentiable ℝ cyl := by
  unfold cyl pol
  fun_prop

/-- the closed solid and the open one differ by a null set -/
theorem cyl_regionC_ae_eq {R : ℝ → ℝ} (hR : Measurable R) (a b s0 s1 t0 t1 : ℝ) :
    (cyl '' regionC R a b s0 s1 t0 t1 : Set (ℝ × ℝ × ℝ)) =ᵐ[volume] cyl '' regionO R a b s0 s1 t0 t1 := by
  rw [ae_eq_set]
  constructor
  · refine measure_mono_null (t := cyl '' (regionC R a b s0 s1 t0 t1 \ regionO R a b s0 s1 t0 t1)) ?_ ?_
    · rintro _ ⟨⟨p, hp, rfl⟩, hn⟩
      exact ⟨p, ⟨hp, fun h => hn ⟨p, h, rfl⟩⟩, rfl⟩
    exact addHaar_image_eq_zero_of_differentiableOn_of_addHaar_eq_zero volume differentiable_cyl.differentiableOn
      (volume_regionC_diff hR a b s0 s1 t0 t1)
  · rw [sdiff_eq_empty.mpr (image_mono (regionO_subset_regionC R a b s0 s1 t0 t1))]; exact measure_empty


/-! ## normalisation -/

/-- if `T` pushes Lebesgue measure on `B` to a constant multiple of Lebesgue measure on `S`, it pushes the uniform distribution on
    `B` to the uniform distribution on `S` -/
theorem cond_map_of_restrict_map {E E' : Type*} [MeasurableSpace E] [MeasurableSpace E'] {μ : Measure E} {ν : Measure E'}
    {T : E → E'} {B : Set E} {S : Set E'} {C : ℝ≥0∞} (hT : Measurable T)
    (h : Measure.map T (μ.restrict B) = C • ν.restrict S) (hB0 : μ B ≠ 0) (hCtop : C ≠ ∞) :
    Measure.map T (μ[|B]) = ν[|S] := by
  have hmass : μ B = C * ν S := by
    have := congrArg (fun m => m univ) h
    simpa [Measure.map_apply hT MeasurableSet.univ] using this
  have hC0 : C ≠ 0 := by rintro rfl; rw [zero_mul] at hmass; exact hB0 hmass
  unfold ProbabilityTheory.cond
  rw [Measure.map_smul, h, smul_smul, hmass, ENNReal.mul_inv (Or.inl hC0) (Or.inl hCtop), mul_comm C⁻¹, mul_assoc,
    ENNReal.inv_mul_cancel hC0 hCtop, mul_one]

theorem cond_congr_ae {E : Type*} [MeasurableSpace E] {μ : Measure E} {s t : Set E} (h : s =ᵐ[μ] t) : μ[|s] = μ[|t] := by
  unfold ProbabilityTheory.cond
  rw [measure_congr h, Measure.restrict_congr_set h]

/-! ## coordinate orders -/

/-- `(a, (b, c)) ↦ (b, (c, a))`: from the order of the draws `(hue, height, radius²)` to `(height, radius², hue)`, and from `(z, x, y)` to `(x, y, z)` -/
def rot : ℝ × ℝ × ℝ ≃ᵐ ℝ × ℝ × ℝ := MeasurableEquiv.prodComm.trans MeasurableEquiv.prodAssoc

theorem rot_apply (p : ℝ × ℝ × ℝ) : rot p = (p.2.1, p.2.2, p.1) := rfl

theorem measurePreserving_rot : MeasurePreserving rot (volume : Measure (ℝ × ℝ × ℝ)) volume :=
  (Measure.measurePreserving_swap (μ := (volume : Measure ℝ)) (ν := (volume : Measure (ℝ × ℝ)))).trans
    (MeasureTheory.volume_preserving_prodAssoc (α₁ := ℝ) (β₁ := ℝ) (γ₁ := ℝ))


/-! ## the statement in the order of the code: draws `(hue, height, radius²)`, point `(x, y, z)` -/

/-- the sampler of a solid of revolution: `z = G d₁`, `ρ = √d₂ · R z`, `θ = κ·d_hue` -/
def sampler (κ : ℝ) (G R : ℝ → ℝ) (d : ℝ × ℝ × ℝ) : ℝ × ℝ × ℝ :=
  (Real.sqrt d.2.2 * R (G d.2.1) * cos (d.1 * κ), Real.sqrt d.2.2 * R (G d.2.1) * sin (d.1 * κ), G d.2.1)

theorem sampler_eq (κ : ℝ) (G R : ℝ → ℝ) : sampler κ G R = rot ∘ T3 κ G R ∘ rot := rfl

/-- the (closed) solid: all points with height `z ∈ [a,b]`, relative radius `s ∈ [s0,s1]` (radius `s·R z`) and direction `κh`, `h ∈ [h0,h1]` -/
def solid (κ : ℝ) (R : ℝ → ℝ) (a b s0 s1 h0 h1 : ℝ) : Set (ℝ × ℝ × ℝ) :=
  {p | ∃ z s h, z ∈ Icc a b ∧ s ∈ Icc s0 s1 ∧ h ∈ Icc h0 h1 ∧ p = (s * R z * cos (h * κ), s * R z * sin (h * κ), z)}

theorem solid_eq {κ : ℝ} {R : ℝ → ℝ} {a b s0 s1 h0 h1 : ℝ} (hκ : 0 < κ) (hR0 : ∀ z ∈ Icc a b, 0 ≤ R z) (hs : s0 ≤ s1) :
    solid κ R a b s0 s1 h0 h1 = rot '' (cyl '' regionC R a b s0 s1 (h0 * κ) (h1 * κ)) := by
  ext p
  constructor
  · rintro ⟨z, s, h, hz, hs', hh, rfl⟩
    refine ⟨cyl (z, (s * R z, h * κ)), ⟨(z, (s * R z, h * κ)), ⟨hz, ⟨?_, ?_⟩, ?_, ?_⟩, rfl⟩, rfl⟩
    · exact mul_le_mul_of_nonneg_right hs'.1 (hR0 z hz)
    · exact mul_le_mul_of_nonneg_right hs'.2 (hR0 z hz)
    · exact mul_le_mul_of_nonneg_right hh.1 hκ.le
    · exact mul_le_mul_of_nonneg_right hh.2 hκ.le
  · rintro ⟨_, ⟨⟨z, ρ, θ⟩, ⟨hz, hρ, hθ⟩, rfl⟩, rfl⟩
    simp only at hz hρ hθ
    have hθ' : θ / κ ∈ Icc h0 h1 := ⟨by rw [le_div_iff₀ hκ]; exact hθ.1, by rw [div_le_iff₀ hκ]; exact hθ.2⟩
    have hθκ : θ / κ * κ = θ := by field_simp
    rcases (hR0 z hz).eq_or_lt with h0' | hpos
    · have hρ0 : ρ = 0 := by
        rw [← h0'] at hρ; simp only [mul_zero] at hρ; exact le_antisymm hρ.2 hρ.1
      refine ⟨z, s0, θ / κ, hz, ⟨le_refl _, hs⟩, hθ', ?_⟩
      simp [rot_apply, cyl, pol, hρ0, ← h0']
    · refine ⟨z, ρ / R z, θ / κ, hz, ⟨?_, ?_⟩, hθ', ?_⟩
      · rw [le_div_iff₀ hpos]; exact hρ.1
      · rw [div_le_iff₀ hpos]; exact hρ.2
      · have : ρ / R z * R z = ρ := by field_simp
        simp only [rot_apply, cyl, pol, this, hθκ]

theorem measurable_sampler (κ : ℝ) {G R : ℝ → ℝ} (hG : Measurable G) (hR : Measurable R) : Measurable (sampler κ G R) := by
  rw [sampler_eq]
  exact rot.measurable.comp ((measurable_T3 κ hG hR).comp rot.measurable)

/-- **Uniformity in volume, general form.**  For a solid of revolution with radius profile `R` whose volume CDF along the height is
    (a multiple of) `F`, sampled by `z = G d₁` (`G` inverse to `F`), `ρ = √d₂ · R z`, `θ = κ·d_hue`: if the draws are uniformly
    distributed on the box `[h0,h1) × [α,β) × [s0²,s1²)`, the sampled point `(ρ cos θ, ρ sin θ, z)` is uniformly distributed
    (normalised Lebesgue measure of ℝ³) on the part of the solid with height in `[a,b]`, relative radius in `[s0,s1]` and direction in
    the arc `[h0,h1]`. -/
theorem sampler_uniform {κ : ℝ} {F G R : ℝ → ℝ} {c a b α β s0 s1 h0 h1 : ℝ} (hκ : 0 < κ)
    (hG : Measurable G) (hR : Measurable R) (hc : 0 ≤ c)
    (hF : ∀ z ∈ Ioo a b, HasDerivAt F (c * R z ^ 2) z)
    (hRpos : ∀ z ∈ Ioo a b, 0 < R z) (hR0 : ∀ z ∈ Icc a b, 0 ≤ R z)
    (hGF : ∀ z ∈ Ioo a b, G (F z) = z)
    (himg : F '' Ioo a b = Ioo α β) (hab : a < b)
    (hs0 : 0 ≤ s0) (hs : s0 < s1) (hh0 : h0 < h1) (hh : (h1 - h0) * κ ≤ 2 * π) :
    Measure.map (sampler κ G R) (volume[|Ico h0 h1 ×ˢ (Ico α β ×ˢ Ico (s0 ^ 2) (s1 ^ 2))]) =
      volume[|solid κ R a b s0 s1 h0 h1] := by
  have hαβ : α < β := by
    have : (Ioo α β).Nonempty := by rw [← himg]; exact (nonempty_Ioo.mpr hab).image F
    exact nonempty_Ioo.mp this
  have hm : s0 ^ 2 < s1 ^ 2 := by nlinarith
  set B : Set (ℝ × ℝ × ℝ) := Ioo α β ×ˢ (Ioo (s0 ^ 2) (s1 ^ 2) ×ˢ Ico h0 h1) with hB
  have hbox : (Ico h0 h1 ×ˢ (Ico α β ×ˢ Ico (s0 ^ 2) (s1 ^ 2)) : Set (ℝ × ℝ × ℝ)) =ᵐ[volume] rot ⁻¹' B := by
    have e : rot ⁻¹' B = Ico h0 h1 ×ˢ (Ioo α β ×ˢ Ioo (s0 ^ 2) (s1 ^ 2)) := by
      ext p; simp only [hB, mem_preimage, rot_apply, mem_prod]; tauto
    rw [e]
    exact Measure.set_prod_ae_eq (μ := (volume : Measure ℝ)) (ν := (volume : Measure (ℝ × ℝ))) (ae_eq_refl _)
      (Measure.set_prod_ae_eq (μ := (volume : Measure ℝ)) (ν := (volume : Measure ℝ)) Ioo_ae_eq_Ico.symm Ioo_ae_eq_Ico.symm)
  have hmap : Measure.map (sampler κ G R) (volume.restrict (rot ⁻¹' B)) =
      ENNReal.ofReal (2 * c / κ) • volume.restrict (solid κ R a b s0 s1 h0 h1) := by
    rw [sampler_eq, ← Measure.map_map rot.measurable ((measurable_T3 κ hG hR).comp rot.measurable),
      ← Measure.map_map (measurable_T3 κ hG hR) rot.measurable,
      (measurePreserving_rot.restrict_preimage_emb rot.measurableEmbedding B).map_eq,
      map_T3 hκ hG hR hc hF hRpos hGF himg hs0 (hs0.trans hs.le) hh,
      Measure.restrict_congr_set (cyl_regionC_ae_eq hR a b s0 s1 (h0 * κ) (h1 * κ)).symm, Measure.map_smul,
      (measurePreserving_rot.restrict_image_emb rot.measurableEmbedding _).map_eq, solid_eq hκ hR0 hs.le]
  rw [cond_congr_ae hbox]
  refine cond_map_of_restrict_map (measurable_sampler κ hG hR) hmap ?_ ENNReal.ofReal_ne_top
  rw [← measure_congr hbox]
  show (volume.prod (volume.prod volume)) _ ≠ 0
  rw [Measure.prod_prod, Measure.prod_prod, Real.volume_Ico, Real.volume_Ico, Real.volume_Ico]
  simp only [ne_eq, mul_eq_zero, ENNReal.ofReal_eq_zero, not_or, not_le]
  exact ⟨by linarith, by linarith, by linarith⟩


/-- under the hypotheses of `sampler_uniform` the solid has positive and finite volume: `volume[|solid …]` is a probability measure -/
theorem solid_volume_ne {κ : ℝ} {F G R : ℝ → ℝ} {c a b α β s0 s1 h0 h1 : ℝ} (hκ : 0 < κ)
    (hG : Measurable G) (hR : Measurable R) (hc : 0 ≤ c)
    (hF : ∀ z ∈ Ioo a b, HasDerivAt F (c * R z ^ 2) z)
    (hRpos : ∀ z ∈ Ioo a b, 0 < R z) (hR0 : ∀ z ∈ Icc a b, 0 ≤ R z)
    (hGF : ∀ z ∈ Ioo a b, G (F z) = z)
    (himg : F '' Ioo a b = Ioo α β) (hab : a < b)
    (hs0 : 0 ≤ s0) (hs : s0 < s1) (hh0 : h0 < h1) (hh : (h1 - h0) * κ ≤ 2 * π) :
    volume (solid κ R a b s0 s1 h0 h1) ≠ 0 ∧ volume (solid κ R a b s0 s1 h0 h1) ≠ ∞ := by
  have h := sampler_uniform hκ hG hR hc hF hRpos hR0 hGF himg hab hs0 hs hh0 hh
  have hαβ : α < β := by
    have : (Ioo α β).Nonempty := by rw [← himg]; exact (nonempty_Ioo.mpr hab).image F
    exact nonempty_Ioo.mp this
  have hm : s0 ^ 2 < s1 ^ 2 := by nlinarith
  have hvol : (volume : Measure (ℝ × ℝ × ℝ)) (Ico h0 h1 ×ˢ (Ico α β ×ˢ Ico (s0 ^ 2) (s1 ^ 2))) =
      ENNReal.ofReal (h1 - h0) * (ENNReal.ofReal (β - α) * ENNReal.ofReal (s1 ^ 2 - s0 ^ 2)) := by
    show (volume.prod (volume.prod volume)) _ = _
    rw [Measure.prod_prod, Measure.prod_prod, Real.volume_Ico, Real.volume_Ico, Real.volume_Ico]
  have hB0 : (volume : Measure (ℝ × ℝ × ℝ)) (Ico h0 h1 ×ˢ (Ico α β ×ˢ Ico (s0 ^ 2) (s1 ^ 2))) ≠ 0 := by
    rw [hvol]
    simp only [ne_eq, mul_eq_zero, ENNReal.ofReal_eq_zero, not_or, not_le]
    exact ⟨by linarith, by linarith, by linarith⟩
  have hBt : (volume : Measure (ℝ × ℝ × ℝ)) (Ico h0 h1 ×ˢ (Ico α β ×ˢ Ico (s0 ^ 2) (s1 ^ 2))) ≠ ∞ := by
    rw [hvol]; exact ENNReal.mul_ne_top ENNReal.ofReal_ne_top (ENNReal.mul_ne_top ENNReal.ofReal_ne_top ENNReal.ofReal_ne_top)
  have hp : IsProbabilityMeasure (volume[|Ico h0 h1 ×ˢ (Ico α β ×ˢ Ico (s0 ^ 2) (s1 ^ 2))] : Measure (ℝ × ℝ × ℝ)) :=
    cond_isProbabilityMeasure_of_finite hB0 hBt
  have hp' := Measure.isProbabilityMeasure_map (μ := volume[|Ico h0 h1 ×ˢ (Ico α β ×ˢ Ico (s0 ^ 2) (s1 ^ 2))])
    (measurable_sampler κ hG hR).aemeasurable
  rw [h] at hp'
  have h1' : (volume[|solid κ R a b s0 s1 h0 h1]) univ = 1 := hp'.measure_univ
  rw [cond_apply' MeasurableSet.univ, inter_univ] at h1'
  constructor
  · intro h0'; rw [h0', mul_zero] at h1'; exact zero_ne_one h1'
  · intro ht; rw [ht, ENNReal.inv_top, zero_mul] at h1'; exact zero_ne_one h1'

/-! ## draws in the order `(height, radius², hue)` (the cylinder macro) -/

theorem rot_symm_apply (p : ℝ × ℝ × ℝ) : rot.symm p = (p.2.2, p.1, p.2.1) := rfl

/-- a measure preserving equivalence maps the uniform distribution on a preimage to the uniform distribution on the set -/
theorem cond_map_equiv {E E' : Type*} [MeasurableSpace E] [MeasurableSpace E'] {μ : Measure E} {ν : Measure E'}
    (e : E ≃ᵐ E') (he : MeasurePreserving e μ ν) (B : Set E') : Measure.map e (μ[|e ⁻¹' B]) = ν[|B] := by
  unfold ProbabilityTheory.cond
  rw [Measure.map_smul, (he.restrict_preimage_emb e.measurableEmbedding B).map_eq, he.measure_preimage_equiv]

theorem sampler_uniform_hrh {κ : ℝ} {F G R : ℝ → ℝ} {c a b α β s0 s1 h0 h1 : ℝ} (hκ : 0 < κ)
    (hG : Measurable G) (hR : Measurable R) (hc : 0 ≤ c)
    (hF : ∀ z ∈ Ioo a b, HasDerivAt F (c * R z ^ 2) z)
    (hRpos : ∀ z ∈ Ioo a b, 0 < R z) (hR0 : ∀ z ∈ Icc a b, 0 ≤ R z)
    (hGF : ∀ z ∈ Ioo a b, G (F z) = z)
    (himg : F '' Ioo a b = Ioo α β) (hab : a < b)
    (hs0 : 0 ≤ s0) (hs : s0 < s1) (hh0 : h0 < h1) (hh : (h1 - h0) * κ ≤ 2 * π) :
    Measure.map (sampler κ G R ∘ rot.symm) (volume[|Ico α β ×ˢ (Ico (s0 ^ 2) (s1 ^ 2) ×ˢ Ico h0 h1)]) =
      volume[|solid κ R a b s0 s1 h0 h1] := by
  have e : (Ico α β ×ˢ (Ico (s0 ^ 2) (s1 ^ 2) ×ˢ Ico h0 h1) : Set (ℝ × ℝ × ℝ)) =
      rot.symm ⁻¹' (Ico h0 h1 ×ˢ (Ico α β ×ˢ Ico (s0 ^ 2) (s1 ^ 2))) := by
    ext p; simp only [mem_preimage, rot_symm_apply, mem_prod]; tauto
  rw [e, ← Measure.map_map (measurable_sampler κ hG hR) rot.symm.measurable,
    cond_map_equiv rot.symm measurePreserving_rot.symm]
  exact sampler_uniform hκ hG hR hc hF hRpos hR0 hGF himg hab hs0 hs hh0 hh

/-! ## the whole solid in Cartesian terms -/

/-- every point of the plane has polar coordinates with the angle in any prescribed half-open interval of length `2π` -/
theorem exists_angle (x y t0 : ℝ) : ∃ θ ∈ Ico t0 (t0 + 2 * π),
    x = Real.sqrt (x ^ 2 + y ^ 2) * cos θ ∧ y = Real.sqrt (x ^ 2 + y ^ 2) * sin θ := by
  have h2π : (0:ℝ) < 2 * π := by positivity
  by_cases h0 : x ^ 2 + y ^ 2 = 0
  · have hx : x = 0 := by nlinarith [sq_nonneg x, sq_nonneg y]
    have hy : y = 0 := by nlinarith [sq_nonneg x, sq_nonneg y]
    exact ⟨t0, ⟨le_refl _, by linarith⟩, by rw [h0]; simp [hx], by rw [h0]; simp [hy]⟩
  · set w : ℂ := ⟨x, y⟩ with hw
    have hnorm : ‖w‖ = Real.sqrt (x ^ 2 + y ^ 2) := by
      rw [Complex.norm_def, Complex.normSq_apply]; congr 1; simp [hw]; ring
    have hw0 : w ≠ 0 := by
      intro h; apply h0
      have : ‖w‖ = 0 := by rw [h]; simp
      rw [hnorm, Real.sqrt_eq_zero (by positivity)] at this; exact this
    have hpos : 0 < ‖w‖ := norm_pos_iff.mpr hw0
    have hc := Complex.cos_arg hw0
    have hs := Complex.sin_arg w
    refine ⟨toIcoMod h2π t0 (Complex.arg w), toIcoMod_mem_Ico h2π t0 _, ?_, ?_⟩
    · rw [← self_sub_toIcoDiv_zsmul, zsmul_eq_mul, Real.cos_sub_int_mul_two_pi, hc, ← hnorm]
      field_simp; rfl
    · rw [← self_sub_toIcoDiv_zsmul, zsmul_eq_mul, Real.sin_sub_int_mul_two_pi, hs, ← hnorm]
      field_simp; rfl

/-- **the full solid** (relative radius `[0,1]`, a whole turn of directions) is the set of points within distance `R z` of the axis -/
theorem solid_full {κ : ℝ} {R : ℝ → ℝ} {a b h0 h1 : ℝ} (hκ : 0 < κ) (hfull : (h1 - h0) * κ = 2 * π)
    (hR0 : ∀ z ∈ Icc a b, 0 ≤ R z) :
    solid κ R a b 0 1 h0 h1 = {p | p.2.2 ∈ Icc a b ∧ p.1 ^ 2 + p.2.1 ^ 2 ≤ (R p.2.2) ^ 2} := by
  ext ⟨x, y, z⟩
  constructor
  · rintro ⟨z', s, h, hz, hs, hh, e⟩
    simp only [Prod.mk.injEq] at e
    obtain ⟨rfl, rfl, rfl⟩ := e
    refine ⟨hz, ?_⟩
    have hR := hR0 z hz
    have e : (s * R z * cos (h * κ)) ^ 2 + (s * R z * sin (h * κ)) ^ 2 = s ^ 2 * R z ^ 2 := by
      have := cos_sq_add_sin_sq (h * κ); nlinarith [this]
    simp only
    rw [e]
    have : s ^ 2 ≤ 1 := by nlinarith [hs.1, hs.2]
    nlinarith [sq_nonneg (R z)]
  · rintro ⟨hz, hle⟩
    simp only at hz hle
    obtain ⟨θ, ⟨hθ0, hθ1⟩, hx, hy⟩ := exists_angle x y (h0 * κ)
    have hh : θ / κ ∈ Icc h0 h1 := by
      constructor
      · rw [le_div_iff₀ hκ]; exact hθ0
      · rw [div_le_iff₀ hκ]; nlinarith
    have hθκ : θ / κ * κ = θ := by field_simp
    have hρ : Real.sqrt (x ^ 2 + y ^ 2) ≤ R z := by
      rw [Real.sqrt_le_left (hR0 z hz)]; exact hle
    rcases (hR0 z hz).eq_or_lt with hR | hR
    · have h0' : Real.sqrt (x ^ 2 + y ^ 2) = 0 := le_antisymm (by rw [hR]; exact hρ) (Real.sqrt_nonneg _)
      refine ⟨z, 0, θ / κ, hz, ⟨le_refl _, zero_le_one⟩, hh, ?_⟩
      have hx0 : x = 0 := by rw [h0'] at hx; simpa using hx
      have hy0 : y = 0 := by rw [h0'] at hy; simpa using hy
      rw [hx0, hy0]; simp
    · refine ⟨z, Real.sqrt (x ^ 2 + y ^ 2) / R z, θ / κ, hz, ⟨by positivity, ?_⟩, hh, ?_⟩
      · rw [div_le_one hR]; exact hρ
      · have : Real.sqrt (x ^ 2 + y ^ 2) / R z * R z = Real.sqrt (x ^ 2 + y ^ 2) := by field_simp
        rw [this, hθκ, ← hx, ← hy]

end Revolution
