/-
  Helper lemmas about `Stim.round32` / `Stim.round64` (the bit-level `f32::round` / `f64::round`, half away from zero, of the
  model; used by the integer narrowing of C06 and by the float → `u8` hue conversion of C11), `Stim.clamp32/64`, and
  `Stim.f64CastNat` (the saturating `as uN` cast), on exact values:
    finite `x ≥ 0`:   round x = ⌊x + ½⌋      (below `2^(p−1)`: truncate, compare the exactly computed fraction with ½, add one;
                                               from `2^(p−1)` on the float is an integer and is returned unchanged)
    finite `x < 0`:    round x = x            (the model's arm for the sign it is never fed by `stimulus.rs`)
-/
import PaletteProofs.Ieee.Frac
import PaletteProofs.Ieee.F64Conv
import PaletteProofs.Lemmas.StimBig
import PaletteModel.Stimulus

namespace StimSpec
open Stim Float.Model Float.Model.UnpackedFloat Ieee

/-- `⌊z + ½⌋` from the integer part and the fractional part -/
theorem floor_add_half (z : ℚ) : ⌊z + 1 / 2⌋ = if 1 / 2 ≤ z - ⌊z⌋ then ⌊z⌋ + 1 else ⌊z⌋ := by
  have h0 := Int.floor_le z
  have h1 := Int.lt_floor_add_one z
  split_ifs with h
  · rw [Int.floor_eq_iff]; push_cast; constructor <;> linarith
  · rw [not_le] at h
    rw [Int.floor_eq_iff]; constructor <;> linarith

theorem floor_add_half_int (n : ℤ) : ⌊(n : ℚ) + 1 / 2⌋ = n := by
  rw [Int.floor_eq_iff]; constructor <;> linarith

/-! ## binary64 -/
section f64
open Ieee.F64

def two52 : Float := Float.ofBits 0x4330000000000000
def zero64 : Float := Float.ofBits 0
def half64 : Float := Float.ofBits 0x3fe0000000000000

theorem fin_two52 : IsFin two52 := rfl
theorem v_two52 : v two52 = 2^52 := by
  unfold v; rw [show U two52 = .finite .positive 0x10000000000000 0 (by decide) from rfl]; norm_num [val, sgn]
theorem fin_zero64 : IsFin zero64 := rfl
theorem v_zero64 : v zero64 = 0 := rfl
theorem fin_half64 : IsFin half64 := rfl
theorem v_half64 : v half64 = 1 / 2 := by
  unfold v; rw [show U half64 = .finite .positive 0x10000000000000 (-53) (by decide) from rfl]; norm_num [val, sgn]

theorem round64_eq (x : Float) : round64 x =
    if x.isNaN then x else
    if two52 ≤ x then x else
    if x < zero64 then x else
    if half64 ≤ x - x.toUInt64.toFloat then (x.toUInt64 + 1).toFloat else x.toUInt64.toFloat := rfl

/-- the truncate–compare–increment arm on variable floats -/
theorem round64_small {x tf tf1 d h : Float} (hx : IsFin x) (h0 : 0 ≤ v x)
    (ft : IsFin tf) (vt : v tf = ⌊v x⌋) (ft1 : IsFin tf1) (vt1 : v tf1 = ⌊v x⌋ + 1)
    (hd : IsFin d ∧ v d = R64 (v x - v tf)) (fh : IsFin h) (vh : v h = 1 / 2) :
    IsFin (if h ≤ d then tf1 else tf) ∧ v (if h ≤ d then tf1 else tf) = ⌊v x + 1 / 2⌋ := by
  have hfrac : v d = v x - ⌊v x⌋ := by rw [hd.2, vt, R64_frac hx h0]
  rw [floor_add_half]
  by_cases hc : h ≤ d
  · rw [if_pos hc]
    have := (le_iff fh hd.1).mp hc
    rw [vh, hfrac] at this
    rw [if_pos this]; exact ⟨ft1, by rw [vt1]; push_cast; rfl⟩
  · rw [if_neg hc]
    have := mt (le_iff fh hd.1).mpr hc
    rw [vh, hfrac] at this
    rw [if_neg this]; exact ⟨ft, vt⟩

/-- **`round64` on non-negative finite floats is `⌊x + ½⌋`** -/
theorem round64_spec {x : Float} (hx : IsFin x) (h0 : 0 ≤ v x) :
    IsFin (round64 x) ∧ v (round64 x) = ⌊v x + 1 / 2⌋ := by
  rw [round64_eq, hx.not_nan]
  simp only [Bool.false_eq_true, if_false]
  by_cases hbig : two52 ≤ x
  · rw [if_pos hbig]
    refine ⟨hx, ?_⟩
    have : 2^52 ≤ |v x| := by
      have := (le_iff fin_two52 hx).mp hbig
      rw [v_two52] at this; rwa [abs_of_nonneg h0]
    obtain ⟨n, hn⟩ := isInt_of_large hx this
    rw [hn, floor_add_half_int]
  · rw [if_neg hbig]
    have hlt : v x < 2^52 := by
      have := mt (le_iff fin_two52 hx).mpr hbig
      rwa [v_two52, not_le] at this
    have hneg : ¬ x < zero64 := by
      intro h; have := (lt_iff hx fin_zero64).mp h; rw [v_zero64] at this; linarith
    rw [if_neg hneg]
    have hcast := toUInt64_eq hx h0 (lt_trans hlt (by norm_num))
    have hfl0 : 0 ≤ ⌊v x⌋ := Int.floor_nonneg.mpr h0
    have hfl1 : ⌊v x⌋ < 2^52 := by rw [Int.floor_lt]; exact_mod_cast hlt
    have ht : x.toUInt64.toNat < 2^52 := by omega
    obtain ⟨ft, vt⟩ := toFloat_small x.toUInt64 (lt_trans ht (by norm_num))
    have vt' : v x.toUInt64.toFloat = ⌊v x⌋ := by rw [vt, ← hcast]; simp
    have ht1 : (x.toUInt64 + 1).toNat = x.toUInt64.toNat + 1 := by
      rw [UInt64.toNat_add, show (1 : UInt64).toNat = 1 from rfl, Nat.mod_eq_of_lt (by omega)]
    obtain ⟨ft1, vt1⟩ := toFloat_small (x.toUInt64 + 1) (by rw [ht1]; omega)
    have vt1' : v (x.toUInt64 + 1).toFloat = ⌊v x⌋ + 1 := by
      rw [vt1, ht1, ← hcast]; push_cast; rfl
    have hfr0 : 0 ≤ v x - ⌊v x⌋ := by linarith [Int.floor_le (v x)]
    have hfr1 : v x - ⌊v x⌋ < 1 := by linarith [Int.lt_floor_add_one (v x)]
    have hd := sub_of_le hx ft (n := 1) (by norm_num) (by
      rw [vt', abs_of_nonneg hfr0]; push_cast; linarith)
    exact round64_small hx h0 ft vt' ft1 vt1' hd fin_half64 v_half64

/-- on negative finite floats the model's `round64` is the identity -/
theorem round64_neg {x : Float} (hx : IsFin x) (h0 : v x < 0) : round64 x = x := by
  rw [round64_eq, hx.not_nan]
  simp only [Bool.false_eq_true, if_false]
  have hbig : ¬ two52 ≤ x := by
    intro h; have := (le_iff fin_two52 hx).mp h; rw [v_two52] at this
    have : (0 : ℚ) < 2^52 := by positivity
    linarith
  rw [if_neg hbig, if_pos ((lt_iff hx fin_zero64).mpr (by rw [v_zero64]; exact h0))]

theorem clamp64_spec {x lo hi : Float} (hx : IsFin x) (hl : IsFin lo) (hh : IsFin hi) (hlh : v lo ≤ v hi) :
    IsFin (clamp64 x lo hi) ∧ v (clamp64 x lo hi) = max (v lo) (min (v x) (v hi)) := by
  unfold clamp64
  by_cases h1 : x < lo
  · rw [if_pos h1]
    have := (lt_iff hx hl).mp h1
    exact ⟨hl, by rw [min_eq_left (by linarith), max_eq_left this.le]⟩
  · rw [if_neg h1]
    have h1' := not_lt.mp (mt (lt_iff hx hl).mpr h1)
    by_cases h2 : hi < x
    · rw [if_pos h2]
      have := (lt_iff hh hx).mp h2
      exact ⟨hh, by rw [min_eq_right this.le, max_eq_right hlh]⟩
    · rw [if_neg h2]
      have h2' := not_lt.mp (mt (lt_iff hh hx).mpr h2)
      exact ⟨hx, by rw [min_eq_left h2', max_eq_right h1']⟩

theorem f64CastNat_eq (w : ℕ) (x : Float) : f64CastNat w x =
    if x.isNaN then 0 else
    if x < two52 then (if x.toUInt64.toNat % 2^64 ≥ 2^w then 2^w - 1 else x.toUInt64.toNat % 2^64)
    else bigCast w x := rfl

/-- the saturating cast of a non-negative integer-valued finite float -/
theorem f64CastNat_spec (w : ℕ) {x : Float} (hx : IsFin x) {n : ℕ} (hn : v x = n) :
    f64CastNat w x = min n (2^w - 1) := by
  have hp : 0 < 2^w := Nat.pos_of_ne_zero (by simp)
  rw [f64CastNat_eq, hx.not_nan]
  simp only [Bool.false_eq_true, if_false]
  by_cases hlt : x < two52
  · rw [if_pos hlt]
    have h52 : v x < 2^52 := by have := (lt_iff hx fin_two52).mp hlt; rwa [v_two52] at this
    have hcast := toUInt64_eq hx (by rw [hn]; positivity) (lt_trans h52 (by norm_num))
    rw [hn] at hcast
    have : x.toUInt64.toNat = n := by
      have : ((x.toUInt64.toNat : ℕ) : ℤ) = (n : ℤ) := by rw [hcast]; simp
      exact_mod_cast this
    rw [this, Nat.mod_eq_of_lt (by
      have : (n : ℚ) < 2^52 := by rw [← hn]; exact h52
      have : n < 2^52 := by exact_mod_cast this
      omega)]
    by_cases hge : n ≥ 2^w
    · rw [if_pos hge, Nat.min_eq_right (by omega)]
    · rw [if_neg hge, Nat.min_eq_left (by omega)]
  · rw [if_neg hlt]
    have h52 : 2^52 ≤ v x := by
      have := mt (lt_iff hx fin_two52).mpr hlt; rwa [v_two52, not_lt] at this
    obtain ⟨hv, hb⟩ := C06.bigCast_spec w hx h52
    rw [hb]
    have : f64BigToNat x = n := by
      have : ((f64BigToNat x : ℕ) : ℚ) = (n : ℚ) := by rw [← hv, hn]
      exact_mod_cast this
    rw [this]

end f64

/-! ## binary32 -/
section f32
open Ieee.F32

def two23 : Float32 := Float32.ofBits 0x4b000000
def zero32 : Float32 := Float32.ofBits 0
def half32 : Float32 := Float32.ofBits 0x3f000000

theorem fin_two23 : IsFin two23 := rfl
theorem v_two23 : v two23 = 2^23 := by
  unfold v; rw [show U two23 = .finite .positive 0x800000 0 (by decide) from rfl]; norm_num [val, sgn]
theorem fin_zero32 : IsFin zero32 := rfl
theorem v_zero32 : v zero32 = 0 := rfl
theorem fin_half32 : IsFin half32 := rfl
theorem v_half32 : v half32 = 1 / 2 := by
  unfold v; rw [show U half32 = .finite .positive 0x800000 (-24) (by decide) from rfl]; norm_num [val, sgn]

theorem round32_eq (x : Float32) : round32 x =
    if x.isNaN then x else
    if two23 ≤ x then x else
    if x < zero32 then x else
    if half32 ≤ x - x.toUInt32.toFloat32 then (x.toUInt32 + 1).toFloat32 else x.toUInt32.toFloat32 := rfl

theorem round32_small {x tf tf1 d h : Float32} (hx : IsFin x) (h0 : 0 ≤ v x)
    (ft : IsFin tf) (vt : v tf = ⌊v x⌋) (ft1 : IsFin tf1) (vt1 : v tf1 = ⌊v x⌋ + 1)
    (hd : IsFin d ∧ v d = R32 (v x - v tf)) (fh : IsFin h) (vh : v h = 1 / 2) :
    IsFin (if h ≤ d then tf1 else tf) ∧ v (if h ≤ d then tf1 else tf) = ⌊v x + 1 / 2⌋ := by
  have hfrac : v d = v x - ⌊v x⌋ := by rw [hd.2, vt, R32_frac hx h0]
  rw [floor_add_half]
  by_cases hc : h ≤ d
  · rw [if_pos hc]
    have := (le_iff fh hd.1).mp hc
    rw [vh, hfrac] at this
    rw [if_pos this]; exact ⟨ft1, by rw [vt1]; push_cast; rfl⟩
  · rw [if_neg hc]
    have := mt (le_iff fh hd.1).mpr hc
    rw [vh, hfrac] at this
    rw [if_neg this]; exact ⟨ft, vt⟩

/-- **`round32` on non-negative finite floats is `⌊x + ½⌋`** -/
theorem round32_spec {x : Float32} (hx : IsFin x) (h0 : 0 ≤ v x) :
    IsFin (round32 x) ∧ v (round32 x) = ⌊v x + 1 / 2⌋ := by
  rw [round32_eq, hx.not_nan]
  simp only [Bool.false_eq_true, if_false]
  by_cases hbig : two23 ≤ x
  · rw [if_pos hbig]
    refine ⟨hx, ?_⟩
    have : 2^23 ≤ |v x| := by
      have := (le_iff fin_two23 hx).mp hbig
      rw [v_two23] at this; rwa [abs_of_nonneg h0]
    obtain ⟨n, hn⟩ := isInt_of_large hx this
    rw [hn, floor_add_half_int]
  · rw [if_neg hbig]
    have hlt : v x < 2^23 := by
      have := mt (le_iff fin_two23 hx).mpr hbig
      rwa [v_two23, not_le] at this
    have hneg : ¬ x < zero32 := by
      intro h; have := (lt_iff hx fin_zero32).mp h; rw [v_zero32] at this; linarith
    rw [if_neg hneg]
    have hcast := toUInt32_eq hx h0 (lt_trans hlt (by norm_num))
    have hfl0 : 0 ≤ ⌊v x⌋ := Int.floor_nonneg.mpr h0
    have hfl1 : ⌊v x⌋ < 2^23 := by rw [Int.floor_lt]; exact_mod_cast hlt
    have ht : x.toUInt32.toNat < 2^23 := by omega
    obtain ⟨ft, vt⟩ := toFloat32_small x.toUInt32 (lt_trans ht (by norm_num))
    have vt' : v x.toUInt32.toFloat32 = ⌊v x⌋ := by rw [vt, ← hcast]; simp
    have ht1 : (x.toUInt32 + 1).toNat = x.toUInt32.toNat + 1 := by
      rw [UInt32.toNat_add, show (1 : UInt32).toNat = 1 from rfl, Nat.mod_eq_of_lt (by omega)]
    obtain ⟨ft1, vt1⟩ := toFloat32_small (x.toUInt32 + 1) (by rw [ht1]; omega)
    have vt1' : v (x.toUInt32 + 1).toFloat32 = ⌊v x⌋ + 1 := by
      rw [vt1, ht1, ← hcast]; push_cast; rfl
    have hfr0 : 0 ≤ v x - ⌊v x⌋ := by linarith [Int.floor_le (v x)]
    have hfr1 : v x - ⌊v x⌋ < 1 := by linarith [Int.lt_floor_add_one (v x)]
    have hd := sub_of_le hx ft (n := 1) (by norm_num) (by
      rw [vt', abs_of_nonneg hfr0]; push_cast; linarith)
    exact round32_small hx h0 ft vt' ft1 vt1' hd fin_half32 v_half32

theorem round32_neg {x : Float32} (hx : IsFin x) (h0 : v x < 0) : round32 x = x := by
  rw [round32_eq, hx.not_nan]
  simp only [Bool.false_eq_true, if_false]
  have hbig : ¬ two23 ≤ x := by
    intro h; have := (le_iff fin_two23 hx).mp h; rw [v_two23] at this
    have : (0 : ℚ) < 2^23 := by positivity
    linarith
  rw [if_neg hbig, if_pos ((lt_iff hx fin_zero32).mpr (by rw [v_zero32]; exact h0))]

theorem clamp32_spec {x lo hi : Float32} (hx : IsFin x) (hl : IsFin lo) (hh : IsFin hi) (hlh : v lo ≤ v hi) :
    IsFin (clamp32 x lo hi) ∧ v (clamp32 x lo hi) = max (v lo) (min (v x) (v hi)) := by
  unfold clamp32
  by_cases h1 : x < lo
  · rw [if_pos h1]
    have := (lt_iff hx hl).mp h1
    exact ⟨hl, by rw [min_eq_left (by linarith), max_eq_left this.le]⟩
  · rw [if_neg h1]
    have h1' := not_lt.mp (mt (lt_iff hx hl).mpr h1)
    by_cases h2 : hi < x
    · rw [if_pos h2]
      have := (lt_iff hh hx).mp h2
      exact ⟨hh, by rw [min_eq_right this.le, max_eq_right hlh]⟩
    · rw [if_neg h2]
      have h2' := not_lt.mp (mt (lt_iff hh hx).mpr h2)
      exact ⟨hx, by rw [min_eq_left h2', max_eq_right h1']⟩

/-- `toUInt8` of a finite float with a natural-number value `≤ 255` -/
theorem toUInt8_nat {x : Float32} (hx : IsFin x) {n : ℕ} (hn : v x = n) (hle : n ≤ 255) : x.toUInt8.toNat = n := by
  show (UnpackedFloat.toUInt8 (U x)).toNat = n
  unfold UnpackedFloat.toUInt8
  rw [toInt_of_nonneg hx (by show 0 ≤ v x; rw [hn]; positivity)]
  have : ⌊val (U x)⌋ = (n : ℤ) := by show ⌊v x⌋ = _; rw [hn]; simp
  rw [this, Int.toNat_natCast, UInt8.ofNatClamp_eq_ofNat _ (by show n < 256; omega), UInt8.toNat_ofNat_of_lt' (by show n < 256; omega)]

end f32

end StimSpec
