/-
  C05 — reading the widened per-cell checks of `Lemmas/C05_Err16MidCheck.lean` at ℝ: a cell that passes has
  `L(t) − 0.6 < 65535·x^(5/9) ≤ L(t) − 0.4` for **every real `x` within half an ulp of its pattern `65536·k + t`**.
-/
import PaletteProofs.Lemmas.C05_Err16MidCheck
import PaletteProofs.Lemmas.C05_Err16Real
import PaletteProofs.Lemmas.C05_MidReal

namespace C05E16
open C05E

/-- the real point `w / 2^dexp` -/
noncomputable def ptv (w dexp : Nat) : ℝ := (w:ℝ) / 2 ^ dexp

theorem ptv_nonneg (w dexp : Nat) : 0 ≤ ptv w dexp := by unfold ptv; positivity

theorem upPt_real (entry t w dexp : Nat) (h : upPt entry t w dexp = true) :
    Lr entry t - 0.6 < 65535 * ptv w dexp ^ (((5:ℕ):ℝ) / ((9:ℕ):ℝ)) := by
  simp only [upPt, Bool.and_eq_true, decide_eq_true_eq] at h
  obtain ⟨hpos, hc⟩ := h
  have hc' := (Nat.cast_lt (α := ℝ)).mpr hc
  push_cast [Nat.cast_sub hpos.le] at hc'
  have hpos' := (Nat.cast_lt (α := ℝ)).mpr hpos
  push_cast at hpos'
  set l : ℝ := (lnum entry t : ℝ) with hl
  have hK : (0:ℝ) < (K16 : ℝ) := by rw [K16_cast]; positivity
  have hN0 : 0 ≤ 5 * l - (c06 : ℝ) := by linarith
  have h2 : (0:ℝ) < ((2:ℝ) ^ dexp) ^ 5 := by positivity
  have hpow : ((5 * l - (c06 : ℝ)) / K16) ^ 9 < ptv w dexp ^ 5 := by
    unfold ptv
    rw [div_pow, div_pow, div_lt_div_iff₀ (pow_pos hK 9) h2, ← pow_mul]
    exact hc'
  have hy := lt_rpow_div_of_pow_lt (ptv_nonneg w dexp) (div_nonneg hN0 hK.le) (by decide : 0 < 9) hpow
  rw [div_lt_iff₀ hK, K16_cast, c06_cast] at hy
  unfold Lr
  rw [← hl]
  have e : l / 2 ^ 32 - 0.6 = (5 * l - 3 * 2 ^ 32) / (5 * 2 ^ 32) := by
    field_simp; ring
  rw [e, div_lt_iff₀ (by positivity)]
  linarith

theorem loPt_real (entry t w0 w dexp : Nat) (h0 : 0 < w0) (h : loPt entry t w0 w dexp = true) :
    65535 * (ptv w0 dexp ^ (((5:ℕ):ℝ) / ((9:ℕ):ℝ)) *
        (1 + (((5:ℕ):ℝ) / ((9:ℕ):ℝ)) * (ptv w dexp / ptv w0 dexp - 1))) ≤ Lr entry t - 0.4 := by
  simp only [loPt, Bool.and_eq_true, decide_eq_true_eq] at h
  obtain ⟨hpos, hc⟩ := h
  have hc' := (Nat.cast_le (α := ℝ)).mpr hc
  push_cast [Nat.cast_sub hpos.le] at hc'
  have hpos' := (Nat.cast_lt (α := ℝ)).mpr hpos
  push_cast at hpos'
  set l : ℝ := (lnum entry t : ℝ) with hl
  have hw0p : (0:ℝ) < (w0 : ℝ) := by exact_mod_cast h0
  have hwn : (0:ℝ) ≤ (w : ℝ) := Nat.cast_nonneg _
  have hK : (0:ℝ) < (K16 : ℝ) := by rw [K16_cast]; positivity
  have hN0 : 0 ≤ 5 * l - (c04 : ℝ) := by linarith
  have hsum : 0 < 4 * (w0:ℝ) + 5 * w := by linarith
  have hden : 0 < (K16 : ℝ) * (4 * (w0:ℝ) + 5 * w) := mul_pos hK hsum
  have hnum : 0 ≤ (5 * l - (c04 : ℝ)) * 9 * w0 := mul_nonneg (mul_nonneg hN0 (by norm_num)) hw0p.le
  have h2 : (0:ℝ) < ((2:ℝ) ^ dexp) ^ 5 := by positivity
  have hpow : ptv w0 dexp ^ 5 ≤ (((5 * l - (c04 : ℝ)) * 9 * w0) / ((K16 : ℝ) * (4 * (w0:ℝ) + 5 * w))) ^ 9 := by
    unfold ptv
    rw [div_pow, div_pow, div_le_div_iff₀ h2 (pow_pos hden 9), ← pow_mul]
    exact hc'
  have hy := rpow_div_le_of_pow_le (ptv_nonneg w0 dexp) (div_nonneg hnum hden.le) (by decide : 0 < 9) hpow
  have hF : 1 + (((5:ℕ):ℝ) / ((9:ℕ):ℝ)) * (ptv w dexp / ptv w0 dexp - 1) = (4 * (w0:ℝ) + 5 * w) / (9 * w0) := by
    unfold ptv
    push_cast
    have : (2:ℝ) ^ dexp ≠ 0 := by positivity
    field_simp
    ring
  rw [hF]
  have hF0 : 0 ≤ (4 * (w0:ℝ) + 5 * w) / (9 * w0) := div_nonneg hsum.le (by linarith)
  have step := mul_le_mul_of_nonneg_right hy hF0
  have e1 : ((5 * l - (c04 : ℝ)) * 9 * w0) / ((K16 : ℝ) * (4 * (w0:ℝ) + 5 * w)) * ((4 * (w0:ℝ) + 5 * w) / (9 * w0)) =
      (5 * l - (c04 : ℝ)) / K16 := by
    have h1 : 4 * (w0:ℝ) + 5 * w ≠ 0 := ne_of_gt hsum
    have h3 : (w0:ℝ) ≠ 0 := ne_of_gt hw0p
    have h4 : (K16 : ℝ) ≠ 0 := ne_of_gt hK
    field_simp
  rw [e1] at step
  unfold Lr
  rw [← hl]
  have e2 : l / 2 ^ 32 - 0.4 = 65535 * ((5 * l - (c04 : ℝ)) / K16) := by
    rw [K16_cast, c04_cast]; field_simp; ring
  rw [e2]
  exact mul_le_mul_of_nonneg_left step (by norm_num)

/-- the three points of a pattern of a cell, affine in the offset -/
theorem cell_pts (k s : Nat) (hk : 128 ≤ k) (hs : s < 65536) :
    ptv (Wlo (65536 * k + s)) 151 = ((mant (65536 * k) : ℝ) + s - 1 / 2) * ((2:ℝ) ^ expo (65536 * k) / 2 ^ 150) ∧
    ptv (Wmid (65536 * k + s)) 151 = ((mant (65536 * k) : ℝ) + s) * ((2:ℝ) ^ expo (65536 * k) / 2 ^ 150) ∧
    ptv (Whi (65536 * k + s)) 151 = ((mant (65536 * k) : ℝ) + s + 1 / 2) * ((2:ℝ) ^ expo (65536 * k) / 2 ^ 150) := by
  obtain ⟨hm, he⟩ := cell_mant_expo k s hk hs
  have hmp : 1 ≤ 2 * (mant (65536 * k) + s) := by
    have : 0 < mant (65536 * k) := mant_pos (by omega)
    omega
  have e151 : (2:ℝ) ^ 151 = 2 * 2 ^ 150 := by norm_num
  unfold ptv Wlo Wmid Whi C05M.loM C05M.hiM
  rw [hm, he, e151]
  refine ⟨?_, ?_, ?_⟩
  · rw [Nat.cast_mul, Nat.cast_sub hmp]; push_cast; field_simp
  · push_cast; field_simp
  · push_cast; field_simp

/-- **a cell that passes its six widened checks**: for every real `x` between the half-ulp ends of the pattern `65536·k + t` -/
theorem cell_mid_real (entry k t : Nat) (hk : 128 ≤ k) (ht : t < 65536) (h : cellMidOK entry (65536 * k) = true)
    (x : ℝ) (hxlo : ptv (Wlo (65536 * k + t)) 151 ≤ x) (hxhi : x ≤ ptv (Whi (65536 * k + t)) 151) :
    Lr entry t - 0.6 < 65535 * x ^ (((5:ℕ):ℝ) / ((9:ℕ):ℝ)) ∧
    65535 * x ^ (((5:ℕ):ℝ) / ((9:ℕ):ℝ)) ≤ Lr entry t - 0.4 := by
  simp only [cellMidOK, Bool.and_eq_true] at h
  obtain ⟨⟨⟨⟨⟨u0, u1⟩, l00⟩, l01⟩, l10⟩, l11⟩ := h
  have hp0 : (0:ℝ) ≤ ((5:ℕ):ℝ) / ((9:ℕ):ℝ) := by norm_num
  have hp1 : ((5:ℕ):ℝ) / ((9:ℕ):ℝ) ≤ 1 := by norm_num
  set lo := 65536 * k with hlo
  set c : ℝ := (2:ℝ) ^ expo lo / 2 ^ 150 with hc
  have hcp : 0 < c := by rw [hc]; positivity
  set m : ℝ := (mant lo : ℝ) with hm
  have hm1 : (1:ℝ) ≤ m := by
    have : 0 < mant lo := mant_pos (by omega)
    rw [hm]; exact_mod_cast this
  set A : ℝ := (lA entry : ℝ) with hA
  set S : ℝ := (lS entry : ℝ) with hS
  have hL : ∀ s : Nat, Lr entry s = (A + S * s) / 2 ^ 32 := by
    intro s; unfold Lr lnum; push_cast; rfl
  have pm : ∀ s : Nat, s < 65536 → ptv (Wlo (lo + s)) 151 = (m + s - 1 / 2) * c := fun s hs => (cell_pts k s hk hs).1
  have p0 : ∀ s : Nat, s < 65536 → ptv (Wmid (lo + s)) 151 = (m + s) * c := fun s hs => (cell_pts k s hk hs).2.1
  have pp : ∀ s : Nat, s < 65536 → ptv (Whi (lo + s)) 151 = (m + s + 1 / 2) * c := fun s hs => (cell_pts k s hk hs).2.2
  have linkm : ∀ (d : ℝ) (s : Nat), s < 65536 →
      ((A - S * (m - 1 / 2)) / 2 ^ 32 - d) + S / (c * 2 ^ 32) * ptv (Wlo (lo + s)) 151 = Lr entry s - d := by
    intro d s hs
    rw [pm s hs, hL s]
    field_simp
    ring
  have linkp : ∀ (d : ℝ) (s : Nat), s < 65536 →
      ((A - S * (m + 1 / 2)) / 2 ^ 32 - d) + S / (c * 2 ^ 32) * ptv (Whi (lo + s)) 151 = Lr entry s - d := by
    intro d s hs
    rw [pp s hs, hL s]
    field_simp
    ring
  have monom : ∀ s s' : Nat, s ≤ s' → s' < 65536 → ptv (Wlo (lo + s)) 151 ≤ ptv (Wlo (lo + s')) 151 := by
    intro s s' hss hs'
    rw [pm s (by omega), pm s' hs']
    have : (s:ℝ) ≤ s' := by exact_mod_cast hss
    exact mul_le_mul_of_nonneg_right (by linarith) hcp.le
  have monop : ∀ s s' : Nat, s ≤ s' → s' < 65536 → ptv (Whi (lo + s)) 151 ≤ ptv (Whi (lo + s')) 151 := by
    intro s s' hss hs'
    rw [pp s (by omega), pp s' hs']
    have : (s:ℝ) ≤ s' := by exact_mod_cast hss
    exact mul_le_mul_of_nonneg_right (by linarith) hcp.le
  have posm : ∀ s : Nat, s < 65536 → 0 < ptv (Wlo (lo + s)) 151 := by
    intro s hs; rw [pm s hs]
    have : (0:ℝ) ≤ s := Nat.cast_nonneg _
    exact mul_pos (by linarith) hcp
  have pos0 : ∀ s : Nat, s < 65536 → 0 < ptv (Wmid (lo + s)) 151 := by
    intro s hs; rw [p0 s hs]
    have : (0:ℝ) ≤ s := Nat.cast_nonneg _
    exact mul_pos (by linarith) hcp
  have w0pos : ∀ s : Nat, 0 < Wmid (lo + s) := by
    intro s
    have : 0 < mant (lo + s) := mant_pos (by omega)
    unfold Wmid
    exact Nat.mul_pos (by omega) (Nat.two_pow_pos _)
  have hx0 : 0 ≤ x := le_trans (posm t ht).le hxlo
  constructor
  · have a0 := upPt_real entry 0 _ 151 u0
    have a1 := upPt_real entry 65535 _ 151 u1
    rw [← linkm 0.6 0 (by omega)] at a0
    rw [← linkm 0.6 65535 (by omega)] at a1
    have := affine_lt_rpow (by norm_num) hp0 hp1 (posm 0 (by omega)).le (monom 0 t (by omega) ht)
      (monom t 65535 (by omega) (by omega)) (posm t ht) a0 a1
    rw [linkm 0.6 t ht] at this
    have mono := Real.rpow_le_rpow (posm t ht).le hxlo hp0
    linarith
  · have mono := Real.rpow_le_rpow hx0 hxhi hp0
    by_cases hlt : t ≤ 32768
    · have a0 := loPt_real entry 0 _ _ 151 (w0pos 16384) l00
      have a1 := loPt_real entry 32768 _ _ 151 (w0pos 16384) l01
      rw [← linkp 0.4 0 (by omega)] at a0
      rw [← linkp 0.4 32768 (by omega)] at a1
      have := rpow_le_affine (by norm_num) hp0 hp1 (pos0 16384 (by omega)) (ptv_nonneg _ _)
        (monop 0 t (by omega) ht) (monop t 32768 hlt (by omega)) a0 a1
      rw [linkp 0.4 t ht] at this
      linarith
    · have a0 := loPt_real entry 32768 _ _ 151 (w0pos 49152) l10
      have a1 := loPt_real entry 65535 _ _ 151 (w0pos 49152) l11
      rw [← linkp 0.4 32768 (by omega)] at a0
      rw [← linkp 0.4 65535 (by omega)] at a1
      have := rpow_le_affine (by norm_num) hp0 hp1 (pos0 49152 (by omega)) (ptv_nonneg _ _)
        (monop 32768 t (by omega) ht) (monop t 65535 (by omega) (by omega)) a0 a1
      rw [linkp 0.4 t ht] at this
      linarith

end C05E16
