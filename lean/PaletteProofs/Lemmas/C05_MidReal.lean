/-
  C05 — reading the block checks of `Lemmas/C05_MidCheck.lean` at ℝ: a passed check bounds `255·curve` on the whole real interval
  `[(2·mant lo − 1)·2^expo lo, (2·mant hi + 1)·2^expo hi] / 2^151` of the block; every real within half an ulp of a pattern of an
  aligned block of 4096 lies in that interval.
-/
import PaletteProofs.Lemmas.C05_MidCheck
import PaletteProofs.Lemmas.C05_ErrReal

namespace C05M
open C05E

/-- the real point `m·2^s / d` -/
noncomputable def pt (m s d : Nat) : ℝ := (m:ℝ) * 2 ^ s / d

theorem pt_nonneg (m s d : Nat) : 0 ≤ pt m s d := by unfold pt; positivity

theorem pt_zero (n d : Nat) : pt n 0 d = (n:ℝ) / d := by unfold pt; simp

theorem pt_pow (m s d p : Nat) : (pt m s d) ^ p = ((m:ℝ) ^ p * 2 ^ (s * p)) / (d:ℝ) ^ p := by
  unfold pt
  rw [div_pow, mul_pow, ← pow_mul]

theorem D_pos : 0 < D := by unfold D; positivity

theorem D_cast : (D:ℝ) = 2 ^ 151 := by unfold D; norm_num

theorem upperG_real (P : Piece) (hw : P.WF) (res m s d : Nat) (hd : 0 < d) (h : upperG P res m s d = true) :
    P.scaled (pt m s d) < res + 0.6 := by
  simp only [upperG, decide_eq_true_eq] at h
  have hc := (Nat.cast_lt (α := ℝ)).mpr h
  push_cast at hc
  have h1 : (0:ℝ) < P.k1 := by exact_mod_cast hw.k1
  have h3 : (0:ℝ) < P.k3 := by exact_mod_cast hw.k3
  have hd' : (0:ℝ) < d := by exact_mod_cast hd
  set N : ℝ := (P.k1:ℝ) * res + P.k2u with hN
  have hN0 : 0 ≤ N := by positivity
  have hpow : (pt m s d) ^ P.p < (N / P.k3) ^ P.q := by
    rw [pt_pow, div_pow, div_lt_div_iff₀ (by positivity) (by positivity)]
    exact hc
  have hy := rpow_div_lt_of_pow_lt (pt_nonneg m s d) (div_nonneg hN0 (le_of_lt h3)) hw.q hpow
  rw [lt_div_iff₀ h3] at hy
  unfold Piece.scaled
  have : ((P.k3:ℝ) * pt m s d ^ ((P.p:ℝ) / (P.q:ℝ)) - P.k2u) / P.k1 < res := by
    rw [div_lt_iff₀ h1]; rw [hN] at hy; linarith
  linarith

theorem lowerG_real (P : Piece) (hw : P.WF) (res m s d : Nat) (hd : 0 < d) (h : lowerG P res m s d = true) :
    (res:ℝ) - 0.6 < P.scaled (pt m s d) := by
  have h1 : (0:ℝ) < P.k1 := by exact_mod_cast hw.k1
  have h3 : (0:ℝ) < P.k3 := by exact_mod_cast hw.k3
  have hd' : (0:ℝ) < d := by exact_mod_cast hd
  have hgap := (congrArg (Nat.cast (R := ℝ)) hw.gap)
  push_cast at hgap
  have hy0 : 0 ≤ pt m s d ^ ((P.p:ℝ) / (P.q:ℝ)) := Real.rpow_nonneg (pt_nonneg m s d) _
  unfold Piece.scaled
  suffices hs : (P.k1:ℝ) * res - 1.2 * P.k1 < (P.k3:ℝ) * pt m s d ^ ((P.p:ℝ) / (P.q:ℝ)) - P.k2u by
    have : (res:ℝ) - 1.2 < ((P.k3:ℝ) * pt m s d ^ ((P.p:ℝ) / (P.q:ℝ)) - P.k2u) / P.k1 := by
      rw [lt_div_iff₀ h1]; linarith
    linarith
  by_cases hneg : P.k1 * res + P.k2lp < P.k2ln
  · have hc := (Nat.cast_lt (α := ℝ)).mpr hneg
    push_cast at hc
    have : 0 ≤ (P.k3:ℝ) * pt m s d ^ ((P.p:ℝ) / (P.q:ℝ)) := mul_nonneg (le_of_lt h3) hy0
    linarith
  · simp only [lowerG, Bool.or_eq_true, decide_eq_true_eq] at h
    rcases h with h | h
    · exact absurd h hneg
    · have hge : P.k2ln ≤ P.k1 * res + P.k2lp := Nat.le_of_not_lt hneg
      have hc := (Nat.cast_lt (α := ℝ)).mpr h
      rw [Nat.cast_mul, Nat.cast_pow, Nat.cast_sub hge] at hc
      push_cast at hc
      set N : ℝ := (P.k1:ℝ) * res + P.k2lp - P.k2ln with hN
      have hN0 : 0 ≤ N := by
        have := (Nat.cast_le (α := ℝ)).mpr hge; push_cast at this; rw [hN]; linarith
      have hpow : (N / P.k3) ^ P.q < (pt m s d) ^ P.p := by
        rw [pt_pow, div_pow, div_lt_div_iff₀ (by positivity) (by positivity)]
        exact hc
      have hy := lt_rpow_div_of_pow_lt (pt_nonneg m s d) (div_nonneg hN0 (le_of_lt h3)) hw.q hpow
      rw [div_lt_iff₀ h3] at hy
      rw [hN] at hy
      linarith

/-- **a passed block check bounds the piece that applies, at every real of the block's interval** -/
theorem blockMid_real (toe pow : Piece) (hwt : toe.WF) (hwp : pow.WF) (tn td res lo hi : Nat) (htd : 0 < td)
    (h : blockMidOK toe pow tn td res lo hi = true) (x : ℝ)
    (h1 : pt (loM lo) (expo lo) D ≤ x) (h2 : x ≤ pt (hiM hi) (expo hi) D) :
    (x ≤ (tn:ℝ) / td → (res:ℝ) - 0.6 < toe.scaled x ∧ toe.scaled x < res + 0.6) ∧
    ((tn:ℝ) / td ≤ x → (res:ℝ) - 0.6 < pow.scaled x ∧ pow.scaled x < res + 0.6) := by
  have hD := D_pos
  have hD' : (0:ℝ) < D := by exact_mod_cast hD
  have htd' : (0:ℝ) < td := by exact_mod_cast htd
  have hx0 : 0 ≤ x := le_trans (pt_nonneg _ _ _) h1
  have hθ0 : (0:ℝ) ≤ (tn:ℝ) / td := by positivity
  unfold blockMidOK at h
  split at h
  · -- the whole interval is below θ
    rename_i c1
    have hc := (Nat.cast_lt (α := ℝ)).mpr c1
    push_cast at hc
    have hlt : pt (hiM hi) (expo hi) D < (tn:ℝ) / td := by
      unfold pt; rw [div_lt_div_iff₀ hD' htd']; exact hc
    simp only [Bool.and_eq_true] at h
    have l := lowerG_real toe hwt res _ _ D hD h.1
    have u := upperG_real toe hwt res _ _ D hD h.2
    refine ⟨fun _ => ?_, fun hge => absurd hge (not_le.mpr (lt_of_le_of_lt h2 hlt))⟩
    have m1 := toe.scaled_mono hwt (pt_nonneg _ _ _) h1
    have m2 := toe.scaled_mono hwt hx0 h2
    exact ⟨by linarith, by linarith⟩
  · split at h
    · -- the whole interval is above θ
      rename_i _ c2
      have hc := (Nat.cast_lt (α := ℝ)).mpr c2
      push_cast at hc
      have hlt : (tn:ℝ) / td < pt (loM lo) (expo lo) D := by
        unfold pt; rw [div_lt_div_iff₀ htd' hD']; exact hc
      simp only [Bool.and_eq_true] at h
      have l := lowerG_real pow hwp res _ _ D hD h.1
      have u := upperG_real pow hwp res _ _ D hD h.2
      refine ⟨fun hle => absurd hle (not_le.mpr (lt_of_lt_of_le hlt h1)), fun _ => ?_⟩
      have m1 := pow.scaled_mono hwp (pt_nonneg _ _ _) h1
      have m2 := pow.scaled_mono hwp hx0 h2
      exact ⟨by linarith, by linarith⟩
    · -- θ inside: toe up to θ, power segment from θ on
      simp only [Bool.and_eq_true] at h
      obtain ⟨⟨⟨a1, a2⟩, a3⟩, a4⟩ := h
      have l1 := lowerG_real toe hwt res _ _ D hD a1
      have u1 := upperG_real toe hwt res tn 0 td htd a2
      have l2 := lowerG_real pow hwp res tn 0 td htd a3
      have u2 := upperG_real pow hwp res _ _ D hD a4
      rw [pt_zero] at u1 l2
      constructor
      · intro hle
        have m1 := toe.scaled_mono hwt (pt_nonneg _ _ _) h1
        have m2 := toe.scaled_mono hwt hx0 hle
        exact ⟨by linarith, by linarith⟩
      · intro hge
        have m1 := pow.scaled_mono hwp hθ0 hge
        have m2 := pow.scaled_mono hwp hx0 h2
        exact ⟨by linarith, by linarith⟩

/-! ## half-ulp neighbourhoods of patterns -/

/-- `x` is within half a unit in the last place of the pattern `b` (every real that rounds to `b`, under any tie rule, is) -/
def Near (x : ℝ) (b : Nat) : Prop := |x - f32val b| ≤ 2 ^ (expo b) / 2 ^ 151

theorem near_self (b : Nat) : Near (f32val b) b := by
  unfold Near; rw [sub_self, abs_zero]; positivity

theorem f32val_eq_pt (b : Nat) : f32val b = pt (2 * mant b) (expo b) D := by
  unfold f32val pt; rw [D_cast]; push_cast; ring

theorem hi_of_near {x : ℝ} {b : Nat} (h : Near x b) : x ≤ pt (hiM b) (expo b) D := by
  unfold Near at h
  have := (abs_le.mp h).2
  unfold pt hiM; rw [D_cast]
  unfold f32val at this
  push_cast
  have e : ((2 * (mant b : ℝ) + 1) * 2 ^ expo b) / 2 ^ 151 = (mant b : ℝ) * 2 ^ expo b / 2 ^ 150 + 2 ^ expo b / 2 ^ 151 := by
    field_simp
  rw [e]; linarith

theorem lo_of_near {x : ℝ} {b : Nat} (hb : 0 < mant b) (h : Near x b) : pt (loM b) (expo b) D ≤ x := by
  unfold Near at h
  have := (abs_le.mp h).1
  unfold pt loM; rw [D_cast]
  unfold f32val at this
  have hc : ((2 * mant b - 1 : ℕ) : ℝ) = 2 * (mant b : ℝ) - 1 := by
    rw [Nat.cast_sub (by omega)]; push_cast; ring
  rw [hc]
  have e : ((2 * (mant b : ℝ) - 1) * 2 ^ expo b) / 2 ^ 151 = (mant b : ℝ) * 2 ^ expo b / 2 ^ 150 - 2 ^ expo b / 2 ^ 151 := by
    field_simp
  rw [e]; linarith

theorem expo_mono {b b' : Nat} (h : b ≤ b') : expo b ≤ expo b' := by
  unfold expo
  have p23 : (2:Nat)^23 = 8388608 := by decide
  rw [p23]
  split <;> split <;> omega

theorem pt_mono_m {m m' : Nat} (s d : Nat) (h : m ≤ m') : pt m s d ≤ pt m' s d := by
  unfold pt
  have : (m:ℝ) ≤ m' := by exact_mod_cast h
  gcongr

/-- the right end of the half-ulp neighbourhood grows with the pattern -/
theorem hi_mono {b b' : Nat} (h : b ≤ b') : pt (hiM b) (expo b) D ≤ pt (hiM b') (expo b') D := by
  have hw := weight_mono h
  have he := expo_mono h
  have hp : (2:ℝ) ^ expo b ≤ 2 ^ expo b' := pow_le_pow_right₀ (by norm_num) he
  have hwr := (Nat.cast_le (α := ℝ)).mpr hw
  push_cast at hwr
  unfold pt hiM
  push_cast
  apply div_le_div_of_nonneg_right _ (by positivity)
  nlinarith

/-- inside an aligned block of 4096 patterns the exponent is constant and the significand is monotone -/
theorem block_fields (lo b : Nat) (hal : lo % 4096 = 0) (h1 : lo ≤ b) (h2 : b ≤ lo + 4095) :
    expo b = expo lo ∧ expo (lo + 4095) = expo lo ∧ mant lo ≤ mant b ∧ mant b ≤ mant (lo + 4095) := by
  unfold expo mant
  have p23 : (2:Nat)^23 = 8388608 := by decide
  rw [p23]
  by_cases c : lo < 8388608
  · have cb : b < 8388608 := by omega
    have ch : lo + 4095 < 8388608 := by omega
    rw [if_pos c, if_pos cb, if_pos ch, if_pos c, if_pos cb, if_pos ch]
    omega
  · have cb : ¬ b < 8388608 := by omega
    have ch : ¬ lo + 4095 < 8388608 := by omega
    rw [if_neg c, if_neg cb, if_neg ch, if_neg c, if_neg cb, if_neg ch]
    omega

/-- **every real within half an ulp of a pattern of an aligned block lies in the block's real interval** -/
theorem near_in_block {x : ℝ} {lo b : Nat} (hlo : 0 < lo) (hal : lo % 4096 = 0) (h1 : lo ≤ b) (h2 : b ≤ lo + 4095) (h : Near x b) :
    pt (loM lo) (expo lo) D ≤ x ∧ x ≤ pt (hiM (lo + 4095)) (expo (lo + 4095)) D := by
  obtain ⟨e1, e2, m1, m2⟩ := block_fields lo b hal h1 h2
  have hmlo : 0 < mant lo := by
    unfold mant; split <;> omega
  constructor
  · refine le_trans ?_ (lo_of_near (by omega) h)
    rw [e1]; apply pt_mono_m; unfold loM; omega
  · refine le_trans (hi_of_near h) ?_
    rw [e1, e2]; apply pt_mono_m; unfold hiM; omega

end C05M
