/-
  `A⁻¹ · cube(B⁻¹ · B · cbrt(A · c))` for near-inverse tabulated pairs `(A, A⁻¹)`, `(B, B⁻¹)`: the shape of `Xyz → Oklab → Xyz`.
  The error of the inner pair passes through the cube (Lipschitz on the bounded set the cube roots live in) and the outer
  inverse; everything is proportional to `‖c‖∞`.
-/
import PaletteProofs.C01_Rgb
import PaletteProofs.Lemmas.CbrtReal
import PaletteProofs.Lemmas.RouteHops

namespace CubeSandwich
open C01Rgb CbrtReal C01Hops

/-- entrywise `|m| ≤ a` -/
def EntryLe (m : M3 ℝ) (a : ℝ) : Prop :=
  |m.m0| ≤ a ∧ |m.m1| ≤ a ∧ |m.m2| ≤ a ∧ |m.m3| ≤ a ∧ |m.m4| ≤ a ∧ |m.m5| ≤ a ∧ |m.m6| ≤ a ∧ |m.m7| ≤ a ∧ |m.m8| ≤ a

theorem linf_le {x : V3 ℝ} {N : ℝ} (h0 : |x.c0| ≤ N) (h1 : |x.c1| ≤ N) (h2 : |x.c2| ≤ N) : linf x ≤ N :=
  max_le h0 (max_le h1 h2)

theorem linf_nonneg (x : V3 ℝ) : 0 ≤ linf x := le_trans (abs_nonneg _) (abs_le_linf x).1

/-- the composite, with the association of `multiply_3x3_and_vec3` and the cube written `x * x * x` as in the code -/
noncomputable def sandwich (A Ai B Bi : M3 ℝ) (c : V3 ℝ) : V3 ℝ :=
  let lms := A.mulVec c
  let t' := Bi.mulVec (B.mulVec ⟨Scalar.cbrt lms.c0, Scalar.cbrt lms.c1, Scalar.cbrt lms.c2⟩)
  Ai.mulVec ⟨t'.c0 * t'.c0 * t'.c0, t'.c1 * t'.c1 * t'.c1, t'.c2 * t'.c2 * t'.c2⟩

theorem sandwich_within (A Ai B Bi : M3 ℝ) (ε₁ ε₂ a ai : ℝ) (h1 : NearId (M3.mul Ai A) ε₁) (h2 : NearId (M3.mul Bi B) ε₂)
    (hA : EntryLe A a) (hAi : EntryLe Ai ai) (c : V3 ℝ) :
    Within ((3 * ε₁ + 3 * ai * (3 * ε₂ * (3 + 9 * ε₂ + 9 * ε₂ ^ 2) * (3 * a))) * linf c) (sandwich A Ai B Bi c) c := by
  have hε₂ : 0 ≤ ε₂ := le_trans (abs_nonneg _) h2.2.1
  have ha : 0 ≤ a := le_trans (abs_nonneg _) hA.1
  have hR : 0 ≤ linf c := linf_nonneg c
  obtain ⟨c0, c1, c2⟩ := abs_le_linf c
  obtain ⟨a0, a1, a2, a3, a4, a5, a6, a7, a8⟩ := hA
  obtain ⟨i0, i1, i2, i3, i4, i5, i6, i7, i8⟩ := hAi
  -- the cone responses are bounded by U = 3a‖c‖
  set U : ℝ := 3 * a * linf c with hU
  have hU0 : 0 ≤ U := by positivity
  have u0 : |(A.mulVec c).c0| ≤ U := row_bound a0 a1 a2 c0 c1 c2
  have u1 : |(A.mulVec c).c1| ≤ U := row_bound a3 a4 a5 c0 c1 c2
  have u2 : |(A.mulVec c).c2| ≤ U := row_bound a6 a7 a8 c0 c1 c2
  -- T = U^(1/3)
  set T : ℝ := U ^ ((1 : ℝ) / 3) with hT
  have hT0 : 0 ≤ T := Real.rpow_nonneg hU0 _
  have hT3 : T ^ 3 = U := rpow_third_cube hU0
  set t : V3 ℝ := ⟨Scalar.cbrt (A.mulVec c).c0, Scalar.cbrt (A.mulVec c).c1, Scalar.cbrt (A.mulVec c).c2⟩ with ht
  have t0 : |t.c0| ≤ T := abs_cbrt_le (by rw [hT3]; exact u0)
  have t1 : |t.c1| ≤ T := abs_cbrt_le (by rw [hT3]; exact u1)
  have t2 : |t.c2| ≤ T := abs_cbrt_le (by rw [hT3]; exact u2)
  have tl : linf t ≤ T := linf_le t0 t1 t2
  -- the inner pair moves t by at most δ = 3ε₂T
  set δ : ℝ := 3 * ε₂ * T with hδ
  obtain ⟨p0, p1, p2⟩ := pair_lift Bi B ε₂ h2 t
  have hmono : 3 * ε₂ * linf t ≤ δ := by rw [hδ]; exact mul_le_mul_of_nonneg_left tl (by positivity)
  set t' : V3 ℝ := Bi.mulVec (B.mulVec t) with ht'
  have d0 : |t'.c0 - t.c0| ≤ δ := le_trans p0 hmono
  have d1 : |t'.c1 - t.c1| ≤ δ := le_trans p1 hmono
  have d2 : |t'.c2 - t.c2| ≤ δ := le_trans p2 hmono
  -- through the cube
  set H : ℝ := δ * (3 * T ^ 2 + 3 * T * δ + δ ^ 2) with hH
  have cubeStep : ∀ (x u tt : ℝ), Scalar.cbrt u = tt → |tt| ≤ T → |x - tt| ≤ δ → |x * x * x - u| ≤ H := by
    intro x u tt hc hb hd
    have := abs_cube_sub_le hb hd
    have e1 : tt + (x - tt) = x := by ring
    have e2 : tt ^ 3 = u := by rw [← hc]; exact cbrt_cube u
    rw [e1, e2] at this; exact this
  have η0 := cubeStep t'.c0 (A.mulVec c).c0 t.c0 rfl t0 d0
  have η1 := cubeStep t'.c1 (A.mulVec c).c1 t.c1 rfl t1 d1
  have η2 := cubeStep t'.c2 (A.mulVec c).c2 t.c2 rfl t2 d2
  have hHval : H = 3 * ε₂ * (3 + 9 * ε₂ + 9 * ε₂ ^ 2) * (3 * a) * linf c := by
    have : H = 3 * ε₂ * (3 + 9 * ε₂ + 9 * ε₂ ^ 2) * T ^ 3 := by rw [hH, hδ]; ring
    rw [this, hT3, hU]; ring
  -- the outer inverse
  obtain ⟨q0, q1, q2⟩ := pair_lift Ai A ε₁ h1 c
  have split : ∀ (m0 m1 m2 w0 w1 w2 l0 l1 l2 x : ℝ), |m0| ≤ ai → |m1| ≤ ai → |m2| ≤ ai → |w0 - l0| ≤ H → |w1 - l1| ≤ H → |w2 - l2| ≤ H →
      |m0 * l0 + m1 * l1 + m2 * l2 - x| ≤ 3 * ε₁ * linf c →
      |m0 * w0 + m1 * w1 + m2 * w2 - x| ≤ (3 * ε₁ + 3 * ai * (3 * ε₂ * (3 + 9 * ε₂ + 9 * ε₂ ^ 2) * (3 * a))) * linf c := by
    intro m0 m1 m2 w0 w1 w2 l0 l1 l2 x b0 b1 b2 g0 g1 g2 hq
    have hr := row_bound b0 b1 b2 g0 g1 g2
    have e : m0 * w0 + m1 * w1 + m2 * w2 - x = (m0 * l0 + m1 * l1 + m2 * l2 - x) + (m0 * (w0 - l0) + m1 * (w1 - l1) + m2 * (w2 - l2)) := by ring
    rw [e]
    refine le_trans (abs_add_le _ _) ?_
    rw [hHval] at hr
    have : (3 * ε₁ + 3 * ai * (3 * ε₂ * (3 + 9 * ε₂ + 9 * ε₂ ^ 2) * (3 * a))) * linf c
        = 3 * ε₁ * linf c + 3 * ai * (3 * ε₂ * (3 + 9 * ε₂ + 9 * ε₂ ^ 2) * (3 * a) * linf c) := by ring
    rw [this]; exact add_le_add hq hr
  refine ⟨?_, ?_, ?_⟩
  · exact split _ _ _ _ _ _ _ _ _ _ i0 i1 i2 η0 η1 η2 q0
  · exact split _ _ _ _ _ _ _ _ _ _ i3 i4 i5 η0 η1 η2 q1
  · exact split _ _ _ _ _ _ _ _ _ _ i6 i7 i8 η0 η1 η2 q2

end CubeSandwich
