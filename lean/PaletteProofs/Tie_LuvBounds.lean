/-
  Source-text tie for `palette/src/luv_bounds.rs` and the two HSLuv edges that call it (family `luvb`).

  `PaletteModel/Gen/BodiesLuvBounds.lean` is regenerated on every run from the *current text* of /repo (tools/rust2lean_luvb.py, called by
  tools/extract_plugins/luvb.py).  Each `tie_<name>` below states that the translated body **is** the hand-written model function the driver
  executes and the theorems of C02_HsluvGamut / C15_HsluvGamut / C01_Cie / C07_FiniteLuv are about - for every component type `α` and every
  `β` the `f64` side is read at (`Float` when executed, `ℝ` when reasoned about).  A changed operand, comparison, index, literal, order of
  statements, dropped guard or swapped argument in those bodies changes the generated term and breaks the theorem that names the function.

  Model functions: `Cie.luvBounds`, `Cie.boundaryLine`, `Cie.chromaStep`, `Cie.maxChromaAtHue`, `Cie.maxChroma`, `Cie.lchuvToHsluv`,
  `Cie.hsluvToLchuv` (Color/Cie.lean, unchanged) and the explicit forms of what that file had inlined or lacked (Color/LuvBoundsMore.lean):
  `Cie.intersectLengthAtAngle`, `Cie.distanceToOrigin`, `Cie.maxChromaOfBounds`, `Cie.maxSafeChromaOfBounds`, `Cie.luvBoundsOf`.
  The second block proves those explicit forms equal to what the existing theorems use (`chromaStep_eq_intersect`, `maxChroma_eq_ofBounds`),
  and the last block composes: the translated `from_lightness(l).max_chroma_at_hue(h)` is `Cie.maxChroma` (`tie_maxChroma`), and the HSLuv
  edges *with that call translated* are the model edges (`tie_lchuvToHsluv_full`, `tie_hsluvToLchuv_full`; in Tie_Bodies.lean the call is
  the model function on both sides).

  All proofs are structural: `rfl`, unfolding, one case split on the `|denom| > 1e-6` guard.  No Mathlib import.
-/
import PaletteModel.Gen.BodiesLuvBounds

namespace Tie
open Gen.BodyLuvBounds

section f64side
variable {β : Type} [Scalar β]

/-! ### `impl BoundaryLine` -/
theorem tie_intersectLengthAtAngle : @Gen.BodyLuvBounds.intersectLengthAtAngle β _ = Cie.intersectLengthAtAngle := rfl
theorem tie_distanceToOrigin : @Gen.BodyLuvBounds.distanceToOrigin β _ = Cie.distanceToOrigin := rfl

/-! ### the explicit model functions of LuvBoundsMore.lean are what `Cie.chromaStep` (used by every existing theorem) inlines -/
theorem chromaStep_eq_intersect (theta m : β) (b : Cie.BoundaryLine β) :
    Cie.chromaStep theta m b = Cie.chromaStepOpt theta m b := by
  unfold Cie.chromaStep Cie.chromaStepOpt Cie.intersectLengthAtAngle
  simp only []
  split <;> rfl

/-- the constants `M`, `KAPPA`, `EPSILON` as this translator reads them now are the `Gen.Mat.hsluv*` that `gen_matrices` of tools/extract.py
    extracts (two independent readers of the same text) and the model uses.  A changed coefficient moves both and is caught by the spec
    theorems (C02_HsluvGamut); a reader that picks the wrong literal breaks this. -/
theorem consts_eq_extracted :
    Gen.BodyLuvBounds.constM = Gen.Mat.hsluvM ∧ Gen.BodyLuvBounds.constKAPPA = Gen.Mat.hsluvKappa
    ∧ Gen.BodyLuvBounds.constEPSILON = Gen.Mat.hsluvEpsilon := ⟨rfl, rfl, rfl⟩
end f64side

section generic
variable {α : Type} {β : Type} [Scalar β] [ViaF64 α β]

/-! ### `impl LuvBounds` -/
/-- `LuvBounds::from_lightness`: the six lines, in the order of the array literal, with `sub1` / `sub2`, the epsilon branch and the
    slope / intercept formulas of the closure `line` -/
theorem tie_fromLightness :
    (fun l : α => (Gen.BodyLuvBounds.fromLightness l).bounds) = (Cie.luvBoundsOf : α → List (Cie.BoundaryLine β)) := rfl

/-- `LuvBounds::max_safe_chroma` (dead code in palette) -/
theorem tie_maxSafeChroma :
    (fun s : Prim.LuvB.LuvBounds β => (Gen.BodyLuvBounds.maxSafeChroma s : α)) = fun s => Cie.maxSafeChromaOfBounds s.bounds := rfl

variable [Scalar α] [Angle α]

/-- `LuvBounds::max_chroma_at_hue`: `f64::MAX` start value, the fold over the lines in array order, `Some`/`None` of the intersection,
    the guard `t >= 0.0 && min_chroma > t`, the conversions `hue.into_raw_radians().into()` and `T::from_f64` -/
theorem tie_maxChromaAtHue :
    (fun (s : Prim.LuvB.LuvBounds β) (hue : α) => Gen.BodyLuvBounds.maxChromaAtHue s hue) = fun s hue => Cie.maxChromaOfBounds s.bounds hue := by
  funext s hue
  have step : (fun (m : β) (b : Cie.BoundaryLine β) => Cie.chromaStepOpt (ViaF64.up (Angle.degToRad hue)) m b)
      = Cie.chromaStep (ViaF64.up (Angle.degToRad hue)) := by
    funext m b; exact (chromaStep_eq_intersect _ m b).symm
  unfold Cie.maxChromaOfBounds
  rw [← step]
  rfl

/-! ### what the existing theorems use, in terms of the tied pieces -/
theorem maxChroma_eq_ofBounds (l hue : α) : Cie.maxChroma l hue = Cie.maxChromaOfBounds (Cie.luvBoundsOf l : List (Cie.BoundaryLine β)) hue := rfl

/-- the call the two HSLuv edges make, `LuvBounds::from_lightness(l).max_chroma_at_hue(hue)`, translated end to end, is `Cie.maxChroma` -/
theorem tie_maxChroma :
    (fun l hue : α => Gen.BodyLuvBounds.maxChromaAtHue (Gen.BodyLuvBounds.fromLightness (β := β) l) hue) = Cie.maxChroma := by
  funext l hue
  rw [maxChroma_eq_ofBounds, ← congrFun (tie_fromLightness (α := α) (β := β)) l]
  exact congrFun (congrFun tie_maxChromaAtHue _) hue

/-! ### the HSLuv edges with the `LuvBounds` call translated (hsluv.rs, lchuv.rs) -/
theorem tie_lchuvToHsluv_full : @Gen.BodyLuvBounds.lchuvToHsluv α _ _ β _ _ = Cie.lchuvToHsluv := by
  funext c
  unfold Gen.BodyLuvBounds.lchuvToHsluv Cie.lchuvToHsluv
  simp only [← congrFun (congrFun (tie_maxChroma (α := α) (β := β)) _) _]

theorem tie_hsluvToLchuv_full : @Gen.BodyLuvBounds.hsluvToLchuv α _ _ β _ _ = Cie.hsluvToLchuv := by
  funext c
  unfold Gen.BodyLuvBounds.hsluvToLchuv Cie.hsluvToLchuv
  simp only [← congrFun (congrFun (tie_maxChroma (α := α) (β := β)) _) _]

/-- the translation of the edge in Gen/Bodies.lean (call = model function) and the full one agree -/
theorem lchuvToHsluv_full_eq_body : @Gen.BodyLuvBounds.lchuvToHsluv α _ _ β _ _ = @Gen.Body.lchuvToHsluv α _ _ β _ _ :=
  tie_lchuvToHsluv_full
theorem hsluvToLchuv_full_eq_body : @Gen.BodyLuvBounds.hsluvToLchuv α _ _ β _ _ = @Gen.Body.hsluvToLchuv α _ _ β _ _ :=
  tie_hsluvToLchuv_full
end generic

end Tie
