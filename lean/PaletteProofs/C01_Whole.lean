/-
  C01 — whole-route round trips and commutation: index and summary.

  The theorems live in
    * `C01_WholeChain`  — the composition principle (abstract, and for the model's route interpreter `RouteEval.runPath`);
    * `C01_WholeCie`    — CIE chains, exact (`Lch/Lchuv/Hsluv/Lab/Luv/Yxy ↔ Xyz`, `Lch ↔ Lchuv`), every white point of the table;
    * `C01_WholeRgb`    — hexcone chains (hue up to whole turns), `Hsl ↔ Hsv` shortcut = detour, linear `Rgb<S> ↔ Xyz` / `Lab` / `Lch`
                          with the decided ε for every RGB space, the three `Luma` shortcuts;
    * `C01_WholeOk`     — `Oklch/Okhwb` pairs, `Xyz → Oklab → Xyz` (ε = 3.2e-16·‖xyz‖∞, all reals), K1 lifted to colours in both
                          directions (`Rgb ↔ Oklab` shortcut against the detour through `Xyz`).
  All are statements about `RouteEval.roundTrip / convertAt / via`, i.e. about the driver's edge dispatch (`Conv.edge?`) composed
  along the derive crate's routing table (`Route.routeOf`), read at ℝ.

  Here: the tables of covered ordered pairs, each entry *proved covered* by citing its theorem (so an entry cannot outlive its
  theorem), and decided against the generated graph (`Gen.Graph.names`, `Route.routeOf`, `C01Route.shortcuts`), so the tables
  cannot go stale when the colour list or the routing changes.
-/
import PaletteProofs.C01_WholeCie
import PaletteProofs.C01_WholeRgb
import PaletteProofs.C01_WholeOk
import PaletteProofs.C01_Route

namespace C01Whole
open RouteEval Route C01Hops C01Rgb

/-- the configuration of the all-pairs harness (`Srgb`, `D65`) and its linear-light sibling -/
def cfgS : Cfg := ⟨"D65", "Srgb"⟩
def cfgL : Cfg := ⟨"D65", "LinSrgb"⟩

theorem wpS : WpOk cfgS := C01WholeCie.wpOk_D65 _
theorem wpL : WpOk cfgL := C01WholeCie.wpOk_D65 _

/-- `a → b → a` (both legs routed by the derive crate) is the identity on a non-empty domain -/
def CoveredExact (a b : Nat) : Prop :=
  ∃ (c : Cfg) (D : V3 ℝ → Prop), (∃ x, D x) ∧ ∀ x, D x → roundTrip c a b x = some x
/-- … the identity up to whole turns of the stored hue (hue-first types; `RgbHue` compares modulo 360°) -/
def CoveredTurns (a b : Nat) : Prop :=
  ∃ (c : Cfg) (D : V3 ℝ → Prop), (∃ x, D x) ∧ ∀ x, D x → ∃ n : ℤ, roundTrip c a b x = some (C01WholeRgb.turns n x)
/-- … within `e·‖x‖∞` per component, for **every** colour `x` -/
def CoveredEps (a b : Nat) (e : ℚ) : Prop :=
  ∃ c : Cfg, ∀ x, ∃ y, roundTrip c a b x = some y ∧ Within ((e : ℝ) * linf x) y x

def exactTrips : List (Nat × Nat) :=
  [(LCH, XYZ), (XYZ, LCH), (LCHUV, XYZ), (XYZ, LCHUV), (HSLUV, XYZ), (LUV, XYZ), (XYZ, LUV), (LAB, XYZ), (XYZ, LAB), (LAB, LCH), (LCH, LAB),
   (LCHUV, LUV), (LUV, LCHUV), (HSLUV, LCHUV), (LCHUV, HSLUV), (XYZ, YXY), (YXY, XYZ),
   (RGB, HSV), (RGB, HSL), (RGB, HWB), (HSL, HSV), (HSV, HSL), (HSV, HWB), (HWB, HSV),
   (OKLCH, OKLAB), (OKLAB, OKLCH), (OKHWB, OKHSV), (OKHSV, OKHWB), (XYZ, HSLUV), (LCH, LCHUV)]

def turnTrips : List (Nat × Nat) := [(HSV, RGB), (HSL, RGB), (HWB, RGB)]

def epsTrips : List (Nat × Nat × ℚ) :=
  [(RGB, XYZ, 6e-7), (XYZ, RGB, 6e-7), (RGB, LAB, 6e-7), (RGB, LCH, 6e-7), (XYZ, OKLAB, 3.2e-16), (XYZ, OKLCH, 3.2e-16)]

theorem exactTrips_covered : ∀ p ∈ exactTrips, CoveredExact p.1 p.2 := by
  obtain ⟨s, hs⟩ := C01WholeRgb.stdOk_srgb
  intro p hp
  simp only [exactTrips, List.mem_cons, List.mem_nil_iff, or_false] at hp
  rcases hp with rfl | rfl | rfl | rfl | rfl | rfl | rfl | rfl | rfl | rfl | rfl | rfl | rfl | rfl | rfl | rfl | rfl | rfl | rfl | rfl |
    rfl | rfl | rfl | rfl | rfl | rfl | rfl | rfl | rfl | rfl
  · exact ⟨cfgS, C01WholeCie.DPolar, ⟨⟨50, 30, 90⟩, by unfold C01WholeCie.DPolar; norm_num⟩, fun x hx => C01WholeCie.lch_xyz_lch cfgS wpS x hx⟩
  · exact ⟨cfgS, fun _ => True, ⟨⟨0, 0, 0⟩, trivial⟩, fun x _ => C01WholeCie.xyz_lch_xyz cfgS wpS x⟩
  · exact ⟨cfgS, _, ⟨_, C01WholeCie.dLchuv_example⟩, fun x hx => C01WholeCie.lchuv_xyz_lchuv cfgS wpS x hx⟩
  · exact ⟨cfgS, _, ⟨_, C01WholeCie.dXyzLuv_example⟩, fun x hx => C01WholeCie.xyz_lchuv_xyz cfgS wpS x hx⟩
  · exact ⟨cfgS, _, ⟨_, C01WholeCie.dHsluv_example⟩, fun x hx => C01WholeCie.hsluv_xyz_hsluv cfgS wpS x hx⟩
  · exact ⟨cfgS, _, ⟨_, C01WholeCie.dLuv_example⟩, fun x hx => C01WholeCie.luv_xyz_luv cfgS wpS x hx⟩
  · exact ⟨cfgS, _, ⟨_, C01WholeCie.dXyzLuv_example⟩, fun x hx => C01WholeCie.xyz_luv_xyz cfgS wpS x hx⟩
  · exact ⟨cfgS, fun _ => True, ⟨⟨0, 0, 0⟩, trivial⟩, fun x _ => (C01WholeCie.lab_xyz_lab cfgS wpS x).1⟩
  · exact ⟨cfgS, fun _ => True, ⟨⟨0, 0, 0⟩, trivial⟩, fun x _ => (C01WholeCie.lab_xyz_lab cfgS wpS x).2.1⟩
  · exact ⟨cfgS, fun _ => True, ⟨⟨0, 0, 0⟩, trivial⟩, fun x _ => (C01WholeCie.lab_xyz_lab cfgS wpS x).2.2⟩
  · exact ⟨cfgS, C01WholeCie.DPolar, ⟨⟨50, 30, 90⟩, by unfold C01WholeCie.DPolar; norm_num⟩, fun x hx => C01WholeCie.lch_lab_lch cfgS wpS x hx⟩
  · exact ⟨cfgS, C01WholeCie.DPolar, ⟨⟨50, 30, 90⟩, by unfold C01WholeCie.DPolar; norm_num⟩, fun x hx => C01WholeCie.lchuv_luv_lchuv cfgS wpS x hx⟩
  · exact ⟨cfgS, fun _ => True, ⟨⟨0, 0, 0⟩, trivial⟩, fun x _ => C01WholeCie.luv_lchuv_luv cfgS wpS x⟩
  · exact ⟨cfgS, fun x => 0 < Cie.maxChroma x.c2 x.c0, ⟨⟨90, 50, 50⟩, C01Cie.maxChroma_pos_example⟩,
      fun x hx => C01WholeCie.hsluv_lchuv_hsluv cfgS wpS x hx⟩
  · exact ⟨cfgS, fun x => 0 < Cie.maxChroma x.c0 x.c2, ⟨⟨50, 20, 90⟩, C01Cie.maxChroma_pos_example⟩,
      fun x hx => C01WholeCie.lchuv_hsluv_lchuv cfgS wpS x hx⟩
  · exact ⟨cfgS, fun x => x.c0 + x.c1 + x.c2 ≠ 0 ∧ x.c1 ≠ 0, ⟨⟨1, 1, 1⟩, by norm_num⟩, fun x hx => C01WholeCie.xyz_yxy_xyz cfgS x hx.1 hx.2⟩
  · exact ⟨cfgS, fun x => x.c1 ≠ 0 ∧ x.c2 ≠ 0, ⟨⟨1, 1, 1⟩, by norm_num⟩, fun x hx => C01WholeCie.yxy_xyz_yxy cfgS x hx.1 hx.2⟩
  · exact ⟨cfgS, C01WholeRgb.DRgbNonneg, ⟨⟨1, 0.5, 0⟩, by unfold C01WholeRgb.DRgbNonneg; norm_num⟩, fun x hx => C01WholeRgb.rgb_hsv_rgb_route cfgS s hs x hx⟩
  · exact ⟨cfgS, C01WholeRgb.DRgbUnit, ⟨⟨1, 0.5, 0⟩, by unfold C01WholeRgb.DRgbUnit; norm_num⟩, fun x hx => C01WholeRgb.rgb_hsl_rgb_route cfgS s hs x hx⟩
  · exact ⟨cfgS, C01WholeRgb.DRgbLit, ⟨⟨1, 0.5, 0⟩, by unfold C01WholeRgb.DRgbLit C01WholeRgb.DRgbNonneg; norm_num⟩,
      fun x hx => C01WholeRgb.rgb_hwb_rgb_route cfgS s hs x hx⟩
  · exact ⟨cfgS, fun x => 0 < x.c2 ∧ x.c2 < 1 ∧ 0 ≤ x.c1, ⟨⟨30, 0.5, 0.5⟩, by norm_num⟩,
      fun x hx => C01WholeRgb.hsl_hsv_hsl_route cfgS s hs x.c0 x.c1 x.c2 hx.1 hx.2.1 hx.2.2⟩
  · exact ⟨cfgS, fun x => x.c2 ≠ 0 ∧ (2 - x.c1) * x.c2 ≠ 0 ∧ (2 - x.c1) * x.c2 ≠ 2, ⟨⟨30, 0.5, 1⟩, by norm_num⟩,
      fun x hx => C01WholeRgb.hsv_hsl_hsv_route cfgS s hs x.c0 x.c1 x.c2 hx.1 hx.2.1 hx.2.2⟩
  · exact ⟨cfgS, fun x => x.c2 ≠ 0, ⟨⟨30, 0.5, 1⟩, by norm_num⟩, fun x hx => C01WholeRgb.hsv_hwb_hsv_route cfgS s hs x.c0 x.c1 x.c2 hx⟩
  · exact ⟨cfgS, fun x => x.c2 ≠ 1, ⟨⟨30, 0.5, 0.25⟩, by norm_num⟩, fun x hx => C01WholeRgb.hwb_hsv_hwb_route cfgS s hs x.c0 x.c1 x.c2 hx⟩
  · exact ⟨cfgS, fun x => 0 < x.c1 ∧ 0 < x.c2 ∧ x.c2 ≤ 360, ⟨⟨0.5, 0.2, 40⟩, by norm_num⟩,
      fun x hx => C01WholeOk.oklch_oklab_oklch_route cfgS x.c0 x.c1 x.c2 hx.1 hx.2.1 hx.2.2⟩
  · exact ⟨cfgS, fun _ => True, ⟨⟨0, 0, 0⟩, trivial⟩, fun x _ => C01WholeOk.oklab_oklch_oklab_route cfgS x⟩
  · exact ⟨cfgS, fun x => x.c2 ≠ 1, ⟨⟨30, 0.5, 0.25⟩, by norm_num⟩, fun x hx => C01WholeOk.okhwb_okhsv_okhwb_route cfgS x.c0 x.c1 x.c2 hx⟩
  · exact ⟨cfgS, fun x => x.c2 ≠ 0, ⟨⟨30, 0.5, 1⟩, by norm_num⟩, fun x hx => C01WholeOk.okhsv_okhwb_okhsv_route cfgS x.c0 x.c1 x.c2 hx⟩
  · exact ⟨cfgS, _, ⟨_, C01WholeCie.dXyzHsluv_example⟩, fun x hx => C01WholeCie.xyz_hsluv_xyz cfgS wpS x hx⟩
  · exact ⟨cfgS, _, ⟨_, C01WholeCie.dLchToLchuv_example⟩, fun x hx => C01WholeCie.lch_lchuv_lch cfgS wpS x hx⟩

theorem turnTrips_covered : ∀ p ∈ turnTrips, CoveredTurns p.1 p.2 := by
  obtain ⟨s, hs⟩ := C01WholeRgb.stdOk_srgb
  intro p hp
  simp only [turnTrips, List.mem_cons, List.mem_nil_iff, or_false] at hp
  rcases hp with rfl | rfl | rfl
  · exact ⟨cfgS, fun x => 0 < x.c1 ∧ x.c1 ≤ 1 ∧ 0 < x.c2, ⟨⟨30, 0.5, 1⟩, by norm_num⟩,
      fun x hx => C01WholeRgb.hsv_rgb_hsv_route cfgS s hs x.c0 x.c1 x.c2 hx.1 hx.2.1 hx.2.2⟩
  · exact ⟨cfgS, fun x => 0 < x.c1 ∧ x.c1 ≤ 1 ∧ 0 < x.c2 ∧ x.c2 < 1, ⟨⟨30, 0.5, 0.5⟩, by norm_num⟩,
      fun x hx => C01WholeRgb.hsl_rgb_hsl_route cfgS s hs x.c0 x.c1 x.c2 hx.1 hx.2.1 hx.2.2.1 hx.2.2.2⟩
  · exact ⟨cfgS, fun x => 0 ≤ x.c1 ∧ x.c1 + x.c2 < 1, ⟨⟨30, 0.2, 0.3⟩, by norm_num⟩,
      fun x hx => C01WholeRgb.hwb_rgb_hwb_route cfgS s hs x.c0 x.c1 x.c2 hx.1 hx.2⟩

theorem epsTrips_covered : ∀ t ∈ epsTrips, CoveredEps t.1 t.2.1 t.2.2 := by
  obtain ⟨s, hs, hl⟩ := C01WholeRgb.stdOk_linear.1
  have e1 : ((6e-7 : ℚ) : ℝ) = 3 * 2e-7 := by norm_num
  have e2 : ((3.2e-16 : ℚ) : ℝ) = 3.2e-16 := by norm_num
  intro t ht
  simp only [epsTrips, List.mem_cons, List.mem_nil_iff, or_false] at ht
  rcases ht with rfl | rfl | rfl | rfl | rfl | rfl
  · exact ⟨cfgL, fun x => by rw [e1]; exact C01WholeRgb.rgb_xyz_rgb_route cfgL s hs hl x⟩
  · exact ⟨cfgL, fun x => by rw [e1]; exact C01WholeRgb.xyz_rgb_xyz_route cfgL s hs hl x⟩
  · exact ⟨cfgL, fun x => by rw [e1]; exact C01WholeRgb.rgb_lab_rgb_route cfgL s hs hl wpL x⟩
  · exact ⟨cfgL, fun x => by rw [e1]; exact C01WholeRgb.rgb_lch_rgb_route cfgL s hs hl wpL x⟩
  · exact ⟨cfgL, fun x => by rw [e2]; exact C01WholeOk.xyz_oklab_xyz_route cfgL rfl x⟩
  · exact ⟨cfgL, fun x => by rw [e2]; exact C01WholeOk.xyz_oklch_xyz_route cfgL rfl x⟩

/-! ### the interpreter runs every route the harness exercises -/

/-- **every route between two colours other than `Lms` is executable by the interpreter under the harness configuration**
    (`Srgb`, `D65`): each hop is an edge of the driver's dispatch `Conv.edge?` (decided, at the driver's own component type; whether a
    hop exists does not depend on the component type).  The driver re-checks this on every `routecmp` line.  Two halves to keep each
    kernel evaluation short. -/
theorem interpreter_total_lo : (C01Route.allPairs.filter (·.1 < 9)).all (fun p => p.1 == LMS || p.2 == LMS || match routeOf p.1 p.2 with
    | some path => RouteEval.executable path
    | none => false) = true := by decide +kernel
theorem interpreter_total_hi : (C01Route.allPairs.filter (9 ≤ ·.1)).all (fun p => p.1 == LMS || p.2 == LMS || match routeOf p.1 p.2 with
    | some path => RouteEval.executable path
    | none => false) = true := by decide +kernel

/-! ### the table, by name, decided against the generated graph -/

def allTrips : List (Nat × Nat) := exactTrips ++ turnTrips ++ epsTrips.map fun t => (t.1, t.2.1)

/-- **the ordered pairs `(A, B)` whose round trip `A → B → A` is covered by a whole-route theorem** -/
def provenRoundTrips : List (String × String) := allTrips.map fun p => (nameOf p.1, nameOf p.2)

/-- the table read against `Gen.Graph.names` (a re-ordered or extended colour list changes the numbers and fails here) -/
theorem provenRoundTrips_eq : provenRoundTrips =
    [("Lch", "Xyz"), ("Xyz", "Lch"), ("Lchuv", "Xyz"), ("Xyz", "Lchuv"), ("Hsluv", "Xyz"), ("Luv", "Xyz"), ("Xyz", "Luv"), ("Lab", "Xyz"),
     ("Xyz", "Lab"), ("Lab", "Lch"), ("Lch", "Lab"), ("Lchuv", "Luv"), ("Luv", "Lchuv"), ("Hsluv", "Lchuv"), ("Lchuv", "Hsluv"),
     ("Xyz", "Yxy"), ("Yxy", "Xyz"), ("Rgb", "Hsv"), ("Rgb", "Hsl"), ("Rgb", "Hwb"), ("Hsl", "Hsv"), ("Hsv", "Hsl"), ("Hsv", "Hwb"),
     ("Hwb", "Hsv"), ("Oklch", "Oklab"), ("Oklab", "Oklch"), ("Okhwb", "Okhsv"), ("Okhsv", "Okhwb"), ("Xyz", "Hsluv"), ("Lch", "Lchuv"),
     ("Hsv", "Rgb"), ("Hsl", "Rgb"), ("Hwb", "Rgb"),
     ("Rgb", "Xyz"), ("Xyz", "Rgb"), ("Rgb", "Lab"), ("Rgb", "Lch"), ("Xyz", "Oklab"), ("Xyz", "Oklch")] := by
  decide +kernel

/-- every listed pair is a pair of distinct colours of the generated graph, is routed, and the way back is the reversed way out
    (so that "round trip" means the same edges both ways); no pair is listed twice -/
theorem provenRoundTrips_sound :
    provenRoundTrips.all (fun p => Gen.Graph.names.contains p.1 && Gen.Graph.names.contains p.2 && p.1 != p.2) = true ∧
    allTrips.all (fun p => (routeOf p.1 p.2).isSome && routeOf p.2 p.1 == (routeOf p.1 p.2).map List.reverse) = true ∧
    allTrips.eraseDups.length = allTrips.length ∧ allTrips.length = 39 := by
  decide +kernel

/-! ### commutation: every shortcut edge of the routing table against the detour it replaces -/

/-- the derive crate's route `a → b` (a shortcut edge) and the step-by-step conversion `a → m → b` both run on a non-empty domain
    and agree within `e` per component (up to whole turns `n` of a leading hue; `n = 0` and/or `e = 0` where they agree better) -/
def CommutesWithin (a m b : Nat) (e : ℚ) : Prop :=
  ∃ (c : Cfg) (D : V3 ℝ → Prop), (∃ x, D x) ∧ ∀ x, D x → ∃ (n : ℤ) (d v : V3 ℝ),
    convertAt c a b x = some d ∧ via c a m b x = some v ∧ Within (e : ℝ) v (C01WholeRgb.turns n d)

/-- `(a, m, b, e)`: shortcut `a → b`, detour over `m`, agreement `e` -/
def shortcutDetours : List (Nat × Nat × Nat × ℚ) :=
  [(RGB, XYZ, OKLAB, 3.9e-4), (OKLAB, XYZ, RGB, 6.9e-4), (HSL, RGB, HSV, 0), (HSV, RGB, HSL, 0), (LUMA, XYZ, RGB, 1e-7), (LUMA, XYZ, YXY, 0),
   (YXY, XYZ, LUMA, 0)]

theorem within_self (n : ℤ) (y : V3 ℝ) : Within ((0 : ℚ) : ℝ) (C01WholeRgb.turns n y) (C01WholeRgb.turns n y) := by
  simp [Within]

theorem turns_zero (d : V3 ℝ) : C01WholeRgb.turns 0 d = d := by simp [C01WholeRgb.turns]

theorem shortcutDetours_covered : ∀ t ∈ shortcutDetours, CommutesWithin t.1 t.2.1 t.2.2.1 t.2.2.2 := by
  obtain ⟨s, hs⟩ := C01WholeRgb.stdOk_srgb
  obtain ⟨sl, hsl, hll⟩ := C01WholeRgb.stdOk_linear.1
  obtain ⟨so, hso⟩ := C01WholeOk.srgbCfg_lin
  intro t ht
  simp only [shortcutDetours, List.mem_cons, List.mem_nil_iff, or_false] at ht
  rcases ht with rfl | rfl | rfl | rfl | rfl | rfl | rfl
  · -- Rgb → Oklab (K1 forward), linear sRGB in the unit cube
    refine ⟨cfgL, C01WholeOk.InUnit, ⟨⟨0.5, 0.5, 0.5⟩, by unfold C01WholeOk.InUnit; norm_num⟩, fun x hx => ?_⟩
    obtain ⟨d, v, h1, h2, b0, b1, b2⟩ := C01WholeOk.rgb_oklab_commutes cfgL so .linear hso x hx
    refine ⟨0, d, v, h1, h2, ?_⟩
    rw [turns_zero]
    refine ⟨le_trans b0 (by norm_num), le_trans b1 (by norm_num), le_trans b2 (by norm_num)⟩
  · -- Oklab → Rgb (K1 inverse), linear light
    refine ⟨cfgL, fun x => (|x.c0| ≤ 1 ∧ |x.c1| ≤ 1 ∧ |x.c2| ≤ 1) ∧ C01WholeOk.InUnit (C01WholeOk.lmsPrimeDirect x),
      ⟨⟨0.5, 0, 0⟩, ⟨by norm_num [abs_le], by simp only [C01WholeOk.InUnit, C01WholeOk.lmsPrimeDirect]; norm_num⟩⟩, fun x hx => ?_⟩
    obtain ⟨d, v, h1, h2, b0, b1, b2⟩ := C01WholeOk.oklab_rgb_commutes cfgL so hso x hx.1.1 hx.1.2.1 hx.1.2.2 hx.2
    refine ⟨0, d, v, h1, h2, ?_⟩
    rw [turns_zero]
    refine ⟨le_trans b0 (by norm_num), le_trans b1 (by norm_num), le_trans b2 (by norm_num)⟩
  · -- Hsl → Hsv
    refine ⟨cfgS, fun x => 0 < x.c1 ∧ x.c1 ≤ 1 ∧ 0 < x.c2 ∧ x.c2 < 1, ⟨⟨30, 0.5, 0.5⟩, by norm_num⟩, fun x hx => ?_⟩
    obtain ⟨n, y, h1, h2⟩ := C01WholeRgb.hsl_hsv_commutes cfgS s hs x.c0 x.c1 x.c2 hx.1 hx.2.1 hx.2.2.1 hx.2.2.2
    exact ⟨n, y, _, h1, h2, within_self n y⟩
  · -- Hsv → Hsl
    refine ⟨cfgS, fun x => 0 < x.c1 ∧ x.c1 ≤ 1 ∧ 0 < x.c2 ∧ x.c2 ≤ 1, ⟨⟨30, 0.5, 0.5⟩, by norm_num⟩, fun x hx => ?_⟩
    obtain ⟨n, y, h1, h2⟩ := C01WholeRgb.hsv_hsl_commutes cfgS s hs x.c0 x.c1 x.c2 hx.1 hx.2.1 hx.2.2.1 hx.2.2.2
    exact ⟨n, y, _, h1, h2, within_self n y⟩
  · -- Luma → Rgb, linear light, |luma| ≤ 1
    refine ⟨cfgL, fun x => |x.c0| ≤ 1, ⟨⟨0.5, 0, 0⟩, by norm_num [abs_le]⟩, fun x hx => ?_⟩
    obtain ⟨d, v, h1, h2, _, hw⟩ := C01WholeRgb.luma_rgb_commutes cfgL sl hsl hll x
    refine ⟨0, d, v, h1, h2, ?_⟩
    rw [turns_zero]
    have hle : 1e-7 * |x.c0| ≤ ((1e-7 : ℚ) : ℝ) := by
      have : ((1e-7 : ℚ) : ℝ) = 1e-7 := by norm_num
      rw [this]; nlinarith [abs_nonneg x.c0]
    exact ⟨le_trans hw.1 hle, le_trans hw.2.1 hle, le_trans hw.2.2 hle⟩
  · -- Luma → Yxy, off black
    refine ⟨cfgL, fun x => x.c0 ≠ 0, ⟨⟨0.5, 0, 0⟩, by norm_num⟩, fun x hx => ?_⟩
    obtain ⟨d, h1, h2⟩ := C01WholeRgb.luma_yxy_commutes cfgL sl hsl wpL x (by rw [hll]; exact hx)
    refine ⟨0, d, d, h1, h2, ?_⟩
    rw [turns_zero]; simp [Within]
  · -- Yxy → Luma
    refine ⟨cfgS, fun _ => True, ⟨⟨0, 0, 0⟩, trivial⟩, fun x _ => ?_⟩
    obtain ⟨d, h1, h2⟩ := C01WholeRgb.yxy_luma_commutes cfgS s hs x
    refine ⟨0, d, d, h1, h2, ?_⟩
    rw [turns_zero]; simp [Within]

/-- **the commutation table is exactly the list of shortcut edges** of `C01Route.shortcut_replaces_detour`, in order, each with the
    middle colour of the tree path it replaces -/
theorem shortcutDetours_are_the_shortcuts :
    shortcutDetours.map (fun t => (nameOf t.1, nameOf t.2.2.1)) = C01Route.shortcuts ∧
    shortcutDetours.all (fun t => treePath t.1 t.2.2.1 == [t.1, t.2.1, t.2.2.1] && routeOf t.1 t.2.2.1 == some [t.1, t.2.2.1] &&
      routeOf t.1 t.2.1 == some [t.1, t.2.1] && routeOf t.2.1 t.2.2.1 == some [t.2.1, t.2.2.1]) = true := by
  decide +kernel

end C01Whole
