/-
  Source-text tie, family `glue2`, sub-family `std` (C01): `Hsv<S2> ← Hsv<S1>`, `Hsl<S2> ← Hsl<S1>`, `Hwb<S2> ← Hwb<S1>`.

  `tools/extract.py` (plugin `tools/extract_plugins/glue2.py`, translator `tools/rust2lean_glue2.py` on the lowering of
  `tools/rust2lean_matrix.py`) re-translates on every run the bodies of `impl FromColorUnclamped<Hsv<S1, T>> for Hsv<S2, T>` (hsv.rs),
  the same impl of hsl.rs and of hwb.rs (which goes through `Hsv`), and the three `reinterpret_as`, into `Gen.BodyGlue2Std.*`
  (lean/PaletteModel/Gen/BodiesGlue2Std.lean).  Every trait-dispatched callee (`Rgb::<S1, T>::from_color_unclamped`,
  `Rgb::<S2, T>::from_color_unclamped`, `Self::from_color_unclamped`) is a parameter, keyed by its generic arguments, and the test
  `TypeId::of::<S1>() == TypeId::of::<S2>()` is the Boolean parameter `same_S1_S2`, given BY NAME in every statement.

  `tie_<name>`: for every `α` with `[Scalar α]`, every pair of standards and every input, the translated body with its callees
  instantiated by the model's edge functions *is* the model function the driver executes (`Conv.edge?` dispatches `RgbFam.hsvToHsv`,
  `hslToHsl`, `hwbToHwb`) and the C01 theorems are about (`C01_Rgb.hsvToHsv_same` ..).  `*_shape`: the branch structure for every
  value of the callees.  `*_composed`: the callees instantiated with the *translated* bodies of the other families
  (`Gen.Body.hsvToRgb`, `Gen.BodyMatrix.rgbFromRgb`, ..), so that the whole edge is source text on the left.
  All proofs are `rfl` or rewriting with the other ties.

  Caught by these and by nothing sampled: `S1` / `S2` exchanged in one of the two `Rgb::<..>::from_color_unclamped` calls (a type
  error in Rust unless both standards are the same type - but then the branch is dead; the term changes), the branches of the
  `TypeId` test exchanged or the test negated, `reinterpret_as` permuting components, the conversion applied twice.
  NOT translated: header of Gen/BodiesGlue2Std.lean.
-/
import PaletteModel.Gen.BodiesGlue2Std
import PaletteModel.Color.RgbFamily
import PaletteProofs.Tie_Bodies
import PaletteProofs.Tie_Matrix

namespace Tie
variable {α : Type} [Scalar α]

/-! ### `reinterpret_as`: every component copied -/
theorem tie_hsvReinterpretAs (c : V3 α) : Gen.BodyGlue2Std.hsvReinterpretAs c = Glue2.reinterpret c := rfl
theorem tie_hslReinterpretAs (c : V3 α) : Gen.BodyGlue2Std.hslReinterpretAs c = Glue2.reinterpret c := rfl
theorem tie_hwbReinterpretAs (c : V3 α) : Gen.BodyGlue2Std.hwbReinterpretAs c = Glue2.reinterpret c := rfl

/-! ### `Hsv<S2> ← Hsv<S1>` (`src = S1`, `dst = S2`) -/
theorem tie_hsvFromHsv (src dst : RgbFam.Std) (c : V3 α) :
    Gen.BodyGlue2Std.hsvFromHsv (same_S1_S2 := src.name == dst.name) RgbFam.hsvToRgb (RgbFam.rgbToRgb src dst) RgbFam.rgbToHsv c = RgbFam.hsvToHsv src dst c := rfl
/-- which branch under which type equality, for every value of the callees -/
theorem hsvFromHsv_shape (f g h : V3 α → V3 α) (same : Bool) (c : V3 α) :
    Gen.BodyGlue2Std.hsvFromHsv (same_S1_S2 := same) f g h c = if same then c else h (g (f c)) := rfl

/-! ### `Hsl<S2> ← Hsl<S1>` -/
theorem tie_hslFromHsl (src dst : RgbFam.Std) (c : V3 α) :
    Gen.BodyGlue2Std.hslFromHsl (same_S1_S2 := src.name == dst.name) RgbFam.hslToRgb (RgbFam.rgbToRgb src dst) RgbFam.rgbToHsl c = RgbFam.hslToHsl src dst c := rfl
theorem hslFromHsl_shape (f g h : V3 α → V3 α) (same : Bool) (c : V3 α) :
    Gen.BodyGlue2Std.hslFromHsl (same_S1_S2 := same) f g h c = if same then c else h (g (f c)) := rfl

/-! ### `Hwb<S2> ← Hwb<S1>`: through `Hsv<S1>` and `Hsv<S2>` -/
theorem tie_hwbFromHwb (src dst : RgbFam.Std) (c : V3 α) :
    Gen.BodyGlue2Std.hwbFromHwb (same_S1_S2 := src.name == dst.name) RgbFam.hwbToHsv (RgbFam.hsvToHsv src dst) RgbFam.hsvToHwb c = RgbFam.hwbToHwb src dst c := rfl
theorem hwbFromHwb_shape (f g h : V3 α → V3 α) (same : Bool) (c : V3 α) :
    Gen.BodyGlue2Std.hwbFromHwb (same_S1_S2 := same) f g h c = if same then c else h (g (f c)) := rfl

/-! ### composed with the ties of the callees: source text all the way down -/
/-- the whole `Hsv<S2> ← Hsv<S1>` edge with every callee a translated body (`Gen.Body.hsvToRgb`: Tie_Bodies; `Gen.BodyMatrix.rgbFromRgb`
    at the model's transfer / matrix edges: Tie_Matrix; `Gen.Body.rgbToHsv`: Tie_Bodies) is the model function -/
theorem hsvFromHsv_composed (src dst : RgbFam.Std) (c : V3 α) :
    Gen.BodyGlue2Std.hsvFromHsv (same_S1_S2 := src.name == dst.name) Gen.Body.hsvToRgb
      (Gen.BodyMatrix.rgbFromRgb (same_S1_S2 := src.name == dst.name) (same_S1_Space_as_RgbSpace_Primaries_S2_Space_as_RgbSpace_Primaries := src.space == dst.space)
        (RgbFam.intoLinear src.tf) (RgbFam.fromLinear dst.tf) (RgbFam.rgbToXyz src.toXyz src.tf) (RgbFam.xyzToRgb dst.fromXyz dst.tf))
      Gen.Body.rgbToHsv c = RgbFam.hsvToHsv src dst c := by
  rw [tie_hsvToRgb, tie_rgbToHsv, ← tie_hsvFromHsv]; rfl
theorem hslFromHsl_composed (src dst : RgbFam.Std) (c : V3 α) :
    Gen.BodyGlue2Std.hslFromHsl (same_S1_S2 := src.name == dst.name) Gen.Body.hslToRgb
      (Gen.BodyMatrix.rgbFromRgb (same_S1_S2 := src.name == dst.name) (same_S1_Space_as_RgbSpace_Primaries_S2_Space_as_RgbSpace_Primaries := src.space == dst.space)
        (RgbFam.intoLinear src.tf) (RgbFam.fromLinear dst.tf) (RgbFam.rgbToXyz src.toXyz src.tf) (RgbFam.xyzToRgb dst.fromXyz dst.tf))
      Gen.Body.rgbToHsl c = RgbFam.hslToHsl src dst c := by
  rw [tie_hslToRgb, tie_rgbToHsl, ← tie_hslFromHsl]; rfl
/-- `Hwb<S2> ← Hwb<S1>` with the translated `Hwb → Hsv`, the translated `Hsv<S2> ← Hsv<S1>` (at the model's callees) and the translated `Hsv → Hwb` -/
theorem hwbFromHwb_composed (src dst : RgbFam.Std) (c : V3 α) :
    Gen.BodyGlue2Std.hwbFromHwb (same_S1_S2 := src.name == dst.name) Gen.Body.hwbToHsv
      (Gen.BodyGlue2Std.hsvFromHsv (same_S1_S2 := src.name == dst.name) RgbFam.hsvToRgb (RgbFam.rgbToRgb src dst) RgbFam.rgbToHsv)
      Gen.Body.hsvToHwb c = RgbFam.hwbToHwb src dst c := by
  rw [tie_hwbToHsv, tie_hsvToHwb, ← tie_hwbFromHwb]; congr 1

/-! ### what C01 uses: equal standards → the identity (for every callee, i.e. whatever the Rgb conversions do) -/
theorem hsvFromHsv_same_std (f g h : V3 α → V3 α) (c : V3 α) : Gen.BodyGlue2Std.hsvFromHsv (same_S1_S2 := true) f g h c = c := rfl
theorem hslFromHsl_same_std (f g h : V3 α → V3 α) (c : V3 α) : Gen.BodyGlue2Std.hslFromHsl (same_S1_S2 := true) f g h c = c := rfl
theorem hwbFromHwb_same_std (f g h : V3 α → V3 α) (c : V3 α) : Gen.BodyGlue2Std.hwbFromHwb (same_S1_S2 := true) f g h c = c := rfl

end Tie
