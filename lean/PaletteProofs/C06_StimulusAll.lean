/-
  C06 — float → integer conversion **for every `Float32` bit pattern** (f32 → u8, f32 → u16).

  `C06_Stimulus.lean` decides finite sub-domains by kernel evaluation.  Here the clauses of C06 that quantify over all floats
  are theorems about the same model functions (`Stim.f32ToUint`, executed by the driver against the implementation), proved
  through the reasoning layer `PaletteProofs/Ieee/*` for the IEEE model of Lean core:

    value semantics `F32.v : Float32 → ℚ`,  `Float32.mul/add = R32 (exact result)` (`R32` = round to nearest, ties to even),
    `R32` monotone and within half an ulp,  `<`/`≤` = order of values,  the magic-number addition `s + 2^23` = `2^23 + rne s`
    on bit patterns.

  What the code computes (and what is proved, `f32_to_u8_closed_form`):
      f32ToUint 8 x = rne (clamp (R32 (x·255)) 0 255)           for finite x,   255 for NaN and +∞,   0 for −∞
  i.e. TWO roundings: the product is rounded to binary32 first (`R32`), then to the nearest integer, ties to even (`rne`).
  Hence "nearest integer of x·MAX" holds up to the first rounding: `|result − x·255| ≤ 1/2 + 2^-17` (half a unit of the last
  place of binary32 below 256 is 2^-17); for u16: `1/2 + 2^-9`.  The exact statement is kept as well: the result IS
  `rne (R32 (x·MAX))`.
-/
import PaletteProofs.Lemmas.StimIeee32

namespace C06
open Stim Float.Model Float.Model.UnpackedFloat Ieee Ieee.F32

def max8f : Float32 := Float32.ofBits 0x437f0000     -- 255.0
def max16f : Float32 := Float32.ofBits 0x477fff00    -- 65535.0
def one32 : Float32 := Float32.ofBits 0x3f800000     -- 1.0

theorem fin_max8f : IsFin max8f := rfl
theorem fin_max16f : IsFin max16f := rfl
theorem fin_one32 : IsFin one32 := rfl
theorem v_max8f : v max8f = ((255 : ℕ) : ℚ) := by
  unfold v; rw [show U max8f = .finite .positive 0xFF0000 (-16) (by decide) from rfl]; norm_num [val, sgn]
theorem v_max16f : v max16f = ((65535 : ℕ) : ℚ) := by
  unfold v; rw [show U max16f = .finite .positive 0xFFFF00 (-8) (by decide) from rfl]; norm_num [val, sgn]
theorem v_one32 : v one32 = 1 := by
  unfold v; rw [show U one32 = .finite .positive 0x800000 (-23) (by decide) from rfl]; norm_num [val, sgn]

theorem f32ToUint8_eq (x : Float32) : f32ToUint 8 x = (f32Direct max8f x).toNat % 256 := rfl
theorem f32ToUint16_eq (x : Float32) : f32ToUint 16 x = (f32Direct max16f x).toNat % 65536 := rfl

/-- the result as a function of the exact value: `N` for NaN and `+∞`, `0` for `−∞`, else `rne (clamp (R32 (x·N)) 0 N)` -/
def spec32 (N : ℕ) (x : Float32) : ℕ :=
  if x.isNaN then N
  else if x.isInf then (if zero32 < x then N else 0)
  else (rne (clampQ N (R32 (v x * N)))).toNat

section
variable {mx : Float32} {N : ℕ} (hm : IsFin mx) (hN : v mx = N) (hNpos : 0 < N) (hNle : N ≤ 2^23 - 1)
include hm hN hNpos hNle

theorem direct32_closed_form (x : Float32) : (f32Direct mx x).toNat = spec32 N x := by
  unfold spec32
  cases hnan : x.isNaN
  · simp only [Bool.false_eq_true, if_false]
    rcases cases_of_not_nan hnan with hx | hx | hx
    · rw [isInf_of_U hx, if_pos rfl, if_neg (not_lt_negInf fin_zero32 hx)]
      exact direct32_negInf hm hN hNpos hNle hx
    · rw [hx.not_inf]; simp only [Bool.false_eq_true, if_false]
      exact direct32_fin hm hN hNpos hNle hx
    · rw [isInf_of_U hx, if_pos rfl, if_pos (lt_posInf fin_zero32 hx)]
      exact direct32_posInf hm hN hNpos hNle hx
  · simp only [if_true]
    exact direct32_nan hm hN hNpos hNle (U_nan_of_isNaN hnan)

theorem direct32_le (x : Float32) : (f32Direct mx x).toNat ≤ N := by
  rw [direct32_closed_form hm hN hNpos hNle]; unfold spec32
  split_ifs <;> first | exact le_rfl | exact Nat.zero_le _ | exact rne_clampQ_le _

/-- at or above one (also `+∞`), and NaN: `MAX` -/
theorem direct32_sat_hi (x : Float32) (h : x.isNaN = true ∨ one32 ≤ x) : (f32Direct mx x).toNat = N := by
  have hNq : (0 : ℚ) ≤ N := by positivity
  rcases h with h | h
  · exact direct32_nan hm hN hNpos hNle (U_nan_of_isNaN h)
  · rcases cases_of_not_nan (not_nan_of_le h).2 with hx | hx | hx
    · exact absurd h (not_le_negInf fin_one32 hx)
    · rw [direct32_fin hm hN hNpos hNle hx]
      have h1 : 1 ≤ v x := by rw [← v_one32]; exact (le_iff fin_one32 hx).mp h
      have h2 : (N : ℚ) ≤ R32 (v x * N) := by
        have := R_mono (p := spec.mantissaBits) (emin := spec.minExponent) (one_le_mantissaBits spec)
          (show (N : ℚ) ≤ v x * N by nlinarith)
        rwa [R_natCast_of_lt (lt_of_le_of_lt hNle (by decide)) (by decide)] at this
      rw [clampQ_of_ge hNq h2, rne_natCast]; rfl
    · exact direct32_posInf hm hN hNpos hNle hx

/-- at or below zero (also `−0`, `−∞`): `0` -/
theorem direct32_sat_lo (x : Float32) (h : x ≤ zero32) : (f32Direct mx x).toNat = 0 := by
  have hNq : (0 : ℚ) ≤ N := by positivity
  rcases cases_of_not_nan (not_nan_of_le h).1 with hx | hx | hx
  · exact direct32_negInf hm hN hNpos hNle hx
  · rw [direct32_fin hm hN hNpos hNle hx]
    have h1 : v x ≤ 0 := by rw [← v_zero32]; exact (le_iff hx fin_zero32).mp h
    have h2 : R32 (v x * N) ≤ 0 := by
      have := R_mono (p := spec.mantissaBits) (emin := spec.minExponent) (one_le_mantissaBits spec)
        (show v x * N ≤ 0 by nlinarith)
      rwa [R_zero] at this
    rw [clampQ_of_le hNq h2, show (0 : ℚ) = ((0 : ℕ) : ℚ) by simp, rne_natCast]; rfl
  · exact absurd h (not_posInf_le fin_zero32 hx)

/-- on `[0, 1]`: the result is `rne (R32 (x·N))`, within `1/2 + (half an ulp of binary32 below 2^k)` of `x·N` -/
theorem direct32_nearest (x : Float32) (h0 : zero32 ≤ x) (h1 : x ≤ one32) {k : ℤ} (hk : (N : ℚ) < 2^k)
    (hk' : -149 ≤ k - 24) :
    (f32Direct mx x).toNat = (rne (R32 (v x * N))).toNat ∧
    |((f32Direct mx x).toNat : ℚ) - v x * N| ≤ 1 / 2 + 2^(k - 24) / 2 := by
  have hNq : (0 : ℚ) ≤ N := by positivity
  have hx : IsFin x := by
    rcases cases_of_not_nan (not_nan_of_le h0).2 with hx | hx | hx
    · exact absurd h0 (not_le_negInf fin_zero32 hx)
    · exact hx
    · exact absurd h1 (not_posInf_le fin_one32 hx)
  have a0 : 0 ≤ v x := by rw [← v_zero32]; exact (le_iff fin_zero32 hx).mp h0
  have a1 : v x ≤ 1 := by rw [← v_one32]; exact (le_iff hx fin_one32).mp h1
  have b0 : 0 ≤ R32 (v x * N) := R_nonneg (mul_nonneg a0 hNq)
  have b1 : R32 (v x * N) ≤ N := by
    have := R_mono (p := spec.mantissaBits) (emin := spec.minExponent) (one_le_mantissaBits spec)
      (show v x * N ≤ N by nlinarith)
    rwa [R_natCast_of_lt (lt_of_le_of_lt hNle (by decide)) (by decide)] at this
  have hres : (f32Direct mx x).toNat = (rne (R32 (v x * N))).toNat := by
    rw [direct32_fin hm hN hNpos hNle hx, clampQ_of_mem b0 b1]
  refine ⟨hres, ?_⟩
  have hcast : (((rne (R32 (v x * N))).toNat : ℕ) : ℚ) = (rne (R32 (v x * N)) : ℚ) := by
    have := rne_nonneg b0
    have h : (((rne (R32 (v x * N))).toNat : ℕ) : ℤ) = rne (R32 (v x * N)) := by omega
    exact_mod_cast h
  rw [hres, hcast]
  have e1 := abs_rne_sub_le (R32 (v x * N))
  have habs : |v x * N| < 2^k := by
    rw [abs_of_nonneg (mul_nonneg a0 hNq)]; exact lt_of_le_of_lt (by nlinarith) hk
  have e2 := R_error_le (p := spec.mantissaBits) (emin := spec.minExponent) habs
  have hmax : max (k - (spec.mantissaBits : ℕ)) spec.minExponent = k - 24 := by
    show max (k - 24) (-149) = k - 24
    exact max_eq_left hk'
  rw [hmax] at e2
  calc |(rne (R32 (v x * N)) : ℚ) - v x * N|
      = |((rne (R32 (v x * N)) : ℚ) - R32 (v x * N)) + (R32 (v x * N) - v x * N)| := by ring_nf
    _ ≤ |(rne (R32 (v x * N)) : ℚ) - R32 (v x * N)| + |R32 (v x * N) - v x * N| := abs_add_le _ _
    _ ≤ 1 / 2 + 2^(k - 24) / 2 := add_le_add e1 e2

end

/-! ## f32 → u8 -/

theorem f32_to_u8_closed_form (x : Float32) : f32ToUint 8 x = spec32 255 x := by
  have h := direct32_closed_form fin_max8f v_max8f (by decide) (by decide) x
  have hle := direct32_le fin_max8f v_max8f (by decide) (by decide) x
  rw [f32ToUint8_eq, Nat.mod_eq_of_lt (by omega), h]

/-- **monotone over every pair of non-NaN `f32` bit patterns** (IEEE order: `−∞ < … < −0 = +0 < … < +∞`) -/
theorem f32_to_u8_monotone_all : ∀ x y : Float32, ¬ x.isNaN → ¬ y.isNaN → x ≤ y → f32ToUint 8 x ≤ f32ToUint 8 y := by
  intro x y hx hy h
  have hlx := direct32_le fin_max8f v_max8f (by decide) (by decide) x
  have hly := direct32_le fin_max8f v_max8f (by decide) (by decide) y
  rw [f32ToUint8_eq, f32ToUint8_eq, Nat.mod_eq_of_lt (by omega), Nat.mod_eq_of_lt (by omega)]
  exact direct32_mono fin_max8f v_max8f (by decide) (by decide) (by simpa using hx) (by simpa using hy) h

/-- **saturation**: `255` for NaN and every `x ≥ 1` (including `+∞`); `0` for every `x ≤ 0` (including `−0`, `−∞`) -/
theorem f32_to_u8_saturates_all : ∀ x : Float32,
    ((x.isNaN = true ∨ one32 ≤ x) → f32ToUint 8 x = 255) ∧ (x ≤ zero32 → f32ToUint 8 x = 0) := by
  intro x
  have hlx := direct32_le fin_max8f v_max8f (by decide) (by decide) x
  rw [f32ToUint8_eq, Nat.mod_eq_of_lt (by omega)]
  exact ⟨direct32_sat_hi fin_max8f v_max8f (by decide) (by decide) x,
         direct32_sat_lo fin_max8f v_max8f (by decide) (by decide) x⟩

/-- **nearest integer on `[0, 1]`**, exactly as the code computes it: the integer nearest (ties to even) to the binary32
rounding of `x·255`, hence within `1/2 + 2^-17` of `x·255` -/
theorem f32_to_u8_nearest_all : ∀ x : Float32, zero32 ≤ x → x ≤ one32 →
    f32ToUint 8 x = (rne (R32 (v x * 255))).toNat ∧ |(f32ToUint 8 x : ℚ) - v x * 255| ≤ 1 / 2 + 1 / 2^17 := by
  intro x h0 h1
  have hlx := direct32_le fin_max8f v_max8f (by decide) (by decide) x
  have := direct32_nearest fin_max8f v_max8f (by decide) (by decide) x h0 h1 (k := 8) (by norm_num) (by norm_num)
  rw [f32ToUint8_eq, Nat.mod_eq_of_lt (by omega)]
  refine ⟨by simpa using this.1, ?_⟩
  have h2 := this.2
  norm_num at h2 ⊢
  exact h2

example : zero32 ≤ Float32.ofBits 0x3eaaaaab ∧ Float32.ofBits 0x3eaaaaab ≤ one32 ∧ ¬ (Float32.ofBits 0x3eaaaaab).isNaN := by
  decide +kernel

/-! ## f32 → u16 -/

theorem f32_to_u16_closed_form (x : Float32) : f32ToUint 16 x = spec32 65535 x := by
  have h := direct32_closed_form fin_max16f v_max16f (by decide) (by decide) x
  have hle := direct32_le fin_max16f v_max16f (by decide) (by decide) x
  rw [f32ToUint16_eq, Nat.mod_eq_of_lt (by omega), h]

theorem f32_to_u16_monotone_all : ∀ x y : Float32, ¬ x.isNaN → ¬ y.isNaN → x ≤ y → f32ToUint 16 x ≤ f32ToUint 16 y := by
  intro x y hx hy h
  have hlx := direct32_le fin_max16f v_max16f (by decide) (by decide) x
  have hly := direct32_le fin_max16f v_max16f (by decide) (by decide) y
  rw [f32ToUint16_eq, f32ToUint16_eq, Nat.mod_eq_of_lt (by omega), Nat.mod_eq_of_lt (by omega)]
  exact direct32_mono fin_max16f v_max16f (by decide) (by decide) (by simpa using hx) (by simpa using hy) h

theorem f32_to_u16_saturates_all : ∀ x : Float32,
    ((x.isNaN = true ∨ one32 ≤ x) → f32ToUint 16 x = 65535) ∧ (x ≤ zero32 → f32ToUint 16 x = 0) := by
  intro x
  have hlx := direct32_le fin_max16f v_max16f (by decide) (by decide) x
  rw [f32ToUint16_eq, Nat.mod_eq_of_lt (by omega)]
  exact ⟨direct32_sat_hi fin_max16f v_max16f (by decide) (by decide) x,
         direct32_sat_lo fin_max16f v_max16f (by decide) (by decide) x⟩

theorem f32_to_u16_nearest_all : ∀ x : Float32, zero32 ≤ x → x ≤ one32 →
    f32ToUint 16 x = (rne (R32 (v x * 65535))).toNat ∧ |(f32ToUint 16 x : ℚ) - v x * 65535| ≤ 1 / 2 + 1 / 2^9 := by
  intro x h0 h1
  have hlx := direct32_le fin_max16f v_max16f (by decide) (by decide) x
  have := direct32_nearest fin_max16f v_max16f (by decide) (by decide) x h0 h1 (k := 16) (by norm_num) (by norm_num)
  rw [f32ToUint16_eq, Nat.mod_eq_of_lt (by omega)]
  refine ⟨by simpa using this.1, ?_⟩
  have h2 := this.2
  norm_num at h2 ⊢
  exact h2

end C06
