/-
  C08 — the algebra of premultiplied colours: Porter-Duff identities between the six `Compose` operators on whole colours
  (`impl Compose for PreAlpha<C>`, model `Blend.composePre`) and the `premultiply` / `unpremultiply` round trips for every alpha,
  0 included (the model's `is_valid_divisor` guard).

  What `C08_Blend.lean` already has (not repeated): each operator = its Porter-Duff formula, ranges, transparent source `over` b = b,
  opaque source `over` anything = source, `plus` / `xor` symmetric per component, `unpremultiply ∘ premultiply` for `α ≠ 0` and
  `α = 0`, `premultiply ∘ unpremultiply` for `α ≠ 0`.
  New here: `over` is associative (Porter & Duff 1984, the reason for premultiplied alpha), `plus` / `xor` commute on whole colours,
  the decompositions `over = plus(a, b outside a)`, `atop = plus(a inside b, b outside a)`, `xor = plus(a outside b, b outside a)`,
  `a = plus(a inside b, a outside b)`, the identities with transparent and opaque operands for all six operators, the
  round trip `premultiply ∘ unpremultiply` on *valid* premultiplied colours for every alpha including 0, and the round trips as
  one statement each.
  All at ℝ, colours as component lists of any length.
-/
import PaletteProofs.C08_Equations

namespace C08
open Blend BlendReal

/-! ## normal form of `composePre` on alphas in [0, 1] -/

/-- two `zipWith`s over the same pair of lists agree when the functions agree -/
theorem zipWith_congr' {f g : ℝ → ℝ → ℝ} (h : ∀ x y, f x y = g x y) (s d : List ℝ) : List.zipWith f s d = List.zipWith g s d := by
  have : f = g := by funext x y; exact h x y
  rw [this]

/-- the colour part is a `zipWith` of the Porter-Duff fractions; the alpha is the (clamped) Porter-Duff alpha -/
theorem composePre_val (op : Op) (s d : List ℝ) (αs αb : ℝ) :
    composePre op (s, αs) (d, αb) =
      (List.zipWith (fun x y => (pdOf op).Fa αs αb * x + (pdOf op).Fb αs αb * y) s d, op.alpha αs αb) := by
  unfold composePre
  simp only []
  rw [composeList_eq_zipWith]
  congr 1
  exact zipWith_congr' (fun x y => compose_eq_fractions op x αs y αb) s d

theorem over_alpha {αs αb : ℝ} (ha0 : 0 ≤ αs) (ha1 : αs ≤ 1) (hc0 : 0 ≤ αb) (hc1 : αb ≤ 1) :
    Op.over.alpha αs αb = αs + αb - αs * αb := by
  rw [compose_alpha_eq_porterDuff .over (by decide) ha0 ha1 hc0 hc1]; simp only [pdOf, W3C.PD.αo, W3C.PD.Fa, W3C.PD.Fb]; ring
theorem inside_alpha {αs αb : ℝ} (ha0 : 0 ≤ αs) (ha1 : αs ≤ 1) (hc0 : 0 ≤ αb) (hc1 : αb ≤ 1) :
    Op.inside.alpha αs αb = αs * αb := by
  rw [compose_alpha_eq_porterDuff .inside (by decide) ha0 ha1 hc0 hc1]; simp only [pdOf, W3C.PD.αo, W3C.PD.Fa, W3C.PD.Fb]; ring
theorem outside_alpha {αs αb : ℝ} (ha0 : 0 ≤ αs) (ha1 : αs ≤ 1) (hc0 : 0 ≤ αb) (hc1 : αb ≤ 1) :
    Op.outside.alpha αs αb = αs * (1 - αb) := by
  rw [compose_alpha_eq_porterDuff .outside (by decide) ha0 ha1 hc0 hc1]; simp only [pdOf, W3C.PD.αo, W3C.PD.Fa, W3C.PD.Fb]; ring
theorem atop_alpha {αs αb : ℝ} (ha0 : 0 ≤ αs) (ha1 : αs ≤ 1) (hc0 : 0 ≤ αb) (hc1 : αb ≤ 1) :
    Op.atop.alpha αs αb = αb := by
  rw [compose_alpha_eq_porterDuff .atop (by decide) ha0 ha1 hc0 hc1]; simp only [pdOf, W3C.PD.αo, W3C.PD.Fa, W3C.PD.Fb]; ring
theorem xor_alpha {αs αb : ℝ} (ha0 : 0 ≤ αs) (ha1 : αs ≤ 1) (hc0 : 0 ≤ αb) (hc1 : αb ≤ 1) :
    Op.xor.alpha αs αb = αs * (1 - αb) + (1 - αs) * αb := by
  rw [compose_alpha_eq_porterDuff .xor (by decide) ha0 ha1 hc0 hc1]; simp only [pdOf, W3C.PD.αo, W3C.PD.Fa, W3C.PD.Fb]; ring
/-- `plus` of two alphas whose sum stays ≤ 1 (the case of every decomposition below) -/
theorem plus_alpha_le {αs αb : ℝ} (h0 : 0 ≤ αs + αb) (h1 : αs + αb ≤ 1) : Op.plus.alpha αs αb = αs + αb := by
  rw [opAlpha_unclamped]; exact clamp01_id h0 h1

/-! ## `over` is associative -/

/-- **`(a over b) over c = a over (b over c)`** on premultiplied colours with alphas in [0, 1] (colour components arbitrary reals,
    any number of them) -/
theorem over_assoc (a b c : List ℝ) {αa αb αc : ℝ} (ha0 : 0 ≤ αa) (ha1 : αa ≤ 1) (hb0 : 0 ≤ αb) (hb1 : αb ≤ 1)
    (hc0 : 0 ≤ αc) (hc1 : αc ≤ 1) :
    composePre .over (composePre .over (a, αa) (b, αb)) (c, αc) = composePre .over (a, αa) (composePre .over (b, αb) (c, αc)) := by
  have hab0 : 0 ≤ αa + αb - αa * αb := by nlinarith
  have hab1 : αa + αb - αa * αb ≤ 1 := by nlinarith
  have hbc0 : 0 ≤ αb + αc - αb * αc := by nlinarith
  have hbc1 : αb + αc - αb * αc ≤ 1 := by nlinarith
  rw [composePre_val .over a b, composePre_val .over b c, composePre_val, composePre_val,
    over_alpha ha0 ha1 hb0 hb1, over_alpha hb0 hb1 hc0 hc1, over_alpha hab0 hab1 hc0 hc1, over_alpha ha0 ha1 hbc0 hbc1]
  refine Prod.ext ?_ (by simp only []; ring)
  simp only [pdOf, W3C.PD.Fa, W3C.PD.Fb]
  apply List.ext_getElem?
  intro i
  simp only [List.getElem?_zipWith]
  cases a[i]? <;> cases b[i]? <;> cases c[i]? <;> simp
  ring

/-- the alpha alone: `αo` of `over` is associative (and commutative), on [0, 1] -/
theorem over_alpha_assoc {αa αb αc : ℝ} (ha0 : 0 ≤ αa) (ha1 : αa ≤ 1) (hb0 : 0 ≤ αb) (hb1 : αb ≤ 1) (hc0 : 0 ≤ αc) (hc1 : αc ≤ 1) :
    Op.over.alpha (Op.over.alpha αa αb) αc = Op.over.alpha αa (Op.over.alpha αb αc) := by
  have h := congrArg Prod.snd (over_assoc [] [] [] ha0 ha1 hb0 hb1 hc0 hc1)
  simpa [composePre] using h

example : composePre .over (composePre .over ([0.5], (0.5 : ℝ)) ([0.25], 0.5)) ([1], 1) =
    composePre .over ([0.5], 0.5) (composePre .over ([0.25], 0.5) ([1], 1)) :=
  over_assoc _ _ _ (by norm_num) (by norm_num) (by norm_num) (by norm_num) (by norm_num) (by norm_num)

/-! ## `plus` and `xor` commute on whole colours -/

theorem plus_comm (a b : WithAlpha ℝ) : composePre .plus a b = composePre .plus b a := by
  obtain ⟨s, αs⟩ := a; obtain ⟨d, αb⟩ := b
  rw [composePre_val, composePre_val, (plus_symm 0 αs 0 αb).2, List.zipWith_comm]
  simp only [pdOf, W3C.PD.Fa, W3C.PD.Fb]
  congr 1
  exact zipWith_congr' (fun x y => by ring) d s

theorem xor_comm (a b : WithAlpha ℝ) : composePre .xor a b = composePre .xor b a := by
  obtain ⟨s, αs⟩ := a; obtain ⟨d, αb⟩ := b
  rw [composePre_val, composePre_val, (xor_symm 0 αs 0 αb).2, List.zipWith_comm]
  simp only [pdOf, W3C.PD.Fa, W3C.PD.Fb]
  congr 1
  exact zipWith_congr' (fun x y => by ring) d s

/-! ## the operators expressed through `inside`, `outside` and `plus` (Porter & Duff's region algebra)

  A pixel pair splits into the regions "a only" (`a outside b`), "b only" (`b outside a`) and "both" (`a inside b` or
  `b inside a`); each operator is the sum of the regions it keeps.  Colours: any reals; alphas in [0, 1] (only so that the clamps
  of the intermediate alphas are inactive). -/

section decompositions
variable (s d : List ℝ) {αs αb : ℝ} (ha0 : 0 ≤ αs) (ha1 : αs ≤ 1) (hc0 : 0 ≤ αb) (hc1 : αb ≤ 1)
include ha0 ha1 hc0 hc1

/-- `a = (a inside b) plus (a outside b)`, when the colours have the same number of components -/
theorem inside_plus_outside (hl : s.length = d.length) :
    composePre .plus (composePre .inside (s, αs) (d, αb)) (composePre .outside (s, αs) (d, αb)) = (s, αs) := by
  rw [composePre_val .inside, composePre_val .outside, composePre_val, inside_alpha ha0 ha1 hc0 hc1, outside_alpha ha0 ha1 hc0 hc1,
    plus_alpha_le (by nlinarith) (by nlinarith)]
  refine Prod.ext ?_ (by simp only []; ring)
  simp only [pdOf, W3C.PD.Fa, W3C.PD.Fb]
  apply List.ext_getElem?
  intro i
  simp only [List.getElem?_zipWith]
  by_cases hi : i < s.length
  · have hi' : i < d.length := by omega
    simp only [List.getElem?_eq_getElem hi, List.getElem?_eq_getElem hi', Option.some.injEq]; ring
  · simp [List.getElem?_eq_none (not_lt.mp hi)]

/-- `a over b = a plus (b outside a)` -/
theorem over_eq_plus_outside (hl : s.length = d.length) :
    composePre .over (s, αs) (d, αb) = composePre .plus (s, αs) (composePre .outside (d, αb) (s, αs)) := by
  rw [composePre_val .outside, composePre_val, composePre_val, over_alpha ha0 ha1 hc0 hc1, outside_alpha hc0 hc1 ha0 ha1,
    plus_alpha_le (by nlinarith) (by nlinarith)]
  refine Prod.ext ?_ (by simp only []; ring)
  simp only [pdOf, W3C.PD.Fa, W3C.PD.Fb]
  apply List.ext_getElem?
  intro i
  simp only [List.getElem?_zipWith]
  by_cases hi : i < s.length
  · have hi' : i < d.length := by omega
    simp only [List.getElem?_eq_getElem hi, List.getElem?_eq_getElem hi', Option.some.injEq]; ring
  · simp [List.getElem?_eq_none (not_lt.mp hi)]

/-- `a atop b = (a inside b) plus (b outside a)` -/
theorem atop_eq_inside_plus_outside :
    composePre .atop (s, αs) (d, αb) = composePre .plus (composePre .inside (s, αs) (d, αb)) (composePre .outside (d, αb) (s, αs)) := by
  rw [composePre_val .inside, composePre_val .outside, composePre_val, composePre_val, atop_alpha ha0 ha1 hc0 hc1,
    inside_alpha ha0 ha1 hc0 hc1, outside_alpha hc0 hc1 ha0 ha1, plus_alpha_le (by nlinarith) (by nlinarith)]
  refine Prod.ext ?_ (by simp only []; ring)
  simp only [pdOf, W3C.PD.Fa, W3C.PD.Fb]
  apply List.ext_getElem?
  intro i
  simp only [List.getElem?_zipWith]
  cases s[i]? <;> cases d[i]? <;> simp

/-- `a xor b = (a outside b) plus (b outside a)` -/
theorem xor_eq_outside_plus_outside :
    composePre .xor (s, αs) (d, αb) = composePre .plus (composePre .outside (s, αs) (d, αb)) (composePre .outside (d, αb) (s, αs)) := by
  rw [composePre_val .outside s d, composePre_val .outside d s, composePre_val, composePre_val, xor_alpha ha0 ha1 hc0 hc1,
    outside_alpha ha0 ha1 hc0 hc1, outside_alpha hc0 hc1 ha0 ha1,
    plus_alpha_le (by nlinarith [mul_nonneg ha0 (sub_nonneg.mpr hc1), mul_nonneg hc0 (sub_nonneg.mpr ha1)])
      (by nlinarith [mul_nonneg ha0 hc0, mul_nonneg (sub_nonneg.mpr ha1) (sub_nonneg.mpr hc1)])]
  refine Prod.ext ?_ (by simp only []; ring)
  simp only [pdOf, W3C.PD.Fa, W3C.PD.Fb]
  apply List.ext_getElem?
  intro i
  simp only [List.getElem?_zipWith]
  cases s[i]? <;> cases d[i]? <;> simp

/-- `a over b = (a atop b) plus (a outside b)` -/
theorem over_eq_atop_plus_outside :
    composePre .over (s, αs) (d, αb) = composePre .plus (composePre .atop (s, αs) (d, αb)) (composePre .outside (s, αs) (d, αb)) := by
  rw [composePre_val .atop, composePre_val .outside, composePre_val, composePre_val, over_alpha ha0 ha1 hc0 hc1,
    atop_alpha ha0 ha1 hc0 hc1, outside_alpha ha0 ha1 hc0 hc1, plus_alpha_le (by nlinarith) (by nlinarith)]
  refine Prod.ext ?_ (by simp only []; ring)
  simp only [pdOf, W3C.PD.Fa, W3C.PD.Fb]
  apply List.ext_getElem?
  intro i
  simp only [List.getElem?_zipWith]
  cases s[i]? <;> cases d[i]? <;> simp
  ring

/-- the alphas of the three regions add up to the alpha of `over`: `αs·αb + αs·(1−αb) + αb·(1−αs) = αs + αb − αs·αb` -/
theorem regions_partition :
    Op.inside.alpha αs αb + Op.outside.alpha αs αb + Op.outside.alpha αb αs = Op.over.alpha αs αb := by
  rw [inside_alpha ha0 ha1 hc0 hc1, outside_alpha ha0 ha1 hc0 hc1, outside_alpha hc0 hc1 ha0 ha1, over_alpha ha0 ha1 hc0 hc1]; ring

end decompositions

example : composePre .atop ([0.5], (0.5 : ℝ)) ([0.25], 0.75) =
    composePre .plus (composePre .inside ([0.5], 0.5) ([0.25], 0.75)) (composePre .outside ([0.25], 0.75) ([0.5], 0.5)) :=
  atop_eq_inside_plus_outside _ _ (by norm_num) (by norm_num) (by norm_num) (by norm_num)

/-! ## transparent and opaque operands, all six operators

  `transparent n` is the premultiplied colour with alpha 0 (all components 0, as `premultiply c 0` and every valid premultiplied
  colour with alpha 0 are). -/

def transparent (n : Nat) : WithAlpha ℝ := (List.replicate n 0, 0)

theorem map_const_zero {f : ℝ → ℝ} (h : ∀ x, f x = 0) (l : List ℝ) : l.map f = List.replicate l.length 0 := by
  induction l with
  | nil => rfl
  | cons x l ih => simp only [List.map_cons, List.length_cons, List.replicate_succ, h, ih]

theorem premultiply_zero_eq_transparent (c : List ℝ) : premultiply c 0 = transparent c.length := by
  unfold premultiply transparent
  congr 1
  exact map_const_zero (fun x => mul_zero x) c

theorem zipWith_replicate_left (f : ℝ → ℝ → ℝ) (z : ℝ) : ∀ (d : List ℝ), List.zipWith f (List.replicate d.length z) d = d.map (f z)
  | [] => rfl
  | y :: d => by simp only [List.length_cons, List.replicate_succ, List.zipWith_cons_cons, List.map_cons, zipWith_replicate_left f z d]
theorem zipWith_replicate_right (f : ℝ → ℝ → ℝ) (z : ℝ) : ∀ (s : List ℝ), List.zipWith f s (List.replicate s.length z) = s.map (fun x => f x z)
  | [] => rfl
  | x :: s => by simp only [List.length_cons, List.replicate_succ, List.zipWith_cons_cons, List.map_cons, zipWith_replicate_right f z s]
theorem map_id'' {f : ℝ → ℝ} (h : ∀ x, f x = x) (l : List ℝ) : l.map f = l := by
  have : f = id := funext h
  rw [this, List.map_id]

section identities
variable (s : List ℝ) {α : ℝ} (h0 : 0 ≤ α) (h1 : α ≤ 1)
include h0 h1

/-- **transparent backdrop**: `a over ∅ = a`, `a outside ∅ = a`, `a xor ∅ = a`, `a plus ∅ = a`; `a inside ∅ = ∅`, `a atop ∅ = ∅` -/
theorem transparent_backdrop :
    composePre .over (s, α) (transparent s.length) = (s, α) ∧ composePre .outside (s, α) (transparent s.length) = (s, α) ∧
    composePre .xor (s, α) (transparent s.length) = (s, α) ∧ composePre .plus (s, α) (transparent s.length) = (s, α) ∧
    composePre .inside (s, α) (transparent s.length) = transparent s.length ∧
    composePre .atop (s, α) (transparent s.length) = transparent s.length := by
  unfold transparent
  refine ⟨?_, ?_, ?_, ?_, ?_, ?_⟩
  · rw [composePre_val, over_alpha h0 h1 le_rfl zero_le_one, zipWith_replicate_right]
    simp only [pdOf, W3C.PD.Fa, W3C.PD.Fb]
    exact Prod.ext (map_id'' (fun x => by ring) s) (by simp only []; ring)
  · rw [composePre_val, outside_alpha h0 h1 le_rfl zero_le_one, zipWith_replicate_right]
    simp only [pdOf, W3C.PD.Fa, W3C.PD.Fb]
    exact Prod.ext (map_id'' (fun x => by ring) s) (by simp only []; ring)
  · rw [composePre_val, xor_alpha h0 h1 le_rfl zero_le_one, zipWith_replicate_right]
    simp only [pdOf, W3C.PD.Fa, W3C.PD.Fb]
    exact Prod.ext (map_id'' (fun x => by ring) s) (by simp only []; ring)
  · rw [composePre_val, plus_alpha_le (by linarith) (by linarith), zipWith_replicate_right]
    simp only [pdOf, W3C.PD.Fa, W3C.PD.Fb]
    exact Prod.ext (map_id'' (fun x => by ring) s) (by simp only []; ring)
  · rw [composePre_val, inside_alpha h0 h1 le_rfl zero_le_one, zipWith_replicate_right]
    simp only [pdOf, W3C.PD.Fa, W3C.PD.Fb]
    exact Prod.ext (map_const_zero (fun x => by ring) s) (by simp only []; ring)
  · rw [composePre_val, atop_alpha h0 h1 le_rfl zero_le_one, zipWith_replicate_right]
    simp only [pdOf, W3C.PD.Fa, W3C.PD.Fb]
    exact Prod.ext (map_const_zero (fun x => by ring) s) rfl

/-- **transparent source**: `∅ over b = b`, `∅ atop b = b`, `∅ xor b = b`, `∅ plus b = b`; `∅ inside b = ∅`, `∅ outside b = ∅` -/
theorem transparent_source :
    composePre .over (transparent s.length) (s, α) = (s, α) ∧ composePre .atop (transparent s.length) (s, α) = (s, α) ∧
    composePre .xor (transparent s.length) (s, α) = (s, α) ∧ composePre .plus (transparent s.length) (s, α) = (s, α) ∧
    composePre .inside (transparent s.length) (s, α) = transparent s.length ∧
    composePre .outside (transparent s.length) (s, α) = transparent s.length := by
  unfold transparent
  refine ⟨?_, ?_, ?_, ?_, ?_, ?_⟩
  · rw [composePre_val, over_alpha le_rfl zero_le_one h0 h1, zipWith_replicate_left]
    simp only [pdOf, W3C.PD.Fa, W3C.PD.Fb]
    exact Prod.ext (map_id'' (fun x => by ring) s) (by simp only []; ring)
  · rw [composePre_val, atop_alpha le_rfl zero_le_one h0 h1, zipWith_replicate_left]
    simp only [pdOf, W3C.PD.Fa, W3C.PD.Fb]
    exact Prod.ext (map_id'' (fun x => by ring) s) rfl
  · rw [composePre_val, xor_alpha le_rfl zero_le_one h0 h1, zipWith_replicate_left]
    simp only [pdOf, W3C.PD.Fa, W3C.PD.Fb]
    exact Prod.ext (map_id'' (fun x => by ring) s) (by simp only []; ring)
  · rw [composePre_val, plus_alpha_le (by linarith) (by linarith), zipWith_replicate_left]
    simp only [pdOf, W3C.PD.Fa, W3C.PD.Fb]
    exact Prod.ext (map_id'' (fun x => by ring) s) (by simp only []; ring)
  · rw [composePre_val, inside_alpha le_rfl zero_le_one h0 h1, zipWith_replicate_left]
    simp only [pdOf, W3C.PD.Fa, W3C.PD.Fb]
    exact Prod.ext (map_const_zero (fun x => by ring) s) (by simp only []; ring)
  · rw [composePre_val, outside_alpha le_rfl zero_le_one h0 h1, zipWith_replicate_left]
    simp only [pdOf, W3C.PD.Fa, W3C.PD.Fb]
    exact Prod.ext (map_const_zero (fun x => by ring) s) (by simp only []; ring)

end identities

/-- **opaque backdrop** (`αb = 1`, any colour `d` with as many components): `a inside b = a`, `a outside b = ∅`,
    `a atop b = a over b` (colour and alpha), `a xor b = b outside a` -/
theorem opaque_backdrop (s d : List ℝ) {α : ℝ} (h0 : 0 ≤ α) (h1 : α ≤ 1) (hl : s.length = d.length) :
    composePre .inside (s, α) (d, 1) = (s, α) ∧ composePre .outside (s, α) (d, 1) = transparent s.length ∧
    composePre .atop (s, α) (d, 1) = composePre .over (s, α) (d, 1) ∧
    composePre .xor (s, α) (d, 1) = composePre .outside (d, 1) (s, α) := by
  unfold transparent
  refine ⟨?_, ?_, ?_, ?_⟩
  · rw [composePre_val, inside_alpha h0 h1 zero_le_one le_rfl]
    refine Prod.ext ?_ (by simp only []; ring)
    simp only [pdOf, W3C.PD.Fa, W3C.PD.Fb]
    apply List.ext_getElem?
    intro i
    simp only [List.getElem?_zipWith]
    by_cases hi : i < s.length
    · have hi' : i < d.length := by omega
      simp only [List.getElem?_eq_getElem hi, List.getElem?_eq_getElem hi', Option.some.injEq]; ring
    · simp [List.getElem?_eq_none (not_lt.mp hi)]
  · rw [composePre_val, outside_alpha h0 h1 zero_le_one le_rfl]
    refine Prod.ext ?_ (by simp only []; ring)
    simp only [pdOf, W3C.PD.Fa, W3C.PD.Fb]
    apply List.ext_getElem?
    intro i
    simp only [List.getElem?_zipWith, List.getElem?_replicate]
    by_cases hi : i < s.length
    · have hi' : i < d.length := by omega
      simp only [List.getElem?_eq_getElem hi, List.getElem?_eq_getElem hi', hi, if_true, Option.some.injEq]; ring
    · simp [hi]
  · rw [composePre_val, composePre_val, atop_alpha h0 h1 zero_le_one le_rfl, over_alpha h0 h1 zero_le_one le_rfl]
    refine Prod.ext ?_ (by simp only []; ring)
    simp only [pdOf, W3C.PD.Fa, W3C.PD.Fb]
  · rw [composePre_val, composePre_val, xor_alpha h0 h1 zero_le_one le_rfl, outside_alpha zero_le_one le_rfl h0 h1, List.zipWith_comm]
    refine Prod.ext ?_ (by simp only []; ring)
    simp only [pdOf, W3C.PD.Fa, W3C.PD.Fb]
    exact zipWith_congr' (fun x y => by ring) d s

example : composePre .xor ([0.25, 0.5], (0.5 : ℝ)) ([0.75, 0.125], 1) = composePre .outside ([0.75, 0.125], 1) ([0.25, 0.5], 0.5) :=
  (opaque_backdrop [0.25, 0.5] [0.75, 0.125] (α := 0.5) (by norm_num) (by norm_num) rfl).2.2.2
example : composePre .outside ([0.25, 0.5], (0.5 : ℝ)) (transparent 2) = ([0.25, 0.5], 0.5) :=
  (transparent_backdrop [0.25, 0.5] (α := 0.5) (by norm_num) (by norm_num)).2.1
example : composePre .atop (transparent 2) ([0.25, 0.5], (0.5 : ℝ)) = ([0.25, 0.5], 0.5) :=
  (transparent_source [0.25, 0.5] (α := 0.5) (by norm_num) (by norm_num)).2.1

/-- **opaque source** (`αs = 1`): `a over b = a` (`opaque_source_over`), `a atop b = a inside b`, `a xor b = a outside b` -/
theorem opaque_source (s d : List ℝ) {α : ℝ} (h0 : 0 ≤ α) (h1 : α ≤ 1) :
    composePre .atop (s, 1) (d, α) = composePre .inside (s, 1) (d, α) ∧
    composePre .xor (s, 1) (d, α) = composePre .outside (s, 1) (d, α) := by
  refine ⟨?_, ?_⟩
  · rw [composePre_val, composePre_val, atop_alpha zero_le_one le_rfl h0 h1, inside_alpha zero_le_one le_rfl h0 h1]
    refine Prod.ext ?_ (by simp only []; ring)
    simp only [pdOf, W3C.PD.Fa, W3C.PD.Fb]
    exact zipWith_congr' (fun x y => by ring) s d
  · rw [composePre_val, composePre_val, xor_alpha zero_le_one le_rfl h0 h1, outside_alpha zero_le_one le_rfl h0 h1]
    refine Prod.ext ?_ (by simp only []; ring)
    simp only [pdOf, W3C.PD.Fa, W3C.PD.Fb]
    exact zipWith_congr' (fun x y => by ring) s d

/-- `over` is idempotent only on opaque or transparent colours: `a over a` has alpha `2α − α²` -/
theorem over_self_alpha {α : ℝ} (h0 : 0 ≤ α) (h1 : α ≤ 1) : Op.over.alpha α α = α ↔ α = 0 ∨ α = 1 := by
  rw [over_alpha h0 h1 h0 h1]
  constructor
  · intro h
    have : α * (1 - α) = 0 := by linarith
    rcases mul_eq_zero.mp this with h | h
    · exact Or.inl h
    · exact Or.inr (by linarith)
  · rintro (rfl | rfl) <;> ring

/-! ## premultiply / unpremultiply, every alpha -/

/-- **`unpremultiply ∘ premultiply`, every alpha in one statement**: the colour itself for `α ≠ 0`, the zero colour for `α = 0`;
    the alpha is always kept -/
theorem unpremultiply_premultiply_all (c : List ℝ) (a : ℝ) :
    unpremultiply (premultiply c a) = (if a ≠ 0 then c else c.map (fun _ => 0), a) := by
  by_cases h : a = 0
  · subst h; simp only [ne_eq, not_true_eq_false, if_false]; exact unpremultiply_premultiply_zero c
  · simp only [ne_eq, h, not_false_eq_true, if_true]; exact unpremultiply_premultiply c h

/-- **`premultiply ∘ unpremultiply` on a valid premultiplied colour (`0 ≤ p ≤ α` per component) is the identity for every alpha,
    0 included**: with `α = 0` validity forces `p = 0`, which is what the guard returns -/
theorem premultiply_unpremultiply_valid (p : List ℝ) (a : ℝ) (hv : ∀ x ∈ p, 0 ≤ x ∧ x ≤ a) :
    premultiply (unpremultiply (p, a)).1 (unpremultiply (p, a)).2 = (p, a) := by
  by_cases h : a = 0
  · subst h
    rw [unpremultiply_zero_alpha]
    unfold premultiply
    simp only [List.map_map]
    congr 1
    apply List.ext_getElem?
    intro i
    simp only [List.getElem?_map]
    by_cases hi : i < p.length
    · have := hv p[i] (List.getElem_mem hi)
      have e : p[i] = 0 := le_antisymm this.2 this.1
      simp [List.getElem?_eq_getElem hi, e]
    · simp [List.getElem?_eq_none (not_lt.mp hi)]
  · exact premultiply_unpremultiply p h

/-- without validity the guard loses the colour at `α = 0`: witness -/
theorem premultiply_unpremultiply_invalid_witness :
    premultiply (unpremultiply ([1], (0 : ℝ))).1 (unpremultiply ([1], (0 : ℝ))).2 = ([0], 0) := by
  rw [unpremultiply_zero_alpha]; unfold premultiply; simp

/-- both round trips are idempotent on everything: `unpremultiply ∘ premultiply ∘ unpremultiply = unpremultiply` -/
theorem unpremultiply_premultiply_unpremultiply (p : List ℝ) (a : ℝ) :
    unpremultiply (premultiply (unpremultiply (p, a)).1 (unpremultiply (p, a)).2) = unpremultiply (p, a) := by
  by_cases h : a = 0
  · subst h
    rw [unpremultiply_zero_alpha]
    simp only []
    rw [unpremultiply_premultiply_zero]
    simp only [List.map_map]
    rfl
  · rw [premultiply_unpremultiply p h]

/-- premultiplied colours produced from in-range straight colours are valid: `0 ≤ c·α ≤ α` -/
theorem premultiply_valid (c : List ℝ) {a : ℝ} (h0 : 0 ≤ a) (hc : ∀ x ∈ c, 0 ≤ x ∧ x ≤ 1) :
    ∀ y ∈ (premultiply c a).1, 0 ≤ y ∧ y ≤ a := by
  intro y hy
  unfold premultiply at hy
  simp only [List.mem_map] at hy
  obtain ⟨x, hx, rfl⟩ := hy
  obtain ⟨x0, x1⟩ := hc x hx
  exact ⟨mul_nonneg x0 h0, by nlinarith⟩

example : premultiply (unpremultiply ([0.1, 0.25], (0.25 : ℝ))).1 (unpremultiply ([0.1, 0.25], (0.25 : ℝ))).2 = ([0.1, 0.25], 0.25) :=
  premultiply_unpremultiply_valid _ _ (by intro x hx; simp at hx; rcases hx with rfl | rfl <;> norm_num)

end C08
