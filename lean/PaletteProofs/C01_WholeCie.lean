/-
  C01 — whole routes of the CIE family, exact arithmetic (ℝ): the round trips `a → b → a` of the model's route interpreter
  (`RouteEval.roundTrip`: the driver's edges composed along the derive crate's routes) are the identity on explicit domains,
  for every white point of the generated table; the same compositions for an *arbitrary* white point with positive components
  are stated on the edge functions (`…_fn`).  Instances of `C01Chain.InvChain` / `roundTrip_of_chain`.
-/
import PaletteProofs.C01_WholeChain
import PaletteProofs.C01_Cie

namespace C01WholeCie
open RouteEval Route C01Hops C01Chain Cie C01Cie C02Cie

/-! ### the white points of the table have positive components -/

theorem wp_pos (c : Cfg) (h : WpOk c) :
    0 < (Color.whitePoint c.wp : V3 ℝ).c0 ∧ 0 < (Color.whitePoint c.wp : V3 ℝ).c1 ∧ 0 < (Color.whitePoint c.wp : V3 ℝ).c2 := by
  unfold Color.whitePoint
  cases hf : Gen.Mat.whitePoints.find? (·.1 == c.wp) with
  | none =>
    exfalso
    have hn := List.find?_eq_none.mp hf
    obtain ⟨p, hp, hq⟩ := List.any_eq_true.mp h
    exact hn p hp hq
  | some p =>
    have hm := List.mem_of_find?_eq_some hf
    simp only [Gen.Mat.whitePoints, List.mem_cons, List.mem_nil_iff, or_false] at hm
    rcases hm with rfl | rfl | rfl | rfl | rfl | rfl | rfl | rfl | rfl | rfl | rfl | rfl | rfl | rfl | rfl | rfl <;>
      (simp only [Color.v3OfK, RealScalar.const_eq, RealScalar.eval_ofSci, RealScalar.eval_div]; norm_num)

/-- … and `Y = 1` -/
theorem wp_y_one (c : Cfg) (h : WpOk c) : (Color.whitePoint c.wp : V3 ℝ).c1 = 1 := by
  unfold Color.whitePoint
  cases hf : Gen.Mat.whitePoints.find? (·.1 == c.wp) with
  | none =>
    exfalso
    have hn := List.find?_eq_none.mp hf
    obtain ⟨p, hp, hq⟩ := List.any_eq_true.mp h
    exact hn p hp hq
  | some p =>
    have hm := List.mem_of_find?_eq_some hf
    simp only [Gen.Mat.whitePoints, List.mem_cons, List.mem_nil_iff, or_false] at hm
    rcases hm with rfl | rfl | rfl | rfl | rfl | rfl | rfl | rfl | rfl | rfl | rfl | rfl | rfl | rfl | rfl | rfl <;>
      (simp only [Color.v3OfK, RealScalar.const_eq, RealScalar.eval_ofSci, RealScalar.eval_div]; norm_num)

/-- the routes concerned, decided on the generated table: tree walks, the way back is the reversed chain -/
theorem routes_cie :
    routeOf LCH XYZ = some [LCH, LAB, XYZ] ∧ routeOf XYZ LCH = some [XYZ, LAB, LCH] ∧
    routeOf LCHUV XYZ = some [LCHUV, LUV, XYZ] ∧ routeOf XYZ LCHUV = some [XYZ, LUV, LCHUV] ∧
    routeOf HSLUV XYZ = some [HSLUV, LCHUV, LUV, XYZ] ∧ routeOf XYZ HSLUV = some [XYZ, LUV, LCHUV, HSLUV] ∧
    routeOf LAB XYZ = some [LAB, XYZ] ∧ routeOf XYZ LAB = some [XYZ, LAB] ∧
    routeOf LUV XYZ = some [LUV, XYZ] ∧ routeOf XYZ LUV = some [XYZ, LUV] ∧
    routeOf LCH LAB = some [LCH, LAB] ∧ routeOf LAB LCH = some [LAB, LCH] ∧
    routeOf LCHUV LUV = some [LCHUV, LUV] ∧ routeOf LUV LCHUV = some [LUV, LCHUV] ∧
    routeOf HSLUV LCHUV = some [HSLUV, LCHUV] ∧ routeOf LCHUV HSLUV = some [LCHUV, HSLUV] ∧
    routeOf HSLUV LUV = some [HSLUV, LCHUV, LUV] ∧ routeOf LUV HSLUV = some [LUV, LCHUV, HSLUV] ∧
    routeOf YXY XYZ = some [YXY, XYZ] ∧ routeOf XYZ YXY = some [XYZ, YXY] ∧
    routeOf LCH LCHUV = some [LCH, LAB, XYZ, LUV, LCHUV] ∧ routeOf LCHUV LCH = some [LCHUV, LUV, XYZ, LAB, LCH] := by
  decide +kernel

/-! ### domains -/

/-- non-degenerate polar colour `(l, chroma, hue)`: positive chroma, hue stored in the range the code produces -/
def DPolar (x : V3 ℝ) : Prop := 0 < x.c1 ∧ 0 < x.c2 ∧ x.c2 ≤ 360

/-- `v′ₙ` of the white point, as `Luv ↔ Xyz` computes it -/
noncomputable def vRef (w : V3 ℝ) : ℝ := 9 * w.c1 * (1 / (w.c0 + 15 * w.c1 + 3 * w.c2))

/-- `Luv` colours above the `L* < 1e-5` cutoff of `Xyz ← Luv` whose `v′` does not vanish (a real colour has `v′ > 0`) -/
def DLuv (w x : V3 ℝ) : Prop := 1e-5 ≤ x.c0 ∧ x.c2 / (13 * x.c0) + vRef w ≠ 0

/-- `Xyz` colours above the guards of `Luv ← Xyz`: `Y/Yₙ ≥ 1.2e-8` (so that `L* ≥ 1e-5`), `X + 15Y + 3Z ≠ 0` -/
def DXyzLuv (w x : V3 ℝ) : Prop := 1.2e-8 ≤ x.c1 / w.c1 ∧ x.c0 + 15 * x.c1 + 3 * x.c2 ≠ 0

/-- non-degenerate `Lchuv`: polar non-degenerate and its `Luv` image in `DLuv` (`v = chroma·sin hue`, see `lchuvToLuv_v`) -/
def DLchuv (w x : V3 ℝ) : Prop := DPolar x ∧ DLuv w (lchuvToLuv x)

/-- non-degenerate `Hsluv = (hue, saturation, l)`: the divisor `max_chroma_at_hue` is positive, positive saturation, and its
    `Lchuv` image is non-degenerate -/
def DHsluv (w x : V3 ℝ) : Prop := 0 < maxChroma x.c2 x.c0 ∧ 0 < x.c1 ∧ DLchuv w (hsluvToLchuv x)

theorem lchuvToLuv_v (L C h : ℝ) (hC : 0 ≤ C) : (lchuvToLuv ⟨L, C, h⟩).c2 = C * Real.sin (h * (Real.pi / 180)) ∧ (lchuvToLuv ⟨L, C, h⟩).c0 = L := by
  simp only [lchuvToLuv, RealScalar.degToRad_eq, RealScalar.sin_eq, RealScalar.max_eq]
  rw [max_eq_left (by norm_num; exact hC)]; exact ⟨rfl, trivial⟩

/-! ### the missing exact edge: `Lchuv → Luv → Lchuv` with the hue in the code's range -/

theorem luv_lchuv_roundtrip_exact (L C h : ℝ) (hC : 0 < C) (h0 : 0 < h) (h1 : h ≤ 360) :
    luvToLchuv (lchuvToLuv ⟨L, C, h⟩) = ⟨L, C, h⟩ := by
  obtain ⟨k, hk⟩ := luv_lchuv_roundtrip L C h hC
  have hr := hue_range (lchuvToLuv ⟨L, C, h⟩).c1 (lchuvToLuv ⟨L, C, h⟩).c2
  have e : hueFromCartesian (lchuvToLuv ⟨L, C, h⟩).c1 (lchuvToLuv ⟨L, C, h⟩).c2 = h + 360 * k := by
    have := congrArg V3.c2 hk; simpa [luvToLchuv] using this
  rw [e] at hr
  have hk0 : k = 0 := by
    have h2 : (-1 : ℝ) < k := by linarith [hr.1]
    have h3 : (k : ℝ) < 1 := by linarith [hr.2]
    have h2' : (-1 : ℤ) < k := by exact_mod_cast h2
    have h3' : k < (1 : ℤ) := by exact_mod_cast h3
    omega
  rw [hk, hk0]; simp

/-! ### chains -/
section chains
variable (c : Cfg) (hwp : WpOk c)
include hwp

theorem chain_lch_xyz : InvChain c [LCH, LAB, XYZ] DPolar := by
  obtain ⟨w0, w1, w2⟩ := wp_pos c hwp
  refine .step (hop_lch_lab c hwp) (hop_lab_lch c hwp) (D' := fun _ => True) ?_ (fun _ _ => trivial) ?_
  · rintro ⟨L, C, h⟩ ⟨hC, h0, h1⟩; exact lab_lch_roundtrip_exact L C h hC h0 h1
  · exact .step (hop_lab_xyz c hwp) (hop_xyz_lab c hwp) (D' := fun _ => True)
      (fun x _ => xyz_lab_roundtrip _ x w0.ne' w1.ne' w2.ne') (fun _ _ => trivial) (.last _ _)

theorem chain_xyz_lch : InvChain c [XYZ, LAB, LCH] (fun _ => True) := by
  obtain ⟨w0, w1, w2⟩ := wp_pos c hwp
  exact .step (hop_xyz_lab c hwp) (hop_lab_xyz c hwp) (D' := fun _ => True)
    (fun x _ => lab_xyz_roundtrip _ x w0.ne' w1.ne' w2.ne') (fun _ _ => trivial)
    (.step (hop_lab_lch c hwp) (hop_lch_lab c hwp) (D' := fun _ => True) (fun x _ => lch_lab_roundtrip x) (fun _ _ => trivial) (.last _ _))

theorem chain_luv_xyz : InvChain c [LUV, XYZ] (DLuv (Color.whitePoint c.wp)) := by
  obtain ⟨w0, w1, w2⟩ := wp_pos c hwp
  exact .step (hop_luv_xyz c hwp) (hop_xyz_luv c hwp) (D' := fun _ => True)
    (fun x hx => xyz_luv_roundtrip _ x w1.ne' hx.1 hx.2) (fun _ _ => trivial) (.last _ _)

theorem chain_xyz_luv : InvChain c [XYZ, LUV] (DXyzLuv (Color.whitePoint c.wp)) := by
  obtain ⟨w0, w1, w2⟩ := wp_pos c hwp
  exact .step (hop_xyz_luv c hwp) (hop_luv_xyz c hwp) (D' := fun _ => True)
    (fun x hx => luv_xyz_roundtrip _ x w1.ne' hx.1 hx.2) (fun _ _ => trivial) (.last _ _)

theorem chain_lchuv_xyz : InvChain c [LCHUV, LUV, XYZ] (DLchuv (Color.whitePoint c.wp)) := by
  refine .step (hop_lchuv_luv c hwp) (hop_luv_lchuv c hwp) (D' := DLuv (Color.whitePoint c.wp)) ?_ (fun x hx => hx.2) (chain_luv_xyz c hwp)
  rintro ⟨L, C, h⟩ ⟨⟨hC, h0, h1⟩, _⟩; exact luv_lchuv_roundtrip_exact L C h hC h0 h1

theorem chain_xyz_lchuv : InvChain c [XYZ, LUV, LCHUV] (DXyzLuv (Color.whitePoint c.wp)) := by
  obtain ⟨w0, w1, w2⟩ := wp_pos c hwp
  exact .step (hop_xyz_luv c hwp) (hop_luv_xyz c hwp) (D' := fun _ => True)
    (fun x hx => luv_xyz_roundtrip _ x w1.ne' hx.1 hx.2) (fun _ _ => trivial)
    (.step (hop_luv_lchuv c hwp) (hop_lchuv_luv c hwp) (D' := fun _ => True) (fun x _ => lchuv_luv_roundtrip x) (fun _ _ => trivial) (.last _ _))

theorem chain_hsluv_xyz : InvChain c [HSLUV, LCHUV, LUV, XYZ] (DHsluv (Color.whitePoint c.wp)) := by
  refine .step (hop_hsluv_lchuv c hwp) (hop_lchuv_hsluv c hwp) (D' := DLchuv (Color.whitePoint c.wp)) ?_ (fun x hx => hx.2.2) (chain_lchuv_xyz c hwp)
  rintro ⟨H, S, L⟩ ⟨hmc, _, _⟩; exact lchuv_hsluv_roundtrip H S L hmc

/-- domain of `Xyz → … → Hsluv → … → Xyz`: above the `Luv` guards, and the divisor `max_chroma_at_hue` of the `Lchuv` image positive -/
def DXyzHsluv (w x : V3 ℝ) : Prop :=
  DXyzLuv w x ∧ 0 < maxChroma (luvToLchuv (xyzToLuv w x)).c0 (luvToLchuv (xyzToLuv w x)).c2

theorem chain_xyz_hsluv : InvChain c [XYZ, LUV, LCHUV, HSLUV] (DXyzHsluv (Color.whitePoint c.wp)) := by
  obtain ⟨w0, w1, w2⟩ := wp_pos c hwp
  refine .step (hop_xyz_luv c hwp) (hop_luv_xyz c hwp)
    (D' := fun y => 0 < maxChroma (luvToLchuv y).c0 (luvToLchuv y).c2)
    (fun x hx => luv_xyz_roundtrip _ x w1.ne' hx.1.1 hx.1.2) (fun x hx => hx.2) ?_
  refine .step (hop_luv_lchuv c hwp) (hop_lchuv_luv c hwp) (D' := fun y => 0 < maxChroma y.c0 y.c2)
    (fun x _ => lchuv_luv_roundtrip x) (fun x hx => hx) ?_
  exact .step (hop_lchuv_hsluv c hwp) (hop_hsluv_lchuv c hwp) (D' := fun _ => True)
    (fun x hx => hsluv_lchuv_roundtrip x.c0 x.c1 x.c2 hx) (fun _ _ => trivial) (.last _ _)

/-- the long tree walk `Lch → Lab → Xyz → Luv → Lchuv`: the `Lch` colour is polar non-degenerate and its `Xyz` image is above the `Luv` guards -/
def DLchToLchuv (w x : V3 ℝ) : Prop := DPolar x ∧ DXyzLuv w (labToXyz w (lchToLab x))

theorem chain_lch_lchuv : InvChain c [LCH, LAB, XYZ, LUV, LCHUV] (DLchToLchuv (Color.whitePoint c.wp)) := by
  obtain ⟨w0, w1, w2⟩ := wp_pos c hwp
  refine .step (hop_lch_lab c hwp) (hop_lab_lch c hwp) (D' := fun y => DXyzLuv (Color.whitePoint c.wp) (labToXyz (Color.whitePoint c.wp) y)) ?_ (fun x hx => hx.2) ?_
  · rintro ⟨L, C, h⟩ ⟨⟨hC, h0, h1⟩, _⟩; exact lab_lch_roundtrip_exact L C h hC h0 h1
  · exact .step (hop_lab_xyz c hwp) (hop_xyz_lab c hwp) (D' := DXyzLuv (Color.whitePoint c.wp))
      (fun x _ => xyz_lab_roundtrip _ x w0.ne' w1.ne' w2.ne') (fun x hx => hx) (chain_xyz_lchuv c hwp)

/-! ### the whole-route round trips (exact equality) -/

/-- **`Lch → Lab → Xyz → Lab → Lch` is the identity** on non-degenerate `Lch` colours (chroma > 0, hue in (0°, 360°], every lightness),
    for every white point of the table -/
theorem lch_xyz_lch (x : V3 ℝ) (hx : DPolar x) : roundTrip c LCH XYZ x = some x :=
  roundTrip_of_chain routes_cie.1 routes_cie.2.1 (chain_lch_xyz c hwp) x hx

/-- **`Xyz → Lab → Lch → Lab → Xyz` is the identity on all of ℝ³** -/
theorem xyz_lch_xyz (x : V3 ℝ) : roundTrip c XYZ LCH x = some x :=
  roundTrip_of_chain routes_cie.2.1 routes_cie.1 (chain_xyz_lch c hwp) x trivial

/-- **`Lchuv → Luv → Xyz → Luv → Lchuv` is the identity** on non-degenerate `Lchuv` colours -/
theorem lchuv_xyz_lchuv (x : V3 ℝ) (hx : DLchuv (Color.whitePoint c.wp) x) : roundTrip c LCHUV XYZ x = some x :=
  roundTrip_of_chain routes_cie.2.2.1 routes_cie.2.2.2.1 (chain_lchuv_xyz c hwp) x hx

/-- **`Xyz → Luv → Lchuv → Luv → Xyz` is the identity** above the guards of `Luv ← Xyz` -/
theorem xyz_lchuv_xyz (x : V3 ℝ) (hx : DXyzLuv (Color.whitePoint c.wp) x) : roundTrip c XYZ LCHUV x = some x :=
  roundTrip_of_chain routes_cie.2.2.2.1 routes_cie.2.2.1 (chain_xyz_lchuv c hwp) x hx

/-- **`Hsluv → Lchuv → Luv → Xyz` and back is the identity** on non-degenerate `Hsluv` colours -/
theorem hsluv_xyz_hsluv (x : V3 ℝ) (hx : DHsluv (Color.whitePoint c.wp) x) : roundTrip c HSLUV XYZ x = some x :=
  roundTrip_of_chain routes_cie.2.2.2.2.1 routes_cie.2.2.2.2.2.1 (chain_hsluv_xyz c hwp) x hx

/-- **`Xyz → Luv → Lchuv → Hsluv` and back is the identity** above the `Luv` guards where the `max_chroma_at_hue` divisor is positive -/
theorem xyz_hsluv_xyz (x : V3 ℝ) (hx : DXyzHsluv (Color.whitePoint c.wp) x) : roundTrip c XYZ HSLUV x = some x :=
  roundTrip_of_chain routes_cie.2.2.2.2.2.1 routes_cie.2.2.2.2.1 (chain_xyz_hsluv c hwp) x hx

/-- **`Luv → Xyz → Luv`**, **`Xyz → Luv → Xyz`** -/
theorem luv_xyz_luv (x : V3 ℝ) (hx : DLuv (Color.whitePoint c.wp) x) : roundTrip c LUV XYZ x = some x :=
  roundTrip_of_chain routes_cie.2.2.2.2.2.2.2.2.1 routes_cie.2.2.2.2.2.2.2.2.2.1 (chain_luv_xyz c hwp) x hx
theorem xyz_luv_xyz (x : V3 ℝ) (hx : DXyzLuv (Color.whitePoint c.wp) x) : roundTrip c XYZ LUV x = some x :=
  roundTrip_of_chain routes_cie.2.2.2.2.2.2.2.2.2.1 routes_cie.2.2.2.2.2.2.2.2.1 (chain_xyz_luv c hwp) x hx

/-- **the five-colour tree walk `Lch → Lab → Xyz → Luv → Lchuv` and back is the identity** -/
theorem lch_lchuv_lch (x : V3 ℝ) (hx : DLchToLchuv (Color.whitePoint c.wp) x) : roundTrip c LCH LCHUV x = some x :=
  roundTrip_of_chain routes_cie.2.2.2.2.2.2.2.2.2.2.2.2.2.2.2.2.2.2.2.2.1 routes_cie.2.2.2.2.2.2.2.2.2.2.2.2.2.2.2.2.2.2.2.2.2
    (chain_lch_lchuv c hwp) x hx

end chains

/-- the one-edge round trips `Lab ↔ Xyz`, `Lab ↔ Lch` (all of ℝ³ except `Lch → Lab → Lch`, which needs `DPolar`) -/
theorem lab_xyz_lab (c : Cfg) (hwp : WpOk c) (x : V3 ℝ) : roundTrip c LAB XYZ x = some x ∧ roundTrip c XYZ LAB x = some x ∧ roundTrip c LAB LCH x = some x := by
  obtain ⟨w0, w1, w2⟩ := wp_pos c hwp
  refine ⟨roundTrip_of_chain (D := fun _ => True) routes_cie.2.2.2.2.2.2.1 routes_cie.2.2.2.2.2.2.2.1 ?_ x trivial,
    roundTrip_of_chain (D := fun _ => True) routes_cie.2.2.2.2.2.2.2.1 routes_cie.2.2.2.2.2.2.1 ?_ x trivial,
    roundTrip_of_chain (D := fun _ => True) routes_cie.2.2.2.2.2.2.2.2.2.2.2.1 routes_cie.2.2.2.2.2.2.2.2.2.2.1 ?_ x trivial⟩
  · exact .step (hop_lab_xyz c hwp) (hop_xyz_lab c hwp) (D' := fun _ => True) (fun x _ => xyz_lab_roundtrip _ x w0.ne' w1.ne' w2.ne') (fun _ _ => trivial) (.last _ _)
  · exact .step (hop_xyz_lab c hwp) (hop_lab_xyz c hwp) (D' := fun _ => True) (fun x _ => lab_xyz_roundtrip _ x w0.ne' w1.ne' w2.ne') (fun _ _ => trivial) (.last _ _)
  · exact .step (hop_lab_lch c hwp) (hop_lch_lab c hwp) (D' := fun _ => True) (fun x _ => lch_lab_roundtrip x) (fun _ _ => trivial) (.last _ _)

/-- the one-edge polar and `Hsluv` round trips -/
theorem lch_lab_lch (c : Cfg) (hwp : WpOk c) (x : V3 ℝ) (hx : DPolar x) : roundTrip c LCH LAB x = some x :=
  roundTrip_of_chain (D := DPolar) routes_cie.2.2.2.2.2.2.2.2.2.2.1 routes_cie.2.2.2.2.2.2.2.2.2.2.2.1
    (.step (hop_lch_lab c hwp) (hop_lab_lch c hwp) (D' := fun _ => True)
      (fun x hx => lab_lch_roundtrip_exact x.c0 x.c1 x.c2 hx.1 hx.2.1 hx.2.2) (fun _ _ => trivial) (.last _ _)) x hx
theorem lchuv_luv_lchuv (c : Cfg) (hwp : WpOk c) (x : V3 ℝ) (hx : DPolar x) : roundTrip c LCHUV LUV x = some x :=
  roundTrip_of_chain (D := DPolar) routes_cie.2.2.2.2.2.2.2.2.2.2.2.2.1 routes_cie.2.2.2.2.2.2.2.2.2.2.2.2.2.1
    (.step (hop_lchuv_luv c hwp) (hop_luv_lchuv c hwp) (D' := fun _ => True)
      (fun x hx => luv_lchuv_roundtrip_exact x.c0 x.c1 x.c2 hx.1 hx.2.1 hx.2.2) (fun _ _ => trivial) (.last _ _)) x hx
theorem luv_lchuv_luv (c : Cfg) (hwp : WpOk c) (x : V3 ℝ) : roundTrip c LUV LCHUV x = some x :=
  roundTrip_of_chain (D := fun _ => True) routes_cie.2.2.2.2.2.2.2.2.2.2.2.2.2.1 routes_cie.2.2.2.2.2.2.2.2.2.2.2.2.1
    (.step (hop_luv_lchuv c hwp) (hop_lchuv_luv c hwp) (D' := fun _ => True)
      (fun x _ => lchuv_luv_roundtrip x) (fun _ _ => trivial) (.last _ _)) x trivial
theorem hsluv_lchuv_hsluv (c : Cfg) (hwp : WpOk c) (x : V3 ℝ) (hx : 0 < maxChroma x.c2 x.c0) : roundTrip c HSLUV LCHUV x = some x :=
  roundTrip_of_chain (D := fun x => 0 < maxChroma x.c2 x.c0) routes_cie.2.2.2.2.2.2.2.2.2.2.2.2.2.2.1 routes_cie.2.2.2.2.2.2.2.2.2.2.2.2.2.2.2.1
    (.step (hop_hsluv_lchuv c hwp) (hop_lchuv_hsluv c hwp) (D' := fun _ => True)
      (fun x hx => lchuv_hsluv_roundtrip x.c0 x.c1 x.c2 hx) (fun _ _ => trivial) (.last _ _)) x hx
theorem lchuv_hsluv_lchuv (c : Cfg) (hwp : WpOk c) (x : V3 ℝ) (hx : 0 < maxChroma x.c0 x.c2) : roundTrip c LCHUV HSLUV x = some x :=
  roundTrip_of_chain (D := fun x => 0 < maxChroma x.c0 x.c2) routes_cie.2.2.2.2.2.2.2.2.2.2.2.2.2.2.2.1 routes_cie.2.2.2.2.2.2.2.2.2.2.2.2.2.2.1
    (.step (hop_lchuv_hsluv c hwp) (hop_hsluv_lchuv c hwp) (D' := fun _ => True)
      (fun x hx => hsluv_lchuv_roundtrip x.c0 x.c1 x.c2 hx) (fun _ _ => trivial) (.last _ _)) x hx

/-- **`Xyz → Yxy → Xyz`** (`X + Y + Z ≠ 0`, `Y ≠ 0`) and **`Yxy → Xyz → Yxy`** (`y ≠ 0`, `luma ≠ 0`): the identity (no white point involved) -/
theorem xyz_yxy_xyz (c : Cfg) (x : V3 ℝ) (hs : x.c0 + x.c1 + x.c2 ≠ 0) (hy : x.c1 ≠ 0) : roundTrip c XYZ YXY x = some x :=
  roundTrip_of_chain (D := fun x => x.c0 + x.c1 + x.c2 ≠ 0 ∧ x.c1 ≠ 0) routes_cie.2.2.2.2.2.2.2.2.2.2.2.2.2.2.2.2.2.2.2.1
    routes_cie.2.2.2.2.2.2.2.2.2.2.2.2.2.2.2.2.2.2.1
    (.step (hop_xyz_yxy c) (hop_yxy_xyz c) (D' := fun _ => True) (fun x hx => yxy_xyz_roundtrip x.c0 x.c1 x.c2 hx.1 hx.2)
      (fun _ _ => trivial) (.last _ _)) x ⟨hs, hy⟩
theorem yxy_xyz_yxy (c : Cfg) (x : V3 ℝ) (hy : x.c1 ≠ 0) (hY : x.c2 ≠ 0) : roundTrip c YXY XYZ x = some x :=
  roundTrip_of_chain (D := fun x => x.c1 ≠ 0 ∧ x.c2 ≠ 0) routes_cie.2.2.2.2.2.2.2.2.2.2.2.2.2.2.2.2.2.2.1
    routes_cie.2.2.2.2.2.2.2.2.2.2.2.2.2.2.2.2.2.2.2.1
    (.step (hop_yxy_xyz c) (hop_xyz_yxy c) (D' := fun _ => True) (fun x hx => xyz_yxy_roundtrip x.c0 x.c1 x.c2 hx.1 hx.2)
      (fun _ _ => trivial) (.last _ _)) x ⟨hy, hY⟩

/-! ### the same compositions for an arbitrary white point with positive components (edge functions) -/

/-- **every white point with positive components**: `Lch → Lab → Xyz → Lab → Lch` is the identity on `DPolar` -/
theorem lch_xyz_lch_fn (w x : V3 ℝ) (h0 : 0 < w.c0) (h1 : 0 < w.c1) (h2 : 0 < w.c2) (hx : DPolar x) :
    labToLch (xyzToLab w (labToXyz w (lchToLab x))) = x := by
  rw [xyz_lab_roundtrip w _ h0.ne' h1.ne' h2.ne']
  obtain ⟨L, C, h⟩ := x; exact lab_lch_roundtrip_exact L C h hx.1 hx.2.1 hx.2.2

theorem lchuv_xyz_lchuv_fn (w x : V3 ℝ) (h1 : 0 < w.c1) (hx : DLchuv w x) :
    luvToLchuv (xyzToLuv w (luvToXyz w (lchuvToLuv x))) = x := by
  rw [xyz_luv_roundtrip w _ h1.ne' hx.2.1 hx.2.2]
  obtain ⟨L, C, h⟩ := x; exact luv_lchuv_roundtrip_exact L C h hx.1.1 hx.1.2.1 hx.1.2.2

theorem hsluv_xyz_hsluv_fn (w x : V3 ℝ) (h1 : 0 < w.c1) (hx : DHsluv w x) :
    lchuvToHsluv (luvToLchuv (xyzToLuv w (luvToXyz w (lchuvToLuv (hsluvToLchuv x))))) = x := by
  rw [lchuv_xyz_lchuv_fn w _ h1 hx.2.2]
  obtain ⟨H, S, L⟩ := x; exact lchuv_hsluv_roundtrip H S L hx.1

/-! ### non-vacuity: the configuration the harness runs (D65) and a colour in each domain -/

/-- a white point with positive components, and colours in the domains of the `Yxy` round trips -/
example : (0 : ℝ) < 0.95047 ∧ (0 : ℝ) < 1.0 ∧ (0 : ℝ) < 1.08883 := by norm_num
example : (0.3 : ℝ) + 0.4 + 0.2 ≠ 0 ∧ (0.4 : ℝ) ≠ 0 := by norm_num

theorem wpOk_D65 (std : String) : WpOk ⟨"D65", std⟩ := by
  show Gen.Mat.whitePoints.any (·.1 == "D65") = true
  decide +kernel
example : DPolar ⟨50, 30, 90⟩ := by unfold DPolar; norm_num

theorem whitePoint_D65 : (Color.whitePoint "D65" : V3 ℝ) = ⟨0.95047, 1.0, 1.08883⟩ := by
  unfold Color.whitePoint; rw [find_D65]; simp [Color.v3OfK]

theorem dLchuv_example : DLchuv (Color.whitePoint "D65") ⟨50, 30, 90⟩ := by
  refine ⟨by unfold DPolar; norm_num, ?_⟩
  have hv := lchuvToLuv_v 50 30 90 (by norm_num)
  unfold DLuv; rw [hv.1, hv.2, theta90, Real.sin_pi_div_two, whitePoint_D65]
  unfold vRef; norm_num

theorem dHsluv_example : DHsluv (Color.whitePoint "D65") ⟨90, 50, 50⟩ := by
  have hmc := maxChroma_pos_example
  have e : hsluvToLchuv (⟨90, 50, 50⟩ : V3 ℝ) = ⟨50, 50 * maxChroma (50 : ℝ) 90 * 0.01, 90⟩ := rfl
  refine ⟨hmc, by norm_num, ?_⟩
  rw [e]
  have hC : 0 < 50 * maxChroma (50 : ℝ) 90 * 0.01 := by positivity
  refine ⟨⟨hC, by norm_num, by norm_num⟩, ?_⟩
  have hv := lchuvToLuv_v 50 (50 * maxChroma (50 : ℝ) 90 * 0.01) 90 hC.le
  unfold DLuv; rw [hv.1, hv.2, theta90, Real.sin_pi_div_two, whitePoint_D65]
  refine ⟨by norm_num, ?_⟩
  have : 0 < vRef (⟨0.95047, 1.0, 1.08883⟩ : V3 ℝ) := by unfold vRef; norm_num
  have h2 : 0 ≤ 50 * maxChroma (50 : ℝ) 90 * 0.01 * 1 / (13 * 50) := by positivity
  linarith

theorem dXyzLuv_example : DXyzLuv (Color.whitePoint "D65") ⟨0.3, 0.4, 0.2⟩ := by
  unfold DXyzLuv; rw [whitePoint_D65]; norm_num

/-- `Xyz ← Luv` lands in the stated domain of `Luv ← Xyz` (`Y/Yₙ ≥ 1.2e-8`) as soon as `L* ≥ 1.1e-5`.  (That guard is sufficient for
    `luv_xyz_roundtrip`, not sharp: the sharp one is `L*(Y/Yₙ) ≥ 1e-5`, i.e. `Y/Yₙ ≥ 1e-5·(3/29)³ ≈ 1.107e-8`; images of `Luv` colours
    with `1e-5 ≤ L* < 1.1e-5` do round-trip but are outside `DXyzLuv`.) -/
theorem luvToXyz_mem (w l : V3 ℝ) (hw : 0 < w.c1) (hl : DLuv w l) (hL : 1.1e-5 ≤ l.c0) : DXyzLuv w (luvToXyz w l) := by
  obtain ⟨L, u, v⟩ := l
  obtain ⟨h1, hv⟩ := hl
  simp only at h1 hv hL
  have hLpos : 0 < L := lt_of_lt_of_le (by norm_num) hL
  have hYpos := luvY_pos hLpos
  rw [luvToXyz_of_ge _ _ (not_lt.mpr h1)]
  unfold DXyzLuv; unfold vRef at hv; simp only
  have hY : 1.2e-8 ≤ luvY L := by
    rw [luvY_eq]
    split_ifs with h8
    · have hb : (24 / 116 : ℝ) ≤ (L + 16) / 116 := by apply div_le_div_of_nonneg_right _ (by norm_num); linarith
      have : (24 / 116 : ℝ) ^ 3 ≤ ((L + 16) / 116) ^ 3 := pow_le_pow_left₀ (by norm_num) hb 3
      norm_num at this ⊢; linarith
    · norm_num at hL ⊢; nlinarith
  generalize 4 * w.c0 * (1 / (w.c0 + 15 * w.c1 + 3 * w.c2)) = un
  generalize hvn : 9 * w.c1 * (1 / (w.c0 + 15 * w.c1 + 3 * w.c2)) = vn at hv
  constructor
  · rw [mul_div_assoc, div_self hw.ne', mul_one]; exact hY
  · set vp := v / (13 * L) + vn with hvp
    set up := u / (13 * L) + un with hup
    have hYne : luvY L * w.c1 ≠ 0 := (mul_pos hYpos hw).ne'
    have e : luvY L * w.c1 * 2.25 * up / vp + 15 * (luvY L * w.c1) + 3 * (luvY L * w.c1 * (3 - 0.75 * up - 5 * vp) / vp)
        = 9 * (luvY L * w.c1) / vp := by field_simp; ring
    rw [e]; exact div_ne_zero (mul_ne_zero (by norm_num) hYne) hv

theorem dXyzHsluv_example :
    DXyzHsluv (Color.whitePoint "D65") (luvToXyz (Color.whitePoint "D65") (lchuvToLuv (hsluvToLchuv ⟨90, 50, 50⟩))) := by
  obtain ⟨hmc, _, hpol, hluv⟩ := dHsluv_example
  have hw1 : (0 : ℝ) < (Color.whitePoint "D65" : V3 ℝ).c1 := by rw [whitePoint_D65]; norm_num
  have hL : (lchuvToLuv (hsluvToLchuv (⟨90, 50, 50⟩ : V3 ℝ))).c0 = 50 := rfl
  refine ⟨luvToXyz_mem _ _ hw1 hluv (by rw [hL]; norm_num), ?_⟩
  rw [xyz_luv_roundtrip _ _ hw1.ne' hluv.1 hluv.2]
  have e : hsluvToLchuv (⟨90, 50, 50⟩ : V3 ℝ) = ⟨50, 50 * maxChroma (50 : ℝ) 90 * 0.01, 90⟩ := rfl
  rw [e] at hpol ⊢
  rw [luv_lchuv_roundtrip_exact _ _ _ hpol.1 hpol.2.1 hpol.2.2]
  exact hmc

theorem dLchToLchuv_example : DLchToLchuv (Color.whitePoint "D65") ⟨50, 30, 90⟩ := by
  refine ⟨by unfold DPolar; norm_num, ?_⟩
  have e1 : lchToLab (⟨50, 30, 90⟩ : V3 ℝ) = ⟨50, 0, 30⟩ := by
    simp only [lchToLab, RealScalar.degToRad_eq, RealScalar.cos_eq, RealScalar.sin_eq, RealScalar.max_eq, theta90, Real.cos_pi_div_two,
      Real.sin_pi_div_two]
    norm_num
  rw [e1, whitePoint_D65]
  unfold labToXyz; simp only [recip_eq]
  have a1 : ((50 : ℝ) + 16.0) * (1 / 116.0) = 33 / 58 := by norm_num
  have a2 : (33 / 58 : ℝ) + 0 * (1 / 500.0) = 33 / 58 := by norm_num
  have a3 : (33 / 58 : ℝ) - 30 * (1 / 200.0) = 243 / 580 := by norm_num
  rw [a1, a2, a3, labFInv_hi (by norm_num : (6 / 29 : ℝ) < 33 / 58), labFInv_hi (by norm_num : (6 / 29 : ℝ) < 243 / 580)]
  unfold DXyzLuv; norm_num

theorem dLuv_example : DLuv (Color.whitePoint "D65") ⟨50, 0, 30⟩ := by
  unfold DLuv vRef; rw [whitePoint_D65]; norm_num

end C01WholeCie
