/-
  C14 — "agree with the matrix derived from its primaries and white point" / "RGB white is the standard's white point", for the
  **derived** matrix, symbolically and *through the source-text tie*: the statements are about `Gen.BodyMatrix.rgbToXyzMatrix`, the
  translation of the current text of `matrix::rgb_to_xyz_matrix` (`PaletteProofs/Tie_Matrix.lean`: `tie_rgbToXyzMatrix`,
  `tie_matrixInverse`, `tie_mat3FromPrimaries`, `Tie.tie_matMulVec`), read at ℝ.

  * `derived_white`: for **any** primaries (any three XYZ columns, any `Yxy → Xyz` function) whose matrix has a non-zero determinant and
    **any** white point `w`, the function returns a matrix `M` (no panic) and `M·(1,1,1) = w` exactly - the scaling step
    `M = P·diag(P⁻¹ w)` makes it so;
  * `derived_panics_iff`: it panics exactly when the determinant of the primaries matrix is zero;
  * `tuple_space_white`: hence for the tuple space `(P, W)` (no hard-coded tables: `Tie.tuple_space_uses_derived`) the translated edge
    `Xyz ← Rgb<(P, W, Tf)>` sends every linear gray `(g, g, g)` to `g·w`, in particular white to the white point;
  * `derived_inverse_white`: and `Rgb ← Xyz` through `matrix_inverse` of the derived matrix sends `w` back to `(1,1,1)` when that matrix is
    invertible as well.
  The decided facts about the generated tables (`C02.derived_white_exact`, `derived_matrix_eq_lindbloom`, `hard_matrices_near_derived`) evaluate
  `MatArith.rgbToXyzMatrix`; `Tie.rgbToXyzMatrix_eq_matArith` identifies it with the translated body on every regular input.
-/
import PaletteProofs.Real
import PaletteProofs.Tie_Matrix
import Mathlib.Tactic.FieldSimp
import Mathlib.Tactic.Linarith

namespace C14Derived
open RealScalar

/-- the determinant `matrix_inverse` computes -/
def det3 (a : M3 ℝ) : ℝ := a.m0 * (a.m4 * a.m8 - a.m5 * a.m7) - a.m1 * (a.m3 * a.m8 - a.m5 * a.m6) + a.m2 * (a.m3 * a.m7 - a.m4 * a.m6)

theorem det3_eq (a : M3 ℝ) : det3 a = MatArith.det a := rfl

/-- `matrix_inverse` at ℝ: the adjugate over the determinant, or the panic -/
theorem inverse_some (a : M3 ℝ) (h : det3 a ≠ 0) : Adapt.matrixInverse a = some (MatArith.inverse a) := by
  rw [Tie.matrixInverse_eq_matArith, ← det3_eq]
  simp only [valid_eq, h, ne_eq, not_false_eq_true, decide_true, if_true]

theorem inverse_none (a : M3 ℝ) (h : det3 a = 0) : Adapt.matrixInverse a = none := by
  rw [Tie.matrixInverse_eq_matArith, ← det3_eq]
  simp only [valid_eq, h, ne_eq, not_true_eq_false, decide_false, Bool.false_eq_true, if_false]

/-- `P · (P⁻¹ w) = w`, in the shape the scaled columns produce it: `Σ_j (P_ij · s_j) · 1` -/
theorem scaled_columns_white (p : M3 ℝ) (w : V3 ℝ) (h : det3 p ≠ 0) :
    (MatrixForms.scaleColumns p ((MatArith.inverse p).mulVec w)).mulVec ⟨1.0, 1.0, 1.0⟩ = w := by
  obtain ⟨p0, p1, p2, p3, p4, p5, p6, p7, p8⟩ := p
  obtain ⟨x, y, z⟩ := w
  have hd : p0 * (p4 * p8 - p5 * p7) - p1 * (p3 * p8 - p5 * p6) + p2 * (p3 * p7 - p4 * p6) ≠ 0 := h
  have h1 := one_div_mul_cancel hd
  simp only [MatrixForms.scaleColumns, MatArith.inverse, M3.mulVec, V3.mk.injEq, show (1.0 : ℝ) = 1 by norm_num]
  generalize 1 / (p0 * (p4 * p8 - p5 * p7) - p1 * (p3 * p8 - p5 * p6) + p2 * (p3 * p7 - p4 * p6)) = e at h1 ⊢
  refine ⟨?_, ?_, ?_⟩
  · linear_combination x * h1
  · linear_combination y * h1
  · linear_combination z * h1

/-- **the derived matrix sends RGB white to the white point**, for any primaries with invertible matrix, any white point, and it does not panic -/
theorem derived_white (red green blue wp : V3 ℝ) (f : V3 ℝ → V3 ℝ)
    (h : det3 (MatrixForms.mat3FromPrimaries (f red) (f green) (f blue)) ≠ 0) :
    ∃ M, Gen.BodyMatrix.rgbToXyzMatrix red green blue f wp = some M ∧ M.mulVec ⟨1.0, 1.0, 1.0⟩ = wp := by
  refine ⟨MatrixForms.scaleColumns (MatrixForms.mat3FromPrimaries (f red) (f green) (f blue))
    ((MatArith.inverse (MatrixForms.mat3FromPrimaries (f red) (f green) (f blue))).mulVec wp), ?_, scaled_columns_white _ _ h⟩
  rw [Tie.tie_rgbToXyzMatrix]
  unfold MatrixForms.rgbToXyzMatrix
  dsimp only
  rw [inverse_some _ h]

/-- the hypothesis is satisfiable by a non-trivial value: the sRGB primaries (as XYZ columns, identity for `Yxy → Xyz`) -/
example : det3 (MatrixForms.mat3FromPrimaries (id (⟨0.4124, 0.2126, 0.0193⟩ : V3 ℝ)) (id ⟨0.3576, 0.7152, 0.1192⟩) (id ⟨0.1805, 0.0722, 0.9505⟩)) ≠ 0 := by
  simp only [det3, MatrixForms.mat3FromPrimaries, id]; norm_num

/-- it panics exactly when the primaries matrix is singular -/
theorem derived_panics_iff (red green blue wp : V3 ℝ) (f : V3 ℝ → V3 ℝ) :
    Gen.BodyMatrix.rgbToXyzMatrix red green blue f wp = none ↔ det3 (MatrixForms.mat3FromPrimaries (f red) (f green) (f blue)) = 0 := by
  constructor
  · intro hn
    by_contra h
    obtain ⟨M, hM, _⟩ := derived_white red green blue wp f h
    rw [hM] at hn; cases hn
  · intro h
    rw [Tie.tie_rgbToXyzMatrix]
    unfold MatrixForms.rgbToXyzMatrix
    dsimp only
    rw [inverse_none _ h]

/-- linearity of `multiply_3x3_and_vec3` on the gray axis -/
theorem mulVec_gray (m : M3 ℝ) (g : ℝ) : m.mulVec ⟨g, g, g⟩ = Prim.v3MulS (m.mulVec ⟨1.0, 1.0, 1.0⟩) g := by
  simp only [M3.mulVec, Prim.v3MulS, V3.mk.injEq]
  refine ⟨?_, ?_, ?_⟩ <;> (simp only [show (1.0 : ℝ) = 1 by norm_num]; ring)

/-- **white stays white, neutrals stay neutral for the tuple space `(P, W)`**: the translated `Xyz ← Rgb<S>` with the `RgbSpace` defaults
    (no hard-coded table) sends the linear gray `(g, g, g)` to `g · w`, whatever the primaries, as long as their matrix is invertible -/
theorem tuple_space_white (red green blue wp : V3 ℝ) (f il : V3 ℝ → V3 ℝ) (g : ℝ) (c : V3 ℝ) (hc : il c = ⟨g, g, g⟩)
    (h : det3 (MatrixForms.mat3FromPrimaries (f red) (f green) (f blue)) ≠ 0) :
    Gen.BodyMatrix.xyzFromRgb Gen.BodyMatrix.rgbSpaceDefaultRgbToXyz red green blue f wp il c = some (Prim.v3MulS wp g) := by
  obtain ⟨M, hM, hw⟩ := derived_white red green blue wp f h
  unfold Gen.BodyMatrix.xyzFromRgb
  rw [(Tie.tuple_space_uses_derived red green blue wp f).1, hM, hc]
  show some (M.mulVec ⟨g, g, g⟩) = _
  rw [mulVec_gray, hw]

/-- … and back: `Rgb ← Xyz` of the tuple space is `matrix_inverse` of the derived matrix; where that does not panic either, the white point
    comes back as `(1, 1, 1)` before the transfer function -/
theorem derived_inverse_white (red green blue wp : V3 ℝ) (f : V3 ℝ → V3 ℝ) (M : M3 ℝ)
    (hM : Gen.BodyMatrix.rgbToXyzMatrix red green blue f wp = some M) (hw : M.mulVec ⟨1.0, 1.0, 1.0⟩ = wp) (hd : det3 M ≠ 0) :
    Gen.BodyMatrix.rgbFromXyz Gen.BodyMatrix.rgbSpaceDefaultXyzToRgb red green blue f wp id wp = some ⟨1.0, 1.0, 1.0⟩ := by
  unfold Gen.BodyMatrix.rgbFromXyz
  rw [(Tie.tuple_space_uses_derived red green blue wp f).2, hM, Tie.tie_matrixInverse]
  show Option.bind (Option.map Prim.Matrix3.mk (Adapt.matrixInverse M)) _ = _
  rw [inverse_some _ hd]
  show some (id ((MatArith.inverse M).mulVec wp)) = _
  rw [← hw]
  obtain ⟨p0, p1, p2, p3, p4, p5, p6, p7, p8⟩ := M
  have hd' : p0 * (p4 * p8 - p5 * p7) - p1 * (p3 * p8 - p5 * p6) + p2 * (p3 * p7 - p4 * p6) ≠ 0 := hd
  have h1 := one_div_mul_cancel hd'
  simp only [MatArith.inverse, M3.mulVec, id, Option.some.injEq, V3.mk.injEq, show (1.0 : ℝ) = 1 by norm_num]
  generalize 1 / (p0 * (p4 * p8 - p5 * p7) - p1 * (p3 * p8 - p5 * p6) + p2 * (p3 * p7 - p4 * p6)) = e at h1 ⊢
  refine ⟨?_, ?_, ?_⟩ <;> linear_combination h1

end C14Derived
