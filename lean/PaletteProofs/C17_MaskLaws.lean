/-
  C17 — `BoolMask` / `BitOps` / `Select` / `LazySelect` laws for the model's masks (`Simd.Mask`: `bool` and `Fin n → bool`,
  `bool_mask.rs`, `bool_mask/wide.rs`).  `C17_Simd` has the lane-wise reading of every operation (`and_lane`, …, `isTrue_iff`,
  `isFalse_iff`, `select_mask_lane`); here are the laws the generic palette code relies on:

  * `from_bool`: `from_bool(b)` is `b` in every lane; `from_bool(true).is_true()`, `from_bool(false).is_false()`; with at least one
    lane also `!from_bool(true).is_false()`, `!from_bool(false).is_true()` (the crate's `from_true` / `from_false` tests, any `n ≥ 1`);
    selecting with `from_bool(b)` is the scalar `if b`.
  * `is_true` / `is_false` are the two *horizontal* reductions: all lanes / no lane; they are exclusive for `n ≥ 1`, both fail exactly
    for mixed masks, and a uniform mask selects like a `bool` (`select_of_isTrue`, `select_of_isFalse`).
  * `lazy_select` = `select` (both closures are evaluated: `lazySelect_eq_select`), and for one lane / `bool` it is the `if`.
  * `& | ^ !` form a Boolean algebra lane by lane (commutative, associative, idempotent, absorption, De Morgan, involution, `^` as
    symmetric difference) and commute with the reductions where they should (`isTrue_and`, `isFalse_or`, `isTrue_not`, `isFalse_not`).
  * the one loop in the crate that consults a reduction — `impl IsWithinBounds for [T]`: `result &= item; if result.is_false() { break }` —
    returns the same mask as the loop without the early exit, for `bool` and for every lane count (`andLoop_eq_fold`).
-/
import PaletteProofs.C17_Simd

namespace C17
open Simd

section lanesBool
variable {n : Nat}

/-! ### `from_bool` -/
theorem isTrue_fromBool_true : Mask.isTrue (Mask.fromBool true : Lanes n Bool) = true :=
  (isTrue_iff _).2 fun _ => rfl
theorem isFalse_fromBool_false : Mask.isFalse (Mask.fromBool false : Lanes n Bool) = true :=
  (isFalse_iff _).2 fun _ => rfl
/-- with at least one lane a mask is not both all-true and all-false -/
theorem not_isTrue_and_isFalse (h : 0 < n) (m : Lanes n Bool) : ¬ (Mask.isTrue m = true ∧ Mask.isFalse m = true) := by
  rintro ⟨ht, hf⟩
  have a := (isTrue_iff m).1 ht ⟨0, h⟩
  have b := (isFalse_iff m).1 hf ⟨0, h⟩
  rw [a] at b; exact Bool.noConfusion b
theorem isFalse_fromBool_true (h : 0 < n) : Mask.isFalse (Mask.fromBool true : Lanes n Bool) = false := by
  cases hf : Mask.isFalse (Mask.fromBool true : Lanes n Bool) with
  | false => rfl
  | true => exact absurd ⟨isTrue_fromBool_true, hf⟩ (not_isTrue_and_isFalse h _)
theorem isTrue_fromBool_false (h : 0 < n) : Mask.isTrue (Mask.fromBool false : Lanes n Bool) = false := by
  cases ht : Mask.isTrue (Mask.fromBool false : Lanes n Bool) with
  | false => rfl
  | true => exact absurd ⟨ht, isFalse_fromBool_false⟩ (not_isTrue_and_isFalse h _)
/-- with no lane at all both reductions hold (vacuous): the hypothesis `0 < n` is needed -/
example (m : Lanes 0 Bool) : Mask.isTrue m = true ∧ Mask.isFalse m = true := ⟨rfl, rfl⟩

/-- `is_true` ⇔ the mask is `from_bool(true)`; `is_false` ⇔ it is `from_bool(false)` -/
theorem isTrue_iff_eq (m : Lanes n Bool) : Mask.isTrue m = true ↔ m = Mask.fromBool true :=
  ⟨fun h => funext ((isTrue_iff m).1 h), fun h => h ▸ isTrue_fromBool_true⟩
theorem isFalse_iff_eq (m : Lanes n Bool) : Mask.isFalse m = true ↔ m = Mask.fromBool false :=
  ⟨fun h => funext ((isFalse_iff m).1 h), fun h => h ▸ isFalse_fromBool_false⟩
/-- a mask with lanes on both sides fails both tests -/
theorem mixed_mask (m : Lanes n Bool) (i j : Fin n) (hi : m i = true) (hj : m j = false) : Mask.isTrue m = false ∧ Mask.isFalse m = false := by
  constructor
  · cases h : Mask.isTrue m with
    | false => rfl
    | true => have := (isTrue_iff m).1 h j; rw [hj] at this; exact Bool.noConfusion this
  · cases h : Mask.isFalse m with
    | false => rfl
    | true => have := (isFalse_iff m).1 h i; rw [hi] at this; exact Bool.noConfusion this

/-! ### `select`, `lazy_select` -/
variable {α : Type} [Scalar α]

/-- `lazy_select` on SIMD masks evaluates both closures and selects -/
theorem lazySelect_eq_select (m : Lanes n Bool) (a b : Lanes n α) : lazySelect m a b = VScalar.select m a b := rfl
theorem select_fromBool (c : Bool) (a b : Lanes n α) : VScalar.select (Mask.fromBool c : Lanes n Bool) a b = if c = true then a else b := by
  cases c <;> rfl
/-- a uniform mask selects one whole operand, like a `bool` -/
theorem select_of_isTrue (m : Lanes n Bool) (h : Mask.isTrue m = true) (a b : Lanes n α) : VScalar.select m a b = a := by
  rw [(isTrue_iff_eq m).1 h]; rfl
theorem select_of_isFalse (m : Lanes n Bool) (h : Mask.isFalse m = true) (a b : Lanes n α) : VScalar.select m a b = b := by
  rw [(isFalse_iff_eq m).1 h]; rfl
/-- selecting between equal values is that value, whatever the mask -/
theorem select_same (m : Lanes n Bool) (a : Lanes n α) : VScalar.select m a a = a := by
  funext i; show (if m i = true then a i else a i) = a i; cases m i <;> rfl
/-- `!m` swaps the operands -/
theorem select_not (m : Lanes n Bool) (a b : Lanes n α) : VScalar.select (Mask.not m) a b = VScalar.select m b a := by
  funext i; show (if (!m i) = true then a i else b i) = (if m i = true then b i else a i); cases m i <;> rfl
/-- nested selects on `p & q` / `p | q` -/
theorem select_and (p q : Lanes n Bool) (a b : Lanes n α) :
    VScalar.select (Mask.and p q) a b = VScalar.select p (VScalar.select q a b) b := by
  funext i
  show (if (p i && q i) = true then a i else b i) = (if p i = true then (if q i = true then a i else b i) else b i)
  cases p i <;> cases q i <;> rfl
theorem select_or (p q : Lanes n Bool) (a b : Lanes n α) :
    VScalar.select (Mask.or p q) a b = VScalar.select p a (VScalar.select q a b) := by
  funext i
  show (if (p i || q i) = true then a i else b i) = (if p i = true then a i else (if q i = true then a i else b i))
  cases p i <;> cases q i <;> rfl
/-- one lane is the scalar `if` -/
theorem select_one (m : Lanes 1 Bool) (a b : Lanes 1 α) : (VScalar.select m a b) 0 = if m 0 = true then a 0 else b 0 := rfl
omit [Scalar α] in
theorem isFalse_one (m : Lanes 1 Bool) : Mask.isFalse m = !(m 0) := by
  show ((List.finRange 1).all fun i => !(m i)) = !(m 0)
  simp [List.finRange_succ]

/-! ### `BitOps`: a Boolean algebra, lane by lane -/
theorem and_comm' (p q : Lanes n Bool) : Mask.and p q = Mask.and q p := funext fun _ => Bool.and_comm _ _
theorem or_comm' (p q : Lanes n Bool) : Mask.or p q = Mask.or q p := funext fun _ => Bool.or_comm _ _
theorem xor_comm' (p q : Lanes n Bool) : Mask.xor p q = Mask.xor q p := funext fun _ => Bool.xor_comm _ _
theorem and_assoc' (p q r : Lanes n Bool) : Mask.and (Mask.and p q) r = Mask.and p (Mask.and q r) := funext fun _ => Bool.and_assoc _ _ _
theorem or_assoc' (p q r : Lanes n Bool) : Mask.or (Mask.or p q) r = Mask.or p (Mask.or q r) := funext fun _ => Bool.or_assoc _ _ _
theorem and_self' (p : Lanes n Bool) : Mask.and p p = p := funext fun _ => Bool.and_self _
theorem or_self' (p : Lanes n Bool) : Mask.or p p = p := funext fun _ => Bool.or_self _
theorem not_not' (p : Lanes n Bool) : Mask.not (Mask.not p) = p := funext fun _ => Bool.not_not _
theorem not_and' (p q : Lanes n Bool) : Mask.not (Mask.and p q) = Mask.or (Mask.not p) (Mask.not q) := funext fun _ => Bool.not_and _ _
theorem not_or' (p q : Lanes n Bool) : Mask.not (Mask.or p q) = Mask.and (Mask.not p) (Mask.not q) := funext fun _ => Bool.not_or _ _
theorem and_or_absorb (p q : Lanes n Bool) : Mask.and p (Mask.or p q) = p := funext fun i => by
  show (p i && (p i || q i)) = p i; cases p i <;> cases q i <;> rfl
theorem and_or_distrib (p q r : Lanes n Bool) : Mask.and p (Mask.or q r) = Mask.or (Mask.and p q) (Mask.and p r) := funext fun _ => Bool.and_or_distrib_left _ _ _
theorem xor_eq (p q : Lanes n Bool) : Mask.xor p q = Mask.or (Mask.and p (Mask.not q)) (Mask.and (Mask.not p) q) := funext fun i => by
  show Bool.xor (p i) (q i) = ((p i && !q i) || (!p i && q i)); cases p i <;> cases q i <;> rfl
theorem and_true' (p : Lanes n Bool) : Mask.and p (Mask.fromBool true) = p := funext fun _ => Bool.and_true _
theorem and_false' (p : Lanes n Bool) : Mask.and p (Mask.fromBool false) = Mask.fromBool false := funext fun _ => Bool.and_false _
theorem or_false' (p : Lanes n Bool) : Mask.or p (Mask.fromBool false) = p := funext fun _ => Bool.or_false _
theorem or_true' (p : Lanes n Bool) : Mask.or p (Mask.fromBool true) = Mask.fromBool true := funext fun _ => Bool.or_true _
theorem and_not_self (p : Lanes n Bool) : Mask.and p (Mask.not p) = Mask.fromBool false := funext fun i => by
  show (p i && !p i) = false; cases p i <;> rfl
theorem or_not_self (p : Lanes n Bool) : Mask.or p (Mask.not p) = Mask.fromBool true := funext fun i => by
  show (p i || !p i) = true; cases p i <;> rfl

/-- the reductions commute with the bit operations where they should -/
theorem isTrue_and (p q : Lanes n Bool) : Mask.isTrue (Mask.and p q) = (Mask.isTrue p && Mask.isTrue q) := by
  apply Bool.eq_iff_iff.2
  rw [isTrue_iff, Bool.and_eq_true, isTrue_iff, isTrue_iff]
  constructor
  · intro h; exact ⟨fun i => (Bool.and_eq_true _ _ ▸ h i : p i = true ∧ q i = true).1, fun i => (Bool.and_eq_true _ _ ▸ h i : p i = true ∧ q i = true).2⟩
  · intro h i; show (p i && q i) = true; rw [h.1 i, h.2 i]; rfl
theorem isFalse_or (p q : Lanes n Bool) : Mask.isFalse (Mask.or p q) = (Mask.isFalse p && Mask.isFalse q) := by
  apply Bool.eq_iff_iff.2
  rw [isFalse_iff, Bool.and_eq_true, isFalse_iff, isFalse_iff]
  constructor
  · intro h
    refine ⟨fun i => ?_, fun i => ?_⟩
    · have := h i; change (p i || q i) = false at this; cases hp : p i <;> simp_all
    · have := h i; change (p i || q i) = false at this; cases hq : q i <;> simp_all
  · intro h i; show (p i || q i) = false; rw [h.1 i, h.2 i]; rfl
theorem isTrue_not (p : Lanes n Bool) : Mask.isTrue (Mask.not p) = Mask.isFalse p := rfl
theorem isFalse_not (p : Lanes n Bool) : Mask.isFalse (Mask.not p) = Mask.isTrue p := by
  show ((List.finRange n).all fun i => !(!(p i))) = (List.finRange n).all fun i => p i
  congr 1; funext i; exact Bool.not_not _

end lanesBool

/-! ### the loop of `impl IsWithinBounds for [T]` (lib.rs): `&=` with an early exit on `is_false()` -/

/-- `for item in self { result &= item.is_within_bounds(); if result.is_false() { break; } } result`, on the masks of the items -/
def andLoop {μ : Type} [Mask μ] : List μ → μ → μ
  | [], r => r
  | m :: ms, r =>
    let r' := Mask.and r m
    if Mask.isFalse r' = true then r' else andLoop ms r'

/-- the early exit never changes the result, any lane count: once no lane is set, `&=` keeps it so -/
theorem andLoop_eq_fold {n : Nat} (ms : List (Lanes n Bool)) (r : Lanes n Bool) : andLoop ms r = ms.foldl Mask.and r := by
  induction ms generalizing r with
  | nil => rfl
  | cons m ms ih =>
    show (if Mask.isFalse (Mask.and r m) = true then Mask.and r m else andLoop ms (Mask.and r m)) = ms.foldl Mask.and (Mask.and r m)
    by_cases h : Mask.isFalse (Mask.and r m) = true
    · rw [if_pos h]
      have e := (isFalse_iff_eq _).1 h
      rw [e]
      clear h e ih
      induction ms with
      | nil => rfl
      | cons x xs ih2 =>
        show _ = xs.foldl Mask.and (Mask.and (Mask.fromBool false) x)
        have : Mask.and (Mask.fromBool false : Lanes n Bool) x = Mask.fromBool false := by
          rw [and_comm', and_false']
        rw [this]; exact ih2
    · rw [if_neg h]; exact ih _
/-- … and for `bool` (`f32`/`f64` colours) -/
theorem andLoop_eq_fold_bool (ms : List Bool) (r : Bool) : andLoop ms r = ms.foldl (· && ·) r := by
  induction ms generalizing r with
  | nil => rfl
  | cons m ms ih =>
    show (if (!(r && m)) = true then (r && m) else andLoop ms (r && m)) = ms.foldl (· && ·) (r && m)
    cases h : (r && m)
    · simp only [Bool.not_false, if_true]
      clear h ih
      induction ms with
      | nil => rfl
      | cons x xs ih2 => exact ih2
    · simp only [Bool.not_true, Bool.false_eq_true, if_false]; exact ih _
/-- each lane of the SIMD loop is the scalar loop on that lane's masks -/
theorem andLoop_lane {n : Nat} (ms : List (Lanes n Bool)) (r : Lanes n Bool) (i : Fin n) :
    (andLoop ms r) i = andLoop (ms.map (· i)) (r i) := by
  rw [andLoop_eq_fold, andLoop_eq_fold_bool]
  induction ms generalizing r with
  | nil => rfl
  | cons m ms ih => exact ih (Mask.and r m)

/-- non-vacuity: three 4-lane masks; the loop exits early in no lane's favour -/
example : Lanes.toList (andLoop [fun i => [true, true, false, true].getD i.val false, fun i => [true, false, false, true].getD i.val false,
      (fun _ => true : Lanes 4 Bool)] (Mask.fromBool true)) = [true, false, false, true] := by decide

end C17
