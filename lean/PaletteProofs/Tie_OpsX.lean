/-
  Tie of the operator model (`PaletteModel/Ops.lean`, C10) to the text of `impl_mix_hue!`, `impl_hue_ops!`, `impl_color_add!`, `impl_color_sub!` **at the six
  partial CAM16 types**, which `Tie_Ops.lean` listed as not translated (their invocations are written once inside cam16/partial.rs `make_partial_cam16!`).

  `tools/extract.py` (`gen_bodies_more`, `tools/rust2lean_more.py`, family `opsx`) instantiates the macro body at every actual `make_partial_cam16!`
  invocation and hands the six resulting invocation sets to the unchanged translator (lean/PaletteModel/Gen/BodiesOpsX.lean: by-value and assigning forms
  of `Add` / `Sub` with colour and scalar operands, `mix` / `mix_assign`, `get_hue`, `with_hue`, `set_hue`, `shift_hue`, `shift_hue_assign`).  Each theorem
  states, for every `[Scalar α]` (hence bit-exactly at f32 / f64), that the translated body is the generic model function the driver executes, at the spec
  written in the statement: three components, hue last (`Ops.roles 3 2`, hue position 2).  All `rfl`.

  NOT translated: header of Gen/BodiesOpsX.lean (`Luma`: one component - the lowering represents a colour as `V3 α`).
-/
import PaletteModel.Gen.BodiesOpsX

namespace Tie
variable {α : Type} [Scalar α]

/-! ### `Cam16Jch` (cam16/partial.rs `make_partial_cam16!`): fields ['lightness', 'chroma', 'hue'], hue at 2 -/
theorem tie_addCam16Jch (a b : V3 α) : (Gen.Body.addCam16Jch a b).toList = Ops.addC a.toList b.toList := rfl
theorem tie_addSCam16Jch (a : V3 α) (c : α) : (Gen.Body.addSCam16Jch a c).toList = Ops.addS a.toList c := rfl
theorem tie_addAssignCam16Jch (a b : V3 α) : (Gen.Body.addAssignCam16Jch a b).toList = Ops.addAssignC a.toList b.toList := rfl
theorem tie_addAssignSCam16Jch (a : V3 α) (c : α) : (Gen.Body.addAssignSCam16Jch a c).toList = Ops.addAssignS a.toList c := rfl
theorem tie_subCam16Jch (a b : V3 α) : (Gen.Body.subCam16Jch a b).toList = Ops.subC a.toList b.toList := rfl
theorem tie_subSCam16Jch (a : V3 α) (c : α) : (Gen.Body.subSCam16Jch a c).toList = Ops.subS a.toList c := rfl
theorem tie_subAssignCam16Jch (a b : V3 α) : (Gen.Body.subAssignCam16Jch a b).toList = Ops.subAssignC a.toList b.toList := rfl
theorem tie_subAssignSCam16Jch (a : V3 α) (c : α) : (Gen.Body.subAssignSCam16Jch a c).toList = Ops.subAssignS a.toList c := rfl
theorem tie_mixCam16Jch (a b : V3 α) (f : α) : (Gen.Body.mixCam16Jch a b f).toList = Ops.mixHue (Ops.roles 3 2) a.toList b.toList f := rfl
theorem tie_mixAssignCam16Jch (a b : V3 α) (f : α) : (Gen.Body.mixAssignCam16Jch a b f).toList = Ops.mixHueAssign (Ops.roles 3 2) a.toList b.toList f := rfl
theorem tie_getHueCam16Jch (c : V3 α) : some (Gen.Body.getHueCam16Jch c) = Ops.getHue 2 c.toList := rfl
theorem tie_withHueCam16Jch (c : V3 α) (h : α) : (Gen.Body.withHueCam16Jch c h).toList = Ops.withHue 2 c.toList h := rfl
theorem tie_setHueCam16Jch (c : V3 α) (h : α) : (Gen.Body.setHueCam16Jch c h).toList = Ops.setHue 2 c.toList h := rfl
theorem tie_shiftHueCam16Jch (c : V3 α) (x : α) : (Gen.Body.shiftHueCam16Jch c x).toList = Ops.shiftHue 2 c.toList x := rfl
theorem tie_shiftHueAssignCam16Jch (c : V3 α) (x : α) : (Gen.Body.shiftHueAssignCam16Jch c x).toList = Ops.shiftHueAssign 2 c.toList x := rfl

/-! ### `Cam16Jmh` (cam16/partial.rs `make_partial_cam16!`): fields ['lightness', 'colorfulness', 'hue'], hue at 2 -/
theorem tie_addCam16Jmh (a b : V3 α) : (Gen.Body.addCam16Jmh a b).toList = Ops.addC a.toList b.toList := rfl
theorem tie_addSCam16Jmh (a : V3 α) (c : α) : (Gen.Body.addSCam16Jmh a c).toList = Ops.addS a.toList c := rfl
theorem tie_addAssignCam16Jmh (a b : V3 α) : (Gen.Body.addAssignCam16Jmh a b).toList = Ops.addAssignC a.toList b.toList := rfl
theorem tie_addAssignSCam16Jmh (a : V3 α) (c : α) : (Gen.Body.addAssignSCam16Jmh a c).toList = Ops.addAssignS a.toList c := rfl
theorem tie_subCam16Jmh (a b : V3 α) : (Gen.Body.subCam16Jmh a b).toList = Ops.subC a.toList b.toList := rfl
theorem tie_subSCam16Jmh (a : V3 α) (c : α) : (Gen.Body.subSCam16Jmh a c).toList = Ops.subS a.toList c := rfl
theorem tie_subAssignCam16Jmh (a b : V3 α) : (Gen.Body.subAssignCam16Jmh a b).toList = Ops.subAssignC a.toList b.toList := rfl
theorem tie_subAssignSCam16Jmh (a : V3 α) (c : α) : (Gen.Body.subAssignSCam16Jmh a c).toList = Ops.subAssignS a.toList c := rfl
theorem tie_mixCam16Jmh (a b : V3 α) (f : α) : (Gen.Body.mixCam16Jmh a b f).toList = Ops.mixHue (Ops.roles 3 2) a.toList b.toList f := rfl
theorem tie_mixAssignCam16Jmh (a b : V3 α) (f : α) : (Gen.Body.mixAssignCam16Jmh a b f).toList = Ops.mixHueAssign (Ops.roles 3 2) a.toList b.toList f := rfl
theorem tie_getHueCam16Jmh (c : V3 α) : some (Gen.Body.getHueCam16Jmh c) = Ops.getHue 2 c.toList := rfl
theorem tie_withHueCam16Jmh (c : V3 α) (h : α) : (Gen.Body.withHueCam16Jmh c h).toList = Ops.withHue 2 c.toList h := rfl
theorem tie_setHueCam16Jmh (c : V3 α) (h : α) : (Gen.Body.setHueCam16Jmh c h).toList = Ops.setHue 2 c.toList h := rfl
theorem tie_shiftHueCam16Jmh (c : V3 α) (x : α) : (Gen.Body.shiftHueCam16Jmh c x).toList = Ops.shiftHue 2 c.toList x := rfl
theorem tie_shiftHueAssignCam16Jmh (c : V3 α) (x : α) : (Gen.Body.shiftHueAssignCam16Jmh c x).toList = Ops.shiftHueAssign 2 c.toList x := rfl

/-! ### `Cam16Jsh` (cam16/partial.rs `make_partial_cam16!`): fields ['lightness', 'saturation', 'hue'], hue at 2 -/
theorem tie_addCam16Jsh (a b : V3 α) : (Gen.Body.addCam16Jsh a b).toList = Ops.addC a.toList b.toList := rfl
theorem tie_addSCam16Jsh (a : V3 α) (c : α) : (Gen.Body.addSCam16Jsh a c).toList = Ops.addS a.toList c := rfl
theorem tie_addAssignCam16Jsh (a b : V3 α) : (Gen.Body.addAssignCam16Jsh a b).toList = Ops.addAssignC a.toList b.toList := rfl
theorem tie_addAssignSCam16Jsh (a : V3 α) (c : α) : (Gen.Body.addAssignSCam16Jsh a c).toList = Ops.addAssignS a.toList c := rfl
theorem tie_subCam16Jsh (a b : V3 α) : (Gen.Body.subCam16Jsh a b).toList = Ops.subC a.toList b.toList := rfl
theorem tie_subSCam16Jsh (a : V3 α) (c : α) : (Gen.Body.subSCam16Jsh a c).toList = Ops.subS a.toList c := rfl
theorem tie_subAssignCam16Jsh (a b : V3 α) : (Gen.Body.subAssignCam16Jsh a b).toList = Ops.subAssignC a.toList b.toList := rfl
theorem tie_subAssignSCam16Jsh (a : V3 α) (c : α) : (Gen.Body.subAssignSCam16Jsh a c).toList = Ops.subAssignS a.toList c := rfl
theorem tie_mixCam16Jsh (a b : V3 α) (f : α) : (Gen.Body.mixCam16Jsh a b f).toList = Ops.mixHue (Ops.roles 3 2) a.toList b.toList f := rfl
theorem tie_mixAssignCam16Jsh (a b : V3 α) (f : α) : (Gen.Body.mixAssignCam16Jsh a b f).toList = Ops.mixHueAssign (Ops.roles 3 2) a.toList b.toList f := rfl
theorem tie_getHueCam16Jsh (c : V3 α) : some (Gen.Body.getHueCam16Jsh c) = Ops.getHue 2 c.toList := rfl
theorem tie_withHueCam16Jsh (c : V3 α) (h : α) : (Gen.Body.withHueCam16Jsh c h).toList = Ops.withHue 2 c.toList h := rfl
theorem tie_setHueCam16Jsh (c : V3 α) (h : α) : (Gen.Body.setHueCam16Jsh c h).toList = Ops.setHue 2 c.toList h := rfl
theorem tie_shiftHueCam16Jsh (c : V3 α) (x : α) : (Gen.Body.shiftHueCam16Jsh c x).toList = Ops.shiftHue 2 c.toList x := rfl
theorem tie_shiftHueAssignCam16Jsh (c : V3 α) (x : α) : (Gen.Body.shiftHueAssignCam16Jsh c x).toList = Ops.shiftHueAssign 2 c.toList x := rfl

/-! ### `Cam16Qch` (cam16/partial.rs `make_partial_cam16!`): fields ['brightness', 'chroma', 'hue'], hue at 2 -/
theorem tie_addCam16Qch (a b : V3 α) : (Gen.Body.addCam16Qch a b).toList = Ops.addC a.toList b.toList := rfl
theorem tie_addSCam16Qch (a : V3 α) (c : α) : (Gen.Body.addSCam16Qch a c).toList = Ops.addS a.toList c := rfl
theorem tie_addAssignCam16Qch (a b : V3 α) : (Gen.Body.addAssignCam16Qch a b).toList = Ops.addAssignC a.toList b.toList := rfl
theorem tie_addAssignSCam16Qch (a : V3 α) (c : α) : (Gen.Body.addAssignSCam16Qch a c).toList = Ops.addAssignS a.toList c := rfl
theorem tie_subCam16Qch (a b : V3 α) : (Gen.Body.subCam16Qch a b).toList = Ops.subC a.toList b.toList := rfl
theorem tie_subSCam16Qch (a : V3 α) (c : α) : (Gen.Body.subSCam16Qch a c).toList = Ops.subS a.toList c := rfl
theorem tie_subAssignCam16Qch (a b : V3 α) : (Gen.Body.subAssignCam16Qch a b).toList = Ops.subAssignC a.toList b.toList := rfl
theorem tie_subAssignSCam16Qch (a : V3 α) (c : α) : (Gen.Body.subAssignSCam16Qch a c).toList = Ops.subAssignS a.toList c := rfl
theorem tie_mixCam16Qch (a b : V3 α) (f : α) : (Gen.Body.mixCam16Qch a b f).toList = Ops.mixHue (Ops.roles 3 2) a.toList b.toList f := rfl
theorem tie_mixAssignCam16Qch (a b : V3 α) (f : α) : (Gen.Body.mixAssignCam16Qch a b f).toList = Ops.mixHueAssign (Ops.roles 3 2) a.toList b.toList f := rfl
theorem tie_getHueCam16Qch (c : V3 α) : some (Gen.Body.getHueCam16Qch c) = Ops.getHue 2 c.toList := rfl
theorem tie_withHueCam16Qch (c : V3 α) (h : α) : (Gen.Body.withHueCam16Qch c h).toList = Ops.withHue 2 c.toList h := rfl
theorem tie_setHueCam16Qch (c : V3 α) (h : α) : (Gen.Body.setHueCam16Qch c h).toList = Ops.setHue 2 c.toList h := rfl
theorem tie_shiftHueCam16Qch (c : V3 α) (x : α) : (Gen.Body.shiftHueCam16Qch c x).toList = Ops.shiftHue 2 c.toList x := rfl
theorem tie_shiftHueAssignCam16Qch (c : V3 α) (x : α) : (Gen.Body.shiftHueAssignCam16Qch c x).toList = Ops.shiftHueAssign 2 c.toList x := rfl

/-! ### `Cam16Qmh` (cam16/partial.rs `make_partial_cam16!`): fields ['brightness', 'colorfulness', 'hue'], hue at 2 -/
theorem tie_addCam16Qmh (a b : V3 α) : (Gen.Body.addCam16Qmh a b).toList = Ops.addC a.toList b.toList := rfl
theorem tie_addSCam16Qmh (a : V3 α) (c : α) : (Gen.Body.addSCam16Qmh a c).toList = Ops.addS a.toList c := rfl
theorem tie_addAssignCam16Qmh (a b : V3 α) : (Gen.Body.addAssignCam16Qmh a b).toList = Ops.addAssignC a.toList b.toList := rfl
theorem tie_addAssignSCam16Qmh (a : V3 α) (c : α) : (Gen.Body.addAssignSCam16Qmh a c).toList = Ops.addAssignS a.toList c := rfl
theorem tie_subCam16Qmh (a b : V3 α) : (Gen.Body.subCam16Qmh a b).toList = Ops.subC a.toList b.toList := rfl
theorem tie_subSCam16Qmh (a : V3 α) (c : α) : (Gen.Body.subSCam16Qmh a c).toList = Ops.subS a.toList c := rfl
theorem tie_subAssignCam16Qmh (a b : V3 α) : (Gen.Body.subAssignCam16Qmh a b).toList = Ops.subAssignC a.toList b.toList := rfl
theorem tie_subAssignSCam16Qmh (a : V3 α) (c : α) : (Gen.Body.subAssignSCam16Qmh a c).toList = Ops.subAssignS a.toList c := rfl
theorem tie_mixCam16Qmh (a b : V3 α) (f : α) : (Gen.Body.mixCam16Qmh a b f).toList = Ops.mixHue (Ops.roles 3 2) a.toList b.toList f := rfl
theorem tie_mixAssignCam16Qmh (a b : V3 α) (f : α) : (Gen.Body.mixAssignCam16Qmh a b f).toList = Ops.mixHueAssign (Ops.roles 3 2) a.toList b.toList f := rfl
theorem tie_getHueCam16Qmh (c : V3 α) : some (Gen.Body.getHueCam16Qmh c) = Ops.getHue 2 c.toList := rfl
theorem tie_withHueCam16Qmh (c : V3 α) (h : α) : (Gen.Body.withHueCam16Qmh c h).toList = Ops.withHue 2 c.toList h := rfl
theorem tie_setHueCam16Qmh (c : V3 α) (h : α) : (Gen.Body.setHueCam16Qmh c h).toList = Ops.setHue 2 c.toList h := rfl
theorem tie_shiftHueCam16Qmh (c : V3 α) (x : α) : (Gen.Body.shiftHueCam16Qmh c x).toList = Ops.shiftHue 2 c.toList x := rfl
theorem tie_shiftHueAssignCam16Qmh (c : V3 α) (x : α) : (Gen.Body.shiftHueAssignCam16Qmh c x).toList = Ops.shiftHueAssign 2 c.toList x := rfl

/-! ### `Cam16Qsh` (cam16/partial.rs `make_partial_cam16!`): fields ['brightness', 'saturation', 'hue'], hue at 2 -/
theorem tie_addCam16Qsh (a b : V3 α) : (Gen.Body.addCam16Qsh a b).toList = Ops.addC a.toList b.toList := rfl
theorem tie_addSCam16Qsh (a : V3 α) (c : α) : (Gen.Body.addSCam16Qsh a c).toList = Ops.addS a.toList c := rfl
theorem tie_addAssignCam16Qsh (a b : V3 α) : (Gen.Body.addAssignCam16Qsh a b).toList = Ops.addAssignC a.toList b.toList := rfl
theorem tie_addAssignSCam16Qsh (a : V3 α) (c : α) : (Gen.Body.addAssignSCam16Qsh a c).toList = Ops.addAssignS a.toList c := rfl
theorem tie_subCam16Qsh (a b : V3 α) : (Gen.Body.subCam16Qsh a b).toList = Ops.subC a.toList b.toList := rfl
theorem tie_subSCam16Qsh (a : V3 α) (c : α) : (Gen.Body.subSCam16Qsh a c).toList = Ops.subS a.toList c := rfl
theorem tie_subAssignCam16Qsh (a b : V3 α) : (Gen.Body.subAssignCam16Qsh a b).toList = Ops.subAssignC a.toList b.toList := rfl
theorem tie_subAssignSCam16Qsh (a : V3 α) (c : α) : (Gen.Body.subAssignSCam16Qsh a c).toList = Ops.subAssignS a.toList c := rfl
theorem tie_mixCam16Qsh (a b : V3 α) (f : α) : (Gen.Body.mixCam16Qsh a b f).toList = Ops.mixHue (Ops.roles 3 2) a.toList b.toList f := rfl
theorem tie_mixAssignCam16Qsh (a b : V3 α) (f : α) : (Gen.Body.mixAssignCam16Qsh a b f).toList = Ops.mixHueAssign (Ops.roles 3 2) a.toList b.toList f := rfl
theorem tie_getHueCam16Qsh (c : V3 α) : some (Gen.Body.getHueCam16Qsh c) = Ops.getHue 2 c.toList := rfl
theorem tie_withHueCam16Qsh (c : V3 α) (h : α) : (Gen.Body.withHueCam16Qsh c h).toList = Ops.withHue 2 c.toList h := rfl
theorem tie_setHueCam16Qsh (c : V3 α) (h : α) : (Gen.Body.setHueCam16Qsh c h).toList = Ops.setHue 2 c.toList h := rfl
theorem tie_shiftHueCam16Qsh (c : V3 α) (x : α) : (Gen.Body.shiftHueCam16Qsh c x).toList = Ops.shiftHue 2 c.toList x := rfl
theorem tie_shiftHueAssignCam16Qsh (c : V3 α) (x : α) : (Gen.Body.shiftHueAssignCam16Qsh c x).toList = Ops.shiftHueAssign 2 c.toList x := rfl

end Tie
