/-
  C11 — hues behave as angles on a circle.

  Property theorems about `PaletteModel/Hue.lean` (the transcription of `palette/src/angle.rs` and `hues.rs`).
  Part 1 reads the generic model at ℝ (`floor/ceil = Int.floor/Int.ceil`, `atan2 y x = Complex.arg ⟨x, y⟩`, `π = Real.pi`):
  ranges, congruence, equality = congruence modulo 360, the cartesian round trips, degrees/radians, and the `u8` mapping.
  Part 2 decides finite domains on Lean's kernel-transparent IEEE `Float32`/`Float` with the bit-level transcription
  `Hue.Bits` (the same definitions the driver runs against the implementation): the `u8 → float → u8` round trip on all
  256 hues, the named identities `0 = 360 = −360`, `180 = −180`, whole-turn shifts of integer angles.

  The clause over ALL floats — for every `x` with |x| ≤ 2^20:  −180 ≤ normS x ≤ 180 + ulp x,  −ulp x − 360·(least subnormal) ≤
  normU x ≤ 360, both within half an ulp of the result of `x − 360k` — is NOT proved in this file but IS proved elsewhere, for
  every bit pattern, through the IEEE reasoning layer `PaletteProofs/Ieee/*`:
    f32:  `C11_HueAll.lean` (`normU32_range_all`, `norm*32_congruent_all`, `normS32_lower_all`), `C11_HueAllS.lean` (`normS32_range_all`);
    f64:  `C11_HueAll64.lean`, `C11_HueAllS64.lean` (same names with `64`);
    float equality of whole-turn shifts on integer angles: `C11_HueEq.lean`; float → `u8` over every f32: `C11_HueU8.lean`.
  `normalize_range_f32_partial` below (kept unchanged) decides the f32 statement on 20 boundary patterns by kernel evaluation.
-/
import PaletteProofs.Real
import PaletteModel.Hue
import PaletteModel.Gen.Hue
import Mathlib.Tactic.Linarith
import Mathlib.Tactic.FieldSimp
import Mathlib.Algebra.Order.Floor.Ring
import Mathlib.Algebra.Order.ToIntervalMod
import Mathlib.Analysis.SpecialFunctions.Complex.Arg

namespace C11
open Hue

/-- the exact reading of the constants and casts: `π`, `π/180`, `180/π`, `n as T`, saturating `T as u8` -/
noncomputable instance instAngleConstsReal : AngleConsts ℝ where
  pi := Real.pi
  radsPerDeg := Real.pi / 180
  degsPerRad := 180 / Real.pi
  ofU8 := fun n => ((n % 256 : ℕ) : ℝ)
  toU8 := fun x => ⌊max 0 (min x 255)⌋₊

/-! ## Part 0 — the source is the one that was transcribed

  `Gen/Hue.lean` is regenerated from `/repo` on every run: the types the macros are instantiated for and the bodies of the
  modelled functions (comments stripped, whitespace normalised; `angle/wide.rs` carries the same bodies for the SIMD
  types).  An edit of any of them makes this obligation fail before the differential run even starts. -/

theorem instantiations_as_modelled :
    Gen.Hue.hueTypes = ["LabHue", "LuvHue", "RgbHue", "OklabHue", "Cam16Hue"] ∧ Gen.Hue.angleFloat = ["f32, f64"] ∧
    Gen.Hue.fromAngleFloat = ["f32 to f64", "f64 to f32"] ∧ Gen.Hue.fromAngleU8 = ["f32, f64"] ∧
    Gen.Hue.angleWide = ["f32x4, f32x8, f64x2, f64x4"] := by decide

theorem source_as_modelled : Gen.Hue.fns = [
  ("angle.float.half_rotation", "180.0"),
  ("angle.float.full_rotation", "360.0"),
  ("angle.float.degrees_to_radians", "self.to_radians()"),
  ("angle.float.radians_to_degrees", "self.to_degrees()"),
  ("angle.float.angle_eq", "self.normalize_unsigned_angle() == other.normalize_unsigned_angle()"),
  ("angle.float.normalize_signed_angle", "self - Round::ceil(((self + 180.0) / 360.0) - 1.0) * 360.0"),
  ("angle.float.normalize_unsigned_angle", "self - (Round::floor(self / 360.0) * 360.0)"),
  ("angle.float_float.from_angle", "angle as $ty"),
  ("angle.float_u8.from_angle#0", "(angle as $float_ty / 256.0) * Self::full_rotation()"),
  ("angle.float_u8.from_angle#1", "let normalized = angle.normalize_unsigned_angle() / $float_ty::full_rotation(); let rounded = (normalized * 256.0).round(); if rounded > 255.5 { 0 } else { rounded as u8 }"),
  ("angle.u8.half_rotation", "128"),
  ("angle.u8.angle_eq", "self == other"),
  ("angle.u8.normalize_unsigned_angle", "self"),
  ("angle.wide.half_rotation", "$ty::splat(180.0)"),
  ("angle.wide.full_rotation", "$ty::splat(360.0)"),
  ("angle.wide.degrees_to_radians", "self.to_radians()"),
  ("angle.wide.radians_to_degrees", "self.to_degrees()"),
  ("angle.wide.angle_eq", "self.normalize_unsigned_angle().cmp_eq(other.normalize_unsigned_angle())"),
  ("angle.wide.normalize_signed_angle", "self - Round::ceil(((self + 180.0) / 360.0) - 1.0) * 360.0"),
  ("angle.wide.normalize_unsigned_angle", "self - (Round::floor(self / 360.0) * 360.0)"),
  ("hues.new", "Self(angle)"),
  ("hues.into_inner", "self.0"),
  ("hues.into_format", "$name(U::from_angle(self.0))"),
  ("hues.from_format", "hue.into_format()"),
  ("hues.from_degrees", "Self::new(degrees)"),
  ("hues.from_radians", "Self(T::radians_to_degrees(radians))"),
  ("hues.into_raw_degrees", "self.0"),
  ("hues.into_raw_radians", "T::degrees_to_radians(self.0)"),
  ("hues.into_degrees", "self.0.normalize_signed_angle()"),
  ("hues.into_radians", "T::degrees_to_radians(self.0.normalize_signed_angle())"),
  ("hues.into_positive_degrees", "self.0.normalize_unsigned_angle()"),
  ("hues.into_positive_radians", "T::degrees_to_radians(self.0.normalize_unsigned_angle())"),
  ("hues.from_cartesian", "let hue_rad = T::from_f64(core::f64::consts::PI) + T::atan2(-b, -a); Self::from_radians(hue_rad)"),
  ("hues.into_cartesian", "let (b, a) = self.into_raw_radians().sin_cos(); (a, b)"),
  ("hues.from#0", "$name(degrees)"),
  ("hues.from#1", "hue.0.normalize_signed_angle()"),
  ("hues.from#2", "hue.0.normalize_signed_angle() as f64"),
  ("hues.from#3", "hue.0.normalize_signed_angle()"),
  ("hues.from#4", "hue.0.normalize_signed_angle() as f32"),
  ("hues.from#5", "hue.0"),
  ("hues.eq#0", "self.0.angle_eq(&other.0)"),
  ("hues.eq#1", "self.0.angle_eq(other)"),
  ("hues.add#0", "$name(self.0 + other.0)"),
  ("hues.add#1", "$name(self.0 + other)"),
  ("hues.add#2", "$name(self + other.0)"),
  ("hues.add#3", "$name(self + other.0)"),
  ("hues.add_assign#0", "self.0 += other.0;"),
  ("hues.add_assign#1", "self.0 += other;"),
  ("hues.add_assign#2", "*self += other.0;"),
  ("hues.add_assign#3", "*self += other.0;"),
  ("hues.sub#0", "$name(self.0 - other.0)"),
  ("hues.sub#1", "$name(self.0 - other)"),
  ("hues.sub#2", "$name(self - other.0)"),
  ("hues.sub#3", "$name(self - other.0)"),
  ("hues.sub_assign#0", "self.0 -= other.0;"),
  ("hues.sub_assign#1", "self.0 -= other;"),
  ("hues.sub_assign#2", "*self -= other.0;"),
  ("hues.sub_assign#3", "*self -= other.0;")] := rfl

/-! ## Part 1 — exact arithmetic -/

theorem normalizeUnsigned_eq (x : ℝ) : normalizeUnsigned x = x - (⌊x / 360⌋ : ℝ) * 360 := by
  show x - ((⌊x / 360.0⌋ : ℝ)) * 360.0 = _
  norm_num

theorem normalizeSigned_eq (x : ℝ) : normalizeSigned x = x - (⌈(x + 180) / 360 - 1⌉ : ℝ) * 360 := by
  show x - ((⌈(x + 180.0) / 360.0 - 1.0⌉ : ℝ)) * 360.0 = _
  norm_num

/-! ### ranges: unsigned form in `[0, 360)`, signed form in `(−180, 180]` -/

theorem unsigned_range (x : ℝ) : 0 ≤ normalizeUnsigned x ∧ normalizeUnsigned x < 360 := by
  rw [normalizeUnsigned_eq]
  have h1 := Int.floor_le (x / 360)
  have h2 := Int.lt_floor_add_one (x / 360)
  have e := div_mul_cancel₀ x (show (360:ℝ) ≠ 0 by norm_num)
  have a := mul_le_mul_of_nonneg_right h1 (show (0:ℝ) ≤ 360 by norm_num)
  have b := mul_lt_mul_of_pos_right h2 (show (0:ℝ) < 360 by norm_num)
  constructor <;> linarith

theorem signed_range (x : ℝ) : -180 < normalizeSigned x ∧ normalizeSigned x ≤ 180 := by
  rw [normalizeSigned_eq]
  have h1 := Int.le_ceil ((x + 180) / 360 - 1)
  have h2 := Int.ceil_lt_add_one ((x + 180) / 360 - 1)
  have e := div_mul_cancel₀ (x + 180) (show (360:ℝ) ≠ 0 by norm_num)
  have a := mul_le_mul_of_nonneg_right h1 (show (0:ℝ) ≤ 360 by norm_num)
  have b := mul_lt_mul_of_pos_right h2 (show (0:ℝ) < 360 by norm_num)
  constructor <;> linarith

/-! ### congruence: the stored angle and its normal forms differ by a whole number of turns -/

theorem unsigned_congruent (x : ℝ) : ∃ k : ℤ, x - normalizeUnsigned x = 360 * k :=
  ⟨⌊x / 360⌋, by rw [normalizeUnsigned_eq]; ring⟩

theorem signed_congruent (x : ℝ) : ∃ k : ℤ, x - normalizeSigned x = 360 * k :=
  ⟨⌈(x + 180) / 360 - 1⌉, by rw [normalizeSigned_eq]; ring⟩

/-! ### equality of hues is congruence modulo 360 -/

theorem angleEq_iff_unsigned (x y : ℝ) : angleEq x y ↔ normalizeUnsigned x = normalizeUnsigned y := by
  unfold angleEq Scalar.eqv
  exact ⟨fun h => le_antisymm h.1 h.2, fun h => ⟨le_of_eq h, le_of_eq h.symm⟩⟩

theorem angleEq_iff (x y : ℝ) : angleEq x y ↔ ∃ k : ℤ, x - y = 360 * k := by
  rw [angleEq_iff_unsigned, normalizeUnsigned_eq, normalizeUnsigned_eq]
  constructor
  · intro h
    refine ⟨⌊x / 360⌋ - ⌊y / 360⌋, ?_⟩
    push_cast; linarith
  · rintro ⟨k, hk⟩
    have hx : x = y + 360 * k := by linarith
    have : x / 360 = y / 360 + (k : ℝ) := by rw [hx]; field_simp
    rw [this, Int.floor_add_intCast, hx]
    push_cast; ring

/-- a hue equals itself shifted by any whole number of turns -/
theorem angleEq_add_turns (x : ℝ) (k : ℤ) : angleEq x (x + 360 * k) :=
  (angleEq_iff _ _).2 ⟨-k, by push_cast; ring⟩

/-- hues whose angles differ by anything but a whole number of turns are unequal -/
theorem not_angleEq_of_not_congruent (x y : ℝ) (h : ¬ ∃ k : ℤ, x - y = 360 * k) : ¬ angleEq x y :=
  fun e => h ((angleEq_iff _ _).1 e)

/-- `0 = 360 = −360` and `180 = −180` (both `PartialEq` forms are `angle_eq`) -/
theorem named_equalities :
    hueEq (0:ℝ) 360 ∧ hueEq (0:ℝ) (-360) ∧ hueEq (360:ℝ) (-360) ∧ hueEq (180:ℝ) (-180) := by
  unfold hueEq
  refine ⟨(angleEq_iff _ _).2 ⟨-1, by norm_num⟩, (angleEq_iff _ _).2 ⟨1, by norm_num⟩,
          (angleEq_iff _ _).2 ⟨2, by norm_num⟩, (angleEq_iff _ _).2 ⟨1, by norm_num⟩⟩

/-- non-vacuity of `not_angleEq_of_not_congruent`: 0° and 1° differ -/
theorem zero_ne_one_degree : ¬ hueEq (0:ℝ) 1 := by
  apply not_angleEq_of_not_congruent
  rintro ⟨k, hk⟩
  have h1 : (360:ℝ) * k = -1 := by linarith
  have h2 : ((360 * k : ℤ) : ℝ) = ((-1 : ℤ) : ℝ) := by push_cast; linarith
  have h3 : 360 * k = -1 := by exact_mod_cast h2
  omega

theorem angleEq_refl (x : ℝ) : angleEq x x := (angleEq_iff _ _).2 ⟨0, by simp⟩
theorem angleEq_symm {x y : ℝ} (h : angleEq x y) : angleEq y x := by
  obtain ⟨k, hk⟩ := (angleEq_iff _ _).1 h
  exact (angleEq_iff _ _).2 ⟨-k, by push_cast; linarith⟩
theorem angleEq_trans {x y z : ℝ} (h1 : angleEq x y) (h2 : angleEq y z) : angleEq x z := by
  obtain ⟨k, hk⟩ := (angleEq_iff _ _).1 h1
  obtain ⟨l, hl⟩ := (angleEq_iff _ _).1 h2
  exact (angleEq_iff _ _).2 ⟨k + l, by push_cast; linarith⟩

/-- both normal forms denote the same hue as the stored angle -/
theorem normal_forms_eq_hue (x : ℝ) : hueEq (intoDegrees x) x ∧ hueEq (intoPositiveDegrees x) x := by
  unfold hueEq intoDegrees intoPositiveDegrees
  obtain ⟨k, hk⟩ := signed_congruent x
  obtain ⟨l, hl⟩ := unsigned_congruent x
  exact ⟨(angleEq_iff _ _).2 ⟨-k, by push_cast; linarith⟩, (angleEq_iff _ _).2 ⟨-l, by push_cast; linarith⟩⟩

/-- two whole multiples of 360 that are less than 360 apart coincide -/
theorem turns_unique {a b : ℝ} {k : ℤ} (h : a - b = 360 * k) (h1 : a - b < 360) (h2 : -360 < a - b) : a = b := by
  have hk1 : (k : ℝ) < 1 := by nlinarith
  have hk2 : (-1 : ℝ) < k := by nlinarith
  have hk1' : k < 1 := by exact_mod_cast hk1
  have hk2' : (-1 : ℤ) < k := by exact_mod_cast hk2
  have : k = 0 := by omega
  rw [this] at h; simp at h; linarith

/-- the normal forms are *the* representatives: the only angle of `[0,360)` (resp. `(−180,180]`) equal to the hue -/
theorem unsigned_unique (x y : ℝ) (h0 : 0 ≤ y) (h1 : y < 360) (he : angleEq y x) : y = normalizeUnsigned x := by
  obtain ⟨k, hk⟩ := (angleEq_iff _ _).1 (angleEq_trans he (angleEq_symm (normal_forms_eq_hue x).2))
  have r := unsigned_range x
  unfold intoPositiveDegrees at hk
  exact turns_unique hk (by linarith [r.1]) (by linarith [r.2])

theorem signed_unique (x y : ℝ) (h0 : -180 < y) (h1 : y ≤ 180) (he : angleEq y x) : y = normalizeSigned x := by
  obtain ⟨k, hk⟩ := (angleEq_iff _ _).1 (angleEq_trans he (angleEq_symm (normal_forms_eq_hue x).1))
  have r := signed_range x
  unfold intoDegrees at hk
  exact turns_unique hk (by linarith [r.1]) (by linarith [r.2])

/-- normalising is idempotent -/
theorem normalize_idem (x : ℝ) :
    normalizeUnsigned (normalizeUnsigned x) = normalizeUnsigned x ∧ normalizeSigned (normalizeSigned x) = normalizeSigned x := by
  have u := unsigned_range x
  have s := signed_range x
  exact ⟨(unsigned_unique _ _ u.1 u.2 (angleEq_refl _)).symm, (signed_unique _ _ s.1 s.2 (angleEq_refl _)).symm⟩

/-- `Add`/`Sub` respect hue equality, and adding whole turns does not change the hue -/
theorem add_sub_congr {a a' b b' : ℝ} (ha : hueEq a a') (hb : hueEq b b') :
    hueEq (add a b) (add a' b') ∧ hueEq (sub a b) (sub a' b') := by
  unfold hueEq add sub at *
  obtain ⟨k, hk⟩ := (angleEq_iff _ _).1 ha
  obtain ⟨l, hl⟩ := (angleEq_iff _ _).1 hb
  exact ⟨(angleEq_iff _ _).2 ⟨k + l, by push_cast; linarith⟩, (angleEq_iff _ _).2 ⟨k - l, by push_cast; linarith⟩⟩

theorem add_sub_turns (x : ℝ) (k : ℤ) : hueEq (add x (360 * k)) x ∧ hueEq (sub x (360 * k)) x := by
  unfold hueEq add sub
  exact ⟨(angleEq_iff _ _).2 ⟨k, by ring⟩, (angleEq_iff _ _).2 ⟨-k, by push_cast; ring⟩⟩

/-! ### degrees and radians -/

theorem degreesToRadians_eq (x : ℝ) : degreesToRadians x = x * (Real.pi / 180) := rfl
theorem radiansToDegrees_eq (x : ℝ) : radiansToDegrees x = x * (180 / Real.pi) := rfl

/-- every radian accessor is the corresponding degree accessor times π/180 -/
theorem radians_eq (h : ℝ) :
    intoRadians h = intoDegrees h * Real.pi / 180 ∧
    intoPositiveRadians h = intoPositiveDegrees h * Real.pi / 180 ∧
    intoRawRadians h = intoRawDegrees h * Real.pi / 180 := by
  unfold intoRadians intoPositiveRadians intoRawRadians intoDegrees intoPositiveDegrees intoRawDegrees
  simp only [degreesToRadians_eq]
  refine ⟨by ring, by ring, by ring⟩

/-- `into_radians ∈ (−π, π]`, `into_positive_radians ∈ [0, 2π)` -/
theorem radians_range (h : ℝ) :
    (-Real.pi < intoRadians h ∧ intoRadians h ≤ Real.pi) ∧ (0 ≤ intoPositiveRadians h ∧ intoPositiveRadians h < 2 * Real.pi) := by
  have s := signed_range h
  have u := unsigned_range h
  have hp := Real.pi_pos
  unfold intoRadians intoPositiveRadians
  simp only [degreesToRadians_eq]
  refine ⟨⟨?_, ?_⟩, ⟨?_, ?_⟩⟩ <;> nlinarith

/-- `from_radians` and `into_raw_radians` are mutually inverse -/
theorem radians_roundtrip (r h : ℝ) : intoRawRadians (fromRadians r) = r ∧ fromRadians (intoRawRadians h) = h := by
  unfold intoRawRadians fromRadians
  simp only [degreesToRadians_eq, radiansToDegrees_eq]
  have hp : Real.pi ≠ 0 := Real.pi_ne_zero
  constructor <;> field_simp

theorem fromDegrees_raw (d : ℝ) : intoRawDegrees (fromDegrees d) = d := rfl

/-! ### cartesian coordinates -/

theorem fromCartesian_eq (a b : ℝ) : fromCartesian a b = (Real.pi + Complex.arg ⟨-a, -b⟩) * (180 / Real.pi) := rfl

theorem intoCartesian_eq (h : ℝ) : intoCartesian h = (Real.cos (h * (Real.pi / 180)), Real.sin (h * (Real.pi / 180))) := rfl

/-- `from_cartesian` is normalised: at ℝ it lies in `(0, 360]` -/
theorem fromCartesian_range (a b : ℝ) : 0 < fromCartesian a b ∧ fromCartesian a b ≤ 360 := by
  rw [fromCartesian_eq]
  have h1 := Complex.neg_pi_lt_arg (⟨-a, -b⟩ : ℂ)
  have h2 := Complex.arg_le_pi (⟨-a, -b⟩ : ℂ)
  have hp := Real.pi_pos
  constructor
  · apply mul_pos (by linarith) (by positivity)
  · have : (Real.pi + Complex.arg ⟨-a, -b⟩) * (180 / Real.pi) ≤ (2 * Real.pi) * (180 / Real.pi) :=
      mul_le_mul_of_nonneg_right (by linarith) (by positivity)
    have e : (2 * Real.pi) * (180 / Real.pi) = 360 := by field_simp; ring
    linarith

/-- building a hue from cartesian coordinates and reading it back as a unit vector preserves the direction -/
theorem cartesian_direction (a b : ℝ) (h : a ≠ 0 ∨ b ≠ 0) :
    intoCartesian (fromCartesian a b) = (a / Real.sqrt (a * a + b * b), b / Real.sqrt (a * a + b * b)) := by
  have hz : (⟨-a, -b⟩ : ℂ) ≠ 0 := by
    intro e
    have h1 := congrArg Complex.re e
    have h2 := congrArg Complex.im e
    simp at h1 h2
    rcases h with h | h <;> contradiction
  have hn : ‖(⟨-a, -b⟩ : ℂ)‖ = Real.sqrt (a * a + b * b) := by
    rw [Complex.norm_def, Complex.normSq_apply]; simp
  have hp : Real.pi ≠ 0 := Real.pi_ne_zero
  rw [intoCartesian_eq, fromCartesian_eq]
  have e : (Real.pi + Complex.arg ⟨-a, -b⟩) * (180 / Real.pi) * (Real.pi / 180) = Complex.arg ⟨-a, -b⟩ + Real.pi := by
    field_simp; ring
  rw [e, Real.cos_add_pi, Real.sin_add_pi, Complex.cos_arg hz, Complex.sin_arg, hn]
  simp only [neg_div, neg_neg]

/-- a unit vector read from a hue, scaled by any radius `r > 0`, gives back the same hue -/
theorem from_into_cartesian (h r : ℝ) (hr : 0 < r) :
    hueEq (fromCartesian (r * (intoCartesian h).1) (r * (intoCartesian h).2)) h := by
  unfold hueEq
  rw [intoCartesian_eq, fromCartesian_eq]
  simp only
  set t := h * (Real.pi / 180) with ht
  have hz : (⟨-(r * Real.cos t), -(r * Real.sin t)⟩ : ℂ) = (r : ℂ) * (Complex.cos ((t + Real.pi : ℝ) : ℂ) + Complex.sin ((t + Real.pi : ℝ) : ℂ) * Complex.I) := by
    rw [← Complex.ofReal_cos, ← Complex.ofReal_sin, Real.cos_add_pi, Real.sin_add_pi]
    apply Complex.ext <;> simp [Complex.cos_ofReal_re, Complex.sin_ofReal_re, Complex.cos_ofReal_im, Complex.sin_ofReal_im]
  rw [hz, Complex.arg_mul_cos_add_sin_mul_I_eq_toIocMod hr]
  have hk := self_sub_toIocMod_eq_mul Real.two_pi_pos (-Real.pi) (t + Real.pi)
  have hp : Real.pi ≠ 0 := Real.pi_ne_zero
  refine (angleEq_iff _ _).2 ⟨1 - toIocDiv Real.two_pi_pos (-Real.pi) (t + Real.pi), ?_⟩
  have e : toIocMod Real.two_pi_pos (-Real.pi) (t + Real.pi) = t + Real.pi - (toIocDiv Real.two_pi_pos (-Real.pi) (t + Real.pi) : ℝ) * (2 * Real.pi) := by
    linarith
  rw [e, ht]
  push_cast
  field_simp
  ring

/-- non-vacuity: the hypotheses of the two cartesian theorems are met, e.g. by the direction (−1, 0) = 180° -/
example : intoCartesian (fromCartesian (-1:ℝ) 0) = (-1, 0) := by
  rw [cartesian_direction (-1) 0 (Or.inl (by norm_num))]; norm_num

/-! ### the 8-bit representation at ℝ -/

theorem u8ToFloat_eq (n : ℕ) (hn : n < 256) : (u8ToFloat n : ℝ) = (n : ℝ) / 256 * 360 := by
  show (((n % 256 : ℕ) : ℝ) / 256.0) * 360.0 = _
  rw [Nat.mod_eq_of_lt hn]; norm_num

/-- an 8-bit hue becomes the angle `n·360/256 ∈ [0, 360)` … -/
theorem u8ToFloat_range (n : ℕ) (hn : n < 256) : 0 ≤ (u8ToFloat n : ℝ) ∧ (u8ToFloat n : ℝ) < 360 := by
  rw [u8ToFloat_eq n hn]
  have h0 : (0:ℝ) ≤ n := Nat.cast_nonneg n
  have h1 : (n:ℝ) < 256 := by exact_mod_cast hn
  constructor <;> linarith

theorem floatToU8_eq (x : ℝ) :
    floatToU8 x = if (255.5:ℝ) < Scalar.round (normalizeUnsigned x / 360 * 256) then 0
                  else ⌊max 0 (min (Scalar.round (normalizeUnsigned x / 360 * 256)) 255)⌋₊ := by
  show (if (255.5:ℝ) < Scalar.round (normalizeUnsigned x / 360.0 * 256.0) then 0
        else ⌊max 0 (min (Scalar.round (normalizeUnsigned x / 360.0 * 256.0)) 255)⌋₊) = _
  norm_num

theorem round_natCast (n : ℕ) : (Scalar.round (n : ℝ) : ℝ) = n := by
  show (if (0:ℝ) ≤ (n:ℝ) then ((⌊(n:ℝ) + 1 / 2⌋ : ℤ) : ℝ) else _) = _
  rw [if_pos (Nat.cast_nonneg n)]
  have : ⌊(n:ℝ) + 1 / 2⌋ = (n : ℤ) := by
    rw [Int.floor_eq_iff]; push_cast; constructor <;> linarith
  rw [this]; simp

/-- … and converting back reproduces every 8-bit hue -/
theorem u8_roundtrip (n : ℕ) (hn : n < 256) : floatToU8 (u8ToFloat n : ℝ) = n := by
  have r := u8ToFloat_range n hn
  have hu : normalizeUnsigned (u8ToFloat n : ℝ) = u8ToFloat n :=
    (unsigned_unique _ _ r.1 r.2 (angleEq_refl _)).symm
  have hv : (u8ToFloat n : ℝ) / 360 * 256 = (n : ℝ) := by rw [u8ToFloat_eq n hn]; ring
  have h1 : (n:ℝ) ≤ 255 := by
    have : n ≤ 255 := by omega
    exact_mod_cast this
  rw [floatToU8_eq, hu, hv, round_natCast, if_neg (by linarith), min_eq_left h1, max_eq_right (Nat.cast_nonneg n)]
  exact Nat.floor_natCast n

/-- the circle maps onto `0..=255` with wrap-around: the code only depends on the hue (whole turns do not matter),
    never exceeds 255, and every code is produced -/
theorem floatToU8_turns (x : ℝ) (k : ℤ) : floatToU8 (x + 360 * k) = floatToU8 x := by
  have : normalizeUnsigned (x + 360 * k) = normalizeUnsigned x :=
    ((angleEq_iff_unsigned _ _).1 (angleEq_add_turns x k)).symm
  rw [floatToU8_eq, floatToU8_eq, this]

theorem floatToU8_le (x : ℝ) : floatToU8 x ≤ 255 := by
  rw [floatToU8_eq]
  split
  · exact Nat.zero_le _
  · apply Nat.floor_le_of_le
    exact max_le (by norm_num) (min_le_right _ _)

theorem floatToU8_onto (n : ℕ) (hn : n < 256) : ∃ x : ℝ, 0 ≤ x ∧ x < 360 ∧ floatToU8 x = n :=
  ⟨u8ToFloat n, (u8ToFloat_range n hn).1, (u8ToFloat_range n hn).2, u8_roundtrip n hn⟩

/-- wrap-around: from 359.296875° (= 255.5 codes) up to a full turn the code is 0 again -/
theorem floatToU8_wrap (x : ℝ) (h0 : 359.296875 ≤ x) (h1 : x < 360) : floatToU8 x = 0 := by
  have hu : normalizeUnsigned x = x := (unsigned_unique _ _ (by linarith) h1 (angleEq_refl _)).symm
  rw [floatToU8_eq, hu]
  have hv : (255.5:ℝ) ≤ x / 360 * 256 := by linarith
  have hr : (256:ℝ) ≤ Scalar.round (x / 360 * 256) := by
    show (256:ℝ) ≤ (if (0:ℝ) ≤ x / 360 * 256 then ((⌊x / 360 * 256 + 1 / 2⌋ : ℤ) : ℝ) else _)
    rw [if_pos (by linarith)]
    have : (256 : ℤ) ≤ ⌊x / 360 * 256 + 1 / 2⌋ := Int.le_floor.2 (by push_cast; linarith)
    exact_mod_cast this
  rw [if_pos (by linarith)]

/-- closed form: the code is `round(256·frac(x/360)) mod 256` (round half up = half away from zero on non-negatives) -/
theorem floatToU8_spec (x : ℝ) : floatToU8 x = (⌊256 * Int.fract (x / 360) + 1 / 2⌋).toNat % 256 := by
  have hv : normalizeUnsigned x / 360 * 256 = 256 * Int.fract (x / 360) := by
    rw [normalizeUnsigned_eq, Int.fract]; field_simp
  have f0 := Int.fract_nonneg (x / 360)
  have f1 := Int.fract_lt_one (x / 360)
  set v := 256 * Int.fract (x / 360) with hvdef
  have v0 : 0 ≤ v := by positivity
  have v1 : v < 256 := by linarith
  have hr : (Scalar.round v : ℝ) = ((⌊v + 1 / 2⌋ : ℤ) : ℝ) := by
    show (if (0:ℝ) ≤ v then ((⌊v + 1 / 2⌋ : ℤ) : ℝ) else _) = _
    rw [if_pos v0]
  have R0 : (0:ℤ) ≤ ⌊v + 1 / 2⌋ := Int.floor_nonneg.2 (by linarith)
  have R1 : ⌊v + 1 / 2⌋ ≤ 256 := by
    have : ⌊v + 1 / 2⌋ < 257 := Int.floor_lt.2 (by push_cast; linarith)
    omega
  rw [floatToU8_eq, hv, hr]
  obtain ⟨m, hm⟩ := Int.eq_ofNat_of_zero_le R0
  rw [hm] at R1 ⊢
  have m1 : m ≤ 256 := by exact_mod_cast R1
  simp only [Int.cast_natCast, Int.toNat_natCast]
  by_cases h : m = 256
  · subst h; norm_num
  · have m2 : m ≤ 255 := by omega
    have m3 : (m:ℝ) ≤ 255 := by exact_mod_cast m2
    rw [if_neg (by linarith), min_eq_left m3, max_eq_right (Nat.cast_nonneg m), Nat.floor_natCast, Nat.mod_eq_of_lt (by omega)]

/-- below the wrap point the code is monotone in the angle -/
theorem floatToU8_mono {x y : ℝ} (h0 : 0 ≤ x) (hxy : x ≤ y) (h1 : y < 359.296875) : floatToU8 x ≤ floatToU8 y := by
  have key : ∀ z : ℝ, 0 ≤ z → z < 359.296875 → floatToU8 z = (⌊z / 360 * 256 + 1 / 2⌋).toNat := by
    intro z z0 z1
    have hu : normalizeUnsigned z = z := (unsigned_unique _ _ z0 (by linarith) (angleEq_refl _)).symm
    have v0 : 0 ≤ z / 360 * 256 := by positivity
    have v1 : z / 360 * 256 < 255.5 := by linarith
    have hr : (Scalar.round (z / 360 * 256) : ℝ) = ((⌊z / 360 * 256 + 1 / 2⌋ : ℤ) : ℝ) := by
      show (if (0:ℝ) ≤ z / 360 * 256 then ((⌊z / 360 * 256 + 1 / 2⌋ : ℤ) : ℝ) else _) = _
      rw [if_pos v0]
    have R0 : (0:ℤ) ≤ ⌊z / 360 * 256 + 1 / 2⌋ := Int.floor_nonneg.2 (by linarith)
    have R1 : ⌊z / 360 * 256 + 1 / 2⌋ < 256 := Int.floor_lt.2 (by push_cast; linarith)
    rw [floatToU8_eq, hu, hr]
    obtain ⟨m, hm⟩ := Int.eq_ofNat_of_zero_le R0
    rw [hm] at R1 ⊢
    have m2 : m ≤ 255 := by omega
    have m3 : (m:ℝ) ≤ 255 := by exact_mod_cast m2
    simp only [Int.cast_natCast, Int.toNat_natCast]
    rw [if_neg (by linarith), min_eq_left m3, max_eq_right (Nat.cast_nonneg m), Nat.floor_natCast]
  rw [key x h0 (by linarith), key y (by linarith) h1]
  apply Int.toNat_le_toNat
  apply Int.floor_le_floor
  have : x / 360 * 256 ≤ y / 360 * 256 := by
    apply mul_le_mul_of_nonneg_right _ (by norm_num)
    exact div_le_div_of_nonneg_right hxy (by norm_num)
  linarith
/-! ## Part 2 — IEEE floats, decided by kernel evaluation of the bit-level transcription
    (≈ 0.1 s per conversion in the kernel, hence the chunks of 128) -/
open Hue.Bits

theorem u8_f32_u8_lo : ∀ n : Fin 128, f32ToU8 (u8ToF32 n.val) = n.val := by decide +kernel
theorem u8_f32_u8_hi : ∀ n : Fin 128, f32ToU8 (u8ToF32 (n.val + 128)) = n.val + 128 := by decide +kernel
theorem u8_f64_u8_lo : ∀ n : Fin 128, f64ToU8 (u8ToF64 n.val) = n.val := by decide +kernel
theorem u8_f64_u8_hi : ∀ n : Fin 128, f64ToU8 (u8ToF64 (n.val + 128)) = n.val + 128 := by decide +kernel

/-- `u8 → f32 → u8` and `u8 → f64 → u8` reproduce every one of the 256 8-bit hues, exactly -/
theorem u8_f32_u8 (n : Nat) (hn : n < 256) : f32ToU8 (u8ToF32 n) = n := by
  by_cases h : n < 128
  · exact u8_f32_u8_lo ⟨n, h⟩
  · have := u8_f32_u8_hi ⟨n - 128, by omega⟩
    simpa [Nat.sub_add_cancel (Nat.le_of_not_lt h)] using this
theorem u8_f64_u8 (n : Nat) (hn : n < 256) : f64ToU8 (u8ToF64 n) = n := by
  by_cases h : n < 128
  · exact u8_f64_u8_lo ⟨n, h⟩
  · have := u8_f64_u8_hi ⟨n - 128, by omega⟩
    simpa [Nat.sub_add_cancel (Nat.le_of_not_lt h)] using this

/-- `u8 → float` is exactly `n·360/256` (in units of 2^-5 degree: `n·45`), so 128 ↦ 180° and the image is `[0, 360)` -/
theorem u8_to_float_exact : ∀ n : Fin 256,
    (u8ToF32 n.val * Float32.ofBits 0x42000000).toUInt32.toNat = n.val * 45 ∧
    (u8ToF64 n.val * Float.ofBits 0x4040000000000000).toUInt64.toNat = n.val * 45 := by decide +kernel

/-- wrap-around on the floats: 359.296875° (= 255.5 codes, exactly representable) and everything up to a full turn give
    code 0 again, the float just below gives 255; 360°, −360° and "just below zero" give 0; 180° is code 128 -/
theorem u8_wrap_f32 :
    f32ToU8 (Float32.ofBits 0x43b3a600) = 0 ∧ f32ToU8 (Float32.ofBits 0x43b3a5ff) = 255 ∧ f32ToU8 (Float32.ofBits 0x43b3ffff) = 0 ∧
    f32ToU8 c360f = 0 ∧ f32ToU8 (-c360f) = 0 ∧ f32ToU8 (Float32.ofBits 0xaedbe6ff) = 0 ∧ f32ToU8 c180f = 128 ∧ f32ToU8 (-c180f) = 128 := by
  decide +kernel

/-- the named identities on both float types: `0 = 360 = −360`, `180 = −180`, and `0 ≠ 1`, `0 ≠ 180` -/
theorem named_equalities_f32 :
    angleEq32 (Float32.ofBits 0) c360f = true ∧ angleEq32 (Float32.ofBits 0) (-c360f) = true ∧ angleEq32 c360f (-c360f) = true ∧
    angleEq32 c180f (-c180f) = true ∧ angleEq32 (Float32.ofBits 0) (Float32.ofBits 0x3f800000) = false ∧
    angleEq32 (Float32.ofBits 0) c180f = false := by decide +kernel
theorem named_equalities_f64 :
    angleEq64 (Float.ofBits 0) c360d = true ∧ angleEq64 (Float.ofBits 0) (-c360d) = true ∧ angleEq64 c360d (-c360d) = true ∧
    angleEq64 c180d (-c180d) = true ∧ angleEq64 (Float.ofBits 0) (Float.ofBits 0x3ff0000000000000) = false ∧
    angleEq64 (Float.ofBits 0) c180d = false := by decide +kernel

/-- the angle `45·i − 360` degrees (−360 … 315) as a float -/
def degF32 (i : Nat) : Float32 := (UInt32.ofNat (45 * i)).toFloat32 - c360f
def degF64 (i : Nat) : Float := (UInt64.ofNat (45 * i)).toFloat - c360d

/-- sample of the equality clause on the IEEE model: every multiple of 45° in `[−360, 360)` equals itself shifted by
    ±1 and ±100 turns (36000 = 0x470ca000) and differs from its neighbour 45° on -/
theorem octant_angles_f32 : ∀ i : Fin 16,
    angleEq32 (degF32 i.val) (degF32 i.val + c360f) = true ∧ angleEq32 (degF32 i.val) (degF32 i.val - c360f) = true ∧
    angleEq32 (degF32 i.val) (degF32 i.val + Float32.ofBits 0x470ca000) = true ∧
    angleEq32 (degF32 i.val) (degF32 i.val - Float32.ofBits 0x470ca000) = true ∧
    angleEq32 (degF32 i.val) (degF32 (i.val + 1)) = false := by decide +kernel

theorem octant_angles_f64 : ∀ i : Fin 16,
    angleEq64 (degF64 i.val) (degF64 i.val + c360d) = true ∧ angleEq64 (degF64 i.val) (degF64 i.val - c360d) = true ∧
    angleEq64 (degF64 i.val) (degF64 i.val + Float.ofBits 0x40e1940000000000) = true ∧
    angleEq64 (degF64 i.val) (degF64 i.val - Float.ofBits 0x40e1940000000000) = true ∧
    angleEq64 (degF64 i.val) (degF64 (i.val + 1)) = false := by decide +kernel

/-- The f32 range clause on the boundary patterns, by kernel evaluation (the statement over *all* patterns with |x| ≤ 2^20 is
    `C11.normU32_range_all` / `C11.normS32_range_all` in `C11_HueAll.lean` / `C11_HueAllS.lean`, and for f64 in `C11_HueAll64.lean` /
    `C11_HueAllS64.lean`; this theorem is kept as an independent, evaluation-only check of those):
    at `±180`, `±360`, `±2^20` and their neighbours one ulp away, just below zero and at ±0, the signed form is within
    one ulp of the stored angle of `[−180, 180]` (2^-16 = 0x37800000 is the ulp at 180) and the unsigned one inside `[0, 360]`.
    Bit patterns: 180 = 0x43340000, 360 = 0x43b40000, 2^20 = 0x49800000, −1e-10 = 0xaedbe6ff, −MIN_POSITIVE = 0x80800000. -/
theorem normalize_range_f32_partial :
    ∀ b ∈ [0x43340000, 0x43340001, 0x4333ffff, 0xc3340000, 0xc3340001, 0xc333ffff, 0x43b40000, 0x43b40001, 0x43b3ffff,
           0xc3b40000, 0xc3b40001, 0xc3b3ffff, 0x49800000, 0x497fffff, 0xc9800000, 0xc97fffff, 0xaedbe6ff, 0x80800000, 0x00000000, 0x80000000],
      (-(c180f + Float32.ofBits 0x37800000) ≤ normS32 (Float32.ofBits b) ∧ normS32 (Float32.ofBits b) ≤ c180f + Float32.ofBits 0x37800000) ∧
      (Float32.ofBits 0 ≤ normU32 (Float32.ofBits b) ∧ normU32 (Float32.ofBits b) ≤ c360f) := by decide +kernel

/-- why the property's intervals are closed and carry a tolerance: the unsigned form of a tiny negative angle (−1e-10)
    rounds to exactly 360; 180° + 1 ulp stays 180° + 1 ulp in the signed form; and for the 180 negative subnormals of
    magnitude ≤ 180·2^-149 the quotient `x/360` underflows to −0, so the unsigned form returns `x` itself (< 0) -/
theorem closed_ends_witness :
    (normU32 (Float32.ofBits 0xaedbe6ff)).toBits = 0x43b40000 ∧ (normS32 (Float32.ofBits 0x43340001)).toBits = 0x43340001 ∧
    (normU32 (Float32.ofBits 0x800000b4)).toBits = 0x800000b4 ∧ (normU32 (Float32.ofBits 0x800000b5)).toBits = 0x43b40000 := by
  decide +kernel

end C11
