/-
  C05 — the 16-bit ProPhoto encoder `linear_f32_to_encoded_u16_with_linear_scale` over **every f32 bit pattern**:
  total, saturating at both ends, and monotone in IEEE order.

  The encoder has two branches: the lookup table for `min_float = 2⁻⁹ ≤ x` and, below it, the float expression
  `((linear_scale · x + 2²³).to_bits() & 0xffff)`.  Everything about the table branch, the clamps in front of it, the final `as u16`
  and the join between the two branches is proved here for all patterns.  Monotonicity *inside* the float branch (`0 < x ≤ y < 2⁻⁹`)
  is a statement about two IEEE roundings (`·` then `+`); here it is the explicit hypothesis `LinearSegMono` of
  `prophotoFromLinearU16_mono_of_linear`, and it is **discharged in `C05_LutMono16Lin.lean`** (closed forms of the two roundings in
  Lean's kernel-transparent `Float32` model, `Lemmas/F32Round.lean`), which gives the unconditional `C05.prophotoFromLinearU16_mono`.
  `prophotoFromLinearU16_mono_partial` is the part that needs no float reasoning (every pair `x ≤ y` except those with `0 < x < 2⁻⁹`).
-/
import PaletteProofs.C05_LutMono

namespace C05
open Lut

/-- the clamp of the 16-bit encoder: `partial_cmp(&0.0) != Some(Greater)` ↦ 0.0 ; `> max_float` ↦ `max_float` -/
def clamp16 (bits : Nat) : Nat :=
  if bits ≥ 0x80000000 then 0 else if bits > 0x7f800000 then 0 else if bits == 0 then 0
  else if bits > Gen.Lut.maxFloatBits then Gen.Lut.maxFloatBits else bits

/-- the float branch `((linear_scale * input + 8388608.0).to_bits() & 65535) as u16` -/
def lin16 (scaleBits b : Nat) : Nat :=
  (Float32.ofBits (UInt32.ofNat scaleBits) * Float32.ofBits (UInt32.ofNat b) + Float32.ofBits 0x4b000000).toBits.toNat % 65536

/-- `encU16` is: clamp, then one of the two branches (restatement of the model function, by unfolding) -/
theorem encU16_eq (table : List Nat) (scaleBits minBits bits : Nat) :
    encU16 table scaleBits minBits bits =
      if clamp16 bits < minBits then lin16 scaleBits (clamp16 bits) else encodeClamped table minBits 16 7 (clamp16 bits) % 65536 := rfl

theorem clamp16_le_max (bits : Nat) : clamp16 bits ≤ Gen.Lut.maxFloatBits := by
  unfold clamp16; (repeat' split) <;> omega

theorem clamp16_mono (x y : Nat) (hy : notNaN y) (h : f32le x y) : clamp16 x ≤ clamp16 y := by
  have hmax : Gen.Lut.maxFloatBits = 0x3f7fffff := geometry.2.2.2.2.2.2.1
  unfold f32le at h
  unfold notNaN at hy
  rcases h with ⟨hx, _, _⟩ | ⟨hx, _⟩ | ⟨hx, hyn, hle⟩ | ⟨hx0, _⟩
  · have : clamp16 x = 0 := by unfold clamp16; rw [if_pos hx]
    omega
  · have : clamp16 x = 0 := by unfold clamp16; rw [if_pos hx]
    omega
  · unfold clamp16
    simp only [beq_iff_eq]
    (repeat' split) <;> omega
  · subst hx0
    have : clamp16 0 = 0 := by decide +kernel
    omega

theorem getD_mem_of_lt (l : List Nat) (i : Nat) (h : i < l.length) : l.getD i 0 ∈ l := by
  rw [List.getD_eq_getElem?_getD, List.getElem?_eq_getElem h]; exact List.getElem_mem h

/-- every result of the table branch is a valid code: the final `as u16` never truncates -/
theorem table16_le (b : Nat) (h0 : Gen.Lut.prophotoMinFloat ≤ b) (h1 : b ≤ Gen.Lut.maxFloatBits) :
    encodeClamped Gen.Lut.prophotoEnc Gen.Lut.prophotoMinFloat 16 7 b ≤ 65535 := by
  have hidx := index_in_bounds_u16 b h0 h1
  have ht : cellT 16 7 b ≤ 65535 := by rw [(cell_coords16 b h0).2]; omega
  have hmem : Gen.Lut.prophotoEnc.getD (cellIndex Gen.Lut.prophotoMinFloat 7 b) 0 ∈ Gen.Lut.prophotoEnc :=
    getD_mem_of_lt _ _ hidx
  have h := List.all_eq_true.mp prophoto_table_ok _ hmem
  simp only [entryOK, Bool.and_eq_true, decide_eq_true_eq] at h
  have h2 : cellRes 16 (Gen.Lut.prophotoEnc.getD (cellIndex Gen.Lut.prophotoMinFloat 7 b) 0) (2^16 - 1) < 2^16 := h.2
  have h3 := cellRes_mono_t 16 (Gen.Lut.prophotoEnc.getD (cellIndex Gen.Lut.prophotoMinFloat 7 b) 0) (t := cellT 16 7 b) (t' := 2^16 - 1) (by omega)
  clear h
  show cellRes 16 _ _ ≤ 65535
  omega

/-- on the table branch (clamped input at or above `min_float`) the code is the raw interpolation result -/
theorem prophoto_table_branch (bits : Nat) (h : Gen.Lut.prophotoMinFloat ≤ clamp16 bits) :
    prophotoFromLinearU16 bits = encodeClamped Gen.Lut.prophotoEnc Gen.Lut.prophotoMinFloat 16 7 (clamp16 bits) := by
  unfold prophotoFromLinearU16
  rw [encU16_eq, if_neg (by omega)]
  have := table16_le (clamp16 bits) h (clamp16_le_max bits)
  omega

theorem prophoto_lin_branch (bits : Nat) (h : clamp16 bits < Gen.Lut.prophotoMinFloat) :
    prophotoFromLinearU16 bits = lin16 Gen.Lut.prophotoLinearScaleBits (clamp16 bits) := by
  unfold prophotoFromLinearU16
  rw [encU16_eq, if_pos h]

/-! ## saturation at the ends, every pattern -/

/-- every input at or below zero (sign bit set, or +0) and every NaN gives code 0 -/
theorem prophoto_low_saturates (bits : Nat) (h : bits ≥ 0x80000000 ∨ bits = 0 ∨ bits > 0x7f800000) :
    prophotoFromLinearU16 bits = 0 := by
  have hc : clamp16 bits = 0 := by
    unfold clamp16
    rcases h with h | h | h
    · rw [if_pos h]
    · subst h; rfl
    · split
      · rfl
      · first | rfl | rw [if_pos h]
  rw [prophoto_lin_branch bits (by rw [hc]; decide +kernel), hc]
  decide +kernel

/-- every input from 1.0 up to +∞ gives code 65535 -/
theorem prophoto_high_saturates (bits : Nat) (h1 : 0x3f800000 ≤ bits) (h2 : bits ≤ 0x7f800000) :
    prophotoFromLinearU16 bits = 65535 := by
  have hmax : Gen.Lut.maxFloatBits = 0x3f7fffff := geometry.2.2.2.2.2.2.1
  have hc : clamp16 bits = Gen.Lut.maxFloatBits := by
    unfold clamp16
    simp only [beq_iff_eq]
    (repeat' split) <;> omega
  rw [prophoto_table_branch bits (by rw [hc]; decide +kernel), hc]
  decide +kernel

/-! ## monotone over every f32 bit pattern -/

/-- the join of the two branches: the float branch at the last pattern below `min_float` does not exceed the table at `min_float` -/
theorem prophoto_join_le :
    lin16 Gen.Lut.prophotoLinearScaleBits (Gen.Lut.prophotoMinFloat - 1) ≤
      encodeClamped Gen.Lut.prophotoEnc Gen.Lut.prophotoMinFloat 16 7 Gen.Lut.prophotoMinFloat := by decide +kernel

/-- the float branch is monotone on the positive patterns below `min_float` (two IEEE roundings, `linear_scale · x` and `… + 2²³`,
    are monotone) — proved as `C05.linearSegMono` in `C05_LutMono16Lin.lean` -/
def LinearSegMono : Prop :=
  ∀ b b', 0 < b → b ≤ b' → b' < Gen.Lut.prophotoMinFloat →
    lin16 Gen.Lut.prophotoLinearScaleBits b ≤ lin16 Gen.Lut.prophotoLinearScaleBits b'

/-- **monotone over every f32 bit pattern, unconditional part**: non-NaN `x ≤ y` (IEEE order) implies `code(x) ≤ code(y)` whenever `x` is
    not a positive value below `min_float = 2⁻⁹` — i.e. `x` negative, ±0, or `x ≥ 2⁻⁹` (then `y` is on the table branch too); `y` arbitrary.
    Full statement (no restriction on `x`): `prophotoFromLinearU16_mono_of_linear`, under `LinearSegMono`. -/
theorem prophotoFromLinearU16_mono_partial (x y : Nat) (_hx : notNaN x) (hy : notNaN y) (h : f32le x y)
    (hx' : x ≥ 0x80000000 ∨ x = 0 ∨ Gen.Lut.prophotoMinFloat ≤ x) :
    prophotoFromLinearU16 x ≤ prophotoFromLinearU16 y := by
  by_cases hneg : x ≥ 0x80000000
  · rw [prophoto_low_saturates x (Or.inl hneg)]; exact Nat.zero_le _
  rcases hx' with hneg' | hz | hge
  · exact absurd hneg' hneg
  · rw [prophoto_low_saturates x (Or.inr (Or.inl hz))]; exact Nat.zero_le _
  · have hmax : Gen.Lut.maxFloatBits = 0x3f7fffff := geometry.2.2.2.2.2.2.1
    have hmin : Gen.Lut.prophotoMinFloat ≤ Gen.Lut.maxFloatBits := by decide +kernel
    have hmin2 : 0 < Gen.Lut.prophotoMinFloat := by decide +kernel
    have hc := clamp16_mono x y hy h
    -- x is positive and at or above min: its clamp is on the table branch, and so is y's
    have hcx : Gen.Lut.prophotoMinFloat ≤ clamp16 x := by
      unfold f32le at h
      unfold notNaN at _hx
      unfold clamp16
      simp only [beq_iff_eq]
      (repeat' split) <;> omega
    rw [prophoto_table_branch x hcx, prophoto_table_branch y (by omega)]
    exact prophoto_encodeClamped_mono_partial _ _ hcx hc (clamp16_le_max y)

/-- **monotone over every f32 bit pattern** (full statement), given monotonicity of the float branch -/
theorem prophotoFromLinearU16_mono_of_linear (hlin : LinearSegMono) (x y : Nat) (hx : notNaN x) (hy : notNaN y) (h : f32le x y) :
    prophotoFromLinearU16 x ≤ prophotoFromLinearU16 y := by
  by_cases hx' : x ≥ 0x80000000 ∨ x = 0 ∨ Gen.Lut.prophotoMinFloat ≤ x
  · exact prophotoFromLinearU16_mono_partial x y hx hy h hx'
  · -- 0 < x < min_float: x is its own clamp and sits on the float branch
    have hmax : Gen.Lut.maxFloatBits = 0x3f7fffff := geometry.2.2.2.2.2.2.1
    have hminv : Gen.Lut.prophotoMinFloat ≤ Gen.Lut.maxFloatBits := by decide +kernel
    have hx0 : 0 < x ∧ x < Gen.Lut.prophotoMinFloat ∧ x < 0x80000000 := by omega
    have hcx : clamp16 x = x := by
      unfold clamp16
      simp only [beq_iff_eq]
      (repeat' split) <;> omega
    have hc := clamp16_mono x y hy h
    rw [prophoto_lin_branch x (by omega), hcx]
    by_cases hyb : clamp16 y < Gen.Lut.prophotoMinFloat
    · rw [prophoto_lin_branch y hyb]
      exact hlin x (clamp16 y) hx0.1 (by omega) hyb
    · rw [prophoto_table_branch y (by omega)]
      have h1 := hlin x (Gen.Lut.prophotoMinFloat - 1) hx0.1 (by omega) (by omega)
      have h2 := prophoto_join_le
      have h3 := prophoto_encodeClamped_mono_partial Gen.Lut.prophotoMinFloat (clamp16 y) (Nat.le_refl _) (by omega) (clamp16_le_max y)
      omega

/-- non-vacuity: −1.0 ≤ 0.25 and 2⁻⁹ ≤ 0.5 are admissible pairs of the unconditional part -/
example : notNaN 0xbf800000 ∧ notNaN 0x3e800000 ∧ f32le 0xbf800000 0x3e800000 ∧ (0xbf800000 : Nat) ≥ 0x80000000 := by
  unfold notNaN f32le; omega
example : notNaN 0x3b000000 ∧ notNaN 0x3f000000 ∧ f32le 0x3b000000 0x3f000000 ∧ Gen.Lut.prophotoMinFloat ≤ 0x3b000000 := by
  refine ⟨?_, ?_, ?_, by decide +kernel⟩ <;> first | (unfold notNaN; omega) | (unfold f32le; omega)

end C05
