/-
  C07, third file: the guards of the Ottosson family (early returns of Okhsl / Okhsv, the valid-divisor select of Okhwb → Okhsv, the
  matrix edges) and the black special case of the CAM16 inverse, on the unchanged model functions read at `PReal`.

  NOT covered here (stated in `level_note`): the denominators inside `find_cusp` / `find_gamut_intersection` / `max_saturation`
  (Halley steps) on the non-degenerate arms of Okhsl / Okhsv — they need sign information about cubic expressions over the whole hue
  circle ([E] in DESIGN §3); those arms are covered by the lattice oracle and the `convfin` correspondence only.
-/
import PaletteProofs.PReal
import PaletteModel.Color.Ok
import PaletteModel.Color.Cam16
import Mathlib.Tactic.Linarith
import Mathlib.Tactic.Positivity

set_option linter.unusedSimpArgs false

namespace C07
open PReal

macro "fin3'" : tactic => `(tactic| first | exact V3.finite_mk _ _ _ | exact ⟨⟨_, _, _⟩, rfl⟩)

/-! ## Xyz ↔ Oklab, linear sRGB ↔ Oklab: matrices, `cbrt` (total) and cubes — every real input, negative cone responses included -/
theorem xyzToOklab_finite (c : V3 ℝ) : (Ok.xyzToOklab c.lift).Finite := by
  unfold Ok.xyzToOklab Ok.m1 Ok.m2 M3.ofK Gen.Mat.oklabM1 Gen.Mat.oklabM2 M3.mulVec V3.lift
  simp; fin3'
theorem oklabToXyz_finite (c : V3 ℝ) : (Ok.oklabToXyz c.lift).Finite := by
  unfold Ok.oklabToXyz Ok.m1Inv Ok.m2Inv Ok.cube M3.ofK Gen.Mat.oklabM1Inv Gen.Mat.oklabM2Inv M3.mulVec V3.lift
  simp; fin3'
theorem linSrgbToOklab_finite (c : V3 ℝ) : (Ok.linSrgbToOklab c.lift).Finite := by
  unfold Ok.linSrgbToOklab Ok.kAt Gen.Mat.linSrgbToOklabCoeffs V3.lift
  simp; fin3'
theorem oklabToLinSrgb_finite (c : V3 ℝ) : (Ok.oklabToLinSrgb c.lift).Finite := by
  unfold Ok.oklabToLinSrgb Ok.kAt Gen.Mat.oklabToLinSrgbCoeffs V3.lift
  simp; fin3'

/-! ## Oklab ↔ Oklch, Okhsv ↔ Okhwb -/
theorem oklabToOklch_finite (c : V3 ℝ) : (Ok.oklabToOklch c.lift).Finite := by
  unfold Ok.oklabToOklch Ok.hueFromCartesian Ok.chromaOf V3.lift
  simp; fin3'
theorem oklchToOklab_finite (c : V3 ℝ) : (Ok.oklchToOklab c.lift).Finite := by
  unfold Ok.oklchToOklab Ok.hueIntoCartesian V3.lift
  simp; fin3'
theorem okhsvToOkhwb_finite (c : V3 ℝ) : (Ok.okhsvToOkhwb c.lift).Finite := by
  unfold Ok.okhsvToOkhwb V3.lift
  norm_num; fin3'
/-- `Okhsv ← Okhwb`: `is_valid_divisor(1 − blackness)` covers the division — every real input, `blackness = 1` included -/
theorem okhwbToOkhsv_finite (c : V3 ℝ) : (Ok.okhwbToOkhsv c.lift).Finite := by
  unfold Ok.okhwbToOkhsv V3.lift
  by_cases h : (1.0 : ℝ) - c.c2 = 0
  · simp [h]; fin3'
  · simp [h]; fin3'

/-! ## `toe`, `toe_inv` -/
theorem toe_ok (x : ℝ) (h : 0 ≤ x) : ∃ r, Ok.toe (ok x) = ok r := by
  unfold Ok.toe Ok.kAt Gen.Ok.toe
  norm_num
  rw [sqrt_some_of_nonneg]
  · exact ⟨_, rfl⟩
  · nlinarith [mul_self_nonneg (603 / 515 * x - 103 / 500)]
theorem toeInv_ok (x : ℝ) (h : 0 ≤ x) : ∃ r, Ok.toeInv (ok x) = ok r := by
  unfold Ok.toeInv Ok.kAt Gen.Ok.toeInv
  norm_num
  have : (603 / 515 : ℝ) * (x + 3 / 100) ≠ 0 := by positivity
  rw [div_some_of_ne _ _ this]; exact ⟨_, rfl⟩

/-! ## the early returns of Okhsl / Okhsv (`oklab.rs`, `okhsl.rs`, `okhsv.rs`) -/

/-- `Oklab ← Okhsl`: white (`l == 1`) and black (`l == 0`) return before anything is divided -/
theorem okhslToOklab_white (h s : ℝ) : Ok.okhslToOklab (⟨h, s, 1⟩ : V3 ℝ).lift = (⟨1, 0, 0⟩ : V3 ℝ).lift := by
  unfold Ok.okhslToOklab V3.lift; norm_num
theorem okhslToOklab_black (h s : ℝ) : Ok.okhslToOklab (⟨h, s, 0⟩ : V3 ℝ).lift = (⟨0, 0, 0⟩ : V3 ℝ).lift := by
  unfold Ok.okhslToOklab V3.lift; norm_num

/-- `Oklab ← Okhsv`: black (`value == 0`) and the gray axis (`saturation == 0`) return early -/
theorem okhsvToOklab_black (h s : ℝ) : Ok.okhsvToOklab (⟨h, s, 0⟩ : V3 ℝ).lift = (⟨0, 0, 0⟩ : V3 ℝ).lift := by
  unfold Ok.okhsvToOklab V3.lift; norm_num
theorem okhsvToOklab_gray (h v : ℝ) (hv : 0 < v) : (Ok.okhsvToOklab (⟨h, 0, v⟩ : V3 ℝ).lift).Finite := by
  unfold Ok.okhsvToOklab V3.lift
  obtain ⟨r, hr⟩ := toeInv_ok v hv.le
  have : ¬ v = 0 := hv.ne'
  norm_num [this, hr]; fin3'

/-- `Okhsl ← Oklab`: zero chroma, `L == 1` and `L == 0` (`!is_valid_divisor`) return `(0, 0, toe(L))` -/
theorem oklabToOkhsl_gray (l : ℝ) (hl : 0 ≤ l) : (Ok.oklabToOkhsl (⟨l, 0, 0⟩ : V3 ℝ).lift).Finite := by
  unfold Ok.oklabToOkhsl Ok.chromaOf V3.lift
  obtain ⟨r, hr⟩ := toe_ok l hl
  norm_num [hr]; fin3'
theorem oklabToOkhsl_white (a b : ℝ) : (Ok.oklabToOkhsl (⟨1, a, b⟩ : V3 ℝ).lift).Finite := by
  unfold Ok.oklabToOkhsl Ok.chromaOf V3.lift
  obtain ⟨r, hr⟩ := toe_ok 1 (by norm_num)
  norm_num [hr]; fin3'
theorem oklabToOkhsl_black (a b : ℝ) : (Ok.oklabToOkhsl (⟨0, a, b⟩ : V3 ℝ).lift).Finite := by
  unfold Ok.oklabToOkhsl Ok.chromaOf V3.lift
  obtain ⟨r, hr⟩ := toe_ok 0 (by norm_num)
  norm_num [hr]; fin3'

/-- `Okhsv ← Oklab`: black (`L == 0`) and the gray axis (`!is_valid_divisor(chroma)`) -/
theorem oklabToOkhsv_black (a b : ℝ) : Ok.oklabToOkhsv (⟨0, a, b⟩ : V3 ℝ).lift = (⟨0, 0, 0⟩ : V3 ℝ).lift := by
  unfold Ok.oklabToOkhsv V3.lift; norm_num
theorem oklabToOkhsv_gray (l : ℝ) (hl : 0 < l) : (Ok.oklabToOkhsv (⟨l, 0, 0⟩ : V3 ℝ).lift).Finite := by
  unfold Ok.oklabToOkhsv Ok.chromaOf Ok.hueFromCartesian V3.lift
  obtain ⟨r, hr⟩ := toe_ok l hl.le
  have : ¬ l = 0 := hl.ne'
  norm_num [this, hr]; fin3'

/-- what the early returns avoid: `ST::from(LC)` divides by the cusp lightness and by `1 − lightness`, `from_normalized` by
    `min(l·S, (1−l)·T)`, which is `0` at `l = 0` and `l = 1` -/
theorem stOfLC_poison_at_unit (c : ℝ) : (Ok.stOfLC (⟨ok 1, ok c⟩ : Ok.LC PReal)).t = poison := by
  unfold Ok.stOfLC; norm_num

/-! ## CAM16 inverse: the black special case (`cam16/math.rs:cam16_to_xyz`) -/

/-- `J == 0` (or `Q == 0`) answers `(0, 0, 0)` whatever `non_black_cam16_to_xyz` produced — even poison (`C / J_root = C / 0`) -/
theorem cam16ToXyz_black (chr : Cam16.Chr PReal) (hue : PReal) (p : Cam16.Dep PReal) :
    Cam16.cam16ToXyz (.lightness (ok 0)) chr hue p = (⟨0, 0, 0⟩ : V3 ℝ).lift ∧
    Cam16.cam16ToXyz (.brightness (ok 0)) chr hue p = (⟨0, 0, 0⟩ : V3 ℝ).lift := by
  unfold Cam16.cam16ToXyz Cam16.Lum.value V3.lift
  norm_num
/-- the division the special case guards: `alpha = C / J_root` with `J_root = √0 · 0.1 = 0` -/
theorem cam16_black_unguarded_poison (c : ℝ) (p : Cam16.Dep PReal) :
    Cam16.Chr.alpha p (Cam16.Lum.jRoot p (.lightness (ok 0))) (.chroma (ok c)) = poison := by
  unfold Cam16.Chr.alpha Cam16.Lum.jRoot Cam16.lightnessToJRoot Gen.Cam16.lightnessToJRoot_0
  norm_num

end C07
