/-
  The exact reading of `Angle` (π, degrees ↔ radians, hypot) and of the `f64` detour of `luv_bounds.rs` (`ViaF64`): at ℝ
  `pi` is the real number π, the conversion factors are exact, `hypot a b = √(a² + b²)` and widening/narrowing are the identity.
-/
import PaletteProofs.Real
import PaletteModel.Color.Angle
import PaletteModel.Color.Cie

noncomputable instance instAngleReal : Angle ℝ where
  pi := Real.pi
  radToDeg := fun x => x * (180 / Real.pi)
  degToRad := fun x => x * (Real.pi / 180)
  hypot := fun a b => Real.sqrt (a * a + b * b)

instance instViaF64Real : ViaF64 ℝ ℝ := ⟨id, id⟩

namespace RealScalar
@[simp] theorem angle_pi : (Angle.pi : ℝ) = Real.pi := rfl
@[simp] theorem radToDeg_eq (x : ℝ) : Angle.radToDeg x = x * (180 / Real.pi) := rfl
@[simp] theorem degToRad_eq (x : ℝ) : Angle.degToRad x = x * (Real.pi / 180) := rfl
@[simp] theorem hypot_eq (a b : ℝ) : Angle.hypot a b = Real.sqrt (a * a + b * b) := rfl
@[simp] theorem up_eq (x : ℝ) : (ViaF64.up x : ℝ) = x := rfl
@[simp] theorem down_eq (x : ℝ) : (ViaF64.down x : ℝ) = x := rfl
theorem cbrt_of_nonneg {x : ℝ} (h : 0 ≤ x) : Scalar.cbrt x = x ^ ((1:ℝ)/3) := by
  show (if 0 ≤ x then x ^ ((1:ℝ)/3) else -((-x) ^ ((1:ℝ)/3))) = _
  rw [if_pos h]
end RealScalar
