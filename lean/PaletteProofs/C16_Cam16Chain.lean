/-
  C16 / C01 — the derive-generated conversions inside the CAM16 colour groups: which routes exist (decided on the tables regenerated
  from the sources) and what the composed conversions do at ℝ.

  1. **Routes** (`PaletteModel/Cam16Route.lean` = `find_nearest_color` with the group tables as an argument, group inference from
     `skip_derives`, and types without the derive; `generic_walk_agrees_with_route`: on the XYZ group it returns the very table of
     `Route.routeOf`).  `cam_route_table`: the complete table of the nine CAM16 colours.  Only the CAM16_JMH group has derived
     conversions: `Cam16Jmh ↔ Cam16UcsJab` through `Cam16UcsJmh`, `Cam16 → Cam16UcsJmh / Cam16UcsJab` through `Cam16Jmh`
     (`From<Cam16>` = `from_full`); nothing converts into the full `Cam16`, and the other five partial types
     (`Cam16Jch/Jsh/Qch/Qmh/Qsh`) have no route to or from CAM16-UCS at all (`other_partials_isolated`).
  2. **Whole chains at ℝ** in the family with the angle constants as parameters (`C16_Cam16Ucs.lean`; the model is the member
     `radK`, `const PI`, `degK` by `rfl`: `convert_eq_with`), at the exact π:
       * `jmh_jab_jmh`:  `Cam16Jmh → Cam16UcsJab → Cam16Jmh` returns J, M and the hue modulo 360 for `J ≥ 0`, `M ≥ 0`
         (for `M = 0` the hue is not information: the colour is neutral, `PolarEq`);
       * `jab_jmh_jab`:  `Cam16UcsJab → Cam16Jmh → Cam16UcsJab = id` wherever `1.7 − 0.007 J′ ≠ 0` (at `J′ = 1.7/0.007` the code divides
         by zero: `jab_jmh_jab_pole`);
       * `direct_eq_stepwise`: for every ordered triple (a, m, b) of `Cam16Jmh`, `Cam16UcsJmh`, `Cam16UcsJab` the direct conversion
         `a → b` and the conversion through m (each leg routed by the derive on its own) give the same colour on the domain of a,
         and `direct_eq_stepwise_full` the same for a = `Cam16` (C01's commutation clause for this group; 27 + 9 triples).
  3. **End to end** (`xyz_through_ucs_exact`): `Xyz → Cam16 → Cam16Jmh → Cam16UcsJab → Cam16UcsJmh → Cam16Jmh → Xyz` returns
     `M16⁻¹M16 xyz` under the hypotheses of `roundtrip_exact_pi` (valid raw viewing conditions, colour in the domain with positive
     achromatic signal), neutral colours (M = 0, where the rectangular form forgets the hue) included.
-/
import PaletteModel.Cam16Route
import PaletteProofs.C01_Route
import PaletteProofs.C16_Cam16Ucs
import PaletteProofs.C16_Cam16Roundtrip

namespace C16Chain
open Cam16Route

/-! ## 1. the routes -/

/-- the positions the model uses are the names they stand for (a reordering of color_types.rs changes `Gen/Graph.lean` and stops here) -/
theorem names_pinned :
    [iJch, iFull, iJmh, iUcsJmh, iUcsJab, iJsh, iQch, iQmh, iQsh].map camName
      = ["Cam16Jch", "Cam16", "Cam16Jmh", "Cam16UcsJmh", "Cam16UcsJab", "Cam16Jsh", "Cam16Qch", "Cam16Qmh", "Cam16Qsh"] ∧
    Gen.Graph.camNames.length = 9 := by decide +kernel

/-- the CAM16 groups are the groups 2–7 of `COLOR_GROUPS` and share no name with the first (XYZ) group, so that the group inference
    `COLOR_GROUPS.iter().find(..)` never stops at the XYZ group for one of these names -/
theorem cam_groups_disjoint_from_xyz :
    Gen.Graph.groups.map (·.1) = "XYZ_COLORS" :: Gen.Graph.camGroups.map (·.1) ∧
    (Gen.Graph.camNames.all fun n => !Gen.Graph.names.contains n) = true := by decide +kernel

/-- the numeric tables are the string tables: members, roots, preferred sources and `infer_group` of `camGroups` against `groups` -/
theorem cam_tables_match_groups :
    (Gen.Graph.camGroups.map fun g => (g.1, g.2.1.map camName, g.2.2.1.map camName, g.2.2.2))
      = (Gen.Graph.groups.drop 1).map (fun g => (g.1, g.2.1 :: g.2.2.map (·.1), g.2.1 :: g.2.2.map (·.2.1), true :: g.2.2.map (·.2.2))) := by
  decide +kernel

/-- **the generic walk is the walk of `Route.lean`**: on the XYZ group the routes of this file's model are those of `Route.routeOf`
    (the table the C01 `routecmp` lines are replayed against), all 324 ordered pairs -/
theorem generic_walk_agrees_with_route :
    C01Route.allPairs.all (fun p => routeOf xyzWorld p.1 p.2 == Route.routeOf p.1 p.2) = true := by decide +kernel

/-- every type that derives `FromColorUnclamped` infers exactly one group (so the iteration order of the `HashSet` of groups in the
    derive cannot matter), and it is the group the type is the root or an inferring member of -/
theorem one_group_each :
    (List.range 9).map camWorld.colorGroupsOf = [[0], [], [1], [1], [1], [2], [3], [4], [5]] ∧
    Gen.Graph.camDerives = [true, false, true, true, true, true, true, true, true] := by decide +kernel

/-- the colours a derived impl is generated *from*, per target: `Cam16Jmh ← Cam16UcsJab`, `Cam16UcsJmh ← Cam16`,
    `Cam16UcsJab ← Cam16Jmh, Cam16`; none for the other types -/
theorem derived_sources :
    (List.range 9).map camWorld.includedFor = [[], [], [iUcsJab], [iFull], [iJmh, iFull], [], [], [], []] := by decide +kernel

/-- **the complete route table of the CAM16 colours** (row = source, column = target, in the order of `camNames`;
    `none` = no `impl FromColorUnclamped<source> for target`) -/
theorem cam_route_table :
    ((List.range 9).map fun a => (List.range 9).map fun b => camRoute a b) =
    [[some [0, 0], none, none, none, none, none, none, none, none],
     [some [1, 0], none, some [1, 2], some [1, 2, 3], some [1, 2, 3, 4], some [1, 5], some [1, 6], some [1, 7], some [1, 8]],
     [none, none, some [2, 2], some [2, 3], some [2, 3, 4], none, none, none, none],
     [none, none, some [3, 2], some [3, 3], some [3, 4], none, none, none, none],
     [none, none, some [4, 3, 2], some [4, 3], some [4, 4], none, none, none, none],
     [none, none, none, none, none, some [5, 5], none, none, none],
     [none, none, none, none, none, none, some [6, 6], none, none],
     [none, none, none, none, none, none, none, some [7, 7], none],
     [none, none, none, none, none, none, none, none, some [8, 8]]] := by decide +kernel

/-- the same, readable -/
theorem cam_routes_named :
    (camRoute iJmh iUcsJab).map (·.map camName) = some ["Cam16Jmh", "Cam16UcsJmh", "Cam16UcsJab"] ∧
    (camRoute iUcsJab iJmh).map (·.map camName) = some ["Cam16UcsJab", "Cam16UcsJmh", "Cam16Jmh"] ∧
    (camRoute iFull iUcsJmh).map (·.map camName) = some ["Cam16", "Cam16Jmh", "Cam16UcsJmh"] ∧
    (camRoute iFull iUcsJab).map (·.map camName) = some ["Cam16", "Cam16Jmh", "Cam16UcsJmh", "Cam16UcsJab"] := by decide +kernel

def allCamPairs : List (Nat × Nat) := (List.range 9).flatMap fun a => (List.range 9).map fun b => (a, b)

/-- **every hop of every route is a hand-written impl** of the extracted list, no route visits a colour twice, and every route is a
    walk along preferred-source edges of its group (here: the line `Cam16 — Cam16Jmh — Cam16UcsJmh — Cam16UcsJab`, or a single edge
    `Cam16 → partial`) -/
theorem cam_hops_are_manual :
    allCamPairs.all (fun p => match camRoute p.1 p.2 with
      | some path => ((Route.hops path).all fun h => Gen.Graph.camManualN.contains h) &&
                     (path.eraseDups.length == path.length || p.1 == p.2) &&
                     ((Route.hops path).all fun h => h.1 == h.2 ||
                        Gen.Graph.camGroups.any fun g => (g.2.1.zip g.2.2.1).contains (h.1, h.2) || (g.2.1.zip g.2.2.1).contains (h.2, h.1))
      | none => true) = true := by decide +kernel

/-- nothing converts into the full `Cam16` (it needs the viewing conditions: `into_full`), and out of it there is exactly one route
    to every other CAM16 colour, starting with `From<Cam16>` of a partial type -/
theorem full_is_source_only :
    ((List.range 9).all fun a => (camRoute a iFull).isNone) = true ∧
    ((List.range 9).all fun b => b == iFull || match camRoute iFull b with
      | some (1 :: k :: _) => (kindOf k).isSome
      | _ => false) = true := by decide +kernel

/-- **the five partial types other than `Cam16Jmh` have no conversion to or from CAM16-UCS**, nor between each other: their only impls are
    the reflexive one and `From<Cam16>` -/
theorem other_partials_isolated :
    ([iJch, iJsh, iQch, iQmh, iQsh].all fun k => (List.range 9).all fun c =>
      (c == k || c == iFull || (camRoute c k).isNone) && (c == k || (camRoute k c).isNone)) = true := by decide +kernel

/-- **routes compose along the line**: the route out of the full colour is `Cam16 → Cam16Jmh` followed by the route of `Cam16Jmh`, and
    for colours a, m, b of the JMH group with m on the way from a to b the direct route is the two legs joined -/
theorem routes_compose_on_the_line :
    ([iJmh, iUcsJmh, iUcsJab].all fun b => camRoute iFull b == (camRoute iJmh b).map (fun p => iFull :: (if p == [iJmh, iJmh] then [iJmh] else p))) = true ∧
    ([iJmh, iUcsJmh, iUcsJab].all fun a => [iJmh, iUcsJmh, iUcsJab].all fun m => [iJmh, iUcsJmh, iUcsJab].all fun b =>
      !((a ≤ m && m ≤ b && a < b) || (b ≤ m && m ≤ a && b < a)) ||
        match camRoute a m, camRoute m b, camRoute a b with
        | some p, some q, some r => r == (if a == m then q else if m == b then p else p ++ q.drop 1)
        | _, _, _ => false) = true := by decide +kernel

/-! ## 2. whole chains at ℝ -/

open Cam16 C16

/-- the edge functions with the angle constants as parameters (`C16_Cam16Ucs.lean`) -/
noncomputable def edgesWith (kr piK kd : ℝ) : Edges ℝ := ⟨jmhToUcs, ucsToJmh, ucsJmhToJabWith kr, ucsJabToJmhWith piK kd⟩
/-- … at the exact π -/
noncomputable def piEdges : Edges ℝ := edgesWith (Real.pi / 180) Real.pi (180 / Real.pi)

/-- the model's interpreter is the member `radK`, `const PI`, `degK` of the family (definitional), and so is every conversion -/
theorem modelEdges_eq_with : (modelEdges : Edges ℝ) = edgesWith radK (Scalar.const Cam16.PI) degK := rfl
theorem convert_eq_with (a b : Nat) : convert (modelEdges : Edges ℝ) a b = convert (edgesWith radK (Scalar.const Cam16.PI) degK) a b := rfl

/-! ### the conversion table of the interpreter (any edge functions) -/
section table
variable (e : Edges ℝ) (x : V3 ℝ)

theorem cv_JJ : convertAt e iJmh iJmh x = some x := by
  rw [convertAt, convert, show camRoute iJmh iJmh = some [2, 2] by decide +kernel]; rfl
theorem cv_UU : convertAt e iUcsJmh iUcsJmh x = some x := by
  rw [convertAt, convert, show camRoute iUcsJmh iUcsJmh = some [3, 3] by decide +kernel]; rfl
theorem cv_BB : convertAt e iUcsJab iUcsJab x = some x := by
  rw [convertAt, convert, show camRoute iUcsJab iUcsJab = some [4, 4] by decide +kernel]; rfl
theorem cv_JU : convertAt e iJmh iUcsJmh x = some (e.jmhToUcs x) := by
  rw [convertAt, convert, show camRoute iJmh iUcsJmh = some [2, 3] by decide +kernel]; rfl
theorem cv_UJ : convertAt e iUcsJmh iJmh x = some (e.ucsToJmh x) := by
  rw [convertAt, convert, show camRoute iUcsJmh iJmh = some [3, 2] by decide +kernel]; rfl
theorem cv_UB : convertAt e iUcsJmh iUcsJab x = some (e.ucsJmhToJab x) := by
  rw [convertAt, convert, show camRoute iUcsJmh iUcsJab = some [3, 4] by decide +kernel]; rfl
theorem cv_BU : convertAt e iUcsJab iUcsJmh x = some (e.ucsJabToJmh x) := by
  rw [convertAt, convert, show camRoute iUcsJab iUcsJmh = some [4, 3] by decide +kernel]; rfl
/-- the derived `Cam16UcsJab::from_color_unclamped(Cam16Jmh)` -/
theorem cv_JB : convertAt e iJmh iUcsJab x = some (e.ucsJmhToJab (e.jmhToUcs x)) := by
  rw [convertAt, convert, show camRoute iJmh iUcsJab = some [2, 3, 4] by decide +kernel]; rfl
/-- the derived `Cam16Jmh::from_color_unclamped(Cam16UcsJab)` -/
theorem cv_BJ : convertAt e iUcsJab iJmh x = some (e.ucsToJmh (e.ucsJabToJmh x)) := by
  rw [convertAt, convert, show camRoute iUcsJab iJmh = some [4, 3, 2] by decide +kernel]; rfl

/-- the derived conversions out of the full colour are `from_full` followed by the conversion of the `Cam16Jmh` colour -/
theorem cv_full (b : Nat) (hb : b ∈ [iJmh, iUcsJmh, iUcsJab]) (f : Full ℝ) :
    (convertFromFull e b).map (· f) = convertAt e iJmh b (PKind.Jmh.fromFull f) := by
  simp only [List.mem_cons, List.not_mem_nil, or_false] at hb
  rcases hb with rfl | rfl | rfl
  · rw [cv_JJ, convertFromFull, show camRoute iFull iJmh = some [1, 2] by decide +kernel]; rfl
  · rw [cv_JU, convertFromFull, show camRoute iFull iUcsJmh = some [1, 2, 3] by decide +kernel]; rfl
  · rw [cv_JB, convertFromFull, show camRoute iFull iUcsJab = some [1, 2, 3, 4] by decide +kernel]; rfl

end table

/-! ### "the same colour" -/

/-- two polar colours `(J, M, h)` are the same colour: same `J`, same `M`, and the same hue modulo 360 — unless the colour is neutral
    (`M = 0`), where the hue carries no information (the rectangular form of a neutral colour is `(J, 0, 0)` whatever the hue) -/
def PolarEq (x y : V3 ℝ) : Prop := x.c0 = y.c0 ∧ x.c1 = y.c1 ∧ (x.c1 = 0 ∨ ∃ m : ℤ, y.c2 = x.c2 + 360 * m)

theorem polarEq_refl (x : V3 ℝ) : PolarEq x x := ⟨rfl, rfl, Or.inr ⟨0, by simp⟩⟩
theorem polarEq_symm {x y : V3 ℝ} (h : PolarEq x y) : PolarEq y x := by
  obtain ⟨h0, h1, h2⟩ := h
  refine ⟨h0.symm, h1.symm, ?_⟩
  rcases h2 with h2 | ⟨m, hm⟩
  · exact Or.inl (h1 ▸ h2)
  · exact Or.inr ⟨-m, by rw [hm]; push_cast; ring⟩
theorem polarEq_trans {x y z : V3 ℝ} (h : PolarEq x y) (k : PolarEq y z) : PolarEq x z := by
  obtain ⟨h0, h1, h2⟩ := h
  obtain ⟨k0, k1, k2⟩ := k
  refine ⟨h0.trans k0, h1.trans k1, ?_⟩
  rcases h2 with h2 | ⟨m, hm⟩
  · exact Or.inl h2
  · rcases k2 with k2 | ⟨n, hn⟩
    · exact Or.inl (h1 ▸ k2)
    · exact Or.inr ⟨m + n, by rw [hn, hm]; push_cast; ring⟩

/-- equal in the sense of the target type: `Cam16UcsJab` componentwise, the two polar types as `PolarEq` -/
def Same (b : Nat) (x y : V3 ℝ) : Prop := if b = iUcsJab then x = y else PolarEq x y

theorem same_refl (b : Nat) (x : V3 ℝ) : Same b x x := by
  unfold Same; split
  · rfl
  · exact polarEq_refl x
theorem same_J {x y : V3 ℝ} : Same iJmh x y ↔ PolarEq x y := by unfold Same; rw [if_neg (by decide)]
theorem same_U {x y : V3 ℝ} : Same iUcsJmh x y ↔ PolarEq x y := by unfold Same; rw [if_neg (by decide)]
theorem same_B {x y : V3 ℝ} : Same iUcsJab x y ↔ x = y := by unfold Same; rw [if_pos rfl]

/-! ### the edges respect it, and each edge pair cancels on its domain -/

theorem zero_lit : (0.0 : ℝ) = 0 := by norm_num

/-- the rectangular form reads a polar colour only up to `PolarEq` (exact π) -/
theorem rect_of_polarEq {x y : V3 ℝ} (h : PolarEq x y) :
    ucsJmhToJabWith (Real.pi / 180) x = ucsJmhToJabWith (Real.pi / 180) y := by
  obtain ⟨h0, h1, h2⟩ := h
  simp only [ucsJmhToJabWith, ← h0, ← h1]
  rcases h2 with h2 | ⟨m, hm⟩
  · have : max x.c1 (0.0:ℝ) = 0 := by rw [h2, zero_lit]; exact max_self 0
    rw [this, mul_zero, mul_zero, mul_zero, mul_zero]
  · have e : y.c2 * (Real.pi / 180) = x.c2 * (Real.pi / 180) + m * (2 * Real.pi) := by rw [hm]; ring
    rw [e, Real.cos_add_int_mul_two_pi, Real.sin_add_int_mul_two_pi]

theorem jmhToUcs_c1_zero {x : V3 ℝ} (h : x.c1 = 0) : (jmhToUcs x).c1 = 0 := by
  simp only [jmhToUcs, K.jmhToUcs_0, K.jmhToUcs_1, RealScalar.ln_eq, h, mul_zero, show (1.0:ℝ) + 0 = 1 by norm_num, Real.log_one, zero_div]
theorem ucsToJmh_c1_zero {x : V3 ℝ} (h : x.c1 = 0) : (ucsToJmh x).c1 = 0 := by
  simp only [ucsToJmh, K.ucsToJmh_0, K.ucsToJmh_1, RealScalar.exp_eq, h, zero_mul, Real.exp_zero, show (1:ℝ) - 1.0 = 0 by norm_num, zero_div]

theorem jmhToUcs_polarEq {x y : V3 ℝ} (h : PolarEq x y) : PolarEq (jmhToUcs x) (jmhToUcs y) := by
  obtain ⟨h0, h1, h2⟩ := h
  refine ⟨by simp only [jmhToUcs, h0], by simp only [jmhToUcs, h1], ?_⟩
  rcases h2 with h2 | h2
  · exact Or.inl (jmhToUcs_c1_zero h2)
  · exact Or.inr h2
theorem ucsToJmh_polarEq {x y : V3 ℝ} (h : PolarEq x y) : PolarEq (ucsToJmh x) (ucsToJmh y) := by
  obtain ⟨h0, h1, h2⟩ := h
  refine ⟨by simp only [ucsToJmh, h0], by simp only [ucsToJmh, h1], ?_⟩
  rcases h2 with h2 | h2
  · exact Or.inl (ucsToJmh_c1_zero h2)
  · exact Or.inr h2

/-- **polar → rectangular → polar** returns the same colour for every `M′ ≥ 0` (the neutral axis included) -/
theorem polar_rect_polar (x : V3 ℝ) (hM : 0 ≤ x.c1) :
    PolarEq x (ucsJabToJmhWith Real.pi (180 / Real.pi) (ucsJmhToJabWith (Real.pi / 180) x)) := by
  obtain ⟨J, M, h⟩ := x
  rcases hM.lt_or_eq with hpos | hz
  · obtain ⟨h', e, hm, -, -⟩ := ucsJmh_roundtrip_exact J M h hpos
    rw [e]; exact ⟨rfl, rfl, Or.inr hm⟩
  · have hz' : M = 0 := hz.symm
    subst hz'
    rw [ucsJmh_neutral]
    refine ⟨rfl, ?_, Or.inl rfl⟩
    simp only [ucsJabToJmhWith, mul_zero, add_zero, Real.sqrt_zero]

/-- **rectangular → polar → rectangular = id**, every `(J′, a′, b′)` -/
theorem rect_polar_rect (x : V3 ℝ) :
    ucsJmhToJabWith (Real.pi / 180) (ucsJabToJmhWith Real.pi (180 / Real.pi) x) = x := by
  obtain ⟨J, a, b⟩ := x; exact ucsJab_roundtrip_exact J a b

theorem jmh_ucs_jmh (x : V3 ℝ) (hJ : 0 ≤ x.c0) (hM : 0 ≤ x.c1) : ucsToJmh (jmhToUcs x) = x := by
  obtain ⟨J, M, h⟩ := x
  exact ucsToJmh_jmhToUcs J M h (by positivity) (by positivity)
theorem ucs_jmh_ucs (x : V3 ℝ) (hJ : 1.7 - 0.007 * x.c0 ≠ 0) : jmhToUcs (ucsToJmh x) = x := by
  obtain ⟨J, M, h⟩ := x
  exact jmhToUcs_ucsToJmh J M h hJ

/-- `M′ ≥ 0` for `M ≥ 0` -/
theorem jmhToUcs_c1_nonneg {x : V3 ℝ} (hM : 0 ≤ x.c1) : 0 ≤ (jmhToUcs x).c1 := by
  obtain ⟨J, M, h⟩ := x
  rw [jmhToUcs_eq_spec]
  show 0 ≤ Spec.Cam16.ucsM M
  unfold Spec.Cam16.ucsM
  apply div_nonneg _ (by norm_num)
  apply Real.log_nonneg
  have : (0:ℝ) ≤ 0.0228 * M := by positivity
  linarith

/-! ### the whole-chain round trips -/

/-- **`Cam16Jmh → Cam16UcsJab → Cam16Jmh`** (both legs derive-generated, through `Cam16UcsJmh`): the same colour comes back —
    `J`, `M` exactly, the hue modulo 360 (as its representative in (0, 360]: `jmh_through_jab_exact`) unless `M = 0` — for every
    `J ≥ 0`, `M ≥ 0` -/
theorem jmh_jab_jmh (x : V3 ℝ) (hJ : 0 ≤ x.c0) (hM : 0 ≤ x.c1) :
    ∃ y, roundTrip piEdges iJmh iUcsJab x = some y ∧ PolarEq x y := by
  refine ⟨ucsToJmh (ucsJabToJmhWith Real.pi (180 / Real.pi) (ucsJmhToJabWith (Real.pi / 180) (jmhToUcs x))), ?_, ?_⟩
  · rw [roundTrip, cv_JB, Option.bind_some, cv_BJ]; rfl
  · have := ucsToJmh_polarEq (polar_rect_polar (jmhToUcs x) (jmhToUcs_c1_nonneg hM))
    rwa [jmh_ucs_jmh x hJ hM] at this

/-- **`Cam16UcsJab → Cam16Jmh → Cam16UcsJab = id`** wherever the conversion does not divide by zero (`J′ ≠ 1.7/0.007 ≈ 242.9`; the
    nominal range of `J′` is [0, 100]) -/
theorem jab_jmh_jab (x : V3 ℝ) (hJ : 1.7 - 0.007 * x.c0 ≠ 0) : roundTrip piEdges iUcsJab iJmh x = some x := by
  rw [roundTrip, cv_BJ, Option.bind_some, cv_JB]
  show some (ucsJmhToJabWith (Real.pi / 180) (jmhToUcs (ucsToJmh (ucsJabToJmhWith Real.pi (180 / Real.pi) x)))) = some x
  rw [ucs_jmh_ucs (ucsJabToJmhWith Real.pi (180 / Real.pi) x) hJ, rect_polar_rect]

/-- at the pole `J′ = 1.7/0.007` the lightness does **not** come back (the code divides by zero; at ℝ, where `x/0 = 0`, it returns
    `J′ = 0`): the hypothesis of `jab_jmh_jab` is exactly the domain -/
theorem jab_jmh_jab_pole (a b : ℝ) : roundTrip piEdges iUcsJab iJmh ⟨1.7 / 0.007, a, b⟩ ≠ some ⟨1.7 / 0.007, a, b⟩ := by
  rw [roundTrip, cv_BJ, Option.bind_some, cv_JB]
  intro h
  have h0 := congrArg (fun o : Option (V3 ℝ) => (o.map (·.c0))) h
  simp only [Option.map_some, Option.some.injEq] at h0
  have e : (piEdges.ucsJmhToJab (piEdges.jmhToUcs (piEdges.ucsToJmh (piEdges.ucsJabToJmh ⟨1.7 / 0.007, a, b⟩)))).c0 = 0 := by
    show (jmhToUcs (ucsToJmh (ucsJabToJmhWith Real.pi (180 / Real.pi) ⟨1.7 / 0.007, a, b⟩))).c0 = 0
    simp only [jmhToUcs, ucsToJmh, ucsJabToJmhWith, K.jmhToUcs_2, K.jmhToUcs_3, K.ucsToJmh_2, K.ucsToJmh_3]
    norm_num
  rw [e] at h0
  norm_num at h0

/- Full statement for the model *exactly as it stands* (std's `π/180`, `π`, `180/π` as 36-digit decimals, `modelEdges`):
     `∃ y, roundTrip modelEdges iJmh iUcsJab x = some y ∧ PolarEq x y`.
   It is not provable, and strictly speaking false, at ℝ: the decimal constants are rationals, `degK·radK ≠ 1` (`degK_mul_radK`) and the
   decimal `PI` is not π, so the hue comes back multiplied by `1 − 1.9e-36` and shifted by `(PI − π)·degK`; that residue belongs to the
   rounding budget the oracle observes (`ucs:Jmh->UcsJab->Jmh`, 2⁹ ε).  What holds exactly for the model's own constants: -/
/-- `Cam16Jmh → Cam16UcsJab → Cam16Jmh` with the model's own constants returns `J` and `M` exactly (`J, M ≥ 0`); missing: the hue, see above -/
theorem jmh_jab_jmh_model_partial (x : V3 ℝ) (hJ : 0 ≤ x.c0) (hM : 0 ≤ x.c1) :
    ∃ y, roundTrip (modelEdges : Edges ℝ) iJmh iUcsJab x = some y ∧ y.c0 = x.c0 ∧ y.c1 = x.c1 := by
  refine ⟨ucsToJmh (ucsJabToJmh (ucsJmhToJab (jmhToUcs x))), ?_, ?_⟩
  · rw [roundTrip, cv_JB, Option.bind_some, cv_BJ]; rfl
  · obtain ⟨r0, r1⟩ := ucsJabToJmh_ucsJmhToJab_radius (jmhToUcs x).c0 (jmhToUcs x).c1 (jmhToUcs x).c2 (jmhToUcs_c1_nonneg hM)
    have e : (⟨(jmhToUcs x).c0, (jmhToUcs x).c1, (jmhToUcs x).c2⟩ : V3 ℝ) = jmhToUcs x := rfl
    rw [e] at r0 r1
    have b := jmh_ucs_jmh x hJ hM
    constructor
    · have : (ucsToJmh (ucsJabToJmh (ucsJmhToJab (jmhToUcs x)))).c0 = (ucsToJmh (jmhToUcs x)).c0 := by
        simp only [ucsToJmh, r0]
      rw [this, b]
    · have : (ucsToJmh (ucsJabToJmh (ucsJmhToJab (jmhToUcs x)))).c1 = (ucsToJmh (jmhToUcs x)).c1 := by
        simp only [ucsToJmh, r1]
      rw [this, b]


/-- non-vacuity: a saturated colour and a neutral one are in the domain of `jmh_jab_jmh`, the UCS white in that of `jab_jmh_jab` -/
example : (0:ℝ) ≤ (⟨50, 30, 400⟩ : V3 ℝ).c0 ∧ (0:ℝ) ≤ (⟨50, 30, 400⟩ : V3 ℝ).c1 ∧ (0:ℝ) ≤ (⟨50, 0, 90⟩ : V3 ℝ).c1 ∧
    (1.7:ℝ) - 0.007 * (⟨100, -20, 35⟩ : V3 ℝ).c0 ≠ 0 := by norm_num


/-! ### direct = step by step, every ordered triple -/

/-- the domain of a source colour: `Cam16Jmh` `J ≥ 0, M ≥ 0`; `Cam16UcsJmh` `J′ ≠ 1.7/0.007, M′ ≥ 0`; `Cam16UcsJab` `J′ ≠ 1.7/0.007`
    (the nominal ranges `J′ ∈ [0, 100]`, `M′ ≥ 0` are inside) -/
def Dom (a : Nat) (x : V3 ℝ) : Prop :=
  if a = iJmh then 0 ≤ x.c0 ∧ 0 ≤ x.c1
  else if a = iUcsJmh then 1.7 - 0.007 * x.c0 ≠ 0 ∧ 0 ≤ x.c1
  else 1.7 - 0.007 * x.c0 ≠ 0

theorem dom_J {x : V3 ℝ} : Dom iJmh x ↔ 0 ≤ x.c0 ∧ 0 ≤ x.c1 := by unfold Dom; rw [if_pos rfl]
theorem dom_U {x : V3 ℝ} : Dom iUcsJmh x ↔ 1.7 - 0.007 * x.c0 ≠ 0 ∧ 0 ≤ x.c1 := by
  unfold Dom; rw [if_neg (by decide), if_pos rfl]
theorem dom_B {x : V3 ℝ} : Dom iUcsJab x ↔ 1.7 - 0.007 * x.c0 ≠ 0 := by
  unfold Dom; rw [if_neg (by decide), if_neg (by decide)]

section detours
variable (x : V3 ℝ)
local notation "toJab" => ucsJmhToJabWith (Real.pi / 180)
local notation "toPol" => ucsJabToJmhWith Real.pi (180 / Real.pi)

/-- the ten triples whose middle colour is *not* on the way: the detour cancels on the domain of the source -/
theorem detour_JUJ (h : Dom iJmh x) : Same iJmh x (ucsToJmh (jmhToUcs x)) := by
  obtain ⟨hJ, hM⟩ := dom_J.mp h; rw [jmh_ucs_jmh x hJ hM]; exact same_refl _ _
theorem detour_JBJ (h : Dom iJmh x) : Same iJmh x (ucsToJmh (toPol (toJab (jmhToUcs x)))) := by
  obtain ⟨hJ, hM⟩ := dom_J.mp h
  have := ucsToJmh_polarEq (polar_rect_polar (jmhToUcs x) (jmhToUcs_c1_nonneg hM))
  rw [jmh_ucs_jmh x hJ hM] at this
  exact same_J.mpr this
theorem detour_JBU (h : Dom iJmh x) : Same iUcsJmh (jmhToUcs x) (toPol (toJab (jmhToUcs x))) :=
  same_U.mpr (polar_rect_polar (jmhToUcs x) (jmhToUcs_c1_nonneg (dom_J.mp h).2))
theorem detour_UJU (h : Dom iUcsJmh x) : Same iUcsJmh x (jmhToUcs (ucsToJmh x)) := by
  rw [ucs_jmh_ucs x (dom_U.mp h).1]; exact same_refl _ _
theorem detour_UBU (h : Dom iUcsJmh x) : Same iUcsJmh x (toPol (toJab x)) :=
  same_U.mpr (polar_rect_polar x (dom_U.mp h).2)
theorem detour_UBJ (h : Dom iUcsJmh x) : Same iJmh (ucsToJmh x) (ucsToJmh (toPol (toJab x))) :=
  same_J.mpr (ucsToJmh_polarEq (polar_rect_polar x (dom_U.mp h).2))
theorem detour_UJB (h : Dom iUcsJmh x) : Same iUcsJab (toJab x) (toJab (jmhToUcs (ucsToJmh x))) := by
  rw [ucs_jmh_ucs x (dom_U.mp h).1]; exact same_refl _ _
theorem detour_BUB (_h : Dom iUcsJab x) : Same iUcsJab x (toJab (toPol x)) := by
  rw [rect_polar_rect]; exact same_refl _ _
theorem detour_BJB (h : Dom iUcsJab x) : Same iUcsJab x (toJab (jmhToUcs (ucsToJmh (toPol x)))) := by
  rw [ucs_jmh_ucs (toPol x) (dom_B.mp h), rect_polar_rect]; exact same_refl _ _
theorem detour_BJU (h : Dom iUcsJab x) : Same iUcsJmh (toPol x) (jmhToUcs (ucsToJmh (toPol x))) := by
  rw [ucs_jmh_ucs (toPol x) (dom_B.mp h)]; exact same_refl _ _

end detours

/-- **direct = step by step** (C01's commutation clause for the CAM16_JMH group, exact π): for every ordered triple (a, m, b) of
    `Cam16Jmh`, `Cam16UcsJmh`, `Cam16UcsJab` — 27 triples — and every colour in the domain of a, the conversion `a → b` and the
    conversion `a → m` followed by `m → b`, each routed by the derive crate on its own, both exist and give the same colour of type b
    (componentwise for `Cam16UcsJab`; `J`, `M` and the hue modulo 360, or any hue when `M = 0`, for the polar types). -/
theorem direct_eq_stepwise (a m b : Nat) (ha : a ∈ [iJmh, iUcsJmh, iUcsJab]) (hm : m ∈ [iJmh, iUcsJmh, iUcsJab])
    (hb : b ∈ [iJmh, iUcsJmh, iUcsJab]) (x : V3 ℝ) (hx : Dom a x) :
    ∃ y z, convertAt piEdges a b x = some y ∧ via piEdges a m b x = some z ∧ Same b y z := by
  simp only [List.mem_cons, List.not_mem_nil, or_false] at ha hm hb
  rcases ha with rfl | rfl | rfl <;> rcases hm with rfl | rfl | rfl <;> rcases hb with rfl | rfl | rfl <;>
    (simp only [via, cv_JJ, cv_UU, cv_BB, cv_JU, cv_UJ, cv_UB, cv_BU, cv_JB, cv_BJ, Option.bind_some]
     refine ⟨_, _, rfl, rfl, ?_⟩
     first
       | exact same_refl _ _
       | exact detour_JUJ x hx | exact detour_JBJ x hx | exact detour_JBU x hx
       | exact detour_UJU x hx | exact detour_UBU x hx | exact detour_UBJ x hx | exact detour_UJB x hx
       | exact detour_BUB x hx | exact detour_BJB x hx | exact detour_BJU x hx)

/-- … and out of the full colour: `Cam16 → b` against `Cam16 → m → b` for m, b among the three types (9 triples), for a full colour with
    `J ≥ 0`, `M ≥ 0` -/
theorem direct_eq_stepwise_full (m b : Nat) (hm : m ∈ [iJmh, iUcsJmh, iUcsJab]) (hb : b ∈ [iJmh, iUcsJmh, iUcsJab])
    (f : Full ℝ) (hJ : 0 ≤ f.lightness) (hM : 0 ≤ f.colorfulness) :
    ∃ y z, (convertFromFull piEdges b).map (· f) = some y ∧
      ((convertFromFull piEdges m).map (· f)).bind (convertAt piEdges m b) = some z ∧ Same b y z := by
  rw [cv_full _ b hb, cv_full _ m hm]
  exact direct_eq_stepwise iJmh m b (by simp) hm hb (PKind.Jmh.fromFull f) (dom_J.mpr ⟨hJ, hM⟩)

/-- non-vacuity of `Dom` at each type -/
example : Dom iJmh ⟨50, 30, 400⟩ ∧ Dom iUcsJmh ⟨62.96, 22.9, -35⟩ ∧ Dom iUcsJab ⟨100, -20, 35⟩ := by
  refine ⟨dom_J.mpr ?_, dom_U.mpr ?_, dom_B.mpr ?_⟩ <;> norm_num

/-! ## 3. end to end: XYZ → CAM16 → CAM16-UCS → CAM16 → XYZ -/

/-- `cam16_to_xyz` does not read the hue of a colour without colourfulness (`α = 0` gives `t = 0`, hence `a = b = 0`) -/
theorem inverseOpponent_alpha_zero (j h1 h2 : ℝ) (p : Dep ℝ) : inverseOpponent j 0 h1 p = inverseOpponent j 0 h2 p := by
  have z : (0:ℝ) ^ ((10.0:ℝ) / 9.0) = 0 := Real.zero_rpow (by norm_num)
  simp only [inverseOpponent, RealScalar.powf_eq, K.nonBlack_3, K.nonBlack_4, zero_mul, z, mul_zero, zero_div]

theorem intoXyzWith_jmh_neutral (kr J h1 h2 : ℝ) (p : Dep ℝ) :
    intoXyzWith kr .Jmh ⟨J, 0, h1⟩ p = intoXyzWith kr .Jmh ⟨J, 0, h2⟩ p := by
  have e : (PKind.chr .Jmh (0:ℝ)).alpha p ((PKind.lum .Jmh J).jRoot p) = 0 := by
    simp only [PKind.chr, Chr.alpha, colorfulnessToChroma, zero_div]
  simp only [intoXyzWith, inverseCore, e, inverseOpponent_alpha_zero _ (hueIntoRadiansWith kr h1) (hueIntoRadiansWith kr h2)]

/-- **the lossless round trip through CAM16-UCS as one statement about the chain the user calls**:
    `Xyz → Cam16 → Cam16Jmh → Cam16UcsJab → Cam16UcsJmh → Cam16Jmh → Xyz`
    (`from_xyz` of `Cam16Jmh` = `from_full ∘ xyz_to_cam16`; the derive-generated `Cam16UcsJab::from_color_unclamped(Cam16Jmh)`;
    the hand-written `Cam16UcsJmh ← Cam16UcsJab` and `Cam16Jmh ← Cam16UcsJmh`; `into_xyz`) returns `M16⁻¹(M16(100·xyz))/100`, within
    1e-15·(|X|+|Y|+|Z|) of `xyz` (`throughTables_close`), for valid raw viewing conditions and every colour of the domain with positive
    achromatic signal — neutral colours included, for which the rectangular form forgets the hue and `cam16_to_xyz` does not read it.
    Exact π; the model is the member `degK`, `radK`, `const PI` of the family by `rfl`. -/
theorem xyz_through_ucs_exact (xyz : V3 ℝ) (prm : Parameters ℝ) (v : ValidRaw prm)
    (D : InDomain xyz (prepareParameters prm)) (hA : 0 < achromaticSignal (forward xyz (prepareParameters prm))) :
    ∃ jab ucs jmh,
      convertAt piEdges iJmh iUcsJab (fromXyzWith (180 / Real.pi) .Jmh xyz (prepareParameters prm)) = some jab ∧
      convertAt piEdges iUcsJab iUcsJmh jab = some ucs ∧
      convertAt piEdges iUcsJmh iJmh ucs = some jmh ∧
      intoXyzWith (Real.pi / 180) .Jmh jmh (prepareParameters prm) = throughTables xyz := by
  set p := prepareParameters prm with hp
  have P : Positive p := prepare_positive v
  set c := fromXyzWith (180 / Real.pi) .Jmh xyz p with hc
  refine ⟨_, _, _, cv_JB _ _, cv_BU _ _, cv_UJ _ _, ?_⟩
  show intoXyzWith (Real.pi / 180) .Jmh
    (ucsToJmh (ucsJabToJmhWith Real.pi (180 / Real.pi) (ucsJmhToJabWith (Real.pi / 180) (jmhToUcs c)))) p = throughTables xyz
  have hj := forward_jRoot_pos xyz p P hA
  have ha := forward_alpha_nonneg xyz p P D
  have hJ : 0 ≤ c.c0 := by
    show 0 ≤ calculateLightness (forward xyz p).jRoot
    exact (calculateLightness_pos hj).le
  have hM : 0 ≤ c.c1 := by
    show 0 ≤ calculateColorfulness p.fL4 (calculateChroma (forward xyz p).jRoot (forward xyz p).alpha)
    simp only [calculateColorfulness, calculateChroma]
    have := P.fL4
    positivity
  have hce : c = ⟨c.c0, c.c1, c.c2⟩ := rfl
  rcases hM.lt_or_eq with hpos | hz
  · obtain ⟨h', e, ⟨m, hm⟩, -, -⟩ := jmh_through_jab_exact c.c0 c.c1 c.c2 hJ hpos
    rw [hce, e, hm]
    exact roundtrip_exact_pi_baked .Jmh xyz p P D hA m
  · have e0 := ucsToJmh_polarEq (polar_rect_polar (jmhToUcs c) (jmhToUcs_c1_nonneg hM))
    rw [jmh_ucs_jmh c hJ hM] at e0
    obtain ⟨e0, e1, -⟩ := e0
    set r := ucsToJmh (ucsJabToJmhWith Real.pi (180 / Real.pi) (ucsJmhToJabWith (Real.pi / 180) (jmhToUcs c))) with hr
    have hre : r = ⟨c.c0, 0, r.c2⟩ := by
      have : r = ⟨r.c0, r.c1, r.c2⟩ := rfl
      rw [this, ← e0, ← e1, ← hz]
    rw [hre, intoXyzWith_jmh_neutral _ _ r.c2 (c.c2 + 360 * (0:ℤ))]
    have := roundtrip_exact_pi_baked .Jmh xyz p P D hA 0
    rw [← hc] at this
    rw [← this]
    congr 2

/-- non-vacuity: the mid grey of `grey_inDomain` under the D65 test conditions satisfies the hypotheses -/
example : ∃ (xyz : V3 ℝ) (prm : Parameters ℝ), ValidRaw prm ∧ InDomain xyz (prepareParameters prm) ∧
    0 < achromaticSignal (forward xyz (prepareParameters prm)) :=
  ⟨⟨0.2, 0.2, 0.2⟩, ⟨⟨0.95047, 1.0, 1.08883⟩, 40.0, 0.2, .average, .auto⟩, validRaw_d65 .average .auto, grey_inDomain.1, grey_inDomain.2⟩

end C16Chain
