/-
  C10, law-free layer — statements that hold for *every* interpretation of the scalar operations (no algebraic law of
  `+ - * / max ceil <` is used), hence bit-exactly for `f32`/`f64`:
  assigning form = by-value form, slice form = `map`, the form on `Alpha`/`PreAlpha` has the by-value result as its colour and
  the documented alpha, `darken f = lighten (−f)`, `desaturate f = saturate (−f)`, the colour-scheme helpers are the
  documented hue shifts.  They are statements about the *shape* of the macro output.
-/
import PaletteModel.Ops

set_option linter.unusedSectionVars false

namespace C10
open Ops Scalar
variable {α : Type} [Scalar α]

/-! ## component arithmetic: `op_assign` = `op` -/

theorem addAssignC_eq : ∀ (a b : List α), a.length = b.length → addAssignC a b = addC a b
  | [], [], _ => rfl
  | [], _ :: _, h => by simp at h
  | _ :: _, [], h => by simp at h
  | x :: xs, y :: ys, h => by simp only [addAssignC, addC, addAssignC_eq xs ys (by simpa using h)]
theorem subAssignC_eq : ∀ (a b : List α), a.length = b.length → subAssignC a b = subC a b
  | [], [], _ => rfl
  | [], _ :: _, h => by simp at h
  | _ :: _, [], h => by simp at h
  | x :: xs, y :: ys, h => by simp only [subAssignC, subC, subAssignC_eq xs ys (by simpa using h)]
theorem mulAssignC_eq : ∀ (a b : List α), a.length = b.length → mulAssignC a b = mulC a b
  | [], [], _ => rfl
  | [], _ :: _, h => by simp at h
  | _ :: _, [], h => by simp at h
  | x :: xs, y :: ys, h => by simp only [mulAssignC, mulC, mulAssignC_eq xs ys (by simpa using h)]
theorem divAssignC_eq : ∀ (a b : List α), a.length = b.length → divAssignC a b = divC a b
  | [], [], _ => rfl
  | [], _ :: _, h => by simp at h
  | _ :: _, [], h => by simp at h
  | x :: xs, y :: ys, h => by simp only [divAssignC, divC, divAssignC_eq xs ys (by simpa using h)]

theorem addAssignS_eq : ∀ (a : List α) (c : α), addAssignS a c = addS a c
  | [], _ => rfl
  | x :: xs, c => by rw [addAssignS, addAssignS_eq xs c]; rfl
theorem subAssignS_eq : ∀ (a : List α) (c : α), subAssignS a c = subS a c
  | [], _ => rfl
  | x :: xs, c => by rw [subAssignS, subAssignS_eq xs c]; rfl
theorem mulAssignS_eq : ∀ (a : List α) (c : α), mulAssignS a c = mulS a c
  | [], _ => rfl
  | x :: xs, c => by rw [mulAssignS, mulAssignS_eq xs c]; rfl
theorem divAssignS_eq : ∀ (a : List α) (c : α), divAssignS a c = divS a c
  | [], _ => rfl
  | x :: xs, c => by rw [divAssignS, divAssignS_eq xs c]; rfl

theorem subC_length : ∀ (a b : List α), a.length = b.length → (subC a b).length = a.length
  | [], [], _ => rfl
  | [], _ :: _, h => by simp at h
  | _ :: _, [], h => by simp at h
  | x :: xs, y :: ys, h => by simp only [subC, List.length_cons, subC_length xs ys (by simpa using h)]

/-! ## mix -/

/-- what every `Mix` impl computes per component once the factor `t` is clamped -/
def mixC (r : Role) (x y t : α) : α := x + diffC r x y * t

/-- component-wise reading of a colour-level mix -/
def mixAll : List Role → List α → List α → α → List α
  | r :: rs, x :: xs, y :: ys, t => mixC r x y t :: mixAll rs xs ys t
  | _, _, _, _ => []

/-- **`mix_assign` = `mix`** (`impl_mix!`) -/
theorem mixLinAssign_eq (a b : List α) (f : α) (h : a.length = b.length) : mixLinAssign a b f = mixLin a b f := by
  unfold mixLinAssign mixLin
  exact addAssignC_eq _ _ (by simp [mulS, subC_length b a h.symm, h])

theorem mixHueAssignGo_eq : ∀ (a d : List α) (f : α), a.length = d.length →
    mixHueAssignGo a d f = List.zipWith (fun x dx => x + dx * f) a d
  | [], [], _, _ => rfl
  | [], _ :: _, _, h => by simp at h
  | _ :: _, [], _, h => by simp at h
  | x :: xs, dx :: ds, f, h => by simp only [mixHueAssignGo, List.zipWith_cons_cons, mixHueAssignGo_eq xs ds f (by simpa using h)]

theorem diffs_length : ∀ (rs : List Role) (a b : List α), rs.length = a.length → a.length = b.length → (diffs rs a b).length = a.length
  | [], [], [], _, _ => rfl
  | [], _ :: _, _, h, _ => by simp at h
  | _ :: _, [], _, h, _ => by simp at h
  | _, _ :: _, [], _, h => by simp at h
  | _, [], _ :: _, _, h => by simp at h
  | r :: rs, x :: xs, y :: ys, h1, h2 => by
    simp only [diffs, List.length_cons, diffs_length rs xs ys (by simpa using h1) (by simpa using h2)]

/-- **`mix_assign` = `mix`** (`impl_mix_hue!`) -/
theorem mixHueAssign_eq (rs : List Role) (a b : List α) (f : α) (h1 : rs.length = a.length) (h2 : a.length = b.length) :
    mixHueAssign rs a b f = mixHue rs a b f := by
  unfold mixHueAssign mixHue
  exact mixHueAssignGo_eq _ _ _ (diffs_length rs a b h1 h2).symm

/-- `impl_mix_hue!::mix` is the component-wise `mixC` at the clamped factor -/
theorem mixHue_eq_mixAll : ∀ (rs : List Role) (a b : List α) (f : α), rs.length = a.length → a.length = b.length →
    mixHue rs a b f = mixAll rs a b (clamp f zero one)
  | [], [], [], _, _, _ => rfl
  | [], _ :: _, _, _, h, _ => by simp at h
  | _ :: _, [], _, _, h, _ => by simp at h
  | _, _ :: _, [], _, _, h => by simp at h
  | _, [], _ :: _, _, _, h => by simp at h
  | r :: rs, x :: xs, y :: ys, f, h1, h2 => by
    have ih := mixHue_eq_mixAll rs xs ys f (by simpa using h1) (by simpa using h2)
    unfold mixHue at ih ⊢
    simp only [diffs, List.zipWith_cons_cons, mixAll, mixC, List.cons.injEq, true_and]
    exact ih

/-- `impl_mix!::mix` (written with colour arithmetic) is the same thing with every component linear -/
theorem mixLin_eq_mixAll : ∀ (a b : List α) (f : α), a.length = b.length →
    mixLin a b f = mixAll (List.replicate a.length Role.lin) a b (clamp f zero one)
  | [], [], _, _ => rfl
  | [], _ :: _, _, h => by simp at h
  | _ :: _, [], _, h => by simp at h
  | x :: xs, y :: ys, f, h => by
    have ih := mixLin_eq_mixAll xs ys f (by simpa using h)
    unfold mixLin at ih ⊢
    simp only [subC, mulS, List.map_cons, addC, List.length_cons, List.replicate_succ, mixAll, mixC, diffC, List.cons.injEq, true_and]
    exact ih

/-! ## lighten / saturate -/

/-- what `_impl_increase_value_trait!` computes for one `increase` component -/
def incC (lo hi x f : α) : α := clamp (x + incDelta hi x f) lo hi
def incFixedC (lo hi x a : α) : α := clamp (x + hi * a) lo hi

def incAll : List (Inc α) → List α → α → List α
  | .increase lo hi :: ss, x :: xs, f => incC lo hi x f :: incAll ss xs f
  | .other :: ss, x :: xs, f => x :: incAll ss xs f
  | _, xs, _ => xs
def incFixedAll : List (Inc α) → List α → α → List α
  | .increase lo hi :: ss, x :: xs, f => incFixedC lo hi x f :: incFixedAll ss xs f
  | .other :: ss, x :: xs, f => x :: incFixedAll ss xs f
  | _, xs, _ => xs

/-- by-value relative form, component-wise: moved components get `incC`, **the others are returned untouched** -/
theorem incValue_eq_incAll : ∀ (spec : List (Inc α)) (c : List α) (f : α), incValue spec c f = incAll spec c f
  | [], c, f => by cases c <;> simp [incValue, incBuild, incAll]
  | s :: ss, [], f => by cases s <;> simp [incValue, incBuild, incAll]
  | .increase lo hi :: ss, x :: xs, f => by
    have ih := incValue_eq_incAll ss xs f
    unfold incValue at ih ⊢
    simp only [incDeltas, incBuild, incAll, incC, ih]
  | .other :: ss, x :: xs, f => by
    have ih := incValue_eq_incAll ss xs f
    unfold incValue at ih ⊢
    simp only [incDeltas, incBuild, incAll, ih]

/-- **`lighten_assign` = `lighten`, `saturate_assign` = `saturate`** (relative form) -/
theorem incAssign_eq : ∀ (spec : List (Inc α)) (c : List α) (f : α), incAssign spec c f = incValue spec c f
  | [], c, f => by cases c <;> simp [incValue, incBuild, incAssign]
  | s :: ss, [], f => by cases s <;> simp [incValue, incBuild, incAssign]
  | .increase lo hi :: ss, x :: xs, f => by
    rw [incValue_eq_incAll]; simp only [incAssign, incAll, incC, incDelta, ← incValue_eq_incAll, incAssign_eq ss xs f]
  | .other :: ss, x :: xs, f => by
    rw [incValue_eq_incAll]; simp only [incAssign, incAll, ← incValue_eq_incAll, incAssign_eq ss xs f]

theorem incFixedValue_eq_incFixedAll : ∀ (spec : List (Inc α)) (c : List α) (a : α), incFixedValue spec c a = incFixedAll spec c a
  | [], c, a => by simp [incFixedValue, incFixedAll]
  | s :: ss, [], a => by cases s <;> simp [incFixedValue, incFixedAll]
  | .increase lo hi :: ss, x :: xs, a => by
    have ih := incFixedValue_eq_incFixedAll ss xs a
    unfold incFixedValue at ih ⊢
    simp only [List.zipWith_cons_cons, List.length_cons, List.drop_succ_cons, List.cons_append, incFixedAll, incFixedC, ih]
  | .other :: ss, x :: xs, a => by
    have ih := incFixedValue_eq_incFixedAll ss xs a
    unfold incFixedValue at ih ⊢
    simp only [List.zipWith_cons_cons, List.length_cons, List.drop_succ_cons, List.cons_append, incFixedAll, ih]

/-- **`lighten_fixed_assign` = `lighten_fixed`, `saturate_fixed_assign` = `saturate_fixed`** -/
theorem incFixedAssign_eq : ∀ (spec : List (Inc α)) (c : List α) (a : α), incFixedAssign spec c a = incFixedValue spec c a
  | [], c, a => by cases c <;> simp [incFixedValue, incFixedAssign]
  | s :: ss, [], a => by cases s <;> simp [incFixedValue, incFixedAssign]
  | .increase lo hi :: ss, x :: xs, a => by
    rw [incFixedValue_eq_incFixedAll]; simp only [incFixedAssign, incFixedAll, incFixedC, ← incFixedValue_eq_incFixedAll, incFixedAssign_eq ss xs a]
  | .other :: ss, x :: xs, a => by
    rw [incFixedValue_eq_incFixedAll]; simp only [incFixedAssign, incFixedAll, ← incFixedValue_eq_incFixedAll, incFixedAssign_eq ss xs a]

/-- **`darken f = lighten (−f)`, `desaturate f = saturate (−f)`** — all four forms -/
theorem darken_eq_lighten_neg (spec : List (Inc α)) (c : List α) (f : α) : decValue spec c f = incValue spec c (-f) := rfl
theorem darken_fixed_eq_lighten_fixed_neg (spec : List (Inc α)) (c : List α) (a : α) : decFixedValue spec c a = incFixedValue spec c (-a) := rfl
theorem darken_assign_eq_darken (spec : List (Inc α)) (c : List α) (f : α) : decAssign spec c f = decValue spec c f := incAssign_eq spec c (-f)
theorem darken_fixed_assign_eq_darken_fixed (spec : List (Inc α)) (c : List α) (a : α) : decFixedAssign spec c a = decFixedValue spec c a :=
  incFixedAssign_eq spec c (-a)

/-- `impl_lighten_hwb!`: **assigning forms = by-value forms** -/
theorem hwbLightenAssign_eq (l : HwbLim α) (w b f : α) : hwbLightenAssign l w b f = hwbLighten l w b f := rfl
theorem hwbLightenFixedAssign_eq (l : HwbLim α) (w b a : α) : hwbLightenFixedAssign l w b a = hwbLightenFixed l w b a := rfl

/-! ## hue operators -/

theorem shiftHueAssign_eq : ∀ (h : Nat) (c : List α) (x : α), shiftHueAssign h c x = shiftHue h c x
  | _, [], _ => by simp [shiftHueAssign, shiftHue]
  | 0, y :: ys, x => by simp [shiftHueAssign, shiftHue]
  | h + 1, y :: ys, x => by
    have ih := shiftHueAssign_eq h ys x
    unfold shiftHue at ih ⊢
    simp [shiftHueAssign, ih]
theorem setHue_eq : ∀ (h : Nat) (c : List α) (x : α), setHue h c x = withHue h c x
  | _, [], _ => by simp [setHue, withHue]
  | 0, y :: ys, x => by simp [setHue, withHue]
  | h + 1, y :: ys, x => by
    have ih := setHue_eq h ys x
    unfold withHue at ih ⊢
    simp [setHue, ih]

/-- shifting or setting the hue leaves every other component untouched and the hue is what the docs say -/
theorem shiftHue_get (h : Nat) (c : List α) (x : α) (i : Nat) :
    (shiftHue h c x)[i]? = if i = h then c[i]?.map (· + x) else c[i]? := by
  unfold shiftHue; rw [List.getElem?_modify]; by_cases hi : h = i <;> simp [hi, eq_comm]
theorem withHue_get (h : Nat) (c : List α) (x : α) (i : Nat) :
    (withHue h c x)[i]? = if i = h then c[i]?.map (fun _ => x) else c[i]? := by
  unfold withHue; rw [List.getElem?_set]; by_cases hi : h = i
  · subst hi
    by_cases hl : h < c.length
    · simp [hl, List.getElem?_eq_getElem hl]
    · simp [hl, List.getElem?_eq_none (Nat.le_of_not_lt hl)]
  · simp [hi, Ne.symm hi]

/-! ## colour schemes -/

theorem complementary_eq (h : Nat) (c : List α) : complementary h c = shiftHue h c 180.0 := rfl
theorem splitComplementary_eq (h : Nat) (c : List α) : splitComplementary h c = (shiftHue h c 150.0, shiftHue h c 210.0) := rfl
theorem analogous_eq (h : Nat) (c : List α) : analogous h c = (shiftHue h c 330.0, shiftHue h c 30.0) := rfl
theorem analogousSecondary_eq (h : Nat) (c : List α) : analogousSecondary h c = (shiftHue h c 300.0, shiftHue h c 60.0) := rfl
theorem triadic_eq (h : Nat) (c : List α) : triadic h c = (shiftHue h c 120.0, shiftHue h c 240.0) := rfl
theorem tetradic_eq (h : Nat) (c : List α) : tetradic h c = (shiftHue h c 90.0, shiftHue h c 180.0, shiftHue h c 270.0) := rfl

/-- Lab-like types, on a three-component colour `(l, a, b)` (`$a`, `$b` at positions 1, 2 for every instantiation: decided below) -/
theorem labComplementary_val (l a b : α) : labComplementary 1 2 [l, a, b] = [l, -a, -b] := rfl
theorem labTetradic_val (l a b : α) : labTetradic 1 2 [l, a, b] = ([l, -b, a], [l, -a, -b], [l, -(-b), -a]) := rfl

/-! ## slices -/

/-- **slice form = `map` of the assigning form** (and hence of the by-value form, by the theorems above) -/
theorem sliceAssign_eq_map (op : List α → α → List α) : ∀ (cs : List (List α)) (x : α), sliceAssign op cs x = cs.map (op · x)
  | [], _ => rfl
  | c :: cs, x => by simp only [sliceAssign, List.map_cons, sliceAssign_eq_map op cs x]

theorem slice_lighten (spec : List (Inc α)) (cs : List (List α)) (f : α) :
    sliceAssign (incAssign spec) cs f = cs.map (incValue spec · f) := by
  rw [sliceAssign_eq_map]; exact List.map_congr_left (fun c _ => incAssign_eq spec c f)
theorem slice_lighten_fixed (spec : List (Inc α)) (cs : List (List α)) (a : α) :
    sliceAssign (incFixedAssign spec) cs a = cs.map (incFixedValue spec · a) := by
  rw [sliceAssign_eq_map]; exact List.map_congr_left (fun c _ => incFixedAssign_eq spec c a)
theorem slice_darken (spec : List (Inc α)) (cs : List (List α)) (f : α) :
    sliceAssign (decAssign spec) cs f = cs.map (incValue spec · (-f)) := by
  rw [sliceAssign_eq_map]; exact List.map_congr_left (fun c _ => incAssign_eq spec c (-f))
theorem slice_shiftHue (h : Nat) (cs : List (List α)) (x : α) :
    sliceAssign (shiftHueAssign h) cs x = cs.map (shiftHue h · x) := by
  rw [sliceAssign_eq_map]; exact List.map_congr_left (fun c _ => shiftHueAssign_eq h c x)
theorem slice_setHue (h : Nat) (cs : List (List α)) (x : α) :
    sliceAssign (setHue h) cs x = cs.map (withHue h · x) := by
  rw [sliceAssign_eq_map]; exact List.map_congr_left (fun c _ => setHue_eq h c x)

/-! ## Alpha / PreAlpha -/

/-- the three facts about the constants `0`, `1` that make `clamp(·, 0, 1)` idempotent; true of `f32`, `f64` (decided below on
    the IEEE model) and of every ordered field -/
structure UnitConsts (α : Type) [Scalar α] : Prop where
  zz : ¬ (zero : α) < zero
  oz : ¬ (one : α) < zero
  oo : ¬ (one : α) < one

theorem clamp_idem (hc : UnitConsts α) (f : α) : clamp (clamp f zero one) zero one = clamp f (zero : α) one := by
  unfold clamp
  by_cases h1 : f < zero
  · simp only [if_pos h1, if_neg hc.zz, if_neg hc.oz]
  · by_cases h2 : (one : α) < f
    · simp only [if_neg h1, if_pos h2, if_neg hc.oz, if_neg hc.oo]
    · simp only [if_neg h1, if_neg h2]

theorem unitConsts_f64 : UnitConsts Float := ⟨by decide +kernel, by decide +kernel, by decide +kernel⟩
/-- `f32`: the constants are `(0.0 : f64) as f32`, `(1.0 : f64) as f32`; `Float.toFloat32` is opaque to the kernel, so their bit
    patterns are hypotheses here (the driver checks them when it runs: `coverage` line) -/
theorem unitConsts_f32 (h0 : (zero : Float32) = Float32.ofBits 0) (h1 : (one : Float32) = Float32.ofBits 0x3f800000) : UnitConsts Float32 := by
  refine ⟨?_, ?_, ?_⟩ <;> simp only [h0, h1] <;> decide +kernel

theorem mixLin_clamped (hc : UnitConsts α) (a b : List α) (f : α) : mixLin a b (clamp f zero one) = mixLin a b f := by
  unfold mixLin; rw [clamp_idem hc]
theorem mixHue_clamped (hc : UnitConsts α) (rs : List Role) (a b : List α) (f : α) : mixHue rs a b (clamp f zero one) = mixHue rs a b f := by
  unfold mixHue; rw [clamp_idem hc]

/-- **`Mix for Alpha<C>` / `PreAlpha<C>`: the colour is the by-value mix of the bare colours, the alpha is interpolated with
    the clamped factor** -/
theorem alpha_mixLin (hc : UnitConsts α) (a b : Alpha α) (f : α) :
    (Alpha.mix mixLin a b f).color = mixLin a.color b.color f ∧
    (Alpha.mix mixLin a b f).alpha = a.alpha + clamp f zero one * (b.alpha - a.alpha) :=
  ⟨mixLin_clamped hc _ _ f, rfl⟩
theorem alpha_mixHue (hc : UnitConsts α) (rs : List Role) (a b : Alpha α) (f : α) :
    (Alpha.mix (mixHue rs) a b f).color = mixHue rs a.color b.color f ∧
    (Alpha.mix (mixHue rs) a b f).alpha = a.alpha + clamp f zero one * (b.alpha - a.alpha) :=
  ⟨mixHue_clamped hc rs _ _ f, rfl⟩
/-- the assigning form on the wrapper = the by-value form on the wrapper -/
theorem alpha_mixAssign_eq (mixC' mixAssignC : List α → List α → α → List α) (a b : Alpha α) (f : α)
    (h : mixAssignC a.color b.color (clamp f zero one) = mixC' a.color b.color (clamp f zero one)) :
    Alpha.mixAssign mixAssignC a b f = Alpha.mix mixC' a b f := by
  unfold Alpha.mixAssign Alpha.mix; simp only [h]

/-- **every other operator on `Alpha`: colour = the operator on the bare colour, alpha untouched** -/
theorem alpha_map1 (op : List α → α → List α) (a : Alpha α) (x : α) :
    (Alpha.map1 op a x).color = op a.color x ∧ (Alpha.map1 op a x).alpha = a.alpha := ⟨rfl, rfl⟩
theorem alpha_assign1 (op opAssign : List α → α → List α) (a : Alpha α) (x : α) (h : opAssign a.color x = op a.color x) :
    Alpha.assign1 opAssign a x = Alpha.map1 op a x := by
  unfold Alpha.assign1 Alpha.map1; simp only [h]
theorem alpha_map0 (op : List α → List α) (a : Alpha α) :
    (Alpha.map0 op a).color = op a.color ∧ (Alpha.map0 op a).alpha = a.alpha := ⟨rfl, rfl⟩
/-- **arithmetic on `Alpha`/`PreAlpha`: colour = the operation on the bare colours, alpha = the same operation on the alphas** -/
theorem alpha_binC (opC : List α → List α → List α) (opT : α → α → α) (a b : Alpha α) :
    (Alpha.binC opC opT a b).color = opC a.color b.color ∧ (Alpha.binC opC opT a b).alpha = opT a.alpha b.alpha := ⟨rfl, rfl⟩
theorem alpha_binS (opS : List α → α → List α) (opT : α → α → α) (a : Alpha α) (c : α) :
    (Alpha.binS opS opT a c).color = opS a.color c ∧ (Alpha.binS opS opT a c).alpha = opT a.alpha c := ⟨rfl, rfl⟩
theorem alpha_binAssignC_eq (opC opAssignC : List α → List α → List α) (opT : α → α → α) (a b : Alpha α)
    (h : opAssignC a.color b.color = opC a.color b.color) : Alpha.binAssignC opAssignC opT a b = Alpha.binC opC opT a b := by
  unfold Alpha.binAssignC Alpha.binC; simp only [h]
theorem alpha_binAssignS_eq (opS opAssignS : List α → α → List α) (opT : α → α → α) (a : Alpha α) (c : α)
    (h : opAssignS a.color c = opS a.color c) : Alpha.binAssignS opAssignS opT a c = Alpha.binS opS opT a c := by
  unfold Alpha.binAssignS Alpha.binS; simp only [h]

/-- non-vacuity: the law-free statements instantiated on IEEE doubles (kernel-evaluated) -/
example : (incAssign [Inc.other, .increase 0.0 1.0] [(30.0 : Float), 0.25] 0.5).map Float.toBits = [(30.0 : Float), 0.625].map Float.toBits := by
  decide +kernel
example : (mixLinAssign [(0.25 : Float), 0.0] [0.75, 1.0] 0.5).map Float.toBits = [(0.5 : Float), 0.5].map Float.toBits := by
  decide +kernel

end C10
