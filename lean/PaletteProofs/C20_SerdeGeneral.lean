/-
  C20 — the round-trip theorems for EVERY field list.

  `C20_Serde.lean` proves the round trips per colour struct of the extracted table (symbolic evaluation, 20 structs).
  Here the same statements are proved once, by induction over the field list, for every descriptor `d : Desc` that
  satisfies the decidable well-formedness predicate `Desc.WF` (field names pairwise distinct, none of them the alpha key)
  and every component list of the right length, about the very functions the driver executes
  (`Serde.serColor`, `Serde.serAlpha`, `Serde.deColor`, `Serde.deAlphaRaw`, `Serde.deAlpha`, `Serde.deAlphaOpt`):

  * struct shape (a map), **with the entries in any order** (`List.Perm`), sequence shape, by-index shape;
  * the same through `Alpha` / `PreAlpha` (one more entry at the same level);
  * missing alpha ⇒ the optional helpers give the default, `Alpha::deserialize` gives `missing field`;
  * a duplicated field (or alpha) ⇒ error; unknown fields are skipped;
  * key-order independence of *every* map input as a theorem of its own (`deColor_perm`, `deAlphaRaw_perm`, …).

  `colors_wf` (by `decide`) ties the general theorems to the generated table; `C20.Table.*` re-derives the per-struct
  theorems of `C20_Serde.lean` (same statements) as corollaries.
-/
import PaletteProofs.C20_Serde

namespace Serde

/-- **well-formed descriptor** (relative to the alpha key the deserializer listens for):
    the field names are pairwise distinct and none of them is the alpha key.
    (`serde(skip)` fields are not part of a `Desc` at all, and the hue flag is per field, so nothing else is needed.)
    The first half is what the plain colour needs, the second is needed only under `Alpha`/`PreAlpha`. -/
def Desc.WF (g : Cfg) (d : Desc) : Prop := d.names.Nodup ∧ g.deStrKey ∉ d.names

instance (g : Cfg) (d : Desc) : Decidable (d.WF g) := inferInstanceAs (Decidable (_ ∧ _))

/-- the key `AlphaSerializer` writes in a struct is the key `AlphaFieldVisitor::visit_str` listens for -/
def Cfg.WF (g : Cfg) : Prop := g.serStructKey = g.deStrKey

instance (g : Cfg) : Decidable g.WF := inferInstanceAs (Decidable (_ = _))

end Serde

namespace C20.General
open Serde

variable {α : Type}

/-! ## the generated table is well-formed -/

/-- every colour struct of the extracted table is well-formed, for `Alpha` and for `PreAlpha` -/
theorem colors_wf : ∀ d ∈ colors, d.WF cfgAlpha ∧ d.WF cfgPreAlpha := by decide

theorem cfg_wf : cfgAlpha.WF ∧ cfgPreAlpha.WF := by decide

/-! ## building blocks -/

/-- reading back one field value: whatever the hue flag, transparency and format -/
theorem decode_enc (tr : Bool) (f : Fmt) (fd : Field) (x : α) :
    decodeField tr f fd (presentVal f (encField tr fd x)) = .ok x := by
  unfold decodeField encField
  cases fd.hue <;> cases tr <;> cases h : f.newtypeWrapped <;> simp [presentVal, decodeNum, h]

theorem foldRes_cons_ok {σ β : Type} (step : σ → β → Res σ) (s s' : σ) (b : β) (bs : List β) :
    foldRes step s (b :: bs) = .ok s' ↔ ∃ s1, step s b = .ok s1 ∧ foldRes step s1 bs = .ok s' := by
  simp only [foldRes]
  cases h : step s b with
  | ok s1 => simp
  | error e => simp

theorem foldRes_append {σ β : Type} (step : σ → β → Res σ) (s : σ) (l1 l2 : List β) :
    foldRes step s (l1 ++ l2) = (match foldRes step s l1 with | .ok s' => foldRes step s' l2 | .error e => .error e) := by
  induction l1 generalizing s with
  | nil => rfl
  | cons b bs ih =>
    simp only [List.cons_append, foldRes]
    cases step s b with
    | ok s1 => exact ih s1
    | error e => rfl

/-- the map entries a format shows for a serialized colour: key = field name, value = the presented field value -/
def entries (tr : Bool) (f : Fmt) (fl : List Field) (c : List α) : List (Key × GVal α) :=
  List.zipWith (fun fd x => (Key.str fd.name, presentVal f (encField tr fd x))) fl c

/-- the values alone (compact sequence form) -/
def values (tr : Bool) (f : Fmt) (fl : List Field) (c : List α) : List (GVal α) :=
  List.zipWith (fun fd x => presentVal f (encField tr fd x)) fl c

/-- by-index identifiers, starting at `off` -/
def idxEntries (tr : Bool) (f : Fmt) (off : Nat) (fl : List Field) (c : List α) : List (Key × GVal α) :=
  ((values tr f fl c).zipIdx off).map fun (v, i) => (Key.idx i, v)

theorem present_serColor (tr : Bool) (f : Fmt) (d : Desc) (c : List α) :
    present f (serColor tr d c) = .map (entries tr f d.fields c) := by
  simp [serColor, present, entries, List.map_zipWith]

theorem presentSeq_serColor (tr : Bool) (f : Fmt) (d : Desc) (c : List α) :
    presentSeq f (serColor tr d c) = .seq (values tr f d.fields c) := by
  simp [serColor, presentSeq, values, List.map_zipWith]

theorem presentIdx_serColor (tr : Bool) (f : Fmt) (d : Desc) (c : List α) :
    presentIdx f (serColor tr d c) = .map (idxEntries tr f 0 d.fields c) := by
  simp only [serColor, presentIdx, idxEntries, values]
  congr 1
  generalize d.fields = fl
  generalize 0 = off
  induction fl generalizing c off with
  | nil => simp
  | cons fd fl ih =>
    cases c with
    | nil => simp
    | cons x c => simp [List.zipWith, ih]

/-! ## the derived `visit_map` loop on entries in declaration order -/

theorem getSlot_mid (cpre : List α) (o : Option α) (rest : List (Option α)) :
    getSlot (cpre.map some ++ o :: rest) cpre.length = o := by
  simp [getSlot]

theorem set_mid (cpre : List α) (o : Option α) (rest : List (Option α)) (x : α) :
    (cpre.map some ++ o :: rest).set cpre.length (some x) = (cpre ++ [x]).map some ++ rest := by
  have : (cpre.map some).length ≤ cpre.length := by simp
  rw [List.set_append_right _ _ this]
  simp

/-- one turn of the loop on the entry of the first field not yet seen: its slot is filled, nothing else changes -/
theorem mapStep_hit (tr : Bool) (f : Fmt) (d : Desc) (pre suf : List Field) (fd : Field) (hd : d.fields = pre ++ fd :: suf)
    (cpre : List α) (hcp : cpre.length = pre.length) (x : α) (k : Key) (hk : fieldIndex d.names k = some pre.length)
    (rest : List (Option α)) :
    mapStep tr f d (cpre.map some ++ none :: rest) (k, presentVal f (encField tr fd x)) = .ok ((cpre ++ [x]).map some ++ rest) := by
  have hf : d.fields[pre.length]? = some fd := by simp [hd]
  rw [← hcp] at hk hf
  simp only [mapStep, hk, hf, getSlot_mid, Option.isSome_none, Bool.false_eq_true, ↓reduceIte, decode_enc, set_mid]

theorem fieldIndex_name (d : Desc) (hn : d.names.Nodup) (pre suf : List Field) (fd : Field) (hd : d.fields = pre ++ fd :: suf) :
    fieldIndex d.names (.str fd.name) = some pre.length := by
  have hnames : d.names = pre.map (·.name) ++ fd.name :: suf.map (·.name) := by simp [Desc.names, hd]
  have hnot : fd.name ∉ pre.map (·.name) := by
    rw [hnames] at hn
    have := (List.nodup_append.mp hn).2.2
    intro hmem
    exact this _ hmem _ (List.mem_cons_self) rfl
  simp only [fieldIndex, hnames, List.idxOf_append, hnot, ↓reduceIte, List.idxOf_cons_self, List.length_append, List.length_map,
    List.length_cons]
  simp

theorem fieldIndex_idx (d : Desc) (pre suf : List Field) (fd : Field) (hd : d.fields = pre ++ fd :: suf) :
    fieldIndex d.names (.idx pre.length) = some pre.length := by
  simp [fieldIndex, Desc.names, hd]

/-- by name, declaration order, from any prefix already seen -/
theorem fold_names (tr : Bool) (f : Fmt) (d : Desc) (hn : d.names.Nodup) :
    ∀ (suf pre : List Field) (cpre csuf : List α), d.fields = pre ++ suf → cpre.length = pre.length → csuf.length = suf.length →
      foldRes (mapStep tr f d) (cpre.map some ++ suf.map (fun _ => none)) (entries tr f suf csuf) = .ok ((cpre ++ csuf).map some) := by
  intro suf
  induction suf with
  | nil =>
    intro pre cpre csuf _ _ hcs
    have : csuf = [] := by simpa using hcs
    subst this
    simp [entries, foldRes]
  | cons fd suf ih =>
    intro pre cpre csuf hd hcp hcs
    cases csuf with
    | nil => simp at hcs
    | cons x csuf =>
      simp only [entries, List.zipWith, List.map_cons, foldRes]
      rw [mapStep_hit tr f d pre suf fd hd cpre hcp x _ (fieldIndex_name d hn pre suf fd hd)]
      have := ih (pre ++ [fd]) (cpre ++ [x]) csuf (by simp [hd]) (by simp [hcp]) (by simpa using hcs)
      simpa [entries] using this

/-- by index -/
theorem fold_idx (tr : Bool) (f : Fmt) (d : Desc) :
    ∀ (suf pre : List Field) (cpre csuf : List α), d.fields = pre ++ suf → cpre.length = pre.length → csuf.length = suf.length →
      foldRes (mapStep tr f d) (cpre.map some ++ suf.map (fun _ => none)) (idxEntries tr f pre.length suf csuf) = .ok ((cpre ++ csuf).map some) := by
  intro suf
  induction suf with
  | nil =>
    intro pre cpre csuf _ _ hcs
    have : csuf = [] := by simpa using hcs
    subst this
    simp [idxEntries, values, foldRes]
  | cons fd suf ih =>
    intro pre cpre csuf hd hcp hcs
    cases csuf with
    | nil => simp at hcs
    | cons x csuf =>
      simp only [idxEntries, values, List.zipWith, List.zipIdx_cons, List.map_cons, foldRes]
      rw [mapStep_hit tr f d pre suf fd hd cpre hcp x _ (fieldIndex_idx d pre suf fd hd)]
      have := ih (pre ++ [fd]) (cpre ++ [x]) csuf (by simp [hd]) (by simp [hcp]) (by simpa using hcs)
      simpa [idxEntries, values] using this

/-- after the loop: all slots filled ⇒ the components, in declaration order -/
theorem collect_all (fl : List Field) (c : List α) (hc : c.length = fl.length) : collect fl (c.map some) = .ok c := by
  induction fl generalizing c with
  | nil =>
    have : c = [] := by simpa using hc
    subst this; rfl
  | cons fd fl ih =>
    cases c with
    | nil => simp at hc
    | cons x c => simp [collect, ih c (by simpa using hc)]

/-- the derived `visit_seq` on the values in declaration order, whatever follows them -/
theorem seqFields_values (tr : Bool) (f : Fmt) (fl : List Field) (c : List α) (hc : c.length = fl.length) (i : Nat) (rest : List (GVal α)) :
    seqFields tr f fl i (values tr f fl c ++ rest) = .ok (c, rest) := by
  induction fl generalizing c i with
  | nil =>
    have : c = [] := by simpa using hc
    subst this; simp [values, seqFields]
  | cons fd fl ih =>
    cases c with
    | nil => simp at hc
    | cons x c =>
      have := ih c (by simpa using hc) (i + 1)
      simp only [values] at this
      simp [values, List.zipWith, seqFields, decode_enc, this]

/-! ## key-order independence of the `visit_map` loops -/

/-- a fold whose successful steps commute gives the same successful result on every permutation of its input -/
theorem foldRes_perm {σ β : Type} (step : σ → β → Res σ)
    (comm : ∀ s s1 s2 x y, step s y = .ok s1 → step s1 x = .ok s2 → ∃ s1', step s x = .ok s1' ∧ step s1' y = .ok s2)
    {l1 l2 : List β} (h : l1.Perm l2) : ∀ s s', foldRes step s l1 = .ok s' → foldRes step s l2 = .ok s' := by
  induction h with
  | nil => intro s s' h; exact h
  | cons x _ ih =>
    intro s s' h
    obtain ⟨s1, h1, h2⟩ := (foldRes_cons_ok step s s' x _).mp h
    exact (foldRes_cons_ok step s s' x _).mpr ⟨s1, h1, ih s1 s' h2⟩
  | swap x y l =>
    intro s s' h
    obtain ⟨s1, h1, h⟩ := (foldRes_cons_ok step s s' y _).mp h
    obtain ⟨s2, h2, h⟩ := (foldRes_cons_ok step s1 s' x _).mp h
    obtain ⟨s1', h1', h2'⟩ := comm s s1 s2 x y h1 h2
    exact (foldRes_cons_ok step s s' x _).mpr ⟨s1', h1', (foldRes_cons_ok step s1' s' y _).mpr ⟨s2, h2', h⟩⟩
  | trans _ _ ih1 ih2 => intro s s' h; exact ih2 s s' (ih1 s s' h)

theorem ok_eq_iff {σ : Type} (a b : σ) : (Except.ok a : Res σ) = .ok b ↔ b = a :=
  ⟨fun h => (Except.ok.inj h).symm, fun h => h ▸ rfl⟩

/-- which field an entry addresses (by name or by position), if any -/
def target (d : Desc) (k : Key) : Option (Nat × Field) :=
  (fieldIndex d.names k).bind fun i => (d.fields[i]?).map fun fd => (i, fd)

/-- when one turn of the derived loop succeeds: the key is unknown (skipped), or it addresses a field not yet seen and
    its value decodes -/
theorem mapStep_ok_iff (tr : Bool) (f : Fmt) (d : Desc) (s s' : List (Option α)) (kv : Key × GVal α) :
    mapStep tr f d s kv = .ok s' ↔
      (target d kv.1 = none ∧ s' = s) ∨
      (∃ i fd x, target d kv.1 = some (i, fd) ∧ getSlot s i = none ∧ decodeField tr f fd kv.2 = .ok x ∧ s' = s.set i (some x)) := by
  unfold mapStep target
  cases hi : fieldIndex d.names kv.1 with
  | none => simp only [Option.bind_none, true_and, reduceCtorEq, false_and, exists_false, or_false, Except.ok.injEq]; exact eq_comm
  | some i =>
    cases hf : d.fields[i]? with
    | none => simp only [hf, Option.bind_some, Option.map_none, true_and, reduceCtorEq, false_and, exists_false, or_false, Except.ok.injEq]; exact eq_comm
    | some fd =>
      cases hs : getSlot s i with
      | some y => simp [hf, hs]
      | none =>
        cases hx : decodeField tr f fd kv.2 with
        | error e => simp [hf, hs, hx]
        | ok x =>
          simp only [hf, hs, hx, Option.bind_some, Option.map_some, Option.isSome_none, Bool.false_eq_true, ↓reduceIte,
            reduceCtorEq, false_and, false_or, Except.ok.injEq, Option.some.injEq, Prod.mk.injEq]
          constructor
          · rintro rfl; exact ⟨i, fd, x, ⟨rfl, rfl⟩, hs, hx, rfl⟩
          · rintro ⟨i', fd', x', ⟨rfl, rfl⟩, _, hx', rfl⟩
            rw [hx] at hx'; cases hx'; rfl

theorem getSlot_set (s : List (Option α)) (i j : Nat) (v : Option α) :
    getSlot (s.set i v) j = if i = j then (if i < s.length then v else none) else getSlot s j := by
  unfold getSlot
  rw [List.getElem?_set]
  split
  · split <;> simp
  · rfl

/-- two successful turns of the derived loop can be exchanged -/
theorem mapStep_comm (tr : Bool) (f : Fmt) (d : Desc) (s s1 s2 : List (Option α)) (x y : Key × GVal α)
    (h1 : mapStep tr f d s y = .ok s1) (h2 : mapStep tr f d s1 x = .ok s2) :
    ∃ s1', mapStep tr f d s x = .ok s1' ∧ mapStep tr f d s1' y = .ok s2 := by
  rw [mapStep_ok_iff] at h1 h2
  rcases h1 with ⟨ty, rfl⟩ | ⟨i, fdy, a, ty, gy, dy, rfl⟩
  · -- `y` is skipped
    refine ⟨s2, (mapStep_ok_iff ..).mpr h2, (mapStep_ok_iff ..).mpr (Or.inl ⟨ty, rfl⟩)⟩
  · rcases h2 with ⟨tx, rfl⟩ | ⟨j, fdx, b, tx, gx, dx, rfl⟩
    · -- `x` is skipped
      exact ⟨s, (mapStep_ok_iff ..).mpr (Or.inl ⟨tx, rfl⟩), (mapStep_ok_iff ..).mpr (Or.inr ⟨i, fdy, a, ty, gy, dy, rfl⟩)⟩
    · rw [getSlot_set] at gx
      by_cases hij : i = j
      · subst hij
        simp only [↓reduceIte] at gx
        have hlen : s.length ≤ i := by
          apply Nat.le_of_not_lt
          intro hlt
          simp [hlt] at gx
        refine ⟨s.set i (some b), (mapStep_ok_iff ..).mpr (Or.inr ⟨i, fdx, b, tx, gy, dx, rfl⟩),
          (mapStep_ok_iff ..).mpr (Or.inr ⟨i, fdy, a, ty, ?_, dy, ?_⟩)⟩
        · rw [List.set_eq_of_length_le hlen]; exact gy
        · simp [List.set_eq_of_length_le hlen]
      · simp only [hij, ↓reduceIte] at gx
        refine ⟨s.set j (some b), (mapStep_ok_iff ..).mpr (Or.inr ⟨j, fdx, b, tx, gx, dx, rfl⟩),
          (mapStep_ok_iff ..).mpr (Or.inr ⟨i, fdy, a, ty, ?_, dy, ?_⟩)⟩
        · rw [getSlot_set]; simp [Ne.symm hij, gy]
        · exact List.set_comm _ _ hij

/-- when one turn of `MapWrapper`'s loop succeeds -/
theorem alphaMapStep_ok_iff (g : Cfg) (f : Fmt) (d : Desc) (st st' : List (Option α) × Option α) (kv : Key × GVal α) :
    alphaMapStep g f d st kv = .ok st' ↔
      (isAlphaKey g d.fields.length kv.1 = true ∧ st.2 = none ∧ ∃ a, decodeNum kv.2 = .ok a ∧ st' = (st.1, some a)) ∨
      (isAlphaKey g d.fields.length kv.1 = false ∧ ∃ s, mapStep g.hueTransparent f d st.1 kv = .ok s ∧ st' = (s, st.2)) := by
  unfold alphaMapStep
  cases hk : isAlphaKey g d.fields.length kv.1 with
  | true =>
    cases h2 : st.2 with
    | some a0 => simp
    | none =>
      cases hx : decodeNum kv.2 with
      | error e => simp
      | ok a => simp; exact eq_comm
  | false =>
    cases hm : mapStep g.hueTransparent f d st.1 kv with
    | error e => simp
    | ok s => simp; exact eq_comm

theorem alphaMapStep_comm (g : Cfg) (f : Fmt) (d : Desc) (s s1 s2 : List (Option α) × Option α) (x y : Key × GVal α)
    (h1 : alphaMapStep g f d s y = .ok s1) (h2 : alphaMapStep g f d s1 x = .ok s2) :
    ∃ s1', alphaMapStep g f d s x = .ok s1' ∧ alphaMapStep g f d s1' y = .ok s2 := by
  rw [alphaMapStep_ok_iff] at h1 h2
  rcases h1 with ⟨ky, ny, a, dy, rfl⟩ | ⟨ky, t1, my, rfl⟩
  · rcases h2 with ⟨kx, nx, b, dx, rfl⟩ | ⟨kx, t2, mx, rfl⟩
    · simp at nx
    · exact ⟨(t2, s.2), (alphaMapStep_ok_iff ..).mpr (Or.inr ⟨kx, t2, mx, rfl⟩),
        (alphaMapStep_ok_iff ..).mpr (Or.inl ⟨ky, ny, a, dy, rfl⟩)⟩
  · rcases h2 with ⟨kx, nx, b, dx, rfl⟩ | ⟨kx, t2, mx, rfl⟩
    · exact ⟨(s.1, some b), (alphaMapStep_ok_iff ..).mpr (Or.inl ⟨kx, nx, b, dx, rfl⟩),
        (alphaMapStep_ok_iff ..).mpr (Or.inr ⟨ky, t1, my, rfl⟩)⟩
    · obtain ⟨t, hx, hy⟩ := mapStep_comm g.hueTransparent f d s.1 t1 t2 x y my mx
      exact ⟨(t, s.2), (alphaMapStep_ok_iff ..).mpr (Or.inr ⟨kx, t, hx, rfl⟩),
        (alphaMapStep_ok_iff ..).mpr (Or.inr ⟨ky, t2, hy, rfl⟩)⟩

/-- **key-order independence, plain colour**: any permutation of the entries of a map deserialises to the same colour
    (every map, not only serializer output: unknown keys, index keys, anything) -/
theorem deColor_perm (tr : Bool) (f : Fmt) (d : Desc) {es es' : List (Key × GVal α)} (h : es.Perm es') (c : List α) :
    deColor tr f d (.map es) = .ok c ↔ deColor tr f d (.map es') = .ok c := by
  have key : ∀ {l1 l2 : List (Key × GVal α)}, l1.Perm l2 → deColor tr f d (.map l1) = .ok c → deColor tr f d (.map l2) = .ok c := by
    intro l1 l2 hp h1
    simp only [deColor] at h1 ⊢
    cases hf : foldRes (mapStep tr f d) (d.fields.map fun _ => none) l1 with
    | error e => simp [hf] at h1
    | ok slots =>
      rw [foldRes_perm _ (mapStep_comm tr f d) hp _ _ hf]
      simpa [hf] using h1
  exact ⟨key h, key h.symm⟩

/-- **key-order independence under `AlphaDeserializer`** -/
theorem deAlphaRaw_perm (g : Cfg) (f : Fmt) (d : Desc) {es es' : List (Key × GVal α)} (h : es.Perm es') (r : List α × Option α) :
    deAlphaRaw g f d (.map es) = .ok r ↔ deAlphaRaw g f d (.map es') = .ok r := by
  have key : ∀ {l1 l2 : List (Key × GVal α)}, l1.Perm l2 → deAlphaRaw g f d (.map l1) = .ok r → deAlphaRaw g f d (.map l2) = .ok r := by
    intro l1 l2 hp h1
    simp only [deAlphaRaw] at h1 ⊢
    cases hf : foldRes (alphaMapStep g f d) (d.fields.map fun _ => none, none) l1 with
    | error e => simp [hf] at h1
    | ok st =>
      rw [foldRes_perm _ (alphaMapStep_comm g f d) hp _ _ hf]
      simpa [hf] using h1
  exact ⟨key h, key h.symm⟩

/-- as one equation: the value, or the fact of failure, does not depend on the order of the entries
    (*which* error is reported may: see the example at the end) -/
theorem deColor_perm_toOption (tr : Bool) (f : Fmt) (d : Desc) {es es' : List (Key × GVal α)} (h : es.Perm es') :
    (deColor tr f d (.map es)).toOption = (deColor tr f d (.map es')).toOption := by
  cases h1 : deColor tr f d (.map es) with
  | ok c => rw [(deColor_perm tr f d h c).mp h1]
  | error e =>
    cases h2 : deColor tr f d (.map es') with
    | ok c => rw [(deColor_perm tr f d h c).mpr h2] at h1; cases h1
    | error e' => rfl

theorem deAlphaRaw_perm_toOption (g : Cfg) (f : Fmt) (d : Desc) {es es' : List (Key × GVal α)} (h : es.Perm es') :
    (deAlphaRaw g f d (.map es)).toOption = (deAlphaRaw g f d (.map es')).toOption := by
  cases h1 : deAlphaRaw g f d (.map es) with
  | ok c => rw [(deAlphaRaw_perm g f d h c).mp h1]
  | error e =>
    cases h2 : deAlphaRaw g f d (.map es') with
    | ok c => rw [(deAlphaRaw_perm g f d h c).mpr h2] at h1; cases h1
    | error e' => rfl

/-- `Alpha::deserialize` / `PreAlpha::deserialize` and the optional-alpha helpers inherit it -/
theorem deAlpha_perm (g : Cfg) (f : Fmt) (d : Desc) {es es' : List (Key × GVal α)} (h : es.Perm es') (r : List α × α) :
    deAlpha g f d (.map es) = .ok r ↔ deAlpha g f d (.map es') = .ok r := by
  have key : ∀ {l1 l2 : List (Key × GVal α)}, l1.Perm l2 → deAlpha g f d (.map l1) = .ok r → deAlpha g f d (.map l2) = .ok r := by
    intro l1 l2 hp h1
    unfold deAlpha at h1 ⊢
    cases hr : deAlphaRaw g f d (.map l1) with
    | error e => simp [hr] at h1
    | ok p => rw [(deAlphaRaw_perm g f d hp p).mp hr]; simpa [hr] using h1
  exact ⟨key h, key h.symm⟩

theorem deAlphaOpt_perm (g : Cfg) (f : Fmt) (d : Desc) (mx : α) {es es' : List (Key × GVal α)} (h : es.Perm es') (r : List α × α) :
    deAlphaOpt g f d mx (.map es) = .ok r ↔ deAlphaOpt g f d mx (.map es') = .ok r := by
  have key : ∀ {l1 l2 : List (Key × GVal α)}, l1.Perm l2 → deAlphaOpt g f d mx (.map l1) = .ok r → deAlphaOpt g f d mx (.map l2) = .ok r := by
    intro l1 l2 hp h1
    unfold deAlphaOpt at h1 ⊢
    cases hr : deAlphaRaw g f d (.map l1) with
    | error e => simp [hr] at h1
    | ok p => rw [(deAlphaRaw_perm g f d hp p).mp hr]; simpa [hr] using h1
  exact ⟨key h, key h.symm⟩

/-! ## plain colours: every field list -/

theorem fold_all_names (tr : Bool) (f : Fmt) (d : Desc) (hn : d.names.Nodup) (c : List α) (hc : c.length = d.fields.length) :
    foldRes (mapStep tr f d) (d.fields.map fun _ => none) (entries tr f d.fields c) = .ok (c.map some) := by
  simpa using fold_names tr f d hn d.fields [] [] c (by simp) rfl hc

theorem fold_all_idx (tr : Bool) (f : Fmt) (d : Desc) (c : List α) (hc : c.length = d.fields.length) :
    foldRes (mapStep tr f d) (d.fields.map fun _ => none) (idxEntries tr f 0 d.fields c) = .ok (c.map some) := by
  simpa using fold_idx tr f d d.fields [] [] c (by simp) rfl hc

/-- **struct shape, every field list**: `deserialize (serialize c) = c` for every descriptor with pairwise distinct field
    names, every component list of the right length, every format of the model, transparent hues or not -/
theorem roundtrip_struct (tr : Bool) (f : Fmt) (d : Desc) (hn : d.names.Nodup) (c : List α) (hc : c.length = d.fields.length) :
    deColor tr f d (present f (serColor tr d c)) = .ok c := by
  rw [present_serColor]
  simp only [deColor, fold_all_names tr f d hn c hc, collect_all _ _ hc]

/-- … **with the keys in any order** -/
theorem roundtrip_struct_any_order (tr : Bool) (f : Fmt) (d : Desc) (hn : d.names.Nodup) (c : List α) (hc : c.length = d.fields.length)
    {es : List (Key × GVal α)} (h : es.Perm (entries tr f d.fields c)) : deColor tr f d (.map es) = .ok c :=
  (deColor_perm tr f d h c).mpr (by rw [← present_serColor]; exact roundtrip_struct tr f d hn c hc)

/-- **sequence shape, every field list** (no condition on the names), in every format that reads a struct from a sequence -/
theorem roundtrip_seq (tr : Bool) (f : Fmt) (hf : f.structFromSeq = true) (d : Desc) (c : List α) (hc : c.length = d.fields.length) :
    deColor tr f d (presentSeq f (serColor tr d c)) = .ok c := by
  rw [presentSeq_serColor]
  have := seqFields_values tr f d.fields c hc 0 []
  simp only [List.append_nil] at this
  simp only [deColor, hf, ↓reduceIte, this]

/-- … and a format that does not (RON) refuses it, as modelled -/
theorem seq_refused (tr : Bool) (f : Fmt) (hf : f.structFromSeq = false) (d : Desc) (c : List α) :
    deColor tr f d (presentSeq f (serColor tr d c)) = .error .invalidType := by
  rw [presentSeq_serColor]; simp [deColor, hf]

/-- **by-index identifiers, every field list** (no condition on the names) -/
theorem roundtrip_idx (tr : Bool) (f : Fmt) (d : Desc) (c : List α) (hc : c.length = d.fields.length) :
    deColor tr f d (presentIdx f (serColor tr d c)) = .ok c := by
  rw [presentIdx_serColor]
  simp only [deColor, fold_all_idx tr f d c hc, collect_all _ _ hc]

/-! ## `Alpha<C>` / `PreAlpha<C>`: every field list -/

/-- what a format shows of `Alpha<C>`: the colour's entries and one more, the alpha, at the same level -/
theorem present_serAlpha (g : Cfg) (f : Fmt) (d : Desc) (c : List α) (a : α) :
    (serAlpha g d c a).map (present f) =
      some (.map (entries g.hueTransparent f d.fields c ++ [(.str g.serStructKey, .num a)])) := by
  simp [serAlpha, serColor, alphaSer, present, entries, List.map_zipWith, presentVal]

theorem presentSeq_serAlpha (g : Cfg) (f : Fmt) (d : Desc) (c : List α) (a : α) :
    (serAlpha g d c a).map (presentSeq f) = some (.seq (values g.hueTransparent f d.fields c ++ [.num a])) := by
  simp [serAlpha, serColor, alphaSer, presentSeq, values, List.map_zipWith, presentVal]

theorem zipIdx_values_length (tr : Bool) (f : Fmt) (fl : List Field) (c : List α) (hc : c.length = fl.length) :
    (values tr f fl c).length = fl.length := by
  simp [values, hc]

theorem presentIdx_serAlpha (g : Cfg) (f : Fmt) (d : Desc) (c : List α) (hc : c.length = d.fields.length) (a : α) :
    (serAlpha g d c a).map (presentIdx f) =
      some (.map (idxEntries g.hueTransparent f 0 d.fields c ++ [(.idx d.fields.length, .num a)])) := by
  have h1 : presentIdx f (serColor g.hueTransparent d c) = .map (idxEntries g.hueTransparent f 0 d.fields c) :=
    presentIdx_serColor _ _ _ _
  have hl : (List.zipWith (fun f x => (f.name, encField g.hueTransparent f x)) d.fields c).length = d.fields.length := by simp [hc]
  simp only [serColor, presentIdx, GTree.map.injEq] at h1
  simp only [serAlpha, serColor, alphaSer, Option.map_some, presentIdx, List.zipIdx_append, List.map_append, hl,
    List.zipIdx_cons, List.zipIdx_nil, List.map_cons, List.map_nil, Nat.zero_add]
  rw [h1]
  rfl

theorem entries_keys (tr : Bool) (f : Fmt) (fl : List Field) (c : List α) :
    ∀ kv ∈ entries tr f fl c, ∃ fd ∈ fl, kv.1 = .str fd.name := by
  induction fl generalizing c with
  | nil => simp [entries]
  | cons fd fl ih =>
    cases c with
    | nil => simp [entries]
    | cons x c =>
      intro kv hkv
      simp only [entries, List.zipWith, List.mem_cons] at hkv
      rcases hkv with rfl | hkv
      · exact ⟨fd, List.mem_cons_self, rfl⟩
      · obtain ⟨fd', h1, h2⟩ := ih c kv hkv
        exact ⟨fd', List.mem_cons_of_mem _ h1, h2⟩

theorem idxEntries_keys (tr : Bool) (f : Fmt) (off : Nat) (fl : List Field) (c : List α) :
    ∀ kv ∈ idxEntries tr f off fl c, ∃ i, kv.1 = .idx i ∧ i < off + fl.length := by
  induction fl generalizing c off with
  | nil => simp [idxEntries, values]
  | cons fd fl ih =>
    cases c with
    | nil => simp [idxEntries, values]
    | cons x c =>
      intro kv hkv
      simp only [idxEntries, values, List.zipWith, List.zipIdx_cons, List.map_cons, List.mem_cons] at hkv
      rcases hkv with rfl | hkv
      · exact ⟨off, rfl, by simp⟩
      · obtain ⟨i, h1, h2⟩ := ih (off + 1) c kv hkv
        exact ⟨i, h1, by simp only [List.length_cons]; omega⟩

/-- under `MapWrapper`, entries that are not the alpha go to the colour's own loop unchanged -/
theorem alphaFold_lift (g : Cfg) (f : Fmt) (d : Desc) (es : List (Key × GVal α))
    (hes : ∀ kv ∈ es, isAlphaKey g d.fields.length kv.1 = false) (s : List (Option α)) (a0 : Option α) :
    foldRes (alphaMapStep g f d) (s, a0) es =
      (match foldRes (mapStep g.hueTransparent f d) s es with | .ok s' => .ok (s', a0) | .error e => .error e) := by
  induction es generalizing s with
  | nil => rfl
  | cons kv es ih =>
    have hk := hes kv List.mem_cons_self
    simp only [foldRes, alphaMapStep, hk, Bool.false_eq_true, ↓reduceIte]
    cases mapStep g.hueTransparent f d s kv with
    | error e => rfl
    | ok s1 => exact ih (fun kv h => hes kv (List.mem_cons_of_mem _ h)) s1

theorem names_not_alpha (g : Cfg) (d : Desc) (hw : d.WF g) (tr : Bool) (f : Fmt) (c : List α) :
    ∀ kv ∈ entries tr f d.fields c, isAlphaKey g d.fields.length kv.1 = false := by
  intro kv hkv
  obtain ⟨fd, hfd, hk⟩ := entries_keys tr f d.fields c kv hkv
  rw [hk]
  simp only [isAlphaKey, beq_eq_false_iff_ne, ne_eq]
  intro he
  exact hw.2 (he ▸ List.mem_map_of_mem hfd)

theorem idx_not_alpha (g : Cfg) (d : Desc) (tr : Bool) (f : Fmt) (c : List α) :
    ∀ kv ∈ idxEntries tr f 0 d.fields c, isAlphaKey g d.fields.length kv.1 = false := by
  intro kv hkv
  obtain ⟨i, hk, hi⟩ := idxEntries_keys tr f 0 d.fields c kv hkv
  rw [hk]
  simp only [isAlphaKey, beq_eq_false_iff_ne, ne_eq]
  omega

/-- the colour's own output under `AlphaDeserializer`: the colour, and no alpha seen (struct shape) -/
theorem deAlphaRaw_no_alpha (g : Cfg) (f : Fmt) (d : Desc) (hw : d.WF g) (c : List α) (hc : c.length = d.fields.length) :
    deAlphaRaw g f d (present f (serColor g.hueTransparent d c)) = .ok (c, none) := by
  rw [present_serColor]
  simp only [deAlphaRaw, alphaFold_lift g f d _ (names_not_alpha g d hw _ f c), fold_all_names _ f d hw.1 c hc, collect_all _ _ hc]

/-- `Alpha<C>`'s output under `AlphaDeserializer`: the colour and the alpha (struct shape) -/
theorem deAlphaRaw_with_alpha (g : Cfg) (hg : g.WF) (f : Fmt) (d : Desc) (hw : d.WF g) (c : List α) (hc : c.length = d.fields.length) (a : α) :
    deAlphaRaw g f d (.map (entries g.hueTransparent f d.fields c ++ [(.str g.serStructKey, .num a)])) = .ok (c, some a) := by
  have hg' : g.serStructKey = g.deStrKey := hg
  have hk : isAlphaKey g d.fields.length (.str g.serStructKey) = true := by simp [isAlphaKey, hg']
  simp only [deAlphaRaw, foldRes_append, alphaFold_lift g f d _ (names_not_alpha g d hw _ f c), fold_all_names _ f d hw.1 c hc,
    foldRes, alphaMapStep, hk, ↓reduceIte, Option.isSome_none, Bool.false_eq_true, decodeNum, collect_all _ _ hc]

theorem deAlphaRaw_with_alpha_idx (g : Cfg) (f : Fmt) (d : Desc) (c : List α) (hc : c.length = d.fields.length) (a : α) :
    deAlphaRaw g f d (.map (idxEntries g.hueTransparent f 0 d.fields c ++ [(.idx d.fields.length, .num a)])) = .ok (c, some a) := by
  have hk : isAlphaKey g d.fields.length (.idx d.fields.length) = true := by simp [isAlphaKey]
  simp only [deAlphaRaw, foldRes_append, alphaFold_lift g f d _ (idx_not_alpha g d _ f c), fold_all_idx _ f d c hc,
    foldRes, alphaMapStep, hk, ↓reduceIte, Option.isSome_none, Bool.false_eq_true, decodeNum, collect_all _ _ hc]

theorem map_through {β γ δ : Type} {p : β → γ} (de : γ → δ) {o : Option β} {t : γ} (h : o.map p = some t) :
    (o.map fun x => de (p x)) = some (de t) := by
  cases o with
  | none => simp at h
  | some x => simp only [Option.map_some, Option.some.injEq] at h ⊢; rw [h]

/-- **`Alpha<C>` / `PreAlpha<C>`, struct shape, every field list**: for every configuration whose written and read alpha
    keys agree and every well-formed descriptor -/
theorem roundtrip_alpha_struct (g : Cfg) (hg : g.WF) (f : Fmt) (d : Desc) (hw : d.WF g) (c : List α) (hc : c.length = d.fields.length) (a : α) :
    ((serAlpha g d c a).map fun t => deAlpha g f d (present f t)) = some (.ok (c, a)) := by
  have h := present_serAlpha g f d c a
  rw [map_through (deAlpha g f d) h]
  simp only [deAlpha, deAlphaRaw_with_alpha g hg f d hw c hc a]

/-- … **with the keys in any order** (the alpha anywhere among the colour's fields) -/
theorem roundtrip_alpha_struct_any_order (g : Cfg) (hg : g.WF) (f : Fmt) (d : Desc) (hw : d.WF g) (c : List α) (hc : c.length = d.fields.length)
    (a : α) {es : List (Key × GVal α)} (h : es.Perm (entries g.hueTransparent f d.fields c ++ [(.str g.serStructKey, .num a)])) :
    deAlpha g f d (.map es) = .ok (c, a) :=
  (deAlpha_perm g f d h (c, a)).mpr (by simp only [deAlpha, deAlphaRaw_with_alpha g hg f d hw c hc a])

/-- the colour's `visit_seq` inside `AlphaMapVisitor::visit_seq`, then one more element -/
theorem deAlphaRaw_seq (g : Cfg) (f : Fmt) (hf : f.structFromSeq = true) (d : Desc) (c : List α) (hc : c.length = d.fields.length) (a : α) :
    deAlphaRaw g f d (.seq (values g.hueTransparent f d.fields c ++ [.num a])) = .ok (c, some a) := by
  simp only [deAlphaRaw, hf, ↓reduceIte, seqFields_values _ f d.fields c hc 0 [.num a], decodeNum]

theorem deAlphaRaw_seq_no_alpha (g : Cfg) (f : Fmt) (hf : f.structFromSeq = true) (d : Desc) (c : List α) (hc : c.length = d.fields.length) :
    deAlphaRaw g f d (presentSeq f (serColor g.hueTransparent d c)) = .ok (c, none) := by
  rw [presentSeq_serColor]
  have := seqFields_values g.hueTransparent f d.fields c hc 0 []
  simp only [List.append_nil] at this
  simp only [deAlphaRaw, hf, ↓reduceIte, this]

/-- **`Alpha<C>` / `PreAlpha<C>`, sequence shape, every field list** (no condition on the names): the alpha is the last element -/
theorem roundtrip_alpha_seq (g : Cfg) (f : Fmt) (hf : f.structFromSeq = true) (d : Desc) (c : List α) (hc : c.length = d.fields.length) (a : α) :
    ((serAlpha g d c a).map fun t => deAlpha g f d (presentSeq f t)) = some (.ok (c, a)) := by
  have h := presentSeq_serAlpha g f d c a
  rw [map_through (deAlpha g f d) h]
  simp only [deAlpha, deAlphaRaw_seq g f hf d c hc a]

/-- **`Alpha<C>` / `PreAlpha<C>`, by-index identifiers, every field list**: the alpha is index `n` -/
theorem roundtrip_alpha_idx (g : Cfg) (f : Fmt) (d : Desc) (c : List α) (hc : c.length = d.fields.length) (a : α) :
    ((serAlpha g d c a).map fun t => deAlpha g f d (presentIdx f t)) = some (.ok (c, a)) := by
  have h := presentIdx_serAlpha g f d c hc a
  rw [map_through (deAlpha g f d) h]
  simp only [deAlpha, deAlphaRaw_with_alpha_idx g f d c hc a]

/-! ## missing alpha -/

/-- **data without an alpha field**: `deserialize_with_optional_alpha` / `…_pre_alpha` give the colour with the default
    (`mx`; `optional_alpha_default_is_full_opacity` says it is `max_intensity`), struct shape with the keys in any order -/
theorem optional_alpha_absent (g : Cfg) (f : Fmt) (d : Desc) (hw : d.WF g) (c : List α) (hc : c.length = d.fields.length) (mx : α)
    {es : List (Key × GVal α)} (h : es.Perm (entries g.hueTransparent f d.fields c)) :
    deAlphaOpt g f d mx (.map es) = .ok (c, mx) := by
  refine (deAlphaOpt_perm g f d mx h (c, mx)).mpr ?_
  have := deAlphaRaw_no_alpha g f d hw c hc
  rw [present_serColor] at this
  simp only [deAlphaOpt, this, Option.getD_none]

/-- … and in the sequence shape -/
theorem optional_alpha_absent_seq (g : Cfg) (f : Fmt) (hf : f.structFromSeq = true) (d : Desc) (c : List α) (hc : c.length = d.fields.length) (mx : α) :
    deAlphaOpt g f d mx (presentSeq f (serColor g.hueTransparent d c)) = .ok (c, mx) := by
  simp only [deAlphaOpt, deAlphaRaw_seq_no_alpha g f hf d c hc, Option.getD_none]

/-- when the alpha is there the helpers return it (struct shape, any order; sequence shape) -/
theorem optional_alpha_present (g : Cfg) (hg : g.WF) (f : Fmt) (d : Desc) (hw : d.WF g) (c : List α) (hc : c.length = d.fields.length) (a mx : α)
    {es : List (Key × GVal α)} (h : es.Perm (entries g.hueTransparent f d.fields c ++ [(.str g.serStructKey, .num a)])) :
    deAlphaOpt g f d mx (.map es) = .ok (c, a) :=
  (deAlphaOpt_perm g f d mx h (c, a)).mpr (by simp only [deAlphaOpt, deAlphaRaw_with_alpha g hg f d hw c hc a, Option.getD_some])

theorem optional_alpha_present_seq (g : Cfg) (f : Fmt) (hf : f.structFromSeq = true) (d : Desc) (c : List α) (hc : c.length = d.fields.length) (a mx : α) :
    ((serAlpha g d c a).map fun t => deAlphaOpt g f d mx (presentSeq f t)) = some (.ok (c, a)) := by
  have h := presentSeq_serAlpha g f d c a
  rw [map_through (deAlphaOpt g f d mx) h]
  simp only [deAlphaOpt, deAlphaRaw_seq g f hf d c hc a, Option.getD_some]

/-- **`Alpha::deserialize` / `PreAlpha::deserialize` refuse data without alpha**: `missing field` with the configured
    name, whatever the order of the colour's fields -/
theorem alpha_required (g : Cfg) (f : Fmt) (d : Desc) (hw : d.WF g) (c : List α) (hc : c.length = d.fields.length)
    {es : List (Key × GVal α)} (h : es.Perm (entries g.hueTransparent f d.fields c)) :
    deAlpha g f d (.map es) = .error (.missingField g.missingName) := by
  have h0 := deAlphaRaw_no_alpha g f d hw c hc
  rw [present_serColor] at h0
  have := (deAlphaRaw_perm g f d h (c, none)).mpr h0
  simp only [deAlpha, this]

theorem alpha_required_seq (g : Cfg) (f : Fmt) (hf : f.structFromSeq = true) (d : Desc) (c : List α) (hc : c.length = d.fields.length) :
    deAlpha g f d (presentSeq f (serColor g.hueTransparent d c)) = .error (.missingField g.missingName) := by
  simp only [deAlpha, deAlphaRaw_seq_no_alpha g f hf d c hc]

/-! ## unknown fields are skipped (as modelled: `__ignore` / `IgnoredAny`) -/

theorem fieldIndex_str_none (names : List String) (s : String) : fieldIndex names (.str s) = none ↔ s ∉ names := by
  simp only [fieldIndex]
  rw [← List.idxOf_lt_length_iff]
  split <;> simp_all

/-- an entry whose key addresses no field can be dropped from any map, anywhere -/
theorem unknown_skipped (tr : Bool) (f : Fmt) (d : Desc) (l1 l2 : List (Key × GVal α)) (k : Key) (v : GVal α)
    (hk : fieldIndex d.names k = none) : deColor tr f d (.map (l1 ++ (k, v) :: l2)) = deColor tr f d (.map (l1 ++ l2)) := by
  simp only [deColor, foldRes_append]
  cases foldRes (mapStep tr f d) (d.fields.map fun _ => none) l1 with
  | error e => rfl
  | ok s => simp only [foldRes, mapStep, hk]

/-- under `AlphaDeserializer` likewise, if it is not the alpha key either -/
theorem unknown_skipped_alpha (g : Cfg) (f : Fmt) (d : Desc) (l1 l2 : List (Key × GVal α)) (k : Key) (v : GVal α)
    (hk : fieldIndex d.names k = none) (ha : isAlphaKey g d.fields.length k = false) :
    deAlphaRaw g f d (.map (l1 ++ (k, v) :: l2)) = deAlphaRaw g f d (.map (l1 ++ l2)) := by
  simp only [deAlphaRaw, foldRes_append]
  cases foldRes (alphaMapStep g f d) (d.fields.map fun _ => none, none) l1 with
  | error e => rfl
  | ok s => simp only [foldRes, alphaMapStep, ha, Bool.false_eq_true, ↓reduceIte, mapStep, hk]

/-! ## duplicates are errors -/

theorem foldRes_append_ok {σ β : Type} (step : σ → β → Res σ) (s s' : σ) (l1 l2 : List β) :
    foldRes step s (l1 ++ l2) = .ok s' ↔ ∃ s1, foldRes step s l1 = .ok s1 ∧ foldRes step s1 l2 = .ok s' := by
  rw [foldRes_append]
  cases foldRes step s l1 with
  | ok s1 => simp
  | error e => simp

/-- a successful turn keeps the number of slots and never empties one -/
theorem mapStep_mono (tr : Bool) (f : Fmt) (d : Desc) (s s' : List (Option α)) (kv : Key × GVal α) (h : mapStep tr f d s kv = .ok s') :
    s'.length = s.length ∧ ∀ j, (getSlot s j).isSome = true → (getSlot s' j).isSome = true := by
  rw [mapStep_ok_iff] at h
  rcases h with ⟨_, rfl⟩ | ⟨i, fd, x, _, gi, _, rfl⟩
  · exact ⟨rfl, fun _ h => h⟩
  · refine ⟨by simp, fun j hj => ?_⟩
    rw [getSlot_set]
    by_cases hij : i = j
    · subst hij; rw [gi] at hj; simp at hj
    · simpa [hij] using hj

theorem fold_mono (tr : Bool) (f : Fmt) (d : Desc) (es : List (Key × GVal α)) (s s' : List (Option α))
    (h : foldRes (mapStep tr f d) s es = .ok s') :
    s'.length = s.length ∧ ∀ j, (getSlot s j).isSome = true → (getSlot s' j).isSome = true := by
  induction es generalizing s with
  | nil => simp only [foldRes, Except.ok.injEq] at h; subst h; exact ⟨rfl, fun _ h => h⟩
  | cons kv es ih =>
    obtain ⟨s1, h1, h2⟩ := (foldRes_cons_ok _ _ _ _ _).mp h
    obtain ⟨l1, m1⟩ := mapStep_mono tr f d s s1 kv h1
    obtain ⟨l2, m2⟩ := ih s1 h2
    exact ⟨l2.trans l1, fun j hj => m2 j (m1 j hj)⟩

theorem target_lt (d : Desc) (k : Key) (i : Nat) (fd : Field) (h : target d k = some (i, fd)) : i < d.fields.length ∧ d.fields[i]? = some fd := by
  unfold target at h
  cases hi : fieldIndex d.names k with
  | none => simp [hi] at h
  | some i' =>
    cases hf : d.fields[i']? with
    | none => simp [hi, hf] at h
    | some fd' =>
      simp only [hi, hf, Option.bind_some, Option.map_some, Option.some.injEq, Prod.mk.injEq] at h
      obtain ⟨rfl, rfl⟩ := h
      exact ⟨(List.getElem?_eq_some_iff.mp hf).1, hf⟩

/-- **a field given twice is never accepted**: two entries addressing the same field (by name, by position, or one each),
    anywhere in any map, whatever else it contains -/
theorem duplicate_never_ok (tr : Bool) (f : Fmt) (d : Desc) (l1 l2 l3 : List (Key × GVal α)) (k1 k2 : Key) (v1 v2 : GVal α)
    (i : Nat) (fd1 fd2 : Field) (h1 : target d k1 = some (i, fd1)) (h2 : target d k2 = some (i, fd2)) (c : List α) :
    deColor tr f d (.map (l1 ++ (k1, v1) :: (l2 ++ (k2, v2) :: l3))) ≠ .ok c := by
  intro h
  simp only [deColor] at h
  cases hf : foldRes (mapStep tr f d) (d.fields.map fun _ => none) (l1 ++ (k1, v1) :: (l2 ++ (k2, v2) :: l3)) with
  | error e => simp [hf] at h
  | ok slots =>
    obtain ⟨s1, e1, hf⟩ := (foldRes_append_ok ..).mp hf
    obtain ⟨s2, e2, hf⟩ := (foldRes_cons_ok ..).mp hf
    obtain ⟨s3, e3, hf⟩ := (foldRes_append_ok ..).mp hf
    obtain ⟨s4, e4, _⟩ := (foldRes_cons_ok ..).mp hf
    have len1 : s1.length = d.fields.length := by simpa using (fold_mono tr f d l1 _ s1 e1).1
    rw [mapStep_ok_iff] at e2 e4
    rcases e2 with ⟨t, _⟩ | ⟨i', fd', x, t, _, _, rfl⟩
    · rw [h1] at t; cases t
    · rw [h1] at t; cases t
      have set2 : (getSlot (s1.set i (some x)) i).isSome = true := by
        rw [getSlot_set]; simp [len1, (target_lt d k1 i fd1 h1).1]
      have set3 := (fold_mono tr f d l2 _ s3 e3).2 i set2
      rcases e4 with ⟨t, _⟩ | ⟨i', fd', y, t, g3, _, _⟩
      · rw [h2] at t; cases t
      · rw [h2] at t; cases t
        rw [g3] at set3; cases set3

theorem collect_ok_slots (fl : List Field) (slots : List (Option α)) (c : List α) (h : collect fl slots = .ok c) :
    ∀ i, i < fl.length → (getSlot slots i).isSome = true := by
  induction fl generalizing slots c with
  | nil => intro i hi; simp at hi
  | cons fd fl ih =>
    intro i hi
    cases slots with
    | nil => simp [collect] at h
    | cons o slots =>
      cases o with
      | none => simp [collect] at h
      | some x =>
        simp only [collect, List.head?_cons, Option.join_some, List.tail_cons] at h
        cases hr : collect fl slots with
        | error e => simp [hr] at h
        | ok xs =>
          cases i with
          | zero => simp [getSlot]
          | succ i =>
            have := ih slots xs hr i (by simpa using hi)
            simpa [getSlot] using this

/-- **the error is `duplicate field <name>`**: an entry addressing a field, after a map that was complete and valid on its
    own (for instance any permutation of a serializer's output), gives exactly that error with that field's name -/
theorem duplicate_after_complete (tr : Bool) (f : Fmt) (d : Desc) (es : List (Key × GVal α)) (c : List α)
    (hok : deColor tr f d (.map es) = .ok c) (k : Key) (v : GVal α) (i : Nat) (fd : Field) (ht : target d k = some (i, fd)) :
    deColor tr f d (.map (es ++ [(k, v)])) = .error (.duplicateField fd.name) := by
  simp only [deColor] at hok
  cases hf : foldRes (mapStep tr f d) (d.fields.map fun _ => none) es with
  | error e => simp [hf] at hok
  | ok slots =>
    simp only [hf] at hok
    have hs := collect_ok_slots d.fields slots c hok i (target_lt d k i fd ht).1
    unfold target at ht
    cases hi : fieldIndex d.names k with
    | none => simp [hi] at ht
    | some i' =>
      cases hfd : d.fields[i']? with
      | none => simp [hi, hfd] at ht
      | some fd' =>
        simp only [hi, hfd, Option.bind_some, Option.map_some, Option.some.injEq, Prod.mk.injEq] at ht
        obtain ⟨rfl, rfl⟩ := ht
        simp only [deColor, foldRes_append, hf, foldRes, mapStep, hi, hfd, hs, ↓reduceIte]

/-- a second alpha, after a map in which `AlphaDeserializer` had already found one, is `duplicate field` with the
    configured name -/
theorem duplicate_alpha_after_complete (g : Cfg) (f : Fmt) (d : Desc) (es : List (Key × GVal α)) (c : List α) (a : α)
    (hok : deAlphaRaw g f d (.map es) = .ok (c, some a)) (k : Key) (v : GVal α) (hk : isAlphaKey g d.fields.length k = true) :
    deAlphaRaw g f d (.map (es ++ [(k, v)])) = .error (.duplicateField g.deDupName) := by
  simp only [deAlphaRaw] at hok
  cases hf : foldRes (alphaMapStep g f d) (d.fields.map fun _ => none, none) es with
  | error e => simp [hf] at hok
  | ok st =>
    obtain ⟨slots, a'⟩ := st
    simp only [hf] at hok
    cases hc : collect d.fields slots with
    | error e => simp [hc] at hok
    | ok c' =>
      simp only [hc, Except.ok.injEq, Prod.mk.injEq] at hok
      obtain ⟨_, rfl⟩ := hok
      simp only [deAlphaRaw, foldRes_append, hf, foldRes, alphaMapStep, hk, ↓reduceIte, Option.isSome_some]

/-- once an alpha has been seen it stays seen -/
theorem alphaFold_keeps (g : Cfg) (f : Fmt) (d : Desc) (es : List (Key × GVal α)) (st st' : List (Option α) × Option α)
    (h : foldRes (alphaMapStep g f d) st es = .ok st') : st.2.isSome = true → st'.2.isSome = true := by
  induction es generalizing st with
  | nil => simp only [foldRes, Except.ok.injEq] at h; subst h; exact id
  | cons kv es ih =>
    obtain ⟨s1, h1, h2⟩ := (foldRes_cons_ok _ _ _ _ _).mp h
    intro hs
    apply ih s1 h2
    rw [alphaMapStep_ok_iff] at h1
    rcases h1 with ⟨_, hn, _⟩ | ⟨_, s, _, rfl⟩
    · rw [hn] at hs; cases hs
    · exact hs

/-- **two alphas are never accepted**, wherever they stand -/
theorem duplicate_alpha_never_ok (g : Cfg) (f : Fmt) (d : Desc) (l1 l2 l3 : List (Key × GVal α)) (k1 k2 : Key) (v1 v2 : GVal α)
    (h1 : isAlphaKey g d.fields.length k1 = true) (h2 : isAlphaKey g d.fields.length k2 = true) (r : List α × Option α) :
    deAlphaRaw g f d (.map (l1 ++ (k1, v1) :: (l2 ++ (k2, v2) :: l3))) ≠ .ok r := by
  intro h
  simp only [deAlphaRaw] at h
  cases hf : foldRes (alphaMapStep g f d) (d.fields.map fun _ => none, none) (l1 ++ (k1, v1) :: (l2 ++ (k2, v2) :: l3)) with
  | error e => simp [hf] at h
  | ok slots =>
    obtain ⟨s1, _, hf⟩ := (foldRes_append_ok ..).mp hf
    obtain ⟨s2, e2, hf⟩ := (foldRes_cons_ok ..).mp hf
    obtain ⟨s3, e3, hf⟩ := (foldRes_append_ok ..).mp hf
    obtain ⟨s4, e4, _⟩ := (foldRes_cons_ok ..).mp hf
    rw [alphaMapStep_ok_iff] at e2 e4
    rcases e2 with ⟨_, _, a, _, rfl⟩ | ⟨hk, _⟩
    · have := alphaFold_keeps g f d l2 _ s3 e3 rfl
      rcases e4 with ⟨_, hn, _⟩ | ⟨hk, _⟩
      · rw [hn] at this; cases this
      · rw [h2] at hk; cases hk
    · rw [h1] at hk; cases hk

theorem alphaStep_mono (g : Cfg) (f : Fmt) (d : Desc) (st st' : List (Option α) × Option α) (kv : Key × GVal α)
    (h : alphaMapStep g f d st kv = .ok st') :
    st'.1.length = st.1.length ∧ ∀ j, (getSlot st.1 j).isSome = true → (getSlot st'.1 j).isSome = true := by
  rw [alphaMapStep_ok_iff] at h
  rcases h with ⟨_, _, a, _, rfl⟩ | ⟨_, s, hm, rfl⟩
  · exact ⟨rfl, fun _ h => h⟩
  · exact mapStep_mono _ f d st.1 s kv hm

theorem alphaFold_mono (g : Cfg) (f : Fmt) (d : Desc) (es : List (Key × GVal α)) (st st' : List (Option α) × Option α)
    (h : foldRes (alphaMapStep g f d) st es = .ok st') :
    st'.1.length = st.1.length ∧ ∀ j, (getSlot st.1 j).isSome = true → (getSlot st'.1 j).isSome = true := by
  induction es generalizing st with
  | nil => simp only [foldRes, Except.ok.injEq] at h; subst h; exact ⟨rfl, fun _ h => h⟩
  | cons kv es ih =>
    obtain ⟨s1, h1, h2⟩ := (foldRes_cons_ok _ _ _ _ _).mp h
    obtain ⟨l1, m1⟩ := alphaStep_mono g f d st s1 kv h1
    obtain ⟨l2, m2⟩ := ih s1 h2
    exact ⟨l2.trans l1, fun j hj => m2 j (m1 j hj)⟩

/-- a colour field given twice is never accepted under `AlphaDeserializer` either -/
theorem duplicate_never_ok_alpha (g : Cfg) (f : Fmt) (d : Desc) (l1 l2 l3 : List (Key × GVal α)) (k1 k2 : Key) (v1 v2 : GVal α)
    (a1 : isAlphaKey g d.fields.length k1 = false) (a2 : isAlphaKey g d.fields.length k2 = false)
    (i : Nat) (fd1 fd2 : Field) (h1 : target d k1 = some (i, fd1)) (h2 : target d k2 = some (i, fd2)) (r : List α × Option α) :
    deAlphaRaw g f d (.map (l1 ++ (k1, v1) :: (l2 ++ (k2, v2) :: l3))) ≠ .ok r := by
  intro h
  simp only [deAlphaRaw] at h
  cases hf : foldRes (alphaMapStep g f d) (d.fields.map fun _ => none, none) (l1 ++ (k1, v1) :: (l2 ++ (k2, v2) :: l3)) with
  | error e => simp [hf] at h
  | ok slots =>
    obtain ⟨s1, e1, hf⟩ := (foldRes_append_ok ..).mp hf
    obtain ⟨s2, e2, hf⟩ := (foldRes_cons_ok ..).mp hf
    obtain ⟨s3, e3, hf⟩ := (foldRes_append_ok ..).mp hf
    obtain ⟨s4, e4, _⟩ := (foldRes_cons_ok ..).mp hf
    have len1 : s1.1.length = d.fields.length := by simpa using (alphaFold_mono g f d l1 _ s1 e1).1
    rw [alphaMapStep_ok_iff] at e2 e4
    rcases e2 with ⟨hk, _⟩ | ⟨_, t2, e2, rfl⟩
    · rw [a1] at hk; cases hk
    rcases e4 with ⟨hk, _⟩ | ⟨_, t4, e4, _⟩
    · rw [a2] at hk; cases hk
    rw [mapStep_ok_iff] at e2 e4
    rcases e2 with ⟨t, _⟩ | ⟨i', fd', x, t, _, _, rfl⟩
    · rw [h1] at t; cases t
    · rw [h1] at t; cases t
      have set2 : (getSlot (s1.1.set i (some x)) i).isSome = true := by
        rw [getSlot_set]; simp [len1, (target_lt d k1 i fd1 h1).1]
      have set3 := (alphaFold_mono g f d l2 _ s3 e3).2 i set2
      rcases e4 with ⟨t, _⟩ | ⟨i', fd', y, t, g3, _, _⟩
      · rw [h2] at t; cases t
      · rw [h2] at t; cases t
        rw [g3] at set3; cases set3

/-! ## non-vacuity, and the hypotheses are needed -/

/-- a descriptor that is not in the table: five fields, two of them hues, in odd places -/
def odd : Desc := { name := "Odd", fields := [⟨"h1", some "RgbHue"⟩, ⟨"a", none⟩, ⟨"h2", some "LabHue"⟩, ⟨"b", none⟩, ⟨"c", none⟩] }
example : odd ∉ colors ∧ odd.WF cfgAlpha ∧ odd.WF cfgPreAlpha := by decide
example : C20.hsv.WF cfgAlpha := by decide
example : ([1, 2, 3, 4, 5] : List Nat).length = odd.fields.length := rfl
/-- the general theorem at a concrete value, non-transparent hues in RON included -/
example : deColor false ron odd (present ron (serColor false odd ([1, 2, 3, 4, 5] : List Nat))) = .ok [1, 2, 3, 4, 5] :=
  roundtrip_struct false ron odd (by decide) _ rfl
/-- a permutation of the entries (reversed, alpha in the middle) -/
example : deAlpha cfgAlpha json C20.hsv
    (.map [(.str "value", .num 30), (.str "alpha", .num 40), (.str "saturation", .num 20), (.str "hue", .num 10)])
    = .ok (([10, 20, 30] : List Nat), 40) :=
  roundtrip_alpha_struct_any_order (α := Nat) cfgAlpha cfg_wf.1 json C20.hsv (by decide) [10, 20, 30] rfl 40 (by decide)

/-- without pairwise distinct names the round trip fails … -/
def twice : Desc := { name := "Twice", fields := [⟨"x", none⟩, ⟨"x", none⟩] }
example : ¬ twice.names.Nodup ∧
    deColor true json twice (present json (serColor true twice ([1, 2] : List Nat))) = .error (.duplicateField "x") := ⟨by decide, rfl⟩
/-- … and with a field called like the alpha key the round trip through `Alpha` fails (the plain one does not) -/
def clash : Desc := { name := "Clash", fields := [⟨"alpha", none⟩] }
example : ¬ clash.WF cfgAlpha ∧ clash.names.Nodup ∧
    ((serAlpha cfgAlpha clash ([1] : List Nat) 2).map fun t => deAlpha cfgAlpha json clash (present json t))
      = some (.error (.duplicateField "alpha")) := ⟨by decide, by decide, rfl⟩
/-- which error is reported does depend on the order of the entries (so `deColor_perm` is about values and about failing at all) -/
example :
    deColor (α := Nat) true json C20.hsv (.map [(.str "hue", .other "str"), (.str "value", .num 1), (.str "value", .num 2)])
      = .error .invalidType ∧
    deColor (α := Nat) true json C20.hsv (.map [(.str "value", .num 1), (.str "value", .num 2), (.str "hue", .other "str")])
      = .error (.duplicateField "value") := ⟨rfl, rfl⟩
/-- an unknown key anywhere, a duplicate by position after a complete map -/
example : deColor (α := Nat) true json C20.hsv
    (.map ([(.str "hue", .num 1)] ++ (.str "nope", .other "x") :: [(.str "saturation", .num 2), (.str "value", .num 3)])) = .ok [1, 2, 3] := by
  rw [unknown_skipped true json C20.hsv _ _ (.str "nope") _ (by decide)]; rfl
example : deColor (α := Nat) true json C20.hsv
    (.map ([(.str "hue", .num 1), (.str "saturation", .num 2), (.str "value", .num 3)] ++ [(.idx 1, .num 9)]))
    = .error (.duplicateField "saturation") :=
  duplicate_after_complete true json C20.hsv _ [1, 2, 3] rfl (.idx 1) _ 1 ⟨"saturation", none⟩ (by decide)

end C20.General

/-! ## the per-struct theorems of `C20_Serde.lean` as corollaries (same statements, now from the general theorems) -/
namespace C20.Table
open Serde C20.General

variable {α : Type}

theorem roundtrip_plain_struct : ∀ d ∈ colors, ∀ c : List α, c.length = d.fields.length →
    deColor Gen.Serde.hueTransparent json d (present json (serColor Gen.Serde.hueTransparent d c)) = .ok c ∧
    deColor Gen.Serde.hueTransparent ron d (present ron (serColor Gen.Serde.hueTransparent d c)) = .ok c :=
  fun d hd c hc => ⟨roundtrip_struct _ json d (colors_wf d hd).1.1 c hc, roundtrip_struct _ ron d (colors_wf d hd).1.1 c hc⟩

theorem roundtrip_plain_seq : ∀ d ∈ colors, ∀ c : List α, c.length = d.fields.length →
    deColor Gen.Serde.hueTransparent json d (presentSeq json (serColor Gen.Serde.hueTransparent d c)) = .ok c ∧
    deColor Gen.Serde.hueTransparent json d (presentIdx json (serColor Gen.Serde.hueTransparent d c)) = .ok c :=
  fun d _ c hc => ⟨roundtrip_seq _ json rfl d c hc, roundtrip_idx _ json d c hc⟩

theorem roundtrip_alpha_struct : ∀ d ∈ colors, ∀ c : List α, c.length = d.fields.length → ∀ a : α,
    ((serAlpha cfgAlpha d c a).map fun t => deAlpha cfgAlpha json d (present json t)) = some (.ok (c, a)) ∧
    ((serAlpha cfgAlpha d c a).map fun t => deAlpha cfgAlpha ron d (present ron t)) = some (.ok (c, a)) :=
  fun d hd c hc a => ⟨General.roundtrip_alpha_struct cfgAlpha cfg_wf.1 json d (colors_wf d hd).1 c hc a,
    General.roundtrip_alpha_struct cfgAlpha cfg_wf.1 ron d (colors_wf d hd).1 c hc a⟩

theorem roundtrip_alpha_seq : ∀ d ∈ colors, ∀ c : List α, c.length = d.fields.length → ∀ a : α,
    ((serAlpha cfgAlpha d c a).map fun t => deAlpha cfgAlpha json d (presentSeq json t)) = some (.ok (c, a)) ∧
    ((serAlpha cfgAlpha d c a).map fun t => deAlpha cfgAlpha json d (presentIdx json t)) = some (.ok (c, a)) :=
  fun d _ c hc a => ⟨General.roundtrip_alpha_seq cfgAlpha json rfl d c hc a, roundtrip_alpha_idx cfgAlpha json d c hc a⟩

theorem roundtrip_prealpha_struct : ∀ d ∈ colors, ∀ c : List α, c.length = d.fields.length → ∀ a : α,
    ((serAlpha cfgPreAlpha d c a).map fun t => deAlpha cfgPreAlpha json d (present json t)) = some (.ok (c, a)) ∧
    ((serAlpha cfgPreAlpha d c a).map fun t => deAlpha cfgPreAlpha ron d (present ron t)) = some (.ok (c, a)) :=
  fun d hd c hc a => ⟨General.roundtrip_alpha_struct cfgPreAlpha cfg_wf.2 json d (colors_wf d hd).2 c hc a,
    General.roundtrip_alpha_struct cfgPreAlpha cfg_wf.2 ron d (colors_wf d hd).2 c hc a⟩

theorem roundtrip_prealpha_seq : ∀ d ∈ colors, ∀ c : List α, c.length = d.fields.length → ∀ a : α,
    ((serAlpha cfgPreAlpha d c a).map fun t => deAlpha cfgPreAlpha json d (presentSeq json t)) = some (.ok (c, a)) ∧
    ((serAlpha cfgPreAlpha d c a).map fun t => deAlpha cfgPreAlpha json d (presentIdx json t)) = some (.ok (c, a)) :=
  fun d _ c hc a => ⟨General.roundtrip_alpha_seq cfgPreAlpha json rfl d c hc a, roundtrip_alpha_idx cfgPreAlpha json d c hc a⟩

theorem optional_alpha_absent : ∀ d ∈ colors, ∀ c : List α, c.length = d.fields.length → ∀ mx : α,
    deAlphaOpt cfgAlpha json d mx (present json (serColor cfgAlpha.hueTransparent d c)) = .ok (c, mx) ∧
    deAlphaOpt cfgAlpha ron d mx (present ron (serColor cfgAlpha.hueTransparent d c)) = .ok (c, mx) := by
  intro d hd c hc mx
  simp only [present_serColor]
  exact ⟨General.optional_alpha_absent cfgAlpha json d (colors_wf d hd).1 c hc mx (List.Perm.refl _),
    General.optional_alpha_absent cfgAlpha ron d (colors_wf d hd).1 c hc mx (List.Perm.refl _)⟩

theorem optional_alpha_absent_seq_pre : ∀ d ∈ colors, ∀ c : List α, c.length = d.fields.length → ∀ mx : α,
    deAlphaOpt cfgAlpha json d mx (presentSeq json (serColor cfgAlpha.hueTransparent d c)) = .ok (c, mx) ∧
    deAlphaOpt cfgPreAlpha json d mx (present json (serColor cfgAlpha.hueTransparent d c)) = .ok (c, mx) := by
  intro d hd c hc mx
  refine ⟨optional_alpha_absent_seq cfgAlpha json rfl d c hc mx, ?_⟩
  simp only [present_serColor]
  exact General.optional_alpha_absent cfgPreAlpha json d (colors_wf d hd).2 c hc mx (List.Perm.refl _)

theorem optional_alpha_present : ∀ d ∈ colors, ∀ c : List α, c.length = d.fields.length → ∀ a mx : α,
    ((serAlpha cfgAlpha d c a).map fun t => deAlphaOpt cfgAlpha json d mx (present json t)) = some (.ok (c, a)) ∧
    ((serAlpha cfgAlpha d c a).map fun t => deAlphaOpt cfgAlpha json d mx (presentSeq json t)) = some (.ok (c, a)) := by
  intro d hd c hc a mx
  refine ⟨?_, optional_alpha_present_seq cfgAlpha json rfl d c hc a mx⟩
  rw [map_through (deAlphaOpt cfgAlpha json d mx) (present_serAlpha cfgAlpha json d c a)]
  rw [General.optional_alpha_present cfgAlpha cfg_wf.1 json d (colors_wf d hd).1 c hc a mx (List.Perm.refl _)]

theorem alpha_required : ∀ d ∈ colors, ∀ c : List α, c.length = d.fields.length →
    deAlpha cfgAlpha json d (present json (serColor cfgAlpha.hueTransparent d c)) = .error (.missingField "alpha") ∧
    deAlpha cfgPreAlpha json d (presentSeq json (serColor cfgAlpha.hueTransparent d c)) = .error (.missingField "alpha") := by
  intro d hd c hc
  refine ⟨?_, alpha_required_seq cfgPreAlpha json rfl d c hc⟩
  simp only [present_serColor]
  exact General.alpha_required cfgAlpha json d (colors_wf d hd).1 c hc (List.Perm.refl _)

end C20.Table
