/-
  Source-text tie, family `glue2`, sub-family `pre` (C10, C08): `PreAlpha<C>` (blend/pre_alpha.rs).

  `tools/extract.py` (plugin `tools/extract_plugins/glue2.py`, translator `tools/rust2lean_glue2.py` on the dictionary-passing lowering of
  `tools/rust2lean_glue.py`) re-translates on every run `Mix` / `MixAssign for PreAlpha<C>`, the arithmetic impls - which are written with
  two local macros, `impl_binop!` (`PreAlpha ∘ PreAlpha`) and `impl_scalar_binop!` (`PreAlpha ∘ f32 / f64`), and are read from the
  expansion (tools/rust_macros.py) of their eight actual invocations: by value and assigning, 24 bodies -, `From<Alpha<C, _>> for PreAlpha<C>`,
  `From<PreAlpha<C>> for Alpha<C, _>`, `From<C> for PreAlpha<C>`, `Deref` / `DerefMut`, into `Gen.BodyGlue2Pre.*`
  (lean/PaletteModel/Gen/BodiesGlue2Pre.lean).  The colour's own `mix` / operator / `premultiply` / `unpremultiply` is a parameter
  (trait-dispatched on the generic colour); the alpha arithmetic `self.alpha.add(other.alpha)` is the operator of the component type.

  `tie_<name>`: for every `α` with `[Scalar α]`, every value of the parameters and every input, the translated body is the model function
  of `PaletteModel/Ops.lean` that C10's law-free theorems are about (`Ops.Alpha.mix`, `mixAssign`, `binC`, `binS`, `binAssignC`,
  `binAssignS` - the model states that `Alpha` and `PreAlpha` share them; now that is proved from both texts: Tie_Alpha and here) resp.
  `Blend.premultiply` / `Blend.unpremultiply` of C08.  All `rfl`.  `preAlpha_eq_alpha_*`: the `PreAlpha` bodies and the `Alpha` bodies of
  `Gen/BodiesAlpha.lean` are the same functions (what C10's "the form on a colour wrapped with alpha / PreAlpha" relies on).

  Caught by these: `factor` used unclamped for the colour or the alpha in `mix`, `other.alpha - self.alpha` reversed, the alpha left out of
  an arithmetic impl, `$op_trait_fn` applied to the colour but another operator to the alpha, `From<Alpha>` premultiplying with
  `max_intensity()` instead of the alpha, `From<C>` with `zero()`.
  NOT translated: header of Gen/BodiesGlue2Pre.lean.
-/
import PaletteModel.Gen.BodiesGlue2Pre
import PaletteModel.Gen.BodiesAlpha

namespace Tie
variable {α : Type} [Scalar α]

/-! ### `Mix` / `MixAssign for PreAlpha<C>` -/
theorem tie_preAlphaMix (mixC : List α → List α → α → List α) (a b : Ops.Alpha α) (f : α) :
    Gen.BodyGlue2Pre.preAlphaMix mixC a b f = Ops.Alpha.mix mixC a b f := rfl
theorem tie_preAlphaMixAssign (mixAssignC : List α → List α → α → List α) (a b : Ops.Alpha α) (f : α) :
    Gen.BodyGlue2Pre.preAlphaMixAssign mixAssignC a b f = Ops.Alpha.mixAssign mixAssignC a b f := rfl
/-- C10 (assigning form = by-value form) for `PreAlpha`: when the colour's `mix_assign` is its `mix`, so is `PreAlpha`'s -/
theorem preAlphaMixAssign_eq_mix (mixC : List α → List α → α → List α) (a b : Ops.Alpha α) (f : α) :
    Gen.BodyGlue2Pre.preAlphaMixAssign mixC a b f = Gen.BodyGlue2Pre.preAlphaMix mixC a b f := rfl
/-- the `PreAlpha` form is the `Alpha` form (two different texts, one function) -/
theorem preAlpha_eq_alpha_mix (mixC : List α → List α → α → List α) (a b : Ops.Alpha α) (f : α) :
    Gen.BodyGlue2Pre.preAlphaMix mixC a b f = Gen.Body.alphaMix mixC a b f := rfl

/-! ### `Add` / `AddAssign for PreAlpha<C>` (`impl_binop!(Add::add, AddAssign::add_assign)`, `impl_scalar_binop!(.., [f32, f64])`) -/
theorem tie_preAlphaAdd (opC : List α → List α → List α) (a b : Ops.Alpha α) :
    Gen.BodyGlue2Pre.preAlphaAdd opC a b = Ops.Alpha.binC opC (· + ·) a b := rfl
theorem tie_preAlphaAddAssign (opAssignC : List α → List α → List α) (a b : Ops.Alpha α) :
    Gen.BodyGlue2Pre.preAlphaAddAssign opAssignC a b = Ops.Alpha.binAssignC opAssignC (· + ·) a b := rfl
theorem tie_preAlphaAddSF32 (opS : List α → α → List α) (a : Ops.Alpha α) (c : α) :
    Gen.BodyGlue2Pre.preAlphaAddSF32 opS a c = Ops.Alpha.binS opS (· + ·) a c := rfl
theorem tie_preAlphaAddAssignSF32 (opAssignS : List α → α → List α) (a : Ops.Alpha α) (c : α) :
    Gen.BodyGlue2Pre.preAlphaAddAssignSF32 opAssignS a c = Ops.Alpha.binAssignS opAssignS (· + ·) a c := rfl
theorem tie_preAlphaAddSF64 (opS : List α → α → List α) (a : Ops.Alpha α) (c : α) :
    Gen.BodyGlue2Pre.preAlphaAddSF64 opS a c = Ops.Alpha.binS opS (· + ·) a c := rfl
theorem tie_preAlphaAddAssignSF64 (opAssignS : List α → α → List α) (a : Ops.Alpha α) (c : α) :
    Gen.BodyGlue2Pre.preAlphaAddAssignSF64 opAssignS a c = Ops.Alpha.binAssignS opAssignS (· + ·) a c := rfl
theorem preAlpha_eq_alpha_add (opC : List α → List α → List α) (a b : Ops.Alpha α) :
    Gen.BodyGlue2Pre.preAlphaAdd opC a b = Gen.Body.alphaAdd opC a b := rfl
theorem preAlphaAddAssign_eq_value (opC : List α → List α → List α) (a b : Ops.Alpha α) :
    Gen.BodyGlue2Pre.preAlphaAddAssign opC a b = Gen.BodyGlue2Pre.preAlphaAdd opC a b := rfl
/-! ### `Sub` / `SubAssign for PreAlpha<C>` (`impl_binop!(Sub::sub, SubAssign::sub_assign)`, `impl_scalar_binop!(.., [f32, f64])`) -/
theorem tie_preAlphaSub (opC : List α → List α → List α) (a b : Ops.Alpha α) :
    Gen.BodyGlue2Pre.preAlphaSub opC a b = Ops.Alpha.binC opC (· - ·) a b := rfl
theorem tie_preAlphaSubAssign (opAssignC : List α → List α → List α) (a b : Ops.Alpha α) :
    Gen.BodyGlue2Pre.preAlphaSubAssign opAssignC a b = Ops.Alpha.binAssignC opAssignC (· - ·) a b := rfl
theorem tie_preAlphaSubSF32 (opS : List α → α → List α) (a : Ops.Alpha α) (c : α) :
    Gen.BodyGlue2Pre.preAlphaSubSF32 opS a c = Ops.Alpha.binS opS (· - ·) a c := rfl
theorem tie_preAlphaSubAssignSF32 (opAssignS : List α → α → List α) (a : Ops.Alpha α) (c : α) :
    Gen.BodyGlue2Pre.preAlphaSubAssignSF32 opAssignS a c = Ops.Alpha.binAssignS opAssignS (· - ·) a c := rfl
theorem tie_preAlphaSubSF64 (opS : List α → α → List α) (a : Ops.Alpha α) (c : α) :
    Gen.BodyGlue2Pre.preAlphaSubSF64 opS a c = Ops.Alpha.binS opS (· - ·) a c := rfl
theorem tie_preAlphaSubAssignSF64 (opAssignS : List α → α → List α) (a : Ops.Alpha α) (c : α) :
    Gen.BodyGlue2Pre.preAlphaSubAssignSF64 opAssignS a c = Ops.Alpha.binAssignS opAssignS (· - ·) a c := rfl
theorem preAlpha_eq_alpha_sub (opC : List α → List α → List α) (a b : Ops.Alpha α) :
    Gen.BodyGlue2Pre.preAlphaSub opC a b = Gen.Body.alphaSub opC a b := rfl
theorem preAlphaSubAssign_eq_value (opC : List α → List α → List α) (a b : Ops.Alpha α) :
    Gen.BodyGlue2Pre.preAlphaSubAssign opC a b = Gen.BodyGlue2Pre.preAlphaSub opC a b := rfl
/-! ### `Mul` / `MulAssign for PreAlpha<C>` (`impl_binop!(Mul::mul, MulAssign::mul_assign)`, `impl_scalar_binop!(.., [f32, f64])`) -/
theorem tie_preAlphaMul (opC : List α → List α → List α) (a b : Ops.Alpha α) :
    Gen.BodyGlue2Pre.preAlphaMul opC a b = Ops.Alpha.binC opC (· * ·) a b := rfl
theorem tie_preAlphaMulAssign (opAssignC : List α → List α → List α) (a b : Ops.Alpha α) :
    Gen.BodyGlue2Pre.preAlphaMulAssign opAssignC a b = Ops.Alpha.binAssignC opAssignC (· * ·) a b := rfl
theorem tie_preAlphaMulSF32 (opS : List α → α → List α) (a : Ops.Alpha α) (c : α) :
    Gen.BodyGlue2Pre.preAlphaMulSF32 opS a c = Ops.Alpha.binS opS (· * ·) a c := rfl
theorem tie_preAlphaMulAssignSF32 (opAssignS : List α → α → List α) (a : Ops.Alpha α) (c : α) :
    Gen.BodyGlue2Pre.preAlphaMulAssignSF32 opAssignS a c = Ops.Alpha.binAssignS opAssignS (· * ·) a c := rfl
theorem tie_preAlphaMulSF64 (opS : List α → α → List α) (a : Ops.Alpha α) (c : α) :
    Gen.BodyGlue2Pre.preAlphaMulSF64 opS a c = Ops.Alpha.binS opS (· * ·) a c := rfl
theorem tie_preAlphaMulAssignSF64 (opAssignS : List α → α → List α) (a : Ops.Alpha α) (c : α) :
    Gen.BodyGlue2Pre.preAlphaMulAssignSF64 opAssignS a c = Ops.Alpha.binAssignS opAssignS (· * ·) a c := rfl
theorem preAlpha_eq_alpha_mul (opC : List α → List α → List α) (a b : Ops.Alpha α) :
    Gen.BodyGlue2Pre.preAlphaMul opC a b = Gen.Body.alphaMul opC a b := rfl
theorem preAlphaMulAssign_eq_value (opC : List α → List α → List α) (a b : Ops.Alpha α) :
    Gen.BodyGlue2Pre.preAlphaMulAssign opC a b = Gen.BodyGlue2Pre.preAlphaMul opC a b := rfl
/-! ### `Div` / `DivAssign for PreAlpha<C>` (`impl_binop!(Div::div, DivAssign::div_assign)`, `impl_scalar_binop!(.., [f32, f64])`) -/
theorem tie_preAlphaDiv (opC : List α → List α → List α) (a b : Ops.Alpha α) :
    Gen.BodyGlue2Pre.preAlphaDiv opC a b = Ops.Alpha.binC opC (· / ·) a b := rfl
theorem tie_preAlphaDivAssign (opAssignC : List α → List α → List α) (a b : Ops.Alpha α) :
    Gen.BodyGlue2Pre.preAlphaDivAssign opAssignC a b = Ops.Alpha.binAssignC opAssignC (· / ·) a b := rfl
theorem tie_preAlphaDivSF32 (opS : List α → α → List α) (a : Ops.Alpha α) (c : α) :
    Gen.BodyGlue2Pre.preAlphaDivSF32 opS a c = Ops.Alpha.binS opS (· / ·) a c := rfl
theorem tie_preAlphaDivAssignSF32 (opAssignS : List α → α → List α) (a : Ops.Alpha α) (c : α) :
    Gen.BodyGlue2Pre.preAlphaDivAssignSF32 opAssignS a c = Ops.Alpha.binAssignS opAssignS (· / ·) a c := rfl
theorem tie_preAlphaDivSF64 (opS : List α → α → List α) (a : Ops.Alpha α) (c : α) :
    Gen.BodyGlue2Pre.preAlphaDivSF64 opS a c = Ops.Alpha.binS opS (· / ·) a c := rfl
theorem tie_preAlphaDivAssignSF64 (opAssignS : List α → α → List α) (a : Ops.Alpha α) (c : α) :
    Gen.BodyGlue2Pre.preAlphaDivAssignSF64 opAssignS a c = Ops.Alpha.binAssignS opAssignS (· / ·) a c := rfl
theorem preAlpha_eq_alpha_div (opC : List α → List α → List α) (a b : Ops.Alpha α) :
    Gen.BodyGlue2Pre.preAlphaDiv opC a b = Gen.Body.alphaDiv opC a b := rfl
theorem preAlphaDivAssign_eq_value (opC : List α → List α → List α) (a b : Ops.Alpha α) :
    Gen.BodyGlue2Pre.preAlphaDivAssign opC a b = Gen.BodyGlue2Pre.preAlphaDiv opC a b := rfl

/-! ### `From` impls (C08: premultiplied <-> straight) -/
/-- `From<Alpha<C, _>> for PreAlpha<C>`: the colour premultiplied with ITS alpha -/
theorem tie_preAlphaFromAlpha (a : Ops.Alpha α) : Gen.BodyGlue2Pre.preAlphaFromAlpha Blend.premultiply a = Blend.premultiply a.color a.alpha := rfl
theorem preAlphaFromAlpha_shape (pm : List α → α → Blend.WithAlpha α) (a : Ops.Alpha α) : Gen.BodyGlue2Pre.preAlphaFromAlpha pm a = pm a.color a.alpha := rfl
/-- `From<PreAlpha<C>> for Alpha<C, _>`: the two parts of `C::unpremultiply` -/
theorem tie_preAlphaIntoAlpha (p : Blend.WithAlpha α) :
    Gen.BodyGlue2Pre.preAlphaIntoAlpha Blend.unpremultiply p = ⟨(Blend.unpremultiply p).1, (Blend.unpremultiply p).2⟩ := rfl
/-- `From<C> for PreAlpha<C>`: premultiplied with `max_intensity()` = 1 -/
theorem tie_preAlphaFromColor (c : List α) : Gen.BodyGlue2Pre.preAlphaFromColor Blend.premultiply c = Blend.premultiply c 1.0 := rfl
/-- C08: `Alpha → PreAlpha → Alpha` through the two `From` impls is `unpremultiply ∘ premultiply` of the model (whose round trip is `C08_Blend`'s theorem) -/
theorem preAlpha_from_roundtrip (a : Ops.Alpha α) :
    Gen.BodyGlue2Pre.preAlphaIntoAlpha Blend.unpremultiply (Gen.BodyGlue2Pre.preAlphaFromAlpha Blend.premultiply a)
      = ⟨(Blend.unpremultiply (Blend.premultiply a.color a.alpha)).1, (Blend.unpremultiply (Blend.premultiply a.color a.alpha)).2⟩ := rfl

/-! ### `Deref` / `DerefMut` -/
theorem tie_preAlphaDeref (a : Ops.Alpha α) : Gen.BodyGlue2Pre.preAlphaDeref a = Ops.Alpha.color a := rfl
theorem tie_preAlphaDerefMut (a : Ops.Alpha α) : Gen.BodyGlue2Pre.preAlphaDerefMut a = Ops.Alpha.color a := rfl

end Tie
