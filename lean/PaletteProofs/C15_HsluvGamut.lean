/-
  C15 — HSLuv: bounded saturation ⇒ inside the sRGB gamut, as a corollary of `PaletteProofs.C02_HsluvGamut`
  (the six lines of `luvBounds` are the loci "linear sRGB channel = 0 / = 1"; `S ≤ 100` keeps the colour on the neutral point's side
  of all six).  (A new module and not a section of `C15_Gamut.lean`, because the proof imports `C15_Gamut`.)

  **Caveat, quantified.**  The containment is *exact* for HSLuv's own pipeline: `Luv → Xyz` with HSLuv's white reference
  (`C15.hsluvWhite`) followed by HSLuv's 15-digit matrix `M` (`Gen.Mat.hsluvM`).  palette converts `Hsluv → … → Xyz` with its
  5-digit D65 `(0.95047, 1, 1.08883)` and `Xyz → Rgb` with its own 7-digit sRGB matrix (`Gen.Mat.rgbSpaces`, Lindbloom's), and that
  matrix is NOT a 7-digit rounding of `M`: it differs from it in the **fourth** digit (largest entry difference `5.16e-4`, largest
  row sum of differences `8.40e-4`: `hsluv_vs_palette_matrix`, decided over ℚ on the extracted tables) — a different derivation of the
  sRGB primaries matrix, not noise.  Applied to one and the same `XYZ`, the two matrices therefore give channels that differ by at most
  `8.4e-4·‖XYZ‖∞` (`palette_matrix_channels_near`, `hsluv_in_gamut_palette_matrix`).  The different white used in `Luv → Xyz`
  compensates most of this (all of it on the neutral axis: both pipelines send their own white to `(1, 1, 1)`); the resulting
  excursion of palette's actual pipeline is observed by the oracle (`1.61e-4`, declared constant `2e-4`) and is **not** proved here.
-/
import PaletteProofs.C02_HsluvGamut

namespace C15
open Cie

/-- **HSLuv: every colour with `0 ≤ S ≤ 100` (every hue, every lightness `L ≤ 99.9999999` — the reference's guard — except the one
    `L⋆ ≈ 81.808` at which the `G = 1` line has `bottom = 0`) lies inside the sRGB gamut** — all three linear channels of HSLuv's
    pipeline in `[0, 1]`, no tolerance.  `hG1` holds for every `L ∉ (81.80, 81.82)` (`C02Hsluv.greenOne_bottom_ne_zero`). -/
theorem hsluv_bounded_in_gamut (H S L : ℝ) (hS0 : 0 ≤ S) (hS : S ≤ 100) (hL1 : L ≤ 99.9999999)
    (hG1 : 1e-5 ≤ L → L ≤ 99.999 → bottomOf (M3.ofK Gen.Mat.hsluvM : M3 ℝ).m4 (M3.ofK Gen.Mat.hsluvM : M3 ℝ).m5 (C02Hsluv.sub2 L) 1 ≠ 0) :
    let rgb := (M3.ofK Gen.Mat.hsluvM : M3 ℝ).mulVec (luvToXyz hsluvWhite (lchuvToLuv (hsluvToLchuv ⟨H, S, L⟩)))
    0 ≤ rgb.c0 ∧ rgb.c0 ≤ 1 ∧ 0 ≤ rgb.c1 ∧ rgb.c1 ≤ 1 ∧ 0 ≤ rgb.c2 ∧ rgb.c2 ≤ 1 := by
  rw [← C02Hsluv.hM_eq] at hG1 ⊢
  exact C02Hsluv.hsluv_in_gamut_full H S L hS0 hS hL1 hG1

/-- the same for every `L ≤ 81.80` and every `81.82 ≤ L ≤ 99.9999999`, with no hypothesis left -/
theorem hsluv_bounded_in_gamut_off_Lstar (H S L : ℝ) (hS0 : 0 ≤ S) (hS : S ≤ 100) (hL1 : L ≤ 99.9999999) (hL : L ≤ 81.80 ∨ 81.82 ≤ L) :
    let rgb := (M3.ofK Gen.Mat.hsluvM : M3 ℝ).mulVec (luvToXyz hsluvWhite (lchuvToLuv (hsluvToLchuv ⟨H, S, L⟩)))
    0 ≤ rgb.c0 ∧ rgb.c0 ≤ 1 ∧ 0 ≤ rgb.c1 ∧ rgb.c1 ≤ 1 ∧ 0 ≤ rgb.c2 ∧ rgb.c2 ≤ 1 := by
  rw [← C02Hsluv.hM_eq]
  exact C02Hsluv.hsluv_in_gamut_full H S L hS0 hS hL1 (fun h5 _ => C02Hsluv.greenOne_bottom_ne_zero L (by linarith) hL)

/-- non-vacuity: full saturation at mid lightness -/
example : (0 : ℝ) ≤ 100 ∧ (100 : ℝ) ≤ 100 ∧ (50 : ℝ) ≤ 99.9999999 ∧ ((50 : ℝ) ≤ 81.80 ∨ (81.82 : ℝ) ≤ 50) := by norm_num

/-- palette's `Xyz → Rgb` sRGB matrix (the first RGB space of the generated table, identified below by its digits) -/
def srgbXyzToRgb : List K := match Gen.Mat.rgbSpaces with
  | (_, _, _, m, _) :: _ => m
  | [] => []

/-- largest entry of `|A − B|` -/
def maxEntryDiff (a b : KRat.Mat) : Rat := (List.zipWith (fun x y => KRat.absR (x - y)) a b).foldl max 0

/-- **the matrix caveat, decided over ℚ on the extracted tables**: palette's sRGB `Xyz → Rgb` matrix is the published 7-digit one,
    and it differs from HSLuv's `M` by `5.1e-4 < max |entry| ≤ 5.2e-4` (fourth digit) and `8.3e-4 < ‖·‖∞ ≤ 8.4e-4` (row sums) -/
theorem hsluv_vs_palette_matrix :
    KRat.ofK srgbXyzToRgb = [3.2404542, -1.5371385, -0.4985314, -0.9692660, 1.8760108, 0.0415560, 0.0556434, -0.2040259, 1.0572252] ∧
    maxEntryDiff (KRat.ofK Gen.Mat.hsluvM) (KRat.ofK srgbXyzToRgb) ≤ 5.2e-4 ∧
    5.1e-4 < maxEntryDiff (KRat.ofK Gen.Mat.hsluvM) (KRat.ofK srgbXyzToRgb) ∧
    KRat.distInf (KRat.ofK Gen.Mat.hsluvM) (KRat.ofK srgbXyzToRgb) ≤ 8.4e-4 ∧
    8.3e-4 < KRat.distInf (KRat.ofK Gen.Mat.hsluvM) (KRat.ofK srgbXyzToRgb) := by
  decide +kernel

theorem row_bound3 {e0 e1 e2 x0 x1 x2 ε0 ε1 ε2 r : ℝ} (h0 : |e0| ≤ ε0) (h1 : |e1| ≤ ε1) (h2 : |e2| ≤ ε2)
    (g0 : |x0| ≤ r) (g1 : |x1| ≤ r) (g2 : |x2| ≤ r) : |e0 * x0 + e1 * x1 + e2 * x2| ≤ (ε0 + ε1 + ε2) * r := by
  have hr : 0 ≤ r := le_trans (abs_nonneg _) g0
  have t0 : |e0 * x0| ≤ ε0 * r := by rw [abs_mul]; exact mul_le_mul h0 g0 (abs_nonneg _) (le_trans (abs_nonneg _) h0)
  have t1 : |e1 * x1| ≤ ε1 * r := by rw [abs_mul]; exact mul_le_mul h1 g1 (abs_nonneg _) (le_trans (abs_nonneg _) h1)
  have t2 : |e2 * x2| ≤ ε2 * r := by rw [abs_mul]; exact mul_le_mul h2 g2 (abs_nonneg _) (le_trans (abs_nonneg _) h2)
  calc |e0 * x0 + e1 * x1 + e2 * x2| ≤ |e0 * x0 + e1 * x1| + |e2 * x2| := abs_add_le _ _
    _ ≤ |e0 * x0| + |e1 * x1| + |e2 * x2| := by linarith [abs_add_le (e0 * x0) (e1 * x1)]
    _ ≤ (ε0 + ε1 + ε2) * r := by nlinarith

/-- **one `XYZ`, two matrices**: each channel computed with palette's sRGB matrix is within `8.4e-4·r` of the channel computed with
    HSLuv's `M`, for `‖xyz‖∞ ≤ r` (row sums of `|B − M|`: `8.40e-4`, `6.7e-5`, `3.16e-4`) -/
theorem palette_matrix_channels_near (x : V3 ℝ) (r : ℝ) (h0 : |x.c0| ≤ r) (h1 : |x.c1| ≤ r) (h2 : |x.c2| ≤ r) :
    let a := (M3.ofK srgbXyzToRgb : M3 ℝ).mulVec x
    let b := (M3.ofK Gen.Mat.hsluvM : M3 ℝ).mulVec x
    |a.c0 - b.c0| ≤ 8.4e-4 * r ∧ |a.c1 - b.c1| ≤ 6.7e-5 * r ∧ |a.c2 - b.c2| ≤ 3.2e-4 * r := by
  simp only [srgbXyzToRgb, Gen.Mat.rgbSpaces, Gen.Mat.hsluvM, M3.ofK, M3.mulVec, RealScalar.const_eq, RealScalar.eval_neg, RealScalar.eval_ofSci]
  refine ⟨?_, ?_, ?_⟩
  · have := row_bound3 (e0 := 3.2404542 - 3.240969941904521) (e1 := -1.5371385 - -1.537383177570093) (e2 := -0.4985314 - -0.498610760293)
      (ε0 := 5.158e-4) (ε1 := 2.447e-4) (ε2 := 7.937e-5) (by rw [abs_le]; constructor <;> norm_num) (by rw [abs_le]; constructor <;> norm_num)
      (by rw [abs_le]; constructor <;> norm_num) h0 h1 h2
    have hr : 0 ≤ r := le_trans (abs_nonneg _) h0
    refine le_trans (le_of_eq ?_) (le_trans this (by nlinarith))
    congr 1; ring
  · have := row_bound3 (e0 := -0.9692660 - -0.96924363628087) (e1 := 1.8760108 - 1.87596750150772) (e2 := 0.0415560 - 0.041555057407175)
      (ε0 := 2.24e-5) (ε1 := 4.34e-5) (ε2 := 1e-6) (by rw [abs_le]; constructor <;> norm_num) (by rw [abs_le]; constructor <;> norm_num)
      (by rw [abs_le]; constructor <;> norm_num) h0 h1 h2
    have hr : 0 ≤ r := le_trans (abs_nonneg _) h0
    refine le_trans (le_of_eq ?_) (le_trans this (by nlinarith))
    congr 1; ring
  · have := row_bound3 (e0 := 0.0556434 - 0.055630079696993) (e1 := -0.2040259 - -0.20397695888897) (e2 := 1.0572252 - 1.056971514242878)
      (ε0 := 1.34e-5) (ε1 := 4.9e-5) (ε2 := 2.54e-4) (by rw [abs_le]; constructor <;> norm_num) (by rw [abs_le]; constructor <;> norm_num)
      (by rw [abs_le]; constructor <;> norm_num) h0 h1 h2
    have hr : 0 ≤ r := le_trans (abs_nonneg _) h0
    refine le_trans (le_of_eq ?_) (le_trans this (by nlinarith))
    congr 1; ring

/-- **C15 corollary with palette's matrix**: the `XYZ` that HSLuv's pipeline produces for `0 ≤ S ≤ 100` (which `M` maps into `[0,1]³`
    exactly), read with palette's 7-digit sRGB matrix instead, has channels in `[−8.4e-4·r, 1 + 8.4e-4·r]` for `‖XYZ‖∞ ≤ r`
    (`r ≤ 1.09` inside the gamut).  This is the matrix half of the caveat only; palette also uses a different white in `Luv → Xyz`,
    which compensates most of it: the oracle's `2e-4` for the real pipeline is searched, not proved. -/
theorem hsluv_in_gamut_palette_matrix (H S L r : ℝ) (hS0 : 0 ≤ S) (hS : S ≤ 100) (hL1 : L ≤ 99.9999999) (hL : L ≤ 81.80 ∨ 81.82 ≤ L)
    (hr : let xyz := luvToXyz hsluvWhite (lchuvToLuv (hsluvToLchuv ⟨H, S, L⟩)); |xyz.c0| ≤ r ∧ |xyz.c1| ≤ r ∧ |xyz.c2| ≤ r) :
    let rgb := (M3.ofK srgbXyzToRgb : M3 ℝ).mulVec (luvToXyz hsluvWhite (lchuvToLuv (hsluvToLchuv ⟨H, S, L⟩)))
    (-8.4e-4 * r ≤ rgb.c0 ∧ rgb.c0 ≤ 1 + 8.4e-4 * r ∧ -8.4e-4 * r ≤ rgb.c1 ∧ rgb.c1 ≤ 1 + 8.4e-4 * r ∧
      -8.4e-4 * r ≤ rgb.c2 ∧ rgb.c2 ≤ 1 + 8.4e-4 * r) := by
  obtain ⟨r0, r1, r2⟩ := hr
  have hr0 : 0 ≤ r := le_trans (abs_nonneg _) r0
  obtain ⟨a0, a1, a2, a3, a4, a5⟩ := hsluv_bounded_in_gamut_off_Lstar H S L hS0 hS hL1 hL
  obtain ⟨n0, n1, n2⟩ := palette_matrix_channels_near _ r r0 r1 r2
  rw [abs_le] at n0 n1 n2
  intro rgb
  refine ⟨?_, ?_, ?_, ?_, ?_, ?_⟩ <;> nlinarith [n0.1, n0.2, n1.1, n1.2, n2.1, n2.2]

/-- Cramer's rule for `y = m·x`, written without inverting: `det(m)·x = adj(m)·y` -/
theorem adj_mulVec (m : M3 ℝ) (x : V3 ℝ) :
    (m.m0 * (m.m4 * m.m8 - m.m5 * m.m7) - m.m1 * (m.m3 * m.m8 - m.m5 * m.m6) + m.m2 * (m.m3 * m.m7 - m.m4 * m.m6)) * x.c0
      = (m.m4 * m.m8 - m.m5 * m.m7) * (m.mulVec x).c0 + (m.m2 * m.m7 - m.m1 * m.m8) * (m.mulVec x).c1 + (m.m1 * m.m5 - m.m2 * m.m4) * (m.mulVec x).c2 ∧
    (m.m0 * (m.m4 * m.m8 - m.m5 * m.m7) - m.m1 * (m.m3 * m.m8 - m.m5 * m.m6) + m.m2 * (m.m3 * m.m7 - m.m4 * m.m6)) * x.c1
      = (m.m5 * m.m6 - m.m3 * m.m8) * (m.mulVec x).c0 + (m.m0 * m.m8 - m.m2 * m.m6) * (m.mulVec x).c1 + (m.m2 * m.m3 - m.m0 * m.m5) * (m.mulVec x).c2 ∧
    (m.m0 * (m.m4 * m.m8 - m.m5 * m.m7) - m.m1 * (m.m3 * m.m8 - m.m5 * m.m6) + m.m2 * (m.m3 * m.m7 - m.m4 * m.m6)) * x.c2
      = (m.m3 * m.m7 - m.m4 * m.m6) * (m.mulVec x).c0 + (m.m1 * m.m6 - m.m0 * m.m7) * (m.mulVec x).c1 + (m.m0 * m.m4 - m.m1 * m.m3) * (m.mulVec x).c2 := by
  simp only [M3.mulVec]
  refine ⟨by ring, by ring, by ring⟩

/-- **an `XYZ` that HSLuv's `M` maps into the unit cube is bounded by HSLuv's white**: `0 ≤ X ≤ 0.9505`, `0 ≤ Y ≤ 1.0001`, `0 ≤ Z ≤ 1.0891`
    (`M⁻¹ = adj(M)/det(M)` has positive entries: the primaries) -/
theorem xyz_bounded_of_in_gamut (x : V3 ℝ)
    (h : let rgb := (M3.ofK Gen.Mat.hsluvM : M3 ℝ).mulVec x; 0 ≤ rgb.c0 ∧ rgb.c0 ≤ 1 ∧ 0 ≤ rgb.c1 ∧ rgb.c1 ≤ 1 ∧ 0 ≤ rgb.c2 ∧ rgb.c2 ≤ 1) :
    |x.c0| ≤ 1.09 ∧ |x.c1| ≤ 1.09 ∧ |x.c2| ≤ 1.09 := by
  rw [← C02Hsluv.hM_eq] at h
  obtain ⟨a0, a1, a2, a3, a4, a5⟩ := h
  obtain ⟨e0, e1, e2⟩ := adj_mulVec C02Hsluv.hM x
  set r := (C02Hsluv.hM.mulVec x).c0
  set g := (C02Hsluv.hM.mulVec x).c1
  set b := (C02Hsluv.hM.mulVec x).c2
  rw [C02Hsluv.hM_val] at e0 e1 e2
  simp only at e0 e1 e2
  norm_num at e0 e1 e2
  refine ⟨?_, ?_, ?_⟩ <;> rw [abs_le] <;> constructor <;> linarith

/-- **C15 corollary with palette's matrix, no parameter left**: for `0 ≤ S ≤ 100`, every hue, `L ≤ 99.9999999`, `L ∉ (81.80, 81.82)`, the
    `XYZ` of HSLuv's pipeline read with palette's 7-digit sRGB matrix has every channel in `[−9.2e-4, 1 + 9.2e-4]`. -/
theorem hsluv_in_gamut_palette_matrix_abs (H S L : ℝ) (hS0 : 0 ≤ S) (hS : S ≤ 100) (hL1 : L ≤ 99.9999999) (hL : L ≤ 81.80 ∨ 81.82 ≤ L) :
    let rgb := (M3.ofK srgbXyzToRgb : M3 ℝ).mulVec (luvToXyz hsluvWhite (lchuvToLuv (hsluvToLchuv ⟨H, S, L⟩)))
    (-9.2e-4 ≤ rgb.c0 ∧ rgb.c0 ≤ 1 + 9.2e-4 ∧ -9.2e-4 ≤ rgb.c1 ∧ rgb.c1 ≤ 1 + 9.2e-4 ∧ -9.2e-4 ≤ rgb.c2 ∧ rgb.c2 ≤ 1 + 9.2e-4) := by
  have hb := xyz_bounded_of_in_gamut _ (hsluv_bounded_in_gamut_off_Lstar H S L hS0 hS hL1 hL)
  obtain ⟨a0, a1, a2, a3, a4, a5⟩ := hsluv_in_gamut_palette_matrix H S L 1.09 hS0 hS hL1 hL hb
  intro rgb
  refine ⟨?_, ?_, ?_, ?_, ?_, ?_⟩ <;> norm_num at a0 a1 a2 a3 a4 a5 ⊢ <;> linarith

end C15
