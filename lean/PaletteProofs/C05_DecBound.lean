/-
  C05 — **the decode tables are the standard's inverse curve** (`IntoLinear<f32, u8>` / `IntoLinear<f64, u8>`: table reads), every
  code, with the true bounds (the oracle on the implementation uses 1e-6):

    intoLinear32_faithful (e) (c < 256) :  the entry is a pattern `≤ 0x3f800000` and
        |f32val (intoLinear32 e c) − intoLinear (curveOf e) (c/255)| < 4e-8
    intoLinear64_faithful (e) (c < 256) :  the entry is a pattern `≤ 0x3ff0000000000000` and
        |f64val (intoLinear64 e c) − intoLinear (curveOf e) (c/255)| < 1.5e-8 (sRGB) / 2e-15 (Rec., Adobe RGB, P3)

  `intoLinear32/64` are the table reads the driver executes (`PaletteModel/Lut.lean`, tables regenerated from /repo), `intoLinear` the
  generic float curve of `PaletteModel/Color/Transfer.lean` read at ℝ with the PUBLISHED constants (`Real.rpow`), `f32val`/`f64val` the
  real number a pattern stands for.  The sRGB f64 table is 1.4e-8 away from the published curve because the generator
  (codegen/src/lut.rs) replaces 1.055 by the continuity-preserving `α = (12.92·β − 1)/(β^(1/2.4) − 1) ≈ 1.0550107`; that is what the
  property's "step of less than 1e-6 that the published constants themselves leave" allows, and it is two orders below it.

  Proof: kernel evaluation (module `C05_DecTables`) of two integer power comparisons per entry (`Lemmas/C05_DecCheck.lean`), lifted
  through `Real.rpow` with the rational exponents 12/5, 20/9, 563/256, 13/5.
-/
import PaletteProofs.C05_ErrBound
import PaletteProofs.C05_Join
import PaletteProofs.C05_DecTables
import PaletteProofs.Lemmas.C05_NarrowVal

namespace C05D
open Lut Transfer C05 C05T C05E

/-- `nearPow` read at ℝ -/
theorem nearPow_real (vn vd rn rd p q en ed : Nat) (hvd : 0 < vd) (hrd : 0 < rd) (hed : 0 < ed) (hq : 0 < q)
    (h : nearPow vn vd rn rd p q en ed = true) :
    |(vn:ℝ) / vd - ((rn:ℝ) / rd) ^ ((p:ℝ) / (q:ℝ))| < (en:ℝ) / ed := by
  simp only [nearPow, Bool.and_eq_true, Bool.or_eq_true, decide_eq_true_eq] at h
  obtain ⟨hl, hu⟩ := h
  have hvd' : (0:ℝ) < vd := by exact_mod_cast hvd
  have hrd' : (0:ℝ) < rd := by exact_mod_cast hrd
  have hed' : (0:ℝ) < ed := by exact_mod_cast hed
  have hx0 : (0:ℝ) ≤ (rn:ℝ) / rd := by positivity
  have hy0 : 0 ≤ ((rn:ℝ) / rd) ^ ((p:ℝ) / (q:ℝ)) := Real.rpow_nonneg hx0 _
  rw [abs_lt]
  constructor
  · -- y < v + ε
    have hc := (Nat.cast_lt (α := ℝ)).mpr hu
    push_cast at hc
    have hpow : ((rn:ℝ) / rd) ^ p < (((vn:ℝ) * ed + en * vd) / (vd * ed)) ^ q := by
      rw [div_pow, div_pow, div_lt_div_iff₀ (by positivity) (by positivity)]
      exact hc
    have := rpow_div_lt_of_pow_lt hx0 (by positivity) hq hpow
    have e : ((vn:ℝ) * ed + en * vd) / (vd * ed) = (vn:ℝ) / vd + (en:ℝ) / ed := by field_simp
    rw [e] at this; linarith
  · -- v − ε < y
    rcases hl with hneg | hl
    · have hc := (Nat.cast_lt (α := ℝ)).mpr hneg
      push_cast at hc
      have : (vn:ℝ) / vd < (en:ℝ) / ed := by rw [div_lt_div_iff₀ hvd' hed']; exact hc
      linarith
    · by_cases hge : en * vd ≤ vn * ed
      · have hc := (Nat.cast_lt (α := ℝ)).mpr hl
        rw [Nat.cast_mul, Nat.cast_pow, Nat.cast_sub hge] at hc
        push_cast at hc
        have hN0 : (0:ℝ) ≤ (vn:ℝ) * ed - en * vd := by
          have := (Nat.cast_le (α := ℝ)).mpr hge; push_cast at this; linarith
        have hpow : (((vn:ℝ) * ed - en * vd) / (vd * ed)) ^ q < ((rn:ℝ) / rd) ^ p := by
          rw [div_pow, div_pow, div_lt_div_iff₀ (by positivity) (by positivity)]
          exact hc
        have := lt_rpow_div_of_pow_lt hx0 (div_nonneg hN0 (by positivity)) hq hpow
        have e : ((vn:ℝ) * ed - en * vd) / (vd * ed) = (vn:ℝ) / vd - (en:ℝ) / ed := by field_simp
        rw [e] at this; linarith
      · have hc := (Nat.cast_lt (α := ℝ)).mpr (Nat.lt_of_not_le hge)
        push_cast at hc
        have : (vn:ℝ) / vd < (en:ℝ) / ed := by rw [div_lt_div_iff₀ hvd' hed']; exact hc
        linarith

/-! ## the four inverse curves at `c/255` in the form `(rn/rd)^(p/q)` -/

theorem one_one : ((1:ℕ):ℝ) / ((1:ℕ):ℝ) = 1 := by norm_num

theorem srgb_inv_link (c : Nat) :
    srgbIntoLinear ((c:ℝ) / 255) = ((invRn .srgb c : ℝ) / invRd .srgb c) ^ ((invP .srgb c : ℝ) / (invQ .srgb c : ℝ)) := by
  simp only [invRn, invRd, invP, invQ]
  by_cases h : c ≤ 10
  · have hc : (c:ℝ) ≤ 10 := by exact_mod_cast h
    rw [if_pos h, if_pos h, if_pos h, if_pos h, one_one, Real.rpow_one]
    rw [srgbInto_lo (by rw [div_le_iff₀ (by norm_num)]; linarith)]
    push_cast; norm_num; ring
  · have hc : (11:ℝ) ≤ c := by exact_mod_cast (by omega : 11 ≤ c)
    rw [if_neg h, if_neg h, if_neg h, if_neg h]
    rw [srgbInto_hi (by rw [not_le, lt_div_iff₀ (by norm_num)]; linarith)]
    have he : (2.4:ℝ) = ((12:ℕ):ℝ) / ((5:ℕ):ℝ) := by norm_num
    rw [he]
    congr 1
    push_cast; norm_num; ring

theorem rec_inv_link (c : Nat) :
    recIntoLinear ((c:ℝ) / 255) = ((invRn .recOetf c : ℝ) / invRd .recOetf c) ^ ((invP .recOetf c : ℝ) / (invQ .recOetf c : ℝ)) := by
  simp only [invRn, invRd, invP, invQ]
  by_cases h : c ≤ 20
  · have hc : (c:ℝ) ≤ 20 := by exact_mod_cast h
    rw [if_pos h, if_pos h, if_pos h, if_pos h, one_one, Real.rpow_one]
    rw [recInto_lo (by rw [div_lt_iff₀ (by norm_num)]; linarith)]
    push_cast; norm_num; ring
  · have hc : (21:ℝ) ≤ c := by exact_mod_cast (by omega : 21 ≤ c)
    rw [if_neg h, if_neg h, if_neg h, if_neg h]
    rw [recInto_hi (by rw [not_lt, le_div_iff₀ (by norm_num)]; linarith)]
    have he : ((1.0:ℝ) / 0.45) = ((20:ℕ):ℝ) / ((9:ℕ):ℝ) := by norm_num
    rw [he]
    congr 1
    push_cast; norm_num; ring

theorem adobe_inv_link (c : Nat) :
    adobeIntoLinear ((c:ℝ) / 255) = ((invRn .adobeRgb c : ℝ) / invRd .adobeRgb c) ^ ((invP .adobeRgb c : ℝ) / (invQ .adobeRgb c : ℝ)) := by
  simp only [invRn, invRd, invP, invQ, adobeIntoLinear, RealScalar.powf_eq, RealScalar.const_eq, RealScalar.eval_div, RealScalar.eval_ofSci]
  have he : ((563.0:ℝ) / 256.0) = ((563:ℕ):ℝ) / ((256:ℕ):ℝ) := by norm_num
  rw [he]; norm_num

theorem p3_inv_link (c : Nat) :
    p3IntoLinear ((c:ℝ) / 255) = ((invRn .p3Gamma c : ℝ) / invRd .p3Gamma c) ^ ((invP .p3Gamma c : ℝ) / (invQ .p3Gamma c : ℝ)) := by
  simp only [invRn, invRd, invP, invQ, p3IntoLinear, RealScalar.powf_eq]
  have he : (2.6:ℝ) = ((13:ℕ):ℝ) / ((5:ℕ):ℝ) := by norm_num
  rw [he]; norm_num

theorem inv_link (e : Enc) (c : Nat) :
    intoLinear (curveOf e) ((c:ℝ) / 255) = ((invRn e c : ℝ) / invRd e c) ^ ((invP e c : ℝ) / (invQ e c : ℝ)) := by
  cases e
  · exact srgb_inv_link c
  · exact rec_inv_link c
  · exact adobe_inv_link c
  · exact p3_inv_link c

theorem invRd_pos (e : Enc) (c : Nat) : 0 < invRd e c := by
  cases e <;> simp only [invRd] <;> (try split) <;> norm_num
theorem invQ_pos (e : Enc) (c : Nat) : 0 < invQ e c := by
  cases e <;> simp only [invQ] <;> (try split) <;> norm_num

theorem dec32_all (e : Enc) : allBelow (code32OK e) 256 = true := by
  cases e
  · exact srgb_dec32
  · exact rec_dec32
  · exact adobe_dec32
  · exact p3_dec32

theorem dec64_all (e : Enc) : allBelow (code64OK e) 256 = true := by
  cases e
  · exact srgb_dec64
  · exact rec_dec64
  · exact adobe_dec64
  · exact p3_dec64

/-! ## the theorems -/

/-- **f32 decode tables**: every entry is a pattern in `[+0, 1.0]` within `4e-8` of the standard's inverse curve at `c/255` -/
theorem intoLinear32_faithful (e : Enc) (c : Nat) (hc : c < 256) :
    intoLinear32 e c ≤ 0x3f800000 ∧
    |f32val (intoLinear32 e c) - intoLinear (curveOf e) ((c:ℝ) / 255)| < 4e-8 := by
  have h := allBelow_get _ 256 (dec32_all e) c hc
  simp only [code32OK, Bool.and_eq_true, decide_eq_true_eq] at h
  refine ⟨h.1, ?_⟩
  have := nearPow_real _ _ _ _ _ _ _ _ (by positivity) (invRd_pos e c) (by decide) (invQ_pos e c) h.2
  rw [inv_link]
  unfold f32val
  simp only [eps32n, eps32d, Nat.cast_mul, Nat.cast_pow, Nat.cast_ofNat] at this
  have e1 : ((4:ℝ)) / 100000000 = 4e-8 := by norm_num
  rw [e1] at this
  exact this

/-- the bound stated for each f64 table -/
noncomputable def bound64 : Enc → ℝ
  | .srgb => 1.5e-8 | .recOetf => 2e-15 | .adobeRgb => 2e-15 | .p3Gamma => 2e-15

theorem bound64_eq (e : Enc) : ((eps64n e : ℕ) : ℝ) / ((eps64d e : ℕ) : ℝ) = bound64 e := by
  cases e <;> simp only [eps64n, eps64d, bound64] <;> norm_num

theorem wOf64_eq (B : Nat) : wOf64 B = Ieee.F64.wOf B := rfl

/-- **f64 decode tables**: every entry is a pattern in `[+0, 1.0]` within `1.5e-8` (sRGB) / `2e-15` (Rec., Adobe RGB, P3) of the
    standard's inverse curve at `c/255` -/
theorem intoLinear64_faithful (e : Enc) (c : Nat) (hc : c < 256) :
    intoLinear64 e c ≤ 0x3ff0000000000000 ∧
    |C05F.f64val (intoLinear64 e c) - intoLinear (curveOf e) ((c:ℝ) / 255)| < bound64 e := by
  have h := allBelow_get _ 256 (dec64_all e) c hc
  simp only [code64OK, Bool.and_eq_true, decide_eq_true_eq] at h
  refine ⟨h.1, ?_⟩
  have := nearPow_real _ _ _ _ _ _ _ _ (by positivity) (invRd_pos e c) (by cases e <;> decide) (invQ_pos e c) h.2
  rw [inv_link, ← bound64_eq]
  unfold C05F.f64val
  rw [← wOf64_eq]
  simp only [Nat.cast_pow, Nat.cast_ofNat] at this
  exact this

/-- all bounds are far below the `1e-6` of the property text -/
theorem bound64_lt (e : Enc) : bound64 e < 1e-6 := by cases e <;> simp only [bound64] <;> norm_num

/-- sanity: code 255 decodes to exactly 1.0 in all eight tables, code 0 to +0 -/
example : ∀ e ∈ Enc.all, intoLinear32 e 255 = 0x3f800000 ∧ intoLinear64 e 255 = 0x3ff0000000000000 ∧
    intoLinear32 e 0 = 0 ∧ intoLinear64 e 0 = 0 := by decide +kernel

end C05D
